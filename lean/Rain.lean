import Rain.Bytes
import Rain.Crc
import Rain.Log
