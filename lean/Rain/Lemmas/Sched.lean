import Rain.Sched
/-
Helper lemmas for the background-work scheduling protocol (`Rain/Sched.lean`).
-/
namespace Rain.Sched

/-! ### Prop-level readings of the executable definitions -/

theorem hasWork_iff (s : State) : hasWork s = true ↔ (s.imm = true ∨ 0 < s.manual ∨ 0 < s.work) := by
  simp [hasWork, or_assoc]

theorem hasWork_false_iff (s : State) : hasWork s = false ↔ (s.imm = false ∧ s.manual = 0 ∧ s.work = 0) := by
  simp [hasWork, and_assoc]

theorem pressureOk_iff (p : Params) (l0 work : Nat) :
    pressureOk p l0 work = true ↔ (p.l0Trigger ≤ l0 → 0 < work) := by
  simp only [pressureOk, decide_eq_true_eq]

/-- the flag / channel / worker triple is in one of three modes: idle, queued, running -/
def Struct (s : State) : Prop :=
  (s.scheduled = false ∧ s.tasks = 0 ∧ s.running = false) ∨
  (s.scheduled = true ∧ s.tasks = 1 ∧ s.running = false) ∨
  (s.scheduled = true ∧ s.tasks = 0 ∧ s.running = true)

/-- the Prop reading of `inv` -/
structure Inv (p : Params) (s : State) : Prop where
  struct : Struct s
  sched : s.bad = false → s.shutting = false → hasWork s = true → s.scheduled = true
  press : p.l0Trigger ≤ s.l0 → 0 < s.work
  wake : 0 < s.waiters → s.scheduled = true

theorem struct_iff (s : State) :
    ((s.scheduled == (decide (0 < s.tasks) || s.running)) && decide (s.tasks ≤ 1) &&
      !(decide (0 < s.tasks) && s.running)) = true ↔ Struct s := by
  unfold Struct
  cases s.scheduled <;> cases s.running <;> simp <;> omega

theorem inv_iff (p : Params) (s : State) : inv p s = true ↔ Inv p s := by
  constructor
  · intro h
    simp only [inv, Bool.and_eq_true] at h
    obtain ⟨⟨⟨h1, h2⟩, h3⟩, h4⟩ := h
    refine ⟨(struct_iff s).1 (by simp only [Bool.and_eq_true]; exact h1), ?_, (pressureOk_iff ..).1 h3, ?_⟩
    · intro hb hs hw
      simpa [hb, hs, hw] using h2
    · intro hw
      simpa [hw] using h4
  · intro ⟨h1, h2, h3, h4⟩
    have h1' := (struct_iff s).2 h1
    simp only [Bool.and_eq_true] at h1'
    simp only [inv, Bool.and_eq_true]
    refine ⟨⟨⟨h1', ?_⟩, (pressureOk_iff ..).2 h3⟩, ?_⟩
    · split
      · next hc =>
        simp only [Bool.not_eq_true'] at hc
        exact h2 hc.1.1 hc.1.2 hc.2
      · rfl
    · split
      · next hc => exact h4 hc
      · rfl

/-! ### `maybeSchedule` -/

/-- the guard of `maybeSchedule` as a Prop -/
def Skip (s : State) : Prop :=
  s.scheduled = true ∨ s.shutting = true ∨ s.bad = true ∨ hasWork s = false

theorem maybeSchedule_skip {s : State} (h : Skip s) : maybeSchedule s = s := by
  unfold Skip at h
  unfold maybeSchedule
  rw [if_pos]
  simp only [Bool.or_eq_true, Bool.not_eq_true', or_assoc]
  exact h

theorem maybeSchedule_fire {s : State} (h : ¬ Skip s) :
    maybeSchedule s = { s with scheduled := true, tasks := s.tasks + 1 } := by
  unfold Skip at h
  unfold maybeSchedule
  rw [if_neg]
  simp only [Bool.or_eq_true, Bool.not_eq_true', or_assoc]
  exact h

theorem not_skip {s : State} (h : ¬ Skip s) :
    s.scheduled = false ∧ s.shutting = false ∧ s.bad = false ∧ hasWork s = true := by
  unfold Skip at h
  cases h1 : s.scheduled <;> cases h2 : s.shutting <;> cases h3 : s.bad <;> cases h4 : hasWork s <;> simp_all

theorem maybeSchedule_running (s : State) : (maybeSchedule s).running = s.running := by
  by_cases hk : Skip s
  · rw [maybeSchedule_skip hk]
  · rw [maybeSchedule_fire hk]

theorem maybeSchedule_bad (s : State) : (maybeSchedule s).bad = s.bad := by
  by_cases hk : Skip s
  · rw [maybeSchedule_skip hk]
  · rw [maybeSchedule_fire hk]

theorem maybeSchedule_waiters (s : State) : (maybeSchedule s).waiters = s.waiters := by
  by_cases hk : Skip s
  · rw [maybeSchedule_skip hk]
  · rw [maybeSchedule_fire hk]

theorem maybeSchedule_potential (p : Params) (s : State) :
    potential p (maybeSchedule s) = potential p s := by
  by_cases hk : Skip s
  · rw [maybeSchedule_skip hk]
  · rw [maybeSchedule_fire hk]; rfl

theorem maybeSchedule_hasWork (s : State) : hasWork (maybeSchedule s) = hasWork s := by
  by_cases hk : Skip s
  · rw [maybeSchedule_skip hk]
  · rw [maybeSchedule_fire hk]; rfl

theorem Struct_maybeSchedule (s : State) (h1 : Struct s) : Struct (maybeSchedule s) := by
  by_cases hk : Skip s
  · rw [maybeSchedule_skip hk]; exact h1
  · rw [maybeSchedule_fire hk]
    have hk' := (not_skip hk).1
    unfold Struct at h1 ⊢
    simp [hk'] at h1
    simpa using h1

/-- `maybeSchedule` turns a state satisfying everything but `sched` into one satisfying `Inv` -/
theorem Inv_maybeSchedule (p : Params) (s : State) (h1 : Struct s) (h3 : p.l0Trigger ≤ s.l0 → 0 < s.work)
    (h4 : 0 < s.waiters → s.scheduled = true) : Inv p (maybeSchedule s) := by
  refine ⟨Struct_maybeSchedule s h1, ?_, ?_, ?_⟩
  all_goals by_cases hk : Skip s
  · rw [maybeSchedule_skip hk]
    intro hb hs hw
    unfold Skip at hk
    simp only [hb, hs, hw] at hk
    simpa using hk
  · rw [maybeSchedule_fire hk]; exact fun _ _ _ => rfl
  · rw [maybeSchedule_skip hk]; exact h3
  · rw [maybeSchedule_fire hk]; exact h3
  · rw [maybeSchedule_skip hk]; exact h4
  · rw [maybeSchedule_fire hk]; exact fun _ => rfl

/-! ### enabledness of `workerFinish` -/

/-- the worker has nothing it may do: `coordinate_compaction` returns immediately -/
def Idle (s : State) : Prop := s.shutting = true ∨ s.bad = true ∨ hasWork s = false

/-- the side conditions on an outcome when the worker does have something to do -/
def OutOk (p : Params) (s : State) : Outcome → Prop
  | .flushed dl0 dwork =>
    s.imm = true ∧ dl0 ≤ 1 ∧ dwork ≤ p.flushCost ∧ (p.l0Trigger ≤ s.l0 + dl0 → 0 < s.work + dwork)
  | .manualRound dwork dl0 =>
    s.imm = false ∧ 0 < s.manual ∧ dwork ≤ p.manualCost ∧ dl0 ≤ s.l0 ∧
      (p.l0Trigger ≤ s.l0 - dl0 → 0 < s.work + dwork)
  | .compacted dec dl0 =>
    s.imm = false ∧ s.manual = 0 ∧ 0 < dec ∧ dec ≤ s.work ∧ dl0 ≤ s.l0 ∧
      (p.l0Trigger ≤ s.l0 - dl0 → 0 < s.work - dec)
  | .nothing => False
  | .failed => True

theorem enabled_finish_iff (p : Params) (s : State) (o : Outcome) :
    enabled p s (.workerFinish o) = true ↔
      s.running = true ∧ ((Idle s ∧ o = .nothing) ∨ (¬ Idle s ∧ OutOk p s o)) := by
  unfold enabled
  by_cases hi : Idle s
  · have hc : (s.shutting || s.bad || !hasWork s) = true := by
      unfold Idle at hi
      simpa [or_assoc] using hi
    simp only [hc, if_true, Bool.and_eq_true, beq_iff_eq, hi, true_and, not_true, false_and, or_false]
  · have hc : (s.shutting || s.bad || !hasWork s) = false := by
      unfold Idle at hi
      cases h1 : s.shutting <;> cases h2 : s.bad <;> cases h3 : hasWork s <;> simp_all
    simp only [hc, hi, false_and, false_or, not_false_eq_true, true_and, Bool.false_eq_true, if_false,
      Bool.and_eq_true]
    cases o <;> simp [OutOk, pressureOk_iff, and_assoc]

theorem coordinate_tasks (s : State) (o : Outcome) : (coordinate s o).tasks = s.tasks := by
  cases o <;> rfl

theorem coordinate_press (p : Params) (s : State) (o : Outcome) (ho : OutOk p s o)
    (h : p.l0Trigger ≤ s.l0 → 0 < s.work) :
    p.l0Trigger ≤ (coordinate s o).l0 → 0 < (coordinate s o).work := by
  cases o with
  | flushed dl0 dwork => exact ho.2.2.2
  | manualRound dwork dl0 => exact ho.2.2.2.2
  | compacted dec dl0 => exact ho.2.2.2.2.2
  | nothing => exact h
  | failed => exact h

/-! ### the invariant is inductive -/

theorem mayWait_scheduled (p : Params) (hp : p.l0Trigger ≤ p.l0Stop) (s : State) (hi : Inv p s)
    (hw : mayWait p s = true) : s.scheduled = true := by
  unfold mayWait at hw
  split at hw
  · exact hw
  · next hs =>
    simp only [Bool.not_eq_true] at hs
    simp only [writerBlocked, Bool.or_eq_true, Bool.and_eq_true, Bool.not_eq_true', decide_eq_true_eq] at hw
    have hb : s.bad = false := by
      rcases hw with hw | hw
      · exact hw.1
      · exact hw.2
    apply hi.sched hb hs
    rw [hasWork_iff]
    rcases hw with ⟨_, hw | hw⟩ | hw
    · exact Or.inl hw
    · exact Or.inr (Or.inr (hi.press (Nat.le_trans hp hw)))
    · exact Or.inr (Or.inl hw.1)

theorem Inv_init (p : Params) (hp0 : 0 < p.l0Trigger) : Inv p init := by
  refine ⟨Or.inl ⟨rfl, rfl, rfl⟩, fun _ _ h => ?_, fun h => ?_, fun h => ?_⟩
  · exact absurd h (by decide)
  · exact absurd h (by show ¬ p.l0Trigger ≤ 0; omega)
  · exact absurd h (by decide)

theorem Inv_step (p : Params) (hp : p.l0Trigger ≤ p.l0Stop) (s : State) (st : Step) (hi : Inv p s)
    (he : enabled p s st = true) : Inv p (apply s st) := by
  cases st with
  | rotate => exact Inv_maybeSchedule p _ hi.struct hi.press hi.wake
  | seekWork => exact Inv_maybeSchedule p _ hi.struct (fun _ => Nat.succ_pos _) hi.wake
  | requestManual rounds => exact Inv_maybeSchedule p _ hi.struct hi.press hi.wake
  | poke => exact Inv_maybeSchedule p _ hi.struct hi.press hi.wake
  | wait =>
    have hsch := mayWait_scheduled p hp s hi he
    exact ⟨hi.struct, hi.sched, hi.press, fun _ => hsch⟩
  | workerStart =>
    simp only [enabled, Bool.and_eq_true, decide_eq_true_eq, Bool.not_eq_true'] at he
    have hst := hi.struct
    refine ⟨?_, hi.sched, hi.press, hi.wake⟩
    unfold Struct at hst
    rcases hst with h | h | h
    · omega
    · exact Or.inr (Or.inr ⟨h.1, by show s.tasks - 1 = 0; omega, rfl⟩)
    · rw [h.2.2] at he; exact absurd he.2 (by decide)
  | workerFinish o =>
    rw [enabled_finish_iff] at he
    have hst := hi.struct
    have ht : s.tasks = 0 := by
      unfold Struct at hst
      have := he.1
      rcases hst with h | h | h
      · simp_all
      · simp_all
      · exact h.2.1
    apply Inv_maybeSchedule
    · exact Or.inl ⟨rfl, by show (coordinate s o).tasks = 0; rw [coordinate_tasks]; exact ht, rfl⟩
    · rcases he.2 with ⟨_, ho⟩ | ⟨_, ho⟩
      · subst ho; exact hi.press
      · exact coordinate_press p s o ho hi.press
    · intro h; exact absurd h (Nat.lt_irrefl 0)
  | shutdown =>
    refine ⟨hi.struct, fun _ h _ => ?_, hi.press, hi.wake⟩
    have h' : true = false := h
    cases h'

theorem Inv_reachable (p : Params) (hp : p.l0Trigger ≤ p.l0Stop) (hp0 : 0 < p.l0Trigger) (s : State)
    (h : Reachable p s) : Inv p s := by
  induction h with
  | init => exact Inv_init p hp0
  | step s st _ he ih => exact Inv_step p hp s st ih he

/-! ### the parameter-free core invariant: three modes, and the flag is only set while there is work -/

structure Core (s : State) : Prop where
  struct : Struct s
  sw : s.scheduled = true → hasWork s = true

theorem Core_maybeSchedule (s : State) (h1 : Struct s) (h2 : s.scheduled = true → hasWork s = true) :
    Core (maybeSchedule s) := by
  refine ⟨Struct_maybeSchedule s h1, ?_⟩
  rw [maybeSchedule_hasWork]
  by_cases hk : Skip s
  · rw [maybeSchedule_skip hk]; exact h2
  · exact fun _ => (not_skip hk).2.2.2

theorem Struct_workerStart (s : State) (hst : Struct s) (ht : 0 < s.tasks) (hr : s.running = false) :
    Struct { s with tasks := s.tasks - 1, running := true } ∧ s.scheduled = true := by
  unfold Struct at hst
  rcases hst with h | h | h
  · omega
  · exact ⟨Or.inr (Or.inr ⟨h.1, by show s.tasks - 1 = 0; omega, rfl⟩), h.1⟩
  · rw [h.2.2] at hr; exact absurd hr (by decide)

theorem Struct_running (s : State) (hst : Struct s) (hr : s.running = true) :
    s.tasks = 0 ∧ s.scheduled = true := by
  unfold Struct at hst
  rcases hst with h | h | h
  · rw [h.2.2] at hr; exact absurd hr (by decide)
  · rw [h.2.2] at hr; exact absurd hr (by decide)
  · exact ⟨h.2.1, h.1⟩

theorem Core_init : Core init := ⟨Or.inl ⟨rfl, rfl, rfl⟩, fun h => absurd h (by decide)⟩

theorem Core_step (p : Params) (s : State) (st : Step) (hc : Core s) (he : enabled p s st = true) :
    Core (apply s st) := by
  cases st with
  | rotate => exact Core_maybeSchedule _ hc.struct (fun _ => rfl)
  | seekWork =>
    refine Core_maybeSchedule _ hc.struct (fun _ => ?_)
    rw [hasWork_iff]; exact Or.inr (Or.inr (Nat.succ_pos _))
  | requestManual rounds =>
    simp only [enabled, Bool.and_eq_true, decide_eq_true_eq] at he
    refine Core_maybeSchedule _ hc.struct (fun _ => ?_)
    rw [hasWork_iff]; exact Or.inr (Or.inl he.1.2)
  | poke => exact Core_maybeSchedule _ hc.struct hc.sw
  | wait => exact ⟨hc.struct, hc.sw⟩
  | workerStart =>
    simp only [enabled, Bool.and_eq_true, decide_eq_true_eq, Bool.not_eq_true'] at he
    exact ⟨(Struct_workerStart s hc.struct he.1 he.2).1, hc.sw⟩
  | workerFinish o =>
    rw [enabled_finish_iff] at he
    have ht := (Struct_running s hc.struct he.1).1
    refine Core_maybeSchedule _ (Or.inl ⟨rfl, ?_, rfl⟩) (fun h => ?_)
    · show (coordinate s o).tasks = 0; rw [coordinate_tasks]; exact ht
    · have h' : false = true := h
      cases h'
  | shutdown => exact ⟨hc.struct, hc.sw⟩

theorem Core_reachable (p : Params) (s : State) (h : Reachable p s) : Core s := by
  induction h with
  | init => exact Core_init
  | step s st _ he ih => exact Core_step p s st ih he

/-! ### progress: the potential -/

theorem potential_pos (p : Params) (s : State) (h : hasWork s = true) : 0 < potential p s := by
  rw [hasWork_iff] at h
  unfold potential
  rcases h with h | h | h
  · rw [if_pos h]; omega
  · have : 0 < s.manual * (p.manualCost + 1) := Nat.mul_pos h (Nat.succ_pos _)
    omega
  · omega

theorem coordinate_potential (p : Params) (s : State) (o : Outcome) (ho : OutOk p s o) (hf : o ≠ .failed) :
    potential p (coordinate s o) < potential p s := by
  cases o with
  | flushed dl0 dwork =>
    obtain ⟨h1, _, h3, _⟩ := ho
    show (if false = true then p.flushCost + 1 else 0) + s.manual * (p.manualCost + 1) + (s.work + dwork) <
      (if s.imm = true then p.flushCost + 1 else 0) + s.manual * (p.manualCost + 1) + s.work
    rw [if_pos h1, if_neg (by decide)]
    omega
  | manualRound dwork dl0 =>
    obtain ⟨h1, h2, h3, _⟩ := ho
    obtain ⟨k, hk⟩ : ∃ k, s.manual = k + 1 := ⟨s.manual - 1, by omega⟩
    show (if s.imm = true then p.flushCost + 1 else 0) + (s.manual - 1) * (p.manualCost + 1) + (s.work + dwork) <
      (if s.imm = true then p.flushCost + 1 else 0) + s.manual * (p.manualCost + 1) + s.work
    rw [hk, Nat.add_sub_cancel, Nat.succ_mul]
    omega
  | compacted dec dl0 =>
    obtain ⟨_, _, h3, h4, _⟩ := ho
    show (if s.imm = true then p.flushCost + 1 else 0) + s.manual * (p.manualCost + 1) + (s.work - dec) <
      (if s.imm = true then p.flushCost + 1 else 0) + s.manual * (p.manualCost + 1) + s.work
    omega
  | nothing => exact ho.elim
  | failed => exact absurd rfl hf

/-- one finished worker task: the worker stops running, and either nothing is re-scheduled or the
potential went down -/
theorem finish_progress (p : Params) (s : State) (o : Outcome) (ht : s.tasks = 0)
    (he : enabled p s (.workerFinish o) = true) :
    (apply s (.workerFinish o)).running = false ∧
      ((apply s (.workerFinish o)).tasks = 0 ∨
        potential p (apply s (.workerFinish o)) < potential p s) := by
  rw [enabled_finish_iff] at he
  refine ⟨by show (maybeSchedule _).running = false; rw [maybeSchedule_running], ?_⟩
  have hskip : ∀ t : State, t.tasks = 0 → (t.shutting = true ∨ t.bad = true ∨ hasWork t = false) →
      (maybeSchedule t).tasks = 0 := by
    intro t ht hi
    rw [maybeSchedule_skip (Or.inr hi)]; exact ht
  rcases he.2 with ⟨hi, ho⟩ | ⟨hi, ho⟩
  · subst ho
    exact Or.inl (hskip _ ht hi)
  · by_cases hf : o = .failed
    · subst hf
      exact Or.inl (hskip _ ht (Or.inr (Or.inl rfl)))
    · right
      show potential p (maybeSchedule _) < _
      rw [maybeSchedule_potential]
      exact coordinate_potential p s o ho hf

/-! ### worker-only runs are bounded -/

/-- the number of worker steps still possible -/
def budget (p : Params) (s : State) : Nat :=
  if s.running then 2 * potential p s - 1 else if 0 < s.tasks then 2 * potential p s else 0

theorem budget_le (p : Params) (s : State) : budget p s ≤ 2 * potential p s := by
  unfold budget; split
  · omega
  · split <;> omega

theorem budget_step (p : Params) (s : State) (st : Step) (hc : Core s) (hw : isWorkerStep st = true)
    (he : enabled p s st = true) : budget p (apply s st) < budget p s := by
  cases st with
  | workerStart =>
    simp only [enabled, Bool.and_eq_true, decide_eq_true_eq, Bool.not_eq_true'] at he
    have hs := (Struct_workerStart s hc.struct he.1 he.2).2
    have hpos := potential_pos p s (hc.sw hs)
    have h1 : budget p s = 2 * potential p s := by
      unfold budget; rw [he.2, if_neg (by decide), if_pos he.1]
    have h2 : budget p (apply s .workerStart) = 2 * potential p s - 1 := by
      show (if true = true then 2 * potential p s - 1 else _) = _
      rw [if_pos rfl]
    omega
  | workerFinish o =>
    have hr : s.running = true := ((enabled_finish_iff p s o).1 he).1
    obtain ⟨ht, hs⟩ := Struct_running s hc.struct hr
    have hpos := potential_pos p s (hc.sw hs)
    have h1 : budget p s = 2 * potential p s - 1 := by
      unfold budget; rw [hr, if_pos rfl]
    obtain ⟨h2, h3⟩ := finish_progress p s o ht he
    have h4 : budget p (apply s (.workerFinish o)) =
        if 0 < (apply s (.workerFinish o)).tasks then 2 * potential p (apply s (.workerFinish o)) else 0 := by
      unfold budget; rw [h2, if_neg (by decide)]
    rw [h4, h1]
    split <;> omega
  | rotate => cases hw
  | seekWork => cases hw
  | requestManual r => cases hw
  | poke => cases hw
  | wait => cases hw
  | shutdown => cases hw

theorem run_cons (p : Params) (s : State) (st : Step) (rest : List Step) (s' : State)
    (h : run p s (st :: rest) = some s') : enabled p s st = true ∧ run p (apply s st) rest = some s' := by
  unfold run at h
  split at h
  · next he => exact ⟨he, h⟩
  · cases h

theorem Reachable_run (p : Params) (s : State) (h : Reachable p s) (steps : List Step) (s' : State)
    (hr : run p s steps = some s') : Reachable p s' := by
  induction steps generalizing s with
  | nil => simp only [run, Option.some.injEq] at hr; exact hr ▸ h
  | cons st rest ih =>
    obtain ⟨he, hr'⟩ := run_cons p s st rest s' hr
    exact ih (apply s st) (Reachable.step s st h he) hr'

theorem worker_run_le_budget (p : Params) (steps : List Step) (s s' : State) (hc : Core s)
    (hall : steps.all isWorkerStep = true) (hr : run p s steps = some s') :
    steps.length ≤ budget p s := by
  induction steps generalizing s with
  | nil => exact Nat.zero_le _
  | cons st rest ih =>
    obtain ⟨he, hr'⟩ := run_cons p s st rest s' hr
    rw [List.all_cons, Bool.and_eq_true] at hall
    have h1 := ih (apply s st) (Core_step p s st hc he) hall.2 hr'
    have h2 := budget_step p s st hc hall.1 he
    show rest.length + 1 ≤ _
    omega

/-- every worker-only run from a reachable state has at most `2 * potential` steps -/
theorem worker_run_bounded (p : Params) (s s' : State) (h : Reachable p s) (steps : List Step)
    (hall : steps.all isWorkerStep = true) (hr : run p s steps = some s') :
    steps.length ≤ 2 * potential p s :=
  Nat.le_trans (worker_run_le_budget p steps s s' (Core_reachable p s h) hall hr) (budget_le p s)

/-! ### an idle worker means nobody waits -/

/-- no worker step is enabled -/
def WorkerIdle (p : Params) (s : State) : Prop := ∀ st, isWorkerStep st = true → enabled p s st = false

theorem workerIdle_of (p : Params) (s : State) (ht : s.tasks = 0) (hr : s.running = false) :
    WorkerIdle p s := by
  intro st hw
  cases st with
  | workerStart => simp [enabled, ht]
  | workerFinish o => simp [enabled, hr]
  | rotate => cases hw
  | seekWork => cases hw
  | requestManual r => cases hw
  | poke => cases hw
  | wait => cases hw
  | shutdown => cases hw

/-- a running worker can always finish: with `nothing` when it has nothing to do, and (for instance)
with `failed` otherwise -/
theorem finish_enabled (p : Params) (s : State) (hr : s.running = true) :
    (Idle s ∧ enabled p s (.workerFinish .nothing) = true) ∨
      (¬ Idle s ∧ enabled p s (.workerFinish .failed) = true) := by
  by_cases hi : Idle s
  · exact Or.inl ⟨hi, (enabled_finish_iff p s .nothing).2 ⟨hr, Or.inl ⟨hi, rfl⟩⟩⟩
  · exact Or.inr ⟨hi, (enabled_finish_iff p s .failed).2 ⟨hr, Or.inr ⟨hi, trivial⟩⟩⟩

theorem workerIdle_iff (p : Params) (s : State) : WorkerIdle p s ↔ (s.tasks = 0 ∨ s.running = true) ∧ s.running = false := by
  constructor
  · intro h
    have hr : s.running = false := by
      cases hr : s.running
      · rfl
      · rcases finish_enabled p s hr with ⟨_, he⟩ | ⟨_, he⟩
        · rw [h _ rfl] at he; cases he
        · rw [h _ rfl] at he; cases he
    refine ⟨?_, hr⟩
    have h1 := h .workerStart rfl
    simp only [enabled, hr, Bool.not_false, Bool.and_true, decide_eq_false_iff_not] at h1
    omega
  · intro ⟨h1, h2⟩
    apply workerIdle_of p s _ h2
    rcases h1 with h | h
    · exact h
    · rw [h2] at h; cases h

theorem idle_nobody_waits (p : Params) (hp : p.l0Trigger ≤ p.l0Stop) (s : State) (hi : Inv p s)
    (hidle : WorkerIdle p s) : quiescent s = true ∧ mayWait p s = false ∧ s.waiters = 0 := by
  obtain ⟨ht, hr⟩ := (workerIdle_iff p s).1 hidle
  have ht : s.tasks = 0 := by
    rcases ht with h | h
    · exact h
    · rw [hr] at h; cases h
  have hs : s.scheduled = false := by
    have := hi.struct
    unfold Struct at this
    rcases this with h | h | h
    · exact h.1
    · omega
    · rw [hr] at h; cases h.2.2
  have hm : mayWait p s = false := by
    cases hm : mayWait p s
    · rfl
    · rw [mayWait_scheduled p hp s hi hm] at hs; cases hs
  refine ⟨?_, hm, ?_⟩
  · simp only [quiescent, hs, Bool.not_false, Bool.true_and]
    cases hb : s.bad
    · cases hsh : s.shutting
      · cases hw : hasWork s
        · rfl
        · rw [hi.sched hb hsh hw] at hs; cases hs
      · rfl
    · rfl
  · have := hi.wake
    rw [hs] at this
    cases hw : s.waiters
    · rfl
    · exact absurd (this (by omega)) (by decide)

/-! ### the worker can always come to rest -/

theorem finish_rest (s : State) (o : Outcome) (ht : s.tasks = 0)
    (ho : (Idle s ∧ o = .nothing) ∨ o = .failed) :
    (apply s (.workerFinish o)).tasks = 0 ∧ (apply s (.workerFinish o)).running = false := by
  refine ⟨?_, by show (maybeSchedule _).running = false; rw [maybeSchedule_running]⟩
  have hskip : ∀ t : State, t.tasks = 0 → (t.shutting = true ∨ t.bad = true ∨ hasWork t = false) →
      (maybeSchedule t).tasks = 0 := by
    intro t ht hi
    rw [maybeSchedule_skip (Or.inr hi)]; exact ht
  rcases ho with ⟨hi, ho⟩ | ho
  · subst ho
    exact hskip _ ht hi
  · subst ho
    exact hskip _ ht (Or.inr (Or.inl rfl))

theorem worker_can_rest_running (p : Params) (s : State) (ht : s.tasks = 0) (hr : s.running = true) :
    ∃ o, enabled p s (.workerFinish o) = true ∧ WorkerIdle p (apply s (.workerFinish o)) := by
  rcases finish_enabled p s hr with ⟨hi, he⟩ | ⟨hi, he⟩
  · have := finish_rest s .nothing ht (Or.inl ⟨hi, rfl⟩)
    exact ⟨_, he, workerIdle_of p _ this.1 this.2⟩
  · have := finish_rest s .failed ht (Or.inr rfl)
    exact ⟨_, he, workerIdle_of p _ this.1 this.2⟩

theorem worker_can_rest (p : Params) (s : State) (hc : Core s) :
    ∃ steps s', steps.all isWorkerStep = true ∧ run p s steps = some s' ∧ WorkerIdle p s' := by
  have hst := hc.struct
  unfold Struct at hst
  rcases hst with h | h | h
  · exact ⟨[], s, rfl, rfl, workerIdle_of p s h.2.1 h.2.2⟩
  · have he : enabled p s .workerStart = true := by simp [enabled, h.2.1, h.2.2]
    obtain ⟨o, he2, hid⟩ := worker_can_rest_running p (apply s .workerStart)
      (by show s.tasks - 1 = 0; omega) rfl
    refine ⟨[.workerStart, .workerFinish o], _, rfl, ?_, hid⟩
    simp only [run, he, he2, if_true]
  · obtain ⟨o, he2, hid⟩ := worker_can_rest_running p s h.2.1 h.2.2
    refine ⟨[.workerFinish o], _, rfl, ?_, hid⟩
    simp only [run, he2, if_true]

/-! ### small corollaries used by the property theorems -/

theorem scheduled_has_waker (s : State) (hst : Struct s) (hs : s.scheduled = true) :
    (0 < s.tasks ∧ s.running = false) ∨ s.running = true := by
  unfold Struct at hst
  rcases hst with h | h | h
  · rw [h.1] at hs; cases hs
  · exact Or.inl ⟨by omega, h.2.2⟩
  · exact Or.inr h.2.2

theorem scheduled_worker_step (p : Params) (s : State) (hst : Struct s) (hs : s.scheduled = true) :
    ∃ st, isWorkerStep st = true ∧ enabled p s st = true := by
  rcases scheduled_has_waker s hst hs with ⟨ht, hr⟩ | hr
  · exact ⟨.workerStart, rfl, by simp [enabled, ht, hr]⟩
  · rcases finish_enabled p s hr with ⟨_, he⟩ | ⟨_, he⟩
    · exact ⟨_, rfl, he⟩
    · exact ⟨_, rfl, he⟩

theorem finish_bad_or_less (p : Params) (s : State) (o : Outcome)
    (he : enabled p s (.workerFinish o) = true) (hs : s.shutting = false) (hb : s.bad = false)
    (hw : hasWork s = true) :
    (apply s (.workerFinish o)).bad = true ∨ potential p (apply s (.workerFinish o)) < potential p s := by
  rw [enabled_finish_iff] at he
  have hni : ¬ Idle s := by
    unfold Idle; rw [hs, hb, hw]; simp
  rcases he.2 with ⟨hi, _⟩ | ⟨_, ho⟩
  · exact absurd hi hni
  · by_cases hf : o = .failed
    · subst hf
      left
      show (maybeSchedule _).bad = true
      rw [maybeSchedule_bad]
      rfl
    · right
      show potential p (maybeSchedule _) < _
      rw [maybeSchedule_potential]
      exact coordinate_potential p s o ho hf

/-! ### ... and it can do so without an I/O error: some progress outcome is always enabled -/

theorem progress_enabled (p : Params) (hp0 : 0 < p.l0Trigger) (s : State) (hi : Inv p s)
    (hr : s.running = true) (hni : ¬ Idle s) :
    ∃ o, o ≠ .failed ∧ enabled p s (.workerFinish o) = true := by
  have hw : hasWork s = true := by
    unfold Idle at hni
    cases h : hasWork s
    · exact absurd (Or.inr (Or.inr h)) hni
    · rfl
  rw [hasWork_iff] at hw
  cases himm : s.imm
  · by_cases hm : 0 < s.manual
    · refine ⟨.manualRound 0 0, by simp, (enabled_finish_iff p s _).2 ⟨hr, Or.inr ⟨hni, ?_⟩⟩⟩
      exact ⟨himm, hm, Nat.zero_le _, Nat.zero_le _, hi.press⟩
    · have hwk : 0 < s.work := by
        rcases hw with h | h | h
        · rw [himm] at h; cases h
        · exact absurd h hm
        · exact h
      refine ⟨.compacted s.work s.l0, by simp, (enabled_finish_iff p s _).2 ⟨hr, Or.inr ⟨hni, ?_⟩⟩⟩
      exact ⟨himm, by omega, hwk, Nat.le_refl _, Nat.le_refl _, fun h => by omega⟩
  · refine ⟨.flushed 0 0, by simp, (enabled_finish_iff p s _).2 ⟨hr, Or.inr ⟨hni, ?_⟩⟩⟩
    exact ⟨himm, Nat.zero_le _, Nat.zero_le _, hi.press⟩

theorem coordinate_bad (s : State) (o : Outcome) (hf : o ≠ .failed) : (coordinate s o).bad = s.bad := by
  cases o <;> first | rfl | exact absurd rfl hf

/-- while the flag is set, some worker step that is not a failure is enabled -/
theorem clean_step (p : Params) (hp0 : 0 < p.l0Trigger) (s : State) (hi : Inv p s)
    (hs : s.scheduled = true) :
    ∃ st, isWorkerStep st = true ∧ enabled p s st = true ∧ (apply s st).bad = s.bad := by
  rcases scheduled_has_waker s hi.struct hs with ⟨ht, hr⟩ | hr
  · exact ⟨.workerStart, rfl, by simp [enabled, ht, hr], rfl⟩
  · by_cases hid : Idle s
    · exact ⟨.workerFinish .nothing, rfl, (enabled_finish_iff p s _).2 ⟨hr, Or.inl ⟨hid, rfl⟩⟩, by
        show (maybeSchedule _).bad = _; rw [maybeSchedule_bad]; rfl⟩
    · obtain ⟨o, hf, he⟩ := progress_enabled p hp0 s hi hr hid
      exact ⟨.workerFinish o, rfl, he, by
        show (maybeSchedule _).bad = _; rw [maybeSchedule_bad]; exact coordinate_bad s o hf⟩

theorem worker_can_rest_clean_aux (p : Params) (hp : p.l0Trigger ≤ p.l0Stop) (hp0 : 0 < p.l0Trigger) (n : Nat) :
    ∀ s : State, budget p s ≤ n → Inv p s → Core s →
      ∃ steps s', steps.all isWorkerStep = true ∧ run p s steps = some s' ∧ WorkerIdle p s' ∧
        s'.bad = s.bad := by
  induction n with
  | zero =>
    intro s hb hi hc
    cases hs : s.scheduled
    · have hst := hi.struct
      unfold Struct at hst
      rw [hs] at hst
      have : s.tasks = 0 ∧ s.running = false := by simpa using hst
      exact ⟨[], s, rfl, rfl, workerIdle_of p s this.1 this.2, rfl⟩
    · obtain ⟨st, hw, he, _⟩ := clean_step p hp0 s hi hs
      have := budget_step p s st hc hw he
      omega
  | succ n ih =>
    intro s hb hi hc
    cases hs : s.scheduled
    · have hst := hi.struct
      unfold Struct at hst
      rw [hs] at hst
      have : s.tasks = 0 ∧ s.running = false := by simpa using hst
      exact ⟨[], s, rfl, rfl, workerIdle_of p s this.1 this.2, rfl⟩
    · obtain ⟨st, hw, he, hbad⟩ := clean_step p hp0 s hi hs
      have hlt := budget_step p s st hc hw he
      obtain ⟨steps, s', hall, hr, hidle, hb'⟩ :=
        ih (apply s st) (by omega) (Inv_step p hp s st hi he) (Core_step p s st hc he)
      refine ⟨st :: steps, s', ?_, ?_, hidle, hb'.trans hbad⟩
      · rw [List.all_cons, hw, hall]; rfl
      · simp only [run, he, if_true]; exact hr

theorem worker_can_rest_clean (p : Params) (hp : p.l0Trigger ≤ p.l0Stop) (hp0 : 0 < p.l0Trigger)
    (s : State) (hi : Inv p s) (hc : Core s) :
    ∃ steps s', steps.all isWorkerStep = true ∧ run p s steps = some s' ∧ WorkerIdle p s' ∧
      s'.bad = s.bad :=
  worker_can_rest_clean_aux p hp hp0 (budget p s) s (Nat.le_refl _) hi hc

end Rain.Sched
