import Rain.Lemmas.LogFlags
/-
Lemmas for `Rain/LogFlags.lean`, part 2: the corruption flag against the writer model.

* written files, and every cut of them, are not flagged;
* a writer that died between two writes of a record, followed by an append session;
* rewriting the type byte of a fragment (`retypeLast`).
-/
namespace Rain.Log
open Rain

/-! ### written files and their prefixes -/

theorem written_intact (c : Cfg) (hB : H < c.B) (hB2 : c.B ≤ 65535 + H) (hcrc : ∀ d, c.crc d < 2^32)
    (recs : List Bytes) : (readAllF c (writeSession c [] recs)).2.2 = false := by
  have hH : H = 7 := rfl
  apply readAllF_clean_intact c (by omega)
  rw [(readAllF_toS c _).2]
  exact written_is_clean c hB hB2 hcrc recs

theorem sessions_intact (c : Cfg) (hB : H < c.B) (hB2 : c.B ≤ 65535 + H) (hcrc : ∀ d, c.crc d < 2^32)
    (sessions : List (List Bytes)) : (readAllF c (writeSessions c [] sessions)).2.2 = false := by
  rw [sessions_flatten c hB]
  exact written_intact c hB hB2 hcrc _

theorem torn_intact (c : Cfg) (hB : H < c.B) (hB2 : c.B ≤ 65535 + H) (hcrc : ∀ d, c.crc d < 2^32)
    (sessions : List (List Bytes)) (n : Nat) :
    (readAllF c ((writeSessions c [] sessions).take n)).2.2 = false := by
  have hH : H = 7 := rfl
  cases h : (readAllF c ((writeSessions c [] sessions).take n)).2.2 with
  | false => rfl
  | true =>
    have := readAllF_take c (by omega) _ n h
    rw [sessions_intact c hB hB2 hcrc] at this
    exact absurd this (by decide)

/-! ### the flat loop on the writer's output -/

/-- one written fragment (with the padding before it) -/
theorem flatRun_frag (c : Cfg) (hB : H < c.B) (hB2 : c.B ≤ 65535 + H) (hcrc : ∀ d, c.crc d < 2^32)
    (off : Nat) (hoff : off ≤ c.B) (ty : Nat) (hty : ty ≤ 3) (chunk tail : Bytes)
    (hlen : chunk.length ≤ spaceA c off) (f : Nat) (frag sk co : Bool) :
    flatRun c (f+1) ((padL c off).flatten ++ (emit c ty chunk ++ tail)) (off % c.B) frag sk co
      = flatRun c f tail ((offA c off + H + chunk.length) % c.B)
          (stepF frag sk co ty).1 (stepF frag sk co ty).2.1 (stepF frag sk co ty).2.2 := by
  rw [flatRun_succ, readPhysical_frag c hB hB2 hcrc off hoff ty hty chunk tail hlen]

/-- padding alone is skipped (corruption flag only) -/
theorem flatRun_pad (c : Cfg) (hB : H < c.B) (off : Nat) (hoff : off ≤ c.B) (f : Nat) (X : Bytes)
    (frag sk co : Bool) :
    (flatRun c f ((padL c off).flatten ++ X) (off % c.B) frag sk co).2
      = (flatRun c f X (offA c off) frag sk co).2 := by
  cases f with
  | zero => rfl
  | succ f =>
    rw [flatRun_succ, flatRun_succ, readPhysical_pad c hB off hoff]
    cases readPhysical c X (offA c off) <;> rfl

/-- the first write of an `append` is the padding, then a `Full` or `First` fragment -/
theorem appendLoop_head (c : Cfg) (f off : Nat) (data : Bytes) :
    ∃ ty chunk more, (ty = TFull ∨ ty = TFirst) ∧ chunk.length ≤ spaceA c off ∧
      (appendLoop c (f+1) off data true).1 = padL c off ++ emit c ty chunk :: more := by
  by_cases h : data.length ≤ spaceA c off
  · exact ⟨TFull, data, [], Or.inl rfl, h, by rw [appendLoop_last c f off data true h]; simp⟩
  · refine ⟨TFirst, data.take (spaceA c off),
      (appendLoop c f (offA c off + H + spaceA c off) (data.drop (spaceA c off)) false).1,
      Or.inr rfl, by rw [List.length_take]; omega, ?_⟩
    rw [appendLoop_more c f off data true (by omega)]
    simp

/-- **(C) for the flags**: the `j` writes a dead writer got out set no flag; a record is pending
afterwards iff at least one of them was a fragment -/
theorem flatRun_partial (c : Cfg) (hB : H < c.B) (hB2 : c.B ≤ 65535 + H) (hcrc : ∀ d, c.crc d < 2^32)
    (wf : Nat) :
    ∀ (off : Nat) (data : Bytes) (first : Bool) (j f : Nat) (frag sk co : Bool) (X : Bytes),
    off ≤ c.B → j < (appendLoop c wf off data first).1.length → frag = !first →
    (((appendLoop c wf off data first).1.take j).flatten ++ X).length < f →
    ∃ f', X.length < f' ∧
      (flatRun c f (((appendLoop c wf off data first).1.take j).flatten ++ X) (off % c.B) frag sk co).2
        = (flatRun c f' X ((off + (((appendLoop c wf off data first).1.take j).flatten).length) % c.B)
            (frag || decide ((padL c off).length < j)) sk co).2 := by
  induction wf with
  | zero => intro off data first j f frag sk co X _ hj; simp [appendLoop] at hj
  | succ wf ih =>
    intro off data first j f frag sk co X hoff hj hfr hf
    have hsp := offA_space c hB off hoff
    have hH : H = 7 := rfl
    have hp := padL_length_le c off
    have hpm : (off + (padL c off).flatten.length) % c.B = offA c off := by
      have := pad_mod c off hoff 0
      simp only [Nat.add_zero] at this
      rw [this, offA_mod]
    by_cases hj0 : j = 0
    · subst hj0
      refine ⟨f, by simpa using hf, ?_⟩
      simp
    · by_cases h : data.length ≤ spaceA c off
      · -- only padding can have been written
        rw [appendLoop_last c wf off data first h] at hj hf ⊢
        simp only [List.length_append, List.length_cons, List.length_nil] at hj
        have ht : List.take j (padL c off ++ [emit c (if first = true then TFull else TLast) data])
            = padL c off := by
          rw [List.take_append_of_le_length (by omega), List.take_of_length_le (by omega)]
        rw [ht] at hf ⊢
        rw [flatRun_pad c hB off hoff, hpm]
        refine ⟨f, by rw [List.length_append] at hf; omega, ?_⟩
        have : decide ((padL c off).length < j) = false := by simp; omega
        rw [this, Bool.or_false]
      · have h' : spaceA c off < data.length := by omega
        have hlen : (data.take (spaceA c off)).length = spaceA c off := by
          rw [List.length_take]; omega
        rw [appendLoop_more c wf off data first h'] at hj hf ⊢
        simp only [List.length_append, List.length_cons, List.length_nil, List.append_assoc] at hj hf ⊢
        rw [List.take_append, List.take_of_length_le (by omega)] at hf ⊢
        obtain ⟨j1, hj1⟩ : ∃ j1, j - (padL c off).length = j1 := ⟨_, rfl⟩
        rw [hj1] at hf ⊢
        cases j1 with
        | zero =>
          simp only [List.take_zero, List.append_nil] at hf ⊢
          rw [flatRun_pad c hB off hoff, hpm]
          refine ⟨f, by omega, ?_⟩
          have : decide ((padL c off).length < j) = false := by simp; omega
          rw [this, Bool.or_false]
        | succ j2 =>
          simp only [List.singleton_append, List.take_succ_cons, List.flatten_append,
            List.flatten_cons, List.length_append, emit_length, hlen, List.append_assoc] at hf ⊢
          obtain ⟨f1, rfl⟩ : ∃ f1, f = f1 + 1 := ⟨f - 1, by omega⟩
          rw [flatRun_frag c hB hB2 hcrc off hoff _ (by cases first <;> simp [TFirst, TMiddle]) _ _
            (by omega), hlen]
          have hst : stepF frag sk co (if first = true then TFirst else TMiddle) = (true, sk, co) := by
            subst hfr
            cases first <;> simp [stepF, TFull, TFirst, TMiddle]
          rw [hst]
          obtain ⟨f', h1, h2⟩ := ih (offA c off + H + spaceA c off) (List.drop (spaceA c off) data) false j2 f1
            true sk co X (by omega) (by omega) rfl (by rw [List.length_append]; omega)
          refine ⟨f', h1, ?_⟩
          rw [h2]
          have hd : decide ((padL c off).length < j) = true := by simp; omega
          rw [hd, Bool.or_true, Bool.true_or]
          have := pad_mod c off hoff (H + spaceA c off + (List.take j2 (appendLoop c wf
            (offA c off + H + spaceA c off) (List.drop (spaceA c off) data) false).1).flatten.length)
          simp only [← Nat.add_assoc] at this ⊢
          rw [this]

/-! ### a dead writer followed by an append session -/

theorem flatten_take_prefix (ws : List Bytes) (j : Nat) :
    ws.flatten.take (ws.take j).flatten.length = (ws.take j).flatten := by
  have : ws.flatten = (ws.take j).flatten ++ (ws.drop j).flatten := by
    rw [← List.flatten_append, List.take_append_drop]
  rw [this]
  exact List.take_left' rfl

/-- the bytes a dead writer left are a prefix of the file it would have written -/
theorem writeSessionCut_prefix (c : Cfg) (hB : H < c.B) (recs : List Bytes) (last : Bytes) (j : Nat) :
    writeSessionCut c (writeSession c [] recs) [last] j
      = (writeSession c [] (recs ++ [last])).take
          ((writeSession c [] recs).length +
            (((appendAllWrites c (openOffset c (writeSession c [] recs).length) [last]).1.take j).flatten).length) := by
  have h1 : writeSession c [] (recs ++ [last]) = writeSession c [] recs ++
      (appendAllWrites c (openOffset c (writeSession c [] recs).length) [last]).1.flatten := by
    rw [← writeSession_writeSession c hB]; rfl
  rw [h1]
  unfold writeSessionCut
  rw [List.take_length_add_append, flatten_take_prefix]

theorem padL_offA (c : Cfg) (hB : H < c.B) (off : Nat) : padL c (offA c off) = [] := by
  have hH : H = 7 := rfl
  unfold padL
  rw [if_neg]
  unfold offA
  split <;> omega

theorem offA_offA (c : Cfg) (hB : H < c.B) (off : Nat) : offA c (offA c off) = offA c off := by
  have hH : H = 7 := rfl
  unfold offA
  by_cases h : c.B - off < H
  · rw [if_pos h, if_neg (by omega)]
  · rw [if_neg h, if_neg h]

theorem spaceA_offA (c : Cfg) (hB : H < c.B) (off : Nat) : spaceA c (offA c off) = spaceA c off := by
  unfold spaceA; rw [offA_offA c hB]

/-- a writer positioned after the padding writes what the writer before it would have written next -/
theorem appendLoop_padsplit (c : Cfg) (hB : H < c.B) (f off : Nat) (data : Bytes) (first : Bool) :
    (appendLoop c (f+1) off data first).1 = padL c off ++ (appendLoop c (f+1) (offA c off) data first).1 ∧
    (appendLoop c (f+1) off data first).2 = (appendLoop c (f+1) (offA c off) data first).2 := by
  by_cases h : data.length ≤ spaceA c off
  · rw [appendLoop_last c f off data first h,
      appendLoop_last c f (offA c off) data first (by rw [spaceA_offA c hB]; exact h),
      padL_offA c hB, offA_offA c hB]
    exact ⟨by simp, rfl⟩
  · rw [appendLoop_more c f off data first (by omega),
      appendLoop_more c f (offA c off) data first (by rw [spaceA_offA c hB]; omega),
      spaceA_offA c hB, padL_offA c hB, offA_offA c hB]
    exact ⟨by simp, rfl⟩

theorem appendAllWrites_padsplit (c : Cfg) (hB : H < c.B) (off : Nat) (r : Bytes) (rs : List Bytes) :
    (appendAllWrites c off (r :: rs)).1 = padL c off ++ (appendAllWrites c (offA c off) (r :: rs)).1 := by
  have := appendLoop_padsplit c hB (2 * r.length + 1) off r true
  rw [appendAllWrites_cons, appendAllWrites_cons]
  unfold appendWrites appendFuel
  rw [this.1, this.2, List.append_assoc]

/-- nothing, or only the padding, got out before the writer died: the next session produces the
file that a writer that never died would have produced -/
theorem cut_pad_session (c : Cfg) (hB : H < c.B) (recs : List Bytes) (last : Bytes) (j : Nat)
    (r : Bytes) (rs : List Bytes)
    (hj : j ≤ (padL c (openOffset c (writeSession c [] recs).length)).length) :
    writeSession c (writeSessionCut c (writeSession c [] recs) [last] j) (r :: rs)
      = writeSession c [] (recs ++ r :: rs) := by
  have hH : H = 7 := rfl
  rw [← writeSession_writeSession c hB]
  generalize hW : writeSession c [] recs = W at *
  have hoff : openOffset c W.length ≤ c.B := by
    unfold openOffset; exact Nat.le_of_lt (Nat.mod_lt _ (by omega))
  generalize ho : openOffset c W.length = off at *
  have hp := padL_length_le c off
  unfold writeSessionCut
  rw [ho, appendAllWrites_cons, appendAllWrites_nil, List.append_nil]
  obtain ⟨ty, chunk, more, _, _, hhead⟩ := appendLoop_head c (2 * last.length + 1) off last
  have hhead' : (appendWrites c off last).1 = padL c off ++ emit c ty chunk :: more := hhead
  rw [hhead', List.take_append_of_le_length hj]
  by_cases hj0 : j = 0
  · subst hj0
    simp only [List.take_zero, List.flatten_nil, List.append_nil]
  · have hjp : (padL c off).take j = padL c off := List.take_of_length_le (by omega)
    rw [hjp]
    conv => lhs; unfold writeSession
    conv => rhs; unfold writeSession
    rw [ho, appendAllWrites_padsplit c hB off r rs, List.flatten_append, List.append_assoc]
    congr 3
    unfold openOffset at ho ⊢
    have := pad_mod c off hoff 0
    simp only [Nat.add_zero] at this
    have hom : off % c.B = off := by rw [← ho, Nat.mod_mod]
    rw [List.length_append, Nat.add_mod, ho, Nat.add_mod_mod, this, offA_mod]

/-- a fragment got out before the writer died and a record is appended afterwards: flagged -/
theorem partial_then_append_flag (c : Cfg) (hB : H < c.B) (hB2 : c.B ≤ 65535 + H) (hcrc : ∀ d, c.crc d < 2^32)
    (recs : List Bytes) (last : Bytes) (j : Nat) (r : Bytes) (rs : List Bytes)
    (hj : j < (appendWrites c (openOffset c (writeSession c [] recs).length) last).1.length)
    (hjp : (padL c (openOffset c (writeSession c [] recs).length)).length < j) :
    (readAllF c (writeSession c (writeSessionCut c (writeSession c [] recs) [last] j) (r :: rs))).2.2 = true := by
  have hH : H = 7 := rfl
  have hclean : (readAllF c (writeSession c [] recs)).2.1 = true := by
    rw [(readAllF_toS c _).2]; exact written_is_clean c hB hB2 hcrc recs
  unfold writeSessionCut
  rw [appendAllWrites_cons, appendAllWrites_nil, List.append_nil]
  dsimp only
  generalize hW : writeSession c [] recs = W at *
  have hoff : openOffset c W.length ≤ c.B := by
    unfold openOffset; exact Nat.le_of_lt (Nat.mod_lt _ (by omega))
  have hom : openOffset c W.length % c.B = openOffset c W.length := by
    unfold openOffset; rw [Nat.mod_mod]
  have hoW : W.length % c.B = openOffset c W.length := rfl
  generalize ho : openOffset c W.length = off at *
  conv => lhs; unfold writeSession
  generalize hP : ((appendWrites c off last).1.take j).flatten = P
  have ho2 : openOffset c (W ++ P).length = (off + P.length) % c.B := by
    unfold openOffset
    rw [List.length_append, Nat.add_mod, hoW, Nat.add_mod_mod]
  rw [ho2, List.append_assoc, readAllF_clean_prefix c hB W _ hclean, hoW]
  have hpart := flatRun_partial c hB hB2 hcrc (appendFuel last) off last true j
    ((P ++ (appendAllWrites c ((off + P.length) % c.B) (r :: rs)).1.flatten).length + 1)
    false false false (appendAllWrites c ((off + P.length) % c.B) (r :: rs)).1.flatten hoff hj rfl
  unfold appendWrites at hP
  rw [hP, hom] at hpart
  obtain ⟨f', h1, h2⟩ := hpart (Nat.lt_succ_self _)
  rw [h2]
  have hd : decide ((padL c off).length < j) = true := by simp; omega
  rw [hd, Bool.false_or]
  -- the first fragment of the new session arrives while a record is pending
  generalize ho3 : (off + P.length) % c.B = o2 at *
  have ho2B : o2 ≤ c.B := by rw [← ho3]; exact Nat.le_of_lt (Nat.mod_lt _ (by omega))
  have ho2m : o2 % c.B = o2 := by rw [← ho3, Nat.mod_mod]
  obtain ⟨ty, chunk, more, hty, hch, hhead⟩ := appendLoop_head c (2 * r.length + 1) o2 r
  have hhead' : (appendWrites c o2 r).1 = padL c o2 ++ emit c ty chunk :: more := hhead
  rw [appendAllWrites_cons, hhead'] at h1 ⊢
  obtain ⟨f2, rfl⟩ : ∃ f2, f' = f2 + 1 := ⟨f' - 1, by omega⟩
  simp only [List.flatten_append, List.flatten_cons, List.append_assoc]
  have key := flatRun_frag c hB hB2 hcrc o2 ho2B ty (by rcases hty with h | h <;> simp [h, TFull, TFirst])
    chunk (more.flatten ++ (appendAllWrites c (appendWrites c o2 r).2 rs).1.flatten) hch f2 true false false
  rw [ho2m] at key
  rw [key]
  have hst : (stepF true false false ty).2.2 = true := by
    rcases hty with h | h <;> simp [h, stepF, TFull, TFirst]
  rw [hst]
  exact flatRun_sticky c _ _ _ _ _

/-! ### rewriting the type byte of the last write -/

/-- the bytes of a list of writes with byte 6 (the type byte) of the last write replaced -/
def retypeLast (ws : List Bytes) (ty : Nat) : Bytes :=
  ws.dropLast.flatten ++ (ws.getLast?.getD []).set 6 ty.toUInt8

theorem emit_set_ty (c : Cfg) (t ty : Nat) (chunk : Bytes) :
    (emit c t chunk).set 6 ty.toUInt8 = emit c ty chunk := by
  simp [emit, leBytes]

theorem retypeLast_append (A ws : List Bytes) (hws : ws ≠ []) (ty : Nat) :
    retypeLast (A ++ ws) ty = A.flatten ++ retypeLast ws ty := by
  rcases List.eq_nil_or_concat ws with h | ⟨L, b, h⟩
  · exact absurd h hws
  · subst h
    unfold retypeLast
    rw [List.dropLast_append_of_ne_nil hws]
    simp

theorem retypeLast_singleton (x : Bytes) (ty : Nat) : retypeLast [x] ty = x.set 6 ty.toUInt8 := by
  simp [retypeLast]

/-- `retypeLast` changes one byte of the flattened writes -/
theorem retypeLast_eq_set (ws : List Bytes) (ty : Nat) :
    retypeLast ws ty
      = ws.flatten.set (ws.flatten.length - (ws.getLast?.getD []).length + 6) ty.toUInt8 := by
  rcases List.eq_nil_or_concat ws with h | ⟨L, b, h⟩
  · subst h; simp [retypeLast]
  · subst h
    simp only [retypeLast, List.concat_eq_append, List.dropLast_concat, List.getLast?_append, List.getLast?_singleton,
      Option.some_or, Option.getD_some, List.flatten_append, List.flatten_cons, List.flatten_nil,
      List.append_nil, List.length_append]
    rw [Nat.add_sub_cancel, List.set_append_right _ _ (by omega), Nat.add_sub_cancel_left]

theorem retypeLast_length (ws : List Bytes) (ty : Nat) : (retypeLast ws ty).length = ws.flatten.length := by
  rw [retypeLast_eq_set, List.length_set]

/-- all but the first fragment of a fragmented record, the type of the last one rewritten to
`First`, read while the record is pending -/
theorem flatRun_retype_rest (c : Cfg) (hB : H < c.B) (hB2 : c.B ≤ 65535 + H) (hcrc : ∀ d, c.crc d < 2^32)
    (wf : Nat) :
    ∀ (off : Nat) (data : Bytes) (f : Nat) (sk co : Bool) (tail : Bytes),
    off ≤ c.B → fuelOK c wf off data →
    (retypeLast (appendLoop c wf off data false).1 TFirst ++ tail).length < f →
    (flatRun c f (retypeLast (appendLoop c wf off data false).1 TFirst ++ tail) (off % c.B) true sk co).2
      = true := by
  induction wf with
  | zero => intro off data f sk co tail _ hf; unfold fuelOK at hf; split at hf <;> omega
  | succ wf ih =>
    intro off data f sk co tail hoff hf hlenf
    have hsp := offA_space c hB off hoff
    have hH : H = 7 := rfl
    obtain ⟨f1, rfl⟩ : ∃ f1, f = f1 + 1 := ⟨f - 1, by omega⟩
    by_cases h : data.length ≤ spaceA c off
    · rw [appendLoop_last c wf off data false h]
      simp only [Bool.false_eq_true, if_false]
      rw [retypeLast_append _ _ (by simp), retypeLast_singleton, emit_set_ty, List.append_assoc,
        flatRun_frag c hB hB2 hcrc off hoff TFirst (by decide) data tail h]
      have : (stepF true sk co TFirst).2.2 = true := by simp [stepF, TFull, TFirst]
      rw [this]
      exact flatRun_sticky c _ _ _ _ _
    · have h' : spaceA c off < data.length := by omega
      have hlen : (data.take (spaceA c off)).length = spaceA c off := by
        rw [List.length_take]; omega
      have hf' : fuelOK c wf (offA c off + H + spaceA c off) (data.drop (spaceA c off)) := by
        unfold fuelOK at hf ⊢
        rw [hsp, List.length_drop]
        have h0 : offA c c.B = 0 := by unfold offA; simp [hH]
        have : spaceA c c.B ≠ 0 := by unfold spaceA; rw [h0]; omega
        simp only [this, if_false]
        split at hf <;> omega
      obtain ⟨wf1, rfl⟩ : ∃ w, wf = w + 1 := ⟨wf - 1, by unfold fuelOK at hf'; split at hf' <;> omega⟩
      have hne : (appendLoop c (wf1+1) (offA c off + H + spaceA c off) (data.drop (spaceA c off)) false).1 ≠ [] := by
        intro he
        have := appendLoop_length c wf1 (offA c off + H + spaceA c off) (data.drop (spaceA c off)) false
        rw [he] at this
        simp at this
        omega
      rw [appendLoop_more c (wf1+1) off data false h'] at hlenf ⊢
      simp only [Bool.false_eq_true, if_false] at hlenf ⊢
      rw [retypeLast_append _ _ hne, List.flatten_append] at hlenf ⊢
      simp only [List.flatten_cons, List.flatten_nil, List.append_nil, List.append_assoc,
        List.length_append, emit_length, hlen] at hlenf ⊢
      rw [flatRun_frag c hB hB2 hcrc off hoff TMiddle (by decide) _ _ (by omega), hlen]
      have : stepF true sk co TMiddle = (true, sk, co) := by simp [stepF, TFull, TFirst, TMiddle]
      rw [this]
      exact ih (offA c off + H + spaceA c off) (data.drop (spaceA c off)) f1 sk co tail (by omega) hf'
        (by rw [List.length_append]; omega)

/-- **`Last` rewritten to `First`** in a fragmented record, read from a clean state, anything after it -/
theorem flatRun_retype_first (c : Cfg) (hB : H < c.B) (hB2 : c.B ≤ 65535 + H) (hcrc : ∀ d, c.crc d < 2^32)
    (off : Nat) (hoff : off ≤ c.B) (r : Bytes) (hfrag : spaceA c off < r.length) (tail : Bytes) (f : Nat)
    (sk co : Bool) (hf : (retypeLast (appendWrites c off r).1 TFirst ++ tail).length < f) :
    (flatRun c f (retypeLast (appendWrites c off r).1 TFirst ++ tail) (off % c.B) false sk co).2 = true := by
  have hsp := offA_space c hB off hoff
  have hH : H = 7 := rfl
  have hlen : (r.take (spaceA c off)).length = spaceA c off := by
    rw [List.length_take]; omega
  have hf0 := fuelOK_appendFuel c off r
  unfold appendWrites at hf ⊢
  have hf' : fuelOK c (2 * r.length + 1) (offA c off + H + spaceA c off) (r.drop (spaceA c off)) := by
    unfold fuelOK
    rw [hsp, List.length_drop]
    have h0 : offA c c.B = 0 := by unfold offA; simp [hH]
    have : spaceA c c.B ≠ 0 := by unfold spaceA; rw [h0]; omega
    simp only [this, if_false]
    omega
  have hne : (appendLoop c (2 * r.length + 1) (offA c off + H + spaceA c off) (r.drop (spaceA c off)) false).1 ≠ [] := by
    intro he
    have := appendLoop_length c (2 * r.length) (offA c off + H + spaceA c off) (r.drop (spaceA c off)) false
    rw [he] at this
    simp at this
    omega
  have hfu : appendFuel r = (2 * r.length + 1) + 1 := rfl
  rw [hfu, appendLoop_more c _ off r true hfrag] at hf ⊢
  simp only [if_true] at hf ⊢
  rw [retypeLast_append _ _ hne, List.flatten_append] at hf ⊢
  simp only [List.flatten_cons, List.flatten_nil, List.append_nil, List.append_assoc,
    List.length_append, emit_length, hlen] at hf ⊢
  obtain ⟨f1, rfl⟩ : ∃ f1, f = f1 + 1 := ⟨f - 1, by omega⟩
  rw [flatRun_frag c hB hB2 hcrc off hoff TFirst (by decide) _ _ (by omega), hlen]
  have : stepF false sk co TFirst = (true, sk, co) := by simp [stepF, TFull, TFirst]
  rw [this]
  exact flatRun_retype_rest c hB hB2 hcrc _ _ _ f1 sk co tail (by omega) hf'
    (by rw [List.length_append]; omega)

/-- **`Full` rewritten to `Last` or `Middle`**, read from a clean state, anything after it -/
theorem flatRun_retype_full (c : Cfg) (hB : H < c.B) (hB2 : c.B ≤ 65535 + H) (hcrc : ∀ d, c.crc d < 2^32)
    (off : Nat) (hoff : off ≤ c.B) (r : Bytes) (hfit : r.length ≤ spaceA c off) (ty : Nat)
    (hty : ty = TLast ∨ ty = TMiddle) (tail : Bytes) (f : Nat) (sk co : Bool) :
    (flatRun c (f+1) (retypeLast (appendWrites c off r).1 ty ++ tail) (off % c.B) false sk co).2 = true := by
  unfold appendWrites
  have hfu : appendFuel r = (2 * r.length + 1) + 1 := rfl
  rw [hfu, appendLoop_last c _ off r true hfit]
  simp only [if_true]
  rw [retypeLast_append _ _ (by simp), retypeLast_singleton, emit_set_ty, List.append_assoc,
    flatRun_frag c hB hB2 hcrc off hoff ty (by rcases hty with h | h <;> simp [h, TLast, TMiddle]) r tail hfit]
  have : (stepF false sk co ty).2.2 = true := by
    rcases hty with h | h <;> simp [h, stepF, TFull, TFirst, TMiddle, TLast]
  rw [this]
  exact flatRun_sticky c _ _ _ _ _

/-- the two detection results after any completely written prefix -/
theorem retype_first_detected (c : Cfg) (hB : H < c.B) (hB2 : c.B ≤ 65535 + H) (hcrc : ∀ d, c.crc d < 2^32)
    (recs : List Bytes) (r : Bytes)
    (hfrag : spaceA c (openOffset c (writeSession c [] recs).length) < r.length) (tail : Bytes) :
    (readAllF c (writeSession c [] recs ++
      (retypeLast (appendWrites c (openOffset c (writeSession c [] recs).length) r).1 TFirst ++ tail))).2.2
      = true := by
  have hH : H = 7 := rfl
  have hclean : (readAllF c (writeSession c [] recs)).2.1 = true := by
    rw [(readAllF_toS c _).2]; exact written_is_clean c hB hB2 hcrc recs
  rw [readAllF_clean_prefix c hB _ _ hclean]
  have hoff : openOffset c (writeSession c [] recs).length ≤ c.B := by
    unfold openOffset; exact Nat.le_of_lt (Nat.mod_lt _ (by omega))
  have hom : (writeSession c [] recs).length % c.B
      = openOffset c (writeSession c [] recs).length % c.B := by
    unfold openOffset; rw [Nat.mod_mod]
  rw [hom]
  exact flatRun_retype_first c hB hB2 hcrc _ hoff r hfrag tail _ false false (Nat.lt_succ_self _)

theorem retype_full_detected (c : Cfg) (hB : H < c.B) (hB2 : c.B ≤ 65535 + H) (hcrc : ∀ d, c.crc d < 2^32)
    (recs : List Bytes) (r : Bytes)
    (hfit : r.length ≤ spaceA c (openOffset c (writeSession c [] recs).length)) (ty : Nat)
    (hty : ty = TLast ∨ ty = TMiddle) (tail : Bytes) :
    (readAllF c (writeSession c [] recs ++
      (retypeLast (appendWrites c (openOffset c (writeSession c [] recs).length) r).1 ty ++ tail))).2.2
      = true := by
  have hH : H = 7 := rfl
  have hclean : (readAllF c (writeSession c [] recs)).2.1 = true := by
    rw [(readAllF_toS c _).2]; exact written_is_clean c hB hB2 hcrc recs
  rw [readAllF_clean_prefix c hB _ _ hclean]
  have hoff : openOffset c (writeSession c [] recs).length ≤ c.B := by
    unfold openOffset; exact Nat.le_of_lt (Nat.mod_lt _ (by omega))
  have hom : (writeSession c [] recs).length % c.B
      = openOffset c (writeSession c [] recs).length % c.B := by
    unfold openOffset; rw [Nat.mod_mod]
  rw [hom]
  exact flatRun_retype_full c hB hB2 hcrc _ hoff r hfit ty hty tail _ false false

/-- the file with one more record, as prefix ++ writes of that record -/
theorem writeSession_snoc (c : Cfg) (hB : H < c.B) (recs : List Bytes) (r : Bytes) :
    writeSession c [] (recs ++ [r]) = writeSession c [] recs ++
      (appendWrites c (openOffset c (writeSession c [] recs).length) r).1.flatten := by
  rw [← writeSession_writeSession c hB]
  show writeSession c [] recs ++
    (appendAllWrites c (openOffset c (writeSession c [] recs).length) [r]).1.flatten = _
  rw [appendAllWrites_cons, appendAllWrites_nil, List.append_nil]

/-- rewriting the type byte of the last fragment of a written file is a one-byte change of the file -/
theorem set_last_type (c : Cfg) (hB : H < c.B) (recs : List Bytes) (r : Bytes) (ty : Nat) :
    (writeSession c [] (recs ++ [r])).set
      ((writeSession c [] (recs ++ [r])).length
        - ((appendWrites c (openOffset c (writeSession c [] recs).length) r).1.getLast?.getD []).length + 6)
      ty.toUInt8
    = writeSession c [] recs ++
        retypeLast (appendWrites c (openOffset c (writeSession c [] recs).length) r).1 ty := by
  rw [writeSession_snoc c hB, retypeLast_eq_set]
  generalize (appendWrites c (openOffset c (writeSession c [] recs).length) r).1 = ws
  have hl : (ws.getLast?.getD []).length ≤ ws.flatten.length := by
    rcases List.eq_nil_or_concat ws with h | ⟨L, b, h⟩
    · subst h; simp
    · subst h; simp
  rw [List.length_append, List.set_append_right _ _ (by omega)]
  congr 2
  omega

end Rain.Log
