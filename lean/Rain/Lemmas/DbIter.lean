import Rain.Lemmas.DbFlat
import Rain.Lemmas.DbBisim
import Rain.Lemmas.Merge
/-
C04, database iterator: the lemmas `Rain/Props/C04.lean` appeals to.
-/
namespace Rain.DbIter.Lemmas
open Rain Rain.Lsm Rain.Table Rain.Merge Rain.DbIter Rain.OrderIter Rain.Visible Rain.DbFlat Rain.DbBisim

theorem dbiter_refines (es : List Entry) (hs : sortedE es = true) (snap fuel : Nat)
    (hf : es.length + 1 ≤ fuel) (ops : List UOp) :
    dbCurrent (flatInner es) (ops.foldl (dbStep (flatInner es) snap fuel) (dbInit es.length))
      = (visible snap es none)[ops.foldl (specStep (visible snap es none)) (visible snap es none).length]? := by
  have hs' := (sortedE_iff es).mp hs
  exact inv_current hs' (run_inv hs' fuel hf ops (init_inv hs'))

/-- reachable by the same program -/
def SameProg (children : List (List Entry)) (a : MState) (b : Nat) : Prop :=
  ∃ ops : List COp, a = ops.foldl (mergeStep children) (MState.init children) ∧
    b = ops.foldl (flatStep (merged children)) (merged children).length

theorem merge_bisim (children : List (List Entry)) (hs : ∀ c ∈ children, sortedE c = true)
    (hd : (children.flatten.map Entry.key).Nodup) :
    Bisim (mergeInner children) (flatInner (merged children)) (SameProg children) where
  cur := by
    rintro a b ⟨ops, rfl, rfl⟩
    exact Rain.Merge.Lemmas.merge_refines children hs hd ops
  step := by
    rintro a b op ⟨ops, rfl, rfl⟩
    refine ⟨ops ++ [op], ?_, ?_⟩
    · simp [mergeInner, List.foldl_append]
    · simp [flatInner, List.foldl_append]

theorem iterator_refines (children : List (List Entry)) (hs : ∀ c ∈ children, sortedE c = true)
    (hd : (children.flatten.map Entry.key).Nodup) (snap fuel : Nat)
    (hf : (merged children).length + 1 ≤ fuel) (ops : List UOp) :
    dbCurrent (mergeInner children)
        (ops.foldl (dbStep (mergeInner children) snap fuel) (dbInit (MState.init children)))
      = (visible snap (merged children) none)[ops.foldl (specStep (visible snap (merged children) none))
          (visible snap (merged children) none).length]? := by
  rw [← dbiter_refines (merged children) (Rain.Merge.Lemmas.sortedE_merged children hs hd) snap fuel hf ops]
  have B := merge_bisim children hs hd
  apply dbCurrent_rel B
  apply run_rel B
  exact ⟨⟨[], rfl, rfl⟩, rfl, rfl, rfl, rfl⟩

theorem visible_sorted (es : List Entry) (hs : sortedE es = true) (snap : Nat) :
    ((visible snap es none).map Prod.fst).Pairwise (fun a b => bytesLt a b = true) :=
  visible_sorted' es ((sortedE_iff es).mp hs) snap

theorem visible_is_view (es : List Entry) (hs : sortedE es = true) (snap : Nat) (k v : Bytes) :
    (k, v) ∈ visible snap es none ↔ view es snap k = some v :=
  visible_is_view' es ((sortedE_iff es).mp hs) snap k v

end Rain.DbIter.Lemmas
