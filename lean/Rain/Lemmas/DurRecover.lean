import Rain.Lemmas.DurWal
import Rain.Lemmas.DurLatest
/-
`recoverFrom` characterised, and a transfer lemma: recovery only looks at the current manifest,
the tables of the recovered version and the WALs numbered at least the recovered WAL number.
-/
namespace Rain.Durable.Lemmas
open Rain Rain.Lsm Rain.Durable

def tableFlat (tl : Nat → Option (List Entry)) (v : List (Nat × Nat)) : List Entry :=
  (v.map fun f => (tl f.2).getD []).flatten

theorem recoverFrom_eq_some (d : Disk) (m : Nat) (r : Recovered) :
    recoverFrom d m = some r ↔
      ∃ edits w, lookup d.manifests m = some edits ∧ walNoOf edits = some w ∧
        (versionOf edits).all (fun f => (lookup d.tables f.2).isSome) = true ∧
        r = { version := versionOf edits, walNo := w,
              entries := tableFlat (lookup d.tables) (versionOf edits) ++ walEntriesOf d.wals w } := by
  unfold recoverFrom
  cases hl : lookup d.manifests m with
  | none => simp
  | some edits =>
    dsimp only
    cases hw : walNoOf edits with
    | none => simp [hw]
    | some w =>
      dsimp only
      constructor
      · intro h
        by_cases hall : (versionOf edits).all (fun f => (lookup d.tables f.2).isSome) = true
        · rw [if_pos hall] at h
          injection h with h
          exact ⟨edits, w, rfl, hw, hall, h.symm⟩
        · rw [if_neg hall] at h; cases h
      · rintro ⟨edits', w', he, hw', hall, h⟩
        injection he with he
        subst he
        rw [hw] at hw'
        injection hw' with hw'
        subst hw'
        rw [if_pos hall, h]
        rfl

theorem recoverFrom_transfer (d d' : Disk) (m : Nat) (r : Recovered) (we : List Entry)
    (h : recoverFrom d m = some r)
    (hm : lookup d'.manifests m = lookup d.manifests m)
    (ht : ∀ f ∈ r.version, lookup d'.tables f.2 = lookup d.tables f.2)
    (hw : walEntriesOf d'.wals r.walNo = walEntriesOf d.wals r.walNo ++ we) :
    recoverFrom d' m = some { r with entries := r.entries ++ we } := by
  obtain ⟨edits, w, h1, h2, h3, h4⟩ := (recoverFrom_eq_some d m r).1 h
  subst h4
  simp only at ht hw
  refine (recoverFrom_eq_some d' m _).2 ⟨edits, w, hm.trans h1, h2, ?_, ?_⟩
  · rw [List.all_eq_true] at h3 ⊢; intro f hf; rw [ht f hf]; exact h3 f hf
  · have : tableFlat (lookup d'.tables) (versionOf edits) = tableFlat (lookup d.tables) (versionOf edits) := by
      unfold tableFlat; congr 1; apply List.map_congr_left; intro f hf; rw [ht f hf]
    simp only [this, hw, List.append_assoc]

theorem recoverFrom_transfer' (d d' : Disk) (m : Nat) (r : Recovered)
    (h : recoverFrom d m = some r)
    (hm : lookup d'.manifests m = lookup d.manifests m)
    (ht : ∀ f ∈ r.version, lookup d'.tables f.2 = lookup d.tables f.2)
    (hw : walEntriesOf d'.wals r.walNo = walEntriesOf d.wals r.walNo) :
    recoverFrom d' m = some r := by
  have := recoverFrom_transfer d d' m r [] h hm ht (by simpa using hw)
  simpa using this

theorem recover_eq_some (d : Disk) (r : Recovered) :
    recover d = some r ↔ ∃ c, d.current = some c ∧ recoverFrom d c = some r := by
  unfold recover
  cases d.current <;> simp

end Rain.Durable.Lemmas
