import Rain.Lemmas.PersistEdit
/-
Every step of the persisted system: its operation stream is accepted by the durability monitor and
the relation between LSM state and image is kept.
-/
namespace Rain.Persist.Lemmas
open Rain Rain.Lsm Rain.Durable Rain.Persist Rain.Lsm.Lemmas Rain.Durable.Lemmas

theorem runOk_nil (d : Disk) : runOk d [] = some d := rfl

theorem runOk_cons {d : Disk} {op : Op} {rest : List Op} (hok : ok d op = true) :
    runOk d (op :: rest) = runOk (apply d op) rest := by
  simp [runOk, hok]

theorem runOk_append {d d1 : Disk} {a b : List Op} (h : runOk d a = some d1) :
    runOk d (a ++ b) = runOk d1 b := by
  induction a generalizing d with
  | nil => simp only [runOk] at h; injection h with h; subst h; rfl
  | cons op rest ih =>
    simp only [List.cons_append, runOk] at h ⊢
    split at h
    · rename_i hok; rw [if_pos hok]; exact ih h
    · cases h

theorem runOk_eq_foldl {d d1 : Disk} {ops : List Op} (h : runOk d ops = some d1) :
    d1 = ops.foldl apply d := by
  induction ops generalizing d with
  | nil => simp only [runOk] at h; injection h with h; exact h.symm
  | cons op rest ih =>
    simp only [runOk] at h
    split at h
    · exact ih h
    · cases h

/-! ### chains of accepted operations -/

/-- the image `d` corresponds to an instance in state `q.1` with context `q.2` -/
def RelAt (q : State × Ctx) (d : Disk) : Prop := Rel { s := q.1, d := d, c := q.2 }

/-- a stream of accepted operations along which the image corresponds to `old` or to `new` -/
inductive Chain (old new : State × Ctx) : Disk → List Op → Prop
  | nil (d : Disk) (h : RelAt old d ∨ RelAt new d) : Chain old new d []
  | cons (d : Disk) (op : Op) (rest : List Op) (h : RelAt old d ∨ RelAt new d) (hok : ok d op = true)
      (tail : Chain old new (apply d op) rest) : Chain old new d (op :: rest)

theorem Chain.head {old new : State × Ctx} {d : Disk} {ops : List Op} (c : Chain old new d ops) :
    RelAt old d ∨ RelAt new d := by
  cases c with
  | nil _ h => exact h
  | cons _ _ _ h _ _ => exact h

theorem Chain.run {old new : State × Ctx} {d : Disk} {ops : List Op} (c : Chain old new d ops) :
    runOk d ops = some (ops.foldl apply d) := by
  induction c with
  | nil d _ => rfl
  | cons d op rest _ hok _ ih => rw [runOk_cons hok]; exact ih

theorem Chain.last {old new : State × Ctx} {d : Disk} {ops : List Op} (c : Chain old new d ops) :
    RelAt old (ops.foldl apply d) ∨ RelAt new (ops.foldl apply d) := by
  induction c with
  | nil d h => exact h
  | cons d op rest _ _ _ ih => exact ih

/-- every prefix -/
theorem Chain.prefix {old new : State × Ctx} {d : Disk} {ops : List Op} (c : Chain old new d ops) :
    ∀ i, i ≤ ops.length →
      (RelAt old ((ops.take i).foldl apply d) ∨ RelAt new ((ops.take i).foldl apply d)) ∧
      runOk d (ops.take i) = some ((ops.take i).foldl apply d) := by
  induction c with
  | nil d h => intro i _; simp only [List.take_nil, List.foldl_nil]; exact ⟨h, rfl⟩
  | cons d op rest h hok _ ih =>
    intro i hi
    cases i with
    | zero => simp only [List.take_zero, List.foldl_nil]; exact ⟨h, rfl⟩
    | succ j =>
      simp only [List.take_succ_cons, List.foldl_cons]
      have := ih j (by simpa using hi)
      exact ⟨this.1, by rw [runOk_cons hok]; exact this.2⟩

theorem Chain.append {old new : State × Ctx} {d : Disk} {a b : List Op} (ca : Chain old new d a)
    (cb : Chain old new (a.foldl apply d) b) : Chain old new d (a ++ b) := by
  induction ca with
  | nil d _ => exact cb
  | cons d op rest h hok _ ih => exact Chain.cons d op (rest ++ b) h hok (ih cb)

/-- a chain on the `old` side can be read as a chain for any `new` -/
theorem Chain.single {old new : State × Ctx} {d : Disk} {op : Op} (h : RelAt old d ∨ RelAt new d)
    (hok : ok d op = true) (h' : RelAt old (apply d op) ∨ RelAt new (apply d op)) :
    Chain old new d [op] :=
  Chain.cons d op [] h hok (Chain.nil _ h')

/-! ### lists of table operations -/

/-! ### several tables at once -/

def ctOps (outs : List (Nat × List Entry)) : List Op := outs.map fun o => Op.completeTable o.1 o.2
def rtOps (nums : List Nat) : List Op := nums.map fun n => Op.removeTable n

theorem rel_completeTables (outs : List (Nat × List Entry)) :
    ∀ {p : PState}, Rel p → (∀ o ∈ outs, ∀ l f, f ∈ lv p.s.levels l → f.num ≠ o.1) →
      (outs.map Prod.fst).Nodup →
      ∃ d1, runOk p.d (ctOps outs) = some d1 ∧ Rel { s := p.s, d := d1, c := p.c } ∧
        (∀ o ∈ outs, lookup d1.tables o.1 = some o.2) ∧
        (∀ t, t ∉ outs.map Prod.fst → lookup d1.tables t = lookup p.d.tables t) ∧
        d1.wals = p.d.wals ∧ d1.manifests = p.d.manifests ∧ d1.current = p.d.current := by
  induction outs with
  | nil =>
    intro p h _ _
    exact ⟨p.d, rfl, h, fun o ho => absurd ho (by simp), fun _ _ => rfl, rfl, rfl, rfl⟩
  | cons o rest ih =>
    intro p h hfresh hnd
    obtain ⟨hok, hR⟩ := rel_completeTable h o.1 o.2 (hfresh o List.mem_cons_self)
    have hnd' : (rest.map Prod.fst).Nodup := (List.nodup_cons.mp hnd).2
    have hnot : o.1 ∉ rest.map Prod.fst := (List.nodup_cons.mp hnd).1
    obtain ⟨d1, hrun, hR1, hl1, hl2, hw, hm, hc⟩ :=
      ih hR (fun o' ho' => hfresh o' (List.mem_cons_of_mem _ ho')) hnd'
    refine ⟨d1, ?_, hR1, ?_, ?_, hw, hm, hc⟩
    · show runOk p.d (Op.completeTable o.1 o.2 :: ctOps rest) = some d1
      rw [runOk_cons hok]; exact hrun
    · intro o' ho'
      rcases List.mem_cons.mp ho' with rfl | ho'
      · rw [hl2 _ hnot]
        show lookup (update p.d.tables o'.1 o'.2) o'.1 = _
        rw [lookup_update, if_pos rfl]
      · exact hl1 o' ho'
    · intro t ht
      simp only [List.map_cons, List.mem_cons, not_or] at ht
      rw [hl2 t ht.2]
      show lookup (update p.d.tables o.1 o.2) t = _
      rw [lookup_update, if_neg ht.1]

theorem rel_removeTables (nums : List Nat) :
    ∀ {p : PState}, Rel p → (∀ n ∈ nums, ∀ l f, f ∈ lv p.s.levels l → f.num ≠ n) →
      ∃ d1, runOk p.d (rtOps nums) = some d1 ∧ Rel { s := p.s, d := d1, c := p.c } := by
  induction nums with
  | nil => intro p h _; exact ⟨p.d, rfl, h⟩
  | cons n rest ih =>
    intro p h hfresh
    obtain ⟨hok, hR⟩ := rel_removeTable h n (hfresh n List.mem_cons_self)
    obtain ⟨d1, hrun, hR1⟩ := ih hR (fun n' hn' => hfresh n' (List.mem_cons_of_mem _ hn'))
    refine ⟨d1, ?_, hR1⟩
    show runOk p.d (Op.removeTable n :: rtOps rest) = some d1
    rw [runOk_cons hok]; exact hrun

theorem chain_completeTables (old new : State × Ctx) (outs : List (Nat × List Entry)) :
    ∀ {d : Disk}, RelAt old d → (∀ o ∈ outs, ∀ l f, f ∈ lv old.1.levels l → f.num ≠ o.1) →
      Chain old new d (ctOps outs) ∧ RelAt old ((ctOps outs).foldl apply d) := by
  induction outs with
  | nil => intro d h _; exact ⟨Chain.nil d (Or.inl h), h⟩
  | cons o rest ih =>
    intro d h hfresh
    obtain ⟨hok, hR⟩ := rel_completeTable (p := { s := old.1, d := d, c := old.2 }) h o.1 o.2
      (hfresh o List.mem_cons_self)
    obtain ⟨c, hl⟩ := ih (d := apply d (.completeTable o.1 o.2)) hR
      (fun o' ho' => hfresh o' (List.mem_cons_of_mem _ ho'))
    exact ⟨Chain.cons d _ _ (Or.inl h) hok c, hl⟩

theorem chain_removeTables (old new : State × Ctx) (nums : List Nat) :
    ∀ {d : Disk}, RelAt new d → (∀ n ∈ nums, ∀ l f, f ∈ lv new.1.levels l → f.num ≠ n) →
      Chain old new d (rtOps nums) ∧ RelAt new ((rtOps nums).foldl apply d) := by
  induction nums with
  | nil => intro d h _; exact ⟨Chain.nil d (Or.inr h), h⟩
  | cons n rest ih =>
    intro d h hfresh
    obtain ⟨hok, hR⟩ := rel_removeTable (p := { s := new.1, d := d, c := new.2 }) h n
      (hfresh n List.mem_cons_self)
    obtain ⟨c, hl⟩ := ih (d := apply d (.removeTable n)) hR
      (fun n' hn' => hfresh n' (List.mem_cons_of_mem _ hn'))
    exact ⟨Chain.cons d _ _ (Or.inr h) hok c, hl⟩


/-! ### the version after an edit -/

theorem inVersion_add {L : List (List File)} {t : Nat} (f : File) (ht : t < L.length) (q : Nat × Nat) :
    InVersion (addToLevel L t f) q ↔ InVersion L q ∨ q = (t, f.num) := by
  unfold InVersion
  constructor
  · rintro ⟨g, hg, hn⟩
    rcases (mem_lv_addToLevel L f ht q.1 g).mp hg with hg | ⟨hq, rfl⟩
    · exact Or.inl ⟨g, hg, hn⟩
    · right; exact Prod.ext hq hn.symm
  · rintro (⟨g, hg, hn⟩ | rfl)
    · exact ⟨g, (mem_lv_addToLevel L f ht q.1 g).mpr (Or.inl hg), hn⟩
    · exact ⟨f, (mem_lv_addToLevel L f ht t f).mpr (Or.inr ⟨rfl, rfl⟩), rfl⟩

end Rain.Persist.Lemmas

namespace Rain.Persist.Lemmas
open Rain Rain.Lsm Rain.Durable Rain.Persist Rain.Lsm.Lemmas Rain.Durable.Lemmas

theorem step_get {s s' : State} {a : Action} (h : InvP s) (hs : step s a = some s')
    (hw : a.isWrite = false) (k : Bytes) : dbGet s' k s'.lastSeq = dbGet s k s.lastSeq := by
  rw [step_lastSeq hs hw, get_eq_view' s' (step_inv' h hs), get_eq_view' s h]
  exact rearrange_view' h hs hw _ (floor_le h hs) k

/-- what a step of the persisted system does and yields -/
structure StepOk (p p' : PState) (ops : List Op) : Prop where
  run : runOk p.d ops = some p'.d
  rel : Rel p'
  /-- every prefix of the operations: accepted, and the image corresponds to the state before or
  after the step -/
  chain : Chain (p.s, p.c) (p'.s, p'.c) p.d ops

/-! ### write and rotation -/

theorem write_ok {p : PState} (h : Rel p) (ops : List (Bytes × Option Bytes)) :
    StepOk p { s := stepWrite p.s ops, d := (opsOf p (.write ops)).foldl apply p.d, c := p.c }
      (opsOf p (.write ops)) := by
  obtain ⟨hok, hR⟩ := rel_appendWal h ops
  exact ⟨by simp only [opsOf, List.foldl_cons, List.foldl_nil]; rw [runOk_cons hok]; rfl,
         by simpa only [opsOf, List.foldl_cons, List.foldl_nil] using hR,
         Chain.single (Or.inl h) hok (Or.inr hR)⟩

theorem rotate_ok {p : PState} (h : Rel p) (w : Nat) (hw : ∀ x ∈ p.d.wals, x.1 < w) (s' : State)
    (hs : stepRotate p.s = some s') :
    StepOk p { s := s', d := (opsOf p (.rotate w)).foldl apply p.d, c := ctxAfter p.c (.rotate w) }
      (opsOf p (.rotate w)) := by
  obtain ⟨hok, hR⟩ := rel_createWal h w hw s' hs
  exact ⟨by simp only [opsOf, List.foldl_cons, List.foldl_nil]; rw [runOk_cons hok]; rfl,
         by simpa only [opsOf, List.foldl_cons, List.foldl_nil, ctxAfter] using hR,
         Chain.single (Or.inl h) hok (Or.inr hR)⟩

/-! ### flush -/

theorem flush_ok {p : PState} (h : Rel p) (num lvl : Nat) (s' : State)
    (hs : stepFlush p.s num lvl = some s') :
    StepOk p { s := s', d := (opsOf p (.flush num lvl)).foldl apply p.d, c := ctxAfter p.c (.flush num lvl) }
      (opsOf p (.flush num lvl)) := by
  have hstep : step p.s (.flush num lvl) = some s' := hs
  have hinv' := step_inv' h.inv hstep
  have hget := step_get h.inv hstep rfl
  have hlast := step_lastSeq hstep rfl
  -- the immutable memtable has its own WAL
  rcases flush_cases hs with ⟨hi, hs'⟩ | ⟨e, es, hi, hlvl, hnum, hs'⟩
  all_goals
    (obtain ⟨wi, im, bs, hwi, him, hlt, hlI, hmI⟩ : ∃ wi im bs, p.c.immWal = some wi ∧ p.s.imm = some im ∧
        wi < p.c.wal ∧ lookup p.d.wals wi = some bs ∧ ∀ e, e ∈ batchesFlat bs ↔ e ∈ im := by
      rcases h.walImm with ⟨_, hn⟩ | hx
      · rw [hi] at hn; cases hn
      · exact hx)
  · -- empty immutable memtable: only the WAL number advances
    have hver : ∀ es, lookup p.d.manifests p.c.manifest = some es →
        ∀ q, q ∈ versionOf (es ++ [{ walNumber := some p.c.wal, added := [], deleted := [] }]) ↔
          InVersion s'.levels q := by
      intro es hes q
      obtain ⟨es0, hes0, _, hv0⟩ := h.edits
      rw [hes] at hes0; injection hes0 with hes0; subst hes0
      rw [mem_versionOf_snoc]
      simp only [List.not_mem_nil, not_false_eq_true, and_true, or_false]
      rw [hv0 q, hs']
    obtain ⟨hok, hR⟩ := rel_appendManifest h { walNumber := some p.c.wal, added := [], deleted := [] } s'
      { p.c with immWal := none, manWal := p.c.wal } hinv' hlast hget rfl rfl hver
      (by rw [hs']; exact h.tables) (by rw [hs']) (Or.inr ⟨rfl, rfl, by rw [hs'], rfl⟩)
    obtain ⟨hok2, hR2⟩ := rel_removeWal hR wi hlt
    refine ⟨?_, ?_, ?_⟩
    · simp only [opsOf, hi, hwi, List.cons_append, List.nil_append, List.foldl_cons, List.foldl_nil]
      rw [runOk_cons hok, runOk_cons hok2]; rfl
    · simpa only [opsOf, hi, hwi, List.cons_append, List.nil_append, List.foldl_cons, List.foldl_nil,
        ctxAfter] using hR2
    · simp only [opsOf, hi, hwi, List.cons_append, List.nil_append, ctxAfter]
      exact Chain.cons _ _ _ (Or.inl h) hok (Chain.single (Or.inr hR) hok2 (Or.inr hR2))
  · -- a table is written first
    have ht : lvl < 7 := by rcases hlvl with rfl | ⟨h1, _⟩ <;> omega
    have hfresh : ∀ l f, f ∈ lv p.s.levels l → f.num ≠ num := by
      intro l f hf
      have := hnum f (mem_flatten_iff_lv.mpr ⟨l, hf⟩)
      omega
    obtain ⟨hok1, hR1⟩ := rel_completeTable h num (e :: es) hfresh
    have hlen : lvl < p.s.levels.length := by rw [h.inv.len]; exact ht
    have hver : ∀ es0, lookup (apply p.d (.completeTable num (e :: es))).manifests p.c.manifest = some es0 →
        ∀ q, q ∈ versionOf (es0 ++ [{ walNumber := some p.c.wal, added := [(lvl, num)], deleted := [] }]) ↔
          InVersion s'.levels q := by
      intro es0 hes q
      obtain ⟨es1, hes1, _, hv0⟩ := h.edits
      have hes' : lookup p.d.manifests p.c.manifest = some es0 := hes
      rw [hes'] at hes1; injection hes1 with hes1; subst hes1
      rw [mem_versionOf_snoc, hs']
      simp only [List.not_mem_nil, not_false_eq_true, and_true, List.mem_singleton]
      rw [hv0 q]
      exact (inVersion_add (mkFile num (e :: es)) hlen q).symm
    have htab : ∀ l f, f ∈ lv s'.levels l →
        lookup (apply p.d (.completeTable num (e :: es))).tables f.num = some f.entries := by
      intro l f hf
      rw [hs'] at hf
      show lookup (update p.d.tables num (e :: es)) f.num = _
      rcases (mem_lv_addToLevel p.s.levels _ hlen l f).mp hf with hf | ⟨_, rfl⟩
      · rw [lookup_update, if_neg (hfresh l f hf)]; exact h.tables l f hf
      · rw [lookup_update]; simp
    obtain ⟨hok2, hR2⟩ := rel_appendManifest hR1
      { walNumber := some p.c.wal, added := [(lvl, num)], deleted := [] } s'
      { p.c with immWal := none, manWal := p.c.wal } hinv' hlast hget rfl rfl hver htab (by rw [hs'])
      (Or.inr ⟨rfl, rfl, by rw [hs'], rfl⟩)
    obtain ⟨hok3, hR3⟩ := rel_removeWal hR2 wi hlt
    refine ⟨?_, ?_, ?_⟩
    · simp only [opsOf, hi, hwi, List.cons_append, List.nil_append, List.foldl_cons, List.foldl_nil]
      rw [runOk_cons hok1, runOk_cons hok2, runOk_cons hok3]; rfl
    · simpa only [opsOf, hi, hwi, List.cons_append, List.nil_append, List.foldl_cons, List.foldl_nil,
        ctxAfter] using hR3
    · simp only [opsOf, hi, hwi, List.cons_append, List.nil_append, ctxAfter]
      exact Chain.cons _ _ _ (Or.inl h) hok1 (Chain.cons _ _ _ (Or.inl hR1) hok2
        (Chain.single (Or.inr hR2) hok3 (Or.inr hR3)))

end Rain.Persist.Lemmas

namespace Rain.Persist.Lemmas
open Rain Rain.Lsm Rain.Durable Rain.Persist Rain.Lsm.Lemmas Rain.Durable.Lemmas

/-! ### trivial move -/

theorem move_ok {p : PState} (h : Rel p) (num lvl : Nat) (s' : State)
    (hs : stepTrivialMove p.s num lvl = some s') :
    StepOk p { s := s', d := (opsOf p (.trivialMove num lvl)).foldl apply p.d, c := p.c }
      (opsOf p (.trivialMove num lvl)) := by
  have hstep : step p.s (.trivialMove num lvl) = some s' := hs
  have hinv' := step_inv' h.inv hstep
  have hget := step_get h.inv hstep rfl
  have hlast := step_lastSeq hstep rfl
  obtain ⟨f, hp, ht, _, _, _, hs'⟩ := move_cases hs
  have hfm : f ∈ lv p.s.levels lvl ∧ f.num = num := by
    have : f ∈ pick (lv p.s.levels lvl) [num] := by rw [hp]; simp
    simpa [pick, List.mem_filter] using this
  have hlen : lvl + 1 < (removeNums p.s.levels lvl [num]).length := by
    rw [removeNums_length, h.inv.len]; exact ht
  have hmem : ∀ j g, g ∈ lv s'.levels j ↔
      (g ∈ lv p.s.levels j ∧ (j = lvl → g.num ≠ num)) ∨ (j = lvl + 1 ∧ g = f) := by
    intro j g
    rw [hs']
    show g ∈ lv (addToLevel (removeNums p.s.levels lvl [num]) (lvl + 1) f) j ↔ _
    rw [mem_lv_addToLevel _ f hlen j g, mem_lv_removeNums]
    simp
  have hver : ∀ es, lookup p.d.manifests p.c.manifest = some es →
      ∀ q, q ∈ versionOf (es ++ [{ walNumber := none, added := [(lvl + 1, num)], deleted := [(lvl, num)] }]) ↔
        InVersion s'.levels q := by
    intro es hes q
    obtain ⟨es0, hes0, _, hv0⟩ := h.edits
    rw [hes] at hes0; injection hes0 with hes0; subst hes0
    rw [mem_versionOf_snoc]
    simp only [List.mem_singleton]
    rw [hv0 q]
    unfold InVersion
    constructor
    · rintro (⟨⟨g, hg, hn⟩, hne⟩ | rfl)
      · refine ⟨g, (hmem q.1 g).mpr (Or.inl ⟨hg, fun hq hgn => hne (Prod.ext hq (hn.symm.trans hgn))⟩), hn⟩
      · exact ⟨f, (hmem (lvl + 1) f).mpr (Or.inr ⟨rfl, rfl⟩), hfm.2⟩
    · rintro ⟨g, hg, hn⟩
      rcases (hmem q.1 g).mp hg with ⟨hg, hne⟩ | ⟨hq, rfl⟩
      · left
        refine ⟨⟨g, hg, hn⟩, fun hq => ?_⟩
        have h1 : q.1 = lvl := by rw [hq]
        have h2 : q.2 = num := by rw [hq]
        exact hne h1 (hn.trans h2)
      · right; exact Prod.ext hq (hn.symm.trans hfm.2)
  have htab : ∀ l g, g ∈ lv s'.levels l → lookup p.d.tables g.num = some g.entries := by
    intro l g hg
    rcases (hmem l g).mp hg with ⟨hg, _⟩ | ⟨_, rfl⟩
    · exact h.tables l g hg
    · exact h.tables lvl g hfm.1
  obtain ⟨hok, hR⟩ := rel_appendManifest h
    { walNumber := none, added := [(lvl + 1, num)], deleted := [(lvl, num)] } s' p.c
    hinv' hlast hget rfl rfl hver htab (by rw [hs']) (Or.inl ⟨rfl, rfl, by rw [hs'], rfl⟩)
  refine ⟨?_, ?_, ?_⟩
  · simp only [opsOf, List.foldl_cons, List.foldl_nil]
    rw [runOk_cons hok]; rfl
  · simpa only [opsOf, List.foldl_cons, List.foldl_nil] using hR
  · exact Chain.single (Or.inl h) hok (Or.inr hR)

end Rain.Persist.Lemmas

namespace Rain.Persist.Lemmas
open Rain Rain.Lsm Rain.Durable Rain.Persist Rain.Lsm.Lemmas Rain.Durable.Lemmas

/-! ### table compaction -/

theorem nodup_subset_full {A B : List Nat} (hA : A.Nodup) (hsub : A ⊆ B) (hlen : B.length ≤ A.length) :
    B ⊆ A := by
  intro b hb
  apply Classical.byContradiction
  intro hn
  have h1 : A ⊆ B.erase b := fun x hx =>
    (List.mem_erase_of_ne (fun (h : x = b) => hn (by rw [← h]; exact hx))).2 (hsub hx)
  have h2 := hA.length_le_of_subset h1
  have h3 : (B.erase b).length = B.length - 1 := by rw [List.length_erase]; simp [hb]
  have h4 : 1 ≤ B.length := List.length_pos_of_mem hb
  omega

theorem picked_all {l : List File} {nums : List Nat} (hl : (l.map File.num).Nodup)
    (hlen : (pick l nums).length = nums.length) : ∀ n ∈ nums, ∃ f ∈ l, f.num = n := by
  have hsubl : ((pick l nums).map File.num).Sublist (l.map File.num) :=
    List.Sublist.map _ List.filter_sublist
  have hA : ((pick l nums).map File.num).Nodup := List.Nodup.sublist hsubl hl
  have hsub : (pick l nums).map File.num ⊆ nums := by
    intro n hn
    obtain ⟨f, hf, rfl⟩ := List.mem_map.mp hn
    simpa [pick, List.mem_filter] using (List.mem_filter.mp hf).2
  have := nodup_subset_full hA hsub (by rw [List.length_map, hlen]; exact Nat.le_refl _)
  intro n hn
  obtain ⟨f, hf, hfn⟩ := List.mem_map.mp (this hn)
  exact ⟨f, (List.mem_filter.mp hf).1, hfn⟩

theorem inputs_exist {s : State} {c : Compaction} (h : InvP s) (hv : validCompaction s c = true) :
    (∀ n ∈ c.inputs0, ∃ f ∈ lv s.levels c.level, f.num = n) ∧
    (∀ n ∈ c.inputs1, ∃ f ∈ lv s.levels (c.level + 1), f.num = n) := by
  unfold validCompaction at hv
  simp only [Bool.and_eq_true, decide_eq_true_eq] at hv
  obtain ⟨⟨⟨⟨⟨⟨⟨⟨⟨⟨⟨_, _⟩, _⟩, h4⟩, h5⟩, _⟩, _⟩, _⟩, _⟩, _⟩, _⟩, _⟩ := hv
  exact ⟨picked_all (h.numsL c.level) h4, picked_all (h.numsL (c.level + 1)) h5⟩

theorem compact_ok {p : PState} (h : Rel p) (c : Compaction) (s' : State)
    (hs : stepCompact p.s c = some s') :
    StepOk p { s := s', d := (opsOf p (.compact c)).foldl apply p.d, c := p.c } (opsOf p (.compact c)) := by
  have hstep : step p.s (.compact c) = some s' := hs
  have hinv' := step_inv' h.inv hstep
  have hget := step_get h.inv hstep rfl
  have hlast := step_lastSeq hstep rfl
  obtain ⟨hv, hs'⟩ := compact_cases hs
  have v := compactV_of_valid h.inv hv
  obtain ⟨hex0, hex1⟩ := inputs_exist h.inv hv
  -- 1. the output tables
  obtain ⟨d1, hrun1, hR1, hl1, hl2, _, _, _⟩ := rel_completeTables c.outputs h
    (fun o ho l f hf => v.outs_fresh o ho l f hf) v.outs_nodup
  -- membership in the new levels
  have hmem : ∀ j g, g ∈ lv s'.levels j ↔
      (g ∈ lv p.s.levels j ∧ (j = c.level → g.num ∉ c.inputs0) ∧ (j = c.level + 1 → g.num ∉ c.inputs1)) ∨
      (j = c.level + 1 ∧ ∃ o ∈ c.outputs, g = mkFile o.1 o.2) := by
    intro j g
    rw [hs']
    show g ∈ lv (cL' p.s c) j ↔ _
    rw [mem_lv_cL' h.inv v, mem_lv_cL2, mem_cOuts]
  let e : Edit := { walNumber := none,
                    added := c.outputs.map fun o => (c.level + 1, o.1),
                    deleted := (c.inputs0.map fun n => (c.level, n)) ++ (c.inputs1.map fun n => (c.level + 1, n)) }
  have hver : ∀ es, lookup d1.manifests p.c.manifest = some es →
      ∀ q, q ∈ versionOf (es ++ [e]) ↔ InVersion s'.levels q := by
    intro es hes q
    obtain ⟨es0, hes0, _, hv0⟩ := hR1.edits
    have hes0' : lookup d1.manifests p.c.manifest = some es0 := hes0
    rw [hes] at hes0'; injection hes0' with hes0'; subst hes0'
    rw [mem_versionOf_snoc, hv0 q]
    have hdel : q ∈ e.deleted ↔ (q.1 = c.level ∧ q.2 ∈ c.inputs0) ∨ (q.1 = c.level + 1 ∧ q.2 ∈ c.inputs1) := by
      simp only [e, List.mem_append, List.mem_map]
      constructor
      · rintro (⟨n, hn, rfl⟩ | ⟨n, hn, rfl⟩)
        · exact Or.inl ⟨rfl, hn⟩
        · exact Or.inr ⟨rfl, hn⟩
      · rintro (⟨h1, h2⟩ | ⟨h1, h2⟩)
        · exact Or.inl ⟨q.2, h2, Prod.ext h1.symm rfl⟩
        · exact Or.inr ⟨q.2, h2, Prod.ext h1.symm rfl⟩
    have hadd : q ∈ e.added ↔ q.1 = c.level + 1 ∧ ∃ o ∈ c.outputs, o.1 = q.2 := by
      simp only [e, List.mem_map]
      constructor
      · rintro ⟨o, ho, rfl⟩; exact ⟨rfl, o, ho, rfl⟩
      · rintro ⟨h1, o, ho, h2⟩; exact ⟨o, ho, Prod.ext h1.symm h2⟩
    rw [hdel, hadd]
    unfold InVersion
    constructor
    · rintro (⟨⟨g, hg, hn⟩, hnd⟩ | ⟨hq, o, ho, hoq⟩)
      · refine ⟨g, (hmem q.1 g).mpr (Or.inl ⟨hg, ?_, ?_⟩), hn⟩
        · intro hq hin; exact hnd (Or.inl ⟨hq, hn ▸ hin⟩)
        · intro hq hin; exact hnd (Or.inr ⟨hq, hn ▸ hin⟩)
      · exact ⟨mkFile o.1 o.2, (hmem q.1 _).mpr (Or.inr ⟨hq, o, ho, rfl⟩), hoq⟩
    · rintro ⟨g, hg, hn⟩
      rcases (hmem q.1 g).mp hg with ⟨hg, h0, h1⟩ | ⟨hq, o, ho, rfl⟩
      · left
        refine ⟨⟨g, hg, hn⟩, ?_⟩
        rintro (⟨hq, hin⟩ | ⟨hq, hin⟩)
        · exact h0 hq (hn ▸ hin)
        · exact h1 hq (hn ▸ hin)
      · right; exact ⟨hq, o, ho, hn⟩
  have htab : ∀ l g, g ∈ lv s'.levels l → lookup d1.tables g.num = some g.entries := by
    intro l g hg
    rcases (hmem l g).mp hg with ⟨hg, _, _⟩ | ⟨_, o, ho, rfl⟩
    · rw [hl2 g.num]
      · exact h.tables l g hg
      · intro hin
        obtain ⟨o, ho, hon⟩ := List.mem_map.mp hin
        exact v.outs_fresh o ho l g hg hon.symm
    · exact hl1 o ho
  -- 2. the edit
  obtain ⟨hok2, hR2⟩ := rel_appendManifest hR1 e s' p.c hinv' hlast hget rfl rfl hver htab
    (by rw [hs']) (Or.inl ⟨rfl, rfl, by rw [hs'], rfl⟩)
  -- 3. the input tables
  have hgone : ∀ n ∈ c.inputs0 ++ c.inputs1, ∀ l g, g ∈ lv s'.levels l → g.num ≠ n := by
    intro n hn l g hg hgn
    rcases (hmem l g).mp hg with ⟨hg, h0, h1⟩ | ⟨_, o, ho, rfl⟩
    · rcases List.mem_append.mp hn with hn | hn
      · obtain ⟨f, hf, hfn⟩ := hex0 n hn
        have hl : l = c.level := h.inv.numsX l c.level g f hg hf (hgn.trans hfn.symm)
        exact h0 hl (hgn ▸ hn)
      · obtain ⟨f, hf, hfn⟩ := hex1 n hn
        have hl : l = c.level + 1 := h.inv.numsX l (c.level + 1) g f hg hf (hgn.trans hfn.symm)
        exact h1 hl (hgn ▸ hn)
    · -- an output's number is used by no file of the old version, in particular by no input
      rcases List.mem_append.mp hn with hn | hn
      · obtain ⟨f, hf, hfn⟩ := hex0 n hn
        exact v.outs_fresh o ho c.level f hf (hfn.trans hgn.symm)
      · obtain ⟨f, hf, hfn⟩ := hex1 n hn
        exact v.outs_fresh o ho (c.level + 1) f hf (hfn.trans hgn.symm)
  obtain ⟨d3, hrun3, hR3⟩ := rel_removeTables (c.inputs0 ++ c.inputs1) hR2 hgone
  have hall : runOk p.d (opsOf p (.compact c)) = some d3 := by
    show runOk p.d ((ctOps c.outputs ++ [Op.appendManifest p.c.manifest e]) ++ rtOps (c.inputs0 ++ c.inputs1)) = some d3
    rw [runOk_append (d1 := apply d1 (.appendManifest p.c.manifest e))]
    · exact hrun3
    · rw [runOk_append hrun1, runOk_cons hok2]; rfl
  have hd3 : d3 = (opsOf p (.compact c)).foldl apply p.d := runOk_eq_foldl hall
  refine ⟨?_, ?_, ?_⟩
  · show runOk p.d (opsOf p (.compact c)) = some ((opsOf p (.compact c)).foldl apply p.d)
    rw [← hd3]; exact hall
  · show Rel { s := s', d := (opsOf p (.compact c)).foldl apply p.d, c := p.c }
    rw [← hd3]; exact hR3
  · -- the chain: output tables (old state), the edit (switch), input tables (new state)
    obtain ⟨c1, hl1'⟩ := chain_completeTables (p.s, p.c) (s', p.c) c.outputs (d := p.d) h
      (fun o ho l f hf => v.outs_fresh o ho l f hf)
    have hd1 : d1 = (ctOps c.outputs).foldl apply p.d := runOk_eq_foldl hrun1
    have c2 : Chain (p.s, p.c) (s', p.c) ((ctOps c.outputs).foldl apply p.d)
        [Op.appendManifest p.c.manifest e] := by
      rw [← hd1]; exact Chain.single (Or.inl hR1) hok2 (Or.inr hR2)
    obtain ⟨c3, _⟩ := chain_removeTables (p.s, p.c) (s', p.c) (c.inputs0 ++ c.inputs1)
      (d := apply d1 (.appendManifest p.c.manifest e)) hR2 hgone
    show Chain (p.s, p.c) (s', p.c) p.d
      ((ctOps c.outputs ++ [Op.appendManifest p.c.manifest e]) ++ rtOps (c.inputs0 ++ c.inputs1))
    refine Chain.append (Chain.append c1 c2) ?_
    rw [List.foldl_append, ← hd1]
    exact c3

end Rain.Persist.Lemmas
