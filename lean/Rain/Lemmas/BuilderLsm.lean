import Rain.Lemmas.BuilderApply
import Rain.Lemmas.Lsm
/-
The version builder agrees with the transitions of the LSM model (`Rain/Lsm.lean`): applying the
edit a flush / trivial move / table compaction writes to the manifest gives the levels of
`stepFlush` / `stepTrivialMove` / `stepCompact` — as a permutation at level 0 (the LSM model
appends, the builder sorts by smallest key), exactly at levels ≥ 1 — and never panics.
-/
namespace Rain.Builder.Lemmas
open Rain Rain.Lsm Rain.Lsm.Lemmas Rain.Builder

/-- if `L'` holds, level by level, what the edit describes (the base files that are not deleted,
plus the added files) and satisfies the level part of the LSM invariant, the builder produces it -/
theorem agree_of_spec {L L' : Levels} {e : Edit}
    (hlen : L'.length = L.length)
    (hfresh : Fresh L [e])
    (hnum : ∀ j, ((lv L' j).map File.num).Nodup)
    (hok : ∀ j, 1 ≤ j → LevelOk (lv L' j))
    (hfile : ∀ j f, f ∈ lv L' j → FileOk f)
    (hmem : ∀ j g, j < L.length →
      (g ∈ lv L' j ↔ (g ∈ lv L j ∧ (j, g.num) ∉ e.deleted) ∨ (j, g) ∈ e.added)) :
    ∃ r, applyEdits L [e] = some r ∧ Agree r L' := by
  have hF : ∀ j, FreshL j (lv L j) (empty : Builder).added [e] := fun j => Fresh.level hfresh j
  have hmemB : ∀ j, j < L.length → ∀ g, g ∈ applyLevel (accumulate empty e) j (lv L j) ↔ g ∈ lv L' j := by
    intro j hj g
    rw [hmem j g hj]
    simp only [mem_applyLevel, mem_accumulate_deleted, mem_accumulate_added, empty,
      List.not_mem_nil, false_or]
    constructor
    · rintro ⟨h1 | h1, h2⟩
      · left
        refine ⟨h1, fun hd => h2 ⟨hd, ?_⟩⟩
        have := (hF j).not_added (Or.inl h1)
        simpa using this
      · exact Or.inr h1
    · rintro (⟨h1, h2⟩ | h1)
      · exact ⟨Or.inl h1, fun hd => h2 hd.1⟩
      · exact ⟨Or.inr h1, fun hd => hd.2 (List.mem_map.mpr ⟨(j, g), h1, rfl⟩)⟩
  have hnumB : ∀ j, ((applyLevel (accumulate empty e) j (lv L j)).map File.num).Nodup := by
    intro j
    apply applyLevel_nodup
    exact (hF j).accumulate.2.base_builder
  have heq : ∀ j, j < L.length → 1 ≤ j → applyLevel (accumulate empty e) j (lv L j) = lv L' j := by
    intro j hj h1
    exact eq_of_sorted_of_mem (applyLevel_sorted ..) (sortedF_of_levelOk (hok j h1) (hfile j))
      (hnumB j) (hnum j) (hmemB j hj)
  refine ⟨applyRaw (accumulate empty e) L, ?_, ?_, ?_, ?_⟩
  · unfold applyEdits
    simp only [List.foldl_cons, List.foldl_nil]
    apply applyTo_some_of
    intro j hj h1
    rw [heq j hj h1]
    exact (levelSorted_iff _ (hfile j)).mpr (hok j h1)
  · rw [applyRaw_length, hlen]
  · intro j
    change (lv (applyRaw (accumulate empty e) L) j).Perm (lv L' j)
    rw [lv_applyRaw]
    split
    · rename_i hj
      exact (List.perm_ext_iff_of_nodup (nodup_of_nodup_nums (hnumB j))
        (nodup_of_nodup_nums (hnum j))).mpr (hmemB j hj)
    · rename_i hj
      rw [lv_of_ge (by omega : L'.length ≤ j)]
  · apply levels_ext
    · simp [applyRaw_length, hlen]
    · intro j hj
      simp only [List.length_drop, applyRaw_length] at hj
      rw [lv_drop, lv_drop, lv_applyRaw_lt _ _ (by omega)]
      exact heq (1 + j) (by omega) (by omega)

theorem pairsOf_nodup_of_inv {s : State} (h : InvP s) : (pairsOf s.levels).Nodup :=
  pairsFrom_nodup s.levels 0 h.numsL

/-! ### flush -/

theorem flush_agree {s s' : State} {num lvl : Nat} (h : InvP s)
    (hs : stepFlush s num lvl = some s') :
    Fresh s.levels [flushEditOf s num lvl] ∧
      ∃ r, applyEdits s.levels [flushEditOf s num lvl] = some r ∧ Agree r s'.levels := by
  have h' : InvP s' := step_inv' (a := .flush num lvl) h hs
  rcases flush_cases hs with ⟨himm, rfl⟩ | ⟨e, es, himm, hlvl, hnums, rfl⟩
  · have hE : flushEditOf s num lvl = { deleted := [], added := [] } := by
      simp [flushEditOf, himm]
    have hfresh : Fresh s.levels [flushEditOf s num lvl] := by
      rw [hE]
      simpa [Fresh, usedPairs, Edit.addedPairs] using pairsOf_nodup_of_inv h
    refine ⟨hfresh, agree_of_spec rfl hfresh h'.numsL h'.lvls h'.files ?_⟩
    intro j g _
    rw [hE]
    simp
  · have hE : flushEditOf s num lvl = flushEdit (mkFile num (e :: es)) lvl := by
      simp [flushEditOf, himm]
    have hl : lvl < s.levels.length := by
      rw [h.len]
      rcases hlvl with rfl | ⟨hl, _⟩
      · omega
      · exact hl
    have hfresh : Fresh s.levels [flushEditOf s num lvl] := by
      rw [hE]
      simp only [Fresh, usedPairs, flushEdit, Edit.addedPairs, List.map_cons, List.map_nil,
        List.flatten_cons, List.flatten_nil, List.append_nil, mkFile_num]
      rw [List.nodup_append]
      refine ⟨pairsOf_nodup_of_inv h, by simp, ?_⟩
      intro p hp q hq e
      subst e
      simp only [List.mem_singleton] at hq
      subst hq
      obtain ⟨f, hf, hn⟩ := mem_pairsOf.mp hp
      have := hnums f (mem_flatten_iff_lv.mpr ⟨_, hf⟩)
      simp only at hn
      omega
    refine ⟨hfresh, agree_of_spec (by simp [addToLevel_length]) hfresh h'.numsL h'.lvls h'.files ?_⟩
    intro j g _
    rw [hE]
    simp only [mem_lv_addToLevel s.levels _ hl, flushEdit, List.not_mem_nil, not_false_eq_true,
      and_true, List.mem_singleton, Prod.mk.injEq]

/-! ### trivial move -/

theorem move_agree {s s' : State} {num lvl : Nat} {f : File} (h : InvP s)
    (hs : stepTrivialMove s num lvl = some s') (hf : pick (s.levels.getD lvl []) [num] = [f]) :
    Fresh s.levels [moveEdit f lvl] ∧
      ∃ r, applyEdits s.levels [moveEdit f lvl] = some r ∧ Agree r s'.levels := by
  have h' : InvP s' := step_inv' (a := .trivialMove num lvl) h hs
  obtain ⟨f', hp, ht, _, _, _, rfl⟩ := move_cases hs
  have hff : f' = f := by
    have : [f'] = [f] := by rw [← hp, ← hf]; rfl
    simpa using this
  subst hff
  have hfm : f' ∈ lv s.levels lvl ∧ f'.num = num := by
    have : f' ∈ pick (lv s.levels lvl) [num] := by rw [hp]; simp
    simpa [pick, List.mem_filter] using this
  have hfresh : Fresh s.levels [moveEdit f' lvl] := by
    simp only [Fresh, usedPairs, moveEdit, Edit.addedPairs, List.map_cons, List.map_nil,
      List.flatten_cons, List.flatten_nil, List.append_nil]
    rw [List.nodup_append]
    refine ⟨pairsOf_nodup_of_inv h, by simp, ?_⟩
    intro p hp' q hq e
    subst e
    simp only [List.mem_singleton] at hq
    subst hq
    obtain ⟨g, hg, hn⟩ := mem_pairsOf.mp hp'
    have := h.numsX (lvl + 1) lvl g f' hg hfm.1 hn
    omega
  have hl : lvl + 1 < (removeNums s.levels lvl [num]).length := by
    rw [removeNums_length, h.len]; exact ht
  refine ⟨hfresh, agree_of_spec (by simp [addToLevel_length, removeNums_length]) hfresh
    h'.numsL h'.lvls h'.files ?_⟩
  intro j g _
  simp only [mem_lv_addToLevel _ _ hl, mem_lv_removeNums, moveEdit, List.mem_singleton,
    Prod.mk.injEq, hfm.2]
  constructor
  · rintro (⟨h1, h2⟩ | ⟨h1, h2⟩)
    · exact Or.inl ⟨h1, fun hd => h2 hd.1 hd.2⟩
    · exact Or.inr ⟨h1, h2⟩
  · rintro (⟨h1, h2⟩ | ⟨h1, h2⟩)
    · exact Or.inl ⟨h1, fun hj hn => h2 ⟨hj, hn⟩⟩
    · exact Or.inr ⟨h1, h2⟩

/-! ### table compaction -/

theorem compact_agree {s s' : State} {c : Compaction} (h : InvP s)
    (hs : stepCompact s c = some s') :
    Fresh s.levels [compactEdit c] ∧
      ∃ r, applyEdits s.levels [compactEdit c] = some r ∧ Agree r s'.levels := by
  have h' : InvP s' := step_inv' (a := .compact c) h hs
  obtain ⟨hv, rfl⟩ := compact_cases hs
  have v := compactV_of_valid h hv
  have hfresh : Fresh s.levels [compactEdit c] := by
    simp only [Fresh, usedPairs, compactEdit, Edit.addedPairs, List.map_cons, List.map_nil,
      List.flatten_cons, List.flatten_nil, List.append_nil, List.map_map]
    rw [List.nodup_append]
    refine ⟨pairsOf_nodup_of_inv h, ?_, ?_⟩
    · have := v.outs_nodup
      unfold List.Nodup at *
      rw [List.pairwise_map] at this ⊢
      exact this.imp (fun hab e => hab (by simpa using e))
    · intro p hp q hq e
      subst e
      obtain ⟨g, hg, hn⟩ := mem_pairsOf.mp hp
      obtain ⟨o, ho, rfl⟩ := List.mem_map.mp hq
      exact v.outs_fresh o ho _ g hg (by simpa using hn)
  refine ⟨hfresh, agree_of_spec (by
      change (cL' s c).length = _
      unfold cL'
      have : ∀ (outs : List File) (Lc : Levels) (t : Nat),
          (outs.foldl (fun ls f => addToLevel ls t f) Lc).length = Lc.length := by
        intro outs
        induction outs with
        | nil => intro Lc t; rfl
        | cons o outs ih => intro Lc t; simp only [List.foldl_cons, ih, addToLevel_length]
      rw [this, cL2_length]) hfresh h'.numsL h'.lvls h'.files ?_⟩
  intro j g _
  change g ∈ lv (cL' s c) j ↔ _
  rw [mem_lv_cL' h v, mem_lv_cL2, mem_cOuts]
  simp only [compactEdit, List.mem_append, List.mem_map, Prod.mk.injEq, not_or, not_exists,
    not_and]
  constructor
  · rintro (⟨h1, h2, h3⟩ | ⟨h1, o, ho, rfl⟩)
    · refine Or.inl ⟨h1, ?_, ?_⟩
      · intro n hn hj hg
        exact h2 hj.symm (by rw [← hg]; exact hn)
      · intro n hn hj hg
        exact h3 hj.symm (by rw [← hg]; exact hn)
    · exact Or.inr ⟨o, ho, h1.symm, rfl⟩
  · rintro (⟨h1, h2, h3⟩ | ⟨o, ho, h1, rfl⟩)
    · refine Or.inl ⟨h1, ?_, ?_⟩
      · intro hj hn; exact h2 g.num hn hj.symm rfl
      · intro hj hn; exact h3 g.num hn hj.symm rfl
    · exact Or.inr ⟨h1.symm, o, ho, rfl⟩

end Rain.Builder.Lemmas
