import Rain.Pick
import Rain.Lemmas.LsmCompactDefs
/-
Input selection, part 1: the folds of `Rain/Pick.lean` (`largestKey`, `smallestBoundaryFile`,
`keyRange`) and of `Rain/Lsm.lean` (`hull`, `minKey`, `maxKey`) characterised by membership;
`pick` / `unpick` by membership; files of a sorted level.
-/
namespace Rain.Lsm.Lemmas
open Rain Rain.Lsm

/-- `smallest ≤ largest` (all the selection needs to know about a single file) -/
def Wf (f : File) : Prop := kLt f.largest f.smallest = false

theorem FileOk.wf {f : File} (h : FileOk f) : Wf f := h.small_le_large

theorem Wf.ufst {f : File} (h : Wf f) : bytesLt f.largest.1 f.smallest.1 = false := kLe_fst_le h

/-! ### `maxKey`, `minKey`, `hull` are attained, hence determined by the members -/

theorem maxKey_mem {fs : List File} {m : Bytes × Nat} (h : maxKey fs = some m) :
    ∃ f ∈ fs, f.largest = m := by
  induction fs generalizing m with
  | nil => simp [maxKey] at h
  | cons a fs ih =>
    simp only [maxKey] at h
    split at h
    · cases h; exact ⟨a, List.mem_cons_self .., rfl⟩
    · rename_i m0 hm0
      obtain ⟨f, hf, hfm⟩ := ih hm0
      cases h
      split
      · exact ⟨a, List.mem_cons_self .., rfl⟩
      · exact ⟨f, List.mem_cons_of_mem _ hf, hfm⟩

theorem minKey_mem {fs : List File} {m : Bytes × Nat} (h : minKey fs = some m) :
    ∃ f ∈ fs, f.smallest = m := by
  induction fs generalizing m with
  | nil => simp [minKey] at h
  | cons a fs ih =>
    simp only [minKey] at h
    split at h
    · cases h; exact ⟨a, List.mem_cons_self .., rfl⟩
    · rename_i m0 hm0
      obtain ⟨f, hf, hfm⟩ := ih hm0
      cases h
      split
      · exact ⟨a, List.mem_cons_self .., rfl⟩
      · exact ⟨f, List.mem_cons_of_mem _ hf, hfm⟩

theorem hull_mem {fs : List File} {lo hi : Bytes} (h : hull fs = some (lo, hi)) :
    (∃ f ∈ fs, f.smallest.1 = lo) ∧ (∃ f ∈ fs, f.largest.1 = hi) := by
  induction fs generalizing lo hi with
  | nil => simp [hull] at h
  | cons a fs ih =>
    simp only [hull] at h
    split at h
    · simp only [Option.some.injEq, Prod.mk.injEq] at h
      obtain ⟨rfl, rfl⟩ := h
      exact ⟨⟨a, List.mem_cons_self .., rfl⟩, ⟨a, List.mem_cons_self .., rfl⟩⟩
    · rename_i lo0 hi0 hm0
      obtain ⟨⟨f, hf, hfm⟩, ⟨g, hg, hgm⟩⟩ := ih hm0
      simp only [Option.some.injEq, Prod.mk.injEq] at h
      obtain ⟨rfl, rfl⟩ := h
      constructor
      · split
        · exact ⟨a, List.mem_cons_self .., rfl⟩
        · exact ⟨f, List.mem_cons_of_mem _ hf, hfm⟩
      · split
        · exact ⟨a, List.mem_cons_self .., rfl⟩
        · exact ⟨g, List.mem_cons_of_mem _ hg, hgm⟩

theorem maxKey_isSome {fs : List File} (h : fs ≠ []) : ∃ m, maxKey fs = some m := by
  cases hm : maxKey fs with
  | none => exact absurd (maxKey_eq_none.mp hm) h
  | some m => exact ⟨m, rfl⟩

theorem minKey_isSome {fs : List File} (h : fs ≠ []) : ∃ m, minKey fs = some m := by
  cases hm : minKey fs with
  | none => exact absurd (minKey_eq_none.mp hm) h
  | some m => exact ⟨m, rfl⟩

theorem hull_isSome {fs : List File} (h : fs ≠ []) : ∃ lo hi, hull fs = some (lo, hi) := by
  cases hm : hull fs with
  | none => exact absurd (hull_eq_none.mp hm) h
  | some m => exact ⟨m.1, m.2, rfl⟩

/-- the largest key of a list is the member that bounds all members -/
theorem maxKey_unique {fs : List File} {m : Bytes × Nat} (hm : ∃ f ∈ fs, f.largest = m)
    (hb : ∀ f ∈ fs, kLt m f.largest = false) : maxKey fs = some m := by
  obtain ⟨f, hf, hfm⟩ := hm
  obtain ⟨m', hm'⟩ := maxKey_isSome (List.ne_nil_of_mem hf)
  obtain ⟨g, hg, hgm⟩ := maxKey_mem hm'
  have h1 := maxKey_ge hm' f hf
  have h2 := hb g hg
  rw [hfm] at h1; rw [hgm] at h2
  rw [hm', k_st.tri _ _ h1 h2]

theorem minKey_unique {fs : List File} {m : Bytes × Nat} (hm : ∃ f ∈ fs, f.smallest = m)
    (hb : ∀ f ∈ fs, kLt f.smallest m = false) : minKey fs = some m := by
  obtain ⟨f, hf, hfm⟩ := hm
  obtain ⟨m', hm'⟩ := minKey_isSome (List.ne_nil_of_mem hf)
  obtain ⟨g, hg, hgm⟩ := minKey_mem hm'
  have h1 := minKey_le hm' f hf
  have h2 := hb g hg
  rw [hfm] at h1; rw [hgm] at h2
  rw [hm', k_st.tri _ _ h2 h1]

/-- `lo`, `hi` are the least smallest and the greatest largest user key of the members -/
structure IsHull (fs : List File) (lo hi : Bytes) : Prop where
  loMem : ∃ f ∈ fs, f.smallest.1 = lo
  hiMem : ∃ f ∈ fs, f.largest.1 = hi
  bound : ∀ f ∈ fs, bytesLt f.smallest.1 lo = false ∧ bytesLt hi f.largest.1 = false

theorem isHull_of_hull {fs : List File} {lo hi : Bytes} (h : hull fs = some (lo, hi)) :
    IsHull fs lo hi := ⟨(hull_mem h).1, (hull_mem h).2, hull_spec h⟩

theorem IsHull.unique {fs : List File} {lo hi lo' hi' : Bytes} (h : IsHull fs lo hi)
    (h' : IsHull fs lo' hi') : lo = lo' ∧ hi = hi' := by
  obtain ⟨f, hf, rfl⟩ := h.loMem
  obtain ⟨g, hg, rfl⟩ := h'.loMem
  obtain ⟨f2, hf2, rfl⟩ := h.hiMem
  obtain ⟨g2, hg2, rfl⟩ := h'.hiMem
  exact ⟨bytes_st.tri _ _ (h'.bound f hf).1 (h.bound g hg).1,
    bytes_st.tri _ _ (h.bound g2 hg2).2 (h'.bound f2 hf2).2⟩

theorem IsHull.congr {fs gs : List File} {lo hi : Bytes} (h : IsHull fs lo hi)
    (e : ∀ f, f ∈ fs ↔ f ∈ gs) : IsHull gs lo hi := by
  obtain ⟨⟨f, hf, h1⟩, ⟨g, hg, h2⟩, h3⟩ := h
  exact ⟨⟨f, (e f).mp hf, h1⟩, ⟨g, (e g).mp hg, h2⟩, fun x hx => h3 x ((e x).mpr hx)⟩

/-- a hull is a non-empty interval when the files are -/
theorem IsHull.lo_le_hi {fs : List File} {lo hi : Bytes} (h : IsHull fs lo hi)
    (hw : ∀ f ∈ fs, Wf f) : bytesLt hi lo = false := by
  obtain ⟨f, hf, rfl⟩ := h.loMem
  exact bytes_st.le_trans (hw f hf).ufst (h.bound f hf).2

/-! ### `largestKey` (`find_largest_key`) is `maxKey` -/

theorem foldl_max_spec (fs : List File) (init : Bytes × Nat) :
    let r := fs.foldl (fun m g => if kLt m g.largest then g.largest else m) init
    (r = init ∨ ∃ f ∈ fs, f.largest = r) ∧ kLt r init = false ∧
      ∀ f ∈ fs, kLt r f.largest = false := by
  induction fs generalizing init with
  | nil => simp [k_st.irrefl]
  | cons a fs ih =>
    simp only [List.foldl_cons]
    by_cases hlt : kLt init a.largest = true
    · simp only [hlt, if_true]
      obtain ⟨h1, h2, h3⟩ := ih a.largest
      refine ⟨?_, ?_, ?_⟩
      · rcases h1 with h1 | ⟨f, hf, hfr⟩
        · exact Or.inr ⟨a, List.mem_cons_self .., h1.symm⟩
        · exact Or.inr ⟨f, List.mem_cons_of_mem _ hf, hfr⟩
      · exact k_st.le_trans (k_st.asymm hlt) h2
      · intro f hf
        rcases List.mem_cons.mp hf with rfl | hf
        · exact h2
        · exact h3 f hf
    · have hlt' : kLt init a.largest = false := by simpa using hlt
      simp only [hlt', Bool.false_eq_true, if_false]
      obtain ⟨h1, h2, h3⟩ := ih init
      refine ⟨?_, h2, ?_⟩
      · rcases h1 with h1 | ⟨f, hf, hfr⟩
        · exact Or.inl h1
        · exact Or.inr ⟨f, List.mem_cons_of_mem _ hf, hfr⟩
      · intro f hf
        rcases List.mem_cons.mp hf with rfl | hf
        · exact k_st.le_trans hlt' h2
        · exact h3 f hf

theorem largestKey_eq_maxKey (fs : List File) : largestKey fs = maxKey fs := by
  cases fs with
  | nil => rfl
  | cons a fs =>
    simp only [largestKey]
    obtain ⟨h1, _, h3⟩ := foldl_max_spec (a :: fs) a.largest
    symm
    apply maxKey_unique
    · rcases h1 with h1 | h1
      · exact ⟨a, List.mem_cons_self .., h1.symm⟩
      · exact h1
    · exact h3

/-! ### `smallestBoundaryFile` (`find_smallest_boundary_file`) -/

/-- `g` is a boundary candidate for `key`: it starts above `key` on the same user key -/
def isCand (key : Bytes × Nat) (g : File) : Bool := kLt key g.smallest && g.smallest.1 == key.1

theorem isCand_iff {key : Bytes × Nat} {g : File} :
    isCand key g = true ↔ kLt key g.smallest = true ∧ g.smallest.1 = key.1 := by
  simp [isCand]

private def sbfStep (target : Bytes × Nat) (acc : Option File) (f : File) : Option File :=
  if kLt target f.smallest && f.smallest.1 == target.1 then
    match acc with
    | some b => if kLt f.smallest b.smallest then some f else acc
    | none => some f
  else acc

private theorem sbf_foldl (target : Bytes × Nat) (fs : List File) (acc : Option File)
    (hacc : ∀ b, acc = some b → isCand target b = true) :
    (fs.foldl (sbfStep target) acc = none ↔ acc = none ∧ ∀ f ∈ fs, isCand target f = false) ∧
    (∀ b, fs.foldl (sbfStep target) acc = some b →
      (acc = some b ∨ b ∈ fs) ∧ isCand target b = true ∧
      (∀ a, acc = some a → kLt a.smallest b.smallest = false) ∧
      ∀ f ∈ fs, isCand target f = true → kLt f.smallest b.smallest = false) := by
  induction fs generalizing acc with
  | nil =>
    simp only [List.foldl_nil, List.not_mem_nil, false_implies, implies_true, and_true, or_false]
    refine ⟨trivial, ?_⟩
    intro b hb
    refine ⟨hb, hacc b hb, ?_⟩
    intro a ha
    rw [hb] at ha; cases ha; exact k_st.irrefl _
  | cons x fs ih =>
    simp only [List.foldl_cons]
    by_cases hc : isCand target x = true
    · have hc' : (kLt target x.smallest && x.smallest.1 == target.1) = true := hc
      cases acc with
      | none =>
        have hs : sbfStep target none x = some x := by simp [sbfStep, hc']
        rw [hs]
        obtain ⟨i1, i2⟩ := ih (some x) (by intro b hb; cases hb; exact hc)
        constructor
        · constructor
          · intro h; have := i1.mp h; simp at this
          · rintro ⟨_, h⟩; have := h x (List.mem_cons_self ..); rw [hc] at this; cases this
        · intro b hb
          obtain ⟨j1, j2, j3, j4⟩ := i2 b hb
          refine ⟨?_, j2, by simp, ?_⟩
          · rcases j1 with j1 | j1
            · cases j1; exact Or.inr (List.mem_cons_self ..)
            · exact Or.inr (List.mem_cons_of_mem _ j1)
          · intro f hf hfc
            rcases List.mem_cons.mp hf with rfl | hf
            · exact j3 _ rfl
            · exact j4 f hf hfc
      | some a =>
        have ha := hacc a rfl
        by_cases hlt : kLt x.smallest a.smallest = true
        · have hs : sbfStep target (some a) x = some x := by simp [sbfStep, hc', hlt]
          rw [hs]
          obtain ⟨i1, i2⟩ := ih (some x) (by intro b hb; cases hb; exact hc)
          constructor
          · constructor
            · intro h; have := i1.mp h; simp at this
            · rintro ⟨h, _⟩; cases h
          · intro b hb
            obtain ⟨j1, j2, j3, j4⟩ := i2 b hb
            refine ⟨?_, j2, ?_, ?_⟩
            · rcases j1 with j1 | j1
              · cases j1; exact Or.inr (List.mem_cons_self ..)
              · exact Or.inr (List.mem_cons_of_mem _ j1)
            · intro a' ha'
              cases ha'
              exact k_st.asymm (k_st.lt_of_le_of_lt (j3 x rfl) hlt)
            · intro f hf hfc
              rcases List.mem_cons.mp hf with rfl | hf
              · exact j3 _ rfl
              · exact j4 f hf hfc
        · have hlt' : kLt x.smallest a.smallest = false := by simpa using hlt
          have hs : sbfStep target (some a) x = some a := by simp [sbfStep, hc', hlt']
          rw [hs]
          obtain ⟨i1, i2⟩ := ih (some a) hacc
          constructor
          · constructor
            · intro h; have := i1.mp h; simp at this
            · rintro ⟨h, _⟩; cases h
          · intro b hb
            obtain ⟨j1, j2, j3, j4⟩ := i2 b hb
            refine ⟨?_, j2, j3, ?_⟩
            · rcases j1 with j1 | j1
              · exact Or.inl j1
              · exact Or.inr (List.mem_cons_of_mem _ j1)
            · intro f hf hfc
              rcases List.mem_cons.mp hf with rfl | hf
              · exact k_st.le_trans (j3 a rfl) hlt'
              · exact j4 f hf hfc
    · have hc0 : isCand target x = false := by simpa using hc
      have hc' : (kLt target x.smallest && x.smallest.1 == target.1) = false := hc0
      have hs : sbfStep target acc x = acc := by simp [sbfStep, hc']
      rw [hs]
      obtain ⟨i1, i2⟩ := ih acc hacc
      constructor
      · rw [i1]
        constructor
        · rintro ⟨h1, h2⟩
          refine ⟨h1, ?_⟩
          intro f hf
          rcases List.mem_cons.mp hf with rfl | hf
          · exact hc0
          · exact h2 f hf
        · rintro ⟨h1, h2⟩
          exact ⟨h1, fun f hf => h2 f (List.mem_cons_of_mem _ hf)⟩
      · intro b hb
        obtain ⟨j1, j2, j3, j4⟩ := i2 b hb
        refine ⟨?_, j2, j3, ?_⟩
        · rcases j1 with j1 | j1
          · exact Or.inl j1
          · exact Or.inr (List.mem_cons_of_mem _ j1)
        · intro f hf hfc
          rcases List.mem_cons.mp hf with rfl | hf
          · rw [hc0] at hfc; cases hfc
          · exact j4 f hf hfc

theorem smallestBoundaryFile_eq_foldl (lf : List File) (target : Bytes × Nat) :
    smallestBoundaryFile lf target = lf.foldl (sbfStep target) none := rfl

/-- no boundary file is found iff the level has no candidate -/
theorem smallestBoundaryFile_none {lf : List File} {target : Bytes × Nat} :
    smallestBoundaryFile lf target = none ↔ ∀ f ∈ lf, isCand target f = false := by
  rw [smallestBoundaryFile_eq_foldl]
  have := (sbf_foldl target lf none (by simp)).1
  simpa using this

/-- the boundary file found is a candidate of the level, and the least one -/
theorem smallestBoundaryFile_some {lf : List File} {target : Bytes × Nat} {b : File}
    (h : smallestBoundaryFile lf target = some b) :
    b ∈ lf ∧ isCand target b = true ∧
      ∀ f ∈ lf, isCand target f = true → kLt f.smallest b.smallest = false := by
  rw [smallestBoundaryFile_eq_foldl] at h
  obtain ⟨j1, j2, _, j4⟩ := (sbf_foldl target lf none (by simp)).2 b h
  refine ⟨?_, j2, j4⟩
  rcases j1 with j1 | j1
  · cases j1
  · exact j1

/-! ### `keyRange` (`get_key_range_for_files`) -/

theorem foldl_range_spec (fs : List File) (init : (Bytes × Nat) × (Bytes × Nat)) :
    let r := fs.foldl rangeStep init
    ((r.1 = init.1 ∨ ∃ f ∈ fs, f.smallest = r.1) ∧ kLt init.1 r.1 = false ∧
      ∀ f ∈ fs, kLt f.smallest r.1 = false) ∧
    ((r.2 = init.2 ∨ ∃ f ∈ fs, f.largest = r.2) ∧ bytesLt r.2.1 init.2.1 = false ∧
      ∀ f ∈ fs, bytesLt r.2.1 f.largest.1 = false) := by
  induction fs generalizing init with
  | nil => simp [k_st.irrefl, bytes_st.irrefl]
  | cons a fs ih =>
    simp only [List.foldl_cons]
    obtain ⟨⟨h1, h2, h3⟩, ⟨g1, g2, g3⟩⟩ := ih (rangeStep init a)
    constructor
    · refine ⟨?_, ?_, ?_⟩
      · rcases h1 with h1 | ⟨f, hf, hfr⟩
        · rw [h1]
          simp only [rangeStep]
          split
          · exact Or.inr ⟨a, List.mem_cons_self .., rfl⟩
          · exact Or.inl rfl
        · exact Or.inr ⟨f, List.mem_cons_of_mem _ hf, hfr⟩
      · refine k_st.le_trans h2 ?_
        simp only [rangeStep]
        split
        · rename_i hlt; exact k_st.asymm hlt
        · exact k_st.irrefl _
      · intro f hf
        rcases List.mem_cons.mp hf with rfl | hf
        · refine k_st.le_trans h2 ?_
          simp only [rangeStep]
          split
          · exact k_st.irrefl _
          · rename_i hlt; simpa using hlt
        · exact h3 f hf
    · refine ⟨?_, ?_, ?_⟩
      · rcases g1 with g1 | ⟨f, hf, hfr⟩
        · rw [g1]
          simp only [rangeStep]
          split
          · exact Or.inr ⟨a, List.mem_cons_self .., rfl⟩
          · exact Or.inl rfl
        · exact Or.inr ⟨f, List.mem_cons_of_mem _ hf, hfr⟩
      · refine bytes_st.le_trans ?_ g2
        simp only [rangeStep]
        split
        · rename_i hlt; exact bytes_st.asymm hlt
        · exact bytes_st.irrefl _
      · intro f hf
        rcases List.mem_cons.mp hf with rfl | hf
        · refine bytes_st.le_trans ?_ g2
          simp only [rangeStep]
          split
          · exact bytes_st.irrefl _
          · rename_i hlt; simpa using hlt
        · exact g3 f hf

theorem keyRange_eq_none {fs : List File} : keyRange fs = none ↔ fs = [] := by
  cases fs <;> simp [keyRange]

theorem keyRange_isSome {fs : List File} (h : fs ≠ []) : ∃ r, keyRange fs = some r := by
  cases fs with
  | nil => exact absurd rfl h
  | cons a fs => exact ⟨_, rfl⟩

/-- `keyRange` starts at the smallest internal key and ends at a largest key with the greatest
user key -/
theorem keyRange_spec {fs : List File} {r : (Bytes × Nat) × (Bytes × Nat)}
    (h : keyRange fs = some r) :
    minKey fs = some r.1 ∧ (∃ f ∈ fs, f.largest = r.2) ∧
      ∀ f ∈ fs, bytesLt r.2.1 f.largest.1 = false := by
  cases fs with
  | nil => simp [keyRange] at h
  | cons a fs =>
    simp only [keyRange, Option.some.injEq] at h
    obtain ⟨⟨h1, _, h3⟩, ⟨g1, _, g3⟩⟩ := foldl_range_spec (a :: fs) (a.smallest, a.largest)
    rw [h] at h1 h3 g1 g3
    refine ⟨minKey_unique ?_ h3, ?_, g3⟩
    · rcases h1 with h1 | h1
      · exact ⟨a, List.mem_cons_self .., h1.symm⟩
      · exact h1
    · rcases g1 with g1 | g1
      · exact ⟨a, List.mem_cons_self .., g1.symm⟩
      · exact g1

/-- the user keys of `keyRange` are the user-key hull -/
theorem keyRange_isHull {fs : List File} {r : (Bytes × Nat) × (Bytes × Nat)}
    (h : keyRange fs = some r) : IsHull fs r.1.1 r.2.1 := by
  obtain ⟨h1, ⟨g, hg, hgr⟩, h3⟩ := keyRange_spec h
  obtain ⟨f, hf, hfr⟩ := minKey_mem h1
  refine ⟨⟨f, hf, by rw [hfr]⟩, ⟨g, hg, by rw [hgr]⟩, ?_⟩
  intro x hx
  exact ⟨kLe_fst_le (minKey_le h1 x hx), h3 x hx⟩

/-! ### `pick` / `unpick` -/

theorem mem_pick {fs : List File} {nums : List Nat} {f : File} :
    f ∈ pick fs nums ↔ f ∈ fs ∧ f.num ∈ nums := by
  simp [pick]

theorem mem_unpick {fs : List File} {nums : List Nat} {f : File} :
    f ∈ unpick fs nums ↔ f ∈ fs ∧ f.num ∉ nums := by
  simp [unpick]

theorem mem_pick_map {fs sel : List File} (hn : (fs.map File.num).Nodup) (hs : ∀ f ∈ sel, f ∈ fs)
    {f : File} : f ∈ pick fs (sel.map File.num) ↔ f ∈ sel := by
  rw [mem_pick, List.mem_map]
  constructor
  · rintro ⟨hf, g, hg, e⟩
    rw [← eq_of_num_eq hn (hs g hg) hf e]; exact hg
  · intro hf; exact ⟨hs f hf, f, hf, rfl⟩

theorem mem_unpick_map {fs sel : List File} (hn : (fs.map File.num).Nodup) (hs : ∀ f ∈ sel, f ∈ fs)
    {f : File} : f ∈ unpick fs (sel.map File.num) ↔ f ∈ fs ∧ f ∉ sel := by
  rw [mem_unpick, List.mem_map]
  constructor
  · rintro ⟨hf, hno⟩
    exact ⟨hf, fun h => hno ⟨f, h, rfl⟩⟩
  · rintro ⟨hf, hno⟩
    refine ⟨hf, ?_⟩
    rintro ⟨g, hg, e⟩
    rw [eq_of_num_eq hn (hs g hg) hf e] at hg; exact hno hg

theorem nodup_map_num {fs sel : List File} (hn : (fs.map File.num).Nodup) (hs : ∀ f ∈ sel, f ∈ fs)
    (hd : sel.Nodup) : (sel.map File.num).Nodup := by
  induction sel with
  | nil => simp
  | cons a sel ih =>
    simp only [List.nodup_cons] at hd
    simp only [List.map_cons, List.nodup_cons, List.mem_map, not_exists, not_and]
    refine ⟨?_, ih (fun f hf => hs f (List.mem_cons_of_mem _ hf)) hd.2⟩
    intro g hg e
    have := eq_of_num_eq hn (hs g (List.mem_cons_of_mem _ hg)) (hs a (List.mem_cons_self ..)) e
    rw [this] at hg; exact hd.1 hg

/-- picking distinct numbers that all occur finds as many files as numbers -/
theorem length_pick {fs : List File} (hn : (fs.map File.num).Nodup) {nums : List Nat}
    (hd : nums.Nodup) (hs : ∀ n ∈ nums, n ∈ fs.map File.num) : (pick fs nums).length = nums.length := by
  induction fs generalizing nums with
  | nil =>
    cases nums with
    | nil => rfl
    | cons n _ => have := hs n (List.mem_cons_self ..); simp at this
  | cons a fs ih =>
    simp only [List.map_cons, List.nodup_cons] at hn
    have hrest : ∀ (ns : List Nat), (∀ f ∈ fs, (ns.contains f.num) = ((ns.erase a.num).contains f.num)) := by
      intro ns f hf
      have hne : f.num ≠ a.num := by
        intro e; exact hn.1 (e ▸ List.mem_map_of_mem hf)
      by_cases hm : f.num ∈ ns
      · have : f.num ∈ ns.erase a.num := (List.mem_erase_of_ne hne).mpr hm
        simp [hm, this]
      · have : f.num ∉ ns.erase a.num := fun h => hm (List.mem_of_mem_erase h)
        simp [hm, this]
    by_cases ha : a.num ∈ nums
    · have e1 : pick (a :: fs) nums = a :: pick fs (nums.erase a.num) := by
        simp only [pick, List.filter_cons, List.contains_eq_mem, ha, decide_true, if_true]
        congr 1
        apply List.filter_congr
        intro f hf
        have := hrest nums f hf
        simpa using this
      rw [e1, List.length_cons, ih hn.2 (hd.erase _)]
      · rw [List.length_erase_of_mem ha]
        have : 0 < nums.length := List.length_pos_of_mem ha
        omega
      · intro n hn'
        have hmem := List.mem_of_mem_erase hn'
        have := hs n hmem
        simp only [List.map_cons, List.mem_cons] at this
        rcases this with rfl | this
        · exact absurd hn' (by rw [hd.mem_erase_iff]; simp)
        · exact this
    · have e1 : pick (a :: fs) nums = pick fs nums := by
        simp [pick, ha]
      rw [e1, ih hn.2 hd]
      intro n hn'
      have := hs n hn'
      simp only [List.map_cons, List.mem_cons] at this
      rcases this with rfl | this
      · exact absurd hn' ha
      · exact this

theorem length_pick_map {fs sel : List File} (hn : (fs.map File.num).Nodup)
    (hs : ∀ f ∈ sel, f ∈ fs) (hd : sel.Nodup) :
    (pick fs (sel.map File.num)).length = (sel.map File.num).length :=
  length_pick hn (nodup_map_num hn hs hd) (fun _ hn' => by
    obtain ⟨f, hf, rfl⟩ := List.mem_map.mp hn'
    exact List.mem_map_of_mem (hs f hf))

/-! ### two files of a sorted level -/

/-- `f` lies entirely before `g` -/
abbrev Before (f g : File) : Prop := kLt f.largest g.smallest = true

theorem level_cases {fs : List File} (h : LevelOk fs) {f g : File} (hf : f ∈ fs) (hg : g ∈ fs) :
    f = g ∨ Before f g ∨ Before g f := pairwise_mem_cases h hf hg

theorem Before.irrefl {f : File} (hw : Wf f) : ¬ Before f f := by
  intro h; unfold Before at h; unfold Wf at hw; rw [hw] at h; cases h

theorem Before.asymm {f g : File} (hf : Wf f) (hg : Wf g) (h : Before f g) : ¬ Before g f := by
  intro h2
  have h3 : kLt f.largest f.smallest = true :=
    k_st.trans _ _ _ h (k_st.lt_of_le_of_lt hg h2)
  unfold Wf at hf; rw [hf] at h3; cases h3

/-- `userRangeOverlaps` spelled out -/
theorem overlaps_iff {g : File} {lo hi : Bytes} :
    userRangeOverlaps g lo hi = true ↔ bytesLt hi g.smallest.1 = false ∧ bytesLt g.largest.1 lo = false := by
  simp [userRangeOverlaps]

theorem inRange_some {g : File} {lo hi : Bytes} :
    inRange g (some lo) (some hi) = userRangeOverlaps g lo hi := by
  simp [inRange, beforeRange, afterRange, userRangeOverlaps, Bool.and_comm]

end Rain.Lsm.Lemmas
