import Rain.Lemmas.BuilderApply
/-
The version builder agrees with `Rain.Durable.versionOf` (filter the deleted pairs, append the
added pairs, edit by edit) on the (level, number) pairs of the recovered version.
-/
namespace Rain.Builder.Lemmas
open Rain Rain.Lsm Rain.Lsm.Lemmas Rain.Builder

/-- one step of `Rain.Durable.versionOf` -/
def durStep (v : List (Nat × Nat)) (e : Rain.Durable.Edit) : List (Nat × Nat) :=
  (v.filter fun f => !e.deleted.contains f) ++ e.added

theorem versionOf_eq (es : List Rain.Durable.Edit) : Rain.Durable.versionOf es = es.foldl durStep [] := rfl

theorem mem_durStep (v : List (Nat × Nat)) (e : Edit) (p : Nat × Nat) :
    p ∈ durStep v (toDurable e) ↔ (p ∈ v ∧ p ∉ e.deleted) ∨ p ∈ e.addedPairs := by
  simp [durStep, toDurable, List.mem_filter]

/-- the pairs of the version one edit produces -/
theorem mem_pairs_one {base : Levels} {e : Edit} (hf : Fresh base [e])
    (hr : ∀ a ∈ e.added, a.1 < base.length) (p : Nat × Nat) :
    p ∈ pairsOf (applyRaw (accumulate empty e) base) ↔
      (p ∈ pairsOf base ∧ p ∉ e.deleted) ∨ p ∈ e.addedPairs := by
  obtain ⟨i, n⟩ := p
  simp only [mem_pairsOf, lv_applyRaw]
  have hfresh : ∀ f, f ∈ lv base i → (i, f.num) ∉ e.addedPairs := by
    intro f hf'
    have := (Fresh.level hf i).not_added (Or.inl hf')
    simpa using this
  constructor
  · rintro ⟨f, hf', hn⟩
    split at hf'
    · simp only [mem_applyLevel, mem_accumulate_deleted, mem_accumulate_added, empty,
        List.not_mem_nil, false_or] at hf'
      subst hn
      rcases hf'.1 with h1 | h1
      · exact Or.inl ⟨⟨f, h1, rfl⟩, fun hd => hf'.2 ⟨hd, hfresh f h1⟩⟩
      · exact Or.inr (List.mem_map.mpr ⟨(i, f), h1, rfl⟩)
    · cases hf'
  · rintro (⟨⟨f, hf', hn⟩, hd⟩ | ha)
    · have hi : i < base.length := by
        apply Nat.lt_of_not_le
        intro hge
        rw [lv_of_ge hge] at hf'
        cases hf'
      refine ⟨f, ?_, hn⟩
      rw [if_pos hi]
      simp only [mem_applyLevel, mem_accumulate_deleted, mem_accumulate_added, empty,
        List.not_mem_nil, false_or]
      subst hn
      exact ⟨Or.inl hf', fun h => hd h.1⟩
    · obtain ⟨a, ha', hp⟩ := List.mem_map.mp ha
      obtain ⟨l, f⟩ := a
      simp only [Prod.mk.injEq] at hp
      obtain ⟨rfl, rfl⟩ := hp
      refine ⟨f, ?_, rfl⟩
      rw [if_pos (hr _ ha')]
      simp only [mem_applyLevel, mem_accumulate_deleted, mem_accumulate_added, empty,
        List.not_mem_nil, false_or]
      exact ⟨Or.inr ha', fun h => h.2 ha⟩

theorem fresh_cons {base : Levels} {e : Edit} {es : List Edit} (h : Fresh base (e :: es)) :
    Fresh base [e] ∧ Fresh (applyRaw (accumulate empty e) base) es := by
  have h' : Fresh base ([e] ++ es) := h
  exact ⟨Fresh.prefix h', by simpa using Fresh.step h'⟩

theorem pairs_fold (es : List Edit) : ∀ (base : Levels) (v : List (Nat × Nat)),
    Fresh base es → (∀ e ∈ es, ∀ a ∈ e.added, a.1 < base.length) →
    (∀ p, p ∈ pairsOf base ↔ p ∈ v) → v.Nodup →
    (∀ p, p ∈ pairsOf (applyRaw (es.foldl accumulate empty) base) ↔
        p ∈ (es.map toDurable).foldl durStep v) ∧
      ((es.map toDurable).foldl durStep v).Nodup := by
  induction es with
  | nil =>
    intro base v _ _ hv hn
    -- the empty builder leaves the pairs unchanged
    refine ⟨?_, hn⟩
    intro p
    simp only [List.foldl_nil, List.map_nil]
    rw [← hv p]
    obtain ⟨i, n⟩ := p
    simp only [mem_pairsOf, lv_applyRaw]
    constructor
    · rintro ⟨f, hf', hn'⟩
      split at hf'
      · exact ⟨f, by simpa [mem_applyLevel, empty] using hf', hn'⟩
      · cases hf'
    · rintro ⟨f, hf', hn'⟩
      have hi : i < base.length := by
        apply Nat.lt_of_not_le
        intro hge
        rw [lv_of_ge hge] at hf'
        cases hf'
      exact ⟨f, by rw [if_pos hi]; simpa [mem_applyLevel, empty] using hf', hn'⟩
  | cons e es ih =>
    intro base v hf hr hv hn
    obtain ⟨hf1, hf2⟩ := fresh_cons hf
    have hsplit := applyRaw_split (es₁ := [e]) (es₂ := es) hf
    simp only [List.cons_append, List.nil_append, List.foldl_cons, List.foldl_nil] at hsplit
    simp only [List.foldl_cons, List.map_cons]
    rw [hsplit]
    have hone := mem_pairs_one hf1 (hr e (List.mem_cons_self ..))
    apply ih
    · exact hf2
    · intro e' he' a ha
      rw [applyRaw_length]
      exact hr e' (List.mem_cons_of_mem _ he') a ha
    · intro p
      rw [hone p, mem_durStep, hv p]
    · unfold durStep
      rw [List.nodup_append]
      refine ⟨List.Nodup.sublist List.filter_sublist hn, ?_, ?_⟩
      · have := (List.nodup_append.mp hf1).2.1
        simpa [toDurable] using this
      · intro p hp q hq e'
        subst e'
        have hpb : p ∈ pairsOf base := (hv p).mpr (List.mem_filter.mp hp).1
        have hd := (List.nodup_append.mp hf1).2.2
        exact hd p hpb p (by simpa [toDurable] using hq) rfl

theorem mem_pairs_replicate (n : Nat) (p : Nat × Nat) : p ∉ pairsOf (List.replicate n ([] : List File)) := by
  rw [mem_pairsOf]
  rintro ⟨f, hf, _⟩
  have : lv (List.replicate n ([] : List File)) p.1 = [] := by
    simp only [lv, List.getD_eq_getElem?_getD, List.getElem?_replicate]
    split <;> rfl
  rw [this] at hf
  cases hf

/-- **recovery of an empty database directory**: all manifest records into one builder, applied to
the empty version, gives the (level, number) pairs of `versionOf` -/
theorem versionOf_agree (n : Nat) (es : List Edit) (hf : Fresh (List.replicate n []) es)
    (hr : levelsInRange n es) :
    (pairsOf (applyRaw (es.foldl accumulate empty) (List.replicate n []))).Perm
      (Rain.Durable.versionOf (es.map toDurable)) := by
  have hp := pairs_fold es (List.replicate n []) [] hf
    (fun e he a ha => by simpa using (hr e he).1 a ha)
    (fun p => by simpa using mem_pairs_replicate n p) List.nodup_nil
  rw [versionOf_eq]
  refine (List.perm_ext_iff_of_nodup ?_ hp.2).mpr hp.1
  have := Fresh.step (es₁ := es) (es₂ := []) (by simpa using hf)
  simpa [Fresh, usedPairs] using this

end Rain.Builder.Lemmas
