import Rain.Lemmas.LsmRead
/-
Level bookkeeping shared by flush, trivial move and compaction: what `addToLevel` / `removeNums`
do to each level, and when they preserve the level part of the invariant.
-/
namespace Rain.Lsm.Lemmas
open Rain Rain.Lsm

/-! ### entries of different files -/

theorem seq_lt_of_ikLt {x y : Entry} (h : ikLt x y = true) (e : x.ukey = y.ukey) : y.seq < x.seq := by
  unfold ikLt at h
  rw [kLt_same' (by simpa [Entry.key] using e)] at h
  exact h

/-- a file entirely before another one holds the newer entries of a shared user key -/
theorem newerF_of_before {g f : File} (hg : FileOk g) (hf : FileOk f)
    (h : kLt g.largest f.smallest = true) : NewerF g f :=
  fun _ hx _ hy e => seq_lt_of_ikLt (before_of_kLt hg hf h hx hy) e

/-- no entry of `g` has a user key inside `[lo, hi]` -/
theorem no_key_of_no_overlap {g : File} (hg : FileOk g) {lo hi : Bytes}
    (h : userRangeOverlaps g lo hi = false) {x : Entry} (hx : x ∈ g.entries)
    (h1 : bytesLt x.ukey lo = false) (h2 : bytesLt hi x.ukey = false) : False := by
  simp only [userRangeOverlaps, Bool.and_eq_false_iff, Bool.not_eq_false'] at h
  rcases h with h | h
  · -- hi < g.smallest.1 ≤ x.ukey ≤ hi
    have := bytes_st.lt_of_lt_of_le h (hg.ukey_ge hx)
    rw [h2] at this; cases this
  · have := bytes_st.lt_of_le_of_lt (hg.ukey_le hx) h
    rw [h1] at this; cases this

theorem no_common_key {g f : File} (hg : FileOk g) (hf : FileOk f)
    (h : userRangeOverlaps g f.smallest.1 f.largest.1 = false) {x y : Entry} (hx : x ∈ g.entries)
    (hy : y ∈ f.entries) : x.ukey ≠ y.ukey := by
  intro e
  apply no_key_of_no_overlap hg h hx
  · rw [e]; exact hf.ukey_ge hy
  · rw [e]; exact hf.ukey_le hy

theorem newerF_of_no_overlap {g f : File} (hg : FileOk g) (hf : FileOk f)
    (h : userRangeOverlaps g f.smallest.1 f.largest.1 = false) : NewerF g f :=
  fun _ hx _ hy e => absurd e (no_common_key hg hf h hx hy)

theorem newerF_of_no_overlap' {g f : File} (hg : FileOk g) (hf : FileOk f)
    (h : userRangeOverlaps g f.smallest.1 f.largest.1 = false) : NewerF f g :=
  fun _ hx _ hy e => absurd e.symm (no_common_key hg hf h hy hx)

theorem disjoint_of_no_overlap {g f : File}
    (h : userRangeOverlaps g f.smallest.1 f.largest.1 = false) :
    kLt g.largest f.smallest = true ∨ kLt f.largest g.smallest = true := by
  simp only [userRangeOverlaps, Bool.and_eq_false_iff, Bool.not_eq_false'] at h
  rcases h with h | h
  · exact Or.inr (kLt_of_fst_lt h)
  · exact Or.inl (kLt_of_fst_lt h)

/-- `g` starts after `f` ends and not on the user key `f` ends with: no shared user key -/
theorem no_common_key_of_after {g f : File} (hg : FileOk g) (hf : FileOk f)
    (h : kLt f.largest g.smallest = true) (hb : g.smallest.1 ≠ f.largest.1) {x y : Entry}
    (hx : x ∈ g.entries) (hy : y ∈ f.entries) : x.ukey ≠ y.ukey := by
  intro e
  have h1 : bytesLt f.largest.1 g.smallest.1 = true := by
    rcases (kLt_def _ _).mp h with h | ⟨h, _⟩
    · exact h
    · exact absurd h.symm hb
  have h2 := bytes_st.lt_of_lt_of_le h1 (hg.ukey_ge hx)
  have h3 := hf.ukey_le hy
  rw [e, h3] at h2; cases h2

/-! ### insertFile -/

theorem mem_insertFile {f x : File} {l : List File} : x ∈ insertFile f l ↔ x = f ∨ x ∈ l := by
  induction l with
  | nil => simp [insertFile]
  | cons g gs ih =>
    simp only [insertFile]
    split
    · simp
    · simp only [List.mem_cons, ih]
      constructor
      · rintro (h | h | h)
        · exact Or.inr (Or.inl h)
        · exact Or.inl h
        · exact Or.inr (Or.inr h)
      · rintro (h | h | h)
        · exact Or.inr (Or.inl h)
        · exact Or.inl h
        · exact Or.inr (Or.inr h)

theorem insertFile_perm (f : File) (l : List File) : (insertFile f l).Perm (f :: l) := by
  induction l with
  | nil => simp [insertFile]
  | cons g gs ih =>
    simp only [insertFile]
    split
    · exact List.Perm.refl _
    · exact (List.Perm.cons g ih).trans (List.Perm.swap f g gs)

theorem insertFile_levelOk {f : File} {l : List File} (hl : LevelOk l) (hfo : FileOk f)
    (hlo : ∀ g ∈ l, FileOk g)
    (hd : ∀ g ∈ l, kLt g.largest f.smallest = true ∨ kLt f.largest g.smallest = true) :
    LevelOk (insertFile f l) := by
  unfold LevelOk at *
  induction l with
  | nil => simp [insertFile]
  | cons g gs ih =>
    have hp := List.pairwise_cons.mp hl
    have hgo := hlo g (List.mem_cons_self ..)
    simp only [insertFile]
    split
    · rename_i hlt
      refine List.Pairwise.cons ?_ hl
      intro x hx
      rcases hd x hx with h | h
      · exfalso
        -- x.smallest ≤ x.largest < f.smallest < g.smallest ≤ x.smallest
        have hxo := hlo x hx
        have h1 : kLt x.smallest f.smallest = true := k_st.lt_of_le_of_lt hxo.small_le_large h
        have h2 : kLt x.smallest g.smallest = true := k_st.trans _ _ _ h1 hlt
        rcases List.mem_cons.mp hx with rfl | hx'
        · rw [k_st.irrefl] at h2; cases h2
        · have h3 := hp.1 x hx'
          have h4 : kLt g.smallest x.smallest = true := k_st.lt_of_le_of_lt hgo.small_le_large h3
          have := k_st.asymm h4
          rw [this] at h2; cases h2
      · exact h
    · rename_i hlt
      have hlt' : kLt f.smallest g.smallest = false := by simpa using hlt
      refine List.Pairwise.cons ?_ (ih hp.2 (fun x hx => hlo x (List.mem_cons_of_mem _ hx))
        (fun x hx => hd x (List.mem_cons_of_mem _ hx)))
      intro x hx
      rcases mem_insertFile.mp hx with rfl | hx
      · rcases hd g (List.mem_cons_self ..) with h | h
        · exact h
        · exfalso
          have := k_st.lt_of_le_of_lt hfo.small_le_large h
          rw [hlt'] at this; cases this
      · exact hp.1 x hx

/-! ### level access after the edits -/

theorem lv_removeNums (L : List (List File)) (t : Nat) (nums : List Nat) (j : Nat) :
    lv (removeNums L t nums) j = if j = t then unpick (lv L t) nums else lv L j := by
  unfold removeNums setLevel
  rw [lv_set]
  by_cases h : t = j
  · subst h
    by_cases h2 : t < L.length
    · simp [h2, lv]
    · have : lv L t = [] := lv_of_ge (by omega)
      simp [h2, this, unpick]
  · have : ¬ j = t := fun e => h e.symm
    simp [h, this]

theorem removeNums_length (L : List (List File)) (t : Nat) (nums : List Nat) :
    (removeNums L t nums).length = L.length := by
  simp [removeNums, setLevel]

theorem addToLevel_length (L : List (List File)) (t : Nat) (f : File) :
    (addToLevel L t f).length = L.length := by
  unfold addToLevel setLevel; split <;> simp

theorem lv_addToLevel_ne (L : List (List File)) {t j : Nat} (f : File) (h : j ≠ t) :
    lv (addToLevel L t f) j = lv L j := by
  have : ¬ t = j := fun e => h e.symm
  by_cases ht : t = 0
  · subst ht; simp [addToLevel, setLevel, lv_set, this]
  · simp [addToLevel, setLevel, lv_set, this, ht]

theorem lv_addToLevel_zero (L : List (List File)) (f : File) (h : 0 < L.length) :
    lv (addToLevel L 0 f) 0 = lv L 0 ++ [f] := by
  simp [addToLevel, setLevel, h, lv]

theorem lv_addToLevel_pos (L : List (List File)) {t : Nat} (f : File) (h0 : 0 < t) (h : t < L.length) :
    lv (addToLevel L t f) t = insertFile f (lv L t) := by
  have : t ≠ 0 := by omega
  simp [addToLevel, setLevel, h, lv, this]

theorem mem_lv_addToLevel (L : List (List File)) {t : Nat} (f : File) (h : t < L.length) (j : Nat)
    (g : File) : g ∈ lv (addToLevel L t f) j ↔ g ∈ lv L j ∨ (j = t ∧ g = f) := by
  by_cases hj : j = t
  · subst hj
    by_cases h0 : j = 0
    · subst h0
      rw [lv_addToLevel_zero L f h]
      simp
    · rw [lv_addToLevel_pos L f (by omega) h, mem_insertFile]
      simp [or_comm]
  · rw [lv_addToLevel_ne L f hj]
    simp [hj]

theorem mem_lv_removeNums (L : List (List File)) (t : Nat) (nums : List Nat) (j : Nat) (g : File) :
    g ∈ lv (removeNums L t nums) j ↔ g ∈ lv L j ∧ (j = t → g.num ∉ nums) := by
  rw [lv_removeNums]
  by_cases hj : j = t
  · subst hj
    simp [unpick, List.mem_filter]
  · simp [hj]

theorem lv_take (L : List (List File)) (n j : Nat) :
    lv (L.take n) j = if j < n then lv L j else [] := by
  simp only [lv, List.getD_eq_getElem?_getD, List.getElem?_take]
  split <;> simp

/-! ### the level part of the invariant -/

structure LevelsP (L : List (List File)) : Prop where
  len : L.length = 7
  files : ∀ j f, f ∈ lv L j → FileOk f
  lvls : ∀ j, 1 ≤ j → LevelOk (lv L j)
  order : ∀ i j f g, f ∈ lv L i → g ∈ lv L j →
    (i < j ∨ (i = 0 ∧ j = 0 ∧ g.num < f.num)) → NewerF f g
  numsL : ∀ j, ((lv L j).map File.num).Nodup
  numsX : ∀ i j f g, f ∈ lv L i → g ∈ lv L j → f.num = g.num → i = j

theorem InvP.levelsP {s : State} (h : InvP s) : LevelsP s.levels :=
  ⟨h.len, h.files, h.lvls, h.order, h.numsL, h.numsX⟩

/-- removing files from levels keeps the level invariant -/
theorem LevelsP.shrink {L L' : List (List File)} (h : LevelsP L) (hlen : L'.length = 7)
    (hsub : ∀ j, (lv L' j).Sublist (lv L j)) : LevelsP L' where
  len := hlen
  files j f hf := h.files j f ((hsub j).subset hf)
  lvls j hj := List.Pairwise.sublist (hsub j) (h.lvls j hj)
  order i j f g hf hg hij := h.order i j f g ((hsub i).subset hf) ((hsub j).subset hg) hij
  numsL j := List.Nodup.sublist ((hsub j).map File.num) (h.numsL j)
  numsX i j f g hf hg := h.numsX i j f g ((hsub i).subset hf) ((hsub j).subset hg)

theorem LevelsP.removeNums {L : List (List File)} (h : LevelsP L) (t : Nat) (nums : List Nat) :
    LevelsP (removeNums L t nums) := by
  apply h.shrink (by rw [removeNums_length]; exact h.len)
  intro j
  rw [lv_removeNums]
  split
  · rename_i e; subst e; exact List.filter_sublist
  · exact List.Sublist.refl _

/-- adding a fresh file `f` at level `t` keeps the level invariant -/
theorem LevelsP.addFile {L : List (List File)} (h : LevelsP L) {t : Nat} {f : File} (ht : t < 7)
    (hfo : FileOk f) (hfresh : ∀ j g, g ∈ lv L j → g.num ≠ f.num)
    (hdisj : 1 ≤ t → ∀ g ∈ lv L t,
      kLt g.largest f.smallest = true ∨ kLt f.largest g.smallest = true)
    (habove : ∀ i g, g ∈ lv L i → i < t → NewerF g f)
    (hbelow : ∀ i g, g ∈ lv L i → t < i → NewerF f g)
    (hzero : t = 0 → ∀ g ∈ lv L 0, g.num < f.num ∧ NewerF f g) :
    LevelsP (addToLevel L t f) := by
  have htl : t < L.length := by rw [h.len]; exact ht
  have hmem := mem_lv_addToLevel L f htl
  refine ⟨by rw [addToLevel_length]; exact h.len, ?_, ?_, ?_, ?_, ?_⟩
  · intro j g hg
    rcases (hmem j g).mp hg with hg | ⟨_, rfl⟩
    · exact h.files j g hg
    · exact hfo
  · intro j hj
    by_cases e : j = t
    · subst e
      rw [lv_addToLevel_pos L f (by omega) htl]
      exact insertFile_levelOk (h.lvls j hj) hfo (h.files j) (hdisj hj)
    · rw [lv_addToLevel_ne L f e]; exact h.lvls j hj
  · intro i j a b ha hb hij
    rcases (hmem i a).mp ha with ha' | ⟨ei, ea⟩ <;> rcases (hmem j b).mp hb with hb' | ⟨ej, eb⟩
    · exact h.order i j a b ha' hb' hij
    · rw [eb]
      rcases hij with hij | ⟨e1, e2, hlt⟩
      · exact habove i a ha' (by omega)
      · have := (hzero (by omega) a (by rw [← e1]; exact ha')).1; rw [eb] at hlt; omega
    · rw [ea]
      rcases hij with hij | ⟨e1, e2, hlt⟩
      · exact hbelow j b hb' (by omega)
      · exact (hzero (by omega) b (by rw [← e2]; exact hb')).2
    · rw [ea, eb] at hij
      rcases hij with hij | ⟨_, _, hlt⟩ <;> omega
  · intro j
    by_cases e : j = t
    · subst e
      by_cases h0 : j = 0
      · subst h0
        rw [lv_addToLevel_zero L f htl, List.map_append, List.nodup_append]
        refine ⟨h.numsL 0, by simp, ?_⟩
        intro a ha b hb
        obtain ⟨g, hg, rfl⟩ := List.mem_map.mp ha
        simp only [List.map_cons, List.map_nil, List.mem_singleton] at hb
        subst hb
        exact hfresh 0 g hg
      · rw [lv_addToLevel_pos L f (by omega) htl]
        rw [((insertFile_perm f (lv L j)).map File.num).nodup_iff, List.map_cons, List.nodup_cons]
        refine ⟨?_, h.numsL j⟩
        intro hm
        obtain ⟨g, hg, hn⟩ := List.mem_map.mp hm
        exact hfresh j g hg hn
    · rw [lv_addToLevel_ne L f e]; exact h.numsL j
  · intro i j a b ha hb hn
    rcases (hmem i a).mp ha with ha' | ⟨ei, ea⟩ <;> rcases (hmem j b).mp hb with hb' | ⟨ej, eb⟩
    · exact h.numsX i j a b ha' hb' hn
    · rw [eb] at hn; exact absurd hn (hfresh i a ha')
    · rw [ea] at hn; exact absurd hn.symm (hfresh j b hb')
    · omega

end Rain.Lsm.Lemmas
