import Rain.Lemmas.BuilderSort
import Rain.Lemmas.BuilderAcc
/-
`apply_changes` level by level: which files a level gets, that they are sorted and (under the
freshness condition) have distinct numbers, and the central fact: one builder for a whole list of
edits produces the same level as one builder per edit.
-/
namespace Rain.Builder.Lemmas
open Rain Rain.Lsm Rain.Lsm.Lemmas Rain.Builder

/-! ### levels by index -/

theorem levels_ext {L L' : Levels} (hlen : L.length = L'.length) (h : ∀ j, j < L.length → lv L j = lv L' j) :
    L = L' := by
  apply List.ext_getElem hlen
  intro j h1 h2
  have := h j h1
  simp only [lv, List.getD_eq_getElem?_getD, List.getElem?_eq_getElem h1,
    List.getElem?_eq_getElem h2, Option.getD_some] at this
  exact this

theorem applyFrom_length (b : Builder) (k : Nat) (L : Levels) : (applyFrom b k L).length = L.length := by
  induction L generalizing k with
  | nil => rfl
  | cons fs rest ih => simp [applyFrom, ih]

theorem lv_applyFrom (b : Builder) (k : Nat) (L : Levels) (j : Nat) :
    lv (applyFrom b k L) j = if j < L.length then applyLevel b (k + j) (lv L j) else [] := by
  induction L generalizing k j with
  | nil => simp [applyFrom]
  | cons fs rest ih =>
    cases j with
    | zero => simp [applyFrom]
    | succ j =>
      simp only [applyFrom, lv_cons_succ, ih, List.length_cons, Nat.add_lt_add_iff_right]
      have : k + 1 + j = k + (j + 1) := by omega
      rw [this]

theorem applyRaw_length (b : Builder) (L : Levels) : (applyRaw b L).length = L.length :=
  applyFrom_length b 0 L

theorem lv_applyRaw (b : Builder) (L : Levels) (j : Nat) :
    lv (applyRaw b L) j = if j < L.length then applyLevel b j (lv L j) else [] := by
  unfold applyRaw
  rw [lv_applyFrom]
  simp

theorem lv_applyRaw_lt (b : Builder) (L : Levels) {j : Nat} (h : j < L.length) :
    lv (applyRaw b L) j = applyLevel b j (lv L j) := by
  rw [lv_applyRaw, if_pos h]

/-! ### one level -/

theorem mem_addedAt {b : Builder} {i : Nat} {f : File} : f ∈ addedAt b i ↔ (i, f) ∈ b.added := by
  unfold addedAt
  simp only [List.mem_map, List.mem_filter, beq_iff_eq]
  constructor
  · rintro ⟨a, ⟨ha, hi⟩, rfl⟩
    cases a; simp at hi; subst hi; exact ha
  · intro h; exact ⟨(i, f), ⟨h, rfl⟩, rfl⟩

/-- the files `apply_changes` gives a level: base or added, and not deleted -/
theorem mem_applyLevel {b : Builder} {i : Nat} {fs : List File} {f : File} :
    f ∈ applyLevel b i fs ↔ (f ∈ fs ∨ (i, f) ∈ b.added) ∧ (i, f.num) ∉ b.deleted := by
  unfold applyLevel isDeleted
  simp only [List.mem_filter, mem_mergeF, (sortF_perm _).mem_iff, mem_addedAt, Bool.not_eq_true',
    decide_eq_false_iff_not]
  constructor
  · rintro ⟨h1 | h1, h2⟩
    · exact ⟨Or.inr h1, h2⟩
    · exact ⟨Or.inl h1, h2⟩
  · rintro ⟨h1 | h1, h2⟩
    · exact ⟨Or.inr h1, h2⟩
    · exact ⟨Or.inl h1, h2⟩

theorem applyLevel_sorted (b : Builder) (i : Nat) (fs : List File) : SortedF (applyLevel b i fs) := by
  unfold applyLevel
  exact List.Pairwise.filter _ (mergeF_sorted (sortF_sorted _) (sortF_sorted _))

theorem nodup_nums_iff_pairs (i : Nat) (l : List File) :
    (l.map fun f => (i, f.num)).Nodup ↔ (l.map File.num).Nodup := by
  unfold List.Nodup
  rw [List.pairwise_map, List.pairwise_map]
  constructor
  · intro h; exact h.imp (fun hab e => hab (by rw [e]))
  · intro h; exact h.imp (fun hab e => hab (by simpa using e))

theorem addedAt_pairs_sublist (b : Builder) (i : Nat) :
    ((addedAt b i).map fun f => (i, f.num)).Sublist (b.added.map pairOf) := by
  unfold addedAt
  rw [List.map_map]
  have : ((b.added.filter fun a => a.1 == i).map ((fun f => (i, f.num)) ∘ Prod.snd))
      = (b.added.filter fun a => a.1 == i).map pairOf := by
    apply List.map_congr_left
    intro a ha
    have := (List.mem_filter.mp ha).2
    simp only [beq_iff_eq] at this
    simp [pairOf, this]
  rw [this]
  exact List.Sublist.map _ List.filter_sublist

/-- numbers are distinct in the result if they are distinct among base and added files -/
theorem applyLevel_nodup {b : Builder} {i : Nat} {fs : List File}
    (h : (fs.map (fun f => (i, f.num)) ++ b.added.map pairOf).Nodup) :
    ((applyLevel b i fs).map File.num).Nodup := by
  have h1 : ((fs ++ addedAt b i).map fun f => (i, f.num)).Nodup := by
    rw [List.map_append]
    exact List.Nodup.sublist (List.Sublist.append (List.Sublist.refl _) (addedAt_pairs_sublist b i)) h
  have h2 : ((fs ++ addedAt b i).map File.num).Nodup := (nodup_nums_iff_pairs i _).mp h1
  have hp : (mergeF (sortF (addedAt b i)) (sortF fs)).Perm (fs ++ addedAt b i) :=
    (mergeF_perm _ _).trans ((List.Perm.append (sortF_perm _) (sortF_perm _)).trans List.perm_append_comm)
  have h3 : ((mergeF (sortF (addedAt b i)) (sortF fs)).map File.num).Nodup :=
    (List.Perm.nodup_iff (hp.map File.num)).mpr h2
  unfold applyLevel
  exact List.Nodup.sublist (List.Sublist.map _ List.filter_sublist) h3

/-! ### freshness, per level -/

/-- per level: the numbers of the base files, of the files the builder holds and of the files the
edits add are pairwise different -/
def FreshL (i : Nat) (fs : List File) (ba : List (Nat × File)) (es : List Edit) : Prop :=
  (fs.map (fun f => (i, f.num)) ++ ba.map pairOf ++ (es.map Edit.addedPairs).flatten).Nodup

theorem FreshL.base_builder {i : Nat} {fs : List File} {ba : List (Nat × File)} {es : List Edit}
    (h : FreshL i fs ba es) : (fs.map (fun f => (i, f.num)) ++ ba.map pairOf).Nodup :=
  (List.nodup_append.mp h).1

theorem FreshL.builder_edits {i : Nat} {fs : List File} {ba : List (Nat × File)} {es : List Edit}
    (h : FreshL i fs ba es) : (ba.map pairOf ++ (es.map Edit.addedPairs).flatten).Nodup := by
  unfold FreshL at h
  rw [List.append_assoc] at h
  exact (List.nodup_append.mp h).2.1

/-- the edits' additions are disjoint from what the base and the builder hold -/
theorem FreshL.not_added {i : Nat} {fs : List File} {ba : List (Nat × File)} {es : List Edit}
    (h : FreshL i fs ba es) {f : File} (hf : f ∈ fs ∨ (i, f) ∈ ba) :
    (i, f.num) ∉ (es.map Edit.addedPairs).flatten := by
  intro hm
  have hd := (List.nodup_append.mp h).2.2
  have : (i, f.num) ∈ fs.map (fun f => (i, f.num)) ++ ba.map pairOf := by
    rcases hf with hf | hf
    · exact List.mem_append_left _ (List.mem_map.mpr ⟨f, hf, rfl⟩)
    · exact List.mem_append_right _ (List.mem_map.mpr ⟨(i, f), hf, rfl⟩)
  exact hd _ this _ hm rfl

theorem FreshL.accumulate {i : Nat} {fs : List File} {b : Builder} {e : Edit} {es : List Edit}
    (h : FreshL i fs b.added (e :: es)) :
    (Rain.Builder.accumulate b e).added = b.added ++ e.added ∧
      FreshL i fs (Rain.Builder.accumulate b e).added es := by
  have h1 : (b.added ++ e.added).Nodup := by
    have := (List.nodup_append.mp h.builder_edits).1
    have h2 : (b.added.map pairOf ++ e.addedPairs).Nodup := by
      have := h.builder_edits
      simp only [List.map_cons, List.flatten_cons, ← List.append_assoc] at this
      exact (List.nodup_append.mp this).1
    rw [addedPairs_eq, ← List.map_append] at h2
    exact nodup_of_nodup_map pairOf h2
  have e1 := accumulate_added_eq b e h1
  refine ⟨e1, ?_⟩
  unfold FreshL at *
  rw [e1, List.map_append, ← addedPairs_eq]
  simpa [List.append_assoc] using h

/-- after applying the builder, its result is a fresh base for the remaining edits -/
theorem FreshL.apply {i : Nat} {fs : List File} {b : Builder} {es : List Edit}
    (h : FreshL i fs b.added es) : FreshL i (applyLevel b i fs) [] es := by
  unfold FreshL
  simp only [List.map_nil, List.append_nil]
  rw [List.nodup_append]
  refine ⟨(nodup_nums_iff_pairs i _).mpr (applyLevel_nodup h.base_builder),
    (List.nodup_append.mp h.builder_edits).2.1, ?_⟩
  intro p hp q hq e
  subst e
  obtain ⟨f, hf, rfl⟩ := List.mem_map.mp hp
  exact h.not_added (mem_applyLevel.mp hf).1 hq

/-! ### one builder for all edits = one builder per edit -/

theorem mem_split_step {b : Builder} {e : Edit} {i : Nat} {fs : List File}
    (h : ∀ f, (f ∈ fs ∨ (i, f) ∈ b.added) → (i, f.num) ∉ e.addedPairs) (f : File) :
    f ∈ applyLevel (accumulate b e) i fs ↔
      f ∈ applyLevel (accumulate empty e) i (applyLevel b i fs) := by
  simp only [mem_applyLevel, mem_accumulate_deleted, mem_accumulate_added, empty,
    List.not_mem_nil, false_or]
  by_cases ha : (i, f) ∈ e.added
  · have hp : (i, f.num) ∈ e.addedPairs := List.mem_map.mpr ⟨(i, f), ha, rfl⟩
    simp [ha, hp]
  · by_cases hb : f ∈ fs ∨ (i, f) ∈ b.added
    · have hp := h f hb
      simp only [ha, or_false, hp, not_false_eq_true, and_true, not_or]
      constructor
      · rintro ⟨h1, h2, h3⟩; exact ⟨⟨h1, h2⟩, h3⟩
      · rintro ⟨⟨h1, h2⟩, h3⟩; exact ⟨h1, h2, h3⟩
    · have hb' : ¬ ((f ∈ fs ∨ (i, f) ∈ b.added) ∨ (i, f) ∈ e.added) := by
        rintro (h' | h')
        · exact hb h'
        · exact ha h'
      constructor
      · rintro ⟨h1, _⟩; exact absurd (by rcases h1 with h1 | h1 | h1 <;> simp_all) hb'
      · rintro ⟨h1, _⟩
        rcases h1 with ⟨h1, _⟩ | h1
        · exact absurd h1 hb
        · exact absurd h1 ha

theorem mem_applyLevel_congr {b : Builder} {i : Nat} {fs fs' : List File}
    (h : ∀ f, f ∈ fs ↔ f ∈ fs') (f : File) : f ∈ applyLevel b i fs ↔ f ∈ applyLevel b i fs' := by
  simp only [mem_applyLevel, h]

theorem mem_split (i : Nat) (es : List Edit) : ∀ (b : Builder) (fs : List File),
    FreshL i fs b.added es → ∀ f, f ∈ applyLevel (es.foldl accumulate b) i fs ↔
      f ∈ applyLevel (es.foldl accumulate empty) i (applyLevel b i fs) := by
  induction es with
  | nil =>
    intro b fs _ f
    simp only [List.foldl_nil, mem_applyLevel, empty, List.not_mem_nil, or_false,
      not_false_eq_true, and_true]
  | cons e es ih =>
    intro b fs h f
    obtain ⟨e1, h1⟩ := h.accumulate
    -- the result of `b` is a fresh base for `e :: es`
    have h2 : FreshL i (applyLevel b i fs) [] (e :: es) := h.apply
    have h2' : FreshL i (applyLevel b i fs) (empty : Builder).added (e :: es) := h2
    obtain ⟨e2, h3⟩ := h2'.accumulate
    simp only [List.foldl_cons]
    rw [ih (accumulate b e) fs h1 f, ih (accumulate empty e) (applyLevel b i fs) h3 f]
    apply mem_applyLevel_congr
    apply mem_split_step
    intro g hg hm
    exact h.not_added hg (by
      simp only [List.map_cons, List.flatten_cons, List.mem_append]
      exact Or.inl hm)

/-- **one level, all edits at once = edit by edit** -/
theorem applyLevel_split {i : Nat} {es : List Edit} {b : Builder} {fs : List File}
    (h : FreshL i fs b.added es) :
    applyLevel (es.foldl accumulate b) i fs =
      applyLevel (es.foldl accumulate empty) i (applyLevel b i fs) := by
  apply eq_of_sorted_of_mem (applyLevel_sorted ..) (applyLevel_sorted ..)
  · apply applyLevel_nodup
    rw [foldl_accumulate_added_eq es b h.builder_edits, List.map_append, flatten_added_pairs,
      ← List.append_assoc]
    exact h
  · apply applyLevel_nodup
    have h2 := h.apply
    rw [foldl_accumulate_added_eq es empty (by simpa [empty] using h2.builder_edits)]
    simp only [empty, List.nil_append, flatten_added_pairs]
    simpa [FreshL] using h2
  · exact mem_split i es b fs h

/-! ### all levels -/

theorem pairs_sublist (L : Levels) (k j : Nat) :
    ((lv L j).map fun f => (k + j, f.num)).Sublist (pairsFrom k L) := by
  induction L generalizing k j with
  | nil => simp [pairsFrom]
  | cons fs rest ih =>
    cases j with
    | zero =>
      simp only [lv_cons_zero, pairsFrom, Nat.add_zero]
      exact List.sublist_append_left _ _
    | succ j =>
      simp only [lv_cons_succ, pairsFrom]
      have : k + (j + 1) = k + 1 + j := by omega
      rw [this]
      exact (ih (k + 1) j).trans (List.sublist_append_right _ _)

theorem mem_pairsFrom {L : Levels} {k : Nat} {p : Nat × Nat} :
    p ∈ pairsFrom k L ↔ ∃ j f, f ∈ lv L j ∧ p = (k + j, f.num) := by
  induction L generalizing k with
  | nil => simp [pairsFrom]
  | cons fs rest ih =>
    simp only [pairsFrom, List.mem_append, List.mem_map, ih]
    constructor
    · rintro (⟨f, hf, rfl⟩ | ⟨j, f, hf, rfl⟩)
      · exact ⟨0, f, by simpa using hf, rfl⟩
      · exact ⟨j + 1, f, by simpa using hf, by congr 1; omega⟩
    · rintro ⟨j, f, hf, rfl⟩
      cases j with
      | zero => exact Or.inl ⟨f, by simpa using hf, rfl⟩
      | succ j => exact Or.inr ⟨j, f, by simpa using hf, by congr 1; omega⟩

theorem mem_pairsOf {L : Levels} {p : Nat × Nat} :
    p ∈ pairsOf L ↔ ∃ f, f ∈ lv L p.1 ∧ f.num = p.2 := by
  unfold pairsOf
  rw [mem_pairsFrom]
  constructor
  · rintro ⟨j, f, hf, rfl⟩; exact ⟨f, by simpa using hf, rfl⟩
  · rintro ⟨f, hf, hn⟩; exact ⟨p.1, f, hf, by cases p; simp at hn ⊢; exact hn.symm⟩

theorem pairsFrom_nodup (L : Levels) (k : Nat) (hn : ∀ j, ((lv L j).map File.num).Nodup) :
    (pairsFrom k L).Nodup := by
  induction L generalizing k with
  | nil => simp [pairsFrom]
  | cons fs rest ih =>
    simp only [pairsFrom]
    rw [List.nodup_append]
    refine ⟨(nodup_nums_iff_pairs k fs).mpr (by simpa using hn 0),
      ih (k + 1) (fun j => by simpa using hn (j + 1)), ?_⟩
    intro p hp q hq e
    subst e
    obtain ⟨f, _, rfl⟩ := List.mem_map.mp hp
    obtain ⟨j, g, _, hg⟩ := mem_pairsFrom.mp hq
    simp only [Prod.mk.injEq] at hg
    omega

theorem Fresh.level {base : Levels} {es : List Edit} (h : Fresh base es) (j : Nat) :
    FreshL j (lv base j) [] es := by
  unfold FreshL
  simp only [List.map_nil, List.append_nil]
  unfold Fresh usedPairs pairsOf at h
  have := pairs_sublist base 0 j
  simp only [Nat.zero_add] at this
  exact List.Nodup.sublist (List.Sublist.append this (List.Sublist.refl _)) h

/-- **all edits at once = the first part, then the rest on its result** -/
theorem applyRaw_split {base : Levels} {es₁ es₂ : List Edit} (h : Fresh base (es₁ ++ es₂)) :
    applyRaw ((es₁ ++ es₂).foldl accumulate empty) base =
      applyRaw (es₂.foldl accumulate empty) (applyRaw (es₁.foldl accumulate empty) base) := by
  apply levels_ext
  · simp [applyRaw_length]
  · intro j hj
    rw [applyRaw_length] at hj
    rw [lv_applyRaw_lt _ _ hj, lv_applyRaw_lt _ _ (by rw [applyRaw_length]; exact hj),
      lv_applyRaw_lt _ _ hj, List.foldl_append]
    apply applyLevel_split
    have hl := Fresh.level h j
    unfold FreshL at hl ⊢
    simp only [List.map_nil, List.append_nil, List.map_append, List.flatten_append] at hl
    have hb : (es₁.foldl accumulate empty).added = (es₁.map Edit.added).flatten := by
      rw [foldl_accumulate_added_eq]
      · simp [empty]
      · simp only [empty, List.map_nil, List.nil_append]
        rw [← List.append_assoc] at hl
        exact (List.nodup_append.mp (List.nodup_append.mp hl).1).2.1
    rw [hb, flatten_added_pairs, List.append_assoc]
    exact hl

theorem Fresh.prefix {base : Levels} {es₁ es₂ : List Edit} (h : Fresh base (es₁ ++ es₂)) :
    Fresh base es₁ := by
  unfold Fresh usedPairs at *
  simp only [List.map_append, List.flatten_append, ← List.append_assoc] at h
  exact (List.nodup_append.mp h).1

/-- the version after the first edits is a fresh base for the remaining ones -/
theorem Fresh.step {base : Levels} {es₁ es₂ : List Edit} (h : Fresh base (es₁ ++ es₂)) :
    Fresh (applyRaw (es₁.foldl accumulate empty) base) es₂ := by
  unfold Fresh usedPairs at *
  simp only [List.map_append, List.flatten_append] at h
  have h12 := (List.nodup_append.mp h).2.1
  have hb : (es₁.foldl accumulate empty).added = (es₁.map Edit.added).flatten := by
    rw [foldl_accumulate_added_eq]
    · simp [empty]
    · simpa [empty] using (List.nodup_append.mp h12).1
  rw [List.nodup_append]
  refine ⟨?_, (List.nodup_append.mp h12).2.1, ?_⟩
  · -- distinct (level, number) pairs in the result
    unfold pairsOf
    apply pairsFrom_nodup
    intro j
    rw [lv_applyRaw]
    split
    · apply applyLevel_nodup
      have hl := Fresh.level (Fresh.prefix (es₂ := es₂) (by
        unfold Fresh usedPairs
        simpa only [List.map_append, List.flatten_append] using h)) j
      unfold FreshL at hl
      simp only [List.map_nil, List.append_nil] at hl
      rw [hb, flatten_added_pairs]
      exact hl
    · simp
  · intro p hp q hq e
    subst e
    obtain ⟨f, hf, hn⟩ := mem_pairsOf.mp hp
    rw [lv_applyRaw] at hf
    split at hf
    · have hm := (mem_applyLevel.mp hf).1
      rw [hb] at hm
      have hd := (List.nodup_append.mp h).2.2
      rcases hm with hm | hm
      · have : p ∈ pairsOf base := mem_pairsOf.mpr ⟨f, hm, hn⟩
        exact hd p this p (List.mem_append_right _ hq) rfl
      · have : p ∈ (es₁.map Edit.addedPairs).flatten := by
          rw [← flatten_added_pairs]
          exact List.mem_map.mpr ⟨(p.1, f), hm, by simp [pairOf, hn]⟩
        exact (List.nodup_append.mp h12).2.2 p this p hq rfl
    · cases hf

/-! ### the assertion -/

theorem panicFrom_none {k : Nat} {L : Levels} :
    panicFrom k L = none ↔ ∀ j, j < L.length → k + j ≠ 0 → levelSorted (lv L j) = true := by
  induction L generalizing k with
  | nil => simp [panicFrom]
  | cons fs rest ih =>
    simp only [panicFrom]
    split
    · rename_i h
      simp only [reduceCtorEq, false_iff]
      intro hall
      have := hall 0 (by simp) (by simpa using h.1)
      simp only [lv_cons_zero] at this
      rw [this] at h
      exact absurd h.2 (by simp)
    · rename_i h
      rw [ih]
      constructor
      · intro hall j hj hne
        cases j with
        | zero =>
          simp only [lv_cons_zero]
          cases hs : levelSorted fs with
          | true => rfl
          | false => exact absurd ⟨by simpa using hne, hs⟩ h
        | succ j =>
          simp only [lv_cons_succ]
          exact hall j (by simpa using hj) (by omega)
      · intro hall j hj hne
        have := hall (j + 1) (by simpa using hj) (by omega)
        simpa using this

theorem applyTo_eq_some {b : Builder} {base v : Levels} (h : applyTo b base = some v) :
    v = applyRaw b base := by
  unfold applyTo at h
  split at h
  · cases h
  · simp only [Option.some.injEq] at h; exact h.symm

/-- whether `apply_changes` panics depends on the files it would produce only -/
theorem applyTo_congr {b b' : Builder} {base base' : Levels}
    (h : applyRaw b base = applyRaw b' base') : applyTo b base = applyTo b' base' := by
  unfold applyTo panicLevel
  rw [h]

theorem applyTo_some_of {b : Builder} {base : Levels}
    (h : ∀ j, j < base.length → 1 ≤ j → levelSorted (applyLevel b j (lv base j)) = true) :
    applyTo b base = some (applyRaw b base) := by
  have : panicLevel b base = none := by
    unfold panicLevel
    rw [panicFrom_none]
    intro j hj hne
    rw [applyRaw_length] at hj
    rw [lv_applyRaw_lt _ _ hj]
    exact h j hj (by omega)
  unfold applyTo
  rw [this]

end Rain.Builder.Lemmas
