import Rain.Lemmas.MergePick
/-
The refinement relation between the merging iterator's state and a position in the merged list,
and the two lemmas that (re-)establish it after `findSmallest` / `findLargest`.
-/
namespace Rain.MergeRel
open Rain Rain.Lsm Rain.Table Rain.Merge Rain.OrderIter Rain.Cut Rain.MergeFind Rain.MergePick Rain.MergeSorted

def ltKey (t : Bytes × Nat) : Entry → Bool := fun x => kLt x.key t
def leKey (t : Bytes × Nat) : Entry → Bool := fun x => !kLt t x.key

theorem lowerSet_ltKey (t) : LowerSet (ltKey t) := lowerSet_lt t
theorem lowerSet_leKey (t) : LowerSet (leKey t) := lowerSet_le t
theorem lowerSet_false : LowerSet (fun _ => false) := by intro a b _ h; simp at h

theorem cnt_false (es : List Entry) : cnt (fun _ => false) es = 0 := by
  cases es <;> simp [cnt]

/-- the relation: `p` is the flat position in `merged children` -/
def Rel (children : List (List Entry)) (s : MState) (p : Nat) : Prop :=
  ((merged children).length ≤ p ∧ s.current children = none) ∨
  (∃ c e, (merged children)[p]? = some e ∧ s.cur = some c ∧ c < children.length ∧
    (children.getD c [])[s.pos.getD c 0]? = some e ∧
    (s.dir = .fwd → ∀ i < children.length, i ≠ c →
      s.pos.getD i 0 = cnt (ltKey e.key) (children.getD i [])) ∧
    (s.dir = .bwd → ∀ i < children.length, i ≠ c →
      s.pos.getD i 0 = predPos (cnt (ltKey e.key) (children.getD i [])) (children.getD i []).length))

theorem Rel.current {children s p} (h : Rel children s p) :
    s.current children = (merged children)[p]? := by
  rcases h with ⟨h1, h2⟩ | ⟨c, e, h1, h2, h3, h4, _⟩
  · rw [h2, List.getElem?_eq_none h1]
  · rw [h1]; simp only [MState.current, h2]; exact h4

section
variable {children : List (List Entry)} (hs : ∀ c ∈ children, Sorted c)
  (hd : (children.flatten.map Entry.key).Nodup)
include hs hd

theorem sorted_merged : Sorted (merged children) := sorted_mergeAll children hs hd

theorem flat_fwd_some {P : Entry → Bool} (hP : LowerSet P) {e : Entry} (he : e ∈ children.flatten)
    (hpe : P e = false) (hall : ∀ x ∈ children.flatten, (P x = true ↔ kLt x.key e.key = true)) :
    (merged children)[cnt P (merged children)]? = some e := by
  have hM := sorted_merged hs hd
  cases h : (merged children)[cnt P (merged children)]? with
  | none =>
    have := (get_cnt_none hP hM).mp h e ((mem_mergeAll children e).mpr he)
    rw [hpe] at this; simp at this
  | some e' =>
    obtain ⟨g1, g2, g3, g4⟩ := get_cnt_some hP hM h
    rcases g3 e ((mem_mergeAll children e).mpr he) hpe with rfl | h3
    · rfl
    · have := (hall e' ((mem_mergeAll children e').mp g1)).mpr h3
      rw [g2] at this; simp at this

theorem flat_bwd_some {P : Entry → Bool} (hP : LowerSet P) {e : Entry} (he : e ∈ children.flatten)
    (hpe : P e = true) (hall : ∀ x ∈ children.flatten, (P x = false ↔ kLt e.key x.key = true)) :
    (merged children)[predPos (cnt P (merged children)) (merged children).length]? = some e := by
  have hM := sorted_merged hs hd
  cases h : (merged children)[predPos (cnt P (merged children)) (merged children).length]? with
  | none =>
    have := (get_pred_none hP hM).mp h e ((mem_mergeAll children e).mpr he)
    rw [hpe] at this; simp at this
  | some e' =>
    obtain ⟨g1, g2, g3, g4⟩ := get_pred_some hP hM h
    rcases g3 e ((mem_mergeAll children e).mpr he) hpe with rfl | h3
    · rfl
    · have := (hall e' ((mem_mergeAll children e').mp g1)).mpr h3
      rw [g2] at this; simp at this

/-- all children at the cut of `P`, then `findSmallest` -/
theorem fwd_result {P : Entry → Bool} (hP : LowerSet P) {pos : List Nat}
    (hpos : ∀ i < children.length, pos.getD i 0 = cnt P (children.getD i [])) :
    Rel children { pos := pos, dir := .fwd, cur := findSmallest children pos } (cnt P (merged children)) := by
  rcases fwd_pick hs hd hP hpos with ⟨h1, h2⟩ | ⟨c, e, h1, h2, h3, h4, h5⟩
  · left
    constructor
    · have : (merged children)[cnt P (merged children)]? = none :=
        (get_cnt_none hP (sorted_merged hs hd)).mpr (fun x hx => h2 x ((mem_mergeAll children x).mp hx))
      simpa using this
    · simp [MState.current, h1]
  · right
    have hemem : e ∈ children.flatten := mem_child_flatten (List.mem_of_getElem? h3)
    refine ⟨c, e, flat_fwd_some hs hd hP hemem h4 h5, h1, h2, h3, ?_, by simp⟩
    intro _ i hi _
    rw [hpos i hi]
    apply cnt_congr
    intro x hx
    have := h5 x (mem_child_flatten hx)
    simp only [ltKey]
    cases hpx : P x <;> cases hk : kLt x.key e.key <;> simp_all

/-- all children just before the cut of `P`, then `findLargest` -/
theorem bwd_result {P : Entry → Bool} (hP : LowerSet P) {pos : List Nat}
    (hpos : ∀ i < children.length,
      pos.getD i 0 = predPos (cnt P (children.getD i [])) (children.getD i []).length) :
    Rel children { pos := pos, dir := .bwd, cur := findLargest children pos }
      (predPos (cnt P (merged children)) (merged children).length) := by
  rcases bwd_pick hs hd hP hpos with ⟨h1, h2⟩ | ⟨c, e, h1, h2, h3, h4, h5⟩
  · left
    constructor
    · have : (merged children)[predPos (cnt P (merged children)) (merged children).length]? = none :=
        (get_pred_none hP (sorted_merged hs hd)).mpr (fun x hx => h2 x ((mem_mergeAll children x).mp hx))
      simpa using this
    · simp [MState.current, h1]
  · right
    have hec : e ∈ children.getD c [] := List.mem_of_getElem? h3
    have hemem : e ∈ children.flatten := mem_child_flatten hec
    refine ⟨c, e, flat_bwd_some hs hd hP hemem h4 h5, h1, h2, h3, by simp, ?_⟩
    intro _ i hi hic
    rw [hpos i hi]
    congr 1
    apply cnt_congr
    intro x hx
    have h6 := h5 x (mem_child_flatten hx)
    have hne : x.key ≠ e.key := keys_disjoint hd hic hx hec
    simp only [ltKey]
    cases hpx : P x
    · have := kLt_asymm (h6.mp hpx); rw [this]
    · cases hk : kLt x.key e.key
      · exfalso
        cases hk2 : kLt e.key x.key
        · exact hne (kLt_total hk hk2)
        · have := h6.mpr hk2; rw [hpx] at this; simp at this
      · rfl

end

end Rain.MergeRel
