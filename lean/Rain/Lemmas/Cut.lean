import Rain.Merge
import Rain.Lemmas.OrderIter
/-
Cuts of a sorted list by a lower set: `cnt P es` = length of the longest prefix satisfying `P`.
-/
namespace Rain.Cut
open Rain Rain.Lsm Rain.Table Rain.Merge Rain.OrderIter

def cnt (P : Entry → Bool) : List Entry → Nat
  | [] => 0
  | x :: r => if P x then cnt P r + 1 else 0

def LowerSet (P : Entry → Bool) : Prop :=
  ∀ a b : Entry, kLt a.key b.key = true → P b = true → P a = true

/-- position before `q` in a list of length `len` (`len` = invalid) -/
def predPos (q len : Nat) : Nat := if q = 0 then len else q - 1

theorem cnt_le (P : Entry → Bool) (es : List Entry) : cnt P es ≤ es.length := by
  induction es with
  | nil => simp [cnt]
  | cons a r ih => simp only [cnt]; split <;> simp <;> omega

theorem cnt_congr {P Q : Entry → Bool} {es : List Entry} (h : ∀ x ∈ es, P x = Q x) : cnt P es = cnt Q es := by
  induction es with
  | nil => rfl
  | cons a r ih =>
    simp only [cnt, h a (by simp)]
    rw [ih (fun x hx => h x (by simp [hx]))]

theorem lowerBound_eq_cnt (es : List Entry) (t : Bytes × Nat) :
    lowerBound (keysOf es) t = cnt (fun x => kLt x.key t) es := by
  induction es with
  | nil => rfl
  | cons a r ih =>
    simp only [keysOf, List.map_cons, lowerBound, cnt]
    simp only [keysOf] at ih
    rw [ih]

theorem split {P : Entry → Bool} (hP : LowerSet P) {es : List Entry} (hs : Sorted es) :
    ∃ l r, es = l ++ r ∧ l.length = cnt P es ∧ (∀ x ∈ l, P x = true) ∧ (∀ x ∈ r, P x = false) := by
  induction es with
  | nil => exact ⟨[], [], by simp [cnt]⟩
  | cons a rest ih =>
    rw [sorted_cons] at hs
    by_cases hpa : P a = true
    · obtain ⟨l, r, h1, h2, h3, h4⟩ := ih hs.2
      refine ⟨a :: l, r, by simp [h1], by simp [cnt, hpa, h2], ?_, h4⟩
      intro x hx
      rcases List.mem_cons.mp hx with rfl | hx
      · exact hpa
      · exact h3 x hx
    · refine ⟨[], a :: rest, by simp, by simp [cnt, hpa], by simp, ?_⟩
      intro x hx
      rcases List.mem_cons.mp hx with rfl | hx
      · simpa using hpa
      · cases hx2 : P x
        · rfl
        · exact absurd (hP a x (hs.1 x hx) hx2) hpa

theorem sorted_append {l r : List Entry} (hs : Sorted (l ++ r)) :
    Sorted l ∧ Sorted r ∧ ∀ x ∈ l, ∀ y ∈ r, kLt x.key y.key = true := by
  simpa [Sorted, List.pairwise_append] using hs

theorem get_cnt_none {P : Entry → Bool} (hP : LowerSet P) {es : List Entry} (hs : Sorted es) :
    es[cnt P es]? = none ↔ ∀ x ∈ es, P x = true := by
  obtain ⟨l, r, h1, h2, h3, h4⟩ := split hP hs
  rw [← h2]
  subst h1
  constructor
  · intro h
    have : r = [] := by
      cases r with
      | nil => rfl
      | cons b r' => simp at h
    subst this
    simpa using h3
  · intro h
    cases r with
    | nil => simp
    | cons b r' =>
      have := h b (by simp); rw [h4 b (by simp)] at this; simp at this

theorem get_cnt_some {P : Entry → Bool} (hP : LowerSet P) {es : List Entry} (hs : Sorted es) {e : Entry}
    (h : es[cnt P es]? = some e) :
    e ∈ es ∧ P e = false ∧ (∀ x ∈ es, P x = false → x = e ∨ kLt e.key x.key = true) ∧
      (∀ x ∈ es, P x = true → kLt x.key e.key = true) := by
  obtain ⟨l, r, h1, h2, h3, h4⟩ := split hP hs
  rw [← h2] at h
  subst h1
  cases r with
  | nil => simp at h
  | cons b r' =>
    simp at h
    subst h
    obtain ⟨s1, s2, s3⟩ := sorted_append hs
    refine ⟨by simp, h4 b (by simp), ?_, ?_⟩
    · intro x hx hpx
      rcases List.mem_append.mp hx with hx | hx
      · rw [h3 x hx] at hpx; simp at hpx
      · rcases List.mem_cons.mp hx with rfl | hx
        · exact .inl rfl
        · exact .inr ((sorted_cons.mp s2).1 x hx)
    · intro x hx hpx
      rcases List.mem_append.mp hx with hx | hx
      · exact s3 x hx b (by simp)
      · rw [h4 x hx] at hpx; simp at hpx

theorem get_pred_none {P : Entry → Bool} (hP : LowerSet P) {es : List Entry} (hs : Sorted es) :
    es[predPos (cnt P es) es.length]? = none ↔ ∀ x ∈ es, P x = false := by
  obtain ⟨l, r, h1, h2, h3, h4⟩ := split hP hs
  rw [← h2]
  subst h1
  constructor
  · intro h
    have : l = [] := by
      cases l with
      | nil => rfl
      | cons b l' =>
        simp only [predPos, List.length_cons] at h
        rw [if_neg (by omega)] at h
        simp at h
        omega
    subst this
    simpa using h4
  · intro h
    cases l with
    | nil => simp [predPos]
    | cons b l' =>
      have := h b (by simp); rw [h3 b (by simp)] at this; simp at this

theorem get_pred_some {P : Entry → Bool} (hP : LowerSet P) {es : List Entry} (hs : Sorted es) {e : Entry}
    (h : es[predPos (cnt P es) es.length]? = some e) :
    e ∈ es ∧ P e = true ∧ (∀ x ∈ es, P x = true → x = e ∨ kLt x.key e.key = true) ∧
      (∀ x ∈ es, P x = false → kLt e.key x.key = true) := by
  obtain ⟨l, r, h1, h2, h3, h4⟩ := split hP hs
  rw [← h2] at h
  subst h1
  obtain ⟨s1, s2, s3⟩ := sorted_append hs
  rcases List.eq_nil_or_concat l with rfl | ⟨l', b, rfl⟩
  · simp [predPos] at h
  · simp only [List.concat_eq_append] at *
    have hlen : predPos (l' ++ [b]).length ((l' ++ [b]) ++ r).length = l'.length := by
      simp [predPos]
    rw [hlen] at h
    simp at h
    subst h
    obtain ⟨t1, t2, t3⟩ := sorted_append s1
    refine ⟨by simp, h3 b (by simp), ?_, ?_⟩
    · intro x hx hpx
      rcases List.mem_append.mp hx with hx | hx
      · rcases List.mem_append.mp hx with hx | hx
        · exact .inr (t3 x hx b (by simp))
        · simp at hx; exact .inl hx
      · rw [h4 x hx] at hpx; simp at hpx
    · intro x hx hpx
      rcases List.mem_append.mp hx with hx | hx
      · rw [h3 x hx] at hpx; simp at hpx
      · exact s3 b (by simp) x hx

theorem lowerSet_lt (t : Bytes × Nat) : LowerSet (fun x => kLt x.key t) := by
  intro a b hab hb
  exact kLt_trans hab hb

theorem lowerSet_le (t : Bytes × Nat) : LowerSet (fun x => !kLt t x.key) := by
  intro a b hab hb
  simp only [Bool.not_eq_eq_eq_not, Bool.not_true] at *
  cases h : kLt t a.key
  · rfl
  · have := kLt_trans h hab; rw [hb] at this; simp at this

theorem lowerSet_true : LowerSet (fun _ => true) := by
  intro a b _ _; rfl

/-- the index of an entry in a sorted list is the number of smaller keys -/
theorem cnt_lt_of_get {es : List Entry} (hs : Sorted es) {p : Nat} {e : Entry} (h : es[p]? = some e) :
    cnt (fun x => kLt x.key e.key) es = p := by
  induction es generalizing p with
  | nil => simp at h
  | cons a rest ih =>
    rw [sorted_cons] at hs
    cases p with
    | zero =>
      simp at h; subst h
      simp [cnt, kLt_irrefl]
    | succ p =>
      simp at h
      have hm : e ∈ rest := List.mem_of_getElem? h
      simp [cnt, hs.1 e hm, ih hs.2 h]

theorem cnt_le_of_get {es : List Entry} (hs : Sorted es) {p : Nat} {e : Entry} (h : es[p]? = some e) :
    cnt (fun x => !kLt e.key x.key) es = p + 1 := by
  induction es generalizing p with
  | nil => simp at h
  | cons a rest ih =>
    rw [sorted_cons] at hs
    cases p with
    | zero =>
      simp at h; subst h
      simp only [cnt, kLt_irrefl, Bool.not_false, if_true]
      cases rest with
      | nil => rfl
      | cons b r => simp [cnt, hs.1 b (by simp)]
    | succ p =>
      simp at h
      have hm : e ∈ rest := List.mem_of_getElem? h
      simp [cnt, kLt_asymm (hs.1 e hm), ih hs.2 h]

theorem cnt_true (es : List Entry) : cnt (fun _ => true) es = es.length := by
  induction es with
  | nil => rfl
  | cons a r ih => simp [cnt, ih]

end Rain.Cut
