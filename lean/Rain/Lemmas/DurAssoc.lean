import Rain.DurableSpec
/-
Association-list facts for the durability model: `lookup`, `update`, `erase` and uniqueness of
file numbers.
-/
namespace Rain.Durable.Lemmas
open Rain Rain.Lsm Rain.Durable

variable {α : Type}

theorem lookup_nil (n : Nat) : lookup ([] : List (Nat × α)) n = none := rfl

theorem lookup_cons (p : Nat × α) (l : List (Nat × α)) (n : Nat) :
    lookup (p :: l) n = if p.1 = n then some p.2 else lookup l n := by
  unfold lookup
  by_cases h : p.1 = n <;> simp [h]

theorem lookup_append_single (l : List (Nat × α)) (n m : Nat) (v : α) :
    lookup (l ++ [(n, v)]) m = match lookup l m with | some x => some x | none => if n = m then some v else none := by
  induction l with
  | nil => simp [lookup_cons, lookup_nil]
  | cons p l ih =>
    simp only [List.cons_append, lookup_cons]
    by_cases h : p.1 = m <;> simp [h, ih]

theorem any_key_iff (l : List (Nat × α)) (n : Nat) :
    (l.any fun p => p.1 == n) = true ↔ n ∈ l.map Prod.fst := by
  simp [List.any_eq_true]

theorem lookup_eq_none_iff (l : List (Nat × α)) (n : Nat) :
    lookup l n = none ↔ n ∉ l.map Prod.fst := by
  induction l with
  | nil => simp [lookup_nil]
  | cons p l ih =>
    simp only [lookup_cons, List.map_cons, List.mem_cons, not_or]
    by_cases h : p.1 = n
    · simp [h]
    · have : ¬ n = p.1 := fun h' => h h'.symm
      simp [h, this, ih]

theorem mem_of_lookup (l : List (Nat × α)) (n : Nat) (v : α) (h : lookup l n = some v) : (n, v) ∈ l := by
  induction l with
  | nil => simp [lookup_nil] at h
  | cons p l ih =>
    rw [lookup_cons] at h
    by_cases hp : p.1 = n
    · simp [hp] at h
      have : p = (n, v) := by cases p; simp_all
      rw [this]; exact List.mem_cons_self
    · simp [hp] at h; exact List.mem_cons_of_mem _ (ih h)

theorem lookup_of_mem (l : List (Nat × α)) (n : Nat) (v : α) (hnd : (l.map Prod.fst).Nodup)
    (h : (n, v) ∈ l) : lookup l n = some v := by
  induction l with
  | nil => simp at h
  | cons p l ih =>
    rw [lookup_cons]
    simp only [List.map_cons, List.nodup_cons] at hnd
    rcases List.mem_cons.1 h with h | h
    · subst h; simp
    · have : p.1 ≠ n := by
        intro hp; apply hnd.1; rw [hp]; exact List.mem_map.2 ⟨(n, v), h, rfl⟩
      simp [this, ih hnd.2 h]

theorem lookup_isSome_of_mem_keys (l : List (Nat × α)) (n : Nat) (h : n ∈ l.map Prod.fst) :
    ∃ v, lookup l n = some v := by
  cases hl : lookup l n with
  | none => exact absurd h ((lookup_eq_none_iff l n).1 hl)
  | some v => exact ⟨v, rfl⟩

/-- the map used by `update` when the key exists -/
def setAt (n : Nat) (v : α) : Nat × α → Nat × α := fun p => if p.1 == n then (n, v) else p

theorem setAt_fst (n : Nat) (v : α) (p : Nat × α) : (setAt n v p).1 = p.1 := by
  unfold setAt; by_cases h : p.1 = n <;> simp [h]

theorem setAt_of_ne (n : Nat) (v : α) (p : Nat × α) (h : p.1 ≠ n) : setAt n v p = p := by
  unfold setAt; simp [h]

theorem update_of_mem (l : List (Nat × α)) (n : Nat) (v : α) (h : n ∈ l.map Prod.fst) :
    update l n v = l.map (setAt n v) := by
  unfold update; rw [if_pos ((any_key_iff l n).2 h)]; rfl

theorem update_of_not_mem (l : List (Nat × α)) (n : Nat) (v : α) (h : n ∉ l.map Prod.fst) :
    update l n v = l ++ [(n, v)] := by
  unfold update; rw [if_neg (fun h' => h ((any_key_iff l n).1 h'))]

/-- rewriting a file with the contents it already has changes nothing (given unique numbers) -/
theorem update_same (l : List (Nat × α)) (n : Nat) (v : α) (hnd : (l.map Prod.fst).Nodup)
    (h : lookup l n = some v) : update l n v = l := by
  have hmem : n ∈ l.map Prod.fst := List.mem_map.2 ⟨(n, v), mem_of_lookup l n v h, rfl⟩
  rw [update_of_mem l n v hmem]
  conv => rhs; rw [← List.map_id l]
  apply List.map_congr_left
  intro p hp
  by_cases hpn : p.1 = n
  · have h2 : lookup l n = some p.2 := lookup_of_mem l n p.2 hnd (by rw [← hpn]; exact hp)
    rw [h] at h2
    injection h2 with h2
    unfold setAt
    rw [hpn, beq_self_eq_true, if_pos rfl, h2, ← hpn]
    rfl
  · exact setAt_of_ne n v p hpn

theorem lookup_map_setAt (l : List (Nat × α)) (n m : Nat) (v : α) :
    lookup (l.map (setAt n v)) m = if m = n then (if n ∈ l.map Prod.fst then some v else none) else lookup l m := by
  induction l with
  | nil => simp [lookup_nil]
  | cons p l ih =>
    simp only [List.map_cons, lookup_cons, setAt_fst, ih]
    by_cases hm : m = n
    · subst hm
      by_cases hp : p.1 = m
      · simp [hp, setAt]
      · have : ¬ m = p.1 := fun h => hp h.symm
        by_cases hmem : m ∈ List.map Prod.fst l
        · have h2 : m ∈ p.fst :: List.map Prod.fst l := List.mem_cons_of_mem _ hmem
          rw [if_neg hp, if_pos rfl, if_pos rfl, if_pos hmem, if_pos h2]
        · have h2 : ¬ m ∈ p.fst :: List.map Prod.fst l := by
            rw [List.mem_cons]; simp only [this, false_or]; exact hmem
          rw [if_neg hp, if_pos rfl, if_pos rfl, if_neg hmem, if_neg h2]
    · by_cases hp : p.1 = m
      · have : p.1 ≠ n := by omega
        simp [hp, hm, setAt_of_ne _ _ _ this]
      · simp [hp, hm]

theorem lookup_update (l : List (Nat × α)) (n m : Nat) (v : α) :
    lookup (update l n v) m = if m = n then some v else lookup l m := by
  by_cases h : n ∈ l.map Prod.fst
  · rw [update_of_mem l n v h, lookup_map_setAt]; simp [h]
  · rw [update_of_not_mem l n v h, lookup_append_single]
    by_cases hm : m = n
    · subst hm; simp [(lookup_eq_none_iff l m).2 h]
    · have : ¬ n = m := fun h => hm h.symm
      simp [hm, this]; cases lookup l m <;> rfl

theorem lookup_erase (l : List (Nat × α)) (n m : Nat) :
    lookup (erase l n) m = if m = n then none else lookup l m := by
  induction l with
  | nil => simp [erase, lookup_nil]
  | cons p l ih =>
    unfold erase at ih ⊢
    by_cases hp : p.1 = n
    · simp only [List.filter_cons, hp, beq_self_eq_true, Bool.not_true, Bool.false_eq_true, if_false, ih, lookup_cons]
      by_cases hm : m = n
      · simp [hm]
      · have : ¬ n = m := fun h => hm h.symm
        simp [hm, this]
    · have : (!(p.1 == n)) = true := by simp [hp]
      simp only [List.filter_cons, this, if_true, lookup_cons, ih]
      by_cases hm : m = n
      · subst hm; simp [hp]
      · simp [hm]

theorem keys_map_setAt (l : List (Nat × α)) (n : Nat) (v : α) :
    (l.map (setAt n v)).map Prod.fst = l.map Prod.fst := by
  simp [List.map_map, Function.comp_def, setAt_fst]

theorem nodup_update (l : List (Nat × α)) (n : Nat) (v : α) (h : (l.map Prod.fst).Nodup) :
    ((update l n v).map Prod.fst).Nodup := by
  by_cases hn : n ∈ l.map Prod.fst
  · rw [update_of_mem l n v hn, keys_map_setAt]; exact h
  · rw [update_of_not_mem l n v hn, List.map_append, List.nodup_append]
    refine ⟨h, by simp, ?_⟩
    intro a ha b hb
    simp at hb; subst hb; intro hab; subst hab; exact hn ha

theorem nodup_erase (l : List (Nat × α)) (n : Nat) (h : (l.map Prod.fst).Nodup) :
    ((erase l n).map Prod.fst).Nodup := by
  unfold erase
  exact List.Nodup.sublist (List.Sublist.map _ List.filter_sublist) h

end Rain.Durable.Lemmas
