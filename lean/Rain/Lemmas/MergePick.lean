import Rain.Lemmas.MergeFind
import Rain.Lemmas.MergeSorted
/-
With every child positioned at the cut of a lower set `P`, `findSmallest` finds the least entry
outside `P`; with every child just before the cut, `findLargest` finds the greatest entry inside.
-/
namespace Rain.MergePick
open Rain Rain.Lsm Rain.Table Rain.Merge Rain.OrderIter Rain.Cut Rain.MergeFind

theorem mem_flatten_iff (children : List (List Entry)) (x : Entry) :
    x ∈ children.flatten ↔ ∃ i, i < children.length ∧ x ∈ children.getD i [] := by
  induction children with
  | nil => simp
  | cons l ls ih =>
    simp only [List.flatten_cons, List.mem_append, ih, List.length_cons]
    constructor
    · rintro (h | ⟨i, hi, h⟩)
      · exact ⟨0, by omega, by simpa using h⟩
      · exact ⟨i + 1, by omega, by simpa using h⟩
    · rintro ⟨i, hi, h⟩
      cases i with
      | zero => left; simpa using h
      | succ i => right; exact ⟨i, by omega, by simpa using h⟩

theorem mem_child_flatten {children : List (List Entry)} {i : Nat} {x : Entry}
    (h : x ∈ children.getD i []) : x ∈ children.flatten := by
  by_cases hi : i < children.length
  · exact (mem_flatten_iff children x).mpr ⟨i, hi, h⟩
  · simp [List.getD, List.getElem?_eq_none (Nat.le_of_not_lt hi)] at h

theorem child_sorted {children : List (List Entry)} (hs : ∀ c ∈ children, Sorted c) (i : Nat) :
    Sorted (children.getD i []) := by
  by_cases hi : i < children.length
  · simp only [List.getD, List.getElem?_eq_getElem hi, Option.getD_some]
    exact hs _ (List.getElem_mem hi)
  · simp [List.getD, List.getElem?_eq_none (Nat.le_of_not_lt hi), Sorted]

theorem key_inj_of_nodup {l : List Entry} (hd : (l.map Entry.key).Nodup) {x y : Entry}
    (hx : x ∈ l) (hy : y ∈ l) (h : x.key = y.key) : x = y := by
  induction l with
  | nil => simp at hx
  | cons a r ih =>
    simp only [List.map_cons, List.nodup_cons, List.mem_map, not_exists, not_and] at hd
    rcases List.mem_cons.mp hx with hx | hx <;> rcases List.mem_cons.mp hy with hy | hy
    · rw [hx, hy]
    · exact absurd (hx ▸ h).symm (hd.1 y hy)
    · exact absurd (hy ▸ h) (hd.1 x hx)
    · exact ih hd.2 hx hy

theorem keys_disjoint_lt {children : List (List Entry)} (hd : (children.flatten.map Entry.key).Nodup)
    {i j : Nat} (hij : i < j) {x y : Entry} (hx : x ∈ children.getD i []) (hy : y ∈ children.getD j []) :
    x.key ≠ y.key := by
  induction children generalizing i j with
  | nil => simp at hx
  | cons l ls ih =>
    simp only [List.flatten_cons, List.map_append, List.nodup_append] at hd
    cases j with
    | zero => omega
    | succ j =>
      have hy' : y ∈ ls.getD j [] := by simpa using hy
      cases i with
      | zero =>
        have hx' : x ∈ l := by simpa using hx
        exact hd.2.2 x.key (List.mem_map_of_mem hx') y.key (List.mem_map_of_mem (mem_child_flatten hy'))
      | succ i =>
        have hx' : x ∈ ls.getD i [] := by simpa using hx
        exact ih hd.2.1 (by omega) hx' hy'

theorem keys_disjoint {children : List (List Entry)} (hd : (children.flatten.map Entry.key).Nodup)
    {i j : Nat} (hij : i ≠ j) {x y : Entry} (hx : x ∈ children.getD i []) (hy : y ∈ children.getD j []) :
    x.key ≠ y.key := by
  rcases Nat.lt_or_gt_of_ne hij with h | h
  · exact keys_disjoint_lt hd h hx hy
  · exact fun e => keys_disjoint_lt hd h hy hx e.symm

theorem childKey_eq (children : List (List Entry)) (pos : List Nat) (i : Nat) :
    childKey children pos i = ((children.getD i [])[pos.getD i 0]?).map Entry.key := rfl

/-- forward: all children at the cut of `P` -/
theorem fwd_pick {children : List (List Entry)} (hs : ∀ c ∈ children, Sorted c)
    (hd : (children.flatten.map Entry.key).Nodup) {P : Entry → Bool} (hP : LowerSet P) {pos : List Nat}
    (hpos : ∀ i < children.length, pos.getD i 0 = cnt P (children.getD i [])) :
    (findSmallest children pos = none ∧ ∀ x ∈ children.flatten, P x = true) ∨
    (∃ c e, findSmallest children pos = some c ∧ c < children.length ∧
      (children.getD c [])[pos.getD c 0]? = some e ∧ P e = false ∧
      ∀ x ∈ children.flatten, (P x = true ↔ kLt x.key e.key = true)) := by
  have spec := findSmallest_spec children pos
  cases hf : findSmallest children pos with
  | none =>
    rw [hf] at spec
    left
    refine ⟨rfl, ?_⟩
    intro x hx
    obtain ⟨i, hi, hxi⟩ := (mem_flatten_iff children x).mp hx
    have := spec i hi
    rw [childKey_eq, hpos i hi] at this
    simp only [Option.map_eq_none_iff] at this
    exact (get_cnt_none hP (child_sorted hs i)).mp this x hxi
  | some c =>
    rw [hf] at spec
    right
    obtain ⟨hc, k, hk, hmin⟩ := spec
    rw [childKey_eq] at hk
    cases he : (children.getD c [])[pos.getD c 0]? with
    | none => rw [he] at hk; simp at hk
    | some e =>
      rw [he] at hk
      simp at hk
      subst hk
      refine ⟨c, e, rfl, hc, he, ?_⟩
      have he' := he
      rw [hpos c hc] at he'
      obtain ⟨g1, g2, g3, g4⟩ := get_cnt_some hP (child_sorted hs c) he'
      refine ⟨g2, ?_⟩
      intro x hx
      obtain ⟨i, hi, hxi⟩ := (mem_flatten_iff children x).mp hx
      constructor
      · intro hpx
        cases h1 : kLt x.key e.key
        · exfalso
          cases h2 : kLt e.key x.key
          · have := key_inj_of_nodup hd hx (mem_child_flatten g1) (kLt_total h1 h2)
            subst this; rw [g2] at hpx; simp at hpx
          · have := hP e x h2 hpx; rw [g2] at this; simp at this
        · rfl
      · intro hlt
        cases hpx : P x
        · exfalso
          cases hi2 : (children.getD i [])[cnt P (children.getD i [])]? with
          | none =>
            have := (get_cnt_none hP (child_sorted hs i)).mp hi2 x hxi
            rw [hpx] at this; simp at this
          | some ei =>
            obtain ⟨f1, f2, f3, f4⟩ := get_cnt_some hP (child_sorted hs i) hi2
            have hk : childKey children pos i = some ei.key := by
              rw [childKey_eq, hpos i hi, hi2]; rfl
            have hnot := hmin i hi _ hk
            rcases f3 x hxi hpx with rfl | h3
            · rw [hlt] at hnot; simp at hnot
            · rw [kLt_trans h3 hlt] at hnot; simp at hnot
        · rfl

/-- backward: all children just before the cut of `P` -/
theorem bwd_pick {children : List (List Entry)} (hs : ∀ c ∈ children, Sorted c)
    (hd : (children.flatten.map Entry.key).Nodup) {P : Entry → Bool} (hP : LowerSet P) {pos : List Nat}
    (hpos : ∀ i < children.length,
      pos.getD i 0 = predPos (cnt P (children.getD i [])) (children.getD i []).length) :
    (findLargest children pos = none ∧ ∀ x ∈ children.flatten, P x = false) ∨
    (∃ c e, findLargest children pos = some c ∧ c < children.length ∧
      (children.getD c [])[pos.getD c 0]? = some e ∧ P e = true ∧
      ∀ x ∈ children.flatten, (P x = false ↔ kLt e.key x.key = true)) := by
  have spec := findLargest_spec children pos
  cases hf : findLargest children pos with
  | none =>
    rw [hf] at spec
    left
    refine ⟨rfl, ?_⟩
    intro x hx
    obtain ⟨i, hi, hxi⟩ := (mem_flatten_iff children x).mp hx
    have := spec i hi
    rw [childKey_eq, hpos i hi] at this
    simp only [Option.map_eq_none_iff] at this
    exact (get_pred_none hP (child_sorted hs i)).mp this x hxi
  | some c =>
    rw [hf] at spec
    right
    obtain ⟨hc, k, hk, hmin⟩ := spec
    rw [childKey_eq] at hk
    cases he : (children.getD c [])[pos.getD c 0]? with
    | none => rw [he] at hk; simp at hk
    | some e =>
      rw [he] at hk
      simp at hk
      subst hk
      refine ⟨c, e, rfl, hc, he, ?_⟩
      have he' := he
      rw [hpos c hc] at he'
      obtain ⟨g1, g2, g3, g4⟩ := get_pred_some hP (child_sorted hs c) he'
      refine ⟨g2, ?_⟩
      intro x hx
      obtain ⟨i, hi, hxi⟩ := (mem_flatten_iff children x).mp hx
      constructor
      · intro hpx
        cases h1 : kLt e.key x.key
        · exfalso
          cases h2 : kLt x.key e.key
          · have := key_inj_of_nodup hd hx (mem_child_flatten g1) (kLt_total h2 h1)
            subst this; rw [g2] at hpx; simp at hpx
          · have := hP x e h2 g2; rw [hpx] at this; simp at this
        · rfl
      · intro hlt
        cases hpx : P x
        · rfl
        · exfalso
          cases hi2 : (children.getD i [])[predPos (cnt P (children.getD i [])) (children.getD i []).length]? with
          | none =>
            have := (get_pred_none hP (child_sorted hs i)).mp hi2 x hxi
            rw [hpx] at this; simp at this
          | some ei =>
            obtain ⟨f1, f2, f3, f4⟩ := get_pred_some hP (child_sorted hs i) hi2
            have hk : childKey children pos i = some ei.key := by
              rw [childKey_eq, hpos i hi, hi2]; rfl
            have hnot := hmin i hi _ hk
            rcases f3 x hxi hpx with rfl | h3
            · rw [hlt] at hnot; simp at hnot
            · rw [kLt_trans hlt h3] at hnot; simp at hnot

end Rain.MergePick
