import Rain.CacheKeys
namespace Rain.CacheKeys.Lemmas
open Rain.CacheKeys

/-- ids handed out so far are positive, at most the counter, and pairwise distinct by position -/
def Good (s : Cache × List Opened) : Prop :=
  (∀ t ∈ s.2, 0 < t.id ∧ t.id ≤ s.1.lastId) ∧ s.2.Pairwise (fun a b => a.id < b.id)

theorem good_step (s : Cache × List Opened) (a : Step) (h : Good s) : Good (step s a) := by
  obtain ⟨h1, h2⟩ := h
  cases a with
  | takeId =>
    refine ⟨?_, h2⟩
    intro t ht
    have := h1 t ht
    simp only [step, newId]
    omega
  | openTable i f =>
    simp only [step, newId]
    constructor
    · intro t ht
      rcases List.mem_append.mp ht with ht | ht
      · have := h1 t ht; simp only; omega
      · simp only [List.mem_singleton] at ht; subst ht; simp
    · rw [List.pairwise_append]
      refine ⟨h2, by simp, ?_⟩
      intro a ha b hb
      simp only [List.mem_singleton] at hb; subst hb
      have := h1 a ha
      simp only; omega

theorem good_run (s : Cache × List Opened) (steps : List Step) (h : Good s) : Good (run s steps) := by
  induction steps generalizing s with
  | nil => exact h
  | cons a rest ih => exact ih _ (good_step s a h)

end Rain.CacheKeys.Lemmas
