import Rain.LsmSpec
/-
Order facts for the LSM model: `bytesLt` and the internal-key order `kLt` are strict total
orders; `sortedE` is `List.Pairwise ikLt`.
-/
namespace Rain.Lsm.Lemmas
open Rain Rain.Lsm

/-! ### `cmpBytes` -/

theorem cmpBytes_eq_iff (a b : Bytes) : cmpBytes a b = .eq ↔ a = b := by
  induction a generalizing b with
  | nil => cases b <;> simp [cmpBytes]
  | cons x xs ih =>
    cases b with
    | nil => simp [cmpBytes]
    | cons y ys =>
      simp only [cmpBytes]
      split
      · rename_i h
        simp only [reduceCtorEq, List.cons.injEq, false_iff, not_and]
        intro hxy; subst hxy; omega
      · split
        · rename_i h1 h
          simp only [reduceCtorEq, List.cons.injEq, false_iff, not_and]
          intro hxy; subst hxy; omega
        · rename_i h1 h2
          have : x = y := UInt8.toNat_inj.mp (by omega)
          simp [ih, this]

theorem cmpBytes_gt_iff (a b : Bytes) : cmpBytes a b = .gt ↔ cmpBytes b a = .lt := by
  induction a generalizing b with
  | nil => cases b <;> simp [cmpBytes]
  | cons x xs ih =>
    cases b with
    | nil => simp [cmpBytes]
    | cons y ys =>
      simp only [cmpBytes]
      by_cases h1 : x.toNat < y.toNat
      · have h2 : ¬ y.toNat < x.toNat := by omega
        simp [h1, h2]
      · by_cases h2 : y.toNat < x.toNat
        · simp [h1, h2]
        · simp [h1, h2, ih]

theorem cmpBytes_lt_trans (a b c : Bytes) (h1 : cmpBytes a b = .lt) (h2 : cmpBytes b c = .lt) :
    cmpBytes a c = .lt := by
  induction a generalizing b c with
  | nil =>
    cases b with
    | nil => simp [cmpBytes] at h1
    | cons y ys =>
      cases c with
      | nil => simp [cmpBytes] at h2
      | cons z zs => simp [cmpBytes]
  | cons x xs ih =>
    cases b with
    | nil => simp [cmpBytes] at h1
    | cons y ys =>
      cases c with
      | nil => simp [cmpBytes] at h2
      | cons z zs =>
        simp only [cmpBytes] at h1 h2 ⊢
        by_cases hxy : x.toNat < y.toNat
        · by_cases hyz : y.toNat < z.toNat
          · have : x.toNat < z.toNat := by omega
            simp [this]
          · by_cases hzy : z.toNat < y.toNat
            · simp [hyz, hzy] at h2
            · have : x.toNat < z.toNat := by omega
              simp [this]
        · by_cases hyx : y.toNat < x.toNat
          · simp [hxy, hyx] at h1
          · simp only [hxy, hyx, if_false] at h1
            by_cases hyz : y.toNat < z.toNat
            · have : x.toNat < z.toNat := by omega
              simp [this]
            · by_cases hzy : z.toNat < y.toNat
              · simp [hyz, hzy] at h2
              · simp only [hyz, hzy, if_false] at h2
                have h3 : ¬ x.toNat < z.toNat := by omega
                have h4 : ¬ z.toNat < x.toNat := by omega
                simp only [h3, h4, if_false]
                exact ih _ _ h1 h2

/-! ### a strict total order given by a boolean `lt` -/

structure StrictTotal {α : Type} (lt : α → α → Bool) : Prop where
  irrefl : ∀ a, lt a a = false
  trans : ∀ a b c, lt a b = true → lt b c = true → lt a c = true
  tri : ∀ a b, lt a b = false → lt b a = false → a = b

namespace StrictTotal
variable {α : Type} {lt : α → α → Bool} (h : StrictTotal lt)
include h

theorem asymm {a b : α} (h1 : lt a b = true) : lt b a = false := by
  cases hb : lt b a with
  | false => rfl
  | true => have := h.trans a b a h1 hb; rw [h.irrefl] at this; cases this

theorem lt_of_lt_of_le {a b c : α} (h1 : lt a b = true) (h2 : lt c b = false) : lt a c = true := by
  cases hac : lt a c with
  | true => rfl
  | false =>
    cases hca : lt c a with
    | true => have := h.trans c a b hca h1; rw [h2] at this; cases this
    | false => have := h.tri a c hac hca; subst this; rw [h1] at h2; cases h2

theorem lt_of_le_of_lt {a b c : α} (h1 : lt b a = false) (h2 : lt b c = true) : lt a c = true := by
  cases hac : lt a c with
  | true => rfl
  | false =>
    cases hca : lt c a with
    | true => have := h.trans b c a h2 hca; rw [h1] at this; cases this
    | false => have := h.tri a c hac hca; subst this; rw [h2] at h1; cases h1

theorem le_trans {a b c : α} (h1 : lt b a = false) (h2 : lt c b = false) : lt c a = false := by
  cases hca : lt c a with
  | false => rfl
  | true => have := h.lt_of_lt_of_le hca h1; rw [h2] at this; cases this

theorem le_of_lt {a b : α} (h1 : lt a b = true) : lt b a = false := h.asymm h1

theorem ne_of_lt {a b : α} (h1 : lt a b = true) : a ≠ b := by
  intro e; subst e; rw [h.irrefl] at h1; cases h1

theorem lt_or_eq_of_le {a b : α} (h1 : lt b a = false) : lt a b = true ∨ a = b := by
  cases hab : lt a b with
  | true => exact Or.inl rfl
  | false => exact Or.inr (h.tri a b hab h1)

theorem total (a b : α) : lt a b = true ∨ a = b ∨ lt b a = true := by
  cases hab : lt a b with
  | true => exact Or.inl rfl
  | false =>
    cases hba : lt b a with
    | true => exact Or.inr (Or.inr rfl)
    | false => exact Or.inr (Or.inl (h.tri a b hab hba))

end StrictTotal

/-! ### `bytesLt` -/

theorem bytes_st : StrictTotal bytesLt where
  irrefl a := by
    have := (cmpBytes_eq_iff a a).mpr rfl
    simp [bytesLt, this]
  trans a b c h1 h2 := by
    simp only [bytesLt, beq_iff_eq] at h1 h2 ⊢
    exact cmpBytes_lt_trans a b c h1 h2
  tri a b h1 h2 := by
    simp only [bytesLt, beq_eq_false_iff_ne, ne_eq] at h1 h2
    cases hc : cmpBytes a b with
    | lt => exact absurd hc h1
    | eq => exact (cmpBytes_eq_iff a b).mp hc
    | gt => exact absurd ((cmpBytes_gt_iff a b).mp hc) h2

/-! ### `kLt` -/

theorem kLt_def (a b : Bytes × Nat) :
    kLt a b = true ↔ bytesLt a.1 b.1 = true ∨ (a.1 = b.1 ∧ b.2 < a.2) := by
  simp [kLt]

theorem kLt_false (a b : Bytes × Nat) :
    kLt a b = false ↔ bytesLt a.1 b.1 = false ∧ (a.1 = b.1 → a.2 ≤ b.2) := by
  simp [kLt]

theorem k_st : StrictTotal kLt where
  irrefl a := by
    rw [kLt_false]; exact ⟨bytes_st.irrefl _, fun _ => Nat.le_refl _⟩
  trans a b c h1 h2 := by
    rw [kLt_def] at h1 h2 ⊢
    rcases h1 with h1 | ⟨e1, l1⟩ <;> rcases h2 with h2 | ⟨e2, l2⟩
    · exact Or.inl (bytes_st.trans _ _ _ h1 h2)
    · rw [← e2]; exact Or.inl h1
    · rw [e1]; exact Or.inl h2
    · exact Or.inr ⟨e1.trans e2, by omega⟩
  tri a b h1 h2 := by
    rw [kLt_false] at h1 h2
    have e := bytes_st.tri _ _ h1.1 h2.1
    have l1 := h1.2 e
    have l2 := h2.2 e.symm
    cases a; cases b; simp at e; subst e; simp; omega

/-- `kLt a b` forces the user keys to be weakly ordered -/
theorem kLt_fst_le {a b : Bytes × Nat} (h : kLt a b = true) : bytesLt b.1 a.1 = false := by
  rw [kLt_def] at h
  rcases h with h | ⟨e, _⟩
  · exact bytes_st.asymm h
  · rw [e]; exact bytes_st.irrefl _

theorem kLe_fst_le {a b : Bytes × Nat} (h : kLt b a = false) : bytesLt b.1 a.1 = false := by
  rw [kLt_false] at h; exact h.1

/-- same user key: the order is by descending sequence number -/
theorem kLt_same {k : Bytes} {x y : Nat} : kLt (k, x) (k, y) = true ↔ y < x := by
  rw [kLt_def]; simp [bytes_st.irrefl]

theorem kLt_same' {a b : Bytes × Nat} (e : a.1 = b.1) : kLt a b = true ↔ b.2 < a.2 := by
  rw [kLt_def]; rw [e]; simp [bytes_st.irrefl]

theorem kLt_of_fst_lt {a b : Bytes × Nat} (h : bytesLt a.1 b.1 = true) : kLt a b = true := by
  rw [kLt_def]; exact Or.inl h

/-- sandwich: `a < b < c` with `a` and `c` on the same user key puts `b` on it too -/
theorem kLt_sandwich {a b c : Bytes × Nat} (h1 : kLt a b = true) (h2 : kLt b c = true)
    (e : a.1 = c.1) : b.1 = a.1 := by
  have l1 := kLt_fst_le h1
  have l2 := kLt_fst_le h2
  rw [← e] at l2
  exact bytes_st.tri _ _ l1 l2

theorem kLe_sandwich {a b c : Bytes × Nat} (h1 : kLt b a = false) (h2 : kLt c b = false)
    (e : a.1 = c.1) : b.1 = a.1 := by
  have l1 := kLe_fst_le h1
  have l2 := kLe_fst_le h2
  rw [← e] at l2
  exact bytes_st.tri _ _ l1 l2

/-! ### entries -/

/-- strictly sorted by internal key -/
def Sorted (es : List Entry) : Prop := es.Pairwise (fun a b => ikLt a b = true)

theorem ikLt_trans {a b c : Entry} (h1 : ikLt a b = true) (h2 : ikLt b c = true) : ikLt a c = true :=
  k_st.trans _ _ _ h1 h2

theorem sortedE_iff (es : List Entry) : sortedE es = true ↔ Sorted es := by
  unfold Sorted
  induction es with
  | nil => simp [sortedE]
  | cons a rest ih =>
    cases rest with
    | nil => simp [sortedE]
    | cons b rest =>
      simp only [sortedE, Bool.and_eq_true, ih]
      constructor
      · rintro ⟨hab, hp⟩
        refine List.Pairwise.cons ?_ hp
        intro x hx
        rcases List.mem_cons.mp hx with rfl | hx
        · exact hab
        · exact ikLt_trans hab (List.rel_of_pairwise_cons hp hx)
      · intro hp
        exact ⟨List.rel_of_pairwise_cons hp (List.mem_cons_self ..), (List.pairwise_cons.mp hp).2⟩

theorem Sorted.key_inj {es : List Entry} (h : Sorted es) {a b : Entry} (ha : a ∈ es) (hb : b ∈ es)
    (e : a.key = b.key) : a = b := by
  induction es with
  | nil => cases ha
  | cons x rest ih =>
    have hp := List.pairwise_cons.mp h
    rcases List.mem_cons.mp ha with rfl | ha' <;> rcases List.mem_cons.mp hb with rfl | hb'
    · rfl
    · have := hp.1 _ hb'; unfold ikLt at this; rw [e, k_st.irrefl] at this; cases this
    · have := hp.1 _ ha'; unfold ikLt at this; rw [e, k_st.irrefl] at this; cases this
    · exact ih hp.2 ha' hb'

end Rain.Lsm.Lemmas
