import Rain.Lemmas.TableBasic
/-
`Table::get` against the flat specification; the position `seek` reaches; the builder's partition.
-/
namespace Rain.Table.Lemmas
open Rain Rain.Lsm Rain.Block Rain.Table Rain.Order Rain.Block.Lemmas

/-- answer read off the entry a seek lands on -/
def ans (o : Option Entry) (k : Bytes) : Lookup :=
  match o with
  | some e => if e.ukey == k then (if e.put then .found e.val else .deleted) else .absent
  | none => .absent

theorem lookupSorted_eq (es : List Entry) (k : Bytes) (snap : Nat) :
    lookupSorted es k snap = ans (es.find? (fun e => !kLt e.key (k, snap))) k := rfl

theorem tableGet_eq (filt : Nat → Bytes → Bool) (t : Table) (k : Bytes) (snap : Nat) :
    tableGet filt t k snap =
      if t.index.length ≤ lowerBound t.index (k, snap) then .absent else
      if !filt (lowerBound t.index (k, snap)) k then .absent else
      ans ((t.blocks.getD (lowerBound t.index (k, snap)) [])[lowerBound
        ((t.blocks.getD (lowerBound t.index (k, snap)) []).map Entry.key) (k, snap)]?) k := rfl

theorem tableGet_shift (filt : Nat → Bytes → Bool) (b : List Entry) (rest : List (List Entry))
    (ik : Bytes × Nat) (idx : List (Bytes × Nat)) (k : Bytes) (snap : Nat)
    (h : kLt ik (k, snap) = true) :
    tableGet filt ⟨b :: rest, ik :: idx⟩ k snap =
      tableGet (fun i => filt (i + 1)) ⟨rest, idx⟩ k snap := by
  simp only [tableGet_eq, lowerBound, h, if_true, List.length_cons, Nat.add_le_add_iff_right,
    List.getD_cons_succ]

theorem tableGet_here (filt : Nat → Bytes → Bool) (b : List Entry) (rest : List (List Entry))
    (ik : Bytes × Nat) (idx : List (Bytes × Nat)) (k : Bytes) (snap : Nat)
    (h : kLt ik (k, snap) = false) :
    tableGet filt ⟨b :: rest, ik :: idx⟩ k snap =
      if !filt 0 k then .absent else ans (b[lowerBound (b.map Entry.key) (k, snap)]?) k := by
  simp [tableGet_eq, lowerBound, h]

theorem table_get_ind (blocks : List (List Entry)) (hne : ∀ b ∈ blocks, b ≠ [])
    (hp : blocks.flatten.Pairwise ELt) (filt : Nat → Bytes → Bool)
    (hfilt : ∀ i b, blocks[i]? = some b → ∀ e ∈ b, filt i e.ukey = true) (k : Bytes) (snap : Nat) :
    tableGet filt (mkTable blocks) k snap = lookupSorted blocks.flatten k snap := by
  induction blocks generalizing filt with
  | nil => simp [tableGet_eq, mkTable, indexKeys, lowerBound, lookupSorted_eq, ans]
  | cons b rest ih =>
    have hb : b ≠ [] := hne b List.mem_cons_self
    have hrest : ∀ c ∈ rest, c ≠ [] := fun c hc => hne c (List.mem_cons_of_mem _ hc)
    simp only [List.flatten_cons] at hp ⊢
    obtain ⟨ik, hidx, ha, hbb, hc⟩ := index_head b rest hb hrest hp
    have hpr := (List.pairwise_append.mp hp).2.1
    simp only [mkTable, hidx]
    rw [lookupSorted_eq, List.find?_append]
    cases hik : kLt ik (k, snap) with
    | true =>
      rw [tableGet_shift _ _ _ _ _ _ _ hik]
      have := ih hrest hpr (fun i => filt (i + 1))
        (fun i c hi e he => hfilt (i + 1) c (by simpa using hi) e he)
      simp only [mkTable] at this
      rw [this, lookupSorted_eq]
      have hnone : b.find? (fun e => !kLt e.key (k, snap)) = none := by
        rw [List.find?_eq_none]
        intro e he
        have := k_le_lt (ha e he) hik
        simp [this]
      rw [hnone]; rfl
    | false =>
      rw [tableGet_here _ _ _ _ _ _ _ hik, find_eq_lb b]
      by_cases hj : lowerBound (b.map Entry.key) (k, snap) < b.length
      · have hsome : b[lowerBound (b.map Entry.key) (k, snap)]? =
            some (b[lowerBound (b.map Entry.key) (k, snap)]) := List.getElem?_eq_getElem hj
        rw [hsome]
        simp only [Option.some_or]
        cases hf : filt 0 k with
        | true => simp
        | false =>
          have hmem : b[lowerBound (b.map Entry.key) (k, snap)] ∈ b := List.getElem_mem hj
          have := hfilt 0 b (by simp) _ hmem
          have hne' : b[lowerBound (b.map Entry.key) (k, snap)].ukey ≠ k := by
            intro heq; rw [heq, hf] at this; cases this
          simp [ans, hne']
      · have hjeq : lowerBound (b.map Entry.key) (k, snap) = b.length := by
          have := lb_le (b.map Entry.key) (k, snap)
          simp only [List.length_map] at this
          omega
        have hall : ∀ e ∈ b, kLt e.key (k, snap) = true := by
          intro e he
          exact lb_all_of_eq (by simpa using hjeq) e.key (List.mem_map_of_mem he)
        have hnone : b[lowerBound (b.map Entry.key) (k, snap)]? = none := by
          rw [hjeq]; simp
        rw [hnone]
        simp only [Option.none_or]
        have hR : ans (rest.flatten.find? (fun e => !kLt e.key (k, snap))) k = .absent := by
          cases hfnd : rest.flatten.find? (fun e => !kLt e.key (k, snap)) with
          | none => rfl
          | some e =>
            have hmem := List.mem_of_find?_eq_some hfnd
            have := hc (k, snap) hall hik e hmem
            simp [ans, this]
        rw [hR]
        simp [ans]

/-! ### where `seek` lands -/

theorem seek_core (blocks : List (List Entry)) (hne : ∀ b ∈ blocks, b ≠ [])
    (hp : blocks.flatten.Pairwise ELt) (t : Bytes × Nat) :
    (blocks.length ≤ lowerBound (indexKeys blocks) t →
      lowerBound (blocks.flatten.map Entry.key) t = blocks.flatten.length) ∧
    (lowerBound (indexKeys blocks) t < blocks.length →
      lowerBound (blocks.flatten.map Entry.key) t =
        offs blocks (lowerBound (indexKeys blocks) t) +
          lowerBound ((blocks.getD (lowerBound (indexKeys blocks) t) []).map Entry.key) t) := by
  induction blocks with
  | nil => simp [lowerBound]
  | cons b rest ih =>
    have hb : b ≠ [] := hne b List.mem_cons_self
    have hrest : ∀ c ∈ rest, c ≠ [] := fun c hc => hne c (List.mem_cons_of_mem _ hc)
    simp only [List.flatten_cons] at hp ⊢
    obtain ⟨ik, hidx, ha, hbb, _⟩ := index_head b rest hb hrest hp
    have hpr := (List.pairwise_append.mp hp).2.1
    obtain ⟨ih1, ih2⟩ := ih hrest hpr
    rw [hidx, List.map_append]
    cases hik : kLt ik t with
    | true =>
      have hall : ∀ k ∈ b.map Entry.key, kLt k t = true := by
        intro k hk
        obtain ⟨e, he, rfl⟩ := List.mem_map.mp hk
        exact k_le_lt (ha e he) hik
      rw [lb_append_all _ hall]
      simp only [lowerBound, hik, if_true, List.length_cons, Nat.add_le_add_iff_right,
        Nat.add_lt_add_iff_right, List.getD_cons_succ, offs, List.length_append, List.length_map]
      constructor
      · intro h; rw [ih1 h]
      · intro h; rw [ih2 h]; omega
    | false =>
      simp only [lowerBound, hik, Bool.false_eq_true, if_false, List.length_cons,
        List.getD_cons_zero, offs, Nat.zero_add]
      constructor
      · intro h; omega
      · intro _
        by_cases hj : lowerBound (b.map Entry.key) t < (b.map Entry.key).length
        · exact lb_append_lt _ hj
        · have hjeq : lowerBound (b.map Entry.key) t = (b.map Entry.key).length := by
            have := lb_le (b.map Entry.key) t; omega
          rw [lb_append_all _ (lb_all_of_eq hjeq), hjeq]
          have : lowerBound (rest.flatten.map Entry.key) t = 0 := by
            cases hfl : rest.flatten with
            | nil => rfl
            | cons e es =>
              have h1 : kLt ik e.key = true := hbb e (by rw [hfl]; simp)
              have h2 : kLt e.key t = false := by
                cases hh : kLt e.key t with
                | false => rfl
                | true => rw [kLt_trans h1 hh] at hik; cases hik
              simp [lowerBound, h2]
          rw [this]; rfl

/-! ### the builder's partition -/

theorem partLoop_ok (maxBlock r : Nat) (es : List Entry) (b : Builder) (cur : List Entry) :
    (partLoop maxBlock r b cur es).flatten = cur.reverse ++ es ∧
    ∀ blk ∈ partLoop maxBlock r b cur es, blk ≠ [] := by
  induction es generalizing b cur with
  | nil =>
    cases cur with
    | nil => simp [partLoop]
    | cons c cs => simp [partLoop]
  | cons e rest ih =>
    simp only [partLoop]
    split
    · next hcond =>
      have hcur : cur ≠ [] := by
        intro h; subst h; simp at hcond
      obtain ⟨h1, h2⟩ := ih (addEntry r {} (encodeKey e) e.val) [e]
      constructor
      · simp [h1]
      · intro blk hblk
        rcases List.mem_cons.mp hblk with rfl | hblk
        · simpa using hcur
        · exact h2 blk hblk
    · obtain ⟨h1, h2⟩ := ih (addEntry r b (encodeKey e) e.val) (e :: cur)
      exact ⟨by simp [h1], h2⟩

end Rain.Table.Lemmas
