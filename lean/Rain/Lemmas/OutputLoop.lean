import Rain.OutputLoop
import Rain.Pick
/-
Helper lemmas for `Rain/Props/OutputLoop.lean`.
-/
namespace Rain.OutputLoop.Lemmas
open Rain Rain.Lsm Rain.OutputLoop

variable {σ : Type}

/-- what holds between two iterations: finished outputs are non-empty, and so is an open one -/
structure Good (s : CState σ) : Prop where
  outs : ∀ o ∈ s.outputs, o ≠ []
  open_ : ∀ es, s.builder = some es → es ≠ []

/-- everything written so far, in order -/
def acc (s : CState σ) : List Entry := s.outputs.flatten ++ s.builder.getD []

theorem good_init (g : σ) : Good (CState.init g) :=
  ⟨fun _ h => by simp [CState.init] at h, fun _ h => by simp [CState.init] at h⟩

theorem dropLoop_cons (q : Nat) (isBase : Bytes → Bool) (prev : Option (Bytes × Nat)) (e : Entry)
    (rest : List Entry) :
    dropLoop q isBase prev (e :: rest) =
      (if dropEntry q isBase prev e then [] else [e]) ++
        dropLoop q isBase (some (e.ukey, e.seq)) rest := by
  show (if dropEntry q isBase prev e = true then dropLoop q isBase (some (e.ukey, e.seq)) rest
      else e :: dropLoop q isBase (some (e.ukey, e.seq)) rest) = _
  split <;> simp

theorem good_closed {outs : List (List Entry)} {es : List Entry} {g : σ} {p : Option (Bytes × Nat)}
    (ho : ∀ o ∈ outs, o ≠ []) (he : es ≠ []) :
    Good ({ builder := none, outputs := outs ++ [es], gp := g, prev := p } : CState σ) := by
  refine ⟨?_, fun _ hc => by cases hc⟩
  intro o hm
  rcases List.mem_append.mp hm with h1 | h1
  · exact ho o h1
  · rw [List.mem_singleton.mp h1]; exact he

theorem good_open {outs : List (List Entry)} {es : List Entry} {g : σ} {p : Option (Bytes × Nat)}
    (ho : ∀ o ∈ outs, o ≠ []) (he : es ≠ []) :
    Good ({ builder := some es, outputs := outs, gp := g, prev := p } : CState σ) := by
  refine ⟨ho, ?_⟩
  intro es' h
  simp only [Option.some.injEq] at h
  rw [← h]; exact he

theorem askStop_spec (stop : σ → Entry → Bool × σ) (s : CState σ) (e : Entry) (h : Good s) :
    ∃ s1, askStop stop s e = some s1 ∧ Good s1 ∧ acc s1 = acc s ∧ s1.prev = s.prev := by
  obtain ⟨b, outs, g, p⟩ := s
  cases b with
  | none => exact ⟨_, rfl, h, rfl, rfl⟩
  | some es =>
    have he : es ≠ [] := h.open_ es rfl
    simp only [askStop]
    split
    · exact ⟨_, rfl, good_closed h.outs he, by simp [acc], rfl⟩
    · exact ⟨_, rfl, good_open h.outs he, rfl, rfl⟩

theorem addEntry_spec (full : List Entry → Bool) (s : CState σ) (e : Entry) (h : Good s) :
    ∃ s', addEntry full s e = some s' ∧ Good s' ∧ acc s' = acc s ++ [e] ∧ s'.prev = s.prev := by
  obtain ⟨b, outs, g, p⟩ := s
  cases b with
  | none =>
    simp only [addEntry, openOutput, Option.bind_some, List.nil_append]
    split
    · exact ⟨_, rfl, good_closed h.outs (by simp), by simp [acc], rfl⟩
    · exact ⟨_, rfl, good_open h.outs (by simp), by simp [acc], rfl⟩
  | some es =>
    simp only [addEntry, Option.bind_some]
    split
    · exact ⟨_, rfl, good_closed h.outs (by simp), by simp [acc], rfl⟩
    · exact ⟨_, rfl, good_open h.outs (by simp), by simp [acc], rfl⟩

theorem stepEntry_spec (stop : σ → Entry → Bool × σ) (full : List Entry → Bool) (q : Nat)
    (isBase : Bytes → Bool) (s : CState σ) (e : Entry) (h : Good s) :
    ∃ s', stepEntry stop full q isBase s e = some s' ∧ Good s' ∧
      s'.prev = some (e.ukey, e.seq) ∧
      acc s' = acc s ++ (if dropEntry q isBase s.prev e then [] else [e]) := by
  obtain ⟨s1, h1, g1, a1, p1⟩ := askStop_spec stop s e h
  unfold stepEntry
  rw [h1]
  simp only [Option.bind_some, p1]
  split
  · exact ⟨_, rfl, ⟨g1.outs, g1.open_⟩, rfl, by simp [acc] at a1 ⊢; exact a1⟩
  · obtain ⟨s', h2, g2, a2, p2⟩ := addEntry_spec full { s1 with prev := some (e.ukey, e.seq) } e
      ⟨g1.outs, g1.open_⟩
    refine ⟨s', h2, g2, p2, ?_⟩
    rw [a2]
    show acc s1 ++ [e] = _
    rw [a1]

theorem loop_spec (stop : σ → Entry → Bool × σ) (full : List Entry → Bool) (q : Nat)
    (isBase : Bytes → Bool) (es : List Entry) (s : CState σ) (h : Good s) :
    ∃ s', loop stop full q isBase s es = some s' ∧ Good s' ∧
      acc s' = acc s ++ dropLoop q isBase s.prev es := by
  induction es generalizing s with
  | nil => exact ⟨s, rfl, h, by simp [dropLoop]⟩
  | cons e rest ih =>
    obtain ⟨s1, h1, g1, p1, a1⟩ := stepEntry_spec stop full q isBase s e h
    obtain ⟨s', h2, g2, a2⟩ := ih s1 g1
    refine ⟨s', ?_, g2, ?_⟩
    · simp only [loop, h1]; exact h2
    · rw [a2, a1, p1, dropLoop_cons, List.append_assoc]

theorem finishAll_spec (s : CState σ) (h : Good s) :
    ∃ s', finishAll s = some s' ∧ s'.outputs.flatten = acc s ∧ ∀ o ∈ s'.outputs, o ≠ [] := by
  obtain ⟨b, outs, g, p⟩ := s
  cases b with
  | none => exact ⟨_, rfl, by simp [acc], h.outs⟩
  | some es =>
    exact ⟨_, rfl, by simp [acc], (good_closed (g := g) (p := p) h.outs (h.open_ es rfl)).outs⟩

end Rain.OutputLoop.Lemmas
