import Rain.FileNames
/-
Helper lemmas for `Rain/Props/FileNames.lean`.
-/
namespace Rain.FileNames.Lemmas
open Rain.FileNames Rain.Gen

/-! ### digits -/

theorem digits_lt (n : Nat) (h : n < 10) : digits n = [48 + n] := by
  rw [digits]; simp [h]

theorem digits_ge (n : Nat) (h : ¬ n < 10) : digits n = digits (n / 10) ++ [48 + n % 10] := by
  rw [digits]; simp [h]

theorem digits_all (n : Nat) : ∀ c ∈ digits n, 48 ≤ c ∧ c ≤ 57 := by
  induction n using Nat.strongRecOn with
  | _ n ih =>
    intro c hc
    by_cases h : n < 10
    · rw [digits_lt n h] at hc
      simp only [List.mem_singleton] at hc
      omega
    · rw [digits_ge n h, List.mem_append] at hc
      cases hc with
      | inl hc => exact ih (n / 10) (by omega) c hc
      | inr hc =>
        simp only [List.mem_singleton] at hc
        omega

theorem digits_ne_nil (n : Nat) : digits n ≠ [] := by
  by_cases h : n < 10
  · rw [digits_lt n h]; simp
  · rw [digits_ge n h]; simp

theorem dot_not_mem_digits (n : Nat) : dot ∉ digits n := by
  intro h
  have := digits_all n dot h
  simp [dot] at this

theorem valueFrom_snoc (l : List Nat) (acc d : Nat) (hd : d < 10) :
    valueFrom acc (l ++ [48 + d]) = (valueFrom acc l).map (fun v => v * 10 + d) := by
  induction l generalizing acc with
  | nil =>
    have : isDigit (48 + d) = true := by simp [isDigit]; omega
    simp [valueFrom, this]
  | cons c cs ih =>
    simp only [List.cons_append, valueFrom]
    split
    · exact ih _
    · rfl

theorem valueFrom_digits (n : Nat) : valueFrom 0 (digits n) = some n := by
  induction n using Nat.strongRecOn with
  | _ n ih =>
    by_cases h : n < 10
    · rw [digits_lt n h]
      have : isDigit (48 + n) = true := by simp [isDigit]; omega
      simp [valueFrom, this]
    · rw [digits_ge n h, valueFrom_snoc _ _ _ (Nat.mod_lt _ (by omega)), ih (n / 10) (by omega)]
      simp only [Option.map_some, Option.some.injEq]
      omega

theorem parseU64_digits (n : Nat) (h : n < U64) : parseU64 (digits n) = some n := by
  have hne := digits_ne_nil n
  have hall := digits_all n
  unfold parseU64
  cases hd : digits n with
  | nil => exact absurd hd hne
  | cons c rest =>
    have hc : c ≠ plus := by
      have := hall c (by rw [hd]; simp)
      simp [plus]; omega
    simp only [hc, if_false]
    rw [← hd, valueFrom_digits]
    simp [h]

/-! ### prefixes -/

theorem stripPrefix_append (p s : Name) : stripPrefix p (p ++ s) = some s := by
  induction p with
  | nil => cases s <;> rfl
  | cons c cs ih => simp [stripPrefix, ih]

/-! ### the last dot -/

theorem rsplitDot_none (s : Name) (h : dot ∉ s) : rsplitDot s = none := by
  induction s with
  | nil => rfl
  | cons c cs ih =>
    have h1 : c ≠ dot := by intro e; exact h (by simp [e])
    have h2 : dot ∉ cs := by intro e; exact h (by simp [e])
    simp [rsplitDot, ih h2, h1]

theorem rsplitDot_last (a b : Name) (hb : dot ∉ b) : rsplitDot (a ++ dot :: b) = some (a, b) := by
  induction a with
  | nil => simp [rsplitDot, rsplitDot_none b hb]
  | cons c cs ih => simp [rsplitDot, ih]

theorem stemExt_no_dot (s : Name) (h : dot ∉ s) : stemExt s = (s, none) := by
  unfold stemExt
  have : s ≠ [dot, dot] := by intro e; exact h (by simp [e])
  simp [this, rsplitDot_none s h]

theorem stemExt_last (a b : Name) (ha : a ≠ []) (had : dot ∉ a) (hb : dot ∉ b) :
    stemExt (a ++ dot :: b) = (a, some b) := by
  unfold stemExt
  have hne : a ++ dot :: b ≠ [dot, dot] := by
    intro e
    cases a with
    | nil => exact ha rfl
    | cons c cs =>
      simp only [List.cons_append, List.cons.injEq] at e
      exact had (by simp [e.1])
  rw [if_neg hne, rsplitDot_last a b hb]
  cases a with
  | nil => exact absurd rfl ha
  | cons c cs => rfl

/-- a formatted name: prefix without a dot, digits, a dot, an extension without a dot -/
theorem setExtension_fmt (pre ext : Name) (n : Nat) (hp : dot ∉ pre) :
    setExtension (pre ++ digits n) ext = (pre ++ digits n) ++ dot :: ext := by
  have : dot ∉ pre ++ digits n := by
    simp only [List.mem_append, not_or]
    exact ⟨hp, dot_not_mem_digits n⟩
  simp [setExtension, stemExt_no_dot _ this]

theorem stemExt_fmt (pre ext : Name) (n : Nat) (hp : dot ∉ pre) (he : dot ∉ ext) :
    stemExt (setExtension (pre ++ digits n) ext) = (pre ++ digits n, some ext) := by
  rw [setExtension_fmt pre ext n hp]
  apply stemExt_last _ _ _ _ he
  · simp [digits_ne_nil]
  · simp only [List.mem_append, not_or]
    exact ⟨hp, dot_not_mem_digits n⟩

theorem fmt_ne_of_no_dot (pre ext c : Name) (n : Nat) (hp : dot ∉ pre) (hc : dot ∉ c) :
    setExtension (pre ++ digits n) ext ≠ c := by
  rw [setExtension_fmt pre ext n hp]
  intro e
  apply hc
  rw [← e]
  simp

/-! ### facts about the extracted literals (they fail to check if the source's literals change in
a way that breaks the scheme) -/

theorem lit_no_dot : dot ∉ FN_WAL_FMT_PREFIX ∧ dot ∉ FN_MANIFEST_FMT_PREFIX ∧ dot ∉ FN_WAL_EXT ∧
    dot ∉ FN_TABLE_EXT ∧ dot ∉ FN_MANIFEST_EXT ∧ dot ∉ FN_TEMP_EXT ∧ dot ∉ FN_CURRENT_FILE ∧
    dot ∉ FN_LOCK_FILE := by decide

theorem lit_prefixes : FN_WAL_PARSE_PREFIX = FN_WAL_FMT_PREFIX ∧
    FN_MANIFEST_PARSE_PREFIX = FN_MANIFEST_FMT_PREFIX ∧ FN_TABLE_PARSE_PREFIX = [] ∧
    FN_TEMP_PARSE_PREFIX = [] := by decide

theorem lit_exts : FN_WAL_EXT ≠ FN_MANIFEST_EXT ∧ FN_TABLE_EXT ≠ FN_MANIFEST_EXT ∧
    FN_TABLE_EXT ≠ FN_WAL_EXT ∧ FN_TEMP_EXT ≠ FN_MANIFEST_EXT ∧ FN_TEMP_EXT ≠ FN_WAL_EXT ∧
    FN_TEMP_EXT ≠ FN_TABLE_EXT ∧ FN_CURRENT_FILE ≠ FN_LOCK_FILE := by decide

/-! ### helpers of the property theorems -/

theorem parse_fmt (pre ext : Name) (n : Nat) (hp : dot ∉ pre) (he : dot ∉ ext) :
    setExtension (pre ++ digits n) ext ≠ FN_CURRENT_FILE ∧
    setExtension (pre ++ digits n) ext ≠ FN_LOCK_FILE ∧
    stemExt (setExtension (pre ++ digits n) ext) = (pre ++ digits n, some ext) :=
  ⟨fmt_ne_of_no_dot pre ext _ n hp lit_no_dot.2.2.2.2.2.2.1,
   fmt_ne_of_no_dot pre ext _ n hp lit_no_dot.2.2.2.2.2.2.2,
   stemExt_fmt pre ext n hp he⟩

theorem no_dot_nil : dot ∉ ([] : Name) := by simp

theorem filter_map_names (l : List Nat) (f : Nat → Name) (p : Name → Bool) (q : Nat → Bool)
    (h : ∀ n ∈ l, p (f n) = q n) : (l.map f).filter p = (l.filter q).map f := by
  induction l with
  | nil => rfl
  | cons a as ih =>
    have ha := h a (by simp)
    have := ih (fun n hn => h n (by simp [hn]))
    simp only [List.map_cons, List.filter_cons, ha, this]
    split <;> simp

theorem filterMap_ite_eq_filter (m : Nat) (l : List Nat) :
    l.filterMap (fun n => if m ≤ n then some n else none) = l.filter (fun n => decide (m ≤ n)) := by
  induction l with
  | nil => rfl
  | cons a as ih => by_cases h : m ≤ a <;> simp [h, ih]

theorem logs_append (m : Nat) (a b : List Name) :
    logsToRecover m (a ++ b) = logsToRecover m a ++ logsToRecover m b := by
  simp [logsToRecover, List.filterMap_append]

theorem logs_map (m : Nat) (l : List Nat) (f : Nat → Name) (g : Nat → Option Nat)
    (h : ∀ n ∈ l, walToReplay m (f n) = g n) :
    logsToRecover m (l.map f) = l.filterMap g := by
  induction l with
  | nil => rfl
  | cons a as ih =>
    have ha := h a (by simp)
    have := ih (fun n hn => h n (by simp [hn]))
    simp only [logsToRecover, List.map_cons, List.filterMap_cons] at this ⊢
    rw [ha, this]

theorem present_map (l : List Nat) (f : Nat → Name) (h : ∀ n ∈ l, (parse (f n)).bind numberOf = some n) :
    presentNumbers (l.map f) = l := by
  induction l with
  | nil => rfl
  | cons a as ih =>
    have ha := h a (by simp)
    have := ih (fun n hn => h n (by simp [hn]))
    simp only [presentNumbers, List.map_cons, List.filterMap_cons, ha] at this ⊢
    rw [this]

end Rain.FileNames.Lemmas
