import Rain.Group
/-
Group commit formation (`Rain/Group.lean`): what the follower loop returns (`Stop`), how the result
depends on writers that arrive later (`loop_append_*`), and the same facts for `build` with queue
indices.
-/
namespace Rain.Group.Lemmas
open Rain.Group

/-- sum of sizes -/
def sizeSum (ws : List Writer) : Nat := (ws.map Writer.size).sum

@[simp] theorem sizeSum_nil : sizeSum [] = 0 := rfl

@[simp] theorem sizeSum_cons (w : Writer) (ws : List Writer) :
    sizeSum (w :: ws) = w.size + sizeSum ws := by
  simp [sizeSum]

/-- What the loop returns when started at queue index `idx` with accumulator `acc`: it took `k`
followers and stopped for one of the listed reasons.  `ls` is the leader's flag. -/
structure Stop (ls : Bool) (cap : Nat) (rest : List Writer) (idx : Nat) (acc r : Result)
    (k : Nat) : Prop where
  le : k ≤ rest.length
  members : r.members = acc.members + k
  total : r.total = acc.total + sizeSum (rest.take k)
  /-- the followers taken have a batch and are not synchronous behind a non-synchronous leader -/
  taken : ∀ j w, j < k → rest[j]? = some w → w.hasBatch = true ∧ (w.sync = true → ls = true)
  /-- a follower is only taken while the sum stays within the cap -/
  within : k = 0 ∨ r.total ≤ cap
  /-- the loop stops: out of writers / a synchronous follower behind a non-synchronous leader / a
  follower that would exceed the cap — `last_writer` is the last member; or a batch-less
  follower, which becomes `last_writer` -/
  stop :
    (r.last + 1 = idx + k ∧
      (k = rest.length ∨
        ∃ w, rest[k]? = some w ∧
          ((w.sync = true ∧ ls = false) ∨
            ((w.sync = true → ls = true) ∧ w.hasBatch = true ∧ r.total + w.size > cap)))) ∨
    (r.last = idx + k ∧
      ∃ w, rest[k]? = some w ∧ w.hasBatch = false ∧ (w.sync = true → ls = true))

theorem loop_stop (ls : Bool) (cap : Nat) (rest : List Writer) :
    ∀ (idx : Nat) (acc : Result), acc.last + 1 = idx →
      ∃ k, Stop ls cap rest idx acc (loop ls cap rest idx acc) k := by
  induction rest with
  | nil =>
    intro idx acc h
    exact ⟨0, by simp, by simp [loop], by simp [loop], by simp, .inl rfl,
      .inl ⟨by simpa [loop] using h, .inl rfl⟩⟩
  | cons w rest ih =>
    intro idx acc h
    by_cases h1 : w.sync = true ∧ ls = false
    · -- a synchronous follower behind a non-synchronous leader
      have e : loop ls cap (w :: rest) idx acc = acc := by simp [loop, h1.1, h1.2]
      rw [e]
      exact ⟨0, by simp, by simp, by simp, by simp, .inl rfl,
        .inl ⟨by simpa using h, .inr ⟨w, by simp, .inl h1⟩⟩⟩
    · have h1' : w.sync = true → ls = true := by
        intro hs
        cases hl : ls with
        | true => rfl
        | false => exact absurd ⟨hs, hl⟩ h1
      have c1 : (w.sync && !ls) = false := by
        cases hs : w.sync <;> cases hl : ls <;> simp_all
      by_cases h2 : w.hasBatch = false
      · -- a forced-compaction request: swallowed as `last_writer`
        have e : loop ls cap (w :: rest) idx acc = { acc with last := idx } := by
          simp [loop, c1, h2]
        rw [e]
        exact ⟨0, by simp, by simp, by simp, by simp, .inl rfl,
          .inr ⟨by simp, w, by simp, h2, h1'⟩⟩
      · have h2' : w.hasBatch = true := by simpa using h2
        by_cases h3 : acc.total + w.size > cap
        · -- too large
          have e : loop ls cap (w :: rest) idx acc = acc := by
            simp [loop, c1, h2', h3]
          rw [e]
          exact ⟨0, by simp, by simp, by simp, by simp, .inl rfl,
            .inl ⟨by simpa using h, .inr ⟨w, by simp, .inr ⟨h1', h2', h3⟩⟩⟩⟩
        · -- taken
          have e : loop ls cap (w :: rest) idx acc =
              loop ls cap rest (idx + 1)
                { members := acc.members + 1, last := idx, total := acc.total + w.size } := by
            simp [loop, c1, h2', h3]
          rw [e]
          obtain ⟨k, hk⟩ := ih (idx + 1)
            { members := acc.members + 1, last := idx, total := acc.total + w.size } rfl
          refine ⟨k + 1, by simpa using hk.le, ?_, ?_, ?_, ?_, ?_⟩
          · have := hk.members
            simp only at this
            omega
          · have := hk.total
            simp only [List.take_succ_cons, sizeSum_cons] at this ⊢
            omega
          · intro j x hj hx
            cases j with
            | zero =>
              have : x = w := by simpa using hx.symm
              subst this
              exact ⟨h2', h1'⟩
            | succ j =>
              exact hk.taken j x (by omega) (by simpa using hx)
          · right
            rcases hk.within with h0 | hc
            · have := hk.total
              subst h0
              simp only [List.take_zero, sizeSum_nil] at this
              omega
            · exact hc
          · rcases hk.stop with ⟨ha, hb⟩ | ⟨ha, hb⟩
            · refine .inl ⟨by omega, ?_⟩
              rcases hb with hb | ⟨x, hx, hr⟩
              · exact .inl (by simp [hb])
              · exact .inr ⟨x, by simpa using hx, hr⟩
            · obtain ⟨x, hx, hr⟩ := hb
              exact .inr ⟨by omega, x, by simpa using hx, hr⟩

/-! ### writers that arrive later -/

theorem loop_members_ge (ls : Bool) (cap : Nat) (rest : List Writer) :
    ∀ (idx : Nat) (acc : Result), acc.members ≤ (loop ls cap rest idx acc).members := by
  induction rest with
  | nil => intro idx acc; simp [loop]
  | cons w rest ih =>
    intro idx acc
    simp only [loop]
    split
    · exact Nat.le_refl _
    · split
      · exact Nat.le_refl _
      · split
        · exact Nat.le_refl _
        · have := ih (idx + 1)
            { members := acc.members + 1, last := idx, total := acc.total + w.size }
          simp only at this
          omega

theorem loop_total_ge (ls : Bool) (cap : Nat) (rest : List Writer) :
    ∀ (idx : Nat) (acc : Result), acc.total ≤ (loop ls cap rest idx acc).total := by
  induction rest with
  | nil => intro idx acc; simp [loop]
  | cons w rest ih =>
    intro idx acc
    simp only [loop]
    split
    · exact Nat.le_refl _
    · split
      · exact Nat.le_refl _
      · split
        · exact Nat.le_refl _
        · have := ih (idx + 1)
            { members := acc.members + 1, last := idx, total := acc.total + w.size }
          simp only at this
          omega

theorem loop_last_ge (ls : Bool) (cap : Nat) (rest : List Writer) :
    ∀ (idx : Nat) (acc : Result), acc.last ≤ idx → acc.last ≤ (loop ls cap rest idx acc).last := by
  induction rest with
  | nil => intro idx acc _; simp [loop]
  | cons w rest ih =>
    intro idx acc h
    simp only [loop]
    split
    · exact Nat.le_refl _
    · split
      · exact h
      · split
        · exact Nat.le_refl _
        · have := ih (idx + 1)
            { members := acc.members + 1, last := idx, total := acc.total + w.size }
            (Nat.le_succ _)
          simp only at this
          omega

/-- the loop stopped before the end of the writers it saw: later arrivals change nothing -/
theorem loop_append_stopped (ls : Bool) (cap : Nat) (extra rest : List Writer) :
    ∀ (idx : Nat) (acc : Result),
      (loop ls cap rest idx acc).members < acc.members + rest.length →
      loop ls cap (rest ++ extra) idx acc = loop ls cap rest idx acc := by
  induction rest with
  | nil => intro idx acc h; simp [loop] at h
  | cons w rest ih =>
    intro idx acc h
    simp only [loop, List.cons_append] at h ⊢
    split
    · rfl
    · split
      · rfl
      · split
        · rfl
        · rename_i h1 h2 h3
          simp only [h1, h2, h3, if_false, Bool.false_eq_true] at h
          apply ih
          simp only [List.length_cons] at h ⊢
          omega

/-- later arrivals can only extend the group -/
theorem loop_append_mono (ls : Bool) (cap : Nat) (extra rest : List Writer) :
    ∀ (idx : Nat) (acc : Result), acc.last ≤ idx →
      (loop ls cap rest idx acc).members ≤ (loop ls cap (rest ++ extra) idx acc).members ∧
      (loop ls cap rest idx acc).last ≤ (loop ls cap (rest ++ extra) idx acc).last ∧
      (loop ls cap rest idx acc).total ≤ (loop ls cap (rest ++ extra) idx acc).total := by
  induction rest with
  | nil =>
    intro idx acc h
    simp only [loop, List.nil_append]
    exact ⟨loop_members_ge _ _ _ _ _, loop_last_ge _ _ _ _ _ h, loop_total_ge _ _ _ _ _⟩
  | cons w rest ih =>
    intro idx acc h
    simp only [loop, List.cons_append]
    split
    · exact ⟨Nat.le_refl _, Nat.le_refl _, Nat.le_refl _⟩
    · split
      · exact ⟨Nat.le_refl _, Nat.le_refl _, Nat.le_refl _⟩
      · split
        · exact ⟨Nat.le_refl _, Nat.le_refl _, Nat.le_refl _⟩
        · exact ih (idx + 1) _ (Nat.le_succ _)

/-! ### `build` -/

theorem build_some {p : Params} {q : List Writer} {r : Result} (h : build p q = some r) :
    ∃ first rest, q = first :: rest ∧ first.hasBatch = true ∧
      r = loop first.sync (maxSize p first) rest 1
        { members := 1, last := 0, total := first.size } := by
  cases q with
  | nil => simp [build] at h
  | cons first rest =>
    by_cases hb : first.hasBatch = true
    · simp only [build, hb, if_true, Option.some.injEq] at h
      exact ⟨first, rest, rfl, hb, h.symm⟩
    · simp [build, hb] at h

theorem build_stop {p : Params} {q : List Writer} {r : Result} (h : build p q = some r) :
    ∃ first rest k, q = first :: rest ∧ first.hasBatch = true ∧
      Stop first.sync (maxSize p first) rest 1
        { members := 1, last := 0, total := first.size } r k := by
  obtain ⟨first, rest, hq, hb, hr⟩ := build_some h
  obtain ⟨k, hk⟩ := loop_stop first.sync (maxSize p first) rest 1
    { members := 1, last := 0, total := first.size } rfl
  exact ⟨first, rest, k, hq, hb, hr ▸ hk⟩

theorem build_isSome_iff (p : Params) (q : List Writer) :
    (build p q).isSome = true ↔ ∃ first, q.head? = some first ∧ first.hasBatch = true := by
  cases q with
  | nil => simp [build]
  | cons first rest =>
    by_cases hb : first.hasBatch = true <;> simp [build, hb]

theorem prefix_shape {p : Params} {q : List Writer} {r : Result} (h : build p q = some r) :
    1 ≤ r.members ∧ r.members ≤ q.length ∧ r.last < q.length ∧
      (r.last + 1 = r.members ∨
        (r.last = r.members ∧ ∃ w, q[r.members]? = some w ∧ w.hasBatch = false)) := by
  obtain ⟨first, rest, k, hq, _, hk⟩ := build_stop h
  subst hq
  have hm := hk.members
  have hle := hk.le
  simp only at hm
  simp only [List.length_cons]
  rcases hk.stop with ⟨ha, _⟩ | ⟨ha, w, hw, hb, _⟩
  · exact ⟨by omega, by omega, by omega, .inl (by omega)⟩
  · have hlt : k < rest.length := by
      have := (List.getElem?_eq_some_iff.mp hw).1
      exact this
    refine ⟨by omega, by omega, by omega, .inr ⟨by omega, w, ?_, hb⟩⟩
    rw [hm, Nat.add_comm 1 k, List.getElem?_cons_succ]
    exact hw

theorem members_have_batches {p : Params} {q : List Writer} {r : Result}
    (h : build p q = some r) (i : Nat) (w : Writer) (hi : i < r.members) (hw : q[i]? = some w) :
    w.hasBatch = true := by
  obtain ⟨first, rest, k, hq, hb, hk⟩ := build_stop h
  subst hq
  have hm := hk.members
  simp only at hm
  cases i with
  | zero =>
    have : w = first := by simpa using hw.symm
    exact this ▸ hb
  | succ j => exact (hk.taken j w (by omega) (by simpa using hw)).1

theorem popped_not_sync {p : Params} {q : List Writer} {r : Result}
    (h : build p q = some r) (hl : groupSync q = false) (i : Nat) (w : Writer)
    (hi : i ≤ r.last) (hw : q[i]? = some w) : w.sync = false := by
  obtain ⟨first, rest, k, hq, _, hk⟩ := build_stop h
  subst hq
  have hls : first.sync = false := hl
  have key : ∀ x : Writer, (x.sync = true → first.sync = true) → x.sync = false := by
    intro x hx
    cases hs : x.sync with
    | false => rfl
    | true => have := hx hs; simp [hls] at this
  cases i with
  | zero =>
    have : w = first := by simpa using hw.symm
    exact this ▸ hls
  | succ j =>
    have hw' : rest[j]? = some w := by simpa using hw
    rcases hk.stop with ⟨ha, _⟩ | ⟨ha, x, hx, _, hs⟩
    · exact key w (hk.taken j w (by omega) hw').2
    · by_cases hj : j < k
      · exact key w (hk.taken j w hj hw').2
      · have : j = k := by omega
        subst this
        have : x = w := by simpa [hx] using hw'
        exact this ▸ key x hs

theorem sizeOfPrefix_cons_succ (first : Writer) (rest : List Writer) (k : Nat) :
    sizeOfPrefix (first :: rest) (1 + k) = first.size + sizeSum (rest.take k) := by
  rw [Nat.add_comm 1 k]
  simp [sizeOfPrefix, sizeSum, List.take_succ_cons]

theorem size_bounded {p : Params} {q : List Writer} {r : Result} {first : Writer}
    (h : build p q = some r) (hf : q.head? = some first) :
    r.total = sizeOfPrefix q r.members ∧ r.total ≤ max first.size (maxSize p first) := by
  obtain ⟨first', rest, k, hq, _, hk⟩ := build_stop h
  subst hq
  have : first' = first := by simpa using hf
  subst this
  have hm := hk.members
  have ht := hk.total
  simp only at hm ht
  refine ⟨by rw [hm, sizeOfPrefix_cons_succ]; exact ht, ?_⟩
  rcases hk.within with h0 | hc
  · subst h0
    simp only [List.take_zero, sizeSum_nil] at ht
    omega
  · omega

theorem maximal {p : Params} {q : List Writer} {r : Result} {first : Writer}
    (h : build p q = some r) (hf : q.head? = some first)
    (hlast : r.last + 1 = r.members) (hlen : r.members < q.length) :
    ∃ w, q[r.members]? = some w ∧
      ((w.sync = true ∧ first.sync = false) ∨
        ((w.sync = true → first.sync = true) ∧ w.hasBatch = true ∧
          r.total + w.size > maxSize p first)) := by
  obtain ⟨first', rest, k, hq, _, hk⟩ := build_stop h
  subst hq
  have : first' = first := by simpa using hf
  subst this
  have hm := hk.members
  simp only at hm
  simp only [List.length_cons] at hlen
  rcases hk.stop with ⟨_, hb⟩ | ⟨ha, _⟩
  · rcases hb with hb | ⟨w, hw, hr⟩
    · omega
    · refine ⟨w, ?_, hr⟩
      rw [hm, Nat.add_comm 1 k, List.getElem?_cons_succ]
      exact hw
  · omega

/-- a batch-less writer right behind the group is swallowed unless it is synchronous behind a
non-synchronous leader (which the code never produces: forced compactions use the default
`WriteOptions`) -/
theorem swallowed_iff {p : Params} {q : List Writer} {r : Result} {first : Writer}
    (h : build p q = some r) (hf : q.head? = some first) (w : Writer)
    (hw : q[r.members]? = some w) (hb : w.hasBatch = false) :
    r.last = r.members ↔ (w.sync = true → first.sync = true) := by
  obtain ⟨first', rest, k, hq, _, hk⟩ := build_stop h
  subst hq
  have : first' = first := by simpa using hf
  subst this
  have hm := hk.members
  simp only at hm
  rw [hm, Nat.add_comm 1 k, List.getElem?_cons_succ] at hw
  have hlt : k < rest.length := (List.getElem?_eq_some_iff.mp hw).1
  rcases hk.stop with ⟨ha, hb'⟩ | ⟨ha, x, hx, _, hs⟩
  · rcases hb' with hb' | ⟨x, hx, hr⟩
    · omega
    · have hxw : x = w := by simpa [hx] using hw
      subst hxw
      rcases hr with hr | hr
      · constructor
        · intro e; omega
        · intro e; have := e hr.1; simp [hr.2] at this
      · simp [hb] at hr
  · have hxw : x = w := by simpa [hx] using hw
    subst hxw
    constructor
    · intro _; exact hs
    · intro _; omega

/-! ### the leader saw a prefix of the final arrival order -/

theorem build_append_isSome {p : Params} {q : List Writer} {r : Result}
    (h : build p q = some r) (extra : List Writer) : ∃ r', build p (q ++ extra) = some r' := by
  obtain ⟨first, rest, hq, hb, _⟩ := build_some h
  subst hq
  exact ⟨_, by simp only [List.cons_append, build, hb, if_true]; rfl⟩

theorem build_append {p : Params} {q extra : List Writer} {r r' : Result}
    (h : build p q = some r) (h' : build p (q ++ extra) = some r') :
    r.members ≤ r'.members ∧ r.last ≤ r'.last ∧ r.total ≤ r'.total ∧
      (r.members < q.length → r' = r) := by
  obtain ⟨first, rest, hq, hb, hr⟩ := build_some h
  subst hq
  simp only [List.cons_append, build, hb, if_true, Option.some.injEq] at h'
  subst hr
  subst h'
  have mono := loop_append_mono first.sync (maxSize p first) extra rest 1
    { members := 1, last := 0, total := first.size } (Nat.zero_le _)
  refine ⟨mono.1, mono.2.1, mono.2.2, ?_⟩
  intro hlt
  apply loop_append_stopped
  simp only [List.length_cons] at hlt ⊢
  omega

/-- what a harness that knows only the final arrival order `full` can say about the group a leader
formed after seeing the first `n` writers -/
theorem observed {p : Params} {full : List Writer} {n : Nat} {r R : Result}
    (h : build p (full.take n) = some r) (hR : build p full = some R) :
    r = R ∨ (r.members = n ∧ r.last + 1 = n ∧ n ≤ R.members) := by
  by_cases hn : n ≤ full.length
  · have hR' : build p (full.take n ++ full.drop n) = some R := by
      rw [List.take_append_drop]; exact hR
    have ha := build_append h hR'
    have hs := prefix_shape h
    have hlen : (full.take n).length = n := by
      rw [List.length_take]; omega
    by_cases hlt : r.members < (full.take n).length
    · exact .inl (ha.2.2.2 hlt).symm
    · right
      rcases hs.2.2.2 with hl | ⟨hl, _⟩
      · exact ⟨by omega, by omega, by omega⟩
      · omega
  · -- the leader saw everything
    have hfull : full.take n = full := List.take_of_length_le (by omega)
    rw [hfull] at h
    exact .inl (Option.some.inj (h.symm.trans hR))

/-! ### parameters -/

theorem maxSize_le {p : Params} (hp : p.small + p.extra ≤ p.maxGroup) (first : Writer) :
    maxSize p first ≤ p.maxGroup := by
  unfold maxSize
  split <;> omega

/-- a follower that fits into the extra room granted to a small leader is taken -/
theorem small_follower_joins {p : Params} {first w : Writer} {rest : List Writer} {r : Result}
    (h : build p (first :: w :: rest) = some r) (hs : first.size ≤ p.small)
    (hb : w.hasBatch = true) (hsync : w.sync = true → first.sync = true)
    (hw : w.size ≤ p.extra) : 2 ≤ r.members := by
  have hshape := prefix_shape h
  have hsz := (size_bounded h (first := first) rfl).1
  by_cases h1 : r.members = 1
  · exfalso
    rcases hshape.2.2.2 with hl | ⟨_, x, hx, hxb⟩
    · obtain ⟨x, hx, hr⟩ := maximal h (first := first) rfl hl (by simp [h1])
      rw [h1] at hx hsz
      have : x = w := by simpa using hx.symm
      subst this
      have ht : r.total = first.size := by simpa [sizeOfPrefix] using hsz
      rcases hr with hr | hr
      · have := hsync hr.1; simp [hr.2] at this
      · have : maxSize p first = first.size + p.extra := by simp [maxSize, hs]
        omega
    · rw [h1] at hx
      have : x = w := by simpa using hx.symm
      subst this
      simp [hb] at hxb
  · omega

end Rain.Group.Lemmas
