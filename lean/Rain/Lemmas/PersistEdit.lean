import Rain.Lemmas.PersistOps
/-
Appending an edit to the current manifest: the monitor's semantic condition (the recovered
contents do not change) follows from the LSM theorems once the image is related to the new state.
-/
namespace Rain.Persist.Lemmas
open Rain Rain.Lsm Rain.Durable Rain.Persist Rain.Lsm.Lemmas Rain.Durable.Lemmas

theorem versionOf_snoc (es : List Edit) (e : Edit) :
    versionOf (es ++ [e]) = ((versionOf es).filter fun f => !e.deleted.contains f) ++ e.added := by
  simp [versionOf, List.foldl_append]

theorem walNoOf_snoc_some (es : List Edit) (e : Edit) (n : Nat) (h : e.walNumber = some n) :
    walNoOf (es ++ [e]) = some n := by
  simp [walNoOf, List.foldl_append, h]

theorem walNoOf_snoc_none (es : List Edit) (e : Edit) (h : e.walNumber = none) :
    walNoOf (es ++ [e]) = walNoOf es := by
  simp [walNoOf, List.foldl_append, h]

theorem mem_versionOf_snoc (es : List Edit) (e : Edit) (q : Nat × Nat) :
    q ∈ versionOf (es ++ [e]) ↔ (q ∈ versionOf es ∧ q ∉ e.deleted) ∨ q ∈ e.added := by
  rw [versionOf_snoc]
  simp [List.mem_append, List.mem_filter]

theorem sameContents_of_forall (a b : List Entry) (h : ∀ k, latest a k = latest b k) :
    sameContents a b = true := by
  unfold sameContents
  rw [List.all_eq_true]
  intro k _
  rw [h k]; simp

/-- **an edit that takes the version from `p.s` to `s'` without changing what is read** -/
theorem rel_appendManifest {p : PState} (h : Rel p) (e : Edit) (s' : State) (c' : Ctx)
    (hinv' : InvP s') (hlast : s'.lastSeq = p.s.lastSeq)
    (hget : ∀ k, dbGet s' k s'.lastSeq = dbGet p.s k p.s.lastSeq)
    (hman : c'.manifest = p.c.manifest) (hwal : c'.wal = p.c.wal)
    (hver : ∀ es, lookup p.d.manifests p.c.manifest = some es →
      ∀ q, q ∈ versionOf (es ++ [e]) ↔ InVersion s'.levels q)
    (htab : ∀ l f, f ∈ lv s'.levels l → lookup p.d.tables f.num = some f.entries)
    (hmem : s'.mem = p.s.mem)
    (hcase : (e.walNumber = none ∧ c'.immWal = p.c.immWal ∧ s'.imm = p.s.imm ∧ c'.manWal = p.c.manWal) ∨
             (e.walNumber = some p.c.wal ∧ c'.immWal = none ∧ s'.imm = none ∧ c'.manWal = p.c.wal)) :
    ok p.d (.appendManifest p.c.manifest e) = true ∧
      Rel { s := s', d := apply p.d (.appendManifest p.c.manifest e), c := c' } := by
  obtain ⟨es, hes, hwn, _⟩ := h.edits
  have hle := w0_le_wal h
  have hR : Rel { s := s', d := apply p.d (.appendManifest p.c.manifest e), c := c' } := by
    rw [apply_appendManifest, hes]
    simp only [Option.getD_some]
    refine { inv := hinv', wf := ⟨nodup_update _ _ _ h.wf.1, h.wf.2.1, h.wf.2.2⟩,
             cur := by show p.d.current = some c'.manifest; rw [hman]; exact h.cur,
             edits := ?_, tables := htab, walMem := ?_, walImm := ?_, others := ?_, walMax := ?_,
             manLe := ?_ }
    · refine ⟨es ++ [e], ?_, ?_, hver es hes⟩
      · show lookup (update p.d.manifests p.c.manifest (es ++ [e])) c'.manifest = _
        rw [hman, lookup_update, if_pos rfl]
      · rcases hcase with ⟨h1, _, _, h4⟩ | ⟨h1, _, _, h4⟩
        · rw [walNoOf_snoc_none es e h1, hwn, h4]
        · rw [walNoOf_snoc_some es e _ h1, h4]
    · obtain ⟨bs, hl, hm⟩ := h.walMem
      exact ⟨bs, by show lookup p.d.wals c'.wal = _; rw [hwal]; exact hl, by rw [hmem]; exact hm⟩
    · rcases hcase with ⟨_, h2, h3, _⟩ | ⟨_, h2, h3, _⟩
      · rcases h.walImm with ⟨ha, hb⟩ | ⟨wi, im, bs, hwi, him, hlt, hl, hm⟩
        · exact Or.inl ⟨by rw [h2]; exact ha, by rw [h3]; exact hb⟩
        · exact Or.inr ⟨wi, im, bs, by rw [h2]; exact hwi, by rw [h3]; exact him,
            by rw [hwal]; exact hlt, hl, hm⟩
      · exact Or.inl ⟨h2, h3⟩
    · intro x hx
      have hx' : x ∈ p.d.wals := hx
      rcases hcase with ⟨_, h2, _, h4⟩ | ⟨_, h2, _, h4⟩
      · rcases h.others x hx' with h1 | h1 | h1 | h1
        · exact Or.inl (by rw [hwal]; exact h1)
        · exact Or.inr (Or.inl (by rw [h2]; exact h1))
        · exact Or.inr (Or.inr (Or.inl (by rw [h4]; exact h1)))
        · exact Or.inr (Or.inr (Or.inr h1))
      · rcases h.others x hx' with h1 | h1 | h1 | h1
        · exact Or.inl (by rw [hwal]; exact h1)
        · right; right; left
          rcases h.walImm with ⟨ha, _⟩ | ⟨wi, _, _, hwi, _, hlt, _, _⟩
          · rw [ha] at h1; cases h1
          · rw [hwi] at h1; injection h1 with h1
            rw [h4]; omega
        · right; right; left
          have := h.manLe
          rw [h4]; omega
        · exact Or.inr (Or.inr (Or.inr h1))
    · intro x hx
      have hx' : x ∈ p.d.wals := hx
      show x.1 ≤ c'.wal ∨ x.2 = []
      rw [hwal]; exact h.walMax x hx'
    · rcases hcase with ⟨_, h2, _, h4⟩ | ⟨_, h2, _, h4⟩
      · have := h.manLe
        simp only [Ctx.w0, h2, hwal, h4] at this ⊢
        exact this
      · simp [Ctx.w0, h2, hwal, h4]
  refine ⟨?_, hR⟩
  obtain ⟨r, hr, hl⟩ := rel_reads h
  obtain ⟨r', hr', hl'⟩ := rel_reads hR
  simp only [ok, h.cur, beq_self_eq_true, if_true, hr]
  have hr'' : recover (apply p.d (.appendManifest p.c.manifest e)) = some r' := hr'
  rw [hr'']
  apply sameContents_of_forall
  intro k
  rw [hl k, hl' k]
  exact (hget k).symm

end Rain.Persist.Lemmas
