import Rain.Lemmas.TableGet
/-
The two-level iterator against the flat cursor.
-/
namespace Rain.Table.Lemmas
open Rain Rain.Lsm Rain.Block Rain.Table Rain.Order Rain.Block.Lemmas

/-- iterator positioned in block `b` at `p`, index iterator on the same block -/
def mk (b p : Nat) : TL := ⟨b, some (b, p)⟩
/-- iterator without a data block -/
def dead (i : Nat) : TL := ⟨i, none⟩

theorem valid_mk (t : Table) (b p : Nat) : (mk b p).valid t = decide (p < blockLen t b) := rfl
theorem valid_dead (t : Table) (i : Nat) : (dead i).valid t = false := rfl

theorem reposition (t : Table) (s : TL) (i : Nat) (g : Nat → Nat) :
    setPos (initData t { s with ipos := i }) (fun b _ => g b) =
      if t.index.length ≤ i then dead i else mk i (g i) := by
  obtain ⟨ip, d⟩ := s
  by_cases h : t.index.length ≤ i
  · simp [initData, setPos, dead, h]
  · cases d with
    | none => simp [initData, setPos, mk, h]
    | some bp =>
      obtain ⟨b, p⟩ := bp
      by_cases hb : b = i
      · subst hb; simp [initData, setPos, mk, h]
      · simp [initData, setPos, mk, h, hb]

theorem setPos_mk (b p : Nat) (f : Nat → Nat → Nat) : setPos (mk b p) f = mk b (f b p) := rfl

theorem skipFwd_valid (t : Table) (fuel : Nat) (s : TL) (h : s.valid t = true) :
    skipFwd t fuel s = s := by
  cases fuel <;> simp [skipFwd, h]

theorem skipBwd_valid (t : Table) (fuel : Nat) (s : TL) (h : s.valid t = true) :
    skipBwd t fuel s = s := by
  cases fuel <;> simp [skipBwd, h]

theorem skipFwd_dead (t : Table) (fuel i : Nat) (h : t.index.length ≤ i) :
    skipFwd t fuel (dead i) = dead i := by
  cases fuel <;> simp [skipFwd, dead, TL.valid, h]

theorem skipBwd_dead (t : Table) (fuel i : Nat) (h : t.index.length ≤ i) :
    skipBwd t fuel (dead i) = dead i := by
  cases fuel <;> simp [skipBwd, dead, TL.valid, h]

theorem skipFwd_over (t : Table) (hpos : ∀ b, b < t.index.length → 0 < blockLen t b)
    (fuel b p : Nat) (hb : b < t.index.length) (hp : blockLen t b ≤ p) :
    skipFwd t (fuel + 2) (mk b p) = if b + 1 < t.index.length then mk (b + 1) 0 else dead (b + 1) := by
  have hv : (mk b p).valid t = false := by rw [valid_mk]; simpa using hp
  have hi : (mk b p).ipos = b := rfl
  have hnl : ¬ (t.index.length ≤ b) := by omega
  rw [skipFwd]
  simp only [hv, Bool.false_eq_true, if_false, hi, hnl, blockStep]
  rw [reposition t (mk b p) (b + 1) (fun _ => 0)]
  by_cases h1 : b + 1 < t.index.length
  · have h2 : ¬ (t.index.length ≤ b + 1) := by omega
    simp only [h1, h2, if_true, if_false]
    apply skipFwd_valid
    rw [valid_mk]; simpa using hpos (b + 1) h1
  · have h2 : t.index.length ≤ b + 1 := by omega
    simp only [h1, h2, if_true, if_false]
    exact skipFwd_dead t _ _ h2

theorem skipBwd_over (t : Table) (hpos : ∀ b, b < t.index.length → 0 < blockLen t b)
    (fuel b p : Nat) (hb : b < t.index.length) (hp : blockLen t b ≤ p) :
    skipBwd t (fuel + 2) (mk b p) =
      if b = 0 then dead t.index.length else mk (b - 1) (blockLen t (b - 1) - 1) := by
  have hv : (mk b p).valid t = false := by rw [valid_mk]; simpa using hp
  have hi : (mk b p).ipos = b := rfl
  have hnl : ¬ (t.index.length ≤ b) := by omega
  rw [skipBwd]
  simp only [hv, Bool.false_eq_true, if_false, hi, hnl, blockStep, or_false]
  by_cases h0 : b = 0
  · simp only [h0, if_true]
    rw [reposition t (mk 0 p) t.index.length (fun b => blockLen t b - 1)]
    simp only [Nat.le_refl, if_true]
    exact skipBwd_dead t _ _ (Nat.le_refl _)
  · simp only [h0, if_false]
    rw [reposition t (mk b p) (b - 1) (fun b => blockLen t b - 1)]
    have h2 : ¬ (t.index.length ≤ b - 1) := by omega
    simp only [h2, if_false]
    apply skipBwd_valid
    rw [valid_mk]
    have := hpos (b - 1) (by omega)
    simp only [decide_eq_true_eq]; omega

/-! ### the invariant -/

/-- the iterator state `s` represents the flat position `pos` -/
def Inv (bl : List (List Entry)) (s : TL) (pos : Nat) : Prop :=
  (pos < bl.flatten.length ∧ ∃ b p, s = mk b p ∧ b < bl.length ∧ p < (bl.getD b []).length ∧
    pos = offs bl b + p) ∨
  (bl.flatten.length ≤ pos ∧ s.valid (mkTable bl) = false)

theorem idx_len (bl : List (List Entry)) : (mkTable bl).index.length = bl.length := indexKeys_length bl

theorem blockLen_mk (bl : List (List Entry)) (b : Nat) :
    blockLen (mkTable bl) b = (bl.getD b []).length := rfl

theorem block_pos (bl : List (List Entry)) (hne : ∀ b ∈ bl, b ≠ []) :
    ∀ b, b < (mkTable bl).index.length → 0 < blockLen (mkTable bl) b := by
  intro b hb
  rw [idx_len] at hb
  rw [blockLen_mk, List.getD_eq_getElem?_getD, List.getElem?_eq_getElem hb]
  simp only [Option.getD_some]
  exact List.length_pos_iff.mpr (hne _ (List.getElem_mem hb))

theorem Inv_valid (bl : List (List Entry)) (b p : Nat) (hb : b < bl.length)
    (hp : p < (bl.getD b []).length) : Inv bl (mk b p) (offs bl b + p) := by
  left
  have := offs_add_le bl b hb
  exact ⟨by omega, b, p, rfl, hb, hp, rfl⟩

/-- positioned in block `b` at `p ≤ length`, then `skip_empty_data_blocks_forward` -/
theorem landing (bl : List (List Entry)) (hne : ∀ b ∈ bl, b ≠ []) (b p : Nat) (hb : b < bl.length)
    (hp : p ≤ (bl.getD b []).length) :
    Inv bl (skipFwd (mkTable bl) ((mkTable bl).index.length + 1) (mk b p)) (offs bl b + p) := by
  by_cases hlt : p < (bl.getD b []).length
  · rw [skipFwd_valid _ _ _ (by rw [valid_mk, blockLen_mk]; simpa using hlt)]
    exact Inv_valid bl b p hb hlt
  · have hpe : p = (bl.getD b []).length := by omega
    have hL : (mkTable bl).index.length = (bl.length - 1) + 1 := by rw [idx_len]; omega
    rw [hL, skipFwd_over (mkTable bl) (block_pos bl hne) _ b p (by rw [idx_len]; exact hb)
      (by rw [blockLen_mk]; omega)]
    rw [idx_len, hpe, ← offs_succ bl b hb]
    by_cases h1 : b + 1 < bl.length
    · simp only [h1, if_true]
      have := Inv_valid bl (b + 1) 0 h1 (by
        have := block_pos bl hne (b + 1) (by rw [idx_len]; exact h1)
        rwa [blockLen_mk] at this)
      simpa using this
    · simp only [h1, if_false]
      right
      have : b + 1 = bl.length := by omega
      rw [this, offs_length]
      exact ⟨Nat.le_refl _, rfl⟩

theorem Inv_step (bl : List (List Entry)) (hne : ∀ b ∈ bl, b ≠ []) (hnb : bl ≠ [])
    (hp : bl.flatten.Pairwise ELt) (s : TL) (pos : Nat) (op : COp) (h : Inv bl s pos) :
    Inv bl (tlStep (mkTable bl) s op) (flatStep bl.flatten pos op) := by
  have hLpos : 0 < bl.length := List.length_pos_iff.mpr hnb
  have hpos := block_pos bl hne
  have hfl : (bl.flatten.map Entry.key).length = bl.flatten.length := List.length_map _
  cases op with
  | seek tg =>
    simp only [tlStep, flatStep, blockStep]
    rw [reposition (mkTable bl) s _ (fun b => lowerBound (((mkTable bl).blocks.getD b []).map Entry.key) tg)]
    obtain ⟨c1, c2⟩ := seek_core bl hne hp tg
    have hidx : (mkTable bl).index = indexKeys bl := rfl
    by_cases hi : (mkTable bl).index.length ≤ lowerBound (mkTable bl).index tg
    · simp only [hi, if_true]
      rw [skipFwd_dead _ _ _ hi]
      right
      rw [idx_len, hidx] at hi
      rw [c1 hi]
      exact ⟨Nat.le_refl _, rfl⟩
    · simp only [hi, if_false]
      rw [idx_len, hidx] at hi
      rw [c2 (by omega), hidx]
      apply landing bl hne _ _ (by omega)
      have := lb_le ((bl.getD (lowerBound (indexKeys bl) tg) []).map Entry.key) tg
      rw [List.length_map] at this
      exact this
  | first =>
    simp only [tlStep, flatStep, blockStep]
    rw [reposition (mkTable bl) s 0 (fun _ => 0)]
    have : ¬ ((mkTable bl).index.length ≤ 0) := by rw [idx_len]; omega
    simp only [this, if_false]
    have := landing bl hne 0 0 hLpos (Nat.zero_le _)
    simpa [offs_zero] using this
  | last =>
    simp only [tlStep, flatStep, blockStep]
    rw [reposition (mkTable bl) s _ (fun b => blockLen (mkTable bl) b - 1)]
    have : ¬ ((mkTable bl).index.length ≤ (mkTable bl).index.length - 1) := by rw [idx_len]; omega
    simp only [this, if_false]
    have hbl := hpos (bl.length - 1) (by rw [idx_len]; omega)
    rw [idx_len]
    rw [skipBwd_valid _ _ _ (by rw [valid_mk]; simp only [decide_eq_true_eq]; omega)]
    rw [blockLen_mk] at hbl ⊢
    have h1 := Inv_valid bl (bl.length - 1) ((bl.getD (bl.length - 1) []).length - 1) (by omega) (by omega)
    have h2 := offs_succ bl (bl.length - 1) (by omega)
    have h3 : bl.length - 1 + 1 = bl.length := by omega
    rw [h3, offs_length] at h2
    have h4 : (bl.flatten.map Entry.key).length - 1 =
        offs bl (bl.length - 1) + ((bl.getD (bl.length - 1) []).length - 1) := by
      rw [hfl]; omega
    rw [h4]; exact h1
  | next =>
    rcases h with ⟨hlt, b, p, rfl, hb, hpl, rfl⟩ | ⟨hge, hinv⟩
    · have hv : (mk b p).valid (mkTable bl) = true := by
        rw [valid_mk, blockLen_mk]; simpa using hpl
      have hkl : (((mkTable bl).blocks.getD b []).map Entry.key).length = (bl.getD b []).length := by
        simp [mkTable]
      have hnle : ¬ ((bl.getD b []).length ≤ p) := by omega
      have hnle2 : ¬ (bl.flatten.length ≤ offs bl b + p) := by omega
      simp only [tlStep, hv, Bool.not_true, Bool.false_eq_true, if_false, setPos_mk, blockStep, hkl,
        hnle, flatStep, hfl, hnle2]
      have hland := landing bl hne b (p + 1) hb (by omega)
      have : (if (mk b (p + 1)).valid (mkTable bl) = true then mk b (p + 1)
          else skipFwd (mkTable bl) ((mkTable bl).index.length + 1) (mk b (p + 1))) =
          skipFwd (mkTable bl) ((mkTable bl).index.length + 1) (mk b (p + 1)) := by
        split
        · next hvv => rw [skipFwd_valid _ _ _ hvv]
        · rfl
      rw [this]
      exact hland
    · have hge' : (bl.flatten.map Entry.key).length ≤ pos := by rw [hfl]; exact hge
      simp only [tlStep, hinv, Bool.not_false, if_true, flatStep, blockStep, hge']
      right
      exact ⟨by rw [hfl]; exact Nat.le_refl _, hinv⟩
  | prev =>
    rcases h with ⟨hlt, b, p, rfl, hb, hpl, rfl⟩ | ⟨hge, hinv⟩
    · have hv : (mk b p).valid (mkTable bl) = true := by
        rw [valid_mk, blockLen_mk]; simpa using hpl
      have hkl : (((mkTable bl).blocks.getD b []).map Entry.key).length = (bl.getD b []).length := by
        simp [mkTable]
      have hnle : ¬ ((bl.getD b []).length ≤ p) := by omega
      have hnle2 : ¬ (bl.flatten.length ≤ offs bl b + p) := by omega
      simp only [tlStep, hv, Bool.not_true, Bool.false_eq_true, if_false, setPos_mk, blockStep, hkl,
        hnle, flatStep, hfl, hnle2, or_false]
      by_cases hp0 : p = 0
      · subst hp0
        have hiv : (mk b (bl.getD b []).length).valid (mkTable bl) = false := by
          rw [valid_mk, blockLen_mk]; simp
        simp only [if_true, hiv, Bool.false_eq_true, if_false]
        have hL : (mkTable bl).index.length + 1 = (bl.length - 1) + 2 := by rw [idx_len]; omega
        rw [hL, skipBwd_over (mkTable bl) hpos _ b _ (by rw [idx_len]; exact hb)
          (by rw [blockLen_mk]; exact Nat.le_refl _)]
        by_cases hb0 : b = 0
        · subst hb0
          simp only [if_true, offs_zero, Nat.add_zero]
          right
          exact ⟨Nat.le_refl _, rfl⟩
        · have hs := offs_succ bl (b - 1) (by omega)
          have hb1 : b - 1 + 1 = b := by omega
          rw [hb1] at hs
          have hbl := hpos (b - 1) (by rw [idx_len]; omega)
          rw [blockLen_mk] at hbl
          have hne0 : ¬ (offs bl b + 0 = 0) := by omega
          simp only [hb0, if_false, hne0, blockLen_mk]
          have h1 := Inv_valid bl (b - 1) ((bl.getD (b - 1) []).length - 1) (by omega) (by omega)
          have h4 : offs bl b + 0 - 1 = offs bl (b - 1) + ((bl.getD (b - 1) []).length - 1) := by omega
          rw [h4]; exact h1
      · have hvv : (mk b (p - 1)).valid (mkTable bl) = true := by
          rw [valid_mk, blockLen_mk]; simp only [decide_eq_true_eq]; omega
        have hne0 : ¬ (offs bl b + p = 0) := by omega
        simp only [hp0, if_false, hvv, if_true, hne0]
        have h1 := Inv_valid bl b (p - 1) hb (by omega)
        have h4 : offs bl b + p - 1 = offs bl b + (p - 1) := by omega
        rw [h4]; exact h1
    · have hge' : (bl.flatten.map Entry.key).length ≤ pos := by rw [hfl]; exact hge
      simp only [tlStep, hinv, Bool.not_false, if_true, flatStep, blockStep, hge', or_true]
      right
      exact ⟨by rw [hfl]; exact Nat.le_refl _, hinv⟩

theorem Inv_run (bl : List (List Entry)) (hne : ∀ b ∈ bl, b ≠ []) (hnb : bl ≠ [])
    (hp : bl.flatten.Pairwise ELt) (ops : List COp) (s : TL) (pos : Nat) (h : Inv bl s pos) :
    Inv bl (ops.foldl (tlStep (mkTable bl)) s) (ops.foldl (flatStep bl.flatten) pos) := by
  induction ops generalizing s pos with
  | nil => exact h
  | cons op rest ih => exact ih _ _ (Inv_step bl hne hnb hp s pos op h)

theorem Inv_init (bl : List (List Entry)) : Inv bl (TL.init (mkTable bl)) bl.flatten.length :=
  Or.inr ⟨Nat.le_refl _, rfl⟩

theorem Inv_concl (bl : List (List Entry)) (s : TL) (pos : Nat) (h : Inv bl s pos) :
    s.valid (mkTable bl) = decide (pos < bl.flatten.length) ∧
    (s.valid (mkTable bl) = true → s.current (mkTable bl) = bl.flatten[pos]?) := by
  rcases h with ⟨hlt, b, p, rfl, hb, hpl, rfl⟩ | ⟨hge, hinv⟩
  · have hv : (mk b p).valid (mkTable bl) = true := by
      rw [valid_mk, blockLen_mk]; simpa using hpl
    refine ⟨by rw [hv]; simpa using hlt, fun _ => ?_⟩
    rw [flatten_get bl b p hb hpl]
    rfl
  · refine ⟨by rw [hinv]; exact (decide_eq_false (by omega)).symm, fun h => ?_⟩
    rw [hinv] at h; cases h

end Rain.Table.Lemmas
