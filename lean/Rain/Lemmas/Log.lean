import Rain.Lemmas.LogReader
/-
C12 lemmas: whole-file reader against sequences of appends; the statements used by
`Rain/Props/C12.lean`.  (`unmask_mask` is in `LogBasic`, `sessions_flatten` and `offset_sync`
in `LogWriter`; all are re-exported through this import chain.)
-/
namespace Rain.Log
open Rain

theorem readPhysical_nil (c : Cfg) (boff : Nat) : readPhysical c [] boff = .eof := by
  have hH : H = 7 := rfl
  unfold readPhysical
  by_cases hs : (decide (c.B - boff < H) && decide (0 < c.B - boff)) = true
  · have : ([] : Bytes).length < c.B - boff := by simp at hs ⊢; omega
    simp only [hs, Bool.true_and, decide_eq_true_eq, this, if_true]
  · have hs' : (decide (c.B - boff < H) && decide (0 < c.B - boff)) = false := by simpa using hs
    have : ([] : Bytes).length < H := by simp [hH]
    simp only [hs', Bool.false_and, Bool.false_eq_true, if_false, this, if_true]

theorem readRecordLoop_nil (c : Cfg) (rf boff : Nat) (acc : Bytes) (frag : Bool) :
    readRecordLoop c rf [] boff acc frag = .eof := by
  cases rf with
  | zero => rfl
  | succ rf => rw [readRecordLoop_succ, readPhysical_nil]

theorem readAllLoop_succ (c : Cfg) (fuel : Nat) (rest : Bytes) (boff : Nat) :
    readAllLoop c (fuel+1) rest boff =
      match readRecord c rest boff with
      | .eof => []
      | .record d rest' boff' => d :: readAllLoop c fuel rest' boff' := by
  rw [readAllLoop]
  rfl

theorem readAllLoop_nil (c : Cfg) (fuel boff : Nat) : readAllLoop c fuel [] boff = [] := by
  cases fuel with
  | zero => rfl
  | succ f => rw [readAllLoop_succ]; unfold readRecord; rw [readRecordLoop_nil]

/-- one complete `append` is read back as one record -/
theorem readRecord_writes (c : Cfg) (hB : H < c.B) (hB2 : c.B ≤ 65535 + H) (hcrc : ∀ d, c.crc d < 2^32)
    (off : Nat) (hoff : off ≤ c.B) (r tail : Bytes) :
    readRecord c ((appendWrites c off r).1.flatten ++ tail) (off % c.B)
      = .record r tail ((appendWrites c off r).2 % c.B) := by
  unfold readRecord appendWrites
  rw [readRecordLoop_writes c hB hB2 hcrc _ off r true _ [] false tail hoff (fuelOK_appendFuel c off r)
    (Or.inl rfl) (by simp only [List.length_append]; omega)]
  simp

/-- a truncated `append` yields nothing -/
theorem readRecord_cut (c : Cfg) (hB : H < c.B) (hB2 : c.B ≤ 65535 + H) (hcrc : ∀ d, c.crc d < 2^32)
    (off : Nat) (hoff : off ≤ c.B) (r : Bytes) (m : Nat) (hm : m < (appendWrites c off r).1.flatten.length) :
    readRecord c ((appendWrites c off r).1.flatten.take m) (off % c.B) = .eof := by
  unfold readRecord
  unfold appendWrites at hm ⊢
  exact readRecordLoop_writes_cut c hB hB2 hcrc _ off r true _ [] false m hoff hm

/-- **(D)** all records of a run of appends are read back, then reading goes on with what follows -/
theorem readAllLoop_writes (c : Cfg) (hB : H < c.B) (hB2 : c.B ≤ 65535 + H) (hcrc : ∀ d, c.crc d < 2^32)
    (recs : List Bytes) : ∀ (off fuel : Nat) (tail : Bytes), off ≤ c.B →
    ((appendAllWrites c off recs).1.flatten ++ tail).length < fuel →
    readAllLoop c fuel ((appendAllWrites c off recs).1.flatten ++ tail) (off % c.B)
      = recs ++ readAllLoop c (fuel - recs.length) tail ((appendAllWrites c off recs).2 % c.B) := by
  induction recs with
  | nil => intro off fuel tail _ _; simp [appendAllWrites_nil]
  | cons r rs ih =>
    intro off fuel tail hoff hf
    have h1 := appendWrites_off c hB off r hoff
    have h2 := appendWrites_length c off r
    have hH : H = 7 := rfl
    rw [appendAllWrites_cons] at hf ⊢
    simp only [List.flatten_append, List.append_assoc, List.length_append] at hf ⊢
    obtain ⟨f, rfl⟩ : ∃ f, fuel = f + 1 := ⟨fuel - 1, by omega⟩
    rw [readAllLoop_succ, readRecord_writes c hB hB2 hcrc off hoff]
    simp only
    rw [ih _ f tail h1.1 (by simp only [List.length_append]; omega)]
    simp

theorem appendAllWrites_length (c : Cfg) (recs : List Bytes) : ∀ off : Nat,
    recs.length ≤ (appendAllWrites c off recs).1.flatten.length := by
  induction recs with
  | nil => intro off; simp
  | cons r rs ih =>
    intro off
    have h2 := appendWrites_length c off r
    have hH : H = 7 := rfl
    have := ih (appendWrites c off r).2
    rw [appendAllWrites_cons]
    simp only [List.flatten_append, List.length_append, List.length_cons]
    omega

/-- **(T)** reading a file cut inside (or just before) record `k+1` returns the first `k` records -/
theorem readAllLoop_cut (c : Cfg) (hB : H < c.B) (hB2 : c.B ≤ 65535 + H) (hcrc : ∀ d, c.crc d < 2^32)
    (recs : List Bytes) : ∀ (off k n fuel : Nat), off ≤ c.B → k ≤ recs.length →
    (appendAllWrites c off (recs.take k)).1.flatten.length ≤ n →
    (k = recs.length ∨ n < (appendAllWrites c off (recs.take (k+1))).1.flatten.length) →
    ((appendAllWrites c off recs).1.flatten.take n).length < fuel →
    readAllLoop c fuel ((appendAllWrites c off recs).1.flatten.take n) (off % c.B) = recs.take k := by
  induction recs with
  | nil => intro off k n fuel _ _ _ _ _; simp [appendAllWrites_nil, readAllLoop_nil]
  | cons r rs ih =>
    intro off k n fuel hoff hk hlo hhi hf
    have h1 := appendWrites_off c hB off r hoff
    have h2 := appendWrites_length c off r
    have hH : H = 7 := rfl
    obtain ⟨f, rfl⟩ : ∃ f, fuel = f + 1 := ⟨fuel - 1, by omega⟩
    rw [readAllLoop_succ]
    cases k with
    | zero =>
      have hn : n < (appendWrites c off r).1.flatten.length := by
        rcases hhi with h | h
        · simp at h
        · simpa [appendAllWrites_cons, appendAllWrites_nil] using h
      rw [appendAllWrites_cons]
      simp only [List.flatten_append]
      rw [List.take_append_of_le_length (by omega), readRecord_cut c hB hB2 hcrc off hoff r n hn]
      simp
    | succ k =>
      simp only [List.take_succ_cons, appendAllWrites_cons, List.flatten_append, List.length_append,
        List.length_cons] at hlo hhi hf hk ⊢
      rw [List.take_append, List.take_of_length_le (by omega)] at hf ⊢
      rw [readRecord_writes c hB hB2 hcrc off hoff]
      simp only [List.cons.injEq, true_and]
      apply ih _ k _ f h1.1 (by omega) (by omega)
      · rcases hhi with h | h
        · left; omega
        · right; omega
      · simp only [List.length_append] at hf; omega


theorem truncation (c : Cfg) (hB : H < c.B) (hB2 : c.B ≤ 65535 + H) (hcrc : ∀ d, c.crc d < 2^32)
    (recs : List Bytes) (n k : Nat) (hk : k ≤ recs.length)
    (hlo : (writeSession c [] (recs.take k)).length ≤ n)
    (hhi : k = recs.length ∨ n < (writeSession c [] (recs.take (k+1))).length) :
    readAll c ((writeSession c [] recs).take n) = recs.take k := by
  rw [writeSession_nil] at hlo hhi ⊢
  unfold readAll
  have := readAllLoop_cut c hB hB2 hcrc recs 0 k n
    (((appendAllWrites c 0 recs).1.flatten.take n).length + 1) (Nat.zero_le _) hk hlo hhi (by omega)
  rwa [Nat.zero_mod] at this

theorem roundtrip (c : Cfg) (hB : H < c.B) (hB2 : c.B ≤ 65535 + H) (hcrc : ∀ d, c.crc d < 2^32)
    (sessions : List (List Bytes)) : readAll c (writeSessions c [] sessions) = sessions.flatten := by
  rw [sessions_flatten c hB]
  have := truncation c hB hB2 hcrc sessions.flatten (writeSession c [] sessions.flatten).length
    sessions.flatten.length (Nat.le_refl _) (by rw [List.take_length]; exact Nat.le_refl _) (Or.inl rfl)
  rwa [List.take_length, List.take_length] at this

theorem truncation_total (c : Cfg) (hB : H < c.B) (hB2 : c.B ≤ 65535 + H) (hcrc : ∀ d, c.crc d < 2^32)
    (recs : List Bytes) (n : Nat) :
    ∃ k, k ≤ recs.length ∧ readAll c ((writeSession c [] recs).take n) = recs.take k := by
  have key : ∀ m, m ≤ recs.length → ∃ k, k ≤ m ∧ (writeSession c [] (recs.take k)).length ≤ n ∧
      (k = m ∨ n < (writeSession c [] (recs.take (k+1))).length) := by
    intro m
    induction m with
    | zero => intro _; exact ⟨0, Nat.le_refl _, by simp [writeSession_nil, appendAllWrites_nil], Or.inl rfl⟩
    | succ m ih =>
      intro hm
      obtain ⟨k, hk, h1, h2⟩ := ih (by omega)
      rcases h2 with h2 | h2
      · subst h2
        by_cases h3 : (writeSession c [] (recs.take (k+1))).length ≤ n
        · exact ⟨k+1, Nat.le_refl _, h3, Or.inl rfl⟩
        · exact ⟨k, by omega, h1, Or.inr (by omega)⟩
      · exact ⟨k, by omega, h1, Or.inr h2⟩
  obtain ⟨k, hk, h1, h2⟩ := key recs.length (Nat.le_refl _)
  exact ⟨k, hk, truncation c hB hB2 hcrc recs n k hk h1 h2⟩

/-- **(E)** leftovers of a dead writer followed by a fresh session: exactly the fresh records -/
theorem readAllLoop_partial (c : Cfg) (hB : H < c.B) (hB2 : c.B ≤ 65535 + H) (hcrc : ∀ d, c.crc d < 2^32)
    (off : Nat) (hoff : off ≤ c.B) (last : Bytes) (j : Nat) (hj : j < (appendWrites c off last).1.length)
    (rs : List Bytes) (fuel : Nat)
    (hf : ((((appendWrites c off last).1.take j).flatten) ++
      (appendAllWrites c ((off + (((appendWrites c off last).1.take j).flatten).length) % c.B) rs).1.flatten).length
        < fuel) :
    readAllLoop c fuel ((((appendWrites c off last).1.take j).flatten) ++
      (appendAllWrites c ((off + (((appendWrites c off last).1.take j).flatten).length) % c.B) rs).1.flatten)
      (off % c.B) = rs := by
  obtain ⟨f, rfl⟩ : ∃ f, fuel = f + 1 := ⟨fuel - 1, by omega⟩
  have hH : H = 7 := rfl
  rw [readAllLoop_succ]
  unfold readRecord
  unfold appendWrites at hj hf ⊢
  generalize hP : ((appendLoop c (appendFuel last) off last true).1.take j).flatten = P at hf ⊢
  have hpart := fun rf X => readRecordLoop_partial c hB hB2 hcrc (appendFuel last) off last true j rf [] false X
    hoff hj
  rw [hP] at hpart
  cases rs with
  | nil =>
    obtain ⟨rf', acc', frag', _, he⟩ := hpart ((P ++ (appendAllWrites c ((off + P.length) % c.B) []).1.flatten).length + 1) []
    simp only [appendAllWrites_nil, List.flatten_nil] at he ⊢
    rw [he, readRecordLoop_nil]
  | cons r rs =>
    have ho2 : (off + P.length) % c.B ≤ c.B := Nat.le_of_lt (Nat.mod_lt _ (by omega))
    have h1 := appendWrites_off c hB _ r ho2
    have h2 := appendWrites_length c ((off + P.length) % c.B) r
    rw [appendAllWrites_cons] at hf ⊢
    simp only [List.flatten_append, List.length_append] at hf ⊢
    obtain ⟨rf', acc', frag', hrf, he⟩ := hpart (P.length + ((appendWrites c ((off + P.length) % c.B) r).1.flatten.length +
      (appendAllWrites c (appendWrites c ((off + P.length) % c.B) r).2 rs).1.flatten.length) + 1)
      ((appendWrites c ((off + P.length) % c.B) r).1.flatten ++
        (appendAllWrites c (appendWrites c ((off + P.length) % c.B) r).2 rs).1.flatten)
    rw [he]
    have hA := readRecordLoop_writes c hB hB2 hcrc (appendFuel r) ((off + P.length) % c.B) r true rf' acc' frag'
      (appendAllWrites c (appendWrites c ((off + P.length) % c.B) r).2 rs).1.flatten ho2
      (fuelOK_appendFuel c _ r) (Or.inl rfl) (by unfold appendWrites at hrf; omega)
    rw [Nat.mod_mod] at hA
    unfold appendWrites
    unfold appendWrites at hA
    rw [hA]
    simp only [if_true, List.cons.injEq, true_and]
    have hD := readAllLoop_writes c hB hB2 hcrc rs (appendWrites c ((off + P.length) % c.B) r).2 f [] h1.1
      (by simp only [List.append_nil]; omega)
    unfold appendWrites at hD
    rw [List.append_nil] at hD
    rw [hD, readAllLoop_nil, List.append_nil]

theorem partial_then_append (c : Cfg) (hB : H < c.B) (hB2 : c.B ≤ 65535 + H) (hcrc : ∀ d, c.crc d < 2^32)
    (recs : List Bytes) (last : Bytes) (j : Nat) (rs : List Bytes)
    (hj : j < (appendWrites c (openOffset c (writeSession c [] recs).length) last).1.length) :
    readAll c (writeSession c (writeSessionCut c (writeSession c [] recs) [last] j) rs) = recs ++ rs := by
  have h0 := appendAllWrites_off c hB recs 0 (Nat.zero_le _)
  rw [Nat.zero_add] at h0
  have hlen := appendAllWrites_length c recs 0
  rw [writeSession_nil] at hj ⊢
  unfold openOffset at hj
  rw [h0.2, appendWrites_mod c hB _ h0.1] at hj
  unfold writeSessionCut writeSession openOffset
  rw [appendAllWrites_cons, appendAllWrites_nil, List.append_nil, h0.2, appendWrites_mod c hB _ h0.1]
  generalize he : (appendAllWrites c 0 recs).2 = e at *
  generalize hS : (appendAllWrites c 0 recs).1.flatten = S at *
  have hmod : (S ++ ((appendWrites c e last).1.take j).flatten).length % c.B
      = (e + ((appendWrites c e last).1.take j).flatten.length) % c.B := by
    rw [List.length_append, Nat.add_mod, h0.2, ← Nat.add_mod]
  rw [hmod]
  unfold readAll
  rw [List.append_assoc]
  have hD := readAllLoop_writes c hB hB2 hcrc recs 0
  rw [Nat.zero_mod, hS, he] at hD
  rw [hD _ _ (Nat.zero_le _) (Nat.lt_succ_self _)]
  rw [readAllLoop_partial c hB hB2 hcrc e h0.1 last j hj rs]
  simp only [List.length_append] at hlen ⊢
  omega

end Rain.Log
