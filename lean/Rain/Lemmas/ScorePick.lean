import Rain.Lemmas.Score
import Rain.Props.Pick
/-
Compaction scoring meets input selection: the seed `pick_compaction` hands to
`finalize_compaction_inputs` satisfies the hypotheses of `C07_selected_inputs_are_valid`
(`Rain/Props/Pick.lean`), so what it picks satisfies the input clauses of `validCompaction`.
-/
namespace Rain.Score.Lemmas
open Rain Rain.Lsm Rain.Lsm.Lemmas Rain.Score

theorem picked_inputs_valid (s : State) (hinv : invB s = true) (p : Params) (mx : Nat)
    (size : Nat → Nat) (ptrs : List (Option (Bytes × Nat))) {lvl : Nat} {i0 i1 : List File}
    (h : pickOutcome p mx size s.levels ptrs = .picked lvl i0 i1) :
    validInputs s lvl (i0.map File.num) (i1.map File.num) = true := by
  obtain ⟨_, _, hlev, f, hf, e0, e1⟩ := pickOutcome_picked h
  have inv := (invB_iff s).mp hinv
  have hmem := pickSeed_mem hf
  have hwf : ∀ g ∈ s.levels.getD lvl [], kLt g.largest g.smallest = false :=
    fun g hg => (inv.files lvl g hg).wf
  have hne : seedFiles (s.levels.getD lvl []) lvl f ≠ [] := by
    intro e
    have := seedFiles_mem (lvl := lvl) hmem (fun _ => hwf f hmem)
    rw [e] at this
    cases this
  rw [e0, e1]
  refine C07_selected_inputs_are_valid s hinv lvl hlev _ hne (seedFiles_sublist hmem) ?_ ?_ size mx
  · intro hz
    subst hz
    simp only [seedFiles, if_true]
    exact (seed_level0_closed _ _ _).newer
  · intro hz
    simp only [seedFiles, hz, if_false]
    exact seed_single_convex _ hwf f hmem

/-- the seek-triggered branch yields valid inputs for a recorded file that is in its level -/
theorem seek_inputs_valid (s : State) (hinv : invB s = true) (mx : Nat) (size : Nat → Nat)
    {lvl : Nat} {f : File} (hmem : f ∈ s.levels.getD lvl []) {l' : Nat} {i0 i1 : List File}
    (h : pickSeek mx size s.levels lvl f = .picked l' i0 i1) :
    l' = lvl ∧ validInputs s lvl (i0.map File.num) (i1.map File.num) = true := by
  unfold pickSeek at h
  split at h
  · cases h
  · rename_i hl
    simp only [Outcome.picked.injEq] at h
    obtain ⟨rfl, e0, e1⟩ := h
    refine ⟨rfl, ?_⟩
    have hlev : lvl + 1 < 7 := by simp [numLevels] at hl; omega
    have inv := (invB_iff s).mp hinv
    have hwf : ∀ g ∈ s.levels.getD lvl [], kLt g.largest g.smallest = false :=
      fun g hg => (inv.files lvl g hg).wf
    have hne : seedFiles (s.levels.getD lvl []) lvl f ≠ [] := by
      intro e
      have := seedFiles_mem (lvl := lvl) hmem (fun _ => hwf f hmem)
      rw [e] at this
      cases this
    rw [← e0, ← e1]
    refine C07_selected_inputs_are_valid s hinv lvl hlev _ hne (seedFiles_sublist hmem) ?_ ?_ size mx
    · intro hz
      subst hz
      simp only [seedFiles, if_true]
      exact (seed_level0_closed _ _ _).newer
    · intro hz
      simp only [seedFiles, hz, if_false]
      exact seed_single_convex _ hwf f hmem

end Rain.Score.Lemmas
