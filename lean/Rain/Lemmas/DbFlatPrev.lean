import Rain.Lemmas.DbFlatBasic
/-
`backOff`, `findPrevLoop`, `findPrev` over a flat sorted list.
-/
set_option linter.unusedSectionVars false
namespace Rain.DbFlat
open Rain Rain.Lsm Rain.Table Rain.Merge Rain.DbIter Rain.OrderIter Rain.Visible Rain.Cut Rain.DbEqns

/-- the inner position `p'` of a backward-valid iterator whose visible entry is at index `r`:
`p'` is invalid or before `r`, and everything strictly between is above the bound -/
def Cgap (es : List Entry) (snap : Nat) (p' r : Nat) : Prop :=
  (p' = es.length ∨ p' < r) ∧ ∀ i, i < r → (p' = es.length ∨ p' < i) → SeqGt es snap i

/-- loop invariant of `findPrevLoop`: indices `≥ q` (up to the start `b`) have been processed -/
structure PJ (es : List Entry) (snap : Nat) (b q : Nat) (lp : Bool) (ck cv : Option Bytes) : Prop where
  t : lp = true → ∃ r e, q ≤ r ∧ r ≤ b ∧ es[r]? = some e ∧ ck = some e.ukey ∧ cv = some e.val ∧
        e.put = true ∧ e.seq ≤ snap ∧ (∀ i, q ≤ i → i < r → SeqGt es snap i) ∧
        (∀ i, r < i → i ≤ b → NV es snap i)
  f : lp = false → ∀ i, q ≤ i → i ≤ b → NV es snap i

def PrevRes (es : List Entry) (snap : Nat) (b : Nat) (r : DState Nat × Bool) : Prop :=
  (r.2 = true → ∃ r0 e, r0 ≤ b ∧ es[r0]? = some e ∧ visB es snap e = true ∧
      r.1.ckey = some e.ukey ∧ r.1.cval = some e.val ∧
      (∀ i, r0 < i → i ≤ b → NV es snap i) ∧ Cgap es snap r.1.inner r0) ∧
  (r.2 = false → ∀ i, i ≤ b → NV es snap i)

theorem findPrevLoop_dir {σ} (I : Inner σ) (snap fuel : Nat) (s : DState σ) (lp : Bool) :
    (findPrevLoop I snap fuel s lp).1.dir = s.dir := by
  induction fuel generalizing s lp with
  | zero => rfl
  | succ fuel ih =>
    rw [findPrevLoop_succ]
    cases I.cur s.inner with
    | none => rfl
    | some e =>
      simp only
      split
      · split
        · rfl
        · cases I.cur (I.step s.inner .prev) with
          | none => rfl
          | some e2 => simp only; rw [ih]; rfl
      · cases I.cur (I.step s.inner .prev) with
        | none => rfl
        | some e2 => simp only; rw [ih]

section
variable {es : List Entry} (hs : Sorted es) {snap : Nat}
include hs

theorem backOff_flat (fuel q : Nat) (key : Bytes) (hq : q < es.length) (hf : q + 1 ≤ fuel) :
    ((backOff (flatInner es) fuel q key).2 = true →
      (backOff (flatInner es) fuel q key).1 < q ∧
      (∃ y, es[(backOff (flatInner es) fuel q key).1]? = some y ∧ bytesLt y.ukey key = true) ∧
      ∀ i y, (backOff (flatInner es) fuel q key).1 < i → i < q → es[i]? = some y → bytesLt y.ukey key = false) ∧
    ((backOff (flatInner es) fuel q key).2 = false →
      ∀ i y, i < q → es[i]? = some y → bytesLt y.ukey key = false) := by
  induction fuel generalizing q with
  | zero => omega
  | succ fuel ih =>
    rw [backOff_succ, flat_prev, flat_cur]
    cases q with
    | zero =>
      simp only [true_or, if_true]
      rw [List.getElem?_eq_none (Nat.le_refl _)]
      simp
    | succ p =>
      rw [if_neg (by omega)]
      simp only [Nat.add_sub_cancel]
      obtain ⟨y, hy⟩ : ∃ y, es[p]? = some y := ⟨es[p]'(by omega), List.getElem?_eq_getElem (by omega)⟩
      rw [hy]
      simp only
      by_cases hlt : bytesLt y.ukey key = true
      · rw [if_pos hlt]
        simp only [true_implies, Bool.true_eq_false, false_implies, and_true]
        refine ⟨by omega, ⟨y, hy, hlt⟩, ?_⟩
        intro i y' h1 h2; omega
      · rw [if_neg hlt]
        obtain ⟨i1, i2⟩ := ih p (by omega) (by omega)
        constructor
        · intro hb
          obtain ⟨a1, a2, a3⟩ := i1 hb
          refine ⟨by omega, a2, ?_⟩
          intro i y' h1 h2 hy'
          rcases Nat.lt_or_eq_of_le (Nat.le_of_lt_succ h2) with h | h
          · exact a3 i y' h1 h hy'
          · subst h; rw [hy] at hy'; simp at hy'; subst hy'; simpa using hlt
        · intro hb i y' h2 hy'
          rcases Nat.lt_or_eq_of_le (Nat.le_of_lt_succ h2) with h | h
          · exact i2 hb i y' h hy'
          · subst h; rw [hy] at hy'; simp at hy'; subst hy'; simpa using hlt

theorem pj_final {b : Nat} {lp : Bool} {ck cv : Option Bytes} (d : Dir) (v : Bool)
    (h : PJ es snap b 0 lp ck cv) : PrevRes es snap b (⟨es.length, d, v, ck, cv⟩, lp) := by
  constructor
  · intro hlp
    obtain ⟨r, e, _, h2, h3, h4, h5, h6, h7, h8, h9⟩ := h.t hlp
    refine ⟨r, e, h2, h3, ?_, h4, h5, h9, .inl rfl, fun i hi _ => h8 i (Nat.zero_le _) hi⟩
    apply vis_of_idx hs h3 h7 h6
    intro i x hi hx _
    exact h8 i (Nat.zero_le _) hi x hx
  · intro hlp i hi
    exact h.f hlp i (Nat.zero_le _) hi

theorem pj_stop {b p : Nat} {ck cv : Option Bytes} {e0 : Entry} (d : Dir) (v : Bool)
    (h : PJ es snap b (p + 1) true ck cv) (he0 : es[p]? = some e0)
    (hstop : stopP e0 true ck = true) : PrevRes es snap b (⟨p, d, v, ck, cv⟩, true) := by
  constructor
  · intro _
    obtain ⟨r, e, h1, h2, h3, h4, h5, h6, h7, h8, h9⟩ := h.t rfl
    subst h4
    simp only [stopP, Bool.true_and] at hstop
    refine ⟨r, e, h2, h3, ?_, rfl, h5, h9, ⟨.inr (show p < r by omega), ?_⟩⟩
    · apply vis_of_idx hs h3 h7 h6
      intro i x hi hx hu
      by_cases hip : p + 1 ≤ i
      · exact h8 i hip hi x hx
      · exfalso
        have h10 := ukey_le_idx hs (by omega : i ≤ p) hx he0
        have := bLt_of_not_lt_of_lt h10 hstop
        rw [hu, bLt_irrefl] at this; simp at this
    · intro i hi hpi
      simp only at hpi
      rcases hpi with hpi | hpi
      · have := lt_of_get he0; omega
      · exact h8 i (by omega) hi
  · intro hc; simp at hc

theorem pj_record {b p : Nat} {lp : Bool} {ck cv : Option Bytes} {e0 : Entry}
    (h : PJ es snap b (p + 1) lp ck cv) (hpb : p ≤ b) (he0 : es[p]? = some e0) (hq : e0.seq ≤ snap)
    (hstop : ¬ stopP e0 lp ck = true) :
    PJ es snap b p e0.put (if e0.put then some e0.ukey else none) (if e0.put then some e0.val else none) := by
  have allNV : ∀ i, p + 1 ≤ i → i ≤ b → NV es snap i := by
    cases hlp : lp with
    | false => exact h.f hlp
    | true =>
      obtain ⟨r, e, h1, h2, h3, h4, h5, h6, h7, h8, h9⟩ := h.t hlp
      subst h4
      simp only [hlp, stopP, Bool.true_and, Bool.not_eq_true] at hstop
      intro i hi hib
      rcases Nat.lt_trichotomy i r with hir | hir | hir
      · exact (h8 i hi hir).nv
      · subst hir
        intro y hy
        rw [h3] at hy; simp at hy; subst hy
        cases hv : visB es snap e
        · rfl
        · exfalso
          have h10 := ukey_le_idx hs (by omega : p ≤ i) he0 h3
          have heq : e0.ukey = e.ukey := bLt_total hstop h10
          have hlt := seq_lt_idx hs (by omega : p < i) he0 h3 heq
          have := vis_before hv he0 heq hlt
          omega
      · exact h9 i hir hib
  cases hp : e0.put with
  | true =>
    constructor
    · intro _
      refine ⟨p, e0, Nat.le_refl _, hpb, he0, by simp, by simp, hp, hq, ?_, ?_⟩
      · intro i h1 h2; omega
      · intro i h1 h2; exact allNV i h1 h2
    · intro hc; simp at hc
  | false =>
    constructor
    · intro hc; simp at hc
    · intro _ i h1 h2
      rcases Nat.lt_or_eq_of_le h1 with h | h
      · exact allNV i h h2
      · subst h
        intro y hy
        rw [he0] at hy; simp at hy; subst hy
        simp [visB, hp]

theorem pj_skip {b p : Nat} {lp : Bool} {ck cv : Option Bytes} {e0 : Entry}
    (h : PJ es snap b (p + 1) lp ck cv) (he0 : es[p]? = some e0) (hq : ¬ e0.seq ≤ snap) :
    PJ es snap b p lp ck cv := by
  have hsg : SeqGt es snap p := by
    intro y hy; rw [he0] at hy; simp at hy; subst hy; omega
  constructor
  · intro hlp
    obtain ⟨r, e, h1, h2, h3, h4, h5, h6, h7, h8, h9⟩ := h.t hlp
    refine ⟨r, e, by omega, h2, h3, h4, h5, h6, h7, ?_, h9⟩
    intro i hi hir
    rcases Nat.lt_or_eq_of_le hi with h | h
    · exact h8 i h hir
    · subst h; exact hsg
  · intro hlp i hi hib
    rcases Nat.lt_or_eq_of_le hi with h' | h'
    · exact h.f hlp i h' hib
    · subst h'; exact hsg.nv

theorem findPrevLoop_flat (b : Nat) (fuel p : Nat) (lp : Bool) (d : Dir) (v : Bool) (ck cv : Option Bytes)
    (hp : p < es.length) (hpb : p ≤ b) (hf : p + 1 ≤ fuel) (hj : PJ es snap b (p + 1) lp ck cv) :
    PrevRes es snap b (findPrevLoop (flatInner es) snap fuel ⟨p, d, v, ck, cv⟩ lp) := by
  induction fuel generalizing p lp ck cv with
  | zero => omega
  | succ fuel ih =>
    rw [findPrevLoop_succ]
    simp only [flat_cur, flat_prev]
    obtain ⟨e0, he0⟩ : ∃ e, es[p]? = some e := ⟨es[p], List.getElem?_eq_getElem hp⟩
    rw [he0]
    simp only
    by_cases hq : e0.seq ≤ snap
    · rw [if_pos hq]
      by_cases hstop : stopP e0 lp ck = true
      · rw [if_pos hstop]
        have hlp : lp = true := by
          simp only [stopP, Bool.and_eq_true] at hstop; exact hstop.1
        subst hlp
        exact pj_stop hs d v hj he0 hstop
      · rw [if_neg hstop]
        have hj' := pj_record hs hj hpb he0 hq hstop
        cases p with
        | zero =>
          simp only [true_or, if_true]
          rw [List.getElem?_eq_none (Nat.le_refl _)]
          simp only [recP]
          exact pj_final hs d v hj'
        | succ p' =>
          rw [if_neg (by omega)]
          simp only [Nat.add_sub_cancel]
          obtain ⟨e1, he1⟩ : ∃ e, es[p']? = some e := ⟨es[p']'(by omega), List.getElem?_eq_getElem (by omega)⟩
          rw [he1]
          simp only [recP]
          exact ih p' _ _ _ (by omega) (by omega) (by omega) hj'
    · rw [if_neg hq]
      have hj' := pj_skip hs hj he0 hq
      cases p with
      | zero =>
        simp only [true_or, if_true]
        rw [List.getElem?_eq_none (Nat.le_refl _)]
        exact pj_final hs d v hj'
      | succ p' =>
        rw [if_neg (by omega)]
        simp only [Nat.add_sub_cancel]
        obtain ⟨e1, he1⟩ : ∃ e, es[p']? = some e := ⟨es[p']'(by omega), List.getElem?_eq_getElem (by omega)⟩
        rw [he1]
        exact ih p' _ _ _ (by omega) (by omega) (by omega) hj'

end

end Rain.DbFlat
