import Rain.Concat
import Rain.Lemmas.TwoLevel
/-
`FilesEntryIterator` against the flat cursor: the development of `Rain/Lemmas/TwoLevel.lean` for a
two-level structure whose index keys are the LAST keys of its blocks (`Rain.Concat.mkLevel`) instead
of the table builder's separators.  The lemmas about an arbitrary `Table` (repositioning, the skip
loops) are shared; what depends on the index keys - where `seek` lands - is re-proved here.
-/
namespace Rain.Concat.Lemmas
open Rain Rain.Lsm Rain.Block Rain.Table Rain.Order Rain.Block.Lemmas Rain.Table.Lemmas Rain.Concat

theorem lastKeys_length (bl : List (List Entry)) : (lastKeys bl).length = bl.length := by
  simp [lastKeys]

/-- the largest key of the first file: at least every key of the file, strictly below every later
key (the level is sorted) -/
theorem last_head (b : List Entry) (rest : List (List Entry)) (hb : b ≠ [])
    (hp : (b ++ rest.flatten).Pairwise ELt) :
    ∃ ik, lastKeys (b :: rest) = ik :: lastKeys rest ∧
      (∀ e ∈ b, kLt ik e.key = false) ∧
      (∀ e ∈ rest.flatten, kLt ik e.key = true) := by
  obtain ⟨hpb, _, hcross⟩ := List.pairwise_append.mp hp
  obtain ⟨l, hl, hlk, hlall⟩ := lastKey_spec b hb hpb
  refine ⟨l.key, by simp [lastKeys, hlk], ?_, ?_⟩
  · intro e he
    rcases hlall e he with rfl | hlt
    · exact kLt_irrefl _
    · cases h2 : kLt l.key e.key with
      | false => rfl
      | true => have := kLt_trans h2 hlt; rw [kLt_irrefl] at this; cases this
  · intro e he
    exact hcross l hl e he

theorem seek_core_last (blocks : List (List Entry)) (hne : ∀ b ∈ blocks, b ≠ [])
    (hp : blocks.flatten.Pairwise ELt) (t : Bytes × Nat) :
    (blocks.length ≤ lowerBound (lastKeys blocks) t →
      lowerBound (blocks.flatten.map Entry.key) t = blocks.flatten.length) ∧
    (lowerBound (lastKeys blocks) t < blocks.length →
      lowerBound (blocks.flatten.map Entry.key) t =
        offs blocks (lowerBound (lastKeys blocks) t) +
          lowerBound ((blocks.getD (lowerBound (lastKeys blocks) t) []).map Entry.key) t) := by
  induction blocks with
  | nil => simp [lowerBound]
  | cons b rest ih =>
    have hb : b ≠ [] := hne b List.mem_cons_self
    have hrest : ∀ c ∈ rest, c ≠ [] := fun c hc => hne c (List.mem_cons_of_mem _ hc)
    simp only [List.flatten_cons] at hp ⊢
    obtain ⟨ik, hidx, ha, hbb⟩ := last_head b rest hb hp
    have hpr := (List.pairwise_append.mp hp).2.1
    obtain ⟨ih1, ih2⟩ := ih hrest hpr
    rw [hidx, List.map_append]
    cases hik : kLt ik t with
    | true =>
      have hall : ∀ k ∈ b.map Entry.key, kLt k t = true := by
        intro k hk
        obtain ⟨e, he, rfl⟩ := List.mem_map.mp hk
        exact k_le_lt (ha e he) hik
      rw [lb_append_all _ hall]
      simp only [lowerBound, hik, if_true, List.length_cons, Nat.add_le_add_iff_right,
        Nat.add_lt_add_iff_right, List.getD_cons_succ, offs, List.length_append, List.length_map]
      constructor
      · intro h; rw [ih1 h]
      · intro h; rw [ih2 h]; omega
    | false =>
      simp only [lowerBound, hik, Bool.false_eq_true, if_false, List.length_cons,
        List.getD_cons_zero, offs, Nat.zero_add]
      constructor
      · intro h; omega
      · intro _
        by_cases hj : lowerBound (b.map Entry.key) t < (b.map Entry.key).length
        · exact lb_append_lt _ hj
        · have hjeq : lowerBound (b.map Entry.key) t = (b.map Entry.key).length := by
            have := lb_le (b.map Entry.key) t; omega
          rw [lb_append_all _ (lb_all_of_eq hjeq), hjeq]
          have : lowerBound (rest.flatten.map Entry.key) t = 0 := by
            cases hfl : rest.flatten with
            | nil => rfl
            | cons e es =>
              have h1 : kLt ik e.key = true := hbb e (by rw [hfl]; simp)
              have h2 : kLt e.key t = false := by
                cases hh : kLt e.key t with
                | false => rfl
                | true => rw [kLt_trans h1 hh] at hik; cases hik
              simp [lowerBound, h2]
          rw [this]; rfl


def InvL (bl : List (List Entry)) (s : TL) (pos : Nat) : Prop :=
  (pos < bl.flatten.length ∧ ∃ b p, s = mk b p ∧ b < bl.length ∧ p < (bl.getD b []).length ∧
    pos = offs bl b + p) ∨
  (bl.flatten.length ≤ pos ∧ s.valid (mkLevel bl) = false)

theorem idx_lenL (bl : List (List Entry)) : (mkLevel bl).index.length = bl.length := lastKeys_length bl

theorem blockLen_mkL (bl : List (List Entry)) (b : Nat) :
    blockLen (mkLevel bl) b = (bl.getD b []).length := rfl

theorem block_posL (bl : List (List Entry)) (hne : ∀ b ∈ bl, b ≠ []) :
    ∀ b, b < (mkLevel bl).index.length → 0 < blockLen (mkLevel bl) b := by
  intro b hb
  rw [idx_lenL] at hb
  rw [blockLen_mkL, List.getD_eq_getElem?_getD, List.getElem?_eq_getElem hb]
  simp only [Option.getD_some]
  exact List.length_pos_iff.mpr (hne _ (List.getElem_mem hb))

theorem InvL_valid (bl : List (List Entry)) (b p : Nat) (hb : b < bl.length)
    (hp : p < (bl.getD b []).length) : InvL bl (mk b p) (offs bl b + p) := by
  left
  have := offs_add_le bl b hb
  exact ⟨by omega, b, p, rfl, hb, hp, rfl⟩

/-- positioned in block `b` at `p ≤ length`, then `skip_empty_data_blocks_forward` -/
theorem landingL (bl : List (List Entry)) (hne : ∀ b ∈ bl, b ≠ []) (b p : Nat) (hb : b < bl.length)
    (hp : p ≤ (bl.getD b []).length) :
    InvL bl (skipFwd (mkLevel bl) ((mkLevel bl).index.length + 1) (mk b p)) (offs bl b + p) := by
  by_cases hlt : p < (bl.getD b []).length
  · rw [skipFwd_valid _ _ _ (by rw [valid_mk, blockLen_mkL]; simpa using hlt)]
    exact InvL_valid bl b p hb hlt
  · have hpe : p = (bl.getD b []).length := by omega
    have hL : (mkLevel bl).index.length = (bl.length - 1) + 1 := by rw [idx_lenL]; omega
    rw [hL, skipFwd_over (mkLevel bl) (block_posL bl hne) _ b p (by rw [idx_lenL]; exact hb)
      (by rw [blockLen_mkL]; omega)]
    rw [idx_lenL, hpe, ← offs_succ bl b hb]
    by_cases h1 : b + 1 < bl.length
    · simp only [h1, if_true]
      have := InvL_valid bl (b + 1) 0 h1 (by
        have := block_posL bl hne (b + 1) (by rw [idx_lenL]; exact h1)
        rwa [blockLen_mkL] at this)
      simpa using this
    · simp only [h1, if_false]
      right
      have : b + 1 = bl.length := by omega
      rw [this, offs_length]
      exact ⟨Nat.le_refl _, rfl⟩

theorem InvL_step (bl : List (List Entry)) (hne : ∀ b ∈ bl, b ≠ []) (hnb : bl ≠ [])
    (hp : bl.flatten.Pairwise ELt) (s : TL) (pos : Nat) (op : COp) (h : InvL bl s pos) :
    InvL bl (tlStep (mkLevel bl) s op) (flatStep bl.flatten pos op) := by
  have hLpos : 0 < bl.length := List.length_pos_iff.mpr hnb
  have hpos := block_posL bl hne
  have hfl : (bl.flatten.map Entry.key).length = bl.flatten.length := List.length_map _
  cases op with
  | seek tg =>
    simp only [tlStep, flatStep, blockStep]
    rw [reposition (mkLevel bl) s _ (fun b => lowerBound (((mkLevel bl).blocks.getD b []).map Entry.key) tg)]
    obtain ⟨c1, c2⟩ := seek_core_last bl hne hp tg
    have hidx : (mkLevel bl).index = lastKeys bl := rfl
    by_cases hi : (mkLevel bl).index.length ≤ lowerBound (mkLevel bl).index tg
    · simp only [hi, if_true]
      rw [skipFwd_dead _ _ _ hi]
      right
      rw [idx_lenL, hidx] at hi
      rw [c1 hi]
      exact ⟨Nat.le_refl _, rfl⟩
    · simp only [hi, if_false]
      rw [idx_lenL, hidx] at hi
      rw [c2 (by omega), hidx]
      apply landingL bl hne _ _ (by omega)
      have := lb_le ((bl.getD (lowerBound (lastKeys bl) tg) []).map Entry.key) tg
      rw [List.length_map] at this
      exact this
  | first =>
    simp only [tlStep, flatStep, blockStep]
    rw [reposition (mkLevel bl) s 0 (fun _ => 0)]
    have : ¬ ((mkLevel bl).index.length ≤ 0) := by rw [idx_lenL]; omega
    simp only [this, if_false]
    have := landingL bl hne 0 0 hLpos (Nat.zero_le _)
    simpa [offs_zero] using this
  | last =>
    simp only [tlStep, flatStep, blockStep]
    rw [reposition (mkLevel bl) s _ (fun b => blockLen (mkLevel bl) b - 1)]
    have : ¬ ((mkLevel bl).index.length ≤ (mkLevel bl).index.length - 1) := by rw [idx_lenL]; omega
    simp only [this, if_false]
    have hbl := hpos (bl.length - 1) (by rw [idx_lenL]; omega)
    rw [idx_lenL]
    rw [skipBwd_valid _ _ _ (by rw [valid_mk]; simp only [decide_eq_true_eq]; omega)]
    rw [blockLen_mkL] at hbl ⊢
    have h1 := InvL_valid bl (bl.length - 1) ((bl.getD (bl.length - 1) []).length - 1) (by omega) (by omega)
    have h2 := offs_succ bl (bl.length - 1) (by omega)
    have h3 : bl.length - 1 + 1 = bl.length := by omega
    rw [h3, offs_length] at h2
    have h4 : (bl.flatten.map Entry.key).length - 1 =
        offs bl (bl.length - 1) + ((bl.getD (bl.length - 1) []).length - 1) := by
      rw [hfl]; omega
    rw [h4]; exact h1
  | next =>
    rcases h with ⟨hlt, b, p, rfl, hb, hpl, rfl⟩ | ⟨hge, hinv⟩
    · have hv : (mk b p).valid (mkLevel bl) = true := by
        rw [valid_mk, blockLen_mkL]; simpa using hpl
      have hkl : (((mkLevel bl).blocks.getD b []).map Entry.key).length = (bl.getD b []).length := by
        simp [mkLevel]
      have hnle : ¬ ((bl.getD b []).length ≤ p) := by omega
      have hnle2 : ¬ (bl.flatten.length ≤ offs bl b + p) := by omega
      simp only [tlStep, hv, Bool.not_true, Bool.false_eq_true, if_false, setPos_mk, blockStep, hkl,
        hnle, flatStep, hfl, hnle2]
      have hland := landingL bl hne b (p + 1) hb (by omega)
      have : (if (mk b (p + 1)).valid (mkLevel bl) = true then mk b (p + 1)
          else skipFwd (mkLevel bl) ((mkLevel bl).index.length + 1) (mk b (p + 1))) =
          skipFwd (mkLevel bl) ((mkLevel bl).index.length + 1) (mk b (p + 1)) := by
        split
        · next hvv => rw [skipFwd_valid _ _ _ hvv]
        · rfl
      rw [this]
      exact hland
    · have hge' : (bl.flatten.map Entry.key).length ≤ pos := by rw [hfl]; exact hge
      simp only [tlStep, hinv, Bool.not_false, if_true, flatStep, blockStep, hge']
      right
      exact ⟨by rw [hfl]; exact Nat.le_refl _, hinv⟩
  | prev =>
    rcases h with ⟨hlt, b, p, rfl, hb, hpl, rfl⟩ | ⟨hge, hinv⟩
    · have hv : (mk b p).valid (mkLevel bl) = true := by
        rw [valid_mk, blockLen_mkL]; simpa using hpl
      have hkl : (((mkLevel bl).blocks.getD b []).map Entry.key).length = (bl.getD b []).length := by
        simp [mkLevel]
      have hnle : ¬ ((bl.getD b []).length ≤ p) := by omega
      have hnle2 : ¬ (bl.flatten.length ≤ offs bl b + p) := by omega
      simp only [tlStep, hv, Bool.not_true, Bool.false_eq_true, if_false, setPos_mk, blockStep, hkl,
        hnle, flatStep, hfl, hnle2, or_false]
      by_cases hp0 : p = 0
      · subst hp0
        have hiv : (mk b (bl.getD b []).length).valid (mkLevel bl) = false := by
          rw [valid_mk, blockLen_mkL]; simp
        simp only [if_true, hiv, Bool.false_eq_true, if_false]
        have hL : (mkLevel bl).index.length + 1 = (bl.length - 1) + 2 := by rw [idx_lenL]; omega
        rw [hL, skipBwd_over (mkLevel bl) hpos _ b _ (by rw [idx_lenL]; exact hb)
          (by rw [blockLen_mkL]; exact Nat.le_refl _)]
        by_cases hb0 : b = 0
        · subst hb0
          simp only [if_true, offs_zero, Nat.add_zero]
          right
          exact ⟨Nat.le_refl _, rfl⟩
        · have hs := offs_succ bl (b - 1) (by omega)
          have hb1 : b - 1 + 1 = b := by omega
          rw [hb1] at hs
          have hbl := hpos (b - 1) (by rw [idx_lenL]; omega)
          rw [blockLen_mkL] at hbl
          have hne0 : ¬ (offs bl b + 0 = 0) := by omega
          simp only [hb0, if_false, hne0, blockLen_mkL]
          have h1 := InvL_valid bl (b - 1) ((bl.getD (b - 1) []).length - 1) (by omega) (by omega)
          have h4 : offs bl b + 0 - 1 = offs bl (b - 1) + ((bl.getD (b - 1) []).length - 1) := by omega
          rw [h4]; exact h1
      · have hvv : (mk b (p - 1)).valid (mkLevel bl) = true := by
          rw [valid_mk, blockLen_mkL]; simp only [decide_eq_true_eq]; omega
        have hne0 : ¬ (offs bl b + p = 0) := by omega
        simp only [hp0, if_false, hvv, if_true, hne0]
        have h1 := InvL_valid bl b (p - 1) hb (by omega)
        have h4 : offs bl b + p - 1 = offs bl b + (p - 1) := by omega
        rw [h4]; exact h1
    · have hge' : (bl.flatten.map Entry.key).length ≤ pos := by rw [hfl]; exact hge
      simp only [tlStep, hinv, Bool.not_false, if_true, flatStep, blockStep, hge', or_true]
      right
      exact ⟨by rw [hfl]; exact Nat.le_refl _, hinv⟩

theorem InvL_run (bl : List (List Entry)) (hne : ∀ b ∈ bl, b ≠ []) (hnb : bl ≠ [])
    (hp : bl.flatten.Pairwise ELt) (ops : List COp) (s : TL) (pos : Nat) (h : InvL bl s pos) :
    InvL bl (ops.foldl (tlStep (mkLevel bl)) s) (ops.foldl (flatStep bl.flatten) pos) := by
  induction ops generalizing s pos with
  | nil => exact h
  | cons op rest ih => exact ih _ _ (InvL_step bl hne hnb hp s pos op h)

theorem InvL_init (bl : List (List Entry)) : InvL bl (TL.init (mkLevel bl)) bl.flatten.length :=
  Or.inr ⟨Nat.le_refl _, rfl⟩

theorem InvL_concl (bl : List (List Entry)) (s : TL) (pos : Nat) (h : InvL bl s pos) :
    s.valid (mkLevel bl) = decide (pos < bl.flatten.length) ∧
    (s.valid (mkLevel bl) = true → s.current (mkLevel bl) = bl.flatten[pos]?) := by
  rcases h with ⟨hlt, b, p, rfl, hb, hpl, rfl⟩ | ⟨hge, hinv⟩
  · have hv : (mk b p).valid (mkLevel bl) = true := by
      rw [valid_mk, blockLen_mkL]; simpa using hpl
    refine ⟨by rw [hv]; simpa using hlt, fun _ => ?_⟩
    rw [flatten_get bl b p hb hpl]
    rfl
  · refine ⟨by rw [hinv]; exact (decide_eq_false (by omega)).symm, fun h => ?_⟩
    rw [hinv] at h; cases h



end Rain.Concat.Lemmas
