import Rain.Lemmas.BuilderAcc
/-
Compaction pointers through the builder: the last pointer per level wins, so one builder for all
edits leaves the version set's pointers exactly as one builder per edit does.
-/
namespace Rain.Builder.Lemmas
open Rain Rain.Lsm Rain.Builder

/-- first alternative if present -/
def orP (a b : Option Key) : Option Key :=
  match a with
  | some k => some k
  | none => b

theorem orP_assoc (a b c : Option Key) : orP (orP a b) c = orP a (orP b c) := by
  cases a <;> rfl

theorem find?_filter_of_imp {α : Type} (p q : α → Bool) (l : List α)
    (h : ∀ x, p x = true → q x = true) : (l.filter q).find? p = l.find? p := by
  induction l with
  | nil => rfl
  | cons x l ih =>
    cases hq : q x with
    | true =>
      rw [List.filter_cons_of_pos hq, List.find?_cons, List.find?_cons, ih]
    | false =>
      have hp : p x = false := by
        cases hp : p x with
        | false => rfl
        | true => rw [h x hp] at hq; cases hq
      rw [List.filter_cons_of_neg (by simp [hq]), List.find?_cons, hp, ih]

theorem ptrAt_setPointer (p : Nat × Key) (ps : List (Nat × Key)) (i : Nat) :
    ptrAt (setPointer p ps) i = if p.1 = i then some p.2 else ptrAt ps i := by
  unfold ptrAt setPointer
  rw [List.find?_append]
  by_cases h : p.1 = i
  · subst h
    have : (ps.filter fun q => !decide (q.1 = p.1)).find? (fun q => q.1 == p.1) = none := by
      rw [List.find?_eq_none]
      intro q hq
      have := (List.mem_filter.mp hq).2
      simpa using this
    simp [this]
  · have h1 : List.find? (fun q => q.1 == i) [p] = none := by simp [h]
    rw [h1, if_neg h, Option.or_none, find?_filter_of_imp]
    intro x hx
    simp only [beq_iff_eq] at hx
    simp only [Bool.not_eq_true', decide_eq_false_iff_not]
    intro hxp
    exact h (by rw [← hxp, hx])

theorem ptrAt_foldl (ptrs ps : List (Nat × Key)) (i : Nat) :
    ptrAt (ptrs.foldl (fun ps p => setPointer p ps) ps) i =
      orP (ptrAt (ptrs.foldl (fun ps p => setPointer p ps) []) i) (ptrAt ps i) := by
  induction ptrs generalizing ps with
  | nil => simp [ptrAt, orP]
  | cons p ptrs ih =>
    simp only [List.foldl_cons]
    rw [ih (setPointer p ps), ih (setPointer p []), ptrAt_setPointer, ptrAt_setPointer, orP_assoc]
    congr 1
    split
    · rfl
    · simp [ptrAt, orP]

theorem accumulate_pointers (b : Builder) (e : Edit) :
    (accumulate b e).pointers = e.pointers.foldl (fun ps p => setPointer p ps) b.pointers := by
  unfold accumulate
  simp only [foldl_addOne_pointers]

theorem ptrAt_accumulate (b : Builder) (e : Edit) (i : Nat) :
    ptrAt (accumulate b e).pointers i =
      orP (ptrAt (accumulate empty e).pointers i) (ptrAt b.pointers i) := by
  rw [accumulate_pointers, accumulate_pointers, ptrAt_foldl]
  rfl

theorem ptrAt_foldl_accumulate (es : List Edit) (b : Builder) (i : Nat) :
    ptrAt (es.foldl accumulate b).pointers i =
      orP (ptrAt (es.foldl accumulate empty).pointers i) (ptrAt b.pointers i) := by
  induction es generalizing b with
  | nil => simp [ptrAt, orP, empty]
  | cons e es ih =>
    simp only [List.foldl_cons]
    rw [ih (accumulate b e), ih (accumulate empty e), ptrAt_accumulate b e, orP_assoc]

theorem applyPointers_length (b : Builder) (v : List (Option Key)) :
    (applyPointers b v).length = v.length := by
  simp [applyPointers]

theorem applyPointers_getElem? (b : Builder) (v : List (Option Key)) (i : Nat) :
    (applyPointers b v)[i]? =
      if i < v.length then some (orP (ptrAt b.pointers i) (v.getD i none)) else none := by
  unfold applyPointers
  rw [List.getElem?_map]
  split
  · rename_i h
    rw [List.getElem?_range h]
    rfl
  · rename_i h
    rw [List.getElem?_eq_none (by simpa using Nat.le_of_not_lt h)]
    rfl

theorem applyPointers_split (es : List Edit) (b : Builder) (v : List (Option Key)) :
    applyPointers (es.foldl accumulate b) v =
      applyPointers (es.foldl accumulate empty) (applyPointers b v) := by
  apply List.ext_getElem?
  intro i
  rw [applyPointers_getElem?, applyPointers_getElem?, applyPointers_length]
  split
  · rename_i h
    have hb : (applyPointers b v).getD i none = orP (ptrAt b.pointers i) (v.getD i none) := by
      rw [List.getD_eq_getElem?_getD, applyPointers_getElem?, if_pos h]
      rfl
    rw [hb, ptrAt_foldl_accumulate es b i, orP_assoc]
  · rfl

end Rain.Builder.Lemmas
