import Rain.Table
import Rain.Lemmas.TableBasic
import Rain.Lemmas.TableGet
import Rain.Lemmas.TwoLevel
/-
The lemmas `Rain/Props/C13.lean` appeals to for tables.  The work is in
`TableBasic.lean` (order, `lowerBound`, offsets, index-key bounds), `TableGet.lean`
(`Table::get`, seek position, partition) and `TwoLevel.lean` (iterator invariant).
-/
namespace Rain.Table.Lemmas
open Rain Rain.Lsm Rain.Block Rain.Table

/-- `hseq` and `hsnap` are not needed: a shortened index key `(u', MAXSEQ)` has a user key
strictly between those of the neighbouring blocks, so sequence numbers never decide. -/
theorem table_get_spec (blocks : List (List Entry)) (hne : ∀ b ∈ blocks, b ≠ [])
    (hsorted : sortedE blocks.flatten = true) (_hseq : ∀ e ∈ blocks.flatten, e.seq ≤ MAXSEQ)
    (filt : Nat → Bytes → Bool)
    (hfilt : ∀ i b, blocks[i]? = some b → ∀ e ∈ b, filt i e.ukey = true)
    (k : Bytes) (snap : Nat) (_hsnap : snap ≤ MAXSEQ) :
    tableGet filt (mkTable blocks) k snap = lookupSorted blocks.flatten k snap :=
  table_get_ind blocks hne (sorted_pairwise _ hsorted) filt hfilt k snap

theorem table_iter (blocks : List (List Entry)) (hne : ∀ b ∈ blocks, b ≠ [])
    (hnb : blocks ≠ [])
    (hsorted : sortedE blocks.flatten = true) (_hseq : ∀ e ∈ blocks.flatten, e.seq ≤ MAXSEQ)
    (ops : List COp) (_hops : ∀ op ∈ ops, ∀ t, op = COp.seek t → t.2 ≤ MAXSEQ) :
    ((ops.foldl (tlStep (mkTable blocks)) (TL.init (mkTable blocks))).valid (mkTable blocks) =
      decide (ops.foldl (flatStep blocks.flatten) blocks.flatten.length < blocks.flatten.length)) ∧
    ((ops.foldl (tlStep (mkTable blocks)) (TL.init (mkTable blocks))).valid (mkTable blocks) = true →
      (ops.foldl (tlStep (mkTable blocks)) (TL.init (mkTable blocks))).current (mkTable blocks) =
        blocks.flatten[ops.foldl (flatStep blocks.flatten) blocks.flatten.length]?) :=
  Inv_concl blocks _ _
    (Inv_run blocks hne hnb (sorted_pairwise _ hsorted) ops _ _ (Inv_init blocks))

theorem partition_ok (maxBlock : Nat) (es : List Entry) :
    (partition maxBlock es).flatten = es ∧ ∀ b ∈ partition maxBlock es, b ≠ [] := by
  have := partLoop_ok maxBlock Rain.Gen.RESTART_INTERVAL es {} []
  simpa [partition] using this

end Rain.Table.Lemmas
