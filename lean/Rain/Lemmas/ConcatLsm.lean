import Rain.Lemmas.LsmInv
import Rain.Lemmas.ConcatIter
/-
The files of a level >= 1 of a state satisfying the LSM invariant meet the hypotheses of the
level-iterator theorem.
-/
namespace Rain.Concat.Lemmas
open Rain Rain.Lsm Rain.Lsm.Lemmas

theorem level_entries_sorted (fs : List File) (hf : ∀ f ∈ fs, FileOk f) (hl : LevelOk fs) :
    Rain.Lsm.Lemmas.Sorted (fs.map File.entries).flatten := by
  unfold Rain.Lsm.Lemmas.Sorted
  rw [List.pairwise_flatten]
  constructor
  · intro l hlm
    obtain ⟨f, hfm, rfl⟩ := List.mem_map.mp hlm
    exact (hf f hfm).sorted
  · rw [List.pairwise_map]
    unfold LevelOk at hl
    refine List.Pairwise.imp_of_mem ?_ hl
    intro f g hfm hgm hfg x hx y hy
    have h1 := (hf f hfm).le_large hx   -- kLt f.largest x.key = false
    have h2 := (hf g hgm).ge_small hy   -- kLt y.key g.smallest = false
    show kLt x.key y.key = true
    exact Rain.Order.k_lt_le (Rain.Order.k_le_lt h1 hfg) h2

end Rain.Concat.Lemmas
