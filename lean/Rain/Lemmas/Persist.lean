import Rain.Persist
import Rain.Lemmas.Lsm
import Rain.Lemmas.Durable
/-
The relation between the LSM state and the disk image of the persisted system, and what it
implies: the image recovers, to exactly the entries the running instance holds.
-/
namespace Rain.Persist.Lemmas
open Rain Rain.Lsm Rain.Durable Rain.Persist Rain.Lsm.Lemmas Rain.Durable.Lemmas

/-- `(level, number)` names a file of the version -/
def InVersion (L : List (List File)) (q : Nat × Nat) : Prop := ∃ f, f ∈ lv L q.1 ∧ f.num = q.2

def batchesFlat (bs : List WBatch) : List Entry := (bs.map batchEntries).flatten

/-- the correspondence between the running instance and its disk image -/
structure Rel (p : PState) : Prop where
  inv : InvP p.s
  wf : WF p.d
  cur : p.d.current = some p.c.manifest
  edits : ∃ es, lookup p.d.manifests p.c.manifest = some es ∧ walNoOf es = some p.c.manWal ∧
    (∀ q, q ∈ versionOf es ↔ InVersion p.s.levels q)
  tables : ∀ l f, f ∈ lv p.s.levels l → lookup p.d.tables f.num = some f.entries
  walMem : ∃ bs, lookup p.d.wals p.c.wal = some bs ∧ ∀ e, e ∈ batchesFlat bs ↔ e ∈ p.s.mem
  walImm : (p.c.immWal = none ∧ p.s.imm = none) ∨
    (∃ wi im bs, p.c.immWal = some wi ∧ p.s.imm = some im ∧ wi < p.c.wal ∧
      lookup p.d.wals wi = some bs ∧ ∀ e, e ∈ batchesFlat bs ↔ e ∈ im)
  /-- every other WAL on disk is older than what the manifest names (waiting to be removed) or
  empty (created and not yet written: the next WAL during recovery) -/
  others : ∀ x ∈ p.d.wals, x.1 = p.c.wal ∨ some x.1 = p.c.immWal ∨ x.1 < p.c.manWal ∨ x.2 = []
  walMax : ∀ x ∈ p.d.wals, x.1 ≤ p.c.wal ∨ x.2 = []
  /-- the manifest never names a WAL newer than the oldest one in use -/
  manLe : p.c.manWal ≤ p.c.w0

theorem w0_le_wal {p : PState} (h : Rel p) : p.c.w0 ≤ p.c.wal := by
  unfold Ctx.w0
  rcases h.walImm with ⟨hn, _⟩ | ⟨wi, im, bs, hw, _, hlt, _⟩
  · rw [hn]; simp
  · rw [hw]; simp; omega

/-! ### membership in what recovery reads -/

theorem mem_tableFlat (tl : Nat → Option (List Entry)) (v : List (Nat × Nat)) (e : Entry) :
    e ∈ tableFlat tl v ↔ ∃ q ∈ v, e ∈ (tl q.2).getD [] := by
  unfold tableFlat
  simp only [List.mem_flatten, List.mem_map]
  constructor
  · rintro ⟨l, ⟨q, hq, rfl⟩, he⟩; exact ⟨q, hq, he⟩
  · rintro ⟨q, hq, he⟩; exact ⟨_, ⟨q, hq, rfl⟩, he⟩

theorem mem_walEntriesOf (wals : List Wal) (w : Nat) (e : Entry) :
    e ∈ walEntriesOf wals w ↔ ∃ x ∈ wals, w ≤ x.1 ∧ e ∈ batchesFlat x.2 := by
  unfold walEntriesOf
  simp only [List.mem_flatten, List.mem_map, List.mem_filter, mem_sortWals, decide_eq_true_eq]
  constructor
  · rintro ⟨l, ⟨x, ⟨hx, hw⟩, rfl⟩, he⟩; exact ⟨x, hx, hw, he⟩
  · rintro ⟨x, hx, hw, he⟩; exact ⟨_, ⟨x, ⟨hx, hw⟩, rfl⟩, he⟩

/-- **the image recovers, and to exactly the entries of the running instance** -/
theorem rel_recover {p : PState} (h : Rel p) :
    ∃ r es, recover p.d = some r ∧ lookup p.d.manifests p.c.manifest = some es ∧
      r.version = versionOf es ∧ r.walNo = p.c.manWal ∧ (∀ q, q ∈ r.version ↔ InVersion p.s.levels q) ∧
      ∀ e, e ∈ r.entries ↔ e ∈ allEntries p.s := by
  obtain ⟨es, hes, hw, hv⟩ := h.edits
  have hall : (versionOf es).all (fun f => (lookup p.d.tables f.2).isSome) = true := by
    rw [List.all_eq_true]
    intro q hq
    obtain ⟨f, hf, hn⟩ := (hv q).mp hq
    rw [← hn, h.tables q.1 f hf]; rfl
  refine ⟨{ version := versionOf es, walNo := p.c.manWal,
            entries := tableFlat (lookup p.d.tables) (versionOf es) ++ walEntriesOf p.d.wals p.c.manWal },
          es, ?_, hes, rfl, rfl, hv, ?_⟩
  · rw [recover_eq_some]
    exact ⟨p.c.manifest, h.cur, (recoverFrom_eq_some _ _ _).mpr ⟨es, p.c.manWal, hes, hw, hall, rfl⟩⟩
  · intro e
    simp only [List.mem_append, mem_tableFlat, mem_walEntriesOf, mem_allEntries]
    obtain ⟨bsM, hlM, hmM⟩ := h.walMem
    have hnd := h.wf.2.1
    constructor
    · rintro (⟨q, hq, he⟩ | ⟨x, hx, hwx, he⟩)
      · obtain ⟨f, hf, hn⟩ := (hv q).mp hq
        rw [← hn, h.tables q.1 f hf] at he
        exact Or.inr (Or.inr ⟨q.1, f, hf, he⟩)
      · have hlx : lookup p.d.wals x.1 = some x.2 := lookup_of_mem _ _ _ hnd hx
        rcases h.others x hx with h1 | h1 | h1 | h1
        · rw [h1, hlM] at hlx
          injection hlx with hlx
          exact Or.inl ((hmM e).mp (hlx ▸ he))
        · rcases h.walImm with ⟨hn, _⟩ | ⟨wi, im, bs, hwi, him, _, hlI, hmI⟩
          · rw [hn] at h1; cases h1
          · rw [hwi] at h1
            injection h1 with h1
            rw [h1, hlI] at hlx
            injection hlx with hlx
            refine Or.inr (Or.inl ?_)
            rw [him]
            exact (hmI e).mp (hlx ▸ he)
        · omega
        · rw [h1] at he; simp [batchesFlat] at he
    · rintro (he | he | ⟨j, f, hf, he⟩)
      · refine Or.inr ⟨(p.c.wal, bsM), mem_of_lookup _ _ _ hlM, Nat.le_trans h.manLe (w0_le_wal h), (hmM e).mpr he⟩
      · rcases h.walImm with ⟨_, hn⟩ | ⟨wi, im, bs, hwi, him, _, hlI, hmI⟩
        · rw [hn] at he; simp at he
        · rw [him] at he
          refine Or.inr ⟨(wi, bs), mem_of_lookup _ _ _ hlI, ?_, (hmI e).mpr he⟩
          have := h.manLe
          simp only [Ctx.w0, hwi, Option.getD_some] at this
          exact this
      · refine Or.inl ⟨(j, f.num), (hv (j, f.num)).mpr ⟨f, hf, rfl⟩, ?_⟩
        rw [h.tables j f hf]; exact he

theorem latest_eq_view (es : List Entry) (n : Nat) (k : Bytes) (h : ∀ e ∈ es, e.seq ≤ n) :
    latest es k = view es n k := by
  unfold latest view
  have : es.filter (fun e => e.ukey == k) = es.filter (fun e => e.ukey == k && decide (e.seq ≤ n)) := by
    apply List.filter_congr
    intro e he
    simp [h e he]
  rw [this]
  cases newest (es.filter (fun e => e.ukey == k && decide (e.seq ≤ n))) <;> rfl

theorem seq_le_last {s : State} (h : InvP s) : ∀ e ∈ allEntries s, e.seq ≤ s.lastSeq := by
  intro e he
  rcases mem_allEntries.mp he with h1 | h1 | ⟨j, f, hf, h1⟩
  · exact h.seqM e h1
  · exact h.seqI e h1
  · exact h.seqF j f hf e h1

/-- **what recovery yields is what the running instance reads** -/
theorem rel_reads {p : PState} (h : Rel p) :
    ∃ r, recover p.d = some r ∧ ∀ k, latest r.entries k = dbGet p.s k p.s.lastSeq := by
  obtain ⟨r, es, hr, _, _, _, _, hm⟩ := rel_recover h
  refine ⟨r, hr, fun k => ?_⟩
  have hinv : Inv p.s := (inv_iff p.s).mpr h.inv
  rw [get_eq_view p.s hinv k p.s.lastSeq]
  rw [latest_eq_view r.entries p.s.lastSeq k (fun e he => seq_le_last h.inv e ((hm e).mp he))]
  exact view_congr (uniq_all h.inv) (fun e _ _ => (hm e).symm)

end Rain.Persist.Lemmas
