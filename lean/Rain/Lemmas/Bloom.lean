import Rain.Bloom
/-
Lemmas for C14 (Bloom filter): no false negatives, probe clamp, non-empty filters.
-/
namespace Rain.Bloom
open Rain

theorem probes_clamped (bpk : Nat) : 1 ≤ probesFor bpk ∧ probesFor bpk ≤ 30 := by
  unfold probesFor Rain.Gen.BLOOM_MAX_PROBES
  simp only
  split
  · omega
  · split <;> omega

theorem createFilter_ne_nil (hash : Bytes → UInt32) (bpk k : Nat) (keys : List Bytes) :
    createFilter hash bpk k keys ≠ [] := by
  simp [createFilter]

/-! ### `UInt8` bit facts -/

theorem u8_or_and_self (x m : UInt8) : (x ||| m) &&& m = m := by
  apply UInt8.eq_of_toBitVec_eq
  ext i hi
  simp
  intro h; exact Or.inr h

theorem u8_or_and_distrib (x y m : UInt8) : (x ||| y) &&& m = (x &&& m) ||| (y &&& m) := by
  apply UInt8.eq_of_toBitVec_eq
  ext i hi
  simp [Bool.and_or_distrib_right]

theorem u8_or_eq_zero_left (a b : UInt8) (h : a ||| b = 0) : a = 0 := by
  apply UInt8.eq_of_toBitVec_eq
  have h' := congrArg UInt8.toBitVec h
  ext i hi
  have := congrArg (fun v => v[i]) h'
  simp at this
  simp [this.1]

theorem u8_mask_ne_zero : ∀ j : Fin 8, (1 : UInt8) <<< (j.val.toUInt8) ≠ 0 := by decide

theorem mask_ne_zero (p : Nat) : (1 : UInt8) <<< (p % 8).toUInt8 ≠ 0 :=
  u8_mask_ne_zero ⟨p % 8, Nat.mod_lt _ (by omega)⟩

theorem u8_set_test (x : UInt8) (p : Nat) :
    (x ||| ((1 : UInt8) <<< (p % 8).toUInt8)) &&& ((1 : UInt8) <<< (p % 8).toUInt8) ≠ 0 := by
  rw [u8_or_and_self]; exact mask_ne_zero p

theorem u8_mono (x y m : UInt8) (h : x &&& m ≠ 0) : (x ||| y) &&& m ≠ 0 := by
  rw [u8_or_and_distrib]
  intro h0
  exact h (u8_or_eq_zero_left _ _ h0)

/-! ### `setBit` / `testBit` -/

@[simp] theorem length_setBit (a : Bytes) (p : Nat) : (setBit a p).length = a.length := by
  simp [setBit]

@[simp] theorem length_addKey (bits : Nat) (k : Nat) (h d : UInt32) (a : Bytes) :
    (addKey bits k h d a).length = a.length := by
  induction k generalizing h a with
  | zero => simp [addKey]
  | succ k ih => simp [addKey, ih]

theorem testBit_setBit_self (a : Bytes) (p : Nat) (hp : p / 8 < a.length) :
    testBit (setBit a p) p = true := by
  unfold testBit setBit
  simp only [List.getD_eq_getElem?_getD, List.getElem?_set, if_pos hp, if_true, Option.getD_some]
  simpa using u8_set_test _ p

theorem testBit_setBit_mono (a : Bytes) (p q : Nat) (h : testBit a q = true) :
    testBit (setBit a p) q = true := by
  unfold testBit setBit at *
  simp only [List.getD_eq_getElem?_getD, List.getElem?_set] at *
  by_cases hpq : p / 8 = q / 8
  · by_cases hp : p / 8 < a.length
    · simp only [if_pos hpq, if_pos hp, Option.getD_some]
      rw [hpq]
      simp only [bne_iff_ne, ne_eq] at h ⊢
      exact u8_mono _ _ _ h
    · simp only [if_pos hpq, if_neg hp]
      have : a[q / 8]? = none := by
        rw [List.getElem?_eq_none_iff]; omega
      simp [this] at h
  · simp only [if_neg hpq]
    exact h

theorem testBit_addKey_mono (bits k : Nat) (h d : UInt32) (a : Bytes) (q : Nat)
    (hq : testBit a q = true) : testBit (addKey bits k h d a) q = true := by
  induction k generalizing h a with
  | zero => simpa [addKey] using hq
  | succ k ih =>
    simp only [addKey]
    exact ih _ _ (testBit_setBit_mono _ _ _ hq)

theorem probeAll_mono (bits k : Nat) (h d : UInt32) (a b : Bytes)
    (hab : ∀ q, testBit a q = true → testBit b q = true)
    (hp : probeAll bits k h d a = true) : probeAll bits k h d b = true := by
  induction k generalizing h with
  | zero => simp [probeAll]
  | succ k ih =>
    simp only [probeAll] at hp ⊢
    by_cases ht : testBit a (h.toNat % bits) = true
    · rw [if_pos ht] at hp
      rw [if_pos (hab _ ht)]
      exact ih _ hp
    · rw [if_neg ht] at hp; cases hp

theorem probeAll_addKey (bits k : Nat) (h d : UInt32) (a : Bytes) (hbits : 0 < bits)
    (hlen : bits ≤ a.length * 8) : probeAll bits k h d (addKey bits k h d a) = true := by
  induction k generalizing h a with
  | zero => simp [probeAll]
  | succ k ih =>
    have e : addKey bits (k+1) h d a = addKey bits k (h + d) d (setBit a (h.toNat % bits)) := rfl
    rw [e]
    simp only [probeAll]
    have hlt : h.toNat % bits < bits := Nat.mod_lt _ hbits
    have hpos : (h.toNat % bits) / 8 < a.length := by omega
    have h1 : testBit (setBit a (h.toNat % bits)) (h.toNat % bits) = true :=
      testBit_setBit_self _ _ hpos
    rw [if_pos (testBit_addKey_mono _ _ _ _ _ _ h1)]
    exact ih _ _ (by simpa using hlen)

theorem length_fold (hash : Bytes → UInt32) (bits k : Nat) (keys : List Bytes) (a : Bytes) :
    (keys.foldl (fun a key => addKey bits k (hash key) (delta (hash key)) a) a).length
      = a.length := by
  induction keys generalizing a with
  | nil => rfl
  | cons x xs ih => simp [List.foldl_cons, ih]

theorem testBit_fold_mono (hash : Bytes → UInt32) (bits k : Nat) (keys : List Bytes) (a : Bytes)
    (q : Nat) (hq : testBit a q = true) :
    testBit (keys.foldl (fun a key => addKey bits k (hash key) (delta (hash key)) a) a) q
      = true := by
  induction keys generalizing a with
  | nil => exact hq
  | cons x xs ih =>
    simp only [List.foldl_cons]
    exact ih _ (testBit_addKey_mono _ _ _ _ _ _ hq)

theorem probeAll_fold (hash : Bytes → UInt32) (bits k : Nat) (keys : List Bytes) (key : Bytes)
    (a : Bytes) (hbits : 0 < bits) (hlen : bits ≤ a.length * 8) (hmem : key ∈ keys) :
    probeAll bits k (hash key) (delta (hash key))
      (keys.foldl (fun a key => addKey bits k (hash key) (delta (hash key)) a) a) = true := by
  induction keys generalizing a with
  | nil => cases hmem
  | cons x xs ih =>
    simp only [List.foldl_cons]
    rcases List.mem_cons.1 hmem with rfl | hx
    · refine probeAll_mono _ _ _ _ _ _ ?_ (probeAll_addKey bits k (hash key) (delta (hash key)) a hbits hlen)
      intro q hq
      exact testBit_fold_mono _ _ _ _ _ _ hq
    · exact ih _ (by simpa using hlen) hx

theorem filterBytes_ge (n bpk : Nat) : 8 ≤ filterBytes n bpk := by
  unfold filterBytes Rain.Gen.BLOOM_MIN_BITS
  simp only
  split <;> omega

theorem no_false_negative (hash : Bytes → UInt32) (bpk k : Nat) (keys : List Bytes) (key : Bytes)
    (hk : k < 256) (hmem : key ∈ keys) :
    mayMatch hash key (createFilter hash bpk k keys) = some true := by
  have hb := filterBytes_ge keys.length bpk
  unfold createFilter
  simp only
  generalize hB : filterBytes keys.length bpk = B at hb
  have hlen := length_fold hash (B * 8) k keys (List.replicate B 0)
  rw [List.length_replicate] at hlen
  have hprobe := probeAll_fold hash (B * 8) k keys key (List.replicate B 0) (by omega)
    (by simp) hmem
  generalize hA : (keys.foldl (fun a key => addKey (B * 8) k (hash key) (delta (hash key)) a)
    (List.replicate B 0)) = A at hlen hprobe
  have hkn : k.toUInt8.toNat = k := by
    simp [Nat.toUInt8, Nat.mod_eq_of_lt hk]
  match A, hlen with
  | [], hlen => simp at hlen; omega
  | x :: xs, hlen =>
    simp only [mayMatch, hkn]
    rw [hlen]
    exact congrArg some hprobe

end Rain.Bloom
