import Rain.BinSearch
import Rain.Lemmas.TableBasic
import Rain.Lemmas.LsmFile
/-
The binary-search loop: what it computes for a monotone predicate, uniqueness of the answer, and
the agreement with the linear specifications on sorted input.
-/
namespace Rain.BinSearch.Lemmas
open Rain Rain.Lsm Rain.Table Rain.BinSearch Rain.Order Rain.Table.Lemmas

/-- monotone "below the target" predicate: once an element is not below, none after it is -/
def Mono (less : Nat → Bool) : Prop := ∀ i j, i ≤ j → less j = true → less i = true

/-- the loop invariant, for any fuel that covers the interval -/
theorem loop_spec (less : Nat → Bool) (n : Nat) (mono : Mono less) :
    ∀ fuel l r, r - l ≤ fuel → l ≤ r → r ≤ n →
      (∀ i, i < l → less i = true) → (∀ i, r ≤ i → i < n → less i = false) →
      l ≤ loop less fuel l r ∧ loop less fuel l r ≤ r ∧
      (∀ i, i < loop less fuel l r → less i = true) ∧
      (∀ i, loop less fuel l r ≤ i → i < n → less i = false) := by
  intro fuel
  induction fuel with
  | zero =>
    intro l r hf hlr _ hlo hhi
    have : l = r := by omega
    subst this
    simp only [loop]
    exact ⟨Nat.le_refl _, Nat.le_refl _, hlo, hhi⟩
  | succ fuel ih =>
    intro l r hf hlr hrn hlo hhi
    simp only [loop]
    by_cases hc : l < r
    · rw [if_pos hc]
      have hmid1 : l ≤ (l + r) / 2 := by omega
      have hmid2 : (l + r) / 2 < r := by omega
      by_cases hm : less ((l + r) / 2) = true
      · simp only [hm, if_true]
        have := ih ((l + r) / 2 + 1) r (by omega) (by omega) hrn
          (fun i hi => mono i ((l + r) / 2) (by omega) hm) hhi
        exact ⟨by omega, this.2.1, this.2.2.1, this.2.2.2⟩
      · have hm' : less ((l + r) / 2) = false := by simpa using hm
        simp only [hm', Bool.false_eq_true, if_false]
        have := ih l ((l + r) / 2) (by omega) hmid1 (by omega) hlo
          (fun i hi hin => by
            by_cases hl : less i = true
            · have := mono ((l + r) / 2) i hi hl; rw [hm'] at this; exact absurd this (by simp)
            · simpa using hl)
        exact ⟨this.1, by omega, this.2.2.1, this.2.2.2⟩
    · rw [if_neg hc]
      have : l = r := by omega
      subst this
      exact ⟨Nat.le_refl _, Nat.le_refl _, hlo, hhi⟩

theorem search_spec (less : Nat → Bool) (n : Nat) (mono : Mono less) :
    search less n ≤ n ∧ (∀ i, i < search less n → less i = true) ∧
      (∀ i, search less n ≤ i → i < n → less i = false) := by
  have := loop_spec less n mono n 0 n (by omega) (by omega) (Nat.le_refl _)
    (fun i hi => by omega) (fun i hi hin => by omega)
  exact ⟨this.2.1, this.2.2.1, this.2.2.2⟩

/-- without any assumption on the predicate the loop still stays inside its interval -/
theorem loop_bounds (less : Nat → Bool) :
    ∀ fuel l r, l ≤ r → l ≤ loop less fuel l r ∧ loop less fuel l r ≤ r := by
  intro fuel
  induction fuel with
  | zero => intro l r h; simp [loop, h]
  | succ fuel ih =>
    intro l r h
    simp only [loop]
    by_cases hc : l < r
    · rw [if_pos hc]
      by_cases hm : less ((l + r) / 2) = true
      · simp only [hm, if_true]
        have := ih ((l + r) / 2 + 1) r (by omega)
        omega
      · have hm' : less ((l + r) / 2) = false := by simpa using hm
        simp only [hm', Bool.false_eq_true, if_false]
        have := ih l ((l + r) / 2) (by omega)
        omega
    · rw [if_neg hc]; omega

theorem search_le (less : Nat → Bool) (n : Nat) : search less n ≤ n :=
  (loop_bounds less n 0 n (Nat.zero_le _)).2

/-- the answer is unique: two positions with the boundary property coincide -/
theorem boundary_unique (less : Nat → Bool) (n a b : Nat) (ha : a ≤ n) (hb : b ≤ n)
    (ha1 : ∀ i, i < a → less i = true) (ha2 : ∀ i, a ≤ i → i < n → less i = false)
    (hb1 : ∀ i, i < b → less i = true) (hb2 : ∀ i, b ≤ i → i < n → less i = false) : a = b := by
  rcases Nat.lt_trichotomy a b with h | h | h
  · have h1 := hb1 a h
    have h2 := ha2 a (Nat.le_refl _) (by omega)
    rw [h1] at h2; exact absurd h2 (by simp)
  · exact h
  · have h1 := ha1 b h
    have h2 := hb2 b (Nat.le_refl _) (by omega)
    rw [h1] at h2; exact absurd h2 (by simp)

/-! ### number of iterations -/

/-- the loop runs at most `log2 (r - l) + 1` times: `2 ^ steps ≤ 2 * (r - l)` when `l < r` -/
theorem steps_log (less : Nat → Bool) :
    ∀ fuel l r, l < r → 2 ^ steps less fuel l r ≤ 2 * (r - l) := by
  intro fuel
  induction fuel with
  | zero => intro l r h; simp only [steps, Nat.pow_zero]; omega
  | succ fuel ih =>
    intro l r h
    simp only [steps, if_pos h]
    by_cases hm : less ((l + r) / 2) = true
    · simp only [hm, if_true]
      by_cases h2 : (l + r) / 2 + 1 < r
      · have := ih ((l + r) / 2 + 1) r h2
        rw [Nat.pow_succ]; omega
      · have e : steps less fuel ((l + r) / 2 + 1) r = 0 := by
          cases fuel with
          | zero => rfl
          | succ f => simp only [steps, if_neg h2]
        rw [e]; simp only [Nat.zero_add, Nat.pow_one]; omega
    · have hm' : less ((l + r) / 2) = false := by simpa using hm
      simp only [hm', Bool.false_eq_true, if_false]
      by_cases h2 : l < (l + r) / 2
      · have := ih l ((l + r) / 2) h2
        rw [Nat.pow_succ]; omega
      · have e : steps less fuel l ((l + r) / 2) = 0 := by
          cases fuel with
          | zero => rfl
          | succ f => simp only [steps, if_neg h2]
        rw [e]; simp only [Nat.zero_add, Nat.pow_one]; omega

/-! ### the linear specification `lowerBound` has the boundary property -/

theorem lb_before {keys : List (Bytes × Nat)} {t : Bytes × Nat} :
    ∀ i (h : i < lowerBound keys t), ∃ hk : i < keys.length, kLt keys[i] t = true := by
  induction keys with
  | nil => intro i h; simp [lowerBound] at h
  | cons k rest ih =>
    intro i h
    simp only [lowerBound] at h
    split at h
    · next hk =>
      cases i with
      | zero => exact ⟨by simp, by simpa using hk⟩
      | succ j =>
        obtain ⟨hj, hv⟩ := ih j (by omega)
        exact ⟨by simp; omega, by simpa using hv⟩
    · omega

/-- the predicate "element `m` of the list is below the target" -/
abbrev lessAt := keyBelow

theorem lessAt_lt {keys : List (Bytes × Nat)} {t : Bytes × Nat} {m : Nat} (h : m < keys.length) :
    lessAt keys t m = kLt keys[m] t := by
  simp [lessAt, keyBelow, List.getElem?_eq_getElem h]

theorem lessAt_ge {keys : List (Bytes × Nat)} {t : Bytes × Nat} {m : Nat} (h : keys.length ≤ m) :
    lessAt keys t m = false := by
  simp [lessAt, keyBelow, List.getElem?_eq_none h]

/-- strictly sorted keys make the predicate monotone -/
theorem lessAt_mono {keys : List (Bytes × Nat)} (hs : keys.Pairwise (fun a b => kLt a b = true))
    (t : Bytes × Nat) : Mono (lessAt keys t) := by
  intro i j hij hj
  by_cases hjl : j < keys.length
  · rw [lessAt_lt hjl] at hj
    have hil : i < keys.length := by omega
    rw [lessAt_lt hil]
    rcases Nat.lt_or_ge i j with h | h
    · exact kLt_trans (List.pairwise_iff_getElem.mp hs i j hil hjl h) hj
    · have : i = j := by omega
      subst this; exact hj
  · rw [lessAt_ge (by omega)] at hj; exact absurd hj (by simp)

end Rain.BinSearch.Lemmas

namespace Rain.BinSearch.Lemmas
open Rain Rain.Lsm Rain.Table Rain.BinSearch Rain.Order Rain.Table.Lemmas Rain.Lsm.Lemmas

/-- on strictly sorted keys the loop finds `lowerBound` -/
theorem search_eq_lowerBound {keys : List (Bytes × Nat)}
    (hs : keys.Pairwise (fun a b => kLt a b = true)) (t : Bytes × Nat) :
    search (lessAt keys t) keys.length = lowerBound keys t := by
  obtain ⟨h1, h2, h3⟩ := search_spec (lessAt keys t) keys.length (lessAt_mono hs t)
  refine boundary_unique (lessAt keys t) keys.length _ _ h1 (lb_le keys t) h2 h3 ?_ ?_
  · intro i hi
    obtain ⟨hk, hv⟩ := lb_before i hi
    rw [lessAt_lt hk]; exact hv
  · intro i hi hin
    rw [lessAt_lt hin]
    have hlb : lowerBound keys t < keys.length := by omega
    have h0 := lb_getElem hlb
    rcases Nat.lt_or_ge (lowerBound keys t) i with h | h
    · have := List.pairwise_iff_getElem.mp hs _ _ hlb hin h
      exact k_le_lt' h0 this
    · have : i = lowerBound keys t := by omega
      subst this; exact h0
where
  k_le_lt' {a b c : Bytes × Nat} (h1 : kLt a c = false) (h2 : kLt a b = true) : kLt b c = false := by
    by_cases h : kLt b c = true
    · have := kLt_trans h2 h; rw [h1] at this; exact absurd this (by simp)
    · simpa using h

/-- the linear search of the model is the element at `lowerBound` of the largest keys -/
theorem find_eq_lb (fs : List File) (t : Bytes × Nat) :
    fs.find? (fun f => !kLt f.largest t) = fs[lowerBound (fs.map File.largest) t]? := by
  induction fs with
  | nil => simp [lowerBound]
  | cons f rest ih =>
    simp only [List.map_cons, lowerBound, List.find?_cons]
    by_cases h : kLt f.largest t = true
    · simp only [h, Bool.not_true, if_true, List.getElem?_cons_succ]
      exact ih
    · have h' : kLt f.largest t = false := by simpa using h
      simp [h']

theorem largest_pairwise {fs : List File} (hf : ∀ f ∈ fs, FileOk f) (hl : LevelOk fs) :
    (fs.map File.largest).Pairwise (fun a b => kLt a b = true) := by
  rw [List.pairwise_map]
  refine List.Pairwise.imp_of_mem ?_ hl
  intro f g _ hg h
  exact k_lt_le h (hf g hg).small_le_large

theorem fileBelow_eq (fs : List File) (t : Bytes × Nat) :
    fileBelow fs t = keyBelow (fs.map File.largest) t := by
  funext m
  simp only [fileBelow, keyBelow, List.getElem?_map]
  cases fs[m]? <;> rfl

end Rain.BinSearch.Lemmas
