import Rain.ProtoSpec
/-
Basic facts about `place`, `entriesOf`, `groupEntries`, `groupSize` for the protocol model.
-/
namespace Rain.Proto.Lemmas
open Rain.Proto

/-- forget the assigned range -/
abbrev unplace (p : Placed) : Batch := { id := p.id, n := p.n }

theorem place_append (st : Nat) (a b : List Batch) :
    place st (a ++ b) = place st a ++ place (st + (a.map Batch.n).sum) b := by
  induction a generalizing st with
  | nil => simp [place]
  | cons x xs ih => simp [place, ih, Nat.add_assoc]

theorem length_place (st : Nat) (bs : List Batch) : (place st bs).length = bs.length := by
  induction bs generalizing st with
  | nil => simp [place]
  | cons x xs ih => simp [place, ih]

theorem map_unplace_place (st : Nat) (bs : List Batch) : (place st bs).map unplace = bs := by
  induction bs generalizing st with
  | nil => simp [place]
  | cons x xs ih => simp [place, ih]

theorem map_id_place (st : Nat) (bs : List Batch) :
    (place st bs).map Placed.id = bs.map Batch.id := by
  induction bs generalizing st with
  | nil => simp [place]
  | cons x xs ih => simp [place, ih]

theorem groupSize_place (st : Nat) (bs : List Batch) :
    groupSize (place st bs) = (bs.map Batch.n).sum := by
  induction bs generalizing st with
  | nil => simp [place, groupSize]
  | cons x xs ih =>
    have := ih (st + x.n)
    simp [groupSize] at this
    simp [place, groupSize, this]

theorem sum_unplace (d : List Placed) : ((d.map unplace).map Batch.n).sum = groupSize d := by
  induction d with
  | nil => simp [groupSize]
  | cons x xs ih => simp [groupSize] at ih; simp [groupSize, ih]

theorem groupSize_append (a b : List Placed) : groupSize (a ++ b) = groupSize a + groupSize b := by
  simp [groupSize]

theorem groupEntries_append (a b : List Placed) :
    groupEntries (a ++ b) = groupEntries a ++ groupEntries b := by
  simp [groupEntries]

theorem mem_place_bounds (st : Nat) (bs : List Batch) (p : Placed) (hp : p ∈ place st bs) :
    st ≤ p.start ∧ p.start + p.n ≤ st + (bs.map Batch.n).sum := by
  induction bs generalizing st with
  | nil => simp [place] at hp
  | cons x xs ih =>
    simp [place] at hp
    rcases hp with rfl | hp
    · simp
    · have := ih (st + x.n) hp
      simp
      omega

theorem mem_entriesOf_bounds (p : Placed) (e : Nat × Nat) (he : e ∈ entriesOf p) :
    p.start ≤ e.1 ∧ e.1 < p.start + p.n := by
  simp [entriesOf] at he
  obtain ⟨i, hi, rfl⟩ := he
  simp
  omega

theorem mem_groupEntries (g : List Placed) (e : Nat × Nat) :
    e ∈ groupEntries g ↔ ∃ p ∈ g, e ∈ entriesOf p := by
  simp only [groupEntries, List.mem_flatten, List.mem_map]
  constructor
  · rintro ⟨l, ⟨p, hp, rfl⟩, he⟩; exact ⟨p, hp, he⟩
  · rintro ⟨p, hp, he⟩; exact ⟨_, ⟨p, hp, rfl⟩, he⟩

/-- one more element of an initial segment -/
theorem take_succ_of_drop {α} (l : List α) (k : Nat) (e : α) (rest : List α)
    (h : l.drop k = e :: rest) : l.take (k + 1) = l.take k ++ [e] ∧ l.drop (k + 1) = rest := by
  induction l generalizing k with
  | nil => simp at h
  | cons x xs ih =>
    cases k with
    | zero => simp at h; simp [h]
    | succ k =>
      simp at h
      have := ih k h
      simp [this]

theorem take_of_drop_nil {α} (l : List α) (k : Nat) (h : l.drop k = []) : l.take k = l := by
  simp at h
  exact List.take_of_length_le h

end Rain.Proto.Lemmas
