import Rain.Lemmas.LsmOrder
/-
`newest` / `view` characterised by membership; `lookupSorted` on a sorted list; a first hit over
sources ordered by recency is the view of their concatenation.
-/
namespace Rain.Lsm.Lemmas
open Rain Rain.Lsm

def valOf (e : Entry) : Option Bytes := if e.put then some e.val else none
def lkOf (e : Entry) : Lookup := if e.put then .found e.val else .deleted
def toOpt : Lookup → Option Bytes
  | .found v => some v
  | _ => none

theorem toOpt_lkOf (e : Entry) : toOpt (lkOf e) = valOf e := by
  unfold lkOf valOf; split <;> simp [toOpt]

theorem lkOf_ne_absent (e : Entry) : lkOf e ≠ .absent := by
  unfold lkOf; split <;> simp

/-- every entry of `a` for a user key that also occurs in `b` has the larger sequence number -/
def Newer (a b : List Entry) : Prop := ∀ x ∈ a, ∀ y ∈ b, x.ukey = y.ukey → y.seq < x.seq

theorem newerThan_iff (a b : List Entry) : newerThan a b = true ↔ Newer a b := by
  simp only [newerThan, Newer, List.all_eq_true, Bool.or_eq_true, Bool.not_eq_true',
    beq_eq_false_iff_ne, ne_eq, decide_eq_true_eq]
  constructor
  · intro h x hx y hy e
    rcases h x hx y hy with h | h
    · exact absurd e h
    · exact h
  · intro h x hx y hy
    by_cases e : x.ukey = y.ukey
    · exact Or.inr (h x hx y hy e)
    · exact Or.inl e

theorem Newer.mono {a a' b b' : List Entry} (h : Newer a b) (ha : ∀ x ∈ a', x ∈ a)
    (hb : ∀ x ∈ b', x ∈ b) : Newer a' b' :=
  fun x hx y hy e => h x (ha x hx) y (hb y hy) e

theorem Newer.nil_left (b : List Entry) : Newer [] b := fun _ hx => by cases hx
theorem Newer.nil_right (a : List Entry) : Newer a [] := fun _ _ _ hy => by cases hy

/-! ### newest -/

theorem newest_eq_none {l : List Entry} : newest l = none ↔ l = [] := by
  cases l with
  | nil => simp [newest]
  | cons a l =>
    simp only [newest, reduceCtorEq, iff_false]
    split
    · simp
    · split <;> simp

theorem newest_some {l : List Entry} {e : Entry} (h : newest l = some e) :
    e ∈ l ∧ ∀ x ∈ l, x.seq ≤ e.seq := by
  induction l generalizing e with
  | nil => simp [newest] at h
  | cons a l ih =>
    simp only [newest] at h
    split at h
    · rename_i hn
      have := newest_eq_none.mp hn
      subst this
      cases h
      simp
    · rename_i b hb
      have ⟨hbm, hbmax⟩ := ih hb
      split at h
      · rename_i hlt
        cases h
        refine ⟨List.mem_cons_self .., ?_⟩
        intro x hx
        rcases List.mem_cons.mp hx with rfl | hx
        · exact Nat.le_refl _
        · have := hbmax x hx; omega
      · rename_i hlt
        cases h
        refine ⟨List.mem_cons_of_mem _ hbm, ?_⟩
        intro x hx
        rcases List.mem_cons.mp hx with rfl | hx
        · omega
        · exact hbmax x hx

/-! ### view -/

theorem view_cases (es : List Entry) (snap : Nat) (k : Bytes) :
    (view es snap k = none ∧ ∀ e ∈ es, e.ukey = k → ¬ e.seq ≤ snap) ∨
    (∃ e ∈ es, e.ukey = k ∧ e.seq ≤ snap ∧
      (∀ x ∈ es, x.ukey = k → x.seq ≤ snap → x.seq ≤ e.seq) ∧ view es snap k = valOf e) := by
  unfold view
  cases hn : newest (es.filter fun e => e.ukey == k && decide (e.seq ≤ snap)) with
  | none =>
    left
    refine ⟨rfl, ?_⟩
    have := newest_eq_none.mp hn
    rw [List.filter_eq_nil_iff] at this
    intro e he hk hs
    have := this e he
    simp [hk, hs] at this
  | some e =>
    right
    have ⟨hm, hmax⟩ := newest_some hn
    rw [List.mem_filter] at hm
    simp only [Bool.and_eq_true, beq_iff_eq, decide_eq_true_eq] at hm
    refine ⟨e, hm.1, hm.2.1, hm.2.2, ?_, rfl⟩
    intro x hx hk hs
    apply hmax
    rw [List.mem_filter]
    simp [hx, hk, hs]

theorem view_eq_of_max {es : List Entry} {snap : Nat} {k : Bytes} {e : Entry} (he : e ∈ es)
    (hk : e.ukey = k) (hs : e.seq ≤ snap)
    (hmax : ∀ x ∈ es, x.ukey = k → x.seq ≤ snap → x.seq < e.seq ∨ x = e) :
    view es snap k = valOf e := by
  rcases view_cases es snap k with ⟨_, hn⟩ | ⟨e', he', hk', hs', hmax', hv⟩
  · exact absurd hs (hn e he hk)
  · rcases hmax e' he' hk' hs' with hlt | rfl
    · have := hmax' e he hk hs; omega
    · exact hv

theorem view_eq_none {es : List Entry} {snap : Nat} {k : Bytes}
    (h : ∀ e ∈ es, e.ukey = k → ¬ e.seq ≤ snap) : view es snap k = none := by
  rcases view_cases es snap k with ⟨hv, _⟩ | ⟨e', he', hk', hs', _, _⟩
  · exact hv
  · exact absurd hs' (h e' he' hk')

/-- no two different entries with the same internal key -/
def Uniq (es : List Entry) : Prop := ∀ a ∈ es, ∀ b ∈ es, a.ukey = b.ukey → a.seq = b.seq → a = b

theorem view_congr {es es' : List Entry} {snap : Nat} {k : Bytes} (hu : Uniq es)
    (hm : ∀ e, e.ukey = k → e.seq ≤ snap → (e ∈ es ↔ e ∈ es')) :
    view es' snap k = view es snap k := by
  rcases view_cases es snap k with ⟨hv, hn⟩ | ⟨e, he, hk, hs, hmax, hv⟩
  · rw [hv]
    apply view_eq_none
    intro e he hk hs
    exact hn e ((hm e hk hs).mpr he) hk hs
  · rw [hv]
    apply view_eq_of_max ((hm e hk hs).mp he) hk hs
    intro x hx hkx hsx
    have hx' := (hm x hkx hsx).mpr hx
    have := hmax x hx' hkx hsx
    by_cases heq : x.seq = e.seq
    · exact Or.inr (hu x hx' e he (hkx.trans hk.symm) heq)
    · left; omega

theorem view_append_of_none {X Y : List Entry} {snap : Nat} {k : Bytes}
    (h : ∀ e ∈ X, e.ukey = k → ¬ e.seq ≤ snap) : view (X ++ Y) snap k = view Y snap k := by
  unfold view
  rw [List.filter_append]
  have : X.filter (fun e => e.ukey == k && decide (e.seq ≤ snap)) = [] := by
    rw [List.filter_eq_nil_iff]
    intro e he
    simp only [Bool.and_eq_true, beq_iff_eq, decide_eq_true_eq, not_and]
    exact h e he
  rw [this, List.nil_append]

/-- the view only depends on the filter -/
theorem view_filter_congr {es es' : List Entry} {snap snap' : Nat} {k : Bytes}
    (h : es.filter (fun e => e.ukey == k && decide (e.seq ≤ snap)) =
         es'.filter (fun e => e.ukey == k && decide (e.seq ≤ snap'))) :
    view es snap k = view es' snap' k := by
  unfold view; rw [h]

/-! ### lookupSorted -/

theorem geTarget_iff (e : Entry) (k : Bytes) (snap : Nat) :
    geTarget e k snap = true ↔ kLt e.key (k, snap) = false := by
  simp [geTarget]

theorem geTarget_same {e : Entry} {k : Bytes} {snap : Nat} (hk : e.ukey = k) :
    geTarget e k snap = true ↔ e.seq ≤ snap := by
  rw [geTarget_iff, kLt_false]
  simp only [Entry.key]
  subst hk
  simp [bytes_st.irrefl]

theorem lookup_absent_of_no_key {X : List Entry} {k : Bytes} {snap : Nat}
    (h : ∀ e ∈ X, e.ukey ≠ k) : lookupSorted X k snap = .absent := by
  unfold lookupSorted
  split
  · rename_i e he
    have hm := List.mem_of_find?_eq_some he
    have := h e hm
    simp [this]
  · rfl

theorem lookup_cases {X : List Entry} (hs : Sorted X) (k : Bytes) (snap : Nat) :
    (lookupSorted X k snap = .absent ∧ ∀ e ∈ X, e.ukey = k → ¬ e.seq ≤ snap) ∨
    (∃ e ∈ X, e.ukey = k ∧ e.seq ≤ snap ∧
      (∀ x ∈ X, x.ukey = k → x.seq ≤ snap → x.seq < e.seq ∨ x = e) ∧
      lookupSorted X k snap = lkOf e) := by
  unfold lookupSorted
  cases hf : X.find? (fun e => geTarget e k snap) with
  | none =>
    left
    refine ⟨rfl, ?_⟩
    intro e he hk hsq
    rw [List.find?_eq_none] at hf
    exact hf e he ((geTarget_same hk).mpr hsq)
  | some e =>
    rw [List.find?_eq_some_iff_append] at hf
    obtain ⟨hge, as, bs, hX, hbefore⟩ := hf
    subst hX
    unfold Sorted at hs
    rw [List.pairwise_append] at hs
    obtain ⟨_, hs2, _⟩ := hs
    have hafter := (List.pairwise_cons.mp hs2).1
    by_cases hk : e.ukey = k
    · right
      refine ⟨e, by simp, hk, (geTarget_same hk).mp hge, ?_, ?_⟩
      · intro x hx hkx hsx
        rcases List.mem_append.mp hx with hx | hx
        · have := hbefore x hx
          rw [(geTarget_same hkx).mpr hsx] at this
          simp at this
        · rcases List.mem_cons.mp hx with rfl | hx
          · exact Or.inr rfl
          · left
            have := hafter x hx
            unfold ikLt at this
            rw [kLt_same' (by simp [Entry.key, hk, hkx])] at this
            exact this
      · simp [hk, lkOf]
    · left
      refine ⟨by simp [hk], ?_⟩
      intro x hx hkx hsx
      have hgx := (geTarget_same hkx).mpr hsx
      rcases List.mem_append.mp hx with hx | hx
      · have := hbefore x hx
        rw [hgx] at this
        simp at this
      · rcases List.mem_cons.mp hx with rfl | hx
        · exact hk hkx
        · -- target ≤ e < x, target and x on key k, so e on key k
          have h1 := hafter x hx
          rw [geTarget_iff] at hge
          have h2 : kLt (k, snap) x.key = false ∨ True := Or.inr trivial
          have hle : kLt x.key (k, snap) = false := (geTarget_iff x k snap).mp hgx
          -- e.key ≥ (k,snap); x.key > e.key; x.ukey = k
          have l1 : bytesLt e.key.1 k = false := by
            have := kLe_fst_le hge; simpa using this
          have l2 : bytesLt x.key.1 e.key.1 = false := kLt_fst_le h1
          have : e.key.1 = k := by
            apply bytes_st.tri _ _ l1
            have : x.key.1 = k := hkx
            rw [this] at l2; exact l2
          exact hk this

/-! ### firstHit -/

theorem firstHit_cons_absent (l : List Lookup) : firstHit (.absent :: l) = firstHit l := rfl

theorem firstHit_cons_of_ne {r : Lookup} (h : r ≠ .absent) (l : List Lookup) :
    firstHit (r :: l) = r := by
  cases r <;> simp_all [firstHit]

theorem firstHit_append (A B : List Lookup) :
    firstHit (A ++ B) = if firstHit A = .absent then firstHit B else firstHit A := by
  induction A with
  | nil => simp [firstHit]
  | cons a A ih =>
    cases a with
    | absent => exact ih
    | found v => simp [firstHit]
    | deleted => simp [firstHit]

theorem firstHit_singleton_firstHit (M : List Lookup) : firstHit [firstHit M] = firstHit M := by
  cases h : firstHit M <;> simp [firstHit]

theorem firstHit_append_firstHit (A M : List Lookup) :
    firstHit (A ++ [firstHit M]) = firstHit (A ++ M) := by
  rw [firstHit_append, firstHit_append, firstHit_singleton_firstHit]

theorem firstHit_filter {α : Type} (p : α → Bool) (f : α → Lookup) (l : List α)
    (h : ∀ x ∈ l, p x = false → f x = .absent) :
    firstHit ((l.filter p).map f) = firstHit (l.map f) := by
  induction l with
  | nil => rfl
  | cons a l ih =>
    have ih' := ih (fun x hx => h x (List.mem_cons_of_mem _ hx))
    cases hp : p a with
    | true =>
      simp only [List.filter_cons, hp, if_true, List.map_cons]
      cases hfa : f a with
      | absent => simpa [firstHit] using ih'
      | found v => simp [firstHit]
      | deleted => simp [firstHit]
    | false =>
      have := h a (List.mem_cons_self ..) hp
      simp only [List.filter_cons, hp, List.map_cons, this]
      simpa [firstHit] using ih'

/-- the read path over sources ordered by recency returns the view of everything stored -/
theorem firstHit_view (Ls : List (List Entry)) (k : Bytes) (snap : Nat)
    (hs : ∀ X ∈ Ls, Sorted X) (hp : Ls.Pairwise Newer) :
    toOpt (firstHit (Ls.map fun X => lookupSorted X k snap)) = view Ls.flatten snap k := by
  induction Ls with
  | nil => simp [firstHit, toOpt, view, newest]
  | cons X R ih =>
    have hp' := List.pairwise_cons.mp hp
    have ih' := ih (fun Y hY => hs Y (List.mem_cons_of_mem _ hY)) hp'.2
    simp only [List.map_cons, List.flatten_cons]
    rcases lookup_cases (hs X (List.mem_cons_self ..)) k snap with ⟨hl, hn⟩ | ⟨e, he, hk, hsq, hmax, hl⟩
    · rw [hl, firstHit_cons_absent, view_append_of_none hn]
      exact ih'
    · rw [hl, firstHit_cons_of_ne (lkOf_ne_absent e), toOpt_lkOf]
      symm
      apply view_eq_of_max (List.mem_append_left _ he) hk hsq
      intro x hx hkx hsx
      rcases List.mem_append.mp hx with hx | hx
      · exact hmax x hx hkx hsx
      · left
        obtain ⟨Y, hY, hxY⟩ := List.mem_flatten.mp hx
        exact hp'.1 Y hY e he x hxY (hk.trans hkx.symm)

/-- sorted sources ordered by recency hold no internal key twice -/
theorem uniq_flatten (Ls : List (List Entry)) (hs : ∀ X ∈ Ls, Sorted X) (hp : Ls.Pairwise Newer) :
    Uniq Ls.flatten := by
  induction Ls with
  | nil => intro a ha; simp at ha
  | cons X R ih =>
    have hp' := List.pairwise_cons.mp hp
    have ih' := ih (fun Y hY => hs Y (List.mem_cons_of_mem _ hY)) hp'.2
    intro a ha b hb hk hsq
    simp only [List.flatten_cons, List.mem_append] at ha hb
    rcases ha with ha | ha <;> rcases hb with hb | hb
    · exact (hs X (List.mem_cons_self ..)).key_inj ha hb (by simp [Entry.key, hk, hsq])
    · obtain ⟨Y, hY, hbY⟩ := List.mem_flatten.mp hb
      have := hp'.1 Y hY a ha b hbY hk
      omega
    · obtain ⟨Y, hY, haY⟩ := List.mem_flatten.mp ha
      have := hp'.1 Y hY b hb a haY hk.symm
      omega
    · exact ih' a ha b hb hk hsq

end Rain.Lsm.Lemmas
