import Rain.Lemmas.PickBasic
/-
Input selection, part 2: `addBoundary` (`add_boundary_inputs`).  The loop is analysed through the
relation `BStep` (one iteration); the fuel `levelFiles.length` is enough whenever every file of
the level has `smallest ≤ largest`.
-/
namespace Rain.Lsm.Lemmas
open Rain Rain.Lsm

/-! ### counting -/

theorem filter_length_le {α : Type} {p q : α → Bool} {l : List α}
    (h : ∀ x ∈ l, p x = true → q x = true) : (l.filter p).length ≤ (l.filter q).length := by
  induction l with
  | nil => simp
  | cons a l ih =>
    have ih' := ih (fun x hx => h x (List.mem_cons_of_mem _ hx))
    have ha := h a (List.mem_cons_self ..)
    simp only [List.filter_cons]
    cases hp : p a with
    | true => simp only [ha hp, if_true, List.length_cons]; omega
    | false =>
      cases hq : q a with
      | true => simp only [Bool.false_eq_true, if_false, if_true, List.length_cons]; omega
      | false => simpa using ih'

theorem filter_length_lt {α : Type} {p q : α → Bool} {l : List α}
    (h : ∀ x ∈ l, p x = true → q x = true) (hx : ∃ x ∈ l, q x = true ∧ p x = false) :
    (l.filter p).length < (l.filter q).length := by
  induction l with
  | nil => obtain ⟨x, hx, _⟩ := hx; cases hx
  | cons a l ih =>
    have hmono := filter_length_le (p := p) (q := q) (l := l)
      (fun x hx => h x (List.mem_cons_of_mem _ hx))
    have ha := h a (List.mem_cons_self ..)
    obtain ⟨x, hxm, hqx, hpx⟩ := hx
    simp only [List.filter_cons]
    rcases List.mem_cons.mp hxm with rfl | hxl
    · simp only [hpx, hqx, Bool.false_eq_true, if_false, if_true, List.length_cons]; omega
    · have ih' := ih (fun x hx => h x (List.mem_cons_of_mem _ hx)) ⟨x, hxl, hqx, hpx⟩
      cases hp : p a with
      | true => simp only [ha hp, if_true, List.length_cons]; omega
      | false =>
        cases hq : q a with
        | true => simp only [Bool.false_eq_true, if_false, if_true, List.length_cons]; omega
        | false => simpa using ih'

/-! ### one iteration -/

/-- one iteration of the loop of `add_boundary_inputs`: `key` is the largest key of the files
chosen so far, `b` the boundary file that is pushed -/
structure BStep (lf acc : List File) (key : Bytes × Nat) (b : File) : Prop where
  hkey : maxKey acc = some key
  mem : b ∈ lf
  above : kLt key b.smallest = true
  same : b.smallest.1 = key.1
  least : ∀ f ∈ lf, isCand key f = true → kLt f.smallest b.smallest = false

theorem bstep_of_some {lf acc : List File} {key : Bytes × Nat} {b : File}
    (hk : maxKey acc = some key) (h : smallestBoundaryFile lf key = some b) : BStep lf acc key b := by
  obtain ⟨h1, h2, h3⟩ := smallestBoundaryFile_some h
  exact ⟨hk, h1, (isCand_iff.mp h2).1, (isCand_iff.mp h2).2, h3⟩

theorem maxKey_snoc {acc : List File} {key : Bytes × Nat} {b : File} (hk : maxKey acc = some key)
    (h : kLt key b.largest = true) : maxKey (acc ++ [b]) = some b.largest := by
  apply maxKey_unique
  · exact ⟨b, by simp, rfl⟩
  · intro f hf
    rcases List.mem_append.mp hf with hf | hf
    · exact k_st.asymm (k_st.lt_of_le_of_lt (maxKey_ge hk f hf) h)
    · simp at hf; subst hf; exact k_st.irrefl _

theorem BStep.key_lt {lf acc : List File} {key : Bytes × Nat} {b : File} (h : BStep lf acc key b)
    (hw : Wf b) : kLt key b.largest = true := k_st.lt_of_lt_of_le h.above hw

theorem BStep.key_next {lf acc : List File} {key : Bytes × Nat} {b : File} (h : BStep lf acc key b)
    (hw : Wf b) : maxKey (acc ++ [b]) = some b.largest := maxKey_snoc h.hkey (h.key_lt hw)

/-- the pushed file is new -/
theorem BStep.not_mem {lf acc : List File} {key : Bytes × Nat} {b : File} (h : BStep lf acc key b)
    (hw : Wf b) : b ∉ acc := by
  intro hb
  have h1 := maxKey_ge h.hkey b hb
  have h2 := h.key_lt hw
  rw [h1] at h2; cases h2

/-! ### induction over the loop -/

theorem addBoundaryLoop_ind {lf : List File} (hwf : ∀ f ∈ lf, Wf f) (Q : List File → Prop)
    (hstep : ∀ acc key b, Q acc → BStep lf acc key b → Q (acc ++ [b])) :
    ∀ n key acc, maxKey acc = some key → Q acc → Q (addBoundaryLoop lf n key acc) := by
  intro n
  induction n with
  | zero => intro key acc _ hq; exact hq
  | succ n ih =>
    intro key acc hk hq
    cases hb : smallestBoundaryFile lf key with
    | none => simp only [addBoundaryLoop, hb]; exact hq
    | some b =>
      simp only [addBoundaryLoop, hb]
      have hs := bstep_of_some hk hb
      exact ih b.largest (acc ++ [b]) (hs.key_next (hwf b hs.mem)) (hstep acc key b hq hs)

/-- **induction principle for `addBoundary`**: what holds for the inputs and is preserved by
pushing a boundary file holds for the result -/
theorem addBoundary_ind {lf : List File} (hwf : ∀ f ∈ lf, Wf f) (Q : List File → Prop)
    (X : List File) (h0 : Q X)
    (hstep : ∀ acc key b, Q acc → BStep lf acc key b → Q (acc ++ [b])) : Q (addBoundary lf X) := by
  unfold addBoundary
  rw [largestKey_eq_maxKey]
  cases hk : maxKey X with
  | none => exact h0
  | some key => exact addBoundaryLoop_ind hwf Q hstep _ key X hk h0

theorem addBoundary_nil (lf : List File) : addBoundary lf [] = [] := rfl

/-! ### extensive, inside the level -/

theorem addBoundaryLoop_prefix (lf : List File) :
    ∀ n key acc, acc <+: addBoundaryLoop lf n key acc := by
  intro n
  induction n with
  | zero => intro key acc; exact List.prefix_refl _
  | succ n ih =>
    intro key acc
    cases hb : smallestBoundaryFile lf key with
    | none => simp only [addBoundaryLoop, hb]; exact List.prefix_refl _
    | some b =>
      simp only [addBoundaryLoop, hb]
      exact (List.prefix_append acc [b]).trans (ih _ _)

/-- the inputs are kept, in front and in order -/
theorem addBoundary_prefix (lf X : List File) : X <+: addBoundary lf X := by
  unfold addBoundary
  cases largestKey X with
  | none => exact List.prefix_refl _
  | some key => exact addBoundaryLoop_prefix lf _ key X

theorem addBoundary_extensive {lf X : List File} {f : File} (h : f ∈ X) : f ∈ addBoundary lf X :=
  (addBoundary_prefix lf X).subset h

theorem addBoundaryLoop_subset (lf : List File) :
    ∀ n key acc, ∀ f ∈ addBoundaryLoop lf n key acc, f ∈ acc ∨ f ∈ lf := by
  intro n
  induction n with
  | zero => intro key acc f hf; exact Or.inl hf
  | succ n ih =>
    intro key acc f hf
    cases hb : smallestBoundaryFile lf key with
    | none => simp only [addBoundaryLoop, hb] at hf; exact Or.inl hf
    | some b =>
      simp only [addBoundaryLoop, hb] at hf
      rcases ih _ _ f hf with h | h
      · rcases List.mem_append.mp h with h | h
        · exact Or.inl h
        · simp at h; subst h; exact Or.inr (smallestBoundaryFile_some hb).1
      · exact Or.inr h

/-- only files of the level are added -/
theorem addBoundary_subset {lf X : List File} {f : File} (h : f ∈ addBoundary lf X) :
    f ∈ X ∨ f ∈ lf := by
  unfold addBoundary at h
  cases hk : largestKey X with
  | none => rw [hk] at h; exact Or.inl h
  | some key => rw [hk] at h; exact addBoundaryLoop_subset lf _ key X f h

theorem addBoundary_ne_nil {lf X : List File} (h : X ≠ []) : addBoundary lf X ≠ [] := by
  obtain ⟨a, l, rfl⟩ := List.exists_cons_of_ne_nil h
  exact List.ne_nil_of_mem (addBoundary_extensive (List.mem_cons_self ..))

/-! ### closed: the fuel is enough -/

theorem addBoundaryLoop_closed {lf : List File} (hwf : ∀ f ∈ lf, Wf f) :
    ∀ n key acc, maxKey acc = some key →
      (lf.filter fun g => kLt key g.smallest).length ≤ n →
      ∃ m, maxKey (addBoundaryLoop lf n key acc) = some m ∧ smallestBoundaryFile lf m = none := by
  intro n
  induction n with
  | zero =>
    intro key acc hk hc
    refine ⟨key, hk, ?_⟩
    rw [smallestBoundaryFile_none]
    intro f hf
    have : lf.filter (fun g => kLt key g.smallest) = [] := List.eq_nil_of_length_eq_zero (by omega)
    have hnot : kLt key f.smallest = false := by
      cases hx : kLt key f.smallest with
      | false => rfl
      | true =>
        have : f ∈ lf.filter (fun g => kLt key g.smallest) := List.mem_filter.mpr ⟨hf, hx⟩
        rw [‹lf.filter (fun g => kLt key g.smallest) = []›] at this; cases this
    simp [isCand, hnot]
  | succ n ih =>
    intro key acc hk hc
    cases hb : smallestBoundaryFile lf key with
    | none => simp only [addBoundaryLoop, hb]; exact ⟨key, hk, hb⟩
    | some b =>
      simp only [addBoundaryLoop, hb]
      have hs := bstep_of_some hk hb
      have hwb := hwf b hs.mem
      apply ih b.largest (acc ++ [b]) (hs.key_next hwb)
      have hlt : (lf.filter fun g => kLt b.largest g.smallest).length <
          (lf.filter fun g => kLt key g.smallest).length := by
        apply filter_length_lt
        · intro x _ hx
          exact k_st.trans _ _ _ (hs.key_lt hwb) hx
        · exact ⟨b, hs.mem, hs.above, hwb⟩
      omega

/-- **`addBoundary` is closed**: after it, no file of the level starts above the largest key of the
result on the same user key (`find_smallest_boundary_file` finds nothing) -/
theorem addBoundary_closed {lf X : List File} (hwf : ∀ f ∈ lf, Wf f) (hX : X ≠ []) :
    ∃ m, maxKey (addBoundary lf X) = some m ∧ ∀ g ∈ lf, isCand m g = false := by
  obtain ⟨key, hk⟩ := maxKey_isSome hX
  unfold addBoundary
  rw [largestKey_eq_maxKey, hk]
  obtain ⟨m, h1, h2⟩ := addBoundaryLoop_closed hwf lf.length key X hk (List.length_filter_le _ _)
  exact ⟨m, h1, smallestBoundaryFile_none.mp h2⟩

/-- **`addBoundary` is idempotent** -/
theorem addBoundary_idem {lf X : List File} (hwf : ∀ f ∈ lf, Wf f) :
    addBoundary lf (addBoundary lf X) = addBoundary lf X := by
  by_cases hX : X = []
  · subst hX; rfl
  · obtain ⟨m, h1, h2⟩ := addBoundary_closed hwf hX
    have h2' := smallestBoundaryFile_none.mpr h2
    generalize addBoundary lf X = R at h1 ⊢
    unfold addBoundary
    rw [largestKey_eq_maxKey, h1]
    cases lf.length with
    | zero => rfl
    | succ n => simp only [addBoundaryLoop, h2']

/-- nothing is added when no file of the level is a boundary candidate -/
theorem addBoundary_eq_self {lf X : List File}
    (h : ∀ key, maxKey X = some key → ∀ g ∈ lf, isCand key g = false) : addBoundary lf X = X := by
  unfold addBoundary
  rw [largestKey_eq_maxKey]
  cases hk : maxKey X with
  | none => rfl
  | some key =>
    have := smallestBoundaryFile_none.mpr (h key hk)
    cases lf.length with
    | zero => rfl
    | succ n => simp only [addBoundaryLoop, this]

/-! ### what an iteration preserves -/

theorem addBoundary_nodup {lf X : List File} (hwf : ∀ f ∈ lf, Wf f) (hd : X.Nodup) :
    (addBoundary lf X).Nodup := by
  apply addBoundary_ind hwf (fun A => A.Nodup) X hd
  intro acc key b hq hs
  rw [List.nodup_append]
  refine ⟨hq, by simp, ?_⟩
  intro a ha c hc
  simp at hc; subst hc
  intro e; subst e
  exact hs.not_mem (hwf _ hs.mem) ha

theorem addBoundary_sub {lf X : List File} (hX : ∀ f ∈ X, f ∈ lf) :
    ∀ f ∈ addBoundary lf X, f ∈ lf := by
  intro f hf
  rcases addBoundary_subset hf with h | h
  · exact hX f h
  · exact h

/-- every file reaches up to `lo` -/
theorem addBoundary_reaches {lf X : List File} (hwf : ∀ f ∈ lf, Wf f) {lo : Bytes}
    (h : ∀ f ∈ X, bytesLt f.largest.1 lo = false) :
    ∀ f ∈ addBoundary lf X, bytesLt f.largest.1 lo = false := by
  apply addBoundary_ind hwf (fun A => ∀ f ∈ A, bytesLt f.largest.1 lo = false) X h
  intro acc key b hq hs f hf
  rcases List.mem_append.mp hf with hf | hf
  · exact hq f hf
  · simp at hf; subst hf
    obtain ⟨F, hF, hFk⟩ := maxKey_mem hs.hkey
    have h1 := hq F hF
    rw [hFk, ← hs.same] at h1
    exact bytes_st.le_trans h1 (hwf _ hs.mem).ufst

/-- `A` is convex in the level: a file between two members is a member -/
def Conv (lf A : List File) : Prop :=
  ∀ f ∈ A, ∀ h ∈ A, ∀ g ∈ lf, Before f g → Before g h → g ∈ A

/-- a candidate between a chosen file that ends at `key` and the boundary file `b` would have been
found instead of `b` -/
theorem BStep.no_between {lf acc : List File} {key : Bytes × Nat} {b : File}
    (hs : BStep lf acc key b) {F g : File} (hF : F.largest = key) (hg : g ∈ lf) (hwg : Wf g)
    (h1 : Before F g) (h2 : Before g b) : False := by
  have hgk : kLt key g.smallest = true := hF ▸ h1
  have hsm : kLt g.smallest b.smallest = true := k_st.lt_of_le_of_lt hwg h2
  have hsame : g.smallest.1 = key.1 := by
    have e : key.1 = b.smallest.1 := hs.same.symm
    exact kLt_sandwich hgk hsm e
  have := hs.least g hg (isCand_iff.mpr ⟨hgk, hsame⟩)
  rw [hsm] at this; cases this

theorem addBoundary_conv {lf X : List File} (hwf : ∀ f ∈ lf, Wf f) (hl : LevelOk lf)
    (hX : ∀ f ∈ X, f ∈ lf) (hc : Conv lf X) : Conv lf (addBoundary lf X) := by
  have := addBoundary_ind hwf (fun A => (∀ f ∈ A, f ∈ lf) ∧ Conv lf A) X ⟨hX, hc⟩ ?_
  · exact this.2
  intro acc key b ⟨hsub, hq⟩ hs
  have hwb := hwf b hs.mem
  refine ⟨?_, ?_⟩
  · intro f hf
    rcases List.mem_append.mp hf with hf | hf
    · exact hsub f hf
    · simp at hf; subst hf; exact hs.mem
  obtain ⟨F, hF, hFk⟩ := maxKey_mem hs.hkey
  intro f hf0 h hh0 g hg hfg hgh
  rw [List.mem_append]
  rcases List.mem_append.mp hf0 with hf | hf <;> rcases List.mem_append.mp hh0 with hh | hh
  · exact Or.inl (hq f hf h hh g hg hfg hgh)
  · -- `f` chosen before, `h = b`
    have hh' : h = b := by simpa using hh
    rw [hh'] at hgh
    rcases level_cases hl (hsub F hF) hg with e | hFg | hgF
    · subst e; exact Or.inl hF
    · exact (hs.no_between hFk hg (hwf g hg) hFg hgh).elim
    · exact Or.inl (hq f hf F hF g hg hfg hgF)
  · -- `f = b`, `h` chosen before: impossible, `b` lies after every chosen file
    have hf' : f = b := by simpa using hf
    rw [hf'] at hfg
    exfalso
    have h1 : kLt key h.largest = false := maxKey_ge hs.hkey h hh
    have h2 : kLt key g.smallest = true :=
      k_st.trans _ _ _ (hs.key_lt hwb) hfg
    have h3 : kLt g.smallest h.largest = true :=
      k_st.lt_of_le_of_lt (hwf g hg) (k_st.lt_of_lt_of_le hgh (hwf h (hsub h hh)))
    have := k_st.trans _ _ _ h2 h3
    rw [h1] at this; cases this
  · have hf' : f = b := by simpa using hf
    have hh' : h = b := by simpa using hh
    rw [hf'] at hfg; rw [hh'] at hgh
    exfalso
    have h3 : kLt b.largest b.smallest = true :=
      k_st.trans _ _ _ hfg (k_st.lt_of_le_of_lt (hwf g hg) hgh)
    rw [hwb] at h3; cases h3

/-- `A` is closed downwards in the level, except for files that end before `lo` -/
def Down (lf A : List File) (lo : Bytes) : Prop :=
  ∀ f ∈ A, ∀ g ∈ lf, Before g f → g ∈ A ∨ bytesLt g.largest.1 lo = true

theorem addBoundary_down {lf X : List File} (hwf : ∀ f ∈ lf, Wf f) (hl : LevelOk lf)
    (hX : ∀ f ∈ X, f ∈ lf) {lo : Bytes} (hc : Down lf X lo) : Down lf (addBoundary lf X) lo := by
  have := addBoundary_ind hwf (fun A => (∀ f ∈ A, f ∈ lf) ∧ Down lf A lo) X ⟨hX, hc⟩ ?_
  · exact this.2
  intro acc key b ⟨hsub, hq⟩ hs
  refine ⟨?_, ?_⟩
  · intro f hf
    rcases List.mem_append.mp hf with hf | hf
    · exact hsub f hf
    · simp at hf; subst hf; exact hs.mem
  obtain ⟨F, hF, hFk⟩ := maxKey_mem hs.hkey
  intro f hf0 g hg hgf
  rcases List.mem_append.mp hf0 with hf | hf
  · rcases hq f hf g hg hgf with h | h
    · exact Or.inl (List.mem_append_left _ h)
    · exact Or.inr h
  · have hf' : f = b := by simpa using hf
    rw [hf'] at hgf
    rcases level_cases hl (hsub F hF) hg with e | hFg | hgF
    · subst e; exact Or.inl (List.mem_append_left _ hF)
    · exact (hs.no_between hFk hg (hwf g hg) hFg hgf).elim
    · rcases hq F hF g hg hgF with h | h
      · exact Or.inl (List.mem_append_left _ h)
      · exact Or.inr h

/-! ### consequences of closedness -/

/-- level ≥ 1: around a convex, boundary-closed set of a sorted level every other file lies
entirely before a member, or entirely after it without starting on the user key the member ends
with (the level-`L` clause of `validCompaction`) -/
theorem remaining_apart {lf A : List File} (hl : LevelOk lf)
    (hsub : ∀ f ∈ A, f ∈ lf) (hconv : Conv lf A) {m : Bytes × Nat} (hm : maxKey A = some m)
    (hcl : ∀ g ∈ lf, isCand m g = false) :
    ∀ g ∈ lf, g ∉ A → ∀ f ∈ A,
      Before g f ∨ (Before f g ∧ g.smallest.1 ≠ f.largest.1) := by
  intro g hg hgA f hf
  rcases level_cases hl (hsub f hf) hg with e | hfg | hgf
  · subst e; exact absurd hf hgA
  · refine Or.inr ⟨hfg, ?_⟩
    intro e
    obtain ⟨h, hh, hhm⟩ := maxKey_mem hm
    have hfm : kLt m f.largest = false := maxKey_ge hm f hf
    cases hmg : kLt m g.smallest with
    | true =>
      have hsame : g.smallest.1 = m.1 := by
        have l1 : bytesLt m.1 f.largest.1 = false := kLe_fst_le hfm
        have l2 : bytesLt g.smallest.1 m.1 = false := kLt_fst_le hmg
        rw [e] at l2
        rw [e]; exact bytes_st.tri _ _ l2 l1
      have := hcl g hg
      rw [isCand_iff.mpr ⟨hmg, hsame⟩] at this; cases this
    | false =>
      rcases level_cases hl (hsub h hh) hg with e2 | hhg | hgh
      · subst e2; exact hgA hh
      · unfold Before at hhg; rw [hhm, hmg] at hhg; cases hhg
      · exact hgA (hconv f hf h hh g hg hfg hgh)
  · exact Or.inl hgf

/-- level 0: a set that contains every level file meeting its own user-key hull has no boundary
candidate, so `addBoundary` leaves it alone -/
theorem addBoundary_of_hullClosed {lf X : List File} (hwf : ∀ f ∈ lf, Wf f)
    (hX : ∀ f ∈ X, f ∈ lf)
    (hcl : ∀ lo hi, IsHull X lo hi → ∀ g ∈ lf, userRangeOverlaps g lo hi = true → g ∈ X) :
    addBoundary lf X = X := by
  apply addBoundary_eq_self
  intro key hk g hg
  cases hc : isCand key g with
  | false => rfl
  | true =>
    exfalso
    obtain ⟨hab, hsame⟩ := isCand_iff.mp hc
    obtain ⟨F, hF, hFk⟩ := maxKey_mem hk
    obtain ⟨lo, hi, hh⟩ := hull_isSome (List.ne_nil_of_mem hF)
    have hH := isHull_of_hull hh
    have hgX : g ∈ X := by
      apply hcl lo hi hH g hg
      rw [overlaps_iff]
      have hb := hH.bound F hF
      rw [hFk, ← hsame] at hb
      refine ⟨hb.2, ?_⟩
      -- lo ≤ F.smallest ≤ F.largest = g.smallest ≤ g.largest
      have h1 : bytesLt F.largest.1 F.smallest.1 = false := (hwf F (hX F hF)).ufst
      have h2 : bytesLt F.smallest.1 lo = false := (hH.bound F hF).1
      rw [hFk, ← hsame] at h1
      exact bytes_st.le_trans (bytes_st.le_trans h2 h1) (hwf g hg).ufst
    have h1 := maxKey_ge hk g hgX
    have h2 : kLt key g.largest = true := k_st.lt_of_lt_of_le hab (hwf g hg)
    rw [h1] at h2; cases h2

end Rain.Lsm.Lemmas
