import Rain.Lemmas.LogBasic
/-
The writer: one loop iteration in closed form, the block-offset invariant, re-opening, sessions.
-/
namespace Rain.Log
open Rain

/-- `appendLoop` with the block-offset computations named -/
theorem appendLoop_succ (c : Cfg) (f off : Nat) (data : Bytes) (first : Bool) :
    appendLoop c (f+1) off data first =
      (let n := if data.length < spaceA c off then data.length else spaceA c off
       let last : Bool := data.length == n
       let ty := if first && last then TFull else if first then TFirst else if last then TLast else TMiddle
       let out := padL c off ++ [emit c ty (data.take n)]
       if (data.drop n).isEmpty then (out, offA c off + H + n)
       else
        let r := appendLoop c f (offA c off + H + n) (data.drop n) false
        (out ++ r.1, r.2)) := by
  rw [appendLoop]
  rfl

/-- one iteration that writes the final fragment -/
theorem appendLoop_last (c : Cfg) (f off : Nat) (data : Bytes) (first : Bool)
    (h : data.length ≤ spaceA c off) :
    appendLoop c (f+1) off data first =
      (padL c off ++ [emit c (if first then TFull else TLast) data], offA c off + H + data.length) := by
  rw [appendLoop_succ]
  have hn : (if data.length < spaceA c off then data.length else spaceA c off) = data.length := by
    split <;> omega
  simp only [hn]
  simp
  cases first <;> simp

/-- one iteration that writes a non-final fragment, which fills the block -/
theorem appendLoop_more (c : Cfg) (f off : Nat) (data : Bytes) (first : Bool)
    (h : spaceA c off < data.length) :
    appendLoop c (f+1) off data first =
      (padL c off ++ [emit c (if first then TFirst else TMiddle) (data.take (spaceA c off))] ++
        (appendLoop c f (offA c off + H + spaceA c off) (data.drop (spaceA c off)) false).1,
       (appendLoop c f (offA c off + H + spaceA c off) (data.drop (spaceA c off)) false).2) := by
  rw [appendLoop_succ]
  have hn : (if data.length < spaceA c off then data.length else spaceA c off) = spaceA c off := by
    split <;> omega
  simp only [hn]
  have h1 : ¬ (data.length ≤ spaceA c off) := by omega
  have h2 : (data.length == spaceA c off) = false := by
    simp; omega
  simp [h1, h2]

/-- the writer's offset stays within the block and tracks the bytes written, modulo `B` -/
theorem appendLoop_off (c : Cfg) (hB : H < c.B) (f : Nat) : ∀ (off : Nat) (data : Bytes) (first : Bool),
    off ≤ c.B →
    (appendLoop c f off data first).2 ≤ c.B ∧
    (off + (appendLoop c f off data first).1.flatten.length) % c.B
      = (appendLoop c f off data first).2 % c.B := by
  induction f with
  | zero => intro off data first hoff; simp [appendLoop, hoff]
  | succ f ih =>
    intro off data first hoff
    have hsp := offA_space c hB off hoff
    by_cases h : data.length ≤ spaceA c off
    · rw [appendLoop_last c f off data first h]
      refine ⟨by simp only; omega, ?_⟩
      simp only [List.flatten_append, List.length_append, List.flatten_cons, List.flatten_nil,
        List.append_nil, emit_length]
      rw [← Nat.add_assoc, pad_mod c off hoff, Nat.add_assoc]
    · have h' : spaceA c off < data.length := by omega
      rw [appendLoop_more c f off data first h']
      have := ih (offA c off + H + spaceA c off) (data.drop (spaceA c off)) false (by omega)
      refine ⟨this.1, ?_⟩
      simp only [List.flatten_append, List.length_append, List.flatten_cons, List.flatten_nil,
        List.append_nil, emit_length, List.length_take]
      rw [← this.2, ← Nat.add_assoc, ← Nat.add_assoc, Nat.add_assoc _ H, Nat.add_assoc _ (H + _),
        pad_mod c off hoff]
      congr 1
      rw [Nat.min_eq_left (by omega)]
      omega


theorem offA_self_mod (c : Cfg) (hB : H < c.B) (off : Nat) (hoff : off ≤ c.B) :
    offA c (off % c.B) = offA c off ∧ padL c (off % c.B) = padL c off := by
  by_cases h : off = c.B
  · subst h
    have hH : H = 7 := rfl
    unfold offA padL
    simp; omega
  · rw [Nat.mod_eq_of_lt (by omega)]; exact ⟨rfl, rfl⟩

/-- a writer positioned at `B` and one re-opened at `0` behave identically -/
theorem appendLoop_mod (c : Cfg) (hB : H < c.B) (f off : Nat) (hoff : off ≤ c.B) (data : Bytes)
    (first : Bool) :
    appendLoop c (f+1) (off % c.B) data first = appendLoop c (f+1) off data first := by
  have ⟨h1, h2⟩ := offA_self_mod c hB off hoff
  rw [appendLoop_succ, appendLoop_succ]
  unfold spaceA
  rw [h1, h2]

theorem appendWrites_mod (c : Cfg) (hB : H < c.B) (off : Nat) (hoff : off ≤ c.B) (data : Bytes) :
    appendWrites c (off % c.B) data = appendWrites c off data := by
  unfold appendWrites appendFuel
  exact appendLoop_mod c hB _ off hoff data true

theorem appendWrites_off (c : Cfg) (hB : H < c.B) (off : Nat) (data : Bytes) (hoff : off ≤ c.B) :
    (appendWrites c off data).2 ≤ c.B ∧
    (off + (appendWrites c off data).1.flatten.length) % c.B = (appendWrites c off data).2 % c.B :=
  appendLoop_off c hB _ off data true hoff

/-- every iteration writes at least a header -/
theorem appendLoop_length (c : Cfg) (f off : Nat) (data : Bytes) (first : Bool) :
    H ≤ (appendLoop c (f+1) off data first).1.flatten.length := by
  by_cases h : data.length ≤ spaceA c off
  · rw [appendLoop_last c f off data first h]
    simp [emit_length]; omega
  · rw [appendLoop_more c f off data first (by omega)]
    simp [emit_length]; omega

theorem appendWrites_length (c : Cfg) (off : Nat) (data : Bytes) :
    H ≤ (appendWrites c off data).1.flatten.length :=
  appendLoop_length c _ off data true

/-! ### sequences of appends -/

theorem appendAllWrites_nil (c : Cfg) (off : Nat) : appendAllWrites c off [] = ([], off) := rfl

theorem appendAllWrites_cons (c : Cfg) (off : Nat) (r : Bytes) (rs : List Bytes) :
    appendAllWrites c off (r :: rs) =
      ((appendWrites c off r).1 ++ (appendAllWrites c (appendWrites c off r).2 rs).1,
       (appendAllWrites c (appendWrites c off r).2 rs).2) := rfl

theorem appendAllWrites_off (c : Cfg) (hB : H < c.B) (recs : List Bytes) : ∀ (off : Nat), off ≤ c.B →
    (appendAllWrites c off recs).2 ≤ c.B ∧
    (off + (appendAllWrites c off recs).1.flatten.length) % c.B = (appendAllWrites c off recs).2 % c.B := by
  induction recs with
  | nil => intro off hoff; simp [appendAllWrites_nil, hoff]
  | cons r rs ih =>
    intro off hoff
    have h1 := appendWrites_off c hB off r hoff
    have h2 := ih _ h1.1
    rw [appendAllWrites_cons]
    refine ⟨h2.1, ?_⟩
    simp only [List.flatten_append, List.length_append]
    rw [← h2.2, ← Nat.add_assoc, Nat.add_mod, h1.2, ← Nat.add_mod]

theorem appendAllWrites_mod (c : Cfg) (hB : H < c.B) (off : Nat) (hoff : off ≤ c.B) (recs : List Bytes) :
    (appendAllWrites c (off % c.B) recs).1 = (appendAllWrites c off recs).1 ∧
    (appendAllWrites c (off % c.B) recs).2 % c.B = (appendAllWrites c off recs).2 % c.B := by
  cases recs with
  | nil => simp [appendAllWrites_nil]
  | cons r rs => rw [appendAllWrites_cons, appendAllWrites_cons, appendWrites_mod c hB off hoff]; simp

theorem appendAllWrites_append (c : Cfg) (xs ys : List Bytes) : ∀ (off : Nat),
    appendAllWrites c off (xs ++ ys) =
      ((appendAllWrites c off xs).1 ++ (appendAllWrites c (appendAllWrites c off xs).2 ys).1,
       (appendAllWrites c (appendAllWrites c off xs).2 ys).2) := by
  induction xs with
  | nil => intro off; simp [appendAllWrites_nil]
  | cons x xs ih => intro off; simp [appendAllWrites_cons, ih]

theorem openOffset_zero (c : Cfg) : openOffset c ([] : Bytes).length = 0 := by
  simp [openOffset]

theorem writeSession_nil (c : Cfg) (recs : List Bytes) :
    writeSession c [] recs = (appendAllWrites c 0 recs).1.flatten := by
  simp [writeSession, openOffset]

/-- appending a session to a file written from scratch = one session with the concatenated records -/
theorem writeSession_writeSession (c : Cfg) (hB : H < c.B) (xs ys : List Bytes) :
    writeSession c (writeSession c [] xs) ys = writeSession c [] (xs ++ ys) := by
  have h0 := appendAllWrites_off c hB xs 0 (Nat.zero_le _)
  rw [writeSession_nil, writeSession_nil, appendAllWrites_append]
  unfold writeSession openOffset
  simp only [List.flatten_append]
  congr 2
  rw [Nat.zero_add] at h0
  rw [h0.2, (appendAllWrites_mod c hB _ h0.1 ys).1]

theorem sessions_flatten_aux (c : Cfg) (hB : H < c.B) (sessions : List (List Bytes)) :
    ∀ pre : List Bytes, sessions.foldl (writeSession c) (writeSession c [] pre)
      = writeSession c [] (pre ++ sessions.flatten) := by
  induction sessions with
  | nil => intro pre; simp
  | cons s ss ih =>
    intro pre
    rw [List.foldl_cons, writeSession_writeSession c hB, ih]
    simp

theorem sessions_flatten (c : Cfg) (hB : H < c.B) (sessions : List (List Bytes)) :
    writeSessions c [] sessions = writeSession c [] sessions.flatten := by
  have h := sessions_flatten_aux c hB sessions []
  have h0 : writeSession c [] [] = [] := by simp [writeSession_nil, appendAllWrites_nil]
  rw [h0] at h
  simpa [writeSessions] using h

theorem offset_sync (c : Cfg) (hB : H < c.B) (recs : List Bytes) :
    (appendAllWrites c 0 recs).2 % c.B = (writeSession c [] recs).length % c.B ∧
    (appendAllWrites c 0 recs).2 ≤ c.B := by
  have h0 := appendAllWrites_off c hB recs 0 (Nat.zero_le _)
  rw [Nat.zero_add] at h0
  rw [writeSession_nil]
  exact ⟨h0.2.symm, h0.1⟩

end Rain.Log
