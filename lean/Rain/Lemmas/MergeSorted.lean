import Rain.Merge
import Rain.Lemmas.OrderIter
/-
`mergeTwo` / `mergeAll`: membership and sortedness.
-/
namespace Rain.MergeSorted
open Rain Rain.Lsm Rain.OrderIter

theorem mem_mergeTwo (as bs : List Entry) (x : Entry) : x ∈ mergeTwo as bs ↔ x ∈ as ∨ x ∈ bs := by
  fun_induction mergeTwo as bs with
  | case1 bs => simp
  | case2 as h => simp
  | case3 a as b bs h ih =>
    simp only [List.mem_cons, ih]
    grind
  | case4 a as b bs h ih =>
    simp only [List.mem_cons, ih]
    grind

theorem sorted_mergeTwo (as bs : List Entry) (ha : Sorted as) (hb : Sorted bs)
    (hd : ∀ a ∈ as, ∀ b ∈ bs, a.key ≠ b.key) : Sorted (mergeTwo as bs) := by
  fun_induction mergeTwo as bs with
  | case1 bs => exact hb
  | case2 as h => exact ha
  | case3 a as b bs h ih =>
    rw [sorted_cons] at hb ⊢
    refine ⟨?_, ih ha hb.2 (fun x hx y hy => hd x hx y (by simp [hy]))⟩
    intro x hx
    rw [mem_mergeTwo] at hx
    rcases hx with hx | hx
    · rcases List.mem_cons.mp hx with rfl | hx
      · exact h
      · exact kLt_trans h ((sorted_cons.mp ha).1 x hx)
    · exact hb.1 x hx
  | case4 a as b bs h ih =>
    rw [sorted_cons] at ha ⊢
    refine ⟨?_, ih ha.2 hb (fun x hx y hy => hd x (by simp [hx]) y hy)⟩
    intro x hx
    rw [mem_mergeTwo] at hx
    have hab : kLt a.key b.key = true := by
      cases h2 : kLt a.key b.key
      · have := kLt_total h2 (by simpa [ikLt] using h)
        exact absurd this (hd a (by simp) b (by simp))
      · rfl
    rcases hx with hx | hx
    · exact ha.1 x hx
    · rcases List.mem_cons.mp hx with rfl | hx
      · exact hab
      · exact kLt_trans hab ((sorted_cons.mp hb).1 x hx)

theorem mem_mergeAll (children : List (List Entry)) (x : Entry) :
    x ∈ mergeAll children ↔ x ∈ children.flatten := by
  induction children with
  | nil => simp [mergeAll]
  | cons l ls ih => simp [mergeAll, mem_mergeTwo, ih]

theorem sorted_mergeAll (children : List (List Entry)) (hs : ∀ c ∈ children, Sorted c)
    (hd : (children.flatten.map Entry.key).Nodup) : Sorted (mergeAll children) := by
  induction children with
  | nil => simp [mergeAll, Sorted]
  | cons l ls ih =>
    simp only [mergeAll]
    simp only [List.flatten_cons, List.map_append, List.nodup_append] at hd
    apply sorted_mergeTwo
    · exact hs l (by simp)
    · exact ih (fun c hc => hs c (by simp [hc])) hd.2.1
    · intro a ha b hb
      rw [mem_mergeAll] at hb
      exact hd.2.2 a.key (List.mem_map_of_mem ha) b.key (List.mem_map_of_mem hb)

end Rain.MergeSorted
