import Rain.Lemmas.DbEqns
/-
`DatabaseIterator` observes its inner cursor only through `cur` after `step`s: two inner cursors
related by a bisimulation give the same user-visible behaviour.
-/
namespace Rain.DbBisim
open Rain Rain.Lsm Rain.Table Rain.Merge Rain.DbIter Rain.DbEqns

structure Bisim {σ₁ σ₂ : Type} (I₁ : Inner σ₁) (I₂ : Inner σ₂) (R : σ₁ → σ₂ → Prop) : Prop where
  cur : ∀ a b, R a b → I₁.cur a = I₂.cur b
  step : ∀ a b op, R a b → R (I₁.step a op) (I₂.step b op)

def DRel {σ₁ σ₂ : Type} (R : σ₁ → σ₂ → Prop) (s₁ : DState σ₁) (s₂ : DState σ₂) : Prop :=
  R s₁.inner s₂.inner ∧ s₁.dir = s₂.dir ∧ s₁.valid = s₂.valid ∧ s₁.ckey = s₂.ckey ∧ s₁.cval = s₂.cval

variable {σ₁ σ₂ : Type} {I₁ : Inner σ₁} {I₂ : Inner σ₂} {R : σ₁ → σ₂ → Prop}

theorem DRel.mk' {a : σ₁} {b : σ₂} {d v k c} (h : R a b) :
    DRel R ⟨a, d, v, k, c⟩ ⟨b, d, v, k, c⟩ := ⟨h, rfl, rfl, rfl, rfl⟩

theorem DRel.cases {s₁ : DState σ₁} {s₂ : DState σ₂} (h : DRel R s₁ s₂) :
    ∃ a b d v k c, R a b ∧ s₁ = ⟨a, d, v, k, c⟩ ∧ s₂ = ⟨b, d, v, k, c⟩ := by
  obtain ⟨i1, d1, v1, k1, c1⟩ := s₁
  obtain ⟨i2, d2, v2, k2, c2⟩ := s₂
  obtain ⟨h1, h2, h3, h4, h5⟩ := h
  simp only at h1 h2 h3 h4 h5
  subst h2 h3 h4 h5
  exact ⟨i1, i2, d1, v1, k1, c1, h1, rfl, rfl⟩

theorem findNext_rel (B : Bisim I₁ I₂ R) (snap fuel : Nat) (s₁ : DState σ₁) (s₂ : DState σ₂) (sk : Bool)
    (h : DRel R s₁ s₂) : DRel R (findNext I₁ snap fuel s₁ sk) (findNext I₂ snap fuel s₂ sk) := by
  induction fuel generalizing s₁ s₂ sk with
  | zero =>
    obtain ⟨a, b, d, v, k, c, h1, rfl, rfl⟩ := h.cases
    exact DRel.mk' h1
  | succ fuel ih =>
    obtain ⟨a, b, d, v, k, c, h1, rfl, rfl⟩ := h.cases
    rw [findNext_succ, findNext_succ]
    simp only
    rw [B.cur _ _ h1]
    cases hc : I₂.cur b with
    | none => exact DRel.mk' h1
    | some e =>
      simp only
      by_cases hstop : stopC snap e sk k = true
      · rw [if_pos hstop, if_pos hstop]
        exact DRel.mk' h1
      · rw [if_neg hstop, if_neg hstop]
        have hst := B.step _ _ .next h1
        rw [B.cur _ _ hst]
        cases hc2 : I₂.cur (I₂.step b .next) with
        | none => exact DRel.mk' hst
        | some e2 => exact ih _ _ _ (DRel.mk' hst)

theorem findPrevLoop_rel (B : Bisim I₁ I₂ R) (snap fuel : Nat) (s₁ : DState σ₁) (s₂ : DState σ₂) (lp : Bool)
    (h : DRel R s₁ s₂) :
    DRel R (findPrevLoop I₁ snap fuel s₁ lp).1 (findPrevLoop I₂ snap fuel s₂ lp).1 ∧
      (findPrevLoop I₁ snap fuel s₁ lp).2 = (findPrevLoop I₂ snap fuel s₂ lp).2 := by
  induction fuel generalizing s₁ s₂ lp with
  | zero => exact ⟨h, rfl⟩
  | succ fuel ih =>
    obtain ⟨a, b, d, v, k, c, h1, rfl, rfl⟩ := h.cases
    rw [findPrevLoop_succ, findPrevLoop_succ]
    simp only
    rw [B.cur _ _ h1]
    cases hc : I₂.cur b with
    | none => exact ⟨DRel.mk' h1, rfl⟩
    | some e =>
      simp only
      have hst := B.step _ _ .prev h1
      rw [B.cur _ _ hst]
      by_cases hq : e.seq ≤ snap
      · rw [if_pos hq, if_pos hq]
        by_cases hstop : stopP e lp k = true
        · rw [if_pos hstop, if_pos hstop]
          exact ⟨DRel.mk' h1, rfl⟩
        · rw [if_neg hstop, if_neg hstop]
          cases hc2 : I₂.cur (I₂.step b .prev) with
          | none => exact ⟨DRel.mk' hst, rfl⟩
          | some e2 => exact ih _ _ _ (DRel.mk' hst)
      · rw [if_neg hq, if_neg hq]
        cases hc2 : I₂.cur (I₂.step b .prev) with
        | none => exact ⟨DRel.mk' hst, rfl⟩
        | some e2 => exact ih _ _ _ (DRel.mk' hst)

theorem findPrev_rel (B : Bisim I₁ I₂ R) (snap fuel : Nat) (s₁ : DState σ₁) (s₂ : DState σ₂)
    (h : DRel R s₁ s₂) : DRel R (findPrev I₁ snap fuel s₁) (findPrev I₂ snap fuel s₂) := by
  obtain ⟨g0, g6⟩ := findPrevLoop_rel B snap fuel s₁ s₂ false h
  obtain ⟨a, b, d, v, k, c, g1, e1, e2⟩ := g0.cases
  unfold findPrev
  revert e1 e2 g6
  cases findPrevLoop I₁ snap fuel s₁ false with
  | mk t1 l1 =>
    cases findPrevLoop I₂ snap fuel s₂ false with
    | mk t2 l2 =>
      intro e1 e2 g6
      simp only at e1 e2 g6
      subst e1 e2 g6
      simp only
      split
      · exact DRel.mk' g1
      · exact DRel.mk' g1

theorem backOff_rel (B : Bisim I₁ I₂ R) (fuel : Nat) (a : σ₁) (b : σ₂) (key : Bytes) (h : R a b) :
    R (backOff I₁ fuel a key).1 (backOff I₂ fuel b key).1 ∧
      (backOff I₁ fuel a key).2 = (backOff I₂ fuel b key).2 := by
  induction fuel generalizing a b with
  | zero => exact ⟨h, rfl⟩
  | succ fuel ih =>
    have hst := B.step _ _ .prev h
    rw [backOff_succ, backOff_succ, B.cur _ _ hst]
    cases hc : I₂.cur (I₂.step b .prev) with
    | none => exact ⟨hst, rfl⟩
    | some e =>
      simp only
      by_cases hlt : bytesLt e.ukey key = true
      · rw [if_pos hlt, if_pos hlt]; exact ⟨hst, rfl⟩
      · rw [if_neg hlt, if_neg hlt]; exact ih _ _ hst

theorem dbStep_rel (B : Bisim I₁ I₂ R) (snap fuel : Nat) (s₁ : DState σ₁) (s₂ : DState σ₂) (op : UOp)
    (h : DRel R s₁ s₂) : DRel R (dbStep I₁ snap fuel s₁ op) (dbStep I₂ snap fuel s₂ op) := by
  obtain ⟨a, b, d, v, k, c, h1, rfl, rfl⟩ := h.cases
  cases op with
  | seek k =>
    have hst := B.step _ _ (.seek (k, snap)) h1
    simp only [dbStep]
    rw [B.cur _ _ hst]
    cases hc : I₂.cur (I₂.step b (.seek (k, snap))) with
    | none => exact DRel.mk' hst
    | some e => exact findNext_rel B _ _ _ _ _ (DRel.mk' hst)
  | first =>
    have hst := B.step _ _ .first h1
    simp only [dbStep]
    rw [B.cur _ _ hst]
    cases hc : I₂.cur (I₂.step b .first) with
    | none => exact DRel.mk' hst
    | some e => exact findNext_rel B _ _ _ _ _ (DRel.mk' hst)
  | last =>
    have hst := B.step _ _ .last h1
    simp only [dbStep]
    exact findPrev_rel B _ _ _ _ (DRel.mk' hst)
  | next =>
    simp only [dbStep]
    split
    · exact DRel.mk' h1
    · split
      · rw [B.cur _ _ h1]
        cases hc : I₂.cur b with
        | none =>
          have hst := B.step _ _ .first h1
          simp only
          rw [B.cur _ _ hst]
          cases hc2 : I₂.cur (I₂.step b .first) with
          | none => exact DRel.mk' hst
          | some e2 => exact findNext_rel B _ _ _ _ _ (DRel.mk' hst)
        | some e =>
          have hst := B.step _ _ .next h1
          simp only
          rw [B.cur _ _ hst]
          cases hc2 : I₂.cur (I₂.step b .next) with
          | none => exact DRel.mk' hst
          | some e2 => exact findNext_rel B _ _ _ _ _ (DRel.mk' hst)
      · rw [B.cur _ _ h1]
        cases hc : I₂.cur b with
        | none => exact DRel.mk' h1
        | some e =>
          have hst := B.step _ _ .next h1
          simp only
          rw [B.cur _ _ hst]
          cases hc2 : I₂.cur (I₂.step b .next) with
          | none => exact DRel.mk' hst
          | some e2 => exact findNext_rel B _ _ _ _ _ (DRel.mk' hst)
  | prev =>
    simp only [dbStep]
    split
    · exact DRel.mk' h1
    · split
      · rw [B.cur _ _ h1]
        cases hc : I₂.cur b with
        | none => exact DRel.mk' h1
        | some e =>
          simp only
          obtain ⟨b1, b2⟩ := backOff_rel B fuel a b e.ukey h1
          revert b1 b2
          cases backOff I₁ fuel a e.ukey with
          | mk i1 f1 =>
            cases backOff I₂ fuel b e.ukey with
            | mk i2 f2 =>
              intro b1 b2
              simp only at b1 b2
              subst b2
              cases f1 with
              | false => exact DRel.mk' b1
              | true => exact findPrev_rel B _ _ _ _ (DRel.mk' b1)
      · exact findPrev_rel B _ _ _ _ (DRel.mk' h1)

theorem dbCurrent_rel (B : Bisim I₁ I₂ R) (s₁ : DState σ₁) (s₂ : DState σ₂)
    (h : DRel R s₁ s₂) : dbCurrent I₁ s₁ = dbCurrent I₂ s₂ := by
  obtain ⟨h1, h2, h3, h4, h5⟩ := h
  simp only [dbCurrent, h2, h3, h4, h5, B.cur _ _ h1]

theorem run_rel (B : Bisim I₁ I₂ R) (snap fuel : Nat) (ops : List UOp) (s₁ : DState σ₁) (s₂ : DState σ₂)
    (h : DRel R s₁ s₂) :
    DRel R (ops.foldl (dbStep I₁ snap fuel) s₁) (ops.foldl (dbStep I₂ snap fuel) s₂) := by
  induction ops generalizing s₁ s₂ with
  | nil => exact h
  | cons op ops ih => exact ih _ _ (dbStep_rel B snap fuel s₁ s₂ op h)

end Rain.DbBisim
