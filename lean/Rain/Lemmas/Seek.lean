import Rain.Seek
/-
Helper lemmas for `Rain/Props/Seek.lean`.
-/
namespace Rain.Seek.Lemmas
open Rain Rain.Lsm Rain.Seek

/-! ### `firstHit` -/

theorem firstHit_append (A B : List Lookup) :
    firstHit (A ++ B) = (match firstHit A with | .absent => firstHit B | r => r) := by
  induction A with
  | nil => simp [firstHit]
  | cons a A ih => cases a <;> simp [firstHit, ih]

theorem firstHit_cutAtHit (k : Bytes) (snap : Nat) (l : List (Nat × File)) :
    firstHit ((cutAtHit k snap l).map (lookupAt k snap)) = firstHit (l.map (lookupAt k snap)) := by
  induction l with
  | nil => simp [cutAtHit]
  | cons p rest ih =>
    simp only [cutAtHit]
    cases h : lookupAt k snap p <;> simp [firstHit, h, ih]

theorem firstHit_deeper (k : Bytes) (snap : Nat) (deeper : List (List File)) (lvl : Nat) :
    firstHit (deeper.map fun fs =>
        match levelCandidate fs k snap with
        | some f => lookupSorted f.entries k snap
        | none => Lookup.absent)
      = firstHit ((deeperCandidates lvl k snap deeper).map (lookupAt k snap)) := by
  induction deeper generalizing lvl with
  | nil => simp [deeperCandidates]
  | cons fs rest ih =>
    simp only [List.map_cons, deeperCandidates, List.map_append]
    cases hc : levelCandidate fs k snap with
    | none => simpa [firstHit] using ih (lvl + 1)
    | some f =>
      simp only [List.map_cons, List.map_nil, List.cons_append, List.nil_append, lookupAt]
      cases hl : lookupSorted f.entries k snap <;> simp [firstHit, ih (lvl + 1)]

/-- the model of the charge and the model of the result walk the same lookups -/
theorem versionGet_eq_consulted (levels : List (List File)) (k : Bytes) (snap : Nat) :
    versionGet levels k snap = firstHit ((consulted levels k snap).map (lookupAt k snap)) := by
  unfold consulted
  rw [firstHit_cutAtHit]
  cases levels with
  | nil => simp [versionGet, candidates, firstHit]
  | cons l0 deeper =>
    simp only [versionGet, candidates, List.map_append, List.map_map]
    rw [firstHit_append, firstHit_append]
    have hA : firstHit (List.map (lookupAt k snap ∘ fun f => (0, f)) (l0Candidates l0 k))
        = firstHit (List.map (fun f => lookupSorted f.entries k snap) (l0Candidates l0 k)) := rfl
    rw [hA, ← firstHit_deeper k snap deeper 1]
    rfl

/-! ### where the candidates live -/

theorem levelCandidate_mem {fs : List File} {k : Bytes} {snap : Nat} {f : File}
    (h : levelCandidate fs k snap = some f) : f ∈ fs := by
  unfold levelCandidate at h
  split at h
  · next g hg =>
    split at h
    · cases h; exact List.mem_of_find?_eq_some hg
    · cases h
  · cases h

theorem levelCandidate_range {fs : List File} {k : Bytes} {snap : Nat} {f : File}
    (h : levelCandidate fs k snap = some f) :
    bytesLt k f.smallest.1 = false ∧ kLt f.largest (k, snap) = false := by
  unfold levelCandidate at h
  split at h
  · next g hg =>
    split at h
    · next hs =>
      cases h
      have := List.find?_some hg
      simp at this hs
      exact ⟨hs, this⟩
    · cases h
  · cases h

theorem mem_deeperCandidates {lvl : Nat} {k : Bytes} {snap : Nat} {rest : List (List File)}
    {p : Nat × File} (h : p ∈ deeperCandidates lvl k snap rest) :
    ∃ i, p.1 = lvl + i ∧ i < rest.length ∧ p.2 ∈ rest.getD i [] ∧
      levelCandidate (rest.getD i []) k snap = some p.2 := by
  induction rest generalizing lvl with
  | nil => simp [deeperCandidates] at h
  | cons fs rest ih =>
    simp only [deeperCandidates, List.mem_append] at h
    rcases h with h | h
    · cases hc : levelCandidate fs k snap with
      | none => simp [hc] at h
      | some f =>
        simp [hc] at h
        subst h
        exact ⟨0, by simp, by simp, by simpa using levelCandidate_mem hc, by simpa using hc⟩
    · obtain ⟨i, h1, h2, h3, h4⟩ := ih h
      exact ⟨i + 1, by omega, by simp; omega, by simpa using h3, by simpa using h4⟩

theorem mem_l0Candidates {fs : List File} {k : Bytes} {f : File} (h : f ∈ l0Candidates fs k) :
    f ∈ fs ∧ bytesLt k f.smallest.1 = false ∧ bytesLt f.largest.1 k = false := by
  unfold l0Candidates at h
  -- `sortDesc` is a permutation
  have mem_insert : ∀ (x g : File) (l : List File), x ∈ insertDesc g l → x = g ∨ x ∈ l := by
    intro x g l
    induction l with
    | nil => simp [insertDesc]
    | cons a l ih =>
      simp only [insertDesc]
      split
      · simp
      · simp only [List.mem_cons]
        rintro (h | h)
        · exact Or.inr (Or.inl h)
        · rcases ih h with h | h
          · exact Or.inl h
          · exact Or.inr (Or.inr h)
  have mem_sort : ∀ (x : File) (l : List File), x ∈ sortDesc l → x ∈ l := by
    intro x l
    induction l with
    | nil => simp [sortDesc]
    | cons a l ih =>
      simp only [sortDesc]
      intro h
      rcases mem_insert _ _ _ h with h | h
      · simp [h]
      · exact List.mem_cons_of_mem _ (ih h)
  have := mem_sort _ _ h
  simp only [List.mem_filter, Bool.and_eq_true, Bool.not_eq_eq_eq_not, Bool.not_true] at this
  exact ⟨this.1, this.2.1, this.2.2⟩

/-- every candidate is a file of the version, at the level it is tagged with -/
theorem mem_candidates {levels : List (List File)} {k : Bytes} {snap : Nat} {p : Nat × File}
    (h : p ∈ candidates levels k snap) : p.1 < levels.length ∧ p.2 ∈ levels.getD p.1 [] := by
  cases levels with
  | nil => simp [candidates] at h
  | cons l0 deeper =>
    simp only [candidates, List.mem_append, List.mem_map] at h
    rcases h with ⟨f, hf, rfl⟩ | h
    · exact ⟨by simp, by simpa using (mem_l0Candidates hf).1⟩
    · obtain ⟨i, h1, h2, h3, _⟩ := mem_deeperCandidates h
      refine ⟨by simp; omega, ?_⟩
      rw [h1, show 1 + i = i + 1 by omega]
      simpa using h3

/-- the user-key range of every candidate contains the key -/
theorem candidates_range {levels : List (List File)} {k : Bytes} {snap : Nat} {p : Nat × File}
    (h : p ∈ candidates levels k snap) :
    bytesLt k p.2.smallest.1 = false ∧ bytesLt p.2.largest.1 k = false ∨
    bytesLt k p.2.smallest.1 = false ∧ kLt p.2.largest (k, snap) = false := by
  cases levels with
  | nil => simp [candidates] at h
  | cons l0 deeper =>
    simp only [candidates, List.mem_append, List.mem_map] at h
    rcases h with ⟨f, hf, rfl⟩ | h
    · exact Or.inl (mem_l0Candidates hf).2
    · obtain ⟨i, _, _, _, h4⟩ := mem_deeperCandidates h
      exact Or.inr (levelCandidate_range h4)

/-! ### the order of the candidates -/

theorem deeperCandidates_pairwise (lvl : Nat) (k : Bytes) (snap : Nat) (rest : List (List File)) :
    (deeperCandidates lvl k snap rest).Pairwise (fun a b => a.1 < b.1) := by
  induction rest generalizing lvl with
  | nil => simp [deeperCandidates]
  | cons fs rest ih =>
    simp only [deeperCandidates]
    rw [List.pairwise_append]
    refine ⟨?_, ih (lvl + 1), ?_⟩
    · cases levelCandidate fs k snap <;> simp
    · intro a ha b hb
      obtain ⟨i, h1, _⟩ := mem_deeperCandidates hb
      cases hc : levelCandidate fs k snap with
      | none => simp [hc] at ha
      | some f =>
        simp [hc] at ha
        subst ha
        simp
        omega

/-- level-0 candidates come first; after them the levels strictly increase -/
theorem candidates_pairwise (levels : List (List File)) (k : Bytes) (snap : Nat) :
    (candidates levels k snap).Pairwise (fun a b => a.1 = 0 ∨ a.1 < b.1) := by
  cases levels with
  | nil => simp [candidates]
  | cons l0 deeper =>
    simp only [candidates]
    rw [List.pairwise_append]
    refine ⟨?_, ?_, ?_⟩
    · rw [List.pairwise_map]
      exact List.pairwise_of_forall (fun _ _ => Or.inl rfl)
    · exact (deeperCandidates_pairwise 1 k snap deeper).imp (fun h => Or.inr h)
    · intro a ha b _
      simp only [List.mem_map] at ha
      obtain ⟨f, _, rfl⟩ := ha
      exact Or.inl rfl

/-! ### the charge -/

theorem chargeOf_eq_some {l : List (Nat × File)} {p : Nat × File} (h : chargeOf l = some p) :
    ∃ q rest, l = p :: q :: rest := by
  match l, h with
  | a :: q :: rest, h => simp [chargeOf] at h; exact ⟨q, rest, by rw [h]⟩

theorem chargeOf_cutAtHit {k : Bytes} {snap : Nat} {l : List (Nat × File)} {p : Nat × File} :
    chargeOf (cutAtHit k snap l) = some p ↔
      ∃ q rest, l = p :: q :: rest ∧ lookupAt k snap p = .absent := by
  constructor
  · intro h
    cases l with
    | nil => simp [cutAtHit, chargeOf] at h
    | cons a rest =>
      simp only [cutAtHit] at h
      cases ha : lookupAt k snap a <;> simp only [ha] at h
      case absent =>
        cases rest with
        | nil => simp [cutAtHit, chargeOf] at h
        | cons q rest =>
          obtain ⟨q', rest', he⟩ := chargeOf_eq_some h
          have : a = p := by
            simp only [List.cons.injEq] at he
            exact he.1
          subst this
          exact ⟨q, rest, rfl, ha⟩
      all_goals simp [chargeOf] at h
  · rintro ⟨q, rest, rfl, ha⟩
    simp only [cutAtHit, ha]
    cases hq : lookupAt k snap q <;> simp [chargeOf]

/-- a charged pair is the head of the candidates and a second candidate follows -/
theorem getCharge_eq_some {levels : List (List File)} {k : Bytes} {snap : Nat} {p : Nat × File}
    (h : getCharge levels k snap = some p) :
    ∃ q rest, candidates levels k snap = p :: q :: rest ∧ lookupAt k snap p = .absent :=
  chargeOf_cutAtHit.mp h

theorem sampleCharge_eq_some {levels : List (List File)} {k : Bytes} {seq : Nat} {p : Nat × File}
    (h : sampleCharge levels k seq = some p) :
    ∃ q rest, candidates levels k seq = p :: q :: rest :=
  chargeOf_eq_some h

/-- the head of at least two candidates is in its level and not in the last level -/
theorem head_of_two {levels : List (List File)} {k : Bytes} {snap : Nat} {p q : Nat × File}
    {rest : List (Nat × File)} (h : candidates levels k snap = p :: q :: rest) :
    p.2 ∈ levels.getD p.1 [] ∧ p.1 + 1 < max 2 levels.length := by
  have hp : p ∈ candidates levels k snap := by rw [h]; simp
  have hq : q ∈ candidates levels k snap := by rw [h]; simp
  have hpw := candidates_pairwise levels k snap
  rw [h] at hpw
  have hlt : p.1 = 0 ∨ p.1 < q.1 := (List.pairwise_cons.mp hpw).1 q (by simp)
  have := (mem_candidates hq).1
  exact ⟨(mem_candidates hp).2, by omega⟩

/-! ### `update_stats` -/

theorem updateStats_some (s : SeekState) (l : Nat) (f : File) :
    updateStats s (some (l, f)) =
      if s.allowed f.num - 1 ≤ 0 ∧ s.toCompact = none then
        ({ allowed := fun n => if n = f.num then s.allowed f.num - 1 else s.allowed n,
           toCompact := some (f.num, l) }, true)
      else
        ({ allowed := fun n => if n = f.num then s.allowed f.num - 1 else s.allowed n,
           toCompact := s.toCompact }, false) := by
  simp [updateStats]

theorem updateStats_true {s s' : SeekState} {c : Option (Nat × File)}
    (h : updateStats s c = (s', true)) :
    ∃ l f, c = some (l, f) ∧ s.toCompact = none ∧ s'.toCompact = some (f.num, l) ∧
      s'.allowed f.num = s.allowed f.num - 1 ∧ s'.allowed f.num ≤ 0 ∧
      ∀ n, n ≠ f.num → s'.allowed n = s.allowed n := by
  match c, h with
  | none, h => simp [updateStats] at h
  | some (l, f), h =>
    rw [updateStats_some] at h
    by_cases hc : s.allowed f.num - 1 ≤ 0 ∧ s.toCompact = none
    · rw [if_pos hc] at h
      simp only [Prod.mk.injEq, and_true] at h
      subst h
      refine ⟨l, f, rfl, hc.2, rfl, by simp, by simpa using hc.1, ?_⟩
      intro n hn
      simp [hn]
    · rw [if_neg hc] at h
      simp at h

theorem updateStats_keeps {s : SeekState} {x : Nat × Nat} (c : Option (Nat × File))
    (h : s.toCompact = some x) :
    (updateStats s c).1.toCompact = some x ∧ (updateStats s c).2 = false := by
  match c with
  | none => simp [updateStats, h]
  | some (l, f) => rw [updateStats_some]; simp [h]

theorem updateStats_toCompact (s : SeekState) (c : Option (Nat × File)) :
    (updateStats s c).1.toCompact = s.toCompact ∨
    (s.toCompact = none ∧ ∃ l f, c = some (l, f) ∧ (updateStats s c).1.toCompact = some (f.num, l)) := by
  match c with
  | none => simp [updateStats]
  | some (l, f) =>
    rw [updateStats_some]
    by_cases hc : s.allowed f.num - 1 ≤ 0 ∧ s.toCompact = none
    · rw [if_pos hc]; exact Or.inr ⟨hc.2, l, f, rfl, rfl⟩
    · rw [if_neg hc]; exact Or.inl rfl

end Rain.Seek.Lemmas
