import Rain.Lemmas.LsmCompact
/-
The lemmas `Rain/Props/Lsm.lean` appeals to.  The work is in
`LsmOrder` (byte-string and internal-key order), `LsmView` (views, lookups, first hit),
`LsmFile` (files, levels, `sortDesc`), `LsmInv` (the invariant in propositional form),
`LsmRead` (`get_eq_view`, `inv_init`, `wellformed`), `LsmLevels` (level edits), `LsmWrite`
(write, rotation), `LsmMove` (flush, trivial move), `LsmMerge` (merge, drop rule),
`LsmCompactDefs` / `LsmCompact` (table compaction).
-/
namespace Rain.Lsm.Lemmas
open Rain Rain.Lsm

theorem step_inv' {s s' : State} {a : Action} (h : InvP s) (hs : step s a = some s') : InvP s' := by
  cases a with
  | write ops =>
    simp only [step, Option.some.injEq] at hs
    subst hs
    exact write_inv' h ops
  | rotate => exact rotate_inv' h hs
  | flush num lvl => exact flush_inv' h hs
  | compact c => exact compact_inv' h hs
  | trivialMove num lvl => exact move_inv' h hs

theorem step_inv (s s' : State) (a : Action) (h : Inv s) (hs : step s a = some s') : Inv s' :=
  (inv_iff s').mpr (step_inv' ((inv_iff s).mp h) hs)

theorem run_inv' {s s' : State} {as : List Action} (h : InvP s) (hr : run s as = some s') :
    InvP s' := by
  induction as generalizing s with
  | nil =>
    simp only [run, Option.some.injEq] at hr
    subst hr; exact h
  | cons a as ih =>
    simp only [run] at hr
    cases hstep : step s a with
    | none => rw [hstep] at hr; cases hr
    | some s1 =>
      rw [hstep] at hr
      exact ih (step_inv' h hstep) hr

theorem run_inv (s s' : State) (as : List Action) (h : Inv s) (hr : run s as = some s') : Inv s' :=
  (inv_iff s').mpr (run_inv' ((inv_iff s).mp h) hr)

theorem write_view_latest (s : State) (h : Inv s) (ops : List (Bytes × Option Bytes)) (k : Bytes) :
    view (allEntries (stepWrite s ops)) (s.lastSeq + ops.length) k
      = specApply (view (allEntries s) s.lastSeq) ops k :=
  write_view_latest' ((inv_iff s).mp h) ops k

theorem write_view_old (s : State) (h : Inv s) (ops : List (Bytes × Option Bytes)) (k : Bytes)
    (snap : Nat) (hs : snap ≤ s.lastSeq) :
    view (allEntries (stepWrite s ops)) snap k = view (allEntries s) snap k :=
  write_view_old' ((inv_iff s).mp h) ops k snap hs

theorem rearrange_view' {s s' : State} {a : Action} (h : InvP s) (hs : step s a = some s')
    (hw : a.isWrite = false) (snap : Nat) (hq : a.floor ≤ snap) (k : Bytes) :
    view (allEntries s') snap k = view (allEntries s) snap k := by
  cases a with
  | write ops => simp [Action.isWrite] at hw
  | rotate =>
    exact view_congr (uniq_all h) (fun e _ _ => (rotate_entries hs e).symm)
  | flush num lvl =>
    exact view_congr (uniq_all h) (fun e _ _ => (flush_entries h hs e).symm)
  | trivialMove num lvl =>
    exact view_congr (uniq_all h) (fun e _ _ => (move_entries h hs e).symm)
  | compact c =>
    obtain ⟨hv, rfl⟩ := compact_cases hs
    exact compact_view' h (compactV_of_valid h hv) snap hq k

theorem rearrange_view (s s' : State) (a : Action) (h : Inv s) (hs : step s a = some s')
    (hw : a.isWrite = false) (snap : Nat) (hq : a.floor ≤ snap) (k : Bytes) :
    view (allEntries s') snap k = view (allEntries s) snap k :=
  rearrange_view' ((inv_iff s).mp h) hs hw snap hq k

/-- rearranging steps leave the sequence number alone -/
theorem step_lastSeq {s s' : State} {a : Action} (hs : step s a = some s')
    (hw : a.isWrite = false) : s'.lastSeq = s.lastSeq := by
  cases a with
  | write ops => simp [Action.isWrite] at hw
  | rotate => exact rotate_lastSeq hs
  | flush num lvl => exact flush_lastSeq hs
  | trivialMove num lvl => exact move_lastSeq hs
  | compact c => obtain ⟨_, rfl⟩ := compact_cases hs; rfl

/-- a compaction's smallest snapshot is never above the last sequence number -/
theorem floor_le {s s' : State} {a : Action} (h : InvP s) (hs : step s a = some s') :
    a.floor ≤ s.lastSeq := by
  cases a with
  | compact c =>
    obtain ⟨hv, _⟩ := compact_cases hs
    exact (compactV_of_valid h hv).q_le
  | write ops => simp [Action.floor]
  | rotate => simp [Action.floor]
  | flush num lvl => simp [Action.floor]
  | trivialMove num lvl => simp [Action.floor]

/-- the view at the last sequence number follows the abstract map -/
theorem run_view (F : (Bytes → Option Bytes) → Action → (Bytes → Option Bytes))
    (hF1 : ∀ m ops, F m (.write ops) = specApply m ops)
    (hF2 : ∀ m a, a.isWrite = false → F m a = m)
    {as : List Action} {s s' : State} (h : InvP s) (hr : run s as = some s') :
    view (allEntries s') s'.lastSeq = as.foldl F (view (allEntries s) s.lastSeq) := by
  induction as generalizing s with
  | nil =>
    simp only [run, Option.some.injEq] at hr
    subst hr; rfl
  | cons a as ih =>
    simp only [run] at hr
    cases hstep : step s a with
    | none => rw [hstep] at hr; cases hr
    | some s1 =>
      rw [hstep] at hr
      rw [ih (step_inv' h hstep) hr, List.foldl_cons]
      congr 1
      cases hw : a.isWrite with
      | true =>
        cases a with
        | write ops =>
          simp only [step, Option.some.injEq] at hstep
          subst hstep
          rw [hF1]
          funext k
          exact write_view_latest' h ops k
        | rotate => cases hw
        | flush num lvl => cases hw
        | compact c => cases hw
        | trivialMove num lvl => cases hw
      | false =>
        rw [hF2 _ _ hw, step_lastSeq hstep hw]
        funext k
        exact rearrange_view' h hstep hw s.lastSeq (floor_le h hstep) k

theorem specOf_fold : ∃ F : (Bytes → Option Bytes) → Action → (Bytes → Option Bytes),
    (∀ as, specOf as = as.foldl F (fun _ => none)) ∧
    (∀ m ops, F m (.write ops) = specApply m ops) ∧ (∀ m a, a.isWrite = false → F m a = m) := by
  refine ⟨_, fun as => rfl, fun m ops => rfl, ?_⟩
  intro m a ha
  cases a <;> first | rfl | cases ha

theorem reads_latest (as : List Action) (s : State) (hr : run init as = some s) (k : Bytes) :
    dbGet s k s.lastSeq = specOf as k := by
  have hi : InvP init := (inv_iff init).mp inv_init
  have hs : InvP s := run_inv' hi hr
  obtain ⟨F, hF, hF1, hF2⟩ := specOf_fold
  rw [get_eq_view' s hs, hF, run_view F hF1 hF2 hi hr]
  have e : view (allEntries init) init.lastSeq = fun _ => none := by
    funext k; rfl
  rw [e]

theorem run_view_snap {as : List Action} {s s' : State} (h : InvP s) (hr : run s as = some s')
    (snap : Nat) (hs : snap ≤ s.lastSeq) (hq : ∀ a ∈ as, a.floor ≤ snap) (k : Bytes) :
    view (allEntries s') snap k = view (allEntries s) snap k := by
  induction as generalizing s with
  | nil =>
    simp only [run, Option.some.injEq] at hr
    subst hr; rfl
  | cons a as ih =>
    simp only [run] at hr
    cases hstep : step s a with
    | none => rw [hstep] at hr; cases hr
    | some s1 =>
      rw [hstep] at hr
      have hq' : ∀ a' ∈ as, a'.floor ≤ snap := fun a' ha' => hq a' (List.mem_cons_of_mem _ ha')
      cases hw : a.isWrite with
      | true =>
        cases a with
        | write ops =>
          simp only [step, Option.some.injEq] at hstep
          subst hstep
          rw [ih (write_inv' h ops) hr (by simp only [stepWrite]; omega) hq']
          exact write_view_old' h ops k snap hs
        | rotate => cases hw
        | flush num lvl => cases hw
        | compact c => cases hw
        | trivialMove num lvl => cases hw
      | false =>
        rw [ih (step_inv' h hstep) hr (by rw [step_lastSeq hstep hw]; exact hs) hq']
        exact rearrange_view' h hstep hw snap (hq a (List.mem_cons_self ..)) k

theorem snapshot_stable (s s' : State) (as : List Action) (h : Inv s) (hr : run s as = some s')
    (snap : Nat) (hs : snap ≤ s.lastSeq) (hq : ∀ a ∈ as, a.floor ≤ snap) (k : Bytes) :
    dbGet s' k snap = dbGet s k snap := by
  have hp := (inv_iff s).mp h
  rw [get_eq_view' s' (run_inv' hp hr), get_eq_view' s hp]
  exact run_view_snap hp hr snap hs hq k

end Rain.Lsm.Lemmas
