import Rain.Lemmas.LsmView
/-
Files and levels: bounds of a well-formed file, a sorted level is a sorted concatenation, the
level lookup (`levelCandidate`) agrees with a lookup in the concatenation, `sortDesc`.
-/
namespace Rain.Lsm.Lemmas
open Rain Rain.Lsm

theorem lastKey_eq (es : List Entry) : lastKey es = es.getLast?.map Entry.key := by
  induction es with
  | nil => rfl
  | cons a rest ih =>
    cases rest with
    | nil => rfl
    | cons b rest => simp only [lastKey]; rw [ih]; simp [List.getLast?_cons_cons]

structure FileOk (f : File) : Prop where
  ne : f.entries ≠ []
  sorted : Sorted f.entries
  small : f.entries.head?.map Entry.key = some f.smallest
  large : lastKey f.entries = some f.largest

theorem fileOk_iff (f : File) : fileOk f = true ↔ FileOk f := by
  simp only [fileOk, Bool.and_eq_true, Bool.not_eq_true', List.isEmpty_eq_false_iff, beq_iff_eq,
    sortedE_iff]
  constructor
  · rintro ⟨⟨⟨h1, h2⟩, h3⟩, h4⟩; exact ⟨h1, h2, h3, h4⟩
  · rintro ⟨h1, h2, h3, h4⟩; exact ⟨⟨⟨h1, h2⟩, h3⟩, h4⟩

namespace FileOk
variable {f : File} (h : FileOk f)
include h

theorem small_mem : ∃ e rest, f.entries = e :: rest ∧ e.key = f.smallest := by
  have hs := h.small
  cases he : f.entries with
  | nil => exact absurd he h.ne
  | cons e rest =>
    rw [he] at hs
    simp at hs
    exact ⟨e, rest, rfl, hs⟩

theorem large_mem : ∃ ys e, f.entries = ys ++ [e] ∧ e.key = f.largest := by
  have hl := h.large
  rw [lastKey_eq] at hl
  simp only [Option.map_eq_some_iff] at hl
  obtain ⟨e, he, hk⟩ := hl
  rw [List.getLast?_eq_some_iff] at he
  obtain ⟨ys, hys⟩ := he
  exact ⟨ys, e, hys, hk⟩

theorem ge_small {e : Entry} (he : e ∈ f.entries) : kLt e.key f.smallest = false := by
  obtain ⟨a, rest, hf, hk⟩ := h.small_mem
  have hs := h.sorted
  rw [hf] at he hs
  rw [← hk]
  rcases List.mem_cons.mp he with rfl | he
  · exact k_st.irrefl _
  · exact k_st.asymm (List.rel_of_pairwise_cons hs he)

theorem le_large {e : Entry} (he : e ∈ f.entries) : kLt f.largest e.key = false := by
  obtain ⟨ys, a, hf, hk⟩ := h.large_mem
  have hs := h.sorted
  rw [hf] at he hs
  rw [← hk]
  rcases List.mem_append.mp he with he | he
  · unfold Sorted at hs
    rw [List.pairwise_append] at hs
    exact k_st.asymm (hs.2.2 e he a (by simp))
  · simp at he; subst he; exact k_st.irrefl _

theorem small_le_large : kLt f.largest f.smallest = false := by
  obtain ⟨a, rest, hf, hk⟩ := h.small_mem
  rw [← hk]
  exact h.le_large (by rw [hf]; simp)

theorem ukey_ge {e : Entry} (he : e ∈ f.entries) : bytesLt e.ukey f.smallest.1 = false :=
  kLe_fst_le (h.ge_small he)

theorem ukey_le {e : Entry} (he : e ∈ f.entries) : bytesLt f.largest.1 e.ukey = false :=
  kLe_fst_le (h.le_large he)

theorem ufst_le : bytesLt f.largest.1 f.smallest.1 = false := kLe_fst_le h.small_le_large

end FileOk

theorem mkFile_ok (n : Nat) (es : List Entry) (hne : es ≠ []) (hs : Sorted es) : FileOk (mkFile n es) := by
  refine ⟨hne, hs, ?_, ?_⟩
  · cases es with
    | nil => exact absurd rfl hne
    | cons a rest => simp [mkFile]
  · simp only [mkFile]
    rw [lastKey_eq]
    have : es.getLast? = some (es.getLast hne) := List.getLast?_eq_some_getLast hne
    rw [this]; simp

@[simp] theorem mkFile_entries (n : Nat) (es : List Entry) : (mkFile n es).entries = es := rfl
@[simp] theorem mkFile_num (n : Nat) (es : List Entry) : (mkFile n es).num = n := rfl

/-! ### levels -/

def LevelOk (fs : List File) : Prop := fs.Pairwise (fun f g => kLt f.largest g.smallest = true)

theorem levelSorted_iff (fs : List File) (hf : ∀ f ∈ fs, FileOk f) :
    levelSorted fs = true ↔ LevelOk fs := by
  unfold LevelOk
  induction fs with
  | nil => simp [levelSorted]
  | cons a rest ih =>
    cases rest with
    | nil => simp [levelSorted]
    | cons b rest =>
      have ih' := ih (fun f hf' => hf f (List.mem_cons_of_mem _ hf'))
      simp only [levelSorted, Bool.and_eq_true, ih']
      constructor
      · rintro ⟨hab, hp⟩
        refine List.Pairwise.cons ?_ hp
        intro x hx
        rcases List.mem_cons.mp hx with rfl | hx
        · exact hab
        · have hbx := List.rel_of_pairwise_cons hp hx
          have hb : FileOk b := hf b (by simp)
          exact k_st.trans _ _ _ hab (k_st.lt_of_le_of_lt hb.small_le_large hbx)
      · intro hp
        exact ⟨List.rel_of_pairwise_cons hp (List.mem_cons_self ..), (List.pairwise_cons.mp hp).2⟩

/-- the entries of a level ≥ 1 in file order -/
def concat (fs : List File) : List Entry := (fs.map File.entries).flatten

theorem mem_concat {fs : List File} {e : Entry} : e ∈ concat fs ↔ ∃ f ∈ fs, e ∈ f.entries := by
  simp only [concat, List.mem_flatten, List.mem_map]
  constructor
  · rintro ⟨l, ⟨f, hf, rfl⟩, he⟩; exact ⟨f, hf, he⟩
  · rintro ⟨f, hf, he⟩; exact ⟨_, ⟨f, hf, rfl⟩, he⟩

theorem before_of_kLt {f g : File} (hf : FileOk f) (hg : FileOk g)
    (h : kLt f.largest g.smallest = true) {x y : Entry} (hx : x ∈ f.entries) (hy : y ∈ g.entries) :
    ikLt x y = true := by
  unfold ikLt
  exact k_st.lt_of_lt_of_le (k_st.lt_of_le_of_lt (hf.le_large hx) h) (hg.ge_small hy)

theorem concat_sorted (fs : List File) (hf : ∀ f ∈ fs, FileOk f) (hl : LevelOk fs) :
    Sorted (concat fs) := by
  unfold Sorted concat
  rw [List.pairwise_flatten]
  constructor
  · intro l hl'
    obtain ⟨f, hfm, rfl⟩ := List.mem_map.mp hl'
    exact (hf f hfm).sorted
  · rw [List.pairwise_map]
    refine List.Pairwise.imp_of_mem ?_ hl
    intro f g hfm hgm hlt x hx y hy
    exact before_of_kLt (hf f hfm) (hf g hgm) hlt hx hy

theorem lookupSorted_append_of_none {X Y : List Entry} {k : Bytes} {snap : Nat}
    (h : ∀ e ∈ X, geTarget e k snap = false) :
    lookupSorted (X ++ Y) k snap = lookupSorted Y k snap := by
  unfold lookupSorted
  rw [List.find?_append]
  have : X.find? (fun e => geTarget e k snap) = none := by
    rw [List.find?_eq_none]; intro e he; simp [h e he]
  rw [this]; simp

theorem lookupSorted_append_of_some {X Y : List Entry} {k : Bytes} {snap : Nat} {e : Entry}
    (he : e ∈ X) (hg : geTarget e k snap = true) :
    lookupSorted (X ++ Y) k snap = lookupSorted X k snap := by
  unfold lookupSorted
  rw [List.find?_append]
  cases hf : X.find? (fun e => geTarget e k snap) with
  | none =>
    rw [List.find?_eq_none] at hf
    exact absurd hg (hf e he)
  | some a => simp

/-- `get_overlapping_files` + `Table::get` on a level ≥ 1 is a lookup in the concatenation -/
theorem levelCandidate_lookup (fs : List File) (hf : ∀ f ∈ fs, FileOk f) (k : Bytes) (snap : Nat) :
    (match levelCandidate fs k snap with
      | some f => lookupSorted f.entries k snap
      | none => Lookup.absent) = lookupSorted (concat fs) k snap := by
  induction fs with
  | nil => simp [levelCandidate, concat, lookupSorted]
  | cons f rest ih =>
    have ih' := ih (fun g hg => hf g (List.mem_cons_of_mem _ hg))
    have hfo := hf f (List.mem_cons_self ..)
    have hc : concat (f :: rest) = f.entries ++ concat rest := by simp [concat]
    rw [hc]
    cases hlt : kLt f.largest (k, snap) with
    | true =>
      have h1 : levelCandidate (f :: rest) k snap = levelCandidate rest k snap := by
        simp [levelCandidate, hlt]
      rw [h1, ih']
      symm
      apply lookupSorted_append_of_none
      intro e he
      have : kLt e.key (k, snap) = true := k_st.lt_of_le_of_lt (hfo.le_large he) hlt
      simp [geTarget, this]
    | false =>
      have h1 : levelCandidate (f :: rest) k snap =
          if !bytesLt k f.smallest.1 then some f else none := by
        simp [levelCandidate, hlt]
      obtain ⟨ys, a, hys, hak⟩ := hfo.large_mem
      have ham : a ∈ f.entries := by rw [hys]; simp
      have hga : geTarget a k snap = true := by
        rw [geTarget_iff, hak]; exact hlt
      rw [lookupSorted_append_of_some ham hga, h1]
      cases hb : bytesLt k f.smallest.1 with
      | false => simp
      | true =>
        simp only [Bool.not_true, Bool.false_eq_true, if_false]
        symm
        apply lookup_absent_of_no_key
        intro e he hek
        have := hfo.ukey_ge he
        rw [hek] at this
        have := bytes_st.asymm hb
        simp_all

/-! ### `sortDesc` -/

theorem mem_insertDesc {f x : File} {l : List File} : x ∈ insertDesc f l ↔ x = f ∨ x ∈ l := by
  induction l with
  | nil => simp [insertDesc]
  | cons g gs ih =>
    simp only [insertDesc]
    split
    · simp
    · simp only [List.mem_cons, ih]
      constructor
      · rintro (h | h | h)
        · exact Or.inr (Or.inl h)
        · exact Or.inl h
        · exact Or.inr (Or.inr h)
      · rintro (h | h | h)
        · exact Or.inr (Or.inl h)
        · exact Or.inl h
        · exact Or.inr (Or.inr h)

theorem mem_sortDesc {x : File} {l : List File} : x ∈ sortDesc l ↔ x ∈ l := by
  induction l with
  | nil => simp [sortDesc]
  | cons g gs ih => simp [sortDesc, mem_insertDesc, ih]

def DescNum (l : List File) : Prop := l.Pairwise (fun a b => b.num ≤ a.num)

theorem insertDesc_desc {f : File} {l : List File} (h : DescNum l) : DescNum (insertDesc f l) := by
  unfold DescNum at *
  induction l with
  | nil => simp [insertDesc]
  | cons g gs ih =>
    have hp := List.pairwise_cons.mp h
    simp only [insertDesc]
    split
    · rename_i hlt
      refine List.Pairwise.cons ?_ h
      intro x hx
      rcases List.mem_cons.mp hx with rfl | hx
      · omega
      · have := hp.1 x hx; omega
    · rename_i hlt
      refine List.Pairwise.cons ?_ (ih hp.2)
      intro x hx
      rcases mem_insertDesc.mp hx with rfl | hx
      · omega
      · exact hp.1 x hx

theorem sortDesc_desc (l : List File) : DescNum (sortDesc l) := by
  induction l with
  | nil => simp [sortDesc, DescNum]
  | cons g gs ih => exact insertDesc_desc ih

theorem insertDesc_of_all_lt {f : File} {l : List File} (h : ∀ x ∈ l, x.num < f.num) :
    insertDesc f l = f :: l := by
  cases l with
  | nil => rfl
  | cons g gs => simp [insertDesc, h g (List.mem_cons_self ..)]

theorem filter_insertDesc (p : File → Bool) {f : File} {l : List File} (h : DescNum l) :
    (insertDesc f l).filter p = if p f then insertDesc f (l.filter p) else l.filter p := by
  unfold DescNum at h
  induction l with
  | nil => simp [insertDesc, List.filter_cons]
  | cons g gs ih =>
    have hp := List.pairwise_cons.mp h
    have ih' := ih hp.2
    simp only [insertDesc]
    by_cases hlt : g.num < f.num
    · simp only [hlt, if_true]
      cases hpf : p f with
      | false => simp [List.filter_cons, hpf]
      | true =>
        simp only [if_true]
        rw [insertDesc_of_all_lt]
        · simp [List.filter_cons, hpf]
        · intro x hx
          have hx' := (List.mem_filter.mp hx).1
          rcases List.mem_cons.mp hx' with rfl | hx'
          · exact hlt
          · have := hp.1 x hx'; omega
    · simp only [hlt, if_false]
      cases hpg : p g with
      | false =>
        simp only [List.filter_cons, hpg, Bool.false_eq_true, if_false]
        exact ih'
      | true =>
        simp only [List.filter_cons, hpg, if_true, ih']
        cases hpf : p f with
        | false => simp
        | true => simp [insertDesc, hlt]

theorem filter_sortDesc (p : File → Bool) (l : List File) :
    (sortDesc l).filter p = sortDesc (l.filter p) := by
  induction l with
  | nil => simp [sortDesc]
  | cons g gs ih =>
    simp only [sortDesc, List.filter_cons]
    rw [filter_insertDesc p (sortDesc_desc gs), ih]
    split <;> simp [sortDesc]

end Rain.Lsm.Lemmas
