import Rain.Lemmas.LsmLevels
/-
Writes and memtable rotation: invariant and views.
-/
namespace Rain.Lsm.Lemmas
open Rain Rain.Lsm

theorem InvP.ofLevels {s : State} (hl : LevelsP s.levels) (memS : Sorted s.mem)
    (immS : Sorted (s.imm.getD [])) (memNew : Newer s.mem (s.imm.getD []))
    (memNewF : ∀ j f, f ∈ lv s.levels j → Newer s.mem f.entries)
    (immNewF : ∀ j f, f ∈ lv s.levels j → Newer (s.imm.getD []) f.entries)
    (seqM : ∀ e ∈ s.mem, e.seq ≤ s.lastSeq) (seqI : ∀ e ∈ s.imm.getD [], e.seq ≤ s.lastSeq)
    (seqF : ∀ j f, f ∈ lv s.levels j → ∀ e ∈ f.entries, e.seq ≤ s.lastSeq) : InvP s :=
  ⟨hl.len, memS, immS, hl.files, hl.lvls, memNew, memNewF, immNewF, hl.order, hl.numsL, hl.numsX,
    seqM, seqI, seqF⟩

/-! ### insertE / applyOps -/

def opEntry (kv : Bytes × Option Bytes) (seq : Nat) : Entry :=
  { ukey := kv.1, seq := seq, put := kv.2.isSome, val := kv.2.getD [] }

/-- the entries a batch adds -/
def newE : List (Bytes × Option Bytes) → Nat → List Entry
  | [], _ => []
  | kv :: rest, seq => opEntry kv seq :: newE rest (seq + 1)

theorem applyOps_cons (kv : Bytes × Option Bytes) (rest : List (Bytes × Option Bytes)) (seq : Nat)
    (m : List Entry) :
    applyOps (kv :: rest) seq m = applyOps rest (seq + 1) (insertE (opEntry kv seq) m) := by
  obtain ⟨k, v⟩ := kv; rfl

theorem newE_seq {ops : List (Bytes × Option Bytes)} {seq : Nat} {x : Entry}
    (h : x ∈ newE ops seq) : seq ≤ x.seq ∧ x.seq < seq + ops.length := by
  induction ops generalizing seq with
  | nil => simp [newE] at h
  | cons kv rest ih =>
    simp only [newE, List.mem_cons] at h
    rcases h with rfl | h
    · simp [opEntry]
    · have := ih h; simp only [List.length_cons]; omega

theorem mem_insertE {e x : Entry} {l : List Entry} : x ∈ insertE e l ↔ x = e ∨ x ∈ l := by
  induction l with
  | nil => simp [insertE]
  | cons a rest ih =>
    simp only [insertE]
    split
    · simp
    · simp only [List.mem_cons, ih]
      constructor
      · rintro (h | h | h)
        · exact Or.inr (Or.inl h)
        · exact Or.inl h
        · exact Or.inr (Or.inr h)
      · rintro (h | h | h)
        · exact Or.inr (Or.inl h)
        · exact Or.inl h
        · exact Or.inr (Or.inr h)

theorem insertE_sorted {e : Entry} {l : List Entry} (hs : Sorted l)
    (hne : ∀ x ∈ l, x.key ≠ e.key) : Sorted (insertE e l) := by
  unfold Sorted at *
  induction l with
  | nil => simp [insertE]
  | cons a rest ih =>
    have hp := List.pairwise_cons.mp hs
    simp only [insertE]
    split
    · rename_i hlt
      refine List.Pairwise.cons ?_ hs
      intro x hx
      rcases List.mem_cons.mp hx with rfl | hx
      · exact hlt
      · exact ikLt_trans hlt (hp.1 x hx)
    · rename_i hlt
      refine List.Pairwise.cons ?_ (ih hp.2 (fun x hx => hne x (List.mem_cons_of_mem _ hx)))
      intro x hx
      rcases mem_insertE.mp hx with rfl | hx
      · have hlt' : kLt x.key a.key = false := by simpa [ikLt] using hlt
        rcases k_st.lt_or_eq_of_le hlt' with h | h
        · exact h
        · exact absurd h (hne a (List.mem_cons_self ..))
      · exact hp.1 x hx

theorem filter_insertE_of_not (p : Entry → Bool) {e : Entry} (l : List Entry) (h : p e = false) :
    (insertE e l).filter p = l.filter p := by
  induction l with
  | nil => simp [insertE, h]
  | cons a rest ih =>
    simp only [insertE]
    split
    · simp [List.filter_cons, h]
    · simp [List.filter_cons, ih]

theorem mem_applyOps {ops : List (Bytes × Option Bytes)} {seq : Nat} {m : List Entry} {x : Entry} :
    x ∈ applyOps ops seq m ↔ x ∈ newE ops seq ∨ x ∈ m := by
  induction ops generalizing seq m with
  | nil => simp [applyOps, newE]
  | cons kv rest ih =>
    rw [applyOps_cons, ih, mem_insertE]
    simp only [newE, List.mem_cons]
    constructor
    · rintro (h | h | h)
      · exact Or.inl (Or.inr h)
      · exact Or.inl (Or.inl h)
      · exact Or.inr h
    · rintro ((h | h) | h)
      · exact Or.inr (Or.inl h)
      · exact Or.inl h
      · exact Or.inr (Or.inr h)

theorem applyOps_sorted {ops : List (Bytes × Option Bytes)} {seq : Nat} {m : List Entry}
    (hs : Sorted m) (hlt : ∀ x ∈ m, x.seq < seq) : Sorted (applyOps ops seq m) := by
  induction ops generalizing seq m with
  | nil => exact hs
  | cons kv rest ih =>
    rw [applyOps_cons]
    apply ih
    · apply insertE_sorted hs
      intro x hx hk
      have := hlt x hx
      have e : x.seq = seq := by
        have := congrArg Prod.snd hk
        simpa [Entry.key, opEntry] using this
      omega
    · intro x hx
      rcases mem_insertE.mp hx with rfl | hx
      · simp [opEntry]
      · have := hlt x hx; omega

/-! ### the write step -/

theorem mem_allEntries_write {s : State} {ops : List (Bytes × Option Bytes)} {e : Entry} :
    e ∈ allEntries (stepWrite s ops) ↔ e ∈ newE ops (s.lastSeq + 1) ∨ e ∈ allEntries s := by
  simp only [mem_allEntries, stepWrite, mem_applyOps, or_assoc]

theorem write_inv' {s : State} (h : InvP s) (ops : List (Bytes × Option Bytes)) :
    InvP (stepWrite s ops) := by
  have hnew : ∀ X : List Entry, (∀ y ∈ X, y.seq ≤ s.lastSeq) → Newer s.mem X →
      Newer (applyOps ops (s.lastSeq + 1) s.mem) X := by
    intro X hX hN x hx y hy e
    rcases mem_applyOps.mp hx with hx | hx
    · have := (newE_seq hx).1
      have := hX y hy
      omega
    · exact hN x hx y hy e
  apply InvP.ofLevels (s := stepWrite s ops) h.levelsP
  · exact applyOps_sorted h.memS (fun x hx => by have := h.seqM x hx; omega)
  · exact h.immS
  · exact hnew _ h.seqI h.memNew
  · intro j f hf; exact hnew _ (h.seqF j f hf) (h.memNewF j f hf)
  · exact h.immNewF
  · intro e he
    simp only [stepWrite] at he ⊢
    rcases mem_applyOps.mp he with he | he
    · have := (newE_seq he).2; omega
    · have := h.seqM e he; omega
  · intro e he
    have := h.seqI e he
    simp only [stepWrite]; omega
  · intro j f hf e he
    have := h.seqF j f hf e he
    simp only [stepWrite]; omega

theorem all_seq_le {s : State} (h : InvP s) : ∀ e ∈ allEntries s, e.seq ≤ s.lastSeq := by
  intro e he
  rcases mem_allEntries.mp he with he | he | ⟨j, f, hf, he⟩
  · exact h.seqM e he
  · exact h.seqI e he
  · exact h.seqF j f hf e he

theorem write_view_old' {s : State} (h : InvP s) (ops : List (Bytes × Option Bytes)) (k : Bytes)
    (snap : Nat) (hs : snap ≤ s.lastSeq) :
    view (allEntries (stepWrite s ops)) snap k = view (allEntries s) snap k := by
  apply view_congr (uniq_all h)
  intro e _ hsq
  rw [mem_allEntries_write]
  constructor
  · exact Or.inr
  · rintro (he | he)
    · have := (newE_seq he).1; omega
    · exact he

theorem valOf_opEntry (kv : Bytes × Option Bytes) (seq : Nat) : valOf (opEntry kv seq) = kv.2 := by
  obtain ⟨k, v⟩ := kv
  cases v <;> simp [valOf, opEntry]

/-- one batch on top of entries that are all at or below `b` -/
theorem view_applyOps (ops : List (Bytes × Option Bytes)) (b : Nat) (m rest : List Entry)
    (hle : ∀ x ∈ m ++ rest, x.seq ≤ b) (k : Bytes) :
    view (applyOps ops (b + 1) m ++ rest) (b + ops.length) k
      = specApply (view (m ++ rest) b) ops k := by
  induction ops generalizing b m with
  | nil => simp [applyOps, specApply]
  | cons kv ops ih =>
    rw [applyOps_cons]
    have hle' : ∀ x ∈ insertE (opEntry kv (b + 1)) m ++ rest, x.seq ≤ b + 1 := by
      intro x hx
      rcases List.mem_append.mp hx with hx | hx
      · rcases mem_insertE.mp hx with rfl | hx
        · simp [opEntry]
        · have := hle x (List.mem_append_left _ hx); omega
      · have := hle x (List.mem_append_right _ hx); omega
    have e1 : b + (kv :: ops).length = (b + 1) + ops.length := by simp; omega
    rw [e1, ih (b + 1) _ hle']
    have e2 : view (insertE (opEntry kv (b + 1)) m ++ rest) (b + 1) =
        fun k2 => if k2 == kv.1 then kv.2 else view (m ++ rest) b k2 := by
      funext k2
      by_cases hk : k2 = kv.1
      · subst hk
        simp only [beq_self_eq_true, if_true]
        rw [← valOf_opEntry kv (b + 1)]
        apply view_eq_of_max (List.mem_append_left _ (mem_insertE.mpr (Or.inl rfl))) rfl
          (by simp [opEntry])
        intro x hx _ _
        rcases List.mem_append.mp hx with hx | hx
        · rcases mem_insertE.mp hx with rfl | hx
          · exact Or.inr rfl
          · left; have := hle x (List.mem_append_left _ hx); simp [opEntry]; omega
        · left; have := hle x (List.mem_append_right _ hx); simp [opEntry]; omega
      · have hk' : (k2 == kv.1) = false := by simpa using hk
        simp only [hk', Bool.false_eq_true, if_false]
        apply view_filter_congr
        rw [List.filter_append, List.filter_append, filter_insertE_of_not]
        · rw [← List.filter_append, ← List.filter_append]
          apply List.filter_congr
          intro x hx
          have := hle x hx
          have h1 : decide (x.seq ≤ b + 1) = true := by simp; omega
          have h2 : decide (x.seq ≤ b) = true := by simp; omega
          rw [h1, h2]
        · have : ((opEntry kv (b + 1)).ukey == k2) = false := by
            simp only [opEntry, beq_eq_false_iff_ne, ne_eq]
            exact fun e => hk e.symm
          simp [this]
    rw [e2]
    rfl

theorem write_view_latest' {s : State} (h : InvP s) (ops : List (Bytes × Option Bytes)) (k : Bytes) :
    view (allEntries (stepWrite s ops)) (s.lastSeq + ops.length) k
      = specApply (view (allEntries s) s.lastSeq) ops k := by
  have e1 : ∀ t : State, allEntries t =
      t.mem ++ (t.imm.getD [] ++ (t.levels.flatten.map File.entries).flatten) := by
    intro t; simp [allEntries]
  rw [e1, e1]
  have e2 := all_seq_le h
  rw [e1] at e2
  exact view_applyOps ops s.lastSeq s.mem _ e2 k

/-! ### rotation -/

theorem rotate_inv' {s s' : State} (h : InvP s) (hs : stepRotate s = some s') : InvP s' := by
  obtain ⟨m, i, L, n⟩ := s
  cases i with
  | some es => simp [stepRotate] at hs
  | none =>
    simp only [stepRotate, Option.some.injEq] at hs
    subst hs
    apply InvP.ofLevels (s := { mem := [], imm := some m, levels := L, lastSeq := n }) h.levelsP
    · simp [Sorted]
    · exact h.memS
    · exact Newer.nil_left _
    · intro j f _; exact Newer.nil_left _
    · exact h.memNewF
    · intro e he; cases he
    · exact h.seqM
    · exact h.seqF

theorem rotate_entries {s s' : State} (hs : stepRotate s = some s') (e : Entry) :
    e ∈ allEntries s' ↔ e ∈ allEntries s := by
  obtain ⟨m, i, L, n⟩ := s
  cases i with
  | some es => simp [stepRotate] at hs
  | none =>
    simp only [stepRotate, Option.some.injEq] at hs
    subst hs
    simp [allEntries]

theorem rotate_lastSeq {s s' : State} (hs : stepRotate s = some s') : s'.lastSeq = s.lastSeq := by
  obtain ⟨m, i, L, n⟩ := s
  cases i with
  | some es => simp [stepRotate] at hs
  | none =>
    simp only [stepRotate, Option.some.injEq] at hs
    subst hs; rfl

end Rain.Lsm.Lemmas
