import Rain.Lemmas.LogWriter
/-
The reader against the writer, one `append` at a time: complete (A), truncated (B), and
abandoned-then-reopened (C) records.
-/
namespace Rain.Log
open Rain

theorem spaceA_lt (c : Cfg) (hB2 : c.B ≤ 65535 + H) (off : Nat) : spaceA c off < 65536 := by
  unfold spaceA; omega

/-- the reader decodes one written fragment (padding included) -/
theorem readPhysical_frag (c : Cfg) (hB : H < c.B) (hB2 : c.B ≤ 65535 + H) (hcrc : ∀ d, c.crc d < 2^32)
    (off : Nat) (hoff : off ≤ c.B) (ty : Nat) (hty : ty ≤ 3) (chunk tail : Bytes)
    (hlen : chunk.length ≤ spaceA c off) :
    readPhysical c ((padL c off).flatten ++ (emit c ty chunk ++ tail)) (off % c.B)
      = .ok ty chunk tail ((offA c off + H + chunk.length) % c.B) := by
  have hsp := offA_space c hB off hoff
  have := spaceA_lt c hB2 off
  rw [readPhysical_pad c hB off hoff, readPhysical_emit c hcrc ty hty chunk tail _ (by omega) (by omega)]

/-- a fragment cut short (anywhere in padding, header or payload) reads as end of file -/
theorem readPhysical_frag_cut (c : Cfg) (hB : H < c.B) (hB2 : c.B ≤ 65535 + H)
    (off : Nat) (hoff : off ≤ c.B) (ty : Nat) (chunk : Bytes) (m : Nat)
    (hlen : chunk.length ≤ spaceA c off)
    (hm : m < (padL c off).flatten.length + (H + chunk.length)) :
    readPhysical c (((padL c off).flatten ++ emit c ty chunk).take m) (off % c.B) = .eof := by
  have hsp := offA_space c hB off hoff
  have := spaceA_lt c hB2 off
  by_cases h1 : m < (padL c off).flatten.length
  · rw [List.take_append_of_le_length (by omega)]
    rw [padL_flatten_length] at h1
    have hH : H = 7 := rfl
    have h2 : c.B - off < H := by
      by_cases h : c.B - off < H
      · exact h
      · simp [h] at h1
    simp only [h2, if_true] at h1
    have h3 : off % c.B = off := Nat.mod_eq_of_lt (by omega)
    rw [h3]
    apply readPhysical_short c _ _ h2
    simp only [List.length_take, padL_flatten_length, h2, if_true]
    omega
  · have : ((padL c off).flatten ++ emit c ty chunk).take m
        = (padL c off).flatten ++ (emit c ty chunk).take (m - (padL c off).flatten.length) := by
      rw [List.take_append, List.take_of_length_le (by omega)]
    rw [this, readPhysical_pad c hB off hoff,
      readPhysical_emit_cut c ty chunk _ _ (by omega) (by omega) (by omega)]


theorem readRecordLoop_succ (c : Cfg) (fuel : Nat) (rest : Bytes) (boff : Nat) (acc : Bytes) (frag : Bool) :
    readRecordLoop c (fuel+1) rest boff acc frag =
    match readPhysical c rest boff with
    | .eof => .eof
    | .bad rest' boff' => readRecordLoop c fuel rest' boff' [] false
    | .ok ty data rest' boff' =>
      if ty = TFull then .record data rest' boff'
      else if ty = TFirst then readRecordLoop c fuel rest' boff' data true
      else if ty = TMiddle then
        (if frag then readRecordLoop c fuel rest' boff' (acc ++ data) true
         else readRecordLoop c fuel rest' boff' [] false)
      else
        (if frag then .record (acc ++ data) rest' boff'
         else readRecordLoop c fuel rest' boff' [] false) := by
  rw [readRecordLoop]
  rfl

/-- enough writer fuel for the remaining data at this offset -/
def fuelOK (c : Cfg) (wf off : Nat) (data : Bytes) : Prop :=
  2 * data.length + (if spaceA c off = 0 then 2 else 1) ≤ wf

theorem fuelOK_appendFuel (c : Cfg) (off : Nat) (data : Bytes) : fuelOK c (appendFuel data) off data := by
  unfold fuelOK appendFuel; split <;> omega

/-- **(A)** all fragments of one `append` are reassembled into the record -/
theorem readRecordLoop_writes (c : Cfg) (hB : H < c.B) (hB2 : c.B ≤ 65535 + H)
    (hcrc : ∀ d, c.crc d < 2^32) (wf : Nat) :
    ∀ (off : Nat) (data : Bytes) (first : Bool) (rf : Nat) (acc : Bytes) (frag : Bool) (tail : Bytes),
    off ≤ c.B → fuelOK c wf off data → (first = true ∨ frag = true) →
    (appendLoop c wf off data first).1.flatten.length < rf →
    readRecordLoop c rf ((appendLoop c wf off data first).1.flatten ++ tail) (off % c.B) acc frag
      = .record (if first then data else acc ++ data) tail ((appendLoop c wf off data first).2 % c.B) := by
  induction wf with
  | zero => intro off data first rf acc frag tail _ hf; unfold fuelOK at hf; split at hf <;> omega
  | succ wf ih =>
    intro off data first rf acc frag tail hoff hf hfirst hrf
    have hsp := offA_space c hB off hoff
    have hH : H = 7 := rfl
    obtain ⟨rf, rfl⟩ : ∃ r, rf = r + 1 := ⟨rf - 1, by omega⟩
    rw [readRecordLoop_succ]
    by_cases h : data.length ≤ spaceA c off
    · rw [appendLoop_last c wf off data first h]
      simp only [List.flatten_append, List.flatten_cons, List.flatten_nil, List.append_nil,
        List.append_assoc]
      rw [readPhysical_frag c hB hB2 hcrc off hoff _ (by cases first <;> simp [TFull, TLast]) data tail h]
      cases first with
      | true => simp [TFull]
      | false =>
        have : frag = true := by simpa using hfirst
        simp [TFull, TLast, TFirst, TMiddle, this]
    · have h' : spaceA c off < data.length := by omega
      rw [appendLoop_more c wf off data first h'] at hrf ⊢
      simp only [List.flatten_append, List.flatten_cons, List.flatten_nil, List.append_nil,
        List.append_assoc, List.length_append, emit_length] at hrf ⊢
      have hlen : (data.take (spaceA c off)).length = spaceA c off := by
        rw [List.length_take]; omega
      rw [hlen] at hrf
      rw [readPhysical_frag c hB hB2 hcrc off hoff _ (by cases first <;> simp [TFirst, TMiddle]) _ _
        (by omega), hlen]
      have hf' : fuelOK c wf (offA c off + H + spaceA c off) (data.drop (spaceA c off)) := by
        unfold fuelOK at hf ⊢
        rw [hsp, List.length_drop]
        have h0 : offA c c.B = 0 := by unfold offA; simp [hH]
        have : spaceA c c.B ≠ 0 := by unfold spaceA; rw [h0]; omega
        simp only [this, if_false]
        split at hf <;> omega
      have key := fun acc' => ih (offA c off + H + spaceA c off) (data.drop (spaceA c off)) false rf
        acc' true tail (by omega) hf' (Or.inr rfl) (by omega)
      have hmod : (offA c off + H + spaceA c off) % c.B % c.B = (offA c off + H + spaceA c off) % c.B :=
        Nat.mod_mod _ _
      cases first with
      | true =>
        simp only [TFirst, TFull, if_true]
        simp only [show ¬ (1 = 0) by decide, if_false]
        rw [key]
        simp
      | false =>
        have : frag = true := by simpa using hfirst
        simp only [TFirst, TFull, TMiddle, this, Bool.false_eq_true, if_false, if_true]
        simp only [show ¬ (2 = 0) by decide, show ¬ (2 = 1) by decide, if_false]
        rw [key]
        simp


theorem readRecordLoop_zero (c : Cfg) (rest : Bytes) (boff : Nat) (acc : Bytes) (frag : Bool) :
    readRecordLoop c 0 rest boff acc frag = .eof := rfl

/-- the record reader skips the writer's padding -/
theorem readRecordLoop_pad (c : Cfg) (hB : H < c.B) (off : Nat) (hoff : off ≤ c.B) (rf : Nat) (X : Bytes)
    (acc : Bytes) (frag : Bool) :
    readRecordLoop c rf ((padL c off).flatten ++ X) (off % c.B) acc frag
      = readRecordLoop c rf X (offA c off) acc frag := by
  cases rf with
  | zero => rfl
  | succ rf => rw [readRecordLoop_succ, readRecordLoop_succ, readPhysical_pad c hB off hoff]

/-- a non-final fragment is consumed and the loop goes on (in some assembly state) at the block boundary -/
theorem readRecordLoop_nonfinal (c : Cfg) (hB : H < c.B) (hB2 : c.B ≤ 65535 + H)
    (hcrc : ∀ d, c.crc d < 2^32) (off : Nat) (hoff : off ≤ c.B) (data : Bytes) (first : Bool)
    (h : spaceA c off < data.length) (rf : Nat) (acc : Bytes) (frag : Bool) (Y : Bytes) :
    ∃ acc' frag',
      readRecordLoop c (rf+1) ((padL c off).flatten ++
        (emit c (if first then TFirst else TMiddle) (data.take (spaceA c off)) ++ Y)) (off % c.B) acc frag
      = readRecordLoop c rf Y ((offA c off + H + spaceA c off) % c.B) acc' frag' := by
  have hlen : (data.take (spaceA c off)).length = spaceA c off := by
    rw [List.length_take]; omega
  rw [readRecordLoop_succ, readPhysical_frag c hB hB2 hcrc off hoff _
    (by cases first <;> simp [TFirst, TMiddle]) _ _ (by omega), hlen]
  cases first with
  | true =>
    exact ⟨data.take (spaceA c off), true, by simp [TFirst, TFull]⟩
  | false =>
    cases frag with
    | true => exact ⟨acc ++ data.take (spaceA c off), true, by simp [TFirst, TFull, TMiddle]⟩
    | false => exact ⟨[], false, by simp [TFirst, TFull, TMiddle]⟩

/-- **(B)** a proper prefix of the bytes of one `append` yields no record -/
theorem readRecordLoop_writes_cut (c : Cfg) (hB : H < c.B) (hB2 : c.B ≤ 65535 + H)
    (hcrc : ∀ d, c.crc d < 2^32) (wf : Nat) :
    ∀ (off : Nat) (data : Bytes) (first : Bool) (rf : Nat) (acc : Bytes) (frag : Bool) (m : Nat),
    off ≤ c.B → m < (appendLoop c wf off data first).1.flatten.length →
    readRecordLoop c rf ((appendLoop c wf off data first).1.flatten.take m) (off % c.B) acc frag = .eof := by
  induction wf with
  | zero => intro off data first rf acc frag m _ hm; simp [appendLoop] at hm
  | succ wf ih =>
    intro off data first rf acc frag m hoff hm
    have hsp := offA_space c hB off hoff
    have hH : H = 7 := rfl
    cases rf with
    | zero => rfl
    | succ rf =>
    by_cases h : data.length ≤ spaceA c off
    · rw [appendLoop_last c wf off data first h] at hm ⊢
      simp only [List.flatten_append, List.flatten_cons, List.flatten_nil, List.append_nil,
        List.length_append, emit_length] at hm ⊢
      rw [readRecordLoop_succ, readPhysical_frag_cut c hB hB2 off hoff _ data m h hm]
    · have h' : spaceA c off < data.length := by omega
      have hlen : (data.take (spaceA c off)).length = spaceA c off := by
        rw [List.length_take]; omega
      rw [appendLoop_more c wf off data first h'] at hm ⊢
      simp only [List.flatten_append, List.flatten_cons, List.flatten_nil, List.append_nil,
        List.length_append, emit_length, hlen] at hm ⊢
      by_cases hm1 : m < (padL c off).flatten.length + (H + spaceA c off)
      · rw [List.take_append_of_le_length (by simp only [List.length_append, emit_length, hlen]; omega), readRecordLoop_succ,
          readPhysical_frag_cut c hB hB2 off hoff _ _ m (by omega) (by omega)]
      · rw [List.take_append, List.take_of_length_le (by simp only [List.length_append, emit_length, hlen]; omega),
          List.append_assoc]
        obtain ⟨acc', frag', he⟩ := readRecordLoop_nonfinal c hB hB2 hcrc off hoff data first h' rf acc frag
          (List.take (m - ((padL c off).flatten ++
            emit c (if first = true then TFirst else TMiddle) (List.take (spaceA c off) data)).length)
            (appendLoop c wf (offA c off + H + spaceA c off) (List.drop (spaceA c off) data) false).1.flatten)
        rw [he]
        apply ih _ _ _ _ _ _ _ (by omega)
        simp only [List.length_append, emit_length, hlen]
        omega


theorem padL_length_le (c : Cfg) (off : Nat) : (padL c off).length ≤ 1 := by
  unfold padL; split <;> simp

/-- **(C)** the writes a dead writer got out (`j` of them, fewer than the whole record) are skipped:
the reader arrives, in some assembly state, at the position where a re-opened writer continues -/
theorem readRecordLoop_partial (c : Cfg) (hB : H < c.B) (hB2 : c.B ≤ 65535 + H)
    (hcrc : ∀ d, c.crc d < 2^32) (wf : Nat) :
    ∀ (off : Nat) (data : Bytes) (first : Bool) (j rf : Nat) (acc : Bytes) (frag : Bool) (X : Bytes),
    off ≤ c.B → j < (appendLoop c wf off data first).1.length →
    ∃ rf' acc' frag',
      rf ≤ rf' + (((appendLoop c wf off data first).1.take j).flatten).length ∧
      readRecordLoop c rf (((appendLoop c wf off data first).1.take j).flatten ++ X) (off % c.B) acc frag
        = readRecordLoop c rf' X
            ((off + (((appendLoop c wf off data first).1.take j).flatten).length) % c.B) acc' frag' := by
  induction wf with
  | zero => intro off data first j rf acc frag X _ hj; simp [appendLoop] at hj
  | succ wf ih =>
    intro off data first j rf acc frag X hoff hj
    have hsp := offA_space c hB off hoff
    have hH : H = 7 := rfl
    have hp := padL_length_le c off
    by_cases hj0 : j = 0
    · subst hj0
      exact ⟨rf, acc, frag, by simp, by simp⟩
    · by_cases h : data.length ≤ spaceA c off
      · -- only padding can have been written
        rw [appendLoop_last c wf off data first h] at hj ⊢
        simp only [List.length_append, List.length_cons, List.length_nil] at hj
        have ht : List.take j (padL c off ++ [emit c (if first = true then TFull else TLast) data])
            = padL c off := by
          rw [List.take_append_of_le_length (by omega), List.take_of_length_le (by omega)]
        rw [ht, readRecordLoop_pad c hB off hoff]
        refine ⟨rf, acc, frag, by omega, ?_⟩
        have := pad_mod c off hoff 0
        simp only [Nat.add_zero] at this
        rw [this, offA_mod]
      · have h' : spaceA c off < data.length := by omega
        have hlen : (data.take (spaceA c off)).length = spaceA c off := by
          rw [List.length_take]; omega
        rw [appendLoop_more c wf off data first h'] at hj ⊢
        simp only [List.length_append, List.length_cons, List.length_nil, List.append_assoc] at hj ⊢
        rw [List.take_append, List.take_of_length_le (by omega)]
        obtain ⟨j1, hj1⟩ : ∃ j1, j - (padL c off).length = j1 := ⟨_, rfl⟩
        rw [hj1]
        cases j1 with
        | zero =>
          simp only [List.take_zero, List.append_nil]
          rw [readRecordLoop_pad c hB off hoff]
          refine ⟨rf, acc, frag, by omega, ?_⟩
          have := pad_mod c off hoff 0
          simp only [Nat.add_zero] at this
          rw [this, offA_mod]
        | succ j2 =>
          simp only [List.singleton_append, List.take_succ_cons, List.flatten_append,
            List.flatten_cons, List.length_append, emit_length, hlen, List.append_assoc]
          cases rf with
          | zero => exact ⟨0, acc, frag, by omega, rfl⟩
          | succ rf =>
            obtain ⟨acc1, frag1, he⟩ := readRecordLoop_nonfinal c hB hB2 hcrc off hoff data first h' rf
              acc frag ((List.take j2 (appendLoop c wf (offA c off + H + spaceA c off)
                (List.drop (spaceA c off) data) false).1).flatten ++ X)
            rw [he]
            obtain ⟨rf', acc', frag', h1, h2⟩ := ih (offA c off + H + spaceA c off)
              (List.drop (spaceA c off) data) false j2 rf acc1 frag1 X (by omega) (by omega)
            refine ⟨rf', acc', frag', by omega, ?_⟩
            rw [h2]
            have := pad_mod c off hoff (H + spaceA c off + (List.take j2 (appendLoop c wf
              (offA c off + H + spaceA c off) (List.drop (spaceA c off) data) false).1).flatten.length)
            simp only [← Nat.add_assoc] at this ⊢
            rw [this]

end Rain.Log
