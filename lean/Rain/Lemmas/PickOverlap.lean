import Rain.Lemmas.PickBoundary
/-
Input selection, part 3: `overlapping` (`get_overlapping_compaction_inputs`).  One scan either
returns the files in the range or restarts with a strictly wider range; the fuel
`2 * files.length` is enough; the result is the set of files meeting the final range, which at
level 0 no file in it sticks out of.
-/
namespace Rain.Lsm.Lemmas
open Rain Rain.Lsm

/-! ### one scan -/

theorem overlapScan_notL0 (lo hi : Option Bytes) (rest acc : List File) :
    overlapScan false lo hi rest acc = .inr (acc ++ rest.filter fun f => inRange f lo hi) := by
  induction rest generalizing acc with
  | nil => simp [overlapScan]
  | cons f rest ih =>
    simp only [overlapScan]
    cases hb : (beforeRange f lo || afterRange f hi) with
    | true =>
      have hin : inRange f lo hi = false := by simp only [inRange, hb]; rfl
      simp [ih, hin]
    | false =>
      have hin : inRange f lo hi = true := by simp only [inRange, hb]; rfl
      simp [ih, hin]

theorem overlapScan_inr {lo hi : Option Bytes} {rest acc r : List File}
    (h : overlapScan true lo hi rest acc = .inr r) :
    r = acc ++ (rest.filter fun f => inRange f lo hi) ∧
      ∀ f ∈ rest, inRange f lo hi = true → widensLo f lo = false ∧ widensHi f hi = false := by
  induction rest generalizing acc with
  | nil => simp only [overlapScan, Sum.inr.injEq] at h; simp [h]
  | cons f rest ih =>
    simp only [overlapScan] at h
    cases hb : (beforeRange f lo || afterRange f hi) with
    | true =>
      simp only [hb, if_true] at h
      have hin' : inRange f lo hi = false := by simp only [inRange, hb]; rfl
      obtain ⟨h1, h2⟩ := ih h
      refine ⟨?_, ?_⟩
      · simp [h1, hin']
      · intro g hg hin
        rcases List.mem_cons.mp hg with rfl | hg
        · rw [hin'] at hin; cases hin
        · exact h2 g hg hin
    | false =>
      simp only [hb, Bool.false_eq_true, if_false, Bool.not_true] at h
      cases hl : widensLo f lo with
      | true => simp [hl] at h
      | false =>
        cases hh : widensHi f hi with
        | true => simp [hl, hh] at h
        | false =>
          simp only [hl, hh, Bool.false_eq_true, if_false] at h
          have hin' : inRange f lo hi = true := by simp only [inRange, hb]; rfl
          obtain ⟨h1, h2⟩ := ih h
          refine ⟨?_, ?_⟩
          · simp [h1, hin']
          · intro g hg hin
            rcases List.mem_cons.mp hg with rfl | hg
            · exact ⟨hl, hh⟩
            · exact h2 g hg hin

theorem overlapScan_inl {lo hi lo' hi' : Option Bytes} {rest acc : List File}
    (h : overlapScan true lo hi rest acc = .inl (lo', hi')) :
    ∃ f ∈ rest, inRange f lo hi = true ∧
      ((widensLo f lo = true ∧ lo' = some f.smallest.1 ∧ hi' = hi) ∨
       (widensHi f hi = true ∧ lo' = lo ∧ hi' = some f.largest.1)) := by
  induction rest generalizing acc with
  | nil => simp [overlapScan] at h
  | cons f rest ih =>
    simp only [overlapScan] at h
    cases hb : (beforeRange f lo || afterRange f hi) with
    | true =>
      simp only [hb, if_true] at h
      obtain ⟨g, hg, hr⟩ := ih h
      exact ⟨g, List.mem_cons_of_mem _ hg, hr⟩
    | false =>
      simp only [hb, Bool.false_eq_true, if_false, Bool.not_true] at h
      cases hl : widensLo f lo with
      | true =>
        simp only [hl, if_true, Sum.inl.injEq, Prod.mk.injEq] at h
        exact ⟨f, List.mem_cons_self .., by simp only [inRange, hb]; rfl, Or.inl ⟨hl, h.1.symm, h.2.symm⟩⟩
      | false =>
        cases hh : widensHi f hi with
        | true =>
          simp only [hl, hh, Bool.false_eq_true, if_false, if_true, Sum.inl.injEq,
            Prod.mk.injEq] at h
          exact ⟨f, List.mem_cons_self .., by simp only [inRange, hb]; rfl, Or.inr ⟨hh, h.1.symm, h.2.symm⟩⟩
        | false =>
          simp only [hl, hh, Bool.false_eq_true, if_false] at h
          obtain ⟨g, hg, hr⟩ := ih h
          exact ⟨g, List.mem_cons_of_mem _ hg, hr⟩

/-! ### the restarts terminate -/

/-- number of files that start before the range plus number of files that end after it -/
def slack (fs : List File) (lo hi : Option Bytes) : Nat :=
  (fs.filter fun f => widensLo f lo).length + (fs.filter fun f => widensHi f hi).length

theorem slack_le (fs : List File) (lo hi : Option Bytes) : slack fs lo hi ≤ overlapFuel fs := by
  have h1 := List.length_filter_le (fun f => widensLo f lo) fs
  have h2 := List.length_filter_le (fun f => widensHi f hi) fs
  unfold slack overlapFuel; omega

theorem slack_lt_lo {fs : List File} {lo hi : Option Bytes} {f : File} (hf : f ∈ fs)
    (hw : widensLo f lo = true) : slack fs (some f.smallest.1) hi < slack fs lo hi := by
  unfold slack
  have : (fs.filter fun g => widensLo g (some f.smallest.1)).length <
      (fs.filter fun g => widensLo g lo).length := by
    apply filter_length_lt
    · intro g _ hg
      cases lo with
      | none => simp [widensLo] at hw
      | some l =>
        simp only [widensLo] at hg hw ⊢
        exact bytes_st.trans _ _ _ hg hw
    · exact ⟨f, hf, hw, by simp [widensLo, bytes_st.irrefl]⟩
  omega

theorem slack_lt_hi {fs : List File} {lo hi : Option Bytes} {f : File} (hf : f ∈ fs)
    (hw : widensHi f hi = true) : slack fs lo (some f.largest.1) < slack fs lo hi := by
  unfold slack
  have : (fs.filter fun g => widensHi g (some f.largest.1)).length <
      (fs.filter fun g => widensHi g hi).length := by
    apply filter_length_lt
    · intro g _ hg
      cases hi with
      | none => simp [widensHi] at hw
      | some l =>
        simp only [widensHi] at hg hw ⊢
        exact bytes_st.trans _ _ _ hw hg
    · exact ⟨f, hf, hw, by simp [widensHi, bytes_st.irrefl]⟩
  omega

/-- no file in the range sticks out of it -/
def Fix (fs : List File) (lo hi : Option Bytes) : Prop :=
  ∀ f ∈ fs, inRange f lo hi = true → widensLo f lo = false ∧ widensHi f hi = false

theorem overlappingFuel_l0 (fs : List File) :
    ∀ n lo hi, slack fs lo hi ≤ n →
      overlappingFuel fs true n lo hi =
        (fs.filter fun f => inRange f (finalRangeFuel fs true n lo hi).1 (finalRangeFuel fs true n lo hi).2) ∧
      Fix fs (finalRangeFuel fs true n lo hi).1 (finalRangeFuel fs true n lo hi).2 := by
  intro n
  induction n with
  | zero =>
    intro lo hi hs
    refine ⟨rfl, ?_⟩
    intro f hf _
    simp only [finalRangeFuel]
    unfold slack at hs
    have e1 : (fs.filter fun f => widensLo f lo) = [] := List.eq_nil_of_length_eq_zero (by omega)
    have e2 : (fs.filter fun f => widensHi f hi) = [] := List.eq_nil_of_length_eq_zero (by omega)
    constructor
    · cases hx : widensLo f lo with
      | false => rfl
      | true =>
        have : f ∈ fs.filter fun f => widensLo f lo := List.mem_filter.mpr ⟨hf, hx⟩
        rw [e1] at this; cases this
    · cases hx : widensHi f hi with
      | false => rfl
      | true =>
        have : f ∈ fs.filter fun f => widensHi f hi := List.mem_filter.mpr ⟨hf, hx⟩
        rw [e2] at this; cases this
  | succ n ih =>
    intro lo hi hs
    cases hsc : overlapScan true lo hi fs [] with
    | inr r =>
      simp only [overlappingFuel, finalRangeFuel, hsc]
      obtain ⟨h1, h2⟩ := overlapScan_inr hsc
      exact ⟨by simpa using h1, h2⟩
    | inl p =>
      obtain ⟨lo', hi'⟩ := p
      simp only [overlappingFuel, finalRangeFuel, hsc]
      apply ih
      obtain ⟨f, hf, _, hr⟩ := overlapScan_inl hsc
      rcases hr with ⟨hw, rfl, rfl⟩ | ⟨hw, rfl, rfl⟩
      · have := slack_lt_lo (hi := hi') hf hw; omega
      · have := slack_lt_hi (lo := lo') hf hw; omega

theorem overlappingFuel_notL0 (fs : List File) (n : Nat) (lo hi : Option Bytes) :
    overlappingFuel fs false n lo hi = (fs.filter fun f => inRange f lo hi) ∧
      finalRangeFuel fs false n lo hi = (lo, hi) := by
  cases n with
  | zero => exact ⟨rfl, rfl⟩
  | succ n =>
    simp only [overlappingFuel, finalRangeFuel, overlapScan_notL0]
    simp

/-! ### what `overlapping` returns -/

/-- a level other than 0: the files meeting the given range, in level order -/
theorem overlapping_notL0 (fs : List File) (lo hi : Option Bytes) :
    overlapping fs false lo hi = fs.filter fun f => inRange f lo hi :=
  (overlappingFuel_notL0 fs _ lo hi).1

theorem finalRange_notL0 (fs : List File) (lo hi : Option Bytes) :
    finalRange fs false lo hi = (lo, hi) :=
  (overlappingFuel_notL0 fs _ lo hi).2

/-- **`overlapping` returns exactly the files whose user-key range meets the final range**, in
level order -/
theorem overlapping_eq_filter (fs : List File) (isLevel0 : Bool) (lo hi : Option Bytes) :
    overlapping fs isLevel0 lo hi =
      fs.filter fun f => inRange f (finalRange fs isLevel0 lo hi).1 (finalRange fs isLevel0 lo hi).2 := by
  cases isLevel0 with
  | false => rw [finalRange_notL0, overlapping_notL0]
  | true => exact (overlappingFuel_l0 fs _ lo hi (slack_le fs lo hi)).1

/-- **at level 0 the final range is a fixpoint**: no file that meets it sticks out of it -/
theorem finalRange_fix (fs : List File) (lo hi : Option Bytes) :
    Fix fs (finalRange fs true lo hi).1 (finalRange fs true lo hi).2 :=
  (overlappingFuel_l0 fs _ lo hi (slack_le fs lo hi)).2

/-- the range is only ever widened -/
theorem finalRangeFuel_widens (fs : List File) {g : File} :
    ∀ n lo hi, inRange g lo hi = true →
      inRange g (finalRangeFuel fs true n lo hi).1 (finalRangeFuel fs true n lo hi).2 = true := by
  intro n
  induction n with
  | zero => intro lo hi h; exact h
  | succ n ih =>
    intro lo hi h
    cases hsc : overlapScan true lo hi fs [] with
    | inr r => simp only [finalRangeFuel, hsc]; exact h
    | inl p =>
      obtain ⟨lo', hi'⟩ := p
      simp only [finalRangeFuel, hsc]
      apply ih
      obtain ⟨f, _, _, hr⟩ := overlapScan_inl hsc
      simp only [inRange, Bool.not_eq_true', Bool.or_eq_false_iff] at h ⊢
      rcases hr with ⟨hw, rfl, rfl⟩ | ⟨hw, rfl, rfl⟩
      · refine ⟨?_, h.2⟩
        cases lo with
        | none => simp [widensLo] at hw
        | some l =>
          simp only [beforeRange, widensLo] at h hw ⊢
          cases hx : bytesLt g.largest.1 f.smallest.1 with
          | false => rfl
          | true => have := bytes_st.trans _ _ _ hx hw; rw [h.1] at this; cases this
      · refine ⟨h.1, ?_⟩
        cases hi with
        | none => simp [widensHi] at hw
        | some l =>
          simp only [afterRange, widensHi] at h hw ⊢
          cases hx : bytesLt f.largest.1 g.smallest.1 with
          | false => rfl
          | true => have := bytes_st.trans _ _ _ hw hx; rw [h.2] at this; cases this

/-- every file meeting the requested range is returned -/
theorem overlapping_superset {fs : List File} {isLevel0 : Bool} {lo hi : Option Bytes} {g : File}
    (hg : g ∈ fs) (h : inRange g lo hi = true) : g ∈ overlapping fs isLevel0 lo hi := by
  rw [overlapping_eq_filter, List.mem_filter]
  refine ⟨hg, ?_⟩
  cases isLevel0 with
  | false => rw [finalRange_notL0]; exact h
  | true => exact finalRangeFuel_widens fs _ lo hi h

theorem overlapping_sublist (fs : List File) (isLevel0 : Bool) (lo hi : Option Bytes) :
    (overlapping fs isLevel0 lo hi).Sublist fs := by
  rw [overlapping_eq_filter]; exact List.filter_sublist

/-! ### shape of a filtered level -/

/-- level 0: the result of `overlapping` contains every level file that meets its own user-key
hull (what the level-0 clause of `validCompaction` needs) -/
theorem overlapping_hullClosed (fs : List File) (lo hi : Option Bytes) :
    ∀ l h, IsHull (overlapping fs true lo hi) l h →
      ∀ g ∈ fs, userRangeOverlaps g l h = true → g ∈ overlapping fs true lo hi := by
  intro l h hH g hg hov
  have hfix := finalRange_fix fs lo hi
  rw [overlapping_eq_filter] at hH ⊢
  generalize (finalRange fs true lo hi).1 = lo' at *
  generalize (finalRange fs true lo hi).2 = hi' at *
  rw [List.mem_filter]
  refine ⟨hg, ?_⟩
  obtain ⟨hov1, hov2⟩ := overlaps_iff.mp hov
  obtain ⟨f1, hf1, rfl⟩ := hH.loMem
  obtain ⟨f2, hf2, rfl⟩ := hH.hiMem
  obtain ⟨hf1m, hf1r⟩ := List.mem_filter.mp hf1
  obtain ⟨hf2m, hf2r⟩ := List.mem_filter.mp hf2
  simp only [inRange, Bool.not_eq_true', Bool.or_eq_false_iff]
  constructor
  · cases lo' with
    | none => rfl
    | some a =>
      have := (hfix f1 hf1m hf1r).1
      simp only [widensLo] at this
      simp only [beforeRange]
      exact bytes_st.le_trans this hov2
  · cases hi' with
    | none => rfl
    | some b =>
      have := (hfix f2 hf2m hf2r).2
      simp only [widensHi] at this
      simp only [afterRange]
      exact bytes_st.le_trans hov1 this

/-- the files meeting a range form a convex set (any level) -/
theorem filter_inRange_conv {fs : List File} (hwf : ∀ f ∈ fs, Wf f) (lo hi : Option Bytes) :
    Conv fs (fs.filter fun f => inRange f lo hi) := by
  intro f hf h hh g hg hfg hgh
  rw [List.mem_filter] at hf hh ⊢
  refine ⟨hg, ?_⟩
  have hf2 := hf.2
  have hh2 := hh.2
  simp only [inRange, Bool.not_eq_true', Bool.or_eq_false_iff] at hf2 hh2 ⊢
  have hwg := (hwf g hg).ufst
  constructor
  · cases lo with
    | none => rfl
    | some a =>
      simp only [beforeRange] at hf2 ⊢
      exact bytes_st.le_trans (bytes_st.le_trans hf2.1 (kLt_fst_le hfg)) hwg
  · cases hi with
    | none => rfl
    | some b =>
      simp only [afterRange] at hh2 ⊢
      exact bytes_st.le_trans (bytes_st.le_trans hwg (kLt_fst_le hgh)) hh2.2

/-- the files meeting `[lo, hi]` are closed downwards except for files ending before `lo` -/
theorem filter_overlaps_down {fs : List File} (hwf : ∀ f ∈ fs, Wf f) (lo hi : Bytes) :
    Down fs (fs.filter fun f => inRange f (some lo) (some hi)) lo := by
  intro f hf g hg hgf
  cases hx : bytesLt g.largest.1 lo with
  | true => exact Or.inr rfl
  | false =>
    refine Or.inl (List.mem_filter.mpr ⟨hg, ?_⟩)
    have hf2 := (List.mem_filter.mp hf).2
    simp only [inRange, beforeRange, afterRange, Bool.not_eq_true', Bool.or_eq_false_iff] at hf2 ⊢
    exact ⟨hx, bytes_st.le_trans (bytes_st.le_trans (hwf g hg).ufst (kLt_fst_le hgf)) hf2.2⟩

end Rain.Lsm.Lemmas
