import Rain.Potential
import Rain.LsmSpec
import Rain.Lemmas.Lsm
/-
Lemmas behind `Rain/Props/Potential.lean`: how the potential of `Rain/Potential.lean` changes
under every action of the LSM model.
-/
namespace Rain.Potential.Lemmas
open Rain Rain.Lsm Rain.Lsm.Lemmas Rain.Potential

/-! ### counting entries -/

theorem filesEntries_append (a b : List File) :
    filesEntries (a ++ b) = filesEntries a + filesEntries b := by
  induction a with
  | nil => simp [filesEntries]
  | cons f a ih => simp only [List.cons_append, filesEntries, ih]; omega

theorem filesEntries_insertFile (f : File) (fs : List File) :
    filesEntries (insertFile f fs) = filesEntries fs + f.entries.length := by
  induction fs with
  | nil => simp [insertFile, filesEntries]
  | cons g gs ih =>
    simp only [insertFile]
    split
    · simp only [filesEntries]; omega
    · simp only [filesEntries, ih]; omega

theorem filesEntries_pick_unpick (fs : List File) (nums : List Nat) :
    filesEntries (pick fs nums) + filesEntries (unpick fs nums) = filesEntries fs := by
  induction fs with
  | nil => simp [pick, unpick, filesEntries]
  | cons f fs ih =>
    simp only [pick, unpick] at ih ⊢
    by_cases h : nums.contains f.num = true
    · simp only [List.filter_cons, h, if_true, Bool.not_true, filesEntries]
      simp only [Bool.false_eq_true, if_false]
      omega
    · have h' : nums.contains f.num = false := by simpa using h
      simp only [List.filter_cons, h', Bool.not_false, if_true, filesEntries]
      simp only [Bool.false_eq_true, if_false]
      omega

theorem filesEntries_eq_flatten (fs : List File) :
    filesEntries fs = ((fs.map File.entries).flatten).length := by
  induction fs with
  | nil => simp [filesEntries]
  | cons f fs ih => simp [filesEntries, ih]

theorem filesEntries_map_mkFile (outs : List (Nat × List Entry)) :
    filesEntries (outs.map fun o => mkFile o.1 o.2) = ((outs.map Prod.snd).flatten).length := by
  induction outs with
  | nil => simp [filesEntries]
  | cons o outs ih =>
    simp only [List.map_cons, filesEntries, List.flatten_cons, List.length_append, ih]
    rfl

theorem filesEntries_pos {fs : List File} (hne : fs ≠ []) (hok : ∀ f ∈ fs, FileOk f) :
    1 ≤ filesEntries fs := by
  cases fs with
  | nil => exact absurd rfl hne
  | cons f fs =>
    have := (hok f (by simp)).ne
    have : 0 < f.entries.length := List.length_pos_iff.mpr this
    simp only [filesEntries]; omega

/-! ### merge and drop rule -/

theorem mergeTwo_length (a b : List Entry) : (mergeTwo a b).length = a.length + b.length := by
  fun_induction mergeTwo a b with
  | case1 bs => simp
  | case2 as h => simp
  | case3 a as b bs h ih => simp only [List.length_cons, ih]; omega
  | case4 a as b bs h ih => simp only [List.length_cons, ih]; omega

theorem mergeAll_length (ls : List (List Entry)) : (mergeAll ls).length = ls.flatten.length := by
  induction ls with
  | nil => simp [mergeAll]
  | cons l ls ih => simp [mergeAll, mergeTwo_length, ih]

theorem dropLoop_length_le (q : Nat) (isBase : Bytes → Bool) (prev : Option (Bytes × Nat))
    (es : List Entry) : (dropLoop q isBase prev es).length ≤ es.length :=
  (dropLoop_sublist q isBase prev es).length_le

/-! ### the depth potential under level edits -/

theorem go_set (k : Nat) (L : List (List File)) (i : Nat) (fs : List File) (h : i < L.length) :
    depthPotential.go k (L.set i fs) + levelWeight (k + i) * filesEntries (lv L i)
      = depthPotential.go k L + levelWeight (k + i) * filesEntries fs := by
  induction L generalizing k i with
  | nil => simp at h
  | cons l L ih =>
    cases i with
    | zero =>
      simp only [List.set_cons_zero, depthPotential.go, lv_cons_zero, Nat.add_zero]
      omega
    | succ i =>
      have hi : i < L.length := by simpa using h
      have := ih (k + 1) i hi
      have e : k + 1 + i = k + (i + 1) := by omega
      rw [e] at this
      simp only [List.set_cons_succ, depthPotential.go, lv_cons_succ]
      omega

theorem dp_setLevel (L : List (List File)) (i : Nat) (fs : List File) (h : i < L.length) :
    depthPotential (setLevel L i fs) + levelWeight i * filesEntries (lv L i)
      = depthPotential L + levelWeight i * filesEntries fs := by
  have := go_set 0 L i fs h
  simpa [depthPotential, setLevel] using this

theorem dp_removeNums (L : List (List File)) (t : Nat) (nums : List Nat) (h : t < L.length) :
    depthPotential (removeNums L t nums) + levelWeight t * filesEntries (pick (lv L t) nums)
      = depthPotential L := by
  have h1 := dp_setLevel L t (unpick (lv L t) nums) h
  have h2 := filesEntries_pick_unpick (lv L t) nums
  have h3 : levelWeight t * filesEntries (lv L t)
      = levelWeight t * filesEntries (pick (lv L t) nums)
        + levelWeight t * filesEntries (unpick (lv L t) nums) := by
    rw [← h2, Nat.mul_add]
  have e : removeNums L t nums = setLevel L t (unpick (lv L t) nums) := rfl
  rw [e]
  omega

theorem dp_addToLevel (L : List (List File)) (t : Nat) (f : File) (h : t < L.length) :
    depthPotential (addToLevel L t f) = depthPotential L + levelWeight t * f.entries.length := by
  unfold addToLevel
  split
  · rename_i h0
    subst h0
    have h1 := dp_setLevel L 0 (lv L 0 ++ [f]) h
    have h2 : filesEntries (lv L 0 ++ [f]) = filesEntries (lv L 0) + f.entries.length := by
      rw [filesEntries_append]; simp [filesEntries]
    rw [h2, Nat.mul_add] at h1
    have e : L.getD 0 [] = lv L 0 := rfl
    rw [e]
    omega
  · have h1 := dp_setLevel L t (insertFile f (lv L t)) h
    rw [filesEntries_insertFile, Nat.mul_add] at h1
    have e : L.getD t [] = lv L t := rfl
    rw [e]
    omega

theorem dp_foldAdd (outs : List File) (L : List (List File)) (t : Nat) (h : t < L.length) :
    depthPotential (outs.foldl (fun ls f => addToLevel ls t f) L)
      = depthPotential L + levelWeight t * filesEntries outs := by
  induction outs generalizing L with
  | nil => simp [filesEntries]
  | cons o outs ih =>
    simp only [List.foldl_cons, filesEntries]
    rw [ih (addToLevel L t o) (by rw [addToLevel_length]; exact h), dp_addToLevel L t o h,
      Nat.mul_add]
    omega

theorem levelWeight_succ {t : Nat} (h : t + 1 < 7) : levelWeight t = levelWeight (t + 1) + 1 := by
  unfold levelWeight; omega

theorem levelWeight_le (t : Nat) : levelWeight t ≤ 6 := by
  unfold levelWeight; omega

/-! ### the actions -/

/-- what a table compaction does to the depth potential: it loses at least the number of entries
of the level-`L` inputs -/
theorem compact_depth {s : State} {c : Compaction} (h : InvP s)
    (hv : validCompaction s c = true) :
    depthPotential (cL' s c) + filesEntries (cI0 s c) ≤ depthPotential s.levels := by
  have V := compactV_of_valid h hv
  have hlen := h.len
  have hl0 : c.level < s.levels.length := by have := V.lvl; omega
  have hl1 : c.level + 1 < s.levels.length := by have := V.lvl; omega
  -- removing the level-L inputs
  have r0 := dp_removeNums s.levels c.level c.inputs0 hl0
  -- removing the level-(L+1) inputs
  have hl1' : c.level + 1 < (removeNums s.levels c.level c.inputs0).length := by
    rw [removeNums_length]; exact hl1
  have r1 := dp_removeNums (removeNums s.levels c.level c.inputs0) (c.level + 1) c.inputs1 hl1'
  have elv : lv (removeNums s.levels c.level c.inputs0) (c.level + 1) = lv s.levels (c.level + 1) := by
    rw [lv_removeNums]; simp
  rw [elv] at r1
  -- adding the outputs
  have hl2 : c.level + 1 < (cL2 s c).length := by
    unfold cL2; rw [removeNums_length, removeNums_length]; exact hl1
  have a := dp_foldAdd (cOuts c) (cL2 s c) (c.level + 1) hl2
  -- the outputs hold no more entries than the inputs
  have hout : filesEntries (cOuts c) ≤ filesEntries (cI0 s c) + filesEntries (cI1 s c) := by
    unfold cOuts
    rw [filesEntries_map_mkFile, V.outs_eq]
    unfold cKept
    refine Nat.le_trans (dropLoop_length_le _ _ _ _) ?_
    unfold cMerged
    rw [mergeAll_length, ← filesEntries_eq_flatten, filesEntries_append]
    exact Nat.le_refl _
  have hw := levelWeight_succ V.lvl
  have hmul := Nat.mul_le_mul_left (levelWeight (c.level + 1)) hout
  rw [Nat.mul_add] at hmul
  change depthPotential ((cOuts c).foldl (fun ls f => addToLevel ls (c.level + 1) f) (cL2 s c))
    + filesEntries (cI0 s c) ≤ depthPotential s.levels
  rw [a]
  change depthPotential (cL2 s c)
    + levelWeight (c.level + 1) * filesEntries (pick (lv s.levels (c.level + 1)) c.inputs1)
    = depthPotential (removeNums s.levels c.level c.inputs0) at r1
  change _ + levelWeight c.level * filesEntries (cI0 s c) = _ at r0
  change _ ≤ levelWeight (c.level + 1) * filesEntries (cI0 s c)
    + levelWeight (c.level + 1) * filesEntries (pick (lv s.levels (c.level + 1)) c.inputs1) at hmul
  rw [hw, Nat.add_mul, Nat.one_mul] at r0
  omega

theorem cI0_pos {s : State} {c : Compaction} (h : InvP s) (hv : validCompaction s c = true) :
    1 ≤ filesEntries (cI0 s c) := by
  have hne : cI0 s c ≠ [] := by
    unfold validCompaction at hv
    simp only [Bool.and_eq_true, Bool.not_eq_true', List.isEmpty_eq_false_iff] at hv
    obtain ⟨⟨⟨⟨⟨⟨⟨⟨⟨⟨⟨-, h2⟩, -⟩, -⟩, -⟩, -⟩, -⟩, -⟩, -⟩, -⟩, -⟩, -⟩ := hv
    exact h2
  exact filesEntries_pos hne (fun f hf => h.files _ f (mem_cI0.mp hf).1)

theorem compact_drop (s s' : State) (c : Compaction) (h : Inv s)
    (hs : stepCompact s c = some s') :
    potential s' + filesEntries (pick (s.levels.getD c.level []) c.inputs0) ≤ potential s := by
  have hP := (inv_iff s).mp h
  obtain ⟨hv, rfl⟩ := compact_cases hs
  have h1 := compact_depth hP hv
  change _ + filesEntries (pick (s.levels.getD c.level []) c.inputs0) ≤ _ at h1
  simp only [potential]
  omega

theorem compact_decreases (s s' : State) (c : Compaction) (h : Inv s)
    (hs : stepCompact s c = some s') : potential s' < potential s := by
  have hP := (inv_iff s).mp h
  have h1 := compact_drop s s' c h hs
  obtain ⟨hv, -⟩ := compact_cases hs
  have h2 := cI0_pos hP hv
  change 1 ≤ filesEntries (pick (s.levels.getD c.level []) c.inputs0) at h2
  omega

theorem move_decreases (s s' : State) (num lvl : Nat) (h : Inv s)
    (hs : stepTrivialMove s num lvl = some s') : potential s' < potential s := by
  have hP := (inv_iff s).mp h
  obtain ⟨f, hp, ht, -, -, -, rfl⟩ := move_cases hs
  have hlen := hP.len
  have r := dp_removeNums s.levels lvl [num] (by omega)
  have a := dp_addToLevel (removeNums s.levels lvl [num]) (lvl + 1) f
    (by rw [removeNums_length]; omega)
  rw [hp] at r
  have hf : f ∈ lv s.levels lvl := by
    have : f ∈ pick (lv s.levels lvl) [num] := by rw [hp]; simp
    exact (List.mem_filter.mp this).1
  have hne : 0 < f.entries.length := List.length_pos_iff.mpr (hP.files lvl f hf).ne
  have hw := levelWeight_succ ht
  simp only [filesEntries, Nat.add_zero] at r
  rw [hw, Nat.add_mul, Nat.one_mul] at r
  simp only [potential]
  rw [a]
  omega

theorem flush_le (s s' : State) (num lvl : Nat) (h : Inv s)
    (hs : stepFlush s num lvl = some s') : potential s' ≤ potential s := by
  have hP := (inv_iff s).mp h
  rcases flush_cases hs with ⟨hi, rfl⟩ | ⟨e, es, hi, hl, -, rfl⟩
  · simp [potential, hi]
  · have hlen := hP.len
    have hlt : lvl < s.levels.length := by
      rcases hl with h0 | ⟨h7, -⟩ <;> omega
    have a := dp_addToLevel s.levels lvl (mkFile num (e :: es)) hlt
    have hw := Nat.mul_le_mul_right (mkFile num (e :: es)).entries.length (levelWeight_le lvl)
    simp only [potential, hi, Option.getD_some, Option.getD_none, List.length_nil]
    rw [a]
    have e1 : (mkFile num (e :: es)).entries = e :: es := rfl
    rw [e1] at hw ⊢
    omega

theorem rotate_eq (s s' : State) (hs : stepRotate s = some s') : potential s' = potential s := by
  unfold stepRotate at hs
  split at hs
  · cases hs
  · rename_i hi
    simp only [Option.some.injEq] at hs
    subst hs
    simp [potential, hi]

theorem insertE_length (e : Entry) (m : List Entry) : (insertE e m).length = m.length + 1 := by
  induction m with
  | nil => simp [insertE]
  | cons a m ih =>
    simp only [insertE]
    split
    · simp
    · simp [ih]

theorem applyOps_length (ops : List (Bytes × Option Bytes)) (seq : Nat) (m : List Entry) :
    (applyOps ops seq m).length = m.length + ops.length := by
  induction ops generalizing seq m with
  | nil => simp [applyOps]
  | cons kv ops ih =>
    obtain ⟨k, v⟩ := kv
    simp only [applyOps, ih, insertE_length, List.length_cons]
    omega

theorem write_eq (s : State) (ops : List (Bytes × Option Bytes)) :
    potential (stepWrite s ops) = potential s + 6 * ops.length := by
  simp only [potential, stepWrite, applyOps_length]
  omega

/-! ### histories -/

theorem step_bound {s s' : State} {a : Action} (h : Inv s) (hs : step s a = some s') :
    tableWorkCount [a] + potential s' ≤ potential s + 6 * written [a] := by
  cases a with
  | write ops =>
    simp only [step, Option.some.injEq] at hs
    subst hs
    simp [tableWorkCount, isTableWork, written, write_eq]
  | rotate =>
    have := rotate_eq s s' hs
    simp [tableWorkCount, isTableWork, written, this]
  | flush num lvl =>
    have := flush_le s s' num lvl h hs
    simpa [tableWorkCount, isTableWork, written] using this
  | compact c =>
    have := compact_decreases s s' c h hs
    simp only [tableWorkCount, isTableWork, written, if_true]
    omega
  | trivialMove num lvl =>
    have := move_decreases s s' num lvl h hs
    simp only [tableWorkCount, isTableWork, written, if_true]
    omega

theorem written_cons (a : Action) (as : List Action) :
    written (a :: as) = written [a] + written as := by
  cases a <;> simp [written]

theorem run_bound (s s' : State) (as : List Action) (h : Inv s) (hr : run s as = some s') :
    tableWorkCount as + potential s' ≤ potential s + 6 * written as := by
  induction as generalizing s with
  | nil =>
    simp only [run, Option.some.injEq] at hr
    subst hr
    simp [tableWorkCount, written]
  | cons a as ih =>
    simp only [run] at hr
    cases hstep : step s a with
    | none => rw [hstep] at hr; cases hr
    | some s1 =>
      rw [hstep] at hr
      have h1 := step_bound h hstep
      have h2 := ih s1 (step_inv s s1 a h hstep) hr
      rw [written_cons]
      simp only [tableWorkCount, Nat.add_zero] at h1 ⊢
      omega

theorem run_bound_quiet (s s' : State) (as : List Action) (h : Inv s) (hr : run s as = some s')
    (hw : written as = 0) : tableWorkCount as ≤ potential s := by
  have := run_bound s s' as h hr
  rw [hw] at this
  omega

theorem potential_init : potential init = 0 := by decide

theorem run_bound_init (as : List Action) (s' : State) (hr : run init as = some s') :
    tableWorkCount as ≤ 6 * written as := by
  have := run_bound init s' as inv_init hr
  rw [potential_init] at this
  omega

end Rain.Potential.Lemmas
