import Rain.Block
import Rain.Lemmas.Order
/-
Shortest separator / successor: `smaller ≤ separator < greater`, `value ≤ successor`, and the
shape of the internal-key versions (either the key itself, or a strictly larger user key with the
maximal sequence number).
-/
namespace Rain.Block.Lemmas
open Rain Rain.Lsm Rain.Block Rain.Order

theorem toUInt8_toNat (v : Nat) (h : v < 256) : (v.toUInt8).toNat = v := by
  simp [Nat.toUInt8, UInt8.toNat, UInt8.ofNat, Nat.mod_eq_of_lt h]

theorem u8_succ_toNat (a : UInt8) (h : a.toNat < 255) : ((a.toNat + 1).toUInt8).toNat = a.toNat + 1 :=
  toUInt8_toNat _ (by omega)

theorem sepLoop_acc (a b acc : Bytes) : sepLoop a b acc = acc ++ sepLoop a b [] := by
  induction a generalizing b acc with
  | nil => cases b <;> simp [sepLoop]
  | cons x xs ih =>
    cases b with
    | nil => simp [sepLoop]
    | cons y ys =>
      simp only [sepLoop, List.nil_append]
      split
      · rw [ih ys (acc ++ [x]), ih ys [x]]; simp
      · split <;> simp

theorem bytesSep_nil_left (b : Bytes) : bytesSep [] b = [] := by
  cases b <;> simp [bytesSep, sepLoop]

theorem bytesSep_nil_right (a : Bytes) : bytesSep a [] = a := by
  cases a <;> simp [bytesSep, sepLoop]

theorem bytesSep_cons (x y : UInt8) (xs ys : Bytes) :
    bytesSep (x :: xs) (y :: ys) =
      if x = y then x :: bytesSep xs ys
      else if x.toNat < 255 ∧ x.toNat + 1 < y.toNat then [(x.toNat + 1).toUInt8]
      else x :: xs := by
  simp only [bytesSep, sepLoop, List.nil_append, beq_iff_eq]
  split
  · rw [sepLoop_acc]; rfl
  · rfl

theorem bytesSep_self (a : Bytes) : bytesSep a a = a := by
  induction a with
  | nil => rfl
  | cons x xs ih => simp [bytesSep_cons, ih]

theorem bytesSep_spec (a b : Bytes) (h : bytesLt a b = true) :
    bytesLt (bytesSep a b) a = false ∧ bytesLt (bytesSep a b) b = true := by
  induction a generalizing b with
  | nil => rw [bytesSep_nil_left]; exact ⟨bytesLt_irrefl _, h⟩
  | cons x xs ih =>
    cases b with
    | nil => simp [bytesLt_nil_right] at h
    | cons y ys =>
      rw [bytesSep_cons]
      split
      · next hxy =>
        subst hxy
        have h' : bytesLt xs ys = true := by simpa [bytesLt_cons] using h
        have := ih ys h'
        simp [bytesLt_cons, this]
      · next hxy =>
        split
        · next hc =>
          have e := u8_succ_toNat x hc.1
          have hne : ¬ ((x.toNat + 1).toUInt8 = x) := by
            intro hh
            have := congrArg UInt8.toNat hh
            omega
          simp only [bytesLt_cons, e, Bool.or_eq_false_iff, decide_eq_false_iff_not,
            Bool.and_eq_false_iff, Bool.or_eq_true, decide_eq_true_eq]
          refine ⟨⟨by omega, Or.inl (beq_eq_false_iff_ne.mpr hne)⟩, Or.inl hc.2⟩
        · exact ⟨bytesLt_irrefl _, h⟩

theorem bytesSucc_spec (a : Bytes) : bytesLt (bytesSucc a) a = false := by
  induction a with
  | nil => rfl
  | cons x xs ih =>
    simp only [bytesSucc]
    split
    · next hx =>
      have hx' : x.toNat < 255 := by
        have := x.toNat_lt
        omega
      have e := u8_succ_toNat x hx'
      have hne : ¬ ((x.toNat + 1).toUInt8 = x) := by
        intro hh
        have := congrArg UInt8.toNat hh
        omega
      simp only [bytesLt_cons, e, Bool.or_eq_false_iff, decide_eq_false_iff_not,
        Bool.and_eq_false_iff]
      exact ⟨by omega, Or.inl (beq_eq_false_iff_ne.mpr hne)⟩
    · simp [bytesLt_cons, ih]

/-- shape of the internal-key separator -/
theorem keySep_cases (a b : Bytes × Nat) (h : kLt a b = true) :
    keySep a b = a ∨
      ∃ s, keySep a b = (s, MAXSEQ) ∧ bytesLt a.1 s = true ∧ bytesLt s b.1 = true := by
  unfold keySep
  simp only
  split
  · next hc =>
    right
    refine ⟨bytesSep a.1 b.1, rfl, hc.2, ?_⟩
    rw [kLt_iff] at h
    rcases h with h | ⟨e, _⟩
    · exact (bytesSep_spec _ _ h).2
    · rw [← e, bytesSep_self] at hc
      simp [bytesLt_irrefl] at hc
  · left; rfl

theorem keySucc_cases (a : Bytes × Nat) :
    keySucc a = a ∨ ∃ s, keySucc a = (s, MAXSEQ) ∧ bytesLt a.1 s = true := by
  unfold keySucc
  simp only
  split
  · next hc => right; exact ⟨_, rfl, hc.2⟩
  · left; rfl

/-- `hb` is not needed; it is kept in `keySep_spec` for the statement of C13 -/
theorem keySep_spec' (a b : Bytes × Nat) (h : kLt a b = true) :
    kLt (keySep a b) a = false ∧ kLt (keySep a b) b = true := by
  rcases keySep_cases a b h with e | ⟨s, e, h1, h2⟩
  · rw [e]; exact ⟨kLt_irrefl _, h⟩
  · rw [e]
    constructor
    · apply kLt_asymm; rw [kLt_iff]; left; exact h1
    · rw [kLt_iff]; left; exact h2

theorem keySep_spec (a b : Bytes × Nat) (h : kLt a b = true) (_hb : b.2 ≤ MAXSEQ) :
    kLt (keySep a b) a = false ∧ kLt (keySep a b) b = true := keySep_spec' a b h

theorem keySucc_spec (a : Bytes × Nat) : kLt (keySucc a) a = false := by
  rcases keySucc_cases a with e | ⟨s, e, h1⟩
  · rw [e]; exact kLt_irrefl _
  · rw [e]; apply kLt_asymm; rw [kLt_iff]; left; exact h1

end Rain.Block.Lemmas
