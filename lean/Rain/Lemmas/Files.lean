import Rain.Files
import Rain.FilesSpec
/-
Proofs for C11 (`Rain/Props/C11.lean`): the deletion pass keeps every live file, the invariant
`Good` is preserved by every step except the defect step, and in a quiescent state the deletion
pass leaves exactly the needed files.
-/
namespace Rain.Files.Lemmas
open Rain.Files

theorem deletion_keeps_live (s : State) :
    (∀ v ∈ s.versions, ∀ t ∈ v.tables, t ∈ s.dir.tables → t ∈ (clean s).tables) ∧
    (∀ t ∈ s.inUse, t ∈ s.dir.tables → t ∈ (clean s).tables) ∧
    (∀ n ∈ s.dir.wals, s.walNo ≤ n ∨ s.prevWal = some n → n ∈ (clean s).wals) ∧
    (∀ m ∈ s.dir.manifests, s.manifestNo ≤ m → m ∈ (clean s).manifests) := by
  refine ⟨?_, ?_, ?_, ?_⟩
  · intro v hv t ht hd
    simp only [clean, liveTables, List.mem_filter, List.contains_iff_mem, List.mem_append,
      List.mem_flatten, List.mem_map]
    exact ⟨hd, Or.inl ⟨v.tables, ⟨v, hv, rfl⟩, ht⟩⟩
  · intro t ht hd
    simp only [clean, liveTables, List.mem_filter, List.contains_iff_mem, List.mem_append]
    exact ⟨hd, Or.inr ht⟩
  · intro n hn h
    simp only [clean, keepWal, List.mem_filter, Bool.or_eq_true, decide_eq_true_eq, beq_iff_eq]
    exact ⟨hn, h⟩
  · intro m hm h
    simp only [clean, List.mem_filter, decide_eq_true_eq]
    exact ⟨hm, h⟩

/-- `Good` in split form: the version list is `init ++ [c]`, `c` the current version, and every
version of `init` is referenced -/
theorem good_split {s : State} (h : Good s) :
    ∃ init c, s.versions = init ++ [c] ∧ ((init ++ [c]).map Version.id).Nodup ∧
      (∀ v ∈ init ++ [c], v.id < s.nextId) ∧ ∀ v ∈ init, 0 < v.refs := by
  obtain ⟨hne, ⟨hnd, hlt⟩, href⟩ := h
  have hsplit : s.versions = s.versions.dropLast ++ [s.versions.getLast hne] :=
    (List.dropLast_concat_getLast hne).symm
  generalize s.versions.dropLast = init at hsplit
  generalize s.versions.getLast hne = c at hsplit
  refine ⟨init, c, hsplit, hsplit ▸ hnd, hsplit ▸ hlt, ?_⟩
  intro v hv
  have hcur : current s = some c := by simp [current, hsplit]
  rcases href v (by simp [hsplit, hv]) with h | h
  · rw [hcur] at h
    have hvc : v = c := Option.some.inj h
    subst hvc
    rw [hsplit] at hnd
    simp only [List.map_append, List.map_cons, List.map_nil, List.nodup_append] at hnd
    exact absurd rfl (hnd.2.2 v.id (List.mem_map_of_mem hv) v.id (by simp))
  · exact h

theorem good_of_split {s : State} (init : List Version) (c : Version)
    (hv : s.versions = init ++ [c]) (hnd : ((init ++ [c]).map Version.id).Nodup)
    (hlt : ∀ v ∈ init ++ [c], v.id < s.nextId) (href : ∀ v ∈ init, 0 < v.refs) : Good s := by
  refine ⟨by simp [hv], ⟨hv ▸ hnd, hv ▸ hlt⟩, ?_⟩
  intro v hmem
  have hcur : current s = some c := by simp [current, hv]
  rw [hv, List.mem_append] at hmem
  rcases hmem with h | h
  · exact Or.inr (href v h)
  · left
    rw [hcur]
    simp only [List.mem_singleton] at h
    rw [h]

private theorem bound_of_ids {n : Nat} {l l' : List Version}
    (hsub : ∀ v ∈ l', ∃ x ∈ l, v.id = x.id) (hlt : ∀ v ∈ l, v.id < n) : ∀ v ∈ l', v.id < n := by
  intro v hv
  obtain ⟨x, hx, he⟩ := hsub v hv
  rw [he]; exact hlt x hx

theorem good_step (s s' : State) (a : Step) (h : Good s) (ha : noLeak [a] = true)
    (hs : step s a = some s') : Good s' := by
  obtain ⟨init, c, hv, hnd, hlt, href⟩ := good_split h
  have hcur : current s = some c := by simp [current, hv]
  have hndI : (init.map Version.id).Nodup := by
    simp only [List.map_append, List.nodup_append] at hnd; exact hnd.1
  have hidI : ∀ v ∈ init, v.id ≠ c.id := by
    intro v hm
    simp only [List.map_append, List.map_cons, List.map_nil, List.nodup_append] at hnd
    exact hnd.2.2 v.id (List.mem_map_of_mem hm) c.id (by simp)
  have hltI : ∀ v ∈ init, v.id < s.nextId := fun v hm => hlt v (by simp [hm])
  have hltC : c.id < s.nextId := hlt c (by simp)
  cases a with
  | acquire =>
    simp only [step, hv, List.reverse_append, List.reverse_cons, List.reverse_nil,
      List.nil_append, List.singleton_append, Option.some.injEq] at hs
    subst hs
    refine good_of_split init { c with refs := c.refs + 1 } (by simp) ?_ ?_ href
    · simpa using hnd
    · intro v hm
      rw [List.mem_append, List.mem_singleton] at hm
      rcases hm with hm | rfl
      · exact hltI v hm
      · exact hltC
  | release vid =>
    simp only [step] at hs
    split at hs
    · exact absurd hs (by simp)
    · rename_i v hfind
      split at hs
      · exact absurd hs (by simp)
      · rename_i hrefs
        simp only [Option.some.injEq] at hs
        subst hs
        have hfid : ∀ x : Version,
            (if (x.id == vid) = true then { x with refs := x.refs - 1 } else x).id = x.id := by
          intro x; split <;> rfl
        by_cases hcv : c.id = vid
        · -- the current version is released: it stays linked
          have hmapI : init.map (fun x => if (x.id == vid) = true then { x with refs := x.refs - 1 } else x)
              = init := by
            refine (List.map_congr_left ?_).trans (List.map_id _)
            intro x hx
            have : x.id ≠ vid := hcv ▸ hidI x hx
            simp [this]
          refine good_of_split init { c with refs := c.refs - 1 } ?_ ?_ ?_ href
          · show unlinkIfFree (s.versions.map _) vid ((current s).map Version.id == some vid) = _
            rw [hcur, hv, List.map_append, hmapI]
            simp [unlinkIfFree, hcv]
          · simpa using hnd
          · intro v hm
            rw [List.mem_append, List.mem_singleton] at hm
            rcases hm with hm | rfl
            · exact hltI v hm
            · exact hltC
        · -- a non-current version is released: unlinked when its count reaches 0
          refine good_of_split
            (unlinkIfFree (init.map fun x => if (x.id == vid) = true then { x with refs := x.refs - 1 } else x)
              vid false) c ?_ ?_ ?_ ?_
          · show unlinkIfFree (s.versions.map _) vid ((current s).map Version.id == some vid) = _
            have hb : ((some c).map Version.id == some vid) = false := by simp [hcv]
            rw [hcur, hv, List.map_append, hb]
            simp [unlinkIfFree, hcv, List.filter_append]
          · have hsub : ((unlinkIfFree (init.map fun x =>
                if (x.id == vid) = true then { x with refs := x.refs - 1 } else x) vid false).map Version.id).Sublist
                (init.map Version.id) := by
              have h1 := (List.filter_sublist (l := init.map fun x =>
                if (x.id == vid) = true then { x with refs := x.refs - 1 } else x)
                (p := fun v => !(v.id == vid && v.refs == 0 && !false))).map Version.id
              have h2 : (init.map fun x =>
                  if (x.id == vid) = true then { x with refs := x.refs - 1 } else x).map Version.id
                  = init.map Version.id := by
                rw [List.map_map]; exact List.map_congr_left fun x _ => hfid x
              rw [h2] at h1; exact h1
            rw [List.map_append, List.nodup_append]
            refine ⟨hsub.nodup hndI, by simp, ?_⟩
            intro a ha b hb
            simp only [List.map_cons, List.map_nil, List.mem_singleton] at hb
            obtain ⟨x, hx, rfl⟩ := List.mem_map.1 (hsub.subset ha)
            rw [hb]; exact hidI x hx
          · intro v hm
            rw [List.mem_append, List.mem_singleton] at hm
            rcases hm with hm | rfl
            · simp only [unlinkIfFree, List.mem_filter, List.mem_map] at hm
              obtain ⟨⟨x, hx, rfl⟩, _⟩ := hm
              rw [hfid x]; exact hltI x hx
            · exact hltC
          · intro v hm
            simp only [unlinkIfFree, List.mem_filter, List.mem_map] at hm
            obtain ⟨⟨x, hx, rfl⟩, hp⟩ := hm
            by_cases hxv : x.id = vid
            · simp [hxv] at hp ⊢
              omega
            · simp only [beq_iff_eq, hxv, if_false]
              exact href x hx
  | leak vid => simp [noLeak] at ha
  | install ts w prev =>
    simp only [step, hcur, Option.some.injEq] at hs
    subst hs
    have hfI : unlinkIfFree init c.id false = init := by
      unfold unlinkIfFree
      rw [List.filter_eq_self]
      intro v hm
      have := hidI v hm
      simp [this]
    have hsplit : unlinkIfFree (init ++ [c]) c.id false
        = init ++ (if c.refs = 0 then [] else [c]) := by
      have : unlinkIfFree (init ++ [c]) c.id false
          = unlinkIfFree init c.id false ++ unlinkIfFree [c] c.id false := by
        simp [unlinkIfFree, List.filter_append]
      rw [this, hfI]
      by_cases hc : c.refs = 0 <;> simp [unlinkIfFree, hc]
    have hnew : ∀ v ∈ init ++ [c], v.id ≠ s.nextId := fun v hm => Nat.ne_of_lt (hlt v hm)
    by_cases hc : c.refs = 0
    · refine good_of_split init { id := s.nextId, tables := ts, refs := 0 } ?_ ?_ ?_ href
      · show unlinkIfFree s.versions c.id false ++ _ = _
        rw [hv, hsplit]; simp [hc]
      · simp only [List.map_append, List.map_cons, List.map_nil, List.nodup_append]
        refine ⟨hndI, by simp, ?_⟩
        intro a ha b hb
        simp only [List.mem_singleton] at hb
        obtain ⟨v, hvm, rfl⟩ := List.mem_map.1 ha
        rw [hb]; exact hnew v (by simp [hvm])
      · intro v hm
        rw [List.mem_append, List.mem_singleton] at hm
        rcases hm with hm | rfl
        · exact Nat.lt_succ_of_lt (hltI v hm)
        · exact Nat.lt_succ_self _
    · refine good_of_split (init ++ [c]) { id := s.nextId, tables := ts, refs := 0 } ?_ ?_ ?_ ?_
      · show unlinkIfFree s.versions c.id false ++ _ = _
        rw [hv, hsplit]; simp [hc]
      · rw [List.map_append, List.nodup_append]
        refine ⟨hnd, by simp, ?_⟩
        intro a ha b hb
        simp only [List.map_cons, List.map_nil, List.mem_singleton] at hb
        obtain ⟨v, hvm, rfl⟩ := List.mem_map.1 ha
        rw [hb]; exact hnew v hvm
      · intro v hm
        rw [List.mem_append, List.mem_singleton] at hm
        rcases hm with hm | rfl
        · exact Nat.lt_succ_of_lt (hlt v hm)
        · exact Nat.lt_succ_self _
      · intro v hm
        rw [List.mem_append, List.mem_singleton] at hm
        rcases hm with hm | rfl
        · exact href v hm
        · exact Nat.pos_of_ne_zero hc
  | beginOutput t =>
    simp only [step, Option.some.injEq] at hs
    subst hs
    exact good_of_split init c hv hnd hlt href
  | endOutput t =>
    simp only [step, Option.some.injEq] at hs
    subst hs
    exact good_of_split init c hv hnd hlt href
  | removeObsolete =>
    simp only [step] at hs
    split at hs <;> (simp only [Option.some.injEq] at hs; subst hs)
    · exact h
    · exact good_of_split init c hv hnd hlt href

theorem released_unlinked (s : State) (h : Good s) (hq : ∀ v ∈ s.versions, v.refs = 0) :
    ∃ c, s.versions = [c] := by
  obtain ⟨init, c, hv, _, _, href⟩ := good_split h
  cases init with
  | nil => exact ⟨c, by simpa using hv⟩
  | cons x rest =>
    have h0 : x.refs = 0 := hq x (by simp [hv])
    have h1 : 0 < x.refs := href x (by simp)
    omega

theorem quiescent_exact (s : State) (h : Good s) (hq : ∀ v ∈ s.versions, v.refs = 0)
    (hu : s.inUse = []) :
    ∃ c, current s = some c ∧
      (∀ t, t ∈ (clean s).tables ↔ (t ∈ s.dir.tables ∧ t ∈ c.tables)) ∧
      (∀ t, t ∈ (clean s).temps → t ∈ c.tables) ∧
      (∀ n, n ∈ (clean s).wals ↔ (n ∈ s.dir.wals ∧ (s.walNo ≤ n ∨ s.prevWal = some n))) ∧
      (∀ m, m ∈ (clean s).manifests ↔ (m ∈ s.dir.manifests ∧ s.manifestNo ≤ m)) := by
  obtain ⟨c, hc⟩ := released_unlinked s h hq
  have hlive : liveTables s = c.tables := by simp [liveTables, hc, hu]
  refine ⟨c, by simp [current, hc], ?_, ?_, ?_, ?_⟩
  · intro t
    simp only [clean, hlive, List.mem_filter, List.contains_iff_mem]
  · intro t ht
    simp only [clean, hlive, List.mem_filter, List.contains_iff_mem] at ht
    exact ht.2
  · intro n
    simp only [clean, keepWal, List.mem_filter, Bool.or_eq_true, decide_eq_true_eq, beq_iff_eq]
  · intro m
    simp only [clean, List.mem_filter, decide_eq_true_eq]
