import Rain.Score
import Rain.Lemmas.PickSetup
/-
Compaction scoring (`Rain/Score.lean`): order facts about scores, the loop invariant of
`Version::finalize`, when a size compaction is needed, the seed of `pick_compaction`.
-/
namespace Rain.Score.Lemmas
open Rain Rain.Lsm Rain.Lsm.Lemmas Rain.Score

/-! ### scores as rationals -/

theorem Score.le_refl (a : Score) : Score.le a a := Nat.le_refl _

theorem Score.le_of_lt {a b : Score} (h : Score.lt a b) : Score.le a b := Nat.le_of_lt h

theorem Score.le_of_not_lt {a b : Score} (h : ¬ Score.lt a b) : Score.le b a := Nat.le_of_not_lt h

theorem Score.lt_of_le_of_lt {a b c : Score} (ha : 0 < a.2) (h1 : Score.le a b)
    (h2 : Score.lt b c) : Score.lt a c := by
  obtain ⟨x1, x2⟩ := a
  obtain ⟨y1, y2⟩ := b
  obtain ⟨z1, z2⟩ := c
  simp only [Score.le, Score.lt] at *
  apply Nat.lt_of_not_le
  intro h
  have A : z1 * x2 * y2 ≤ x1 * z2 * y2 := Nat.mul_le_mul_right _ h
  have B : x1 * y2 * z2 ≤ y1 * x2 * z2 := Nat.mul_le_mul_right _ h1
  have C : y1 * z2 * x2 < z1 * y2 * x2 := Nat.mul_lt_mul_of_pos_right h2 ha
  have e1 : x1 * z2 * y2 = x1 * y2 * z2 := by ac_rfl
  have e2 : y1 * x2 * z2 = y1 * z2 * x2 := by ac_rfl
  have e3 : z1 * y2 * x2 = z1 * x2 * y2 := by ac_rfl
  omega

theorem scoreGt_iff {a b : Score} : scoreGt a b = true ↔ Score.lt b a := by
  simp [scoreGt, Score.lt]

theorem scoreGeOne_iff {a : Score} : scoreGeOne a = true ↔ a.2 ≤ a.1 := by
  simp [scoreGeOne]

/-- a score at least as large as a score ≥ 1 is ≥ 1 -/
theorem geOne_of_le {a b : Score} (ha : 0 < a.2) (h1 : a.2 ≤ a.1) (h : Score.le a b) :
    b.2 ≤ b.1 := by
  obtain ⟨x1, x2⟩ := a
  obtain ⟨y1, y2⟩ := b
  simp only [Score.le] at *
  have A : x2 * y2 ≤ x1 * y2 := Nat.mul_le_mul_right _ h1
  have e : x2 * y2 = y2 * x2 := Nat.mul_comm _ _
  exact Nat.le_of_mul_le_mul_right (by omega) ha

theorem maxBytes_pos {p : Params} (hm : 0 < p.levelOneMax) (l : Nat) : 0 < maxBytes p l :=
  Nat.mul_pos hm (Nat.pow_pos (by decide))

theorem scoreAt_den_pos {p : Params} (hm : 0 < p.levelOneMax) (ls : List (Nat × Nat)) (l : Nat) :
    0 < (scoreAt p ls l).2 := by
  unfold scoreAt
  split
  · exact Nat.one_pos
  · exact maxBytes_pos hm l

theorem scoreAt_zero (p : Params) (ls : List (Nat × Nat)) :
    scoreAt p ls 0 = (countAt ls 0 / p.l0Trigger, 1) := by simp [scoreAt]

theorem scoreAt_pos (p : Params) (ls : List (Nat × Nat)) {l : Nat} (h : l ≠ 0) :
    scoreAt p ls l = (bytesAt ls l, maxBytes p l) := by simp [scoreAt, h]

/-! ### the loop of `Version::finalize` -/

theorem finalizeStep_fst (p : Params) (ls : List (Nat × Nat)) (best : Nat × Score) (lvl : Nat) :
    (finalizeStep p ls best lvl).1 = best.1 ∨ (finalizeStep p ls best lvl).1 = lvl := by
  unfold finalizeStep
  split
  · exact Or.inr rfl
  · exact Or.inl rfl

theorem finalizeLoop_fst_lt (p : Params) (ls : List (Nat × Nat)) :
    ∀ (n lvl : Nat) (best : Nat × Score), best.1 < lvl →
      (finalizeLoop p ls n lvl best).1 < lvl + n := by
  intro n
  induction n with
  | zero => intro lvl best h; simpa [finalizeLoop] using h
  | succ n ih =>
    intro lvl best h
    have := ih (lvl + 1) (finalizeStep p ls best lvl) (by
      rcases finalizeStep_fst p ls best lvl with e | e <;> rw [e] <;> omega)
    simp only [finalizeLoop]
    omega

/-- the best level is one of the scored levels -/
theorem finalize_fst_lt (p : Params) (ls : List (Nat × Nat)) :
    (finalize p ls).1 < max 1 p.scoredLevels := by
  have := finalizeLoop_fst_lt p ls (p.scoredLevels - 1) 1 (0, scoreAt p ls 0) Nat.one_pos
  unfold finalize
  omega

/-- the loop invariant before the iteration for level `lvl` -/
structure Inv (p : Params) (ls : List (Nat × Nat)) (lvl : Nat) (best : Nat × Score) : Prop where
  eq : best.2 = scoreAt p ls best.1
  ge : ∀ l, l < lvl → Score.le (scoreAt p ls l) best.2
  gt : ∀ l, l < best.1 → Score.lt (scoreAt p ls l) best.2
  le_lvl : best.1 ≤ lvl

theorem inv_step {p : Params} (hm : 0 < p.levelOneMax) {ls : List (Nat × Nat)} {lvl : Nat}
    {best : Nat × Score} (h : Inv p ls lvl best) :
    Inv p ls (lvl + 1) (finalizeStep p ls best lvl) := by
  unfold finalizeStep
  split
  · rename_i hgt
    have hlt : Score.lt best.2 (scoreAt p ls lvl) := scoreGt_iff.mp hgt
    have hall : ∀ l, l < lvl → Score.lt (scoreAt p ls l) (scoreAt p ls lvl) := fun l hl =>
      Score.lt_of_le_of_lt (scoreAt_den_pos hm ls l) (h.ge l hl) hlt
    refine ⟨rfl, fun l hl => ?_, fun l hl => hall l hl, Nat.le_succ _⟩
    by_cases e : l = lvl
    · subst e; exact Score.le_refl _
    · exact Score.le_of_lt (hall l (by omega))
  · rename_i hgt
    have hle : Score.le (scoreAt p ls lvl) best.2 :=
      Score.le_of_not_lt (fun hc => hgt (scoreGt_iff.mpr hc))
    refine ⟨h.eq, fun l hl => ?_, h.gt, Nat.le_succ_of_le h.le_lvl⟩
    by_cases e : l = lvl
    · subst e; exact hle
    · exact h.ge l (by omega)

theorem inv_loop {p : Params} (hm : 0 < p.levelOneMax) {ls : List (Nat × Nat)} :
    ∀ (n lvl : Nat) (best : Nat × Score), Inv p ls lvl best →
      Inv p ls (lvl + n) (finalizeLoop p ls n lvl best) := by
  intro n
  induction n with
  | zero => intro lvl best h; simpa [finalizeLoop] using h
  | succ n ih =>
    intro lvl best h
    have := ih (lvl + 1) _ (inv_step hm h)
    simp only [finalizeLoop]
    rwa [show lvl + (n + 1) = lvl + 1 + n by omega]

theorem inv_finalize {p : Params} (hm : 0 < p.levelOneMax) (ls : List (Nat × Nat)) :
    Inv p ls (max 1 p.scoredLevels) (finalize p ls) := by
  have h0 : Inv p ls 1 (0, scoreAt p ls 0) := by
    refine ⟨rfl, fun l hl => ?_, fun l hl => absurd hl (Nat.not_lt_zero _), Nat.zero_le _⟩
    have : l = 0 := by omega
    subst this; exact Score.le_refl _
  have := inv_loop hm (p.scoredLevels - 1) 1 _ h0
  rwa [show 1 + (p.scoredLevels - 1) = max 1 p.scoredLevels by omega] at this

/-- the score returned is the score of the level returned -/
theorem finalize_snd {p : Params} (hm : 0 < p.levelOneMax) (ls : List (Nat × Nat)) :
    (finalize p ls).2 = scoreAt p ls (finalize p ls).1 := (inv_finalize hm ls).eq

/-! ### when a size compaction is needed -/

theorem bytesAt_of_length_le {ls : List (Nat × Nat)} {l : Nat} (h : ls.length ≤ l) :
    bytesAt ls l = 0 := by
  simp [bytesAt, statAt, List.getD, List.getElem?_eq_none h]

theorem countAt_of_length_le {ls : List (Nat × Nat)} {l : Nat} (h : ls.length ≤ l) :
    countAt ls l = 0 := by
  simp [countAt, statAt, List.getD, List.getElem?_eq_none h]

theorem statAt_mem {ls : List (Nat × Nat)} {l : Nat} (h : l < ls.length) : statAt ls l ∈ ls := by
  simp [statAt, List.getD, List.getElem?_eq_getElem h]

theorem needsSize_iff {p : Params} (ht : 0 < p.l0Trigger) (hm : 0 < p.levelOneMax)
    (ls : List (Nat × Nat)) :
    needsSize p ls = true ↔
      (p.l0Trigger ≤ countAt ls 0 ∨
        ∃ l, 1 ≤ l ∧ l < p.scoredLevels ∧ l < ls.length ∧ maxBytes p l ≤ bytesAt ls l) := by
  have inv := inv_finalize hm ls
  have hr := finalize_fst_lt p ls
  unfold needsSize
  rw [scoreGeOne_iff]
  constructor
  · intro h
    rw [inv.eq] at h
    by_cases e : (finalize p ls).1 = 0
    · left
      rw [e, scoreAt_zero] at h
      have := (Nat.le_div_iff_mul_le ht).mp h
      omega
    · right
      rw [scoreAt_pos p ls e] at h
      refine ⟨(finalize p ls).1, by omega, by omega, ?_, h⟩
      apply Nat.lt_of_not_le
      intro hc
      have h0 := bytesAt_of_length_le hc
      have := maxBytes_pos hm (finalize p ls).1
      simp only at h
      omega
  · rintro (h | ⟨l, h1, h2, _, h4⟩)
    · have hle := inv.ge 0 (by omega)
      refine geOne_of_le (scoreAt_den_pos hm ls 0) ?_ hle
      rw [scoreAt_zero]
      exact (Nat.le_div_iff_mul_le ht).mpr (by omega)
    · have hle := inv.ge l (by omega)
      refine geOne_of_le (scoreAt_den_pos hm ls l) ?_ hle
      rw [scoreAt_pos p ls (by omega)]
      exact h4

/-- what holds of the loop for EVERY parameter set (no positivity needed): the score is the score
of the level, and a level other than 0 was taken because its numerator is positive -/
structure Inv0 (p : Params) (ls : List (Nat × Nat)) (best : Nat × Score) : Prop where
  eq : best.2 = scoreAt p ls best.1
  num_pos : best.1 ≠ 0 → 0 < best.2.1

theorem inv0_step {p : Params} {ls : List (Nat × Nat)} {lvl : Nat} {best : Nat × Score}
    (h : Inv0 p ls best) : Inv0 p ls (finalizeStep p ls best lvl) := by
  unfold finalizeStep
  split
  · rename_i hgt
    refine ⟨rfl, fun _ => ?_⟩
    have hlt := scoreGt_iff.mp hgt
    unfold Score.lt at hlt
    apply Nat.pos_of_ne_zero
    intro hc
    simp only at hc
    rw [hc, Nat.zero_mul] at hlt
    exact absurd hlt (Nat.not_lt_zero _)
  · exact h

theorem inv0_loop {p : Params} {ls : List (Nat × Nat)} :
    ∀ (n lvl : Nat) (best : Nat × Score), Inv0 p ls best →
      Inv0 p ls (finalizeLoop p ls n lvl best) := by
  intro n
  induction n with
  | zero => intro lvl best h; simpa [finalizeLoop] using h
  | succ n ih =>
    intro lvl best h
    simp only [finalizeLoop]
    exact ih (lvl + 1) _ (inv0_step h)

theorem inv0_finalize (p : Params) (ls : List (Nat × Nat)) : Inv0 p ls (finalize p ls) :=
  inv0_loop _ _ _ ⟨rfl, fun h => absurd rfl h⟩

/-- the level chosen for a size compaction holds at least one file (whatever the parameters) -/
theorem needsSize_count_pos (p : Params) (ls : List (Nat × Nat))
    (hwf : ∀ c b, (c, b) ∈ ls → c = 0 → b = 0) (h : needsSize p ls = true) :
    0 < countAt ls (finalize p ls).1 := by
  have inv := inv0_finalize p ls
  unfold needsSize at h
  rw [scoreGeOne_iff] at h
  by_cases e : (finalize p ls).1 = 0
  · rw [inv.eq, e, scoreAt_zero] at h
    rw [e]
    apply Nat.pos_of_ne_zero
    intro hc
    rw [hc, Nat.zero_div] at h
    exact absurd h (by decide)
  · have hp := inv.num_pos e
    rw [inv.eq, scoreAt_pos p ls e] at hp
    simp only at hp
    apply Nat.pos_of_ne_zero
    intro hc
    have hb : bytesAt ls (finalize p ls).1 = 0 := by
      by_cases hl : (finalize p ls).1 < ls.length
      · have hmem := statAt_mem hl
        exact hwf (statAt ls _).1 (statAt ls _).2 hmem hc
      · exact bytesAt_of_length_le (by omega)
    omega

/-! ### `levelStats` -/

theorem levelStats_wf (size : Nat → Nat) (levels : List (List File)) :
    ∀ c b, (c, b) ∈ levelStats size levels → c = 0 → b = 0 := by
  intro c b h hc
  simp only [levelStats, List.mem_map, Prod.mk.injEq] at h
  obtain ⟨fs, _, h1, h2⟩ := h
  have : fs = [] := List.eq_nil_of_length_eq_zero (h1.trans hc)
  subst this
  simpa [sumSizes] using h2.symm

theorem countAt_levelStats (size : Nat → Nat) (levels : List (List File)) (l : Nat) :
    countAt (levelStats size levels) l = (levels.getD l []).length := by
  simp only [countAt, statAt, levelStats, List.getD, List.getElem?_map]
  cases levels[l]? <;> simp

theorem bytesAt_levelStats (size : Nat → Nat) (levels : List (List File)) (l : Nat) :
    bytesAt (levelStats size levels) l = sumSizes size (levels.getD l []) := by
  simp only [bytesAt, statAt, levelStats, List.getD, List.getElem?_map]
  cases levels[l]? <;> simp [sumSizes]

/-! ### the seed -/

theorem pickSeed_mem {fs : List File} {ptr : Option (Bytes × Nat)} {f : File}
    (h : pickSeed fs ptr = some f) : f ∈ fs := by
  unfold pickSeed at h
  split at h
  · exact List.mem_of_head? h
  · split at h
    · rename_i g hg
      cases h
      exact List.mem_of_find?_eq_some hg
    · exact List.mem_of_head? h

theorem pickSeed_isSome {fs : List File} (hne : fs ≠ []) (ptr : Option (Bytes × Nat)) :
    ∃ f, pickSeed fs ptr = some f ∧ f ∈ fs := by
  have hh : ∃ f, fs.head? = some f := by
    cases fs with
    | nil => exact absurd rfl hne
    | cons a t => exact ⟨a, rfl⟩
  have : ∃ f, pickSeed fs ptr = some f := by
    unfold pickSeed
    split
    · exact hh
    · split
      · exact ⟨_, rfl⟩
      · exact hh
  obtain ⟨f, hf⟩ := this
  exact ⟨f, hf, pickSeed_mem hf⟩

/-- what the seed is: with a pointer, the first file ending above it … -/
theorem pickSeed_above {fs : List File} {k : Bytes × Nat} {f : File}
    (h : pickSeed fs (some k) = some f) (hex : ∃ g ∈ fs, kLt k g.largest = true) :
    kLt k f.largest = true ∧
      ∃ pre suf, fs = pre ++ f :: suf ∧ ∀ g ∈ pre, kLt k g.largest = false := by
  simp only [pickSeed] at h
  split at h
  · rename_i g hg
    cases h
    refine ⟨by simpa using List.find?_some hg, ?_⟩
    obtain ⟨pre, suf, e, hpre⟩ := List.find?_eq_some_iff_append.mp hg |>.2
    exact ⟨pre, suf, e, fun g hg => by simpa using hpre g hg⟩
  · rename_i hnone
    obtain ⟨g, hg, hk⟩ := hex
    have := List.find?_eq_none.mp hnone g hg
    simp [hk] at this

/-- … and the first file of the level when no file ends above the pointer or there is none -/
theorem pickSeed_wraps {fs : List File} {ptr : Option (Bytes × Nat)}
    (hno : ∀ k, ptr = some k → ∀ g ∈ fs, kLt k g.largest = false) :
    pickSeed fs ptr = fs.head? := by
  unfold pickSeed
  split
  · rfl
  · rename_i k
    split
    · rename_i g hg
      have h1 := List.find?_some hg
      have h2 := hno k rfl g (List.mem_of_find?_eq_some hg)
      simp [h2] at h1
    · rfl

theorem inRange_self {f : File} (hw : Wf f) :
    inRange f (some f.smallest.1) (some f.largest.1) = true := by
  simp [inRange, beforeRange, afterRange, hw.ufst]

theorem seedFiles_mem {fs : List File} {lvl : Nat} {f : File} (hf : f ∈ fs)
    (hw : lvl = 0 → Wf f) : f ∈ seedFiles fs lvl f := by
  unfold seedFiles
  split
  · rename_i h0
    exact overlapping_superset hf (inRange_self (hw h0))
  · exact List.mem_singleton.mpr rfl

theorem seedFiles_sublist {fs : List File} {lvl : Nat} {f : File} (hf : f ∈ fs) :
    (seedFiles fs lvl f).Sublist fs := by
  unfold seedFiles
  split
  · exact overlapping_sublist _ _ _ _
  · exact List.singleton_sublist.mpr hf

/-! ### `pickOutcome` -/

/-- what a `picked` answer is made of -/
theorem pickOutcome_picked {p : Params} {mx : Nat} {size : Nat → Nat} {levels : List (List File)}
    {ptrs : List (Option (Bytes × Nat))} {lvl : Nat} {i0 i1 : List File}
    (h : pickOutcome p mx size levels ptrs = .picked lvl i0 i1) :
    needsSize p (levelStats size levels) = true ∧
    lvl = (finalize p (levelStats size levels)).1 ∧ lvl + 1 < numLevels ∧
    ∃ f, pickSeed (levels.getD lvl []) (ptrs.getD lvl none) = some f ∧
      i0 = (setupOtherInputs size levels lvl (seedFiles (levels.getD lvl []) lvl f) mx).1 ∧
      i1 = (setupOtherInputs size levels lvl (seedFiles (levels.getD lvl []) lvl f) mx).2 := by
  unfold pickOutcome at h
  simp only at h
  split at h
  · rename_i hn
    split at h
    · cases h
    · rename_i hl
      split at h
      · cases h
      · rename_i f hf
        injection h with h1 h2 h3
        subst h1
        exact ⟨hn, rfl, by omega, f, hf, h2.symm, h3.symm⟩
  · cases h

theorem pickCompaction_some {p : Params} {mx : Nat} {size : Nat → Nat}
    {levels : List (List File)} {ptrs : List (Option (Bytes × Nat))} {lvl : Nat}
    {i0 i1 : List File} :
    pickCompaction p mx size levels ptrs = some (lvl, i0, i1) ↔
      pickOutcome p mx size levels ptrs = .picked lvl i0 i1 := by
  unfold pickCompaction
  split
  · rename_i a b c e
    rw [e]
    simp only [Option.some.injEq, Prod.mk.injEq, Outcome.picked.injEq]
  · rename_i hne
    constructor
    · intro h; cases h
    · intro h; exact absurd h (hne _ _ _)

/-- under the repaired loop bound a needed size compaction is always picked: neither of the two
panics can happen -/
theorem size_compaction_outcome {p : Params}
    (hs : p.scoredLevels ≤ 6) (mx : Nat) (size : Nat → Nat) (levels : List (List File))
    (ptrs : List (Option (Bytes × Nat)))
    (h : needsSize p (levelStats size levels) = true) :
    ∃ lvl f, lvl = (finalize p (levelStats size levels)).1 ∧ lvl + 1 < 7 ∧
      pickSeed (levels.getD lvl []) (ptrs.getD lvl none) = some f ∧ f ∈ levels.getD lvl [] ∧
      pickOutcome p mx size levels ptrs =
        .picked lvl (setupOtherInputs size levels lvl (seedFiles (levels.getD lvl []) lvl f) mx).1
          (setupOtherInputs size levels lvl (seedFiles (levels.getD lvl []) lvl f) mx).2 := by
  have hr := finalize_fst_lt p (levelStats size levels)
  have hc := needsSize_count_pos p _ (levelStats_wf size levels) h
  rw [countAt_levelStats] at hc
  have hne : levels.getD (finalize p (levelStats size levels)).1 [] ≠ [] := by
    intro e; rw [e] at hc; exact absurd hc (by decide)
  obtain ⟨f, hf, hmem⟩ :=
    pickSeed_isSome hne (ptrs.getD (finalize p (levelStats size levels)).1 none)
  have hlast : ¬ numLevels ≤ (finalize p (levelStats size levels)).1 + 1 := by
    unfold numLevels; omega
  refine ⟨(finalize p (levelStats size levels)).1, f, rfl, by omega, hf, hmem, ?_⟩
  unfold pickOutcome
  simp only [h, if_true, hlast, if_false, hf]

/-- the inputs of the level: not empty (at level 0 if the chosen file is well formed), and files
of the level -/
theorem setup_seedFiles_fst {levels : List (List File)} {lvl : Nat} {f : File}
    (hmem : f ∈ levels.getD lvl []) (hw : lvl = 0 → kLt f.largest f.smallest = false)
    (size : Nat → Nat) (mx : Nat) :
    (setupOtherInputs size levels lvl (seedFiles (levels.getD lvl []) lvl f) mx).1 ≠ [] ∧
    ∀ g ∈ (setupOtherInputs size levels lvl (seedFiles (levels.getD lvl []) lvl f) mx).1,
      g ∈ levels.getD lvl [] := by
  have hseed : seedFiles (levels.getD lvl []) lvl f ≠ [] := by
    intro e
    have := seedFiles_mem (lvl := lvl) hmem hw
    rw [e] at this
    cases this
  obtain ⟨_, hcase⟩ := setup_cases size levels lvl _ mx hseed
  constructor
  · rcases hcase with e | ⟨h1, _⟩
    · rw [e]; exact addBoundary_ne_nil hseed
    · exact h1
  · intro g hg
    rcases hcase with e | ⟨_, a, b, e⟩
    · rw [e] at hg
      rcases addBoundary_subset hg with h1 | h1
      · exact (seedFiles_sublist hmem).subset h1
      · exact h1
    · rw [e] at hg
      rcases addBoundary_subset hg with h1 | h1
      · exact (overlapping_sublist _ _ _ _).subset h1
      · exact h1

theorem size_compaction_is_picked {p : Params}
    (hs : p.scoredLevels ≤ 6) (mx : Nat) (size : Nat → Nat) (levels : List (List File))
    (ptrs : List (Option (Bytes × Nat)))
    (h : needsSize p (levelStats size levels) = true)
    (hw0 : (finalize p (levelStats size levels)).1 = 0 →
      ∀ f ∈ levels.getD 0 [], kLt f.largest f.smallest = false) :
    ∃ lvl i0 i1, pickCompaction p mx size levels ptrs = some (lvl, i0, i1) ∧
      lvl = (finalize p (levelStats size levels)).1 ∧ lvl + 1 < 7 ∧ i0 ≠ [] ∧
      (∀ f ∈ i0, f ∈ levels.getD lvl []) := by
  obtain ⟨lvl, f, e, hlt, _, hmem, hout⟩ := size_compaction_outcome hs mx size levels ptrs h
  have hw : lvl = 0 → kLt f.largest f.smallest = false := fun h0 =>
    hw0 (e ▸ h0) f (by rw [h0] at hmem; exact hmem)
  obtain ⟨h1, h2⟩ := setup_seedFiles_fst hmem hw size mx
  exact ⟨lvl, _, _, pickCompaction_some.mpr hout, e, hlt, h1, h2⟩

/-- under the repaired loop bound `pick_compaction` cannot hit either panic -/
theorem no_anomalous_outcome {p : Params} (hs : p.scoredLevels ≤ 6)
    (mx : Nat) (size : Nat → Nat) (levels : List (List File))
    (ptrs : List (Option (Bytes × Nat))) (lvl : Nat) :
    pickOutcome p mx size levels ptrs ≠ .lastLevelChosen lvl ∧
      pickOutcome p mx size levels ptrs ≠ .emptyLevelChosen lvl := by
  by_cases h : needsSize p (levelStats size levels) = true
  · obtain ⟨l, f, _, _, _, _, hout⟩ := size_compaction_outcome hs mx size levels ptrs h
    rw [hout]
    exact ⟨fun e => Outcome.noConfusion e, fun e => Outcome.noConfusion e⟩
  · have : pickOutcome p mx size levels ptrs = .nothing := by
      unfold pickOutcome
      simp only [h]
      rfl
    rw [this]
    exact ⟨fun e => Outcome.noConfusion e, fun e => Outcome.noConfusion e⟩

/-- whatever the parameters: the level chosen for a size compaction is never empty -/
theorem empty_level_never_chosen (p : Params) (mx : Nat) (size : Nat → Nat)
    (levels : List (List File)) (ptrs : List (Option (Bytes × Nat))) (lvl : Nat) :
    pickOutcome p mx size levels ptrs ≠ .emptyLevelChosen lvl := by
  intro hout
  unfold pickOutcome at hout
  simp only at hout
  split at hout
  · rename_i h
    split at hout
    · cases hout
    · split at hout
      · rename_i hnone
        have hc := needsSize_count_pos p _ (levelStats_wf size levels) h
        rw [countAt_levelStats] at hc
        have hne : levels.getD (finalize p (levelStats size levels)).1 [] ≠ [] := by
          intro e; rw [e] at hc; exact absurd hc (by decide)
        obtain ⟨f, hf, _⟩ :=
          pickSeed_isSome hne (ptrs.getD (finalize p (levelStats size levels)).1 none)
        rw [hf] at hnone
        cases hnone
      · cases hout
  · cases hout

/-- ties keep the shallower level: the level returned is the first scored level whose score is
maximal -/
theorem finalize_first_maximal {p : Params} (hm : 0 < p.levelOneMax) (ls : List (Nat × Nat))
    (l : Nat) (hmax : Score.le (finalize p ls).2 (scoreAt p ls l)) : (finalize p ls).1 ≤ l := by
  apply Nat.le_of_not_lt
  intro hl
  have h1 := (inv_finalize hm ls).gt l hl
  unfold Score.le at hmax
  unfold Score.lt at h1
  omega

end Rain.Score.Lemmas
