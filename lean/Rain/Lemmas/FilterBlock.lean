import Rain.FilterBlock
/-
Lemmas for C14 (filter block): builder invariant, `parse ∘ finalize` round trip, soundness.
-/
namespace Rain.FilterBlock
open Rain

/-! ### little-endian helpers -/

@[simp] theorem length_leBytes (n v : Nat) : (leBytes n v).length = n := by
  induction n generalizing v with
  | zero => rfl
  | succ n ih => simp [leBytes, ih]

theorem leVal_leBytes (n v : Nat) (h : v < 256 ^ n) : leVal (leBytes n v) = v := by
  induction n generalizing v with
  | zero => simp [leBytes, leVal]; simp at h; omega
  | succ n ih =>
    have hb : ((v % 256).toUInt8).toNat = v % 256 := by
      simp [Nat.toUInt8, Nat.mod_eq_of_lt (Nat.mod_lt v (by decide : 0 < 256))]
    have hv : v / 256 < 256 ^ n := by
      rw [Nat.div_lt_iff_lt_mul (by decide)]; rw [Nat.pow_succ] at h; exact h
    simp only [leBytes, leVal, hb, ih _ hv]
    omega

theorem leVal_leBytes4 (v : Nat) (h : v < 2 ^ 32) : leVal (leBytes 4 v) = v :=
  leVal_leBytes 4 v (by simpa using h)

theorem length_flatten_leBytes (l : List Nat) :
    ((l.map (leBytes 4)).flatten).length = 4 * l.length := by
  induction l with
  | nil => rfl
  | cons o os ih => simp [ih]; omega

theorem chunks4_flatten (l : List Nat) (h : ∀ o ∈ l, o < 2 ^ 32) :
    chunks4 l.length ((l.map (leBytes 4)).flatten) = l := by
  induction l with
  | nil => rfl
  | cons o os ih =>
    simp only [List.map_cons, List.flatten_cons, List.length_cons, chunks4]
    rw [List.take_left' (length_leBytes 4 o), List.drop_left' (length_leBytes 4 o)]
    rw [leVal_leBytes4 o (h o (by simp)), ih (fun x hx => h x (by simp [hx]))]

/-! ### offsets and `splitFilters` -/

@[simp] theorem length_offsetsOf (F : List Bytes) (s : Nat) : (offsetsOf F s).length = F.length := by
  induction F generalizing s with
  | nil => rfl
  | cons f fs ih => simp [offsetsOf, ih]

theorem offsetsOf_bound (F : List Bytes) (s : Nat) :
    ∀ o ∈ offsetsOf F s, s ≤ o ∧ o ≤ s + F.flatten.length := by
  induction F generalizing s with
  | nil => intro o h; cases h
  | cons f fs ih =>
    intro o h
    simp only [offsetsOf, List.mem_cons] at h
    simp only [List.flatten_cons, List.length_append]
    rcases h with rfl | h
    · omega
    · have := ih _ o h; omega

theorem splitFilters_offsetsOf (F : List Bytes) (pre : Bytes) :
    splitFilters (pre ++ F.flatten) (offsetsOf F pre.length) = F := by
  induction F generalizing pre with
  | nil => rfl
  | cons f fs ih =>
    cases fs with
    | nil =>
      simp [offsetsOf, splitFilters]
    | cons g rest =>
      have ih' := ih (pre ++ f)
      simp only [offsetsOf, splitFilters] at ih' ⊢
      rw [List.length_append] at ih'
      have e : pre ++ (f :: g :: rest).flatten = pre ++ f ++ (g :: rest).flatten := by
        simp
      rw [e, ih']
      congr 1
      rw [← List.length_append, List.take_left' rfl, List.drop_left' rfl]

/-! ### `parse` of a serialized block -/

theorem parse_serialized (body O : Bytes) (offs : List Nat) (e : UInt8)
    (hb : body.length < 2 ^ 32) (hO : O.length = 4 * offs.length)
    (hch : chunks4 offs.length O = offs) (hle : ∀ o ∈ offs, o ≤ body.length) :
    parse (body ++ O ++ leBytes 4 body.length ++ [e])
      = some { filters := splitFilters body offs, exp := e.toNat } := by
  have hd : (body ++ O ++ leBytes 4 body.length).length = body.length + O.length + 4 := by simp; omega
  have hlen : (body ++ O ++ leBytes 4 body.length ++ [e]).length - 1
      = (body ++ O ++ leBytes 4 body.length).length := by simp
  have hlt : ¬ (body ++ O ++ leBytes 4 body.length ++ [e]).length < 5 := by
    rw [List.length_append, hd]; simp
  unfold parse
  rw [if_neg hlt]
  simp only [hlen]
  rw [List.take_left' rfl]
  have hlast : (body ++ O ++ leBytes 4 body.length ++ [e]).getD
      (body ++ O ++ leBytes 4 body.length).length 0 = e := by
    simp [List.getD_eq_getElem?_getD]
  rw [hlast]
  have h4 : (body ++ O ++ leBytes 4 body.length).length - 4 = (body ++ O).length := by simp; omega
  simp only [h4]
  rw [List.drop_left' rfl, List.take_left' rfl, leVal_leBytes4 _ hb]
  rw [if_neg (by simp)]
  rw [List.drop_left' rfl]
  rw [if_neg (by rw [hO]; omega)]
  have hq : O.length / 4 = offs.length := by rw [hO]; omega
  rw [hq, hch]
  have hraw : (body ++ O ++ leBytes 4 body.length).take body.length = body := by
    rw [List.append_assoc]; exact List.take_left' rfl
  rw [hraw]
  rw [if_neg]
  simp only [List.any_eq_true, decide_eq_true_eq, not_exists, not_and, Nat.not_lt]
  exact hle

theorem parse_filters (F : List Bytes) (e : Nat) (he : e < 256)
    (hsize : (F.flatten ++ ((offsetsOf F 0).map (leBytes 4)).flatten
      ++ leBytes 4 F.flatten.length ++ [e.toUInt8]).length < 2 ^ 32) :
    parse (F.flatten ++ ((offsetsOf F 0).map (leBytes 4)).flatten
      ++ leBytes 4 F.flatten.length ++ [e.toUInt8]) = some { filters := F, exp := e } := by
  simp only [List.length_append, length_flatten_leBytes, length_leBytes, length_offsetsOf,
    List.length_cons, List.length_nil] at hsize
  have hbound := offsetsOf_bound F 0
  have h := parse_serialized F.flatten ((offsetsOf F 0).map (leBytes 4)).flatten (offsetsOf F 0)
    e.toUInt8 (by omega) (length_flatten_leBytes _)
    (chunks4_flatten _ (fun o ho => by have := hbound o ho; omega))
    (fun o ho => by have := hbound o ho; omega)
  rw [h]
  have hs := splitFilters_offsetsOf F []
  simp only [List.nil_append, List.length_nil] at hs
  have hen : e.toUInt8.toNat = e := by simp [Nat.toUInt8, Nat.mod_eq_of_lt he]
  rw [hs, hen]

/-! ### builder invariant -/

/-- key `u` of a block in range `i` is either pending for filter number `i` or already inside
    the generated filter number `i` -/
def Good (create : List Bytes → Bytes) (b : Builder) (i : Nat) (u : Bytes) : Prop :=
  (i = b.filters.length ∧ u ∈ b.keys) ∨ (∃ ks, u ∈ ks ∧ b.filters[i]? = some (create ks))

theorem good_generate (create : List Bytes → Bytes) (b : Builder) (i : Nat) (u : Bytes)
    (h : Good create b i u) : Good create (generate create b) i u := by
  unfold generate
  rcases h with ⟨hi, hu⟩ | ⟨ks, hu, hf⟩
  · have hne : b.keys.isEmpty = false := by
      cases hk : b.keys with
      | nil => rw [hk] at hu; cases hu
      | cons _ _ => rfl
    simp only [hne]
    right
    exact ⟨b.keys, hu, by simp [hi]⟩
  · right
    have hlt : i < b.filters.length := by
      rcases Nat.lt_or_ge i b.filters.length with h | h
      · exact h
      · rw [List.getElem?_eq_none_iff.2 h] at hf; cases hf
    refine ⟨ks, hu, ?_⟩
    split
    · simp only; rw [List.getElem?_append_left hlt]; exact hf
    · simp only; rw [List.getElem?_append_left hlt]; exact hf

theorem length_generate (create : List Bytes → Bytes) (b : Builder) :
    (generate create b).filters.length = b.filters.length + 1 := by
  unfold generate; split <;> simp

theorem good_generateN (create : List Bytes → Bytes) (n : Nat) (b : Builder) (i : Nat) (u : Bytes)
    (h : Good create b i u) : Good create (generateN create n b) i u := by
  induction n generalizing b with
  | zero => exact h
  | succ n ih => exact ih _ (good_generate create b i u h)

theorem length_generateN (create : List Bytes → Bytes) (n : Nat) (b : Builder) :
    (generateN create n b).filters.length = b.filters.length + n := by
  induction n generalizing b with
  | zero => rfl
  | succ n ih => simp only [generateN, ih, length_generate]; omega

theorem good_notify (create : List Bytes → Bytes) (b : Builder) (o i : Nat) (u : Bytes)
    (h : Good create b i u) : Good create (notify create b o) i u :=
  good_generateN create _ b i u h

theorem length_notify (create : List Bytes → Bytes) (b : Builder) (o : Nat)
    (h : b.filters.length ≤ o / 2 ^ EXP) : (notify create b o).filters.length = o / 2 ^ EXP := by
  unfold notify; rw [length_generateN]; omega

theorem filters_foldl_addKey (b : Builder) (ks : List Bytes) :
    (ks.foldl addKey b).filters = b.filters := by
  induction ks generalizing b with
  | nil => rfl
  | cons k ks ih => simp [List.foldl_cons, ih, addKey]

theorem keys_foldl_addKey (b : Builder) (ks : List Bytes) :
    (ks.foldl addKey b).keys = b.keys ++ ks := by
  induction ks generalizing b with
  | nil => simp
  | cons k ks ih => simp [List.foldl_cons, ih, addKey]

theorem good_foldl_addKey (create : List Bytes → Bytes) (b : Builder) (ks : List Bytes)
    (i : Nat) (u : Bytes) (h : Good create b i u) : Good create (ks.foldl addKey b) i u := by
  unfold Good at *
  rw [filters_foldl_addKey, keys_foldl_addKey]
  rcases h with ⟨hi, hu⟩ | h
  · exact Or.inl ⟨hi, List.mem_append_left _ hu⟩
  · exact Or.inr h

theorem good_foldl_addKey_new (create : List Bytes → Bytes) (b : Builder) (ks : List Bytes)
    (u : Bytes) (hu : u ∈ ks) : Good create (ks.foldl addKey b) b.filters.length u := by
  unfold Good
  rw [filters_foldl_addKey, keys_foldl_addKey]
  exact Or.inl ⟨rfl, List.mem_append_right _ hu⟩

theorem good_buildBlocks (create : List Bytes → Bytes) (blocks : List (Nat × List Bytes))
    (b : Builder) (i : Nat) (u : Bytes) (h : Good create b i u) :
    Good create (buildBlocks create b blocks) i u := by
  induction blocks generalizing b with
  | nil => exact h
  | cons blk rest ih =>
    obtain ⟨o, ks⟩ := blk
    simp only [buildBlocks]
    exact ih _ (good_foldl_addKey create _ ks i u (good_notify create b o i u h))

theorem good_buildBlocks_mem (create : List Bytes → Bytes) (blocks : List (Nat × List Bytes))
    (b : Builder) (hmono : blocks.Pairwise (fun a b => a.1 ≤ b.1))
    (hlow : ∀ blk ∈ blocks, b.filters.length ≤ blk.1 / 2 ^ EXP)
    (blk : Nat × List Bytes) (hblk : blk ∈ blocks) (u : Bytes) (hu : u ∈ blk.2) :
    Good create (buildBlocks create b blocks) (blk.1 / 2 ^ EXP) u := by
  induction blocks generalizing b with
  | nil => cases hblk
  | cons hd rest ih =>
    obtain ⟨o, ks⟩ := hd
    simp only [buildBlocks]
    have hlen : (notify create b o).filters.length = o / 2 ^ EXP :=
      length_notify create b o (hlow (o, ks) (by simp))
    rw [List.pairwise_cons] at hmono
    rcases List.mem_cons.1 hblk with rfl | hrest
    · apply good_buildBlocks
      have := good_foldl_addKey_new create (notify create b o) ks u hu
      rw [hlen] at this
      exact this
    · apply ih _ hmono.2 _ hrest
      intro blk' hblk'
      rw [filters_foldl_addKey, hlen]
      exact Nat.div_le_div_right (hmono.1 blk' hblk')

/-- the builder state that `finalize` serializes -/
def finalBuilder (create : List Bytes → Bytes) (b : Builder) : Builder :=
  if b.keys.isEmpty then b else generate create b

theorem finalize_eq (create : List Bytes → Bytes) (b : Builder) :
    finalize create b =
      (finalBuilder create b).filters.flatten
        ++ ((offsetsOf (finalBuilder create b).filters 0).map (leBytes 4)).flatten
        ++ leBytes 4 (finalBuilder create b).filters.flatten.length ++ [EXP.toUInt8] := rfl

theorem good_final (create : List Bytes → Bytes) (b : Builder) (i : Nat) (u : Bytes)
    (h : Good create b i u) :
    ∃ ks, u ∈ ks ∧ (finalBuilder create b).filters[i]? = some (create ks) := by
  unfold finalBuilder
  cases hk : b.keys with
  | nil =>
    simp only [List.isEmpty_nil, if_true]
    rcases h with ⟨_, hu⟩ | h
    · rw [hk] at hu; cases hu
    · exact h
  | cons k ks =>
    simp only [List.isEmpty_cons, Bool.false_eq_true, if_false]
    have hg := good_generate create b i u h
    rcases hg with ⟨_, hu⟩ | h
    · simp [generate, hk] at hu
    · exact h

theorem exp_lt : EXP < 256 := by
  unfold EXP Rain.Gen.FILTER_RANGE_SIZE_EXPONENT; decide

theorem block_sound (create : List Bytes → Bytes) (may : Bytes → Bytes → Option Bool)
    (hpolicy : ∀ keys key, key ∈ keys → may key (create keys) = some true)
    (hne : ∀ keys, keys ≠ [] → create keys ≠ [])
    (blocks : List (Nat × List Bytes))
    (hmono : blocks.Pairwise (fun a b => a.1 ≤ b.1))
    (hsize : (finalize create (buildBlocks create {} blocks)).length < 2^32)
    (blk : Nat × List Bytes) (hblk : blk ∈ blocks) (u : Bytes) (hu : u ∈ blk.2) :
    ∃ r, parse (finalize create (buildBlocks create {} blocks)) = some r ∧
      keyMayMatch may r blk.1 u = true := by
  have hgood := good_buildBlocks_mem create blocks {} hmono (by intro _ _; simp) blk hblk u hu
  obtain ⟨ks, huks, hf⟩ := good_final create _ _ _ hgood
  rw [finalize_eq] at hsize ⊢
  generalize (finalBuilder create (buildBlocks create {} blocks)).filters = F at hsize hf
  refine ⟨_, parse_filters F EXP exp_lt hsize, ?_⟩
  unfold keyMayMatch
  have hFne : F.isEmpty = false := by
    cases F with
    | nil => simp at hf
    | cons _ _ => rfl
  have hcne : (create ks).isEmpty = false := by
    have := hne ks (List.ne_nil_of_mem huks)
    cases hc : create ks with
    | nil => exact absurd hc this
    | cons _ _ => rfl
  simp only [hFne, Bool.false_eq_true, if_false, hf, hcne, hpolicy ks u huks]

end Rain.FilterBlock
