import Rain.Lemmas.Log
/-
`was_read_cleanly_to_end`: the status-carrying reader `readAllS` returns the same records as
`readAll`; completely written logs are clean, torn logs are not, and appending to ANY file that
reads cleanly is safe.
-/
namespace Rain.Log
open Rain

/-! ### the status-carrying reader computes the same records -/

def RResS.erase : RResS → RRes
  | .eof _ => .eof
  | .record d r b _ => .record d r b

/-- number of trailer bytes skipped at block offset `boff` -/
def skipLen (c : Cfg) (boff : Nat) : Nat := if c.B - boff < H ∧ 0 < c.B - boff then c.B - boff else 0

/-- what is left of the input at end of file once a completely present trailer is consumed
(the `leftover` of `readRecordLoopS`) -/
def leftoverS (c : Cfg) (rest : Bytes) (boff : Nat) : Bytes :=
  if (decide (c.B - boff < H) && decide (0 < c.B - boff) && decide (c.B - boff ≤ rest.length)) = true
  then rest.drop (c.B - boff) else rest

theorem leftoverS_eq (c : Cfg) (rest : Bytes) (boff : Nat) :
    leftoverS c rest boff = if skipLen c boff ≤ rest.length then rest.drop (skipLen c boff) else rest := by
  unfold leftoverS skipLen
  by_cases h : c.B - boff < H ∧ 0 < c.B - boff
  · rw [if_pos h]
    by_cases h2 : c.B - boff ≤ rest.length
    · rw [if_pos h2, if_pos (by simp [h.1, h.2, h2])]
    · rw [if_neg h2, if_neg (by simp [h2])]
  · rw [if_neg h, if_pos (Nat.zero_le _), List.drop_zero, if_neg]
    intro hh
    apply h
    simp only [Bool.and_eq_true, decide_eq_true_eq] at hh
    exact hh.1

theorem leftoverS_nil (c : Cfg) (boff : Nat) : leftoverS c [] boff = [] := by
  rw [leftoverS_eq]; split <;> simp

theorem leftoverS_length (c : Cfg) (rest : Bytes) (boff : Nat) :
    (leftoverS c rest boff).length
      = if skipLen c boff ≤ rest.length then rest.length - skipLen c boff else rest.length := by
  rw [leftoverS_eq]; split <;> simp

theorem isEmpty_eq_false_of_length_pos (l : Bytes) (h : 0 < l.length) : l.isEmpty = false := by
  cases l with
  | nil => simp at h
  | cons a l => rfl

/-- leftover bytes remain unless the input is empty or is exactly the trailer -/
theorem leftoverS_isEmpty_false (c : Cfg) (rest : Bytes) (boff : Nat) (h0 : 0 < rest.length)
    (h1 : rest.length ≠ skipLen c boff) : (leftoverS c rest boff).isEmpty = false := by
  apply isEmpty_eq_false_of_length_pos
  rw [leftoverS_length]; split <;> omega

theorem leftoverS_isEmpty_true (c : Cfg) (rest : Bytes) (boff : Nat)
    (h : (leftoverS c rest boff).isEmpty = true) : rest = [] ∨ (0 < rest.length ∧ rest.length = skipLen c boff) := by
  cases rest with
  | nil => exact Or.inl rfl
  | cons a l =>
    right
    refine ⟨by simp, ?_⟩
    by_cases h1 : (a :: l).length = skipLen c boff
    · exact h1
    · rw [leftoverS_isEmpty_false c _ boff (by simp) h1] at h; simp at h

theorem readRecordLoopS_zero (c : Cfg) (rest : Bytes) (boff : Nat) (acc : Bytes) (frag sk : Bool) :
    readRecordLoopS c 0 rest boff acc frag sk = .eof false := rfl

theorem readRecordLoopS_succ (c : Cfg) (fuel : Nat) (rest : Bytes) (boff : Nat) (acc : Bytes)
    (frag skipped : Bool) :
    readRecordLoopS c (fuel+1) rest boff acc frag skipped =
    match readPhysical c rest boff with
    | .eof => .eof ((leftoverS c rest boff).isEmpty && !frag && !skipped)
    | .bad rest' boff' => readRecordLoopS c fuel rest' boff' [] false true
    | .ok ty data rest' boff' =>
      if ty = TFull then .record data rest' boff' (skipped || frag)
      else if ty = TFirst then readRecordLoopS c fuel rest' boff' data true (skipped || frag)
      else if ty = TMiddle then
        (if frag then readRecordLoopS c fuel rest' boff' (acc ++ data) true skipped
         else readRecordLoopS c fuel rest' boff' [] false true)
      else
        (if frag then .record (acc ++ data) rest' boff' skipped
         else readRecordLoopS c fuel rest' boff' [] false true) := by
  rw [readRecordLoopS]
  rfl

theorem readAllLoopS_succ (c : Cfg) (fuel : Nat) (rest : Bytes) (boff : Nat) (skipped : Bool) :
    readAllLoopS c (fuel+1) rest boff skipped =
    match readRecordLoopS c (rest.length + 1) rest boff [] false skipped with
    | .eof clean => ([], clean)
    | .record d rest' boff' sk =>
      ((d :: (readAllLoopS c fuel rest' boff' sk).1), (readAllLoopS c fuel rest' boff' sk).2) := by
  rw [readAllLoopS]
  rfl

theorem readRecordLoopS_erase (c : Cfg) (fuel : Nat) : ∀ (rest : Bytes) (boff : Nat) (acc : Bytes)
    (frag sk : Bool),
    (readRecordLoopS c fuel rest boff acc frag sk).erase = readRecordLoop c fuel rest boff acc frag := by
  induction fuel with
  | zero => intros; rfl
  | succ fuel ih =>
    intro rest boff acc frag sk
    rw [readRecordLoopS_succ, readRecordLoop_succ]
    cases readPhysical c rest boff with
    | eof => rfl
    | bad r b => exact ih _ _ _ _ _
    | ok ty d r b =>
      simp only
      split
      · rfl
      · split
        · exact ih _ _ _ _ _
        · split
          · split
            · exact ih _ _ _ _ _
            · exact ih _ _ _ _ _
          · split
            · rfl
            · exact ih _ _ _ _ _

theorem readAllLoopS_records (c : Cfg) (fuel : Nat) : ∀ (rest : Bytes) (boff : Nat) (sk : Bool),
    (readAllLoopS c fuel rest boff sk).1 = readAllLoop c fuel rest boff := by
  induction fuel with
  | zero => intros; rfl
  | succ fuel ih =>
    intro rest boff sk
    rw [readAllLoopS_succ, readAllLoop_succ]
    unfold readRecord
    rw [← readRecordLoopS_erase c _ rest boff [] false sk]
    cases readRecordLoopS c (rest.length + 1) rest boff [] false sk with
    | eof cl => rfl
    | record d r b s => simp only [RResS.erase]; rw [ih]

theorem readAllS_records (c : Cfg) (file : Bytes) : (readAllS c file).1 = readAll c file :=
  readAllLoopS_records c _ file 0 false


/-! ### complete logs are clean -/

/-- (A) with status: reading the fragments of one `append` sets no skip flag -/
theorem readRecordLoopS_writes (c : Cfg) (hB : H < c.B) (hB2 : c.B ≤ 65535 + H)
    (hcrc : ∀ d, c.crc d < 2^32) (wf : Nat) :
    ∀ (off : Nat) (data : Bytes) (first : Bool) (rf : Nat) (acc : Bytes) (frag sk : Bool) (tail : Bytes),
    off ≤ c.B → fuelOK c wf off data → (first = true ∨ frag = true) →
    (appendLoop c wf off data first).1.flatten.length < rf →
    readRecordLoopS c rf ((appendLoop c wf off data first).1.flatten ++ tail) (off % c.B) acc frag sk
      = .record (if first then data else acc ++ data) tail ((appendLoop c wf off data first).2 % c.B)
          (if first then (sk || frag) else sk) := by
  induction wf with
  | zero => intro off data first rf acc frag sk tail _ hf; unfold fuelOK at hf; split at hf <;> omega
  | succ wf ih =>
    intro off data first rf acc frag sk tail hoff hf hfirst hrf
    have hsp := offA_space c hB off hoff
    have hH : H = 7 := rfl
    obtain ⟨rf, rfl⟩ : ∃ r, rf = r + 1 := ⟨rf - 1, by omega⟩
    rw [readRecordLoopS_succ]
    by_cases h : data.length ≤ spaceA c off
    · rw [appendLoop_last c wf off data first h]
      simp only [List.flatten_append, List.flatten_cons, List.flatten_nil, List.append_nil,
        List.append_assoc]
      rw [readPhysical_frag c hB hB2 hcrc off hoff _ (by cases first <;> simp [TFull, TLast]) data tail h]
      cases first with
      | true => simp [TFull]
      | false =>
        have : frag = true := by simpa using hfirst
        simp [TFull, TLast, TFirst, TMiddle, this]
    · have h' : spaceA c off < data.length := by omega
      rw [appendLoop_more c wf off data first h'] at hrf ⊢
      simp only [List.flatten_append, List.flatten_cons, List.flatten_nil, List.append_nil,
        List.append_assoc, List.length_append, emit_length] at hrf ⊢
      have hlen : (data.take (spaceA c off)).length = spaceA c off := by
        rw [List.length_take]; omega
      rw [hlen] at hrf
      rw [readPhysical_frag c hB hB2 hcrc off hoff _ (by cases first <;> simp [TFirst, TMiddle]) _ _
        (by omega), hlen]
      have hf' : fuelOK c wf (offA c off + H + spaceA c off) (data.drop (spaceA c off)) := by
        unfold fuelOK at hf ⊢
        rw [hsp, List.length_drop]
        have h0 : offA c c.B = 0 := by unfold offA; simp [hH]
        have : spaceA c c.B ≠ 0 := by unfold spaceA; rw [h0]; omega
        simp only [this, if_false]
        split at hf <;> omega
      have key := fun acc' sk' => ih (offA c off + H + spaceA c off) (data.drop (spaceA c off)) false rf
        acc' true sk' tail (by omega) hf' (Or.inr rfl) (by omega)
      cases first with
      | true =>
        simp only [TFirst, TFull, if_true]
        simp only [show ¬ (1 = 0) by decide, if_false]
        rw [key]
        simp
      | false =>
        have : frag = true := by simpa using hfirst
        simp only [TFirst, TFull, TMiddle, this, Bool.false_eq_true, if_false, if_true]
        simp only [show ¬ (2 = 0) by decide, show ¬ (2 = 1) by decide, if_false]
        rw [key]
        simp

theorem readAllLoopS_nil (c : Cfg) (fuel boff : Nat) :
    readAllLoopS c (fuel+1) [] boff false = ([], true) := by
  rw [readAllLoopS_succ, readRecordLoopS_succ, readPhysical_nil]
  simp only [leftoverS_nil]
  rfl

/-- (D) with status -/
theorem readAllLoopS_writes (c : Cfg) (hB : H < c.B) (hB2 : c.B ≤ 65535 + H) (hcrc : ∀ d, c.crc d < 2^32)
    (recs : List Bytes) : ∀ (off fuel : Nat) (tail : Bytes), off ≤ c.B →
    ((appendAllWrites c off recs).1.flatten ++ tail).length < fuel →
    (readAllLoopS c fuel ((appendAllWrites c off recs).1.flatten ++ tail) (off % c.B) false).2
      = (readAllLoopS c (fuel - recs.length) tail ((appendAllWrites c off recs).2 % c.B) false).2 := by
  induction recs with
  | nil => intro off fuel tail _ _; simp [appendAllWrites_nil]
  | cons r rs ih =>
    intro off fuel tail hoff hf
    have h1 := appendWrites_off c hB off r hoff
    have h2 := appendWrites_length c off r
    have hH : H = 7 := rfl
    rw [appendAllWrites_cons] at hf ⊢
    simp only [List.flatten_append, List.append_assoc, List.length_append] at hf ⊢
    obtain ⟨f, rfl⟩ : ∃ f, fuel = f + 1 := ⟨fuel - 1, by omega⟩
    rw [readAllLoopS_succ]
    have hA := readRecordLoopS_writes c hB hB2 hcrc (appendFuel r) off r true
      (((appendWrites c off r).1.flatten ++
        ((appendAllWrites c (appendWrites c off r).2 rs).1.flatten ++ tail)).length + 1) [] false false
      ((appendAllWrites c (appendWrites c off r).2 rs).1.flatten ++ tail) hoff (fuelOK_appendFuel c off r)
      (Or.inl rfl) (by unfold appendWrites; simp only [List.length_append]; omega)
    unfold appendWrites at hA hf h1 h2 ⊢
    rw [hA]
    simp only [Bool.or_self, if_true]
    have := ih (appendLoop c (appendFuel r) off r true).2 f tail h1.1
      (by simp only [List.length_append]; omega)
    rw [this]
    simp

theorem written_is_clean (c : Cfg) (hB : H < c.B) (hB2 : c.B ≤ 65535 + H) (hcrc : ∀ d, c.crc d < 2^32)
    (recs : List Bytes) : (readAllS c (writeSession c [] recs)).2 = true := by
  rw [writeSession_nil]
  unfold readAllS
  have hlen := appendAllWrites_length c recs 0
  have := readAllLoopS_writes c hB hB2 hcrc recs 0 ((appendAllWrites c 0 recs).1.flatten.length + 1) []
    (Nat.zero_le _) (by simp)
  rw [List.append_nil, Nat.zero_mod] at this
  rw [this]
  obtain ⟨f, hf⟩ : ∃ f, (appendAllWrites c 0 recs).1.flatten.length + 1 - recs.length = f + 1 :=
    ⟨(appendAllWrites c 0 recs).1.flatten.length - recs.length, by omega⟩
  rw [hf, readAllLoopS_nil]


/-! ### torn logs are dirty -/

theorem readRecordLoopS_nonfinal (c : Cfg) (hB : H < c.B) (hB2 : c.B ≤ 65535 + H)
    (hcrc : ∀ d, c.crc d < 2^32) (off : Nat) (hoff : off ≤ c.B) (data : Bytes) (first : Bool)
    (h : spaceA c off < data.length) (rf : Nat) (acc : Bytes) (frag sk : Bool) (Y : Bytes) :
    ∃ acc' frag' sk', (frag' = true ∨ sk' = true) ∧
      readRecordLoopS c (rf+1) ((padL c off).flatten ++
        (emit c (if first then TFirst else TMiddle) (data.take (spaceA c off)) ++ Y)) (off % c.B) acc frag sk
      = readRecordLoopS c rf Y ((offA c off + H + spaceA c off) % c.B) acc' frag' sk' := by
  have hlen : (data.take (spaceA c off)).length = spaceA c off := by
    rw [List.length_take]; omega
  rw [readRecordLoopS_succ, readPhysical_frag c hB hB2 hcrc off hoff _
    (by cases first <;> simp [TFirst, TMiddle]) _ _ (by omega), hlen]
  cases first with
  | true =>
    exact ⟨data.take (spaceA c off), true, (sk || frag), Or.inl rfl, by simp [TFirst, TFull]⟩
  | false =>
    cases frag with
    | true => exact ⟨acc ++ data.take (spaceA c off), true, sk, Or.inl rfl, by simp [TFirst, TFull, TMiddle]⟩
    | false => exact ⟨[], false, true, Or.inr rfl, by simp [TFirst, TFull, TMiddle]⟩

theorem skipLen_pad (c : Cfg) (hB : H < c.B) (off : Nat) (hoff : off ≤ c.B) :
    skipLen c (off % c.B) = (padL c off).flatten.length := by
  have hH : H = 7 := rfl
  rw [padL_flatten_length]
  unfold skipLen
  by_cases h : off = c.B
  · subst h
    rw [Nat.mod_self, Nat.sub_self, Nat.sub_zero, if_neg (by omega), if_pos (by omega)]
  · rw [Nat.mod_eq_of_lt (by omega)]
    by_cases h1 : c.B - off < H
    · rw [if_pos ⟨h1, by omega⟩, if_pos h1]
    · rw [if_neg (fun hh => h1 hh.1), if_neg h1]

/-- (B) with status: a proper prefix of one `append` ends dirty, unless it is empty or exactly the
padding while nothing is pending -/
theorem readRecordLoopS_writes_cut (c : Cfg) (hB : H < c.B) (hB2 : c.B ≤ 65535 + H)
    (hcrc : ∀ d, c.crc d < 2^32) (wf : Nat) :
    ∀ (off : Nat) (data : Bytes) (first : Bool) (rf : Nat) (acc : Bytes) (frag sk : Bool) (m : Nat),
    off ≤ c.B → m < (appendLoop c wf off data first).1.flatten.length →
    ((0 < m ∧ m ≠ (padL c off).flatten.length) ∨ frag = true ∨ sk = true) →
    readRecordLoopS c rf ((appendLoop c wf off data first).1.flatten.take m) (off % c.B) acc frag sk
      = .eof false := by
  induction wf with
  | zero => intro off data first rf acc frag sk m _ hm; simp [appendLoop] at hm
  | succ wf ih =>
    intro off data first rf acc frag sk m hoff hm hdirty
    have hsp := offA_space c hB off hoff
    have hH : H = 7 := rfl
    cases rf with
    | zero => rfl
    | succ rf =>
    -- the flag computed when the physical reader reports end of file on a prefix of length `m`
    have hflag : ∀ (W : Bytes), m ≤ W.length →
        ((leftoverS c (W.take m) (off % c.B)).isEmpty && !frag && !sk) = false := by
      intro W hW
      rcases hdirty with h | h | h
      · have hl : (W.take m).length = m := by rw [List.length_take]; omega
        have : (leftoverS c (W.take m) (off % c.B)).isEmpty = false := by
          apply leftoverS_isEmpty_false
          · omega
          · rw [hl, skipLen_pad c hB off hoff]; exact h.2
        simp [this]
      · simp [h]
      · simp [h]
    by_cases h : data.length ≤ spaceA c off
    · rw [appendLoop_last c wf off data first h] at hm ⊢
      simp only [List.flatten_append, List.flatten_cons, List.flatten_nil, List.append_nil,
        List.length_append, emit_length] at hm ⊢
      rw [readRecordLoopS_succ, readPhysical_frag_cut c hB hB2 off hoff _ data m h hm]
      simp only
      rw [hflag _ (by simp only [List.length_append, emit_length]; omega)]
    · have h' : spaceA c off < data.length := by omega
      have hlen : (data.take (spaceA c off)).length = spaceA c off := by
        rw [List.length_take]; omega
      rw [appendLoop_more c wf off data first h'] at hm ⊢
      simp only [List.flatten_append, List.flatten_cons, List.flatten_nil, List.append_nil,
        List.length_append, emit_length, hlen] at hm ⊢
      by_cases hm1 : m < (padL c off).flatten.length + (H + spaceA c off)
      · rw [List.take_append_of_le_length (by simp only [List.length_append, emit_length, hlen]; omega),
          readRecordLoopS_succ, readPhysical_frag_cut c hB hB2 off hoff _ _ m (by omega) (by omega)]
        simp only
        rw [hflag _ (by simp only [List.length_append, emit_length, hlen]; omega)]
      · rw [List.take_append, List.take_of_length_le (by simp only [List.length_append, emit_length, hlen]; omega),
          List.append_assoc]
        obtain ⟨acc', frag', sk', hd, he⟩ := readRecordLoopS_nonfinal c hB hB2 hcrc off hoff data first h' rf
          acc frag sk
          (List.take (m - ((padL c off).flatten ++
            emit c (if first = true then TFirst else TMiddle) (List.take (spaceA c off) data)).length)
            (appendLoop c wf (offA c off + H + spaceA c off) (List.drop (spaceA c off) data) false).1.flatten)
        rw [he]
        apply ih _ _ _ _ _ _ _ _ (by omega)
        · simp only [List.length_append, emit_length, hlen]
          omega
        · exact Or.inr hd

/-- (T) with status -/
theorem readAllLoopS_cut (c : Cfg) (hB : H < c.B) (hB2 : c.B ≤ 65535 + H) (hcrc : ∀ d, c.crc d < 2^32)
    (recs : List Bytes) : ∀ (off k n fuel : Nat), off ≤ c.B → k < recs.length →
    (appendAllWrites c off (recs.take k)).1.flatten.length < n →
    n ≠ (appendAllWrites c off (recs.take k)).1.flatten.length
          + (padL c (appendAllWrites c off (recs.take k)).2).flatten.length →
    n < (appendAllWrites c off (recs.take (k+1))).1.flatten.length →
    (readAllLoopS c fuel ((appendAllWrites c off recs).1.flatten.take n) (off % c.B) false).2 = false := by
  induction recs with
  | nil => intro off k n fuel _ hk; simp at hk
  | cons r rs ih =>
    intro off k n fuel hoff hk hlo hne hhi
    have h1 := appendWrites_off c hB off r hoff
    have h2 := appendWrites_length c off r
    have hH : H = 7 := rfl
    cases fuel with
    | zero => rfl
    | succ f =>
    rw [readAllLoopS_succ]
    cases k with
    | zero =>
      have hn : n < (appendWrites c off r).1.flatten.length := by
        simpa [appendAllWrites_cons, appendAllWrites_nil] using hhi
      have hn0 : 0 < n := by omega
      have hn1 : n ≠ (padL c off).flatten.length := by
        simpa [appendAllWrites_nil] using hne
      rw [appendAllWrites_cons]
      simp only [List.flatten_append]
      rw [List.take_append_of_le_length (by omega)]
      unfold appendWrites at hn ⊢
      rw [readRecordLoopS_writes_cut c hB hB2 hcrc _ off r true _ [] false false n hoff hn
        (Or.inl ⟨hn0, hn1⟩)]
    | succ k =>
      simp only [List.take_succ_cons, appendAllWrites_cons, List.flatten_append, List.length_append,
        List.length_cons] at hlo hhi hk hne ⊢
      rw [List.take_append, List.take_of_length_le (by omega)]
      have hA := readRecordLoopS_writes c hB hB2 hcrc (appendFuel r) off r true
        (((appendWrites c off r).1.flatten ++ List.take (n - (appendWrites c off r).1.flatten.length)
          (appendAllWrites c (appendWrites c off r).2 rs).1.flatten).length + 1) [] false false
        (List.take (n - (appendWrites c off r).1.flatten.length)
          (appendAllWrites c (appendWrites c off r).2 rs).1.flatten) hoff (fuelOK_appendFuel c off r)
        (Or.inl rfl) (by unfold appendWrites; simp only [List.length_append]; omega)
      unfold appendWrites at hA hlo hhi hne h1 h2 ⊢
      rw [hA]
      simp only [Bool.or_self, if_true]
      exact ih _ k _ f h1.1 (by omega) (by omega) (by omega) (by omega)

/-- length of the zero padding a writer re-opened on a file of `len` bytes would write first -/
def padAfter (c : Cfg) (len : Nat) : Nat := (padL c (openOffset c len)).flatten.length

theorem padAfter_eq (c : Cfg) (hB : H < c.B) (recs : List Bytes) :
    padAfter c (appendAllWrites c 0 recs).1.flatten.length
      = (padL c (appendAllWrites c 0 recs).2).flatten.length := by
  have h0 := appendAllWrites_off c hB recs 0 (Nat.zero_le _)
  rw [Nat.zero_add] at h0
  unfold padAfter openOffset
  rw [h0.2, (offA_self_mod c hB _ h0.1).2]

/-
The statement first asked for,
  `lenAfter k < n → n < lenAfter (k+1) → (readAllS c ((writeSession c [] recs).take n)).2 = false`,
is FALSE for the model (and the implementation) since a completely present trailer is consumed
before asking whether anything is left: `B = 16`, `recs = [5 bytes, 3 bytes]`, `k = 1`, `n = 16`
(`lenAfter 1 = 12`, 4 bytes of padding, `lenAfter 2 = 26`) gives flag `true`
(see the `example` in `Props/C12.lean` and `padding_end_is_clean` below).  The cut at the end of
the padding is the only exception:
-/
/-- a log cut inside record `k+1` — at least one byte of it (padding included) present, not all of
it, and not exactly the complete padding that precedes its first header — is NOT clean -/
theorem torn_is_dirty (c : Cfg) (hB : H < c.B) (hB2 : c.B ≤ 65535 + H) (hcrc : ∀ d, c.crc d < 2^32)
    (recs : List Bytes) (n k : Nat) (hk : k < recs.length)
    (hlo : (writeSession c [] (recs.take k)).length < n)
    (hne : n ≠ (writeSession c [] (recs.take k)).length
      + padAfter c (writeSession c [] (recs.take k)).length)
    (hhi : n < (writeSession c [] (recs.take (k+1))).length) :
    (readAllS c ((writeSession c [] recs).take n)).2 = false := by
  rw [writeSession_nil] at hlo hhi hne ⊢
  rw [padAfter_eq c hB] at hne
  unfold readAllS
  have := readAllLoopS_cut c hB hB2 hcrc recs 0 k n
    (((appendAllWrites c 0 recs).1.flatten.take n).length + 1) (Nat.zero_le _) hk hlo hne hhi
  rwa [Nat.zero_mod] at this

/-- in particular: as soon as one byte of the first header of record `k+1` is present -/
theorem torn_is_dirty_header (c : Cfg) (hB : H < c.B) (hB2 : c.B ≤ 65535 + H) (hcrc : ∀ d, c.crc d < 2^32)
    (recs : List Bytes) (n k : Nat) (hk : k < recs.length)
    (hlo : (writeSession c [] (recs.take k)).length
      + padAfter c (writeSession c [] (recs.take k)).length < n)
    (hhi : n < (writeSession c [] (recs.take (k+1))).length) :
    (readAllS c ((writeSession c [] recs).take n)).2 = false :=
  torn_is_dirty c hB hB2 hcrc recs n k hk (by omega) (by omega) hhi

/-! ### the cut at the end of the padding is clean -/

/-- the bytes of an `append` start with the padding and go on with at least a header -/
theorem appendLoop_take_pad (c : Cfg) (f off : Nat) (data : Bytes) (first : Bool) :
    (appendLoop c (f+1) off data first).1.flatten.take (padL c off).flatten.length = (padL c off).flatten ∧
    (padL c off).flatten.length + H ≤ (appendLoop c (f+1) off data first).1.flatten.length := by
  by_cases h : data.length ≤ spaceA c off
  · rw [appendLoop_last c f off data first h]
    simp only [List.flatten_append, List.length_append, emit_length, List.flatten_cons, List.flatten_nil,
      List.append_nil]
    exact ⟨List.take_left' rfl, by omega⟩
  · rw [appendLoop_more c f off data first (by omega)]
    simp only [List.flatten_append, List.length_append, emit_length, List.flatten_cons, List.flatten_nil,
      List.append_nil, List.append_assoc]
    exact ⟨List.take_left' rfl, by omega⟩

theorem appendWrites_take_pad (c : Cfg) (off : Nat) (data : Bytes) :
    (appendWrites c off data).1.flatten.take (padL c off).flatten.length = (padL c off).flatten ∧
    (padL c off).flatten.length + H ≤ (appendWrites c off data).1.flatten.length :=
  appendLoop_take_pad c (2 * data.length + 1) off data true

/-- input that is exactly the padding reads cleanly -/
theorem readAllLoopS_pad (c : Cfg) (hB : H < c.B) (off : Nat) (hoff : off ≤ c.B) (fuel : Nat) :
    readAllLoopS c (fuel+1) (padL c off).flatten (off % c.B) false = ([], true) := by
  rw [readAllLoopS_succ, readRecordLoopS_succ]
  have := readPhysical_pad c hB off hoff []
  rw [List.append_nil, readPhysical_nil] at this
  rw [this]
  have hl : leftoverS c (padL c off).flatten (off % c.B) = [] := by
    rw [leftoverS_eq, skipLen_pad c hB off hoff, if_pos (Nat.le_refl _), List.drop_length]
  simp only [hl]
  rfl

theorem readAllLoopS_padend (c : Cfg) (hB : H < c.B) (hB2 : c.B ≤ 65535 + H) (hcrc : ∀ d, c.crc d < 2^32)
    (recs : List Bytes) : ∀ (off k fuel : Nat), off ≤ c.B → k < recs.length →
    ((appendAllWrites c off recs).1.flatten.take
      ((appendAllWrites c off (recs.take k)).1.flatten.length
          + (padL c (appendAllWrites c off (recs.take k)).2).flatten.length)).length < fuel →
    (readAllLoopS c fuel ((appendAllWrites c off recs).1.flatten.take
      ((appendAllWrites c off (recs.take k)).1.flatten.length
          + (padL c (appendAllWrites c off (recs.take k)).2).flatten.length)) (off % c.B) false).2 = true := by
  induction recs with
  | nil => intro off k fuel _ hk; simp at hk
  | cons r rs ih =>
    intro off k fuel hoff hk hf
    have h1 := appendWrites_off c hB off r hoff
    have h2 := appendWrites_length c off r
    have hH : H = 7 := rfl
    obtain ⟨f, rfl⟩ : ∃ f, fuel = f + 1 := ⟨fuel - 1, by omega⟩
    cases k with
    | zero =>
      have h3 := appendWrites_take_pad c off r
      simp only [List.take_zero, appendAllWrites_nil, List.flatten_nil, List.length_nil, Nat.zero_add,
        appendAllWrites_cons, List.flatten_append]
      rw [List.take_append_of_le_length (by omega), h3.1, readAllLoopS_pad c hB off hoff]
    | succ k =>
      simp only [List.take_succ_cons, appendAllWrites_cons, List.flatten_append, List.length_append,
        List.length_cons] at hk hf ⊢
      rw [Nat.add_assoc, List.take_append, List.take_of_length_le (by omega)] at hf ⊢
      rw [Nat.add_sub_cancel_left] at hf ⊢
      rw [readAllLoopS_succ]
      have hA := readRecordLoopS_writes c hB hB2 hcrc (appendFuel r) off r true
      unfold appendWrites at hA h1 h2 hf ⊢
      rw [hA _ _ _ _ _ hoff (fuelOK_appendFuel c off r) (Or.inl rfl)
        (by simp only [List.length_append]; omega)]
      simp only [Bool.or_self, if_true]
      apply ih _ k f h1.1 (by omega)
      simp only [List.length_append] at hf
      omega

/-- a log cut exactly after the complete padding that precedes record `k+1` reads cleanly -/
theorem padding_end_is_clean (c : Cfg) (hB : H < c.B) (hB2 : c.B ≤ 65535 + H) (hcrc : ∀ d, c.crc d < 2^32)
    (recs : List Bytes) (k : Nat) (hk : k < recs.length) :
    (readAllS c ((writeSession c [] recs).take ((writeSession c [] (recs.take k)).length
      + padAfter c (writeSession c [] (recs.take k)).length))).2 = true := by
  rw [writeSession_nil, writeSession_nil, padAfter_eq c hB]
  unfold readAllS
  have := readAllLoopS_padend c hB hB2 hcrc recs 0 k _ (Nat.zero_le _) hk (Nat.lt_succ_self _)
  rwa [Nat.zero_mod] at this

/-- that cut lies strictly before the end of record `k+1` -/
theorem padding_end_lt (c : Cfg) (hB : H < c.B) (recs : List Bytes) (k : Nat) (hk : k < recs.length) :
    (writeSession c [] (recs.take k)).length + padAfter c (writeSession c [] (recs.take k)).length
      < (writeSession c [] (recs.take (k+1))).length := by
  have hH : H = 7 := rfl
  rw [writeSession_nil, writeSession_nil, padAfter_eq c hB, List.take_succ_eq_append_getElem hk,
    appendAllWrites_append, appendAllWrites_cons, appendAllWrites_nil]
  have := (appendWrites_take_pad c (appendAllWrites c 0 (recs.take k)).2 recs[k]).2
  simp only [List.flatten_append, List.length_append, List.append_nil]
  omega

/-! ### the physical reader on arbitrary bytes -/

/-- `readPhysical` after the trailer has been dealt with -/
def readNoSkip (c : Cfg) (rest1 : Bytes) (boff1 : Nat) : PRes :=
  if rest1.length < H then .eof else
  let hdr := rest1.take H
  let len := leVal ((hdr.drop 4).take 2)
  let body := rest1.drop H
  if body.length < len then .eof else
  let data := body.take len
  let rest2 := body.drop len
  let ty := (hdr.getD 6 0).toNat
  let boff2 := (boff1 + H + len) % c.B
  if 3 < ty then .bad rest2 boff2
  else if unmaskCrc (leVal (hdr.take 4)) ≠ c.crc data then .bad rest2 boff2
  else .ok ty data rest2 boff2

/-- the type and checksum tests of `readPhysical` -/
def classify (c : Cfg) (hdr data rest2 : Bytes) (boff2 : Nat) : PRes :=
  if 3 < (hdr.getD 6 0).toNat then .bad rest2 boff2
  else if unmaskCrc (leVal (hdr.take 4)) ≠ c.crc data then .bad rest2 boff2
  else .ok (hdr.getD 6 0).toNat data rest2 boff2

theorem classify_cases (c : Cfg) (hdr data rest2 : Bytes) (boff2 : Nat) :
    classify c hdr data rest2 boff2 = .bad rest2 boff2 ∨
    classify c hdr data rest2 boff2 = .ok (hdr.getD 6 0).toNat data rest2 boff2 := by
  unfold classify
  split
  · exact Or.inl rfl
  · split
    · exact Or.inl rfl
    · exact Or.inr rfl

theorem readNoSkip_eq (c : Cfg) (r : Bytes) (b : Nat) :
    readNoSkip c r b =
      if r.length < H then .eof else
      if (r.drop H).length < leVal (((r.take H).drop 4).take 2) then .eof else
      classify c (r.take H) ((r.drop H).take (leVal (((r.take H).drop 4).take 2)))
        ((r.drop H).drop (leVal (((r.take H).drop 4).take 2)))
        ((b + H + leVal (((r.take H).drop 4).take 2)) % c.B) := rfl

theorem readPhysical_eq' (c : Cfg) (rest : Bytes) (boff : Nat) :
    readPhysical c rest boff =
      if ((decide (c.B - boff < H) && decide (0 < c.B - boff)) && decide (rest.length < c.B - boff)) = true
      then .eof
      else readNoSkip c
        (if (decide (c.B - boff < H) && decide (0 < c.B - boff)) = true then rest.drop (c.B - boff) else rest)
        (if (decide (c.B - boff < H) && decide (0 < c.B - boff)) = true then 0 else boff) := rfl

theorem readPhysical_eq (c : Cfg) (rest : Bytes) (boff : Nat) (hb : boff < c.B) :
    readPhysical c rest boff =
      if rest.length < skipLen c boff then .eof
      else readNoSkip c (rest.drop (skipLen c boff)) ((boff + skipLen c boff) % c.B) := by
  rw [readPhysical_eq']
  unfold skipLen
  by_cases h : c.B - boff < H ∧ 0 < c.B - boff
  · have hs : (decide (c.B - boff < H) && decide (0 < c.B - boff)) = true := by simpa using h
    have hm : (boff + (c.B - boff)) % c.B = 0 := by
      have : boff + (c.B - boff) = c.B := by omega
      rw [this, Nat.mod_self]
    rw [if_pos h, hm]
    simp only [hs, Bool.true_and, decide_eq_true_eq, if_true]
  · have hs : (decide (c.B - boff < H) && decide (0 < c.B - boff)) = false := by
      rw [Bool.eq_false_iff]; intro hh; exact h (by simpa using hh)
    rw [if_neg h]
    simp only [hs, Bool.false_and, Bool.false_eq_true, if_false, Nat.not_lt_zero, List.drop_zero,
      Nat.add_zero, Nat.mod_eq_of_lt hb]

/-- the same result with `X` appended to the unread bytes -/
def PRes.app : PRes → Bytes → PRes
  | .eof, _ => .eof
  | .bad r b, X => .bad (r ++ X) b
  | .ok ty d r b, X => .ok ty d (r ++ X) b

/-- the result consumed `k` bytes starting at block offset `b` -/
def PRes.consumed (B : Nat) (n b : Nat) : PRes → Prop
  | .eof => True
  | .bad r b' => r.length < n ∧ b' = (b + (n - r.length)) % B
  | .ok _ _ r b' => r.length < n ∧ b' = (b + (n - r.length)) % B

theorem readNoSkip_app (c : Cfg) (r : Bytes) (b : Nat) (X : Bytes) (h : readNoSkip c r b ≠ .eof) :
    readNoSkip c (r ++ X) b = (readNoSkip c r b).app X := by
  rw [readNoSkip_eq] at h ⊢
  rw [readNoSkip_eq]
  by_cases h1 : r.length < H
  · rw [if_pos h1] at h; exact absurd rfl h
  · rw [if_neg h1] at h ⊢
    have h1' : ¬ ((r ++ X).length < H) := by rw [List.length_append]; omega
    have ht : (r ++ X).take H = r.take H := List.take_append_of_le_length (by omega)
    have hd : (r ++ X).drop H = r.drop H ++ X := List.drop_append_of_le_length (by omega)
    rw [if_neg h1', ht, hd]
    by_cases h2 : (r.drop H).length < leVal (((r.take H).drop 4).take 2)
    · rw [if_pos h2] at h; exact absurd rfl h
    · have h2' : ¬ ((r.drop H ++ X).length < leVal (((r.take H).drop 4).take 2)) := by
        rw [List.length_append]; omega
      have ht2 : (r.drop H ++ X).take (leVal (((r.take H).drop 4).take 2))
          = (r.drop H).take (leVal (((r.take H).drop 4).take 2)) :=
        List.take_append_of_le_length (by omega)
      have hd2 : (r.drop H ++ X).drop (leVal (((r.take H).drop 4).take 2))
          = (r.drop H).drop (leVal (((r.take H).drop 4).take 2)) ++ X :=
        List.drop_append_of_le_length (by omega)
      rw [if_neg h2, if_neg h2', ht2, hd2]
      generalize (r.drop H).drop (leVal (((r.take H).drop 4).take 2)) = r2
      generalize (r.drop H).take (leVal (((r.take H).drop 4).take 2)) = d
      generalize (b + H + leVal (((r.take H).drop 4).take 2)) % c.B = b2
      generalize r.take H = hdr
      unfold classify
      split
      · rfl
      · split <;> rfl

theorem readNoSkip_consumed (c : Cfg) (r : Bytes) (b : Nat) :
    (readNoSkip c r b).consumed c.B r.length b := by
  have hH : H = 7 := rfl
  rw [readNoSkip_eq]
  by_cases h1 : r.length < H
  · rw [if_pos h1]; trivial
  · rw [if_neg h1]
    by_cases h2 : (r.drop H).length < leVal (((r.take H).drop 4).take 2)
    · rw [if_pos h2]; trivial
    · rw [if_neg h2]
      have hl : ((r.drop H).drop (leVal (((r.take H).drop 4).take 2))).length < r.length ∧
          r.length - ((r.drop H).drop (leVal (((r.take H).drop 4).take 2))).length
            = H + leVal (((r.take H).drop 4).take 2) := by
        simp only [List.length_drop] at h2 ⊢
        omega
      have he : (b + H + leVal (((r.take H).drop 4).take 2)) % c.B
          = (b + (r.length - ((r.drop H).drop (leVal (((r.take H).drop 4).take 2))).length)) % c.B := by
        rw [hl.2, Nat.add_assoc]
      rcases classify_cases c (r.take H) ((r.drop H).take (leVal (((r.take H).drop 4).take 2)))
        ((r.drop H).drop (leVal (((r.take H).drop 4).take 2)))
        ((b + H + leVal (((r.take H).drop 4).take 2)) % c.B) with hc | hc
      · rw [hc]; exact ⟨hl.1, he⟩
      · rw [hc]; exact ⟨hl.1, he⟩

theorem skipLen_lt (c : Cfg) (boff : Nat) : skipLen c boff < H := by
  unfold skipLen; split
  · rename_i h; exact h.1
  · decide

/-- appending bytes does not change what the physical reader does, unless it was at end of file -/
theorem readPhysical_app (c : Cfg) (rest : Bytes) (boff : Nat) (hb : boff < c.B) (X : Bytes)
    (h : readPhysical c rest boff ≠ .eof) :
    readPhysical c (rest ++ X) boff = (readPhysical c rest boff).app X := by
  rw [readPhysical_eq c rest boff hb] at h ⊢
  rw [readPhysical_eq c (rest ++ X) boff hb]
  by_cases h1 : rest.length < skipLen c boff
  · simp [h1] at h
  · simp only [h1, if_false] at h ⊢
    have h1' : ¬ ((rest ++ X).length < skipLen c boff) := by rw [List.length_append]; omega
    rw [if_neg h1', List.drop_append_of_le_length (by omega), readNoSkip_app c _ _ X h]

theorem readPhysical_consumed (c : Cfg) (rest : Bytes) (boff : Nat) (hb : boff < c.B) :
    (readPhysical c rest boff).consumed c.B rest.length boff := by
  rw [readPhysical_eq c _ _ hb]
  by_cases h1 : rest.length < skipLen c boff
  · simp [h1, PRes.consumed]
  · simp only [h1, if_false]
    have := readNoSkip_consumed c (rest.drop (skipLen c boff)) ((boff + skipLen c boff) % c.B)
    have hmod : ∀ r : Bytes, r.length < (rest.drop (skipLen c boff)).length →
        ((boff + skipLen c boff) % c.B + ((rest.drop (skipLen c boff)).length - r.length)) % c.B
          = (boff + (rest.length - r.length)) % c.B := by
      intro r hr
      rw [List.length_drop] at hr ⊢
      rw [Nat.mod_add_mod]
      congr 1
      omega
    cases hres : readNoSkip c (rest.drop (skipLen c boff)) ((boff + skipLen c boff) % c.B) with
    | eof => trivial
    | bad r b' =>
      rw [hres] at this
      obtain ⟨h2, h3⟩ := this
      refine ⟨by rw [List.length_drop] at h2; omega, ?_⟩
      rw [h3, hmod r h2]
    | ok ty d r b' =>
      rw [hres] at this
      obtain ⟨h2, h3⟩ := this
      refine ⟨by rw [List.length_drop] at h2; omega, ?_⟩
      rw [h3, hmod r h2]

/-! ### the record reader on arbitrary bytes, with bytes appended -/

/-- one iteration of both record readers when the physical reader finds something: either both
return the same record, or both continue in the same state; the plain reader does so also when
bytes are appended to the input -/
theorem readRecordLoop_step (c : Cfg) (rest : Bytes) (boff : Nat) (acc : Bytes) (frag sk : Bool)
    (hb : boff < c.B) (hp : readPhysical c rest boff ≠ .eof) :
    (∃ d r1 b1 sk', r1.length < rest.length ∧ b1 = (boff + (rest.length - r1.length)) % c.B ∧
      (∀ fuel, readRecordLoopS c (fuel+1) rest boff acc frag sk = .record d r1 b1 sk') ∧
      (∀ X f', readRecordLoop c (f'+1) (rest ++ X) boff acc frag = .record d (r1 ++ X) b1))
    ∨ (∃ r1 b1 acc1 frag1 sk1, r1.length < rest.length ∧ b1 = (boff + (rest.length - r1.length)) % c.B ∧
      (∀ fuel, readRecordLoopS c (fuel+1) rest boff acc frag sk
        = readRecordLoopS c fuel r1 b1 acc1 frag1 sk1) ∧
      (∀ X f', readRecordLoop c (f'+1) (rest ++ X) boff acc frag
        = readRecordLoop c f' (r1 ++ X) b1 acc1 frag1)) := by
  have hcons := readPhysical_consumed c rest boff hb
  have happ := fun X => readPhysical_app c rest boff hb X hp
  cases hres : readPhysical c rest boff with
  | eof => exact absurd hres hp
  | bad r1 b1 =>
    rw [hres] at hcons
    right
    refine ⟨r1, b1, [], false, true, hcons.1, hcons.2, ?_, ?_⟩
    · intro fuel; rw [readRecordLoopS_succ, hres]
    · intro X f'; rw [readRecordLoop_succ, happ X, hres]; rfl
  | ok ty d r1 b1 =>
    rw [hres] at hcons
    by_cases h0 : ty = TFull
    · left
      refine ⟨d, r1, b1, (sk || frag), hcons.1, hcons.2, ?_, ?_⟩
      · intro fuel; rw [readRecordLoopS_succ, hres]; simp only []; rw [if_pos h0]
      · intro X f'; rw [readRecordLoop_succ, happ X, hres]; simp only [PRes.app]; rw [if_pos h0]
    · by_cases h1 : ty = TFirst
      · right
        refine ⟨r1, b1, d, true, (sk || frag), hcons.1, hcons.2, ?_, ?_⟩
        · intro fuel; rw [readRecordLoopS_succ, hres]; simp only []; rw [if_neg h0, if_pos h1]
        · intro X f'; rw [readRecordLoop_succ, happ X, hres]; simp only [PRes.app]; rw [if_neg h0, if_pos h1]
      · by_cases h2 : ty = TMiddle
        · right
          cases frag with
          | true =>
            refine ⟨r1, b1, acc ++ d, true, sk, hcons.1, hcons.2, ?_, ?_⟩
            · intro fuel; rw [readRecordLoopS_succ, hres]; simp only []
              rw [if_neg h0, if_neg h1, if_pos h2, if_pos trivial]
            · intro X f'; rw [readRecordLoop_succ, happ X, hres]; simp only [PRes.app]
              rw [if_neg h0, if_neg h1, if_pos h2, if_pos trivial]
          | false =>
            refine ⟨r1, b1, [], false, true, hcons.1, hcons.2, ?_, ?_⟩
            · intro fuel; rw [readRecordLoopS_succ, hres]; simp only []
              rw [if_neg h0, if_neg h1, if_pos h2, if_neg Bool.false_ne_true]
            · intro X f'; rw [readRecordLoop_succ, happ X, hres]; simp only [PRes.app]
              rw [if_neg h0, if_neg h1, if_pos h2, if_neg Bool.false_ne_true]
        · cases frag with
          | true =>
            left
            refine ⟨acc ++ d, r1, b1, sk, hcons.1, hcons.2, ?_, ?_⟩
            · intro fuel; rw [readRecordLoopS_succ, hres]; simp only []
              rw [if_neg h0, if_neg h1, if_neg h2, if_pos trivial]
            · intro X f'; rw [readRecordLoop_succ, happ X, hres]; simp only [PRes.app]
              rw [if_neg h0, if_neg h1, if_neg h2, if_pos trivial]
          | false =>
            right
            refine ⟨r1, b1, [], false, true, hcons.1, hcons.2, ?_, ?_⟩
            · intro fuel; rw [readRecordLoopS_succ, hres]; simp only []
              rw [if_neg h0, if_neg h1, if_neg h2, if_neg Bool.false_ne_true]
            · intro X f'; rw [readRecordLoop_succ, happ X, hres]; simp only [PRes.app]
              rw [if_neg h0, if_neg h1, if_neg h2, if_neg Bool.false_ne_true]

theorem mod_chain (B boff n k1 k2 : Nat) (h1 : k1 < n) (h2 : k2 < k1) :
    ((boff + (n - k1)) % B + (k1 - k2)) % B = (boff + (n - k2)) % B := by
  rw [Nat.mod_add_mod]; congr 1; omega

/-- a record found by the status reader is found by the plain reader with any bytes appended -/
theorem readRecordLoopS_record_app (c : Cfg) (fuel : Nat) :
    ∀ (rest : Bytes) (boff : Nat) (acc : Bytes) (frag sk : Bool) (d rest' : Bytes) (boff' : Nat) (sk' : Bool),
    boff < c.B → readRecordLoopS c fuel rest boff acc frag sk = .record d rest' boff' sk' →
    rest'.length < rest.length ∧ boff' = (boff + (rest.length - rest'.length)) % c.B ∧
    ∀ X fuel', fuel ≤ fuel' → readRecordLoop c fuel' (rest ++ X) boff acc frag = .record d (rest' ++ X) boff' := by
  induction fuel with
  | zero => intro rest boff acc frag sk d rest' boff' sk' _ h; simp [readRecordLoopS] at h
  | succ fuel ih =>
    intro rest boff acc frag sk d rest' boff' sk' hb h
    by_cases hp : readPhysical c rest boff = .eof
    · rw [readRecordLoopS_succ, hp] at h; simp at h
    · rcases readRecordLoop_step c rest boff acc frag sk hb hp with
        ⟨d1, r1, b1, sk1, hl, hbo, hS, hP⟩ | ⟨r1, b1, acc1, frag1, sk1, hl, hbo, hS, hP⟩
      · rw [hS] at h
        injection h with e1 e2 e3 e4
        subst e1 e2 e3
        refine ⟨hl, hbo, ?_⟩
        intro X fuel' hf
        obtain ⟨f', rfl⟩ : ∃ f', fuel' = f' + 1 := ⟨fuel' - 1, by omega⟩
        exact hP X f'
      · rw [hS] at h
        have hb1 : b1 < c.B := by rw [hbo]; exact Nat.mod_lt _ (by omega)
        obtain ⟨i1, i2, i3⟩ := ih r1 b1 acc1 frag1 sk1 d rest' boff' sk' hb1 h
        refine ⟨by omega, ?_, ?_⟩
        · rw [i2, hbo, mod_chain _ _ _ _ _ hl i1]
        · intro X fuel' hf
          obtain ⟨f', rfl⟩ : ∃ f', fuel' = f' + 1 := ⟨fuel' - 1, by omega⟩
          rw [hP X f', i3 X f' (by omega)]

/-- input that is exactly a trailer, followed by `X`: the reader skips it and reads `X` at offset 0 -/
theorem readPhysical_trailer (c : Cfg) (hB : H < c.B) (rest X : Bytes) (boff : Nat) (hb : boff < c.B)
    (h0 : 0 < rest.length) (hl : rest.length = skipLen c boff) :
    readPhysical c (rest ++ X) boff = readPhysical c X ((boff + rest.length) % c.B) := by
  have hH : H = 7 := rfl
  have hs : skipLen c boff = c.B - boff := by
    unfold skipLen at hl ⊢
    split
    · rfl
    · rename_i h; rw [if_neg h] at hl; omega
  have hz : (boff + rest.length) % c.B = 0 := by
    have : boff + rest.length = c.B := by omega
    rw [this, Nat.mod_self]
  have hs0 : skipLen c 0 = 0 := by
    unfold skipLen; rw [if_neg]; omega
  rw [hz, readPhysical_eq c _ boff hb, readPhysical_eq c X 0 (by omega), hs0, ← hl,
    if_neg (by rw [List.length_append]; omega), List.drop_left' rfl, hz]
  simp

/-- a clean end of file: with bytes appended, the plain reader arrives at them, not inside a
fragmented record, at block offset (bytes consumed) mod `B` -/
theorem readRecordLoopS_clean_app (c : Cfg) (hB : H < c.B) (fuel : Nat) :
    ∀ (rest : Bytes) (boff : Nat) (acc : Bytes) (frag sk : Bool),
    boff < c.B → readRecordLoopS c fuel rest boff acc frag sk = .eof true →
    ∀ X fuel', ∃ acc' fuel'', fuel' ≤ fuel'' + rest.length ∧
      readRecordLoop c fuel' (rest ++ X) boff acc frag
        = readRecordLoop c fuel'' X ((boff + rest.length) % c.B) acc' false := by
  induction fuel with
  | zero => intro rest boff acc frag sk _ h; simp [readRecordLoopS] at h
  | succ fuel ih =>
    intro rest boff acc frag sk hb h X fuel'
    by_cases hp : readPhysical c rest boff = .eof
    · rw [readRecordLoopS_succ, hp] at h
      simp only [RResS.eof.injEq, Bool.and_eq_true, Bool.not_eq_true', List.isEmpty_iff] at h
      obtain ⟨⟨h1, h2⟩, _⟩ := h
      subst h2
      rcases leftoverS_isEmpty_true c rest boff (by rw [h1]; rfl) with h3 | ⟨h3, h4⟩
      · subst h3
        refine ⟨acc, fuel', by omega, ?_⟩
        simp [Nat.mod_eq_of_lt hb]
      · refine ⟨acc, fuel', by omega, ?_⟩
        cases fuel' with
        | zero => rfl
        | succ f' =>
          rw [readRecordLoop_succ, readRecordLoop_succ, readPhysical_trailer c hB rest X boff hb h3 h4]
    · rcases readRecordLoop_step c rest boff acc frag sk hb hp with
        ⟨d1, r1, b1, sk1, hl, hbo, hS, hP⟩ | ⟨r1, b1, acc1, frag1, sk1, hl, hbo, hS, hP⟩
      · rw [hS] at h; simp at h
      · rw [hS] at h
        have hb1 : b1 < c.B := by rw [hbo]; exact Nat.mod_lt _ (by omega)
        cases fuel' with
        | zero => exact ⟨acc, 0, by omega, rfl⟩
        | succ f' =>
          obtain ⟨acc', fuel'', i1, i2⟩ := ih r1 b1 acc1 frag1 sk1 hb1 h X f'
          refine ⟨acc', fuel'', by omega, ?_⟩
          rw [hP X f', i2, hbo]
          have := mod_chain c.B boff rest.length r1.length 0 hl
          by_cases hr : r1.length = 0
          · rw [hr]; simp
          · have := this (by omega)
            simp only [Nat.sub_zero] at this
            rw [this]


/-- **(M)** a clean file followed by the writes of a non-empty session started at the file's end -/
theorem readAllLoop_clean_append (c : Cfg) (hB : H < c.B) (hB2 : c.B ≤ 65535 + H)
    (hcrc : ∀ d, c.crc d < 2^32) (r : Bytes) (rs : List Bytes) (fuel : Nat) :
    ∀ (rest : Bytes) (boff : Nat) (sk : Bool), boff < c.B →
    (readAllLoopS c fuel rest boff sk).2 = true →
    ∀ fuel', (rest ++ (appendAllWrites c ((boff + rest.length) % c.B) (r :: rs)).1.flatten).length < fuel' →
    readAllLoop c fuel' (rest ++ (appendAllWrites c ((boff + rest.length) % c.B) (r :: rs)).1.flatten) boff
      = (readAllLoopS c fuel rest boff sk).1 ++ r :: rs := by
  induction fuel with
  | zero => intro rest boff sk _ h; simp [readAllLoopS] at h
  | succ fuel ih =>
    intro rest boff sk hb h fuel' hf
    have hH : H = 7 := rfl
    obtain ⟨f', rfl⟩ : ∃ f', fuel' = f' + 1 := ⟨fuel' - 1, by omega⟩
    rw [readAllLoopS_succ] at h ⊢
    rw [readAllLoop_succ]
    unfold readRecord
    cases hres : readRecordLoopS c (rest.length + 1) rest boff [] false sk with
    | eof clean =>
      rw [hres] at h
      simp only at h
      subst h
      have ho : (boff + rest.length) % c.B ≤ c.B := Nat.le_of_lt (Nat.mod_lt _ (by omega))
      generalize ho' : (boff + rest.length) % c.B = o at *
      have h1 := appendWrites_off c hB o r ho
      have h2 := appendWrites_length c o r
      rw [appendAllWrites_cons] at hf ⊢
      simp only [List.flatten_append, List.length_append] at hf ⊢
      obtain ⟨acc', fuel'', i1, i2⟩ := readRecordLoopS_clean_app c hB _ rest boff [] false sk hb hres
        ((appendWrites c o r).1.flatten ++ (appendAllWrites c (appendWrites c o r).2 rs).1.flatten)
        (rest.length + ((appendWrites c o r).1.flatten.length +
          (appendAllWrites c (appendWrites c o r).2 rs).1.flatten.length) + 1)
      rw [ho'] at i2
      rw [i2]
      have hA := readRecordLoop_writes c hB hB2 hcrc (appendFuel r) o r true fuel'' acc' false
        (appendAllWrites c (appendWrites c o r).2 rs).1.flatten ho
        (fuelOK_appendFuel c _ r) (Or.inl rfl) (by unfold appendWrites at i1; omega)
      have hom : o % c.B = o := by rw [← ho', Nat.mod_mod]
      rw [hom] at hA
      unfold appendWrites at hA h1 h2 hf ⊢
      rw [hA]
      simp only [if_true, List.nil_append, List.cons.injEq, true_and]
      have hD := readAllLoop_writes c hB hB2 hcrc rs (appendLoop c (appendFuel r) o r true).2 f' [] h1.1
        (by simp only [List.append_nil]; omega)
      rw [List.append_nil] at hD
      rw [hD, readAllLoop_nil, List.append_nil]
    | record d rest' boff' sk' =>
      rw [hres] at h
      simp only at h ⊢
      obtain ⟨i1, i2, i3⟩ := readRecordLoopS_record_app c _ rest boff [] false sk d rest' boff' sk' hb hres
      have hb' : boff' < c.B := by rw [i2]; exact Nat.mod_lt _ (by omega)
      have hmod : (boff' + rest'.length) % c.B = (boff + rest.length) % c.B := by
        rw [i2, Nat.mod_add_mod]; congr 1; omega
      rw [i3 _ _ (by simp only [List.length_append]; omega)]
      simp only [List.cons_append, List.cons.injEq, true_and]
      rw [← hmod]
      apply ih rest' boff' sk' hb' h f'
      rw [hmod]
      simp only [List.length_append] at hf ⊢
      omega

theorem clean_append (c : Cfg) (hB : H < c.B) (hB2 : c.B ≤ 65535 + H) (hcrc : ∀ d, c.crc d < 2^32)
    (file : Bytes) (hclean : (readAllS c file).2 = true) (rs : List Bytes) :
    readAll c (writeSession c file rs) = readAll c file ++ rs := by
  cases rs with
  | nil => simp [writeSession, appendAllWrites_nil]
  | cons r rs =>
    have hH : H = 7 := rfl
    unfold readAllS at hclean
    have := readAllLoop_clean_append c hB hB2 hcrc r rs _ file 0 false (by omega) hclean
    rw [Nat.zero_add] at this
    unfold writeSession openOffset readAll
    rw [this _ (Nat.lt_succ_self _), readAllLoopS_records]

end Rain.Log
