import Rain.Lemmas.BuilderLsm
/-
Whole histories: the manifest of a history of the LSM model, replayed by ONE builder on the
starting version (what recovery does), gives the levels the running instance ends with.
-/
namespace Rain.Builder.Lemmas
open Rain Rain.Lsm Rain.Lsm.Lemmas Rain.Builder

/-- the builder sorts the base, so two bases with the same files per level give the same result -/
theorem applyRaw_congr {b : Builder} {L L' : Levels} (ha : Agree L L')
    (h1 : ∀ j, ((lv L j).map (fun f => (j, f.num)) ++ b.added.map pairOf).Nodup)
    (h2 : ∀ j, ((lv L' j).map (fun f => (j, f.num)) ++ b.added.map pairOf).Nodup) :
    applyRaw b L = applyRaw b L' := by
  apply levels_ext
  · simp [applyRaw_length, ha.1]
  · intro j hj
    rw [applyRaw_length] at hj
    rw [lv_applyRaw_lt _ _ hj, lv_applyRaw_lt _ _ (by rw [← ha.1]; exact hj)]
    exact eq_of_sorted_of_mem (applyLevel_sorted ..) (applyLevel_sorted ..)
      (applyLevel_nodup (h1 j)) (applyLevel_nodup (h2 j))
      (mem_applyLevel_congr (fun f => (ha.2.1 j).mem_iff))

theorem applyEdits_one_congr {e : Edit} {L L' : Levels} (ha : Agree L L')
    (h1 : Fresh L [e]) (h2 : Fresh L' [e]) : applyEdits L [e] = applyEdits L' [e] := by
  unfold applyEdits
  apply applyTo_congr
  simp only [List.foldl_cons, List.foldl_nil]
  apply applyRaw_congr ha
  · intro j
    exact (FreshL.accumulate (b := empty) (Fresh.level h1 j)).2.base_builder
  · intro j
    exact (FreshL.accumulate (b := empty) (Fresh.level h2 j)).2.base_builder

/-- an action that writes an edit: the builder follows the LSM model -/
theorem step_agree {s s' : State} {a : Action} {e : Edit} (h : InvP s) (hs : step s a = some s')
    (he : editOf s a = some e) :
    Fresh s.levels [e] ∧ ∃ r, applyEdits s.levels [e] = some r ∧ Agree r s'.levels := by
  cases a with
  | write ops => simp [editOf] at he
  | rotate => simp [editOf] at he
  | flush num lvl =>
    simp only [editOf, Option.some.injEq] at he
    subst he
    exact flush_agree h hs
  | compact c =>
    simp only [editOf, Option.some.injEq] at he
    subst he
    exact compact_agree h hs
  | trivialMove num lvl =>
    simp only [editOf] at he
    split at he
    · rename_i f hp
      simp only [Option.some.injEq] at he
      subst he
      exact move_agree h hs hp
    · cases he

/-- an action that writes no edit leaves the levels alone -/
theorem step_levels_of_none {s s' : State} {a : Action} (hs : step s a = some s')
    (he : editOf s a = none) : s'.levels = s.levels := by
  cases a with
  | write ops =>
    simp only [step, Option.some.injEq] at hs
    subst hs; rfl
  | rotate =>
    simp only [step, stepRotate] at hs
    split at hs
    · cases hs
    · simp only [Option.some.injEq] at hs
      subst hs; rfl
  | flush num lvl => simp [editOf] at he
  | compact c => simp [editOf] at he
  | trivialMove num lvl =>
    obtain ⟨f, hp, _⟩ := move_cases (show stepTrivialMove s num lvl = some s' from hs)
    simp only [editOf] at he
    have hp' : pick (s.levels.getD lvl []) [num] = [f] := hp
    rw [hp'] at he
    cases he

theorem agree_refl_of_inv {s : State} {b0 : Levels} (h : InvP s) (ha : Agree b0 s.levels)
    (hf : Fresh b0 []) : ∃ r, applyEdits b0 [] = some r ∧ Agree r s.levels := by
  have e0 : applyEdits b0 [] = applyEdits b0 [{ deleted := [], added := [] }] := rfl
  rw [e0]
  apply agree_of_spec ha.1.symm _ h.numsL h.lvls h.files
  · intro j g _
    have : g ∈ lv b0 j ↔ g ∈ lv s.levels j := (ha.2.1 j).mem_iff
    simp [this]
  · simpa [Fresh, usedPairs, Edit.addedPairs] using hf

theorem history_agree (as : List Action) : ∀ (s s' : State) (b0 : Levels), InvP s →
    run s as = some s' → Agree b0 s.levels → Fresh b0 (editsOf s as) →
    ∃ r, applyEdits b0 (editsOf s as) = some r ∧ Agree r s'.levels := by
  induction as with
  | nil =>
    intro s s' b0 h hr ha hf
    simp only [run, Option.some.injEq] at hr
    subst hr
    exact agree_refl_of_inv h ha hf
  | cons a rest ih =>
    intro s s' b0 h hr ha hf
    simp only [run] at hr
    split at hr
    · rename_i s1 hs
      have h1 : InvP s1 := step_inv' h hs
      simp only [editsOf, hs] at hf ⊢
      cases he : editOf s a with
      | none =>
        simp only [he, Option.toList_none, List.nil_append] at hf ⊢
        exact ih s1 s' b0 h1 hr (by rw [step_levels_of_none hs he]; exact ha) hf
      | some e =>
        simp only [he, Option.toList_some] at hf ⊢
        obtain ⟨hfs, r1, hr1, ha1⟩ := step_agree h hs he
        have hfb : Fresh b0 [e] := Fresh.prefix hf
        have hb : applyEdits b0 [e] = some r1 := by
          rw [applyEdits_one_congr ha hfb hfs]; exact hr1
        have hr1' : r1 = applyRaw ([e].foldl accumulate empty) b0 := applyTo_eq_some hb
        have hf1 : Fresh r1 (editsOf s1 rest) := by rw [hr1']; exact Fresh.step hf
        obtain ⟨r, hr', har⟩ := ih s1 s' r1 h1 hr ha1 hf1
        refine ⟨r, ?_, har⟩
        rw [← hr']
        unfold applyEdits
        apply applyTo_congr
        rw [applyRaw_split hf, ← hr1']
    · cases hr

end Rain.Builder.Lemmas
