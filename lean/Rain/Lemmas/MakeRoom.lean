import Rain.MakeRoom
/-
Helper lemmas for `Rain/Props/MakeRoom.lean`.
-/
namespace Rain.MakeRoom.Lemmas
open Rain.MakeRoom Rain.Gen

theorem after_rotated (x : Vars) (hf : x.force = false) (vs : List View)
    (hc : Coherent true x vs) :
    ∀ b ∈ run x vs, b = .errBad ∨ b = .delay ∨ b = .proceed := by
  induction vs generalizing x with
  | nil => intro b hb; simp [run] at hb
  | cons v vs ih =>
    obtain ⟨he, hrest⟩ := hc
    have hempty := he rfl
    have hb : branch x v = .errBad ∨ branch x v = .delay ∨ branch x v = .proceed := by
      unfold branch
      by_cases h1 : v.bad = true
      · simp [h1]
      · by_cases h2 : (x.allowDelay && decide (L0_SLOWDOWN_WRITES_TRIGGER ≤ v.l0)) = true
        · simp [h1, h2]
        · simp [h1, h2, hf, hempty]
    intro b hmem
    simp only [run] at hmem
    split at hmem
    · simp only [List.mem_singleton] at hmem; rw [hmem]; exact hb
    · rcases List.mem_cons.mp hmem with h | h
      · rw [h]; exact hb
      · have hf' : (after x (branch x v)).force = false := by
          rcases hb with h' | h' | h' <;> simp [h', after, hf]
        have : Coherent true (after x (branch x v)) vs := by simpa using hrest
        exact ih _ hf' this b h

theorem busy_eq (bs : List Branch) : busy bs = bs.count .delay + bs.count .rotate := by
  induction bs with
  | nil => rfl
  | cons b bs ih =>
    have : busy (b :: bs) = (if !(returns b) && !(waits b) then 1 else 0) + busy bs := by
      simp only [busy, List.filter_cons]
      split <;> simp <;> omega
    rw [this, ih]
    cases b <;> simp [returns, waits, List.count_cons] <;> omega

theorem delay_needs_allow (x : Vars) (v : View) (h : branch x v = .delay) : x.allowDelay = true := by
  unfold branch at h
  by_cases h1 : v.bad = true
  · simp [h1] at h
  · cases h2 : x.allowDelay
    · simp only [h1, h2, Bool.false_and, if_false, Bool.false_eq_true] at h
      repeat (first | split at h | cases h)
    · rfl

theorem delay_once (vs : List View) (x : Vars) :
    (run x vs).count .delay ≤ (if x.allowDelay then 1 else 0) := by
  induction vs generalizing x with
  | nil => simp [run]
  | cons v vs ih =>
    simp only [run]
    cases hb : branch x v with
    | errBad => simp [returns]
    | proceed => simp [returns]
    | errPrevWal => simp [returns]
    | waitImm => simpa [returns, after, List.count_cons] using ih x
    | waitL0 => simpa [returns, after, List.count_cons] using ih x
    | rotate =>
      have := ih { x with force := false }
      simpa [returns, after, List.count_cons] using this
    | delay =>
      have had := delay_needs_allow x v hb
      have := ih { x with allowDelay := false }
      simp only [Bool.false_eq_true, if_false] at this
      simp only [returns, after, List.count_cons, had, if_true, Bool.false_eq_true, if_false]
      simp
      omega

theorem rotate_once (vs : List View) (x : Vars) (hc : Coherent false x vs) :
    (run x vs).count .rotate ≤ 1 := by
  induction vs generalizing x with
  | nil => simp [run]
  | cons v vs ih =>
    obtain ⟨_, hrest⟩ := hc
    simp only [run]
    cases hb : branch x v with
    | errBad => simp [returns]
    | proceed => simp [returns]
    | errPrevWal => simp [returns]
    | waitImm =>
      have hr : Coherent false x vs := by simpa [hb, after] using hrest
      simpa [returns, after, List.count_cons] using ih x hr
    | waitL0 =>
      have hr : Coherent false x vs := by simpa [hb, after] using hrest
      simpa [returns, after, List.count_cons] using ih x hr
    | delay =>
      have hr : Coherent false { x with allowDelay := false } vs := by simpa [hb, after] using hrest
      simpa [returns, after, List.count_cons] using ih _ hr
    | rotate =>
      have hr : Coherent true { x with force := false } vs := by simpa [hb, after] using hrest
      have hall := after_rotated { x with force := false } rfl vs hr
      have hnorot : (run { x with force := false } vs).count .rotate = 0 := by
        rw [List.count_eq_zero]
        intro h
        rcases hall _ h with h' | h' | h' <;> cases h'
      simp [returns, after, List.count_cons, hnorot]

end Rain.MakeRoom.Lemmas
