import Rain.Lemmas.LsmCompactDefs
/-
Table compaction, part 2: the invariant is preserved and no view at or above the smallest
snapshot changes.
-/
namespace Rain.Lsm.Lemmas
open Rain Rain.Lsm

/-- no internal key occurs in both files -/
def KD (a b : File) : Prop := ∀ x ∈ a.entries, ∀ y ∈ b.entries, x.key ≠ y.key

theorem KD_of_newerF {a b : File} (h : NewerF a b) : KD a b := by
  intro x hx y hy e
  have e1 : x.ukey = y.ukey := congrArg Prod.fst e
  have e2 : x.seq = y.seq := congrArg Prod.snd e
  have := h x hx y hy e1
  omega

theorem KD_of_newerF' {a b : File} (h : NewerF b a) : KD a b := by
  intro x hx y hy e
  exact KD_of_newerF h y hy x hx e.symm

theorem level_KD {s : State} (h : InvP s) (j : Nat) : (lv s.levels j).Pairwise KD := by
  by_cases hj : j = 0
  · subst hj
    have hn := h.numsL 0
    unfold List.Nodup at hn
    rw [List.pairwise_map] at hn
    refine List.Pairwise.imp_of_mem ?_ hn
    intro a b ha hb hne
    rcases Nat.lt_or_gt_of_ne hne with hlt | hlt
    · exact KD_of_newerF' (h.order 0 0 b a hb ha (Or.inr ⟨rfl, rfl, hlt⟩))
    · exact KD_of_newerF (h.order 0 0 a b ha hb (Or.inr ⟨rfl, rfl, hlt⟩))
  · refine List.Pairwise.imp_of_mem ?_ (h.lvls j (by omega))
    intro a b ha hb hlt x hx y hy
    exact k_st.ne_of_lt (before_of_kLt (h.files j a ha) (h.files j b hb) hlt hx hy)

section
variable {s : State} {c : Compaction}

theorem mem_lv_cL2 (j : Nat) (g : File) :
    g ∈ lv (cL2 s c) j ↔
      g ∈ lv s.levels j ∧ (j = c.level → g.num ∉ c.inputs0) ∧ (j = c.level + 1 → g.num ∉ c.inputs1) := by
  unfold cL2
  rw [mem_lv_removeNums, mem_lv_removeNums]
  constructor
  · rintro ⟨⟨h1, h2⟩, h3⟩; exact ⟨h1, h2, h3⟩
  · rintro ⟨h1, h2, h3⟩; exact ⟨⟨h1, h2⟩, h3⟩

theorem cL2_length : (cL2 s c).length = s.levels.length := by
  unfold cL2; rw [removeNums_length, removeNums_length]

theorem inputs_level {fe : File} (hfe : fe ∈ cI0 s c ++ cI1 s c) :
    (fe ∈ cI0 s c ∧ fe ∈ lv s.levels c.level) ∨ (fe ∈ cI1 s c ∧ fe ∈ lv s.levels (c.level + 1)) := by
  rcases List.mem_append.mp hfe with h | h
  · exact Or.inl ⟨h, (mem_cI0.mp h).1⟩
  · exact Or.inr ⟨h, (mem_cI1.mp h).1⟩

theorem inputs_ok (h : InvP s) {fe : File} (hfe : fe ∈ cI0 s c ++ cI1 s c) : FileOk fe := by
  rcases inputs_level hfe with ⟨_, h1⟩ | ⟨_, h1⟩ <;> exact h.files _ fe h1

theorem mem_cMerged {x : Entry} : x ∈ cMerged s c ↔ ∃ fe ∈ cI0 s c ++ cI1 s c, x ∈ fe.entries := by
  unfold cMerged
  rw [mem_mergeAll]
  constructor
  · rintro ⟨l, hl, hx⟩
    obtain ⟨fe, hfe, rfl⟩ := List.mem_map.mp hl
    exact ⟨fe, hfe, hx⟩
  · rintro ⟨fe, hfe, hx⟩
    exact ⟨_, List.mem_map.mpr ⟨fe, hfe, rfl⟩, hx⟩

theorem cMerged_sorted (h : InvP s) : Sorted (cMerged s c) := by
  unfold cMerged
  apply mergeAll_sorted
  · intro l hl
    obtain ⟨fe, hfe, rfl⟩ := List.mem_map.mp hl
    exact (inputs_ok h hfe).sorted
  · rw [List.pairwise_map, List.pairwise_append]
    refine ⟨(level_KD h c.level).filter _, (level_KD h (c.level + 1)).filter _, ?_⟩
    intro a ha b hb
    exact KD_of_newerF (h.order _ _ a b (mem_cI0.mp ha).1 (mem_cI1.mp hb).1 (Or.inl (by omega)))

theorem cKept_sub {x : Entry} (hx : x ∈ cKept s c) : x ∈ cMerged s c :=
  (dropLoop_sublist _ _ _ _).subset hx

theorem cKept_sorted (h : InvP s) : Sorted (cKept s c) :=
  List.Pairwise.sublist (dropLoop_sublist _ _ _ _) (cMerged_sorted h)

/-! ### the output files -/

theorem mem_cOuts {o : File} : o ∈ cOuts c ↔ ∃ p ∈ c.outputs, o = mkFile p.1 p.2 := by
  unfold cOuts
  rw [List.mem_map]
  constructor
  · rintro ⟨p, hp, rfl⟩; exact ⟨p, hp, rfl⟩
  · rintro ⟨p, hp, rfl⟩; exact ⟨p, hp, rfl⟩

theorem out_entries_kept (v : CompactV s c) {o : File} (ho : o ∈ cOuts c) {x : Entry}
    (hx : x ∈ o.entries) : x ∈ cKept s c := by
  obtain ⟨p, hp, rfl⟩ := mem_cOuts.mp ho
  rw [← v.outs_eq]
  exact List.mem_flatten.mpr ⟨p.2, List.mem_map.mpr ⟨p, hp, rfl⟩, hx⟩

theorem kept_in_out (v : CompactV s c) {x : Entry} (hx : x ∈ cKept s c) :
    ∃ o ∈ cOuts c, x ∈ o.entries := by
  rw [← v.outs_eq] at hx
  obtain ⟨l, hl, hxl⟩ := List.mem_flatten.mp hx
  obtain ⟨p, hp, rfl⟩ := List.mem_map.mp hl
  exact ⟨mkFile p.1 p.2, mem_cOuts.mpr ⟨p, hp, rfl⟩, hxl⟩

theorem out_entry_input (v : CompactV s c) {o : File} (ho : o ∈ cOuts c) {x : Entry}
    (hx : x ∈ o.entries) : ∃ fe ∈ cI0 s c ++ cI1 s c, x ∈ fe.entries :=
  mem_cMerged.mp (cKept_sub (out_entries_kept v ho hx))

theorem runs_pairwise (h : InvP s) (v : CompactV s c) :
    (∀ p ∈ c.outputs, Sorted p.2) ∧
    c.outputs.Pairwise (fun p p' => ∀ x ∈ p.2, ∀ y ∈ p'.2, ikLt x y = true) := by
  have hs := cKept_sorted (c := c) h
  rw [← v.outs_eq] at hs
  unfold Sorted at hs
  rw [List.pairwise_flatten, List.pairwise_map] at hs
  refine ⟨?_, hs.2⟩
  intro p hp
  exact hs.1 p.2 (List.mem_map.mpr ⟨p, hp, rfl⟩)

theorem out_ok (h : InvP s) (v : CompactV s c) {o : File} (ho : o ∈ cOuts c) : FileOk o := by
  obtain ⟨p, hp, rfl⟩ := mem_cOuts.mp ho
  exact mkFile_ok _ _ (v.outs_ne p hp) ((runs_pairwise h v).1 p hp)

theorem outs_chain (h : InvP s) (v : CompactV s c) :
    (cOuts c).Pairwise (fun a b => kLt a.largest b.smallest = true) := by
  unfold cOuts
  rw [List.pairwise_map]
  refine List.Pairwise.imp_of_mem ?_ (runs_pairwise h v).2
  intro p p' hp hp' hlt
  have ho := out_ok h v (mem_cOuts.mpr ⟨p, hp, rfl⟩)
  have ho' := out_ok h v (mem_cOuts.mpr ⟨p', hp', rfl⟩)
  obtain ⟨ys, a, hys, hak⟩ := ho.large_mem
  obtain ⟨b, rest, hb, hbk⟩ := ho'.small_mem
  rw [← hak, ← hbk]
  simp only [mkFile_entries] at hys hb
  exact hlt a (by rw [hys]; simp) b (by rw [hb]; simp)

theorem outs_nums (v : CompactV s c) : (cOuts c).Pairwise (fun a b => a.num ≠ b.num) := by
  have := v.outs_nodup
  unfold List.Nodup at this
  rw [List.pairwise_map] at this
  unfold cOuts
  rw [List.pairwise_map]
  exact this

/-! ### recency between the remaining files and the inputs -/

theorem r0_newer_i0 (v : CompactV s c) {g fe : File} (hg : g ∈ cR0 s c)
    (hfe : fe ∈ cI0 s c) : NewerF g fe := v.r0_newer g hg fe hfe

theorem r1_newer_inputs (h : InvP s) (v : CompactV s c) {g fe : File} (hg : g ∈ cR1 s c)
    (hfe : fe ∈ cI0 s c ++ cI1 s c) : NewerF g fe :=
  (v.r1_all g hg).newerF (h.files _ g (mem_cR1.mp hg).1) (fun _ hfe => inputs_ok h hfe) fe hfe

/-- a surviving file of a level at or above the output level is newer than every input -/
theorem surv_newer_input (h : InvP s) (v : CompactV s c) {i : Nat} {g fe : File}
    (hg : g ∈ lv (cL2 s c) i) (hi : i < c.level + 1) (hfe : fe ∈ cI0 s c ++ cI1 s c) :
    NewerF g fe := by
  obtain ⟨hg1, hg2, _⟩ := (mem_lv_cL2 i g).mp hg
  rcases inputs_level hfe with ⟨h0, h1⟩ | ⟨_, h1⟩
  · by_cases e : i = c.level
    · subst e
      exact r0_newer_i0 v (mem_cR0.mpr ⟨hg1, hg2 rfl⟩) h0
    · exact h.order i c.level g fe hg1 h1 (Or.inl (by omega))
  · exact h.order i (c.level + 1) g fe hg1 h1 (Or.inl hi)

theorem cL'_levelsP (h : InvP s) (v : CompactV s c) : LevelsP (cL' s c) := by
  have hL2 : LevelsP (cL2 s c) := (h.levelsP.removeNums _ _).removeNums _ _
  unfold cL'
  apply hL2.foldAdd v.lvl (by omega) (fun o ho => out_ok h v ho) (outs_nums v)
  · intro o ho j g hg
    obtain ⟨p, hp, rfl⟩ := mem_cOuts.mp ho
    exact v.outs_fresh p hp j g ((mem_lv_cL2 j g).mp hg).1
  · exact outs_chain h v
  · intro o ho g hg
    obtain ⟨hg1, _, hg3⟩ := (mem_lv_cL2 _ g).mp hg
    have hgR : g ∈ cR1 s c := mem_cR1.mpr ⟨hg1, hg3 rfl⟩
    have hoo := out_ok h v ho
    rcases v.r1_all g hgR with hA | hB
    · left
      obtain ⟨y, rest, hy, hyk⟩ := hoo.small_mem
      obtain ⟨fe, hfe, hyfe⟩ := out_entry_input v ho (x := y) (by rw [hy]; simp)
      rw [← hyk]
      exact k_st.lt_of_lt_of_le (hA fe hfe) ((inputs_ok h hfe).ge_small hyfe)
    · right
      obtain ⟨ys, y, hy, hyk⟩ := hoo.large_mem
      obtain ⟨fe, hfe, hyfe⟩ := out_entry_input v ho (x := y) (by rw [hy]; simp)
      rw [← hyk]
      exact k_st.lt_of_le_of_lt ((inputs_ok h hfe).le_large hyfe) (hB fe hfe).1
  · intro o ho i g hg hi x hx y hy e
    obtain ⟨fe, hfe, hyfe⟩ := out_entry_input v ho hy
    exact surv_newer_input h v hg hi hfe x hx y hyfe e
  · intro o ho i g hg hi x hx y hy e
    obtain ⟨fe, hfe, hxfe⟩ := out_entry_input v ho hx
    have hg1 := ((mem_lv_cL2 i g).mp hg).1
    rcases inputs_level hfe with ⟨_, h1⟩ | ⟨_, h1⟩
    · exact h.order c.level i fe g h1 hg1 (Or.inl (by omega)) x hxfe y hy e
    · exact h.order (c.level + 1) i fe g h1 hg1 (Or.inl hi) x hxfe y hy e

theorem mem_lv_cL' (h : InvP s) (v : CompactV s c) (j : Nat) (g : File) :
    g ∈ lv (cL' s c) j ↔ g ∈ lv (cL2 s c) j ∨ (j = c.level + 1 ∧ g ∈ cOuts c) := by
  unfold cL'
  apply mem_lv_foldAdd
  rw [cL2_length, h.len]
  exact v.lvl

/-- every entry stored in a file after the compaction was stored in a file before it -/
theorem file_entry_old (h : InvP s) (v : CompactV s c) {j : Nat} {g : File} (hg : g ∈ lv (cL' s c) j)
    {x : Entry} (hx : x ∈ g.entries) : ∃ j' g', g' ∈ lv s.levels j' ∧ x ∈ g'.entries := by
  rcases (mem_lv_cL' h v j g).mp hg with hg | ⟨_, hg⟩
  · exact ⟨j, g, ((mem_lv_cL2 j g).mp hg).1, hx⟩
  · obtain ⟨fe, hfe, hxfe⟩ := out_entry_input v hg hx
    rcases inputs_level hfe with ⟨_, h1⟩ | ⟨_, h1⟩
    · exact ⟨_, fe, h1, hxfe⟩
    · exact ⟨_, fe, h1, hxfe⟩

theorem compact_inv' {s' : State} (h : InvP s) (hs : stepCompact s c = some s') : InvP s' := by
  obtain ⟨hv, rfl⟩ := compact_cases hs
  have v := compactV_of_valid h hv
  apply InvP.ofLevels (s := { s with levels := cL' s c }) (cL'_levelsP h v) h.memS h.immS h.memNew
  · intro j g hg x hx y hy e
    obtain ⟨j', g', hg', hy'⟩ := file_entry_old h v hg hy
    exact h.memNewF j' g' hg' x hx y hy' e
  · intro j g hg x hx y hy e
    obtain ⟨j', g', hg', hy'⟩ := file_entry_old h v hg hy
    exact h.immNewF j' g' hg' x hx y hy' e
  · exact h.seqM
  · exact h.seqI
  · intro j g hg x hx
    obtain ⟨j', g', hg', hx'⟩ := file_entry_old h v hg hx
    exact h.seqF j' g' hg' x hx'

/-! ### views -/

/-- stored outside the files the compaction rewrites -/
def Surv (s : State) (c : Compaction) (x : Entry) : Prop :=
  x ∈ s.mem ∨ x ∈ s.imm.getD [] ∨ ∃ j g, g ∈ lv (cL2 s c) j ∧ x ∈ g.entries

theorem mem_all' (h : InvP s) (v : CompactV s c) (x : Entry) :
    x ∈ allEntries { s with levels := cL' s c } ↔ x ∈ cKept s c ∨ Surv s c x := by
  rw [mem_allEntries]
  simp only [mem_lv_cL' h v]
  constructor
  · rintro (hx | hx | ⟨j, g, hg | ⟨_, hg⟩, hx⟩)
    · exact Or.inr (Or.inl hx)
    · exact Or.inr (Or.inr (Or.inl hx))
    · exact Or.inr (Or.inr (Or.inr ⟨j, g, hg, hx⟩))
    · exact Or.inl (out_entries_kept v hg hx)
  · rintro (hx | hx | hx | ⟨j, g, hg, hx⟩)
    · obtain ⟨o, ho, hxo⟩ := kept_in_out v hx
      exact Or.inr (Or.inr ⟨c.level + 1, o, Or.inr ⟨rfl, ho⟩, hxo⟩)
    · exact Or.inl hx
    · exact Or.inr (Or.inl hx)
    · exact Or.inr (Or.inr ⟨j, g, Or.inl hg, hx⟩)

theorem merged_sub_all {x : Entry} (hx : x ∈ cMerged s c) : x ∈ allEntries s := by
  obtain ⟨fe, hfe, hxfe⟩ := mem_cMerged.mp hx
  rw [mem_allEntries]
  rcases inputs_level hfe with ⟨_, h1⟩ | ⟨_, h1⟩
  · exact Or.inr (Or.inr ⟨_, fe, h1, hxfe⟩)
  · exact Or.inr (Or.inr ⟨_, fe, h1, hxfe⟩)

theorem surv_sub_all {x : Entry} (hx : Surv s c x) : x ∈ allEntries s := by
  rw [mem_allEntries]
  rcases hx with hx | hx | ⟨j, g, hg, hx⟩
  · exact Or.inl hx
  · exact Or.inr (Or.inl hx)
  · exact Or.inr (Or.inr ⟨j, g, ((mem_lv_cL2 j g).mp hg).1, hx⟩)

theorem all'_sub_all (h : InvP s) (v : CompactV s c) {x : Entry}
    (hx : x ∈ allEntries { s with levels := cL' s c }) : x ∈ allEntries s := by
  rcases (mem_all' h v x).mp hx with hx | hx
  · exact merged_sub_all (cKept_sub hx)
  · exact surv_sub_all hx

/-- an entry that disappears was an input entry the drop rule removed -/
theorem gone_is_dropped (h : InvP s) (v : CompactV s c) {x : Entry} (hx : x ∈ allEntries s)
    (hn : x ∉ allEntries { s with levels := cL' s c }) : x ∈ cMerged s c ∧ x ∉ cKept s c := by
  rw [mem_all' h v] at hn
  have hnk : x ∉ cKept s c := fun hk => hn (Or.inl hk)
  have hns : ¬ Surv s c x := fun hk => hn (Or.inr hk)
  refine ⟨?_, hnk⟩
  rcases mem_allEntries.mp hx with hx | hx | ⟨j, g, hg, hxg⟩
  · exact absurd (Or.inl hx) hns
  · exact absurd (Or.inr (Or.inl hx)) hns
  · by_cases hin : g ∈ lv (cL2 s c) j
    · exact absurd (Or.inr (Or.inr ⟨j, g, hin, hxg⟩)) hns
    · rw [mem_lv_cL2] at hin
      apply mem_cMerged.mpr
      by_cases h0 : j = c.level ∧ g.num ∈ c.inputs0
      · obtain ⟨rfl, hn0⟩ := h0
        exact ⟨g, List.mem_append_left _ (mem_cI0.mpr ⟨hg, hn0⟩), hxg⟩
      · by_cases h1 : j = c.level + 1 ∧ g.num ∈ c.inputs1
        · obtain ⟨rfl, hn1⟩ := h1
          exact ⟨g, List.mem_append_right _ (mem_cI1.mpr ⟨hg, hn1⟩), hxg⟩
        · exfalso
          apply hin
          refine ⟨hg, ?_, ?_⟩
          · intro hj hm; exact h0 ⟨hj, hm⟩
          · intro hj hm; exact h1 ⟨hj, hm⟩

theorem isBase_spec {L : List (List File)} {lvl : Nat} {k : Bytes} (hb : isBaseLevel L lvl k = true)
    {j : Nat} (hj : lvl + 2 ≤ j) {g : File} (hg : g ∈ lv L j) :
    userRangeOverlaps g k k = false := by
  simp only [isBaseLevel, List.all_eq_true, Bool.not_eq_true'] at hb
  apply hb g
  rw [mem_flatten_iff_lv]
  refine ⟨j - (lvl + 2), ?_⟩
  rw [lv_drop]
  have : lvl + 2 + (j - (lvl + 2)) = j := by omega
  rw [this]; exact hg

/-- nothing older than an input entry of a base-level key survives outside the inputs -/
theorem nothing_older (h : InvP s) (v : CompactV s c) {e e2 : Entry} {fe : File}
    (hfe : fe ∈ cI0 s c ++ cI1 s c) (he : e ∈ fe.entries)
    (hb : isBaseLevel s.levels c.level e.ukey = true) (h2 : Surv s c e2) (hk : e2.ukey = e.ukey) :
    ¬ e2.seq < e.seq := by
  have hfl : ∃ jf, fe ∈ lv s.levels jf := by
    rcases inputs_level hfe with ⟨_, h1⟩ | ⟨_, h1⟩ <;> exact ⟨_, h1⟩
  obtain ⟨jf, hjf⟩ := hfl
  rcases h2 with h2 | h2 | ⟨j, g, hg, h2⟩
  · have := h.memNewF jf fe hjf e2 h2 e he hk; omega
  · have := h.immNewF jf fe hjf e2 h2 e he hk; omega
  · obtain ⟨hg1, hg2, hg3⟩ := (mem_lv_cL2 j g).mp hg
    by_cases hj : j < c.level + 1
    · have := surv_newer_input h v hg hj hfe e2 h2 e he hk; omega
    · by_cases hj1 : j = c.level + 1
      · have hgR : g ∈ cR1 s c := mem_cR1.mpr ⟨by rw [← hj1]; exact hg1, hg3 hj1⟩
        have := r1_newer_inputs h v hgR hfe e2 h2 e he hk; omega
      · have hno := isBase_spec hb (j := j) (by omega) hg1
        exfalso
        apply no_key_of_no_overlap (h.files j g hg1) hno h2
        · rw [hk]; exact bytes_st.irrefl _
        · rw [hk]; exact bytes_st.irrefl _

theorem compact_view' (h : InvP s) (v : CompactV s c) (snap : Nat)
    (hq : c.smallestSnapshot ≤ snap) (k : Bytes) :
    view (allEntries { s with levels := cL' s c }) snap k = view (allEntries s) snap k := by
  rcases view_cases (allEntries s) snap k with ⟨hv, hn⟩ | ⟨e, he, hk, hsq, hmax, hv⟩
  · rw [hv]
    apply view_eq_none
    intro x hx
    exact hn x (all'_sub_all h v hx)
  · rw [hv]
    by_cases he' : e ∈ allEntries { s with levels := cL' s c }
    · apply view_eq_of_max he' hk hsq
      intro x hx hkx hsx
      have hx' := all'_sub_all h v hx
      have := hmax x hx' hkx hsx
      by_cases heq : x.seq = e.seq
      · exact Or.inr (uniq_all h x hx' e he (hkx.trans hk.symm) heq)
      · left; omega
    · obtain ⟨hem, hek⟩ := gone_is_dropped h v he he'
      have hsorted := cMerged_sorted (c := c) h
      rcases dropLoop_dropped hsorted hem hek with ⟨p, hp, hpk, hlt, hle⟩ | ⟨ps, hps, _⟩ | hr2
      · have := hmax p (merged_sub_all hp) (hpk.trans hk) (by omega)
        omega
      · cases hps
      · simp only [rule2, Bool.and_eq_true, Bool.not_eq_true', decide_eq_true_eq] at hr2
        obtain ⟨⟨hput, hseq⟩, hbase⟩ := hr2
        have hval : valOf e = none := by simp [valOf, hput]
        rw [hval]
        apply view_eq_none
        intro e2 he2 hk2 hs2
        have he2' := all'_sub_all h v he2
        have hle := hmax e2 he2' hk2 hs2
        have hlt : e2.seq < e.seq := by
          by_cases heq : e2.seq = e.seq
          · have := uniq_all h e2 he2' e he (hk2.trans hk.symm) heq
            rw [this] at he2
            exact absurd he2 he'
          · omega
        rcases (mem_all' h v e2).mp he2 with hkept | hsurv
        · have := (dropLoop_kept (prev := none) hsorted (by intro p hp; cases hp) hkept).1 e hem
            (hk.trans hk2.symm) hlt
          omega
        · obtain ⟨fe, hfe, hefe⟩ := mem_cMerged.mp hem
          exact nothing_older h v hfe hefe hbase hsurv (hk2.trans hk.symm) hlt

end

end Rain.Lsm.Lemmas
