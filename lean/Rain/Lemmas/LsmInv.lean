import Rain.Lemmas.LsmFile
/-
The invariant in propositional, index-based form (`InvP`) and its equivalence with the executable
`invB`.
-/
namespace Rain.Lsm.Lemmas
open Rain Rain.Lsm

/-- files of level `j` (empty outside the list) -/
def lv (L : List (List File)) (j : Nat) : List File := L.getD j []

@[simp] theorem lv_nil (j : Nat) : lv [] j = [] := by simp [lv]
@[simp] theorem lv_cons_zero (l : List File) (L : List (List File)) : lv (l :: L) 0 = l := by simp [lv]
@[simp] theorem lv_cons_succ (l : List File) (L : List (List File)) (j : Nat) :
    lv (l :: L) (j + 1) = lv L j := by simp [lv]

theorem lv_of_ge {L : List (List File)} {j : Nat} (h : L.length ≤ j) : lv L j = [] := by
  simp [lv, List.getD_eq_getElem?_getD, List.getElem?_eq_none h]

theorem lv_set (L : List (List File)) (i j : Nat) (fs : List File) :
    lv (L.set i fs) j = if i = j ∧ i < L.length then fs else lv L j := by
  simp only [lv, List.getD_eq_getElem?_getD, List.getElem?_set]
  by_cases h : i = j
  · subst h
    by_cases h2 : i < L.length
    · simp [h2]
    · have : L[i]? = none := List.getElem?_eq_none (by omega)
      simp [h2]
  · simp [h]

theorem lv_drop (L : List (List File)) (n j : Nat) : lv (L.drop n) j = lv L (n + j) := by
  simp [lv, List.getD_eq_getElem?_getD, List.getElem?_drop]

theorem forall_mem_iff_lv (P : List File → Prop) (h0 : P []) (L : List (List File)) :
    (∀ fs ∈ L, P fs) ↔ ∀ j, P (lv L j) := by
  induction L with
  | nil => simp [h0]
  | cons l L ih =>
    simp only [List.mem_cons, forall_eq_or_imp, ih]
    constructor
    · rintro ⟨h1, h2⟩ j
      cases j with
      | zero => simpa using h1
      | succ j => simpa using h2 j
    · intro h
      exact ⟨by simpa using h 0, fun j => by simpa using h (j + 1)⟩

theorem mem_flatten_iff_lv {L : List (List File)} {f : File} : f ∈ L.flatten ↔ ∃ j, f ∈ lv L j := by
  have := forall_mem_iff_lv (fun fs => f ∉ fs) (by simp) L
  rw [List.mem_flatten]
  constructor
  · rintro ⟨fs, hfs, hf⟩
    apply Classical.byContradiction
    intro hn
    have h2 := this.mpr (fun j hj => hn ⟨j, hj⟩)
    exact h2 fs hfs hf
  · rintro ⟨j, hj⟩
    apply Classical.byContradiction
    intro hn
    have h2 := this.mp (fun fs hfs hf => hn ⟨fs, hfs, hf⟩)
    exact h2 j hj

theorem pairwise_iff_lv (R : List File → List File → Prop) (hl : ∀ x, R [] x) (hr : ∀ x, R x [])
    (L : List (List File)) :
    L.Pairwise R ↔ ∀ i j, i < j → R (lv L i) (lv L j) := by
  induction L with
  | nil => simp [hl]
  | cons l L ih =>
    rw [List.pairwise_cons, ih, forall_mem_iff_lv (fun x => R l x) (hr l)]
    constructor
    · rintro ⟨h1, h2⟩ i j hij
      cases j with
      | zero => omega
      | succ j =>
        cases i with
        | zero => simpa using h1 j
        | succ i => simpa using h2 i j (by omega)
    · intro h
      exact ⟨fun j => by simpa using h 0 (j + 1) (by omega),
        fun i j hij => by simpa using h (i + 1) (j + 1) (by omega)⟩

/-! ### file numbers -/

theorem distinctNums_iff (l : List Nat) : distinctNums l = true ↔ l.Nodup := by
  induction l with
  | nil => simp [distinctNums]
  | cons a l ih => simp [distinctNums, ih, List.nodup_cons]

theorem nodup_nums_iff (L : List (List File)) :
    (L.flatten.map File.num).Nodup ↔
      (∀ j, ((lv L j).map File.num).Nodup) ∧
      (∀ i j f g, f ∈ lv L i → g ∈ lv L j → f.num = g.num → i = j) := by
  induction L with
  | nil => simp
  | cons l L ih =>
    simp only [List.flatten_cons, List.map_append, List.nodup_append, ih]
    constructor
    · rintro ⟨h1, ⟨h2, h3⟩, h4⟩
      refine ⟨?_, ?_⟩
      · intro j
        cases j with
        | zero => simpa using h1
        | succ j => simpa using h2 j
      · intro i j f g hf hg hn
        cases i with
        | zero =>
          cases j with
          | zero => rfl
          | succ j =>
            simp only [lv_cons_zero, lv_cons_succ] at hf hg
            have hg' : g ∈ L.flatten := mem_flatten_iff_lv.mpr ⟨j, hg⟩
            exact absurd hn (h4 _ (List.mem_map_of_mem hf) _ (List.mem_map_of_mem hg'))
        | succ i =>
          cases j with
          | zero =>
            simp only [lv_cons_zero, lv_cons_succ] at hf hg
            have hf' : f ∈ L.flatten := mem_flatten_iff_lv.mpr ⟨i, hf⟩
            exact absurd hn.symm (h4 _ (List.mem_map_of_mem hg) _ (List.mem_map_of_mem hf'))
          | succ j =>
            simp only [lv_cons_succ] at hf hg
            have := h3 i j f g hf hg hn
            omega
    · rintro ⟨h1, h2⟩
      refine ⟨by simpa using h1 0, ⟨fun j => by simpa using h1 (j + 1), ?_⟩, ?_⟩
      · intro i j f g hf hg hn
        have := h2 (i + 1) (j + 1) f g (by simpa using hf) (by simpa using hg) hn
        omega
      · intro a ha b hb
        obtain ⟨f, hf, rfl⟩ := List.mem_map.mp ha
        obtain ⟨g, hg, rfl⟩ := List.mem_map.mp hb
        obtain ⟨j, hj⟩ := mem_flatten_iff_lv.mp hg
        intro hn
        have := h2 0 (j + 1) f g (by simpa using hf) (by simpa using hj) hn
        omega

theorem eq_of_num_eq {l : List File} (h : (l.map File.num).Nodup) {f g : File} (hf : f ∈ l)
    (hg : g ∈ l) (hn : f.num = g.num) : f = g := by
  induction l with
  | nil => cases hf
  | cons a l ih =>
    simp only [List.map_cons, List.nodup_cons, List.mem_map, not_exists, not_and] at h
    rcases List.mem_cons.mp hf with rfl | hf' <;> rcases List.mem_cons.mp hg with rfl | hg'
    · rfl
    · exact absurd hn.symm (h.1 g hg')
    · exact absurd hn (h.1 f hf')
    · exact ih h.2 hf' hg'

/-! ### recency order of the sources -/

theorem pairwiseNewer_iff (Ls : List (List Entry)) : pairwiseNewer Ls = true ↔ Ls.Pairwise Newer := by
  induction Ls with
  | nil => simp [pairwiseNewer]
  | cons a rest ih =>
    simp only [pairwiseNewer, Bool.and_eq_true, List.all_eq_true, newerThan_iff, ih,
      List.pairwise_cons]

def NewerF (f g : File) : Prop := Newer f.entries g.entries

theorem newer_concat_right {X : List Entry} {fs : List File} :
    Newer X (concat fs) ↔ ∀ f ∈ fs, Newer X f.entries := by
  constructor
  · intro h f hf
    exact h.mono (fun _ hx => hx) (fun y hy => mem_concat.mpr ⟨f, hf, hy⟩)
  · intro h x hx y hy e
    obtain ⟨f, hf, hyf⟩ := mem_concat.mp hy
    exact h f hf x hx y hyf e

theorem newer_concat_left {Y : List Entry} {fs : List File} :
    Newer (concat fs) Y ↔ ∀ f ∈ fs, Newer f.entries Y := by
  constructor
  · intro h f hf
    exact h.mono (fun y hy => mem_concat.mpr ⟨f, hf, hy⟩) (fun _ hx => hx)
  · intro h x hx y hy e
    obtain ⟨f, hf, hxf⟩ := mem_concat.mp hx
    exact h f hf x hxf y hy e

/-- in a list pairwise related by `R`, two different members are related one way or the other -/
theorem pairwise_mem_cases {α : Type} {R : α → α → Prop} {l : List α} (h : l.Pairwise R) {a b : α}
    (ha : a ∈ l) (hb : b ∈ l) : a = b ∨ R a b ∨ R b a := by
  induction l with
  | nil => cases ha
  | cons x l ih =>
    have hp := List.pairwise_cons.mp h
    rcases List.mem_cons.mp ha with rfl | ha' <;> rcases List.mem_cons.mp hb with rfl | hb'
    · exact Or.inl rfl
    · exact Or.inr (Or.inl (hp.1 b hb'))
    · exact Or.inr (Or.inr (hp.1 a ha'))
    · exact ih hp.2 ha' hb'

theorem insertDesc_nodup {f : File} {l : List File} (h : ((f :: l).map File.num).Nodup) :
    ((insertDesc f l).map File.num).Nodup := by
  induction l with
  | nil => simp [insertDesc]
  | cons g gs ih =>
    simp only [insertDesc]
    split
    · exact h
    · simp only [List.map_cons, List.nodup_cons, List.mem_cons, List.mem_map, not_or, not_exists,
        not_and] at h ih ⊢
      obtain ⟨⟨h1, h2⟩, h3, h4⟩ := h
      refine ⟨?_, ih ⟨h2, h4⟩⟩
      intro x hx
      rcases mem_insertDesc.mp hx with rfl | hx
      · exact fun e => h1 e
      · exact h3 x hx

theorem sortDesc_nodup {l : List File} (h : (l.map File.num).Nodup) :
    ((sortDesc l).map File.num).Nodup := by
  induction l with
  | nil => simp [sortDesc]
  | cons g gs ih =>
    simp only [sortDesc]
    apply insertDesc_nodup
    simp only [List.map_cons, List.nodup_cons, List.mem_map, not_exists, not_and] at h ⊢
    exact ⟨fun x hx => h.1 x (mem_sortDesc.mp hx), ih h.2⟩

theorem sortDesc_strict {l : List File} (h : (l.map File.num).Nodup) :
    (sortDesc l).Pairwise (fun a b => b.num < a.num) := by
  have h1 := sortDesc_desc l
  have h2 := sortDesc_nodup h
  unfold List.Nodup at h2
  rw [List.pairwise_map] at h2
  exact (h1.and h2).imp (fun ⟨a, b⟩ => by omega)

/-- level-0 recency (newest file number first) stated on members -/
theorem pairwise_sortDesc_iff (R : File → File → Prop) {l : List File} (h : (l.map File.num).Nodup) :
    (sortDesc l).Pairwise R ↔ ∀ f ∈ l, ∀ g ∈ l, g.num < f.num → R f g := by
  have hs := sortDesc_strict h
  constructor
  · intro hp f hf g hg hlt
    have := pairwise_mem_cases (hp.and hs) (mem_sortDesc.mpr hf) (mem_sortDesc.mpr hg)
    rcases this with rfl | ⟨h1, _⟩ | ⟨_, h2⟩
    · omega
    · exact h1
    · omega
  · intro hR
    refine List.Pairwise.imp_of_mem ?_ hs
    intro a b ha hb hlt
    exact hR a (mem_sortDesc.mp ha) b (mem_sortDesc.mp hb) hlt

/-! ### the invariant -/

structure InvP (s : State) : Prop where
  len : s.levels.length = 7
  memS : Sorted s.mem
  immS : Sorted (s.imm.getD [])
  files : ∀ j f, f ∈ lv s.levels j → FileOk f
  lvls : ∀ j, 1 ≤ j → LevelOk (lv s.levels j)
  memNew : Newer s.mem (s.imm.getD [])
  memNewF : ∀ j f, f ∈ lv s.levels j → Newer s.mem f.entries
  immNewF : ∀ j f, f ∈ lv s.levels j → Newer (s.imm.getD []) f.entries
  order : ∀ i j f g, f ∈ lv s.levels i → g ∈ lv s.levels j →
    (i < j ∨ (i = 0 ∧ j = 0 ∧ g.num < f.num)) → NewerF f g
  numsL : ∀ j, ((lv s.levels j).map File.num).Nodup
  numsX : ∀ i j f g, f ∈ lv s.levels i → g ∈ lv s.levels j → f.num = g.num → i = j
  seqM : ∀ e ∈ s.mem, e.seq ≤ s.lastSeq
  seqI : ∀ e ∈ s.imm.getD [], e.seq ≤ s.lastSeq
  seqF : ∀ j f, f ∈ lv s.levels j → ∀ e ∈ f.entries, e.seq ≤ s.lastSeq

theorem mem_allEntries {s : State} {e : Entry} :
    e ∈ allEntries s ↔ e ∈ s.mem ∨ e ∈ s.imm.getD [] ∨ ∃ j f, f ∈ lv s.levels j ∧ e ∈ f.entries := by
  simp only [allEntries, List.mem_append, List.mem_flatten, List.mem_map, or_assoc]
  constructor
  · rintro (h | h | ⟨l, ⟨f, hf, rfl⟩, he⟩)
    · exact Or.inl h
    · exact Or.inr (Or.inl h)
    · obtain ⟨j, hj⟩ := mem_flatten_iff_lv.mp (List.mem_flatten.mpr hf)
      exact Or.inr (Or.inr ⟨j, f, hj, he⟩)
  · rintro (h | h | ⟨j, f, hj, he⟩)
    · exact Or.inl h
    · exact Or.inr (Or.inl h)
    · obtain ⟨l, hl, hfl⟩ := List.mem_flatten.mp (mem_flatten_iff_lv.mpr ⟨j, hj⟩)
      exact Or.inr (Or.inr ⟨_, ⟨f, ⟨l, hl, hfl⟩, rfl⟩, he⟩)

/-- the recency part of the invariant, on the literal `sources` list -/
structure SrcOrder (m i : List Entry) (l0 : List File) (D : List (List File)) : Prop where
  mi : Newer m i
  m0 : ∀ f ∈ l0, Newer m f.entries
  i0 : ∀ f ∈ l0, Newer i f.entries
  mD : ∀ j, ∀ f ∈ lv D j, Newer m f.entries
  iD : ∀ j, ∀ f ∈ lv D j, Newer i f.entries
  l00 : ∀ f ∈ l0, ∀ g ∈ l0, g.num < f.num → NewerF f g
  l0D : ∀ f ∈ l0, ∀ j, ∀ g ∈ lv D j, NewerF f g
  DD : ∀ i j, i < j → ∀ f ∈ lv D i, ∀ g ∈ lv D j, NewerF f g

theorem srcOrder_iff (m i : List Entry) (l0 : List File) (D : List (List File))
    (hn : (l0.map File.num).Nodup) :
    ([m, i] ++ (sortDesc l0).map File.entries ++ D.map concat).Pairwise Newer ↔ SrcOrder m i l0 D := by
  have hD := pairwise_iff_lv (fun fs gs => ∀ f ∈ fs, ∀ g ∈ gs, NewerF f g)
    (fun _ _ hf => by cases hf) (fun _ _ _ _ hg => by cases hg) D
  have hDD : (D.map concat).Pairwise Newer ↔ D.Pairwise (fun fs gs => ∀ f ∈ fs, ∀ g ∈ gs, NewerF f g) := by
    rw [List.pairwise_map]
    apply Iff.intro <;> intro h <;> refine h.imp ?_
    · intro fs gs hN f hf g hg
      exact (newer_concat_right.mp (newer_concat_left.mp hN f hf)) g hg
    · intro fs gs hN
      exact newer_concat_left.mpr fun f hf => newer_concat_right.mpr fun g hg => hN f hf g hg
  have hall : ∀ (P : List File → Prop), P [] → ((∀ X ∈ D.map concat, ∀ fs, X = concat fs → P fs) → True) := by
    intros; trivial
  simp only [List.cons_append, List.nil_append, List.pairwise_cons, List.pairwise_append,
    List.mem_append, List.mem_cons, List.mem_map, hDD, hD, List.pairwise_map,
    pairwise_sortDesc_iff (fun a b => Newer a.entries b.entries) hn]
  constructor
  · rintro ⟨hm, ⟨hi, h00, hDD', h0D⟩⟩
    refine ⟨hm i (Or.inl rfl), ?_, ?_, ?_, ?_, h00, ?_, hDD'⟩
    · intro f hf
      exact hm _ (Or.inr (Or.inl ⟨f, mem_sortDesc.mpr hf, rfl⟩))
    · intro f hf
      exact hi _ (Or.inl ⟨f, mem_sortDesc.mpr hf, rfl⟩)
    · have : ∀ fs ∈ D, ∀ f ∈ fs, Newer m f.entries := by
        intro fs hfs
        exact newer_concat_right.mp (hm _ (Or.inr (Or.inr ⟨fs, hfs, rfl⟩)))
      exact (forall_mem_iff_lv (fun fs => ∀ f ∈ fs, Newer m f.entries) (by simp) D).mp this
    · have : ∀ fs ∈ D, ∀ f ∈ fs, Newer i f.entries := by
        intro fs hfs
        exact newer_concat_right.mp (hi _ (Or.inr ⟨fs, hfs, rfl⟩))
      exact (forall_mem_iff_lv (fun fs => ∀ f ∈ fs, Newer i f.entries) (by simp) D).mp this
    · intro f hf
      have : ∀ fs ∈ D, ∀ g ∈ fs, NewerF f g := by
        intro fs hfs
        exact newer_concat_right.mp (h0D _ ⟨f, mem_sortDesc.mpr hf, rfl⟩ _ ⟨fs, hfs, rfl⟩)
      exact (forall_mem_iff_lv (fun fs => ∀ g ∈ fs, NewerF f g) (by simp) D).mp this
  · intro h
    have mD := (forall_mem_iff_lv (fun fs => ∀ f ∈ fs, Newer m f.entries) (by simp) D).mpr h.mD
    have iD := (forall_mem_iff_lv (fun fs => ∀ f ∈ fs, Newer i f.entries) (by simp) D).mpr h.iD
    refine ⟨?_, ?_, h.l00, h.DD, ?_⟩
    · rintro X (rfl | ⟨f, hf, rfl⟩ | ⟨fs, hfs, rfl⟩)
      · exact h.mi
      · exact h.m0 f (mem_sortDesc.mp hf)
      · exact newer_concat_right.mpr (mD fs hfs)
    · rintro X (⟨f, hf, rfl⟩ | ⟨fs, hfs, rfl⟩)
      · exact h.i0 f (mem_sortDesc.mp hf)
      · exact newer_concat_right.mpr (iD fs hfs)
    · rintro X ⟨f, hf, rfl⟩ Y ⟨fs, hfs, rfl⟩
      have := (forall_mem_iff_lv (fun fs => ∀ g ∈ fs, NewerF f g) (by simp) D).mpr
        (h.l0D f (mem_sortDesc.mp hf))
      exact newer_concat_right.mpr (this fs hfs)

theorem sources_cons (m : List Entry) (i : Option (List Entry)) (l0 : List File)
    (D : List (List File)) (n : Nat) :
    sources { mem := m, imm := i, levels := l0 :: D, lastSeq := n } =
      [m, i.getD []] ++ (sortDesc l0).map File.entries ++ D.map concat := rfl

theorem srcOrder_of_invP {s : State} {l0 : List File} {D : List (List File)}
    (hL : s.levels = l0 :: D) (h : InvP s) : SrcOrder s.mem (s.imm.getD []) l0 D := by
  have hlv0 : lv s.levels 0 = l0 := by rw [hL]; simp
  have hlvS : ∀ j, lv s.levels (j + 1) = lv D j := by intro j; rw [hL]; simp
  refine ⟨h.memNew, ?_, ?_, ?_, ?_, ?_, ?_, ?_⟩
  · intro f hf; exact h.memNewF 0 f (by rw [hlv0]; exact hf)
  · intro f hf; exact h.immNewF 0 f (by rw [hlv0]; exact hf)
  · intro j f hf; exact h.memNewF (j + 1) f (by rw [hlvS]; exact hf)
  · intro j f hf; exact h.immNewF (j + 1) f (by rw [hlvS]; exact hf)
  · intro f hf g hg hlt
    exact h.order 0 0 f g (by rw [hlv0]; exact hf) (by rw [hlv0]; exact hg) (Or.inr ⟨rfl, rfl, hlt⟩)
  · intro f hf j g hg
    exact h.order 0 (j + 1) f g (by rw [hlv0]; exact hf) (by rw [hlvS]; exact hg) (Or.inl (by omega))
  · intro i j hij f hf g hg
    exact h.order (i + 1) (j + 1) f g (by rw [hlvS]; exact hf) (by rw [hlvS]; exact hg)
      (Or.inl (by omega))

theorem invB_iff (s : State) : invB s = true ↔ InvP s := by
  obtain ⟨m, i, L, n⟩ := s
  constructor
  · intro h
    simp only [invB, Bool.and_eq_true, beq_iff_eq, List.all_eq_true, decide_eq_true_eq,
      sortedE_iff, fileOk_iff, pairwiseNewer_iff, distinctNums_iff] at h
    obtain ⟨⟨⟨⟨⟨⟨⟨h1, h2⟩, h3⟩, h4⟩, h5⟩, h6⟩, h7⟩, h8⟩ := h
    cases L with
    | nil => simp at h1
    | cons l0 D =>
      have hfiles : ∀ j f, f ∈ lv (l0 :: D) j → FileOk f :=
        fun j f hf => h4 f (mem_flatten_iff_lv.mpr ⟨j, hf⟩)
      have hnums := (nodup_nums_iff (l0 :: D)).mp h7
      rw [sources_cons, srcOrder_iff _ _ _ _ (by simpa using hnums.1 0)] at h6
      have hseq : ∀ e, e ∈ allEntries { mem := m, imm := i, levels := l0 :: D, lastSeq := n } → e.seq ≤ n := h8
      refine ⟨h1, h2, h3, hfiles, ?_, h6.mi, ?_, ?_, ?_, hnums.1, hnums.2, ?_, ?_, ?_⟩
      · intro j hj
        have h5' := (forall_mem_iff_lv (fun fs => levelSorted fs = true) rfl _).mp h5 (j - 1)
        simp only [lv_drop] at h5'
        have e : 1 + (j - 1) = j := by omega
        rw [e] at h5'
        exact (levelSorted_iff _ (hfiles j)).mp h5'
      · intro j f hf
        cases j with
        | zero => exact h6.m0 f (by simpa using hf)
        | succ j => exact h6.mD j f (by simpa using hf)
      · intro j f hf
        cases j with
        | zero => exact h6.i0 f (by simpa using hf)
        | succ j => exact h6.iD j f (by simpa using hf)
      · intro a b f g hf hg hab
        cases a with
        | zero =>
          cases b with
          | zero =>
            rcases hab with hab | ⟨_, _, hlt⟩
            · omega
            · exact h6.l00 f (by simpa using hf) g (by simpa using hg) hlt
          | succ b => exact h6.l0D f (by simpa using hf) b g (by simpa using hg)
        | succ a =>
          cases b with
          | zero => omega
          | succ b =>
            exact h6.DD a b (by omega) f (by simpa using hf) g (by simpa using hg)
      · intro e he; exact hseq e (mem_allEntries.mpr (Or.inl he))
      · intro e he; exact hseq e (mem_allEntries.mpr (Or.inr (Or.inl he)))
      · intro j f hf e he; exact hseq e (mem_allEntries.mpr (Or.inr (Or.inr ⟨j, f, hf, he⟩)))
  · intro h
    have hlen := h.len
    cases L with
    | nil => simp at hlen
    | cons l0 D =>
      simp only [invB, Bool.and_eq_true, beq_iff_eq, List.all_eq_true, decide_eq_true_eq,
        sortedE_iff, fileOk_iff, pairwiseNewer_iff, distinctNums_iff]
      refine ⟨⟨⟨⟨⟨⟨⟨h.len, h.memS⟩, h.immS⟩, ?_⟩, ?_⟩, ?_⟩, ?_⟩, ?_⟩
      · intro f hf
        obtain ⟨j, hj⟩ := mem_flatten_iff_lv.mp hf
        exact h.files j f hj
      · apply (forall_mem_iff_lv (fun fs => levelSorted fs = true) rfl _).mpr
        intro j
        simp only [lv_drop]
        exact (levelSorted_iff _ (h.files (1 + j))).mpr (h.lvls (1 + j) (by omega))
      · rw [sources_cons, srcOrder_iff _ _ _ _ (by simpa using h.numsL 0)]
        exact srcOrder_of_invP rfl h
      · exact (nodup_nums_iff _).mpr ⟨h.numsL, h.numsX⟩
      · intro e he
        rcases mem_allEntries.mp he with he | he | ⟨j, f, hf, he⟩
        · exact h.seqM e he
        · exact h.seqI e he
        · exact h.seqF j f hf e he

theorem inv_iff (s : State) : Inv s ↔ InvP s := invB_iff s

end Rain.Lsm.Lemmas
