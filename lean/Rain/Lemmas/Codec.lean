import Rain.Codec
import Rain.Lemmas.Varint
import Rain.Lemmas.Block
/-
Helper lemmas for `Rain/Props/Codec.lean`: reading back what the encoders of `Rain/Codec.lean`
write, length bookkeeping of the readers, and the canonical form of the deleted-file set.
-/
namespace Rain.Codec.Lemmas
open Rain Rain.Block Rain.Block.Lemmas Rain.Codec

/-! ### varints -/

theorem rawVar_varintFuel (rest : Bytes) (g : Nat) : ∀ (n f : Nat), n < 128 ^ (g + 1) → g + 1 ≤ f →
    rawVar (g + 1) (varintFuel f n ++ rest) = some (n, rest) := by
  induction g with
  | zero =>
    intro n f hn hf
    obtain ⟨f', rfl⟩ : ∃ f', f = f' + 1 := ⟨f - 1, by omega⟩
    have hn' : n < 128 := by simpa using hn
    simp only [varintFuel, hn', if_true, List.cons_append, List.nil_append, rawVar]
    rw [toUInt8_toNat _ (by omega)]
    simp [hn']
  | succ g ih =>
    intro n f hn hf
    obtain ⟨f', rfl⟩ : ∃ f', f = f' + 1 := ⟨f - 1, by omega⟩
    rw [varintFuel]
    split
    · next h =>
      simp only [List.cons_append, List.nil_append, rawVar]
      rw [toUInt8_toNat _ (by omega)]
      simp [h]
    · next h =>
      have hq : n / 128 < 128 ^ (g + 1) := by
        rw [Nat.pow_succ] at hn; omega
      simp only [List.cons_append, rawVar]
      rw [toUInt8_toNat _ (by omega), ih _ f' hq (by omega)]
      have : ¬ (n % 128 + 128 < 128) := by omega
      simp only [this, if_false]
      congr 2
      omega

theorem readU32_varint (n : Nat) (h : n < 2 ^ 32) (rest : Bytes) :
    readU32 (varint n ++ rest) = some (n, rest) := by
  unfold readU32 varint
  rw [rawVar_varintFuel rest 4 n 10 (by have : (2:Nat) ^ 32 < 128 ^ 5 := by decide
                                        omega) (by omega)]
  simp only [Nat.mod_eq_of_lt h]

theorem readU32_writeU32 (n : Nat) (h : n < 2 ^ 32) (rest : Bytes) :
    readU32 (writeU32 n ++ rest) = some (n, rest) := by
  unfold writeU32
  rw [Nat.mod_eq_of_lt h]
  exact readU32_varint n h rest

theorem readU64_varint (n : Nat) (h : n < 2 ^ 64) (rest : Bytes) :
    readU64 (varint n ++ rest) = some (n, rest) := by
  unfold readU64 varint
  rw [rawVar_varintFuel rest 9 n 10 (by have : (2:Nat) ^ 64 < 128 ^ 10 := by decide
                                        omega) (by omega)]
  simp only [Nat.mod_eq_of_lt h]

theorem splitAux_eq (n : Nat) : ∀ (r acc : Bytes),
    splitAux n r acc = if r.length < n then none else some (acc.reverse ++ r.take n, r.drop n) := by
  induction n with
  | zero => intro r acc; simp [splitAux]
  | succ n ih =>
    intro r acc
    cases r with
    | nil => simp [splitAux]
    | cons b r =>
      simp only [splitAux, ih, List.length_cons, Nat.add_lt_add_iff_right, List.reverse_cons,
        List.take_succ_cons, List.drop_succ_cons, List.append_assoc, List.singleton_append]

theorem splitExact_eq (n : Nat) (r : Bytes) :
    splitExact n r = if r.length < n then none else some (r.take n, r.drop n) := by
  simp [splitExact, splitAux_eq]

/-- `readSlice` in terms of `take`/`drop` -/
theorem readSlice_def (b : Bytes) :
    readSlice b = match readU32 b with
      | some (n, r) => if r.length < n then none else some (r.take n, r.drop n)
      | none => none := by
  unfold readSlice
  cases readU32 b with
  | none => rfl
  | some p => simp only [splitExact_eq]

theorem readSlice_writeSlice (s : Bytes) (h : s.length < 2 ^ 32) (rest : Bytes) :
    readSlice (writeSlice s ++ rest) = some (s, rest) := by
  rw [readSlice_def]
  unfold writeSlice
  rw [List.append_assoc, readU32_writeU32 _ h]
  simp

/-! ### batch -/

theorem readOp_encodeOp (op : Op) (h : opWF op) (rest : Bytes) :
    readOp (encodeOp op ++ rest) = some (op, rest) := by
  obtain ⟨k, v⟩ := op
  cases v with
  | none =>
    simp only [encodeOp, List.cons_append, readOp]
    rw [readSlice_writeSlice k h.1]
    simp
  | some v =>
    simp only [encodeOp, List.cons_append, readOp, List.append_assoc]
    rw [readSlice_writeSlice k h.1]
    simp only []
    rw [readSlice_writeSlice v h.2]
    simp

theorem readOps_encode (ops : List Op) (h : ∀ op ∈ ops, opWF op) (rest : Bytes) :
    readOps ops.length ((ops.map encodeOp).flatten ++ rest) = some ops := by
  induction ops with
  | nil => rfl
  | cons op ops ih =>
    simp only [List.map_cons, List.flatten_cons, List.length_cons, readOps, List.append_assoc]
    rw [readOp_encodeOp op (h op List.mem_cons_self)]
    simp only []
    rw [ih (fun o ho => h o (List.mem_cons_of_mem _ ho))]

theorem decodeBatch_encodeBatch_append (b : BatchRec) (h : b.WF) (junk : Bytes) :
    decodeBatch (encodeBatch b ++ junk) = some b := by
  obtain ⟨hs, hl, hops⟩ := h
  have hL := leBytes_length 8 b.start
  have hV := leVal_leBytes 8 b.start (by simpa using hs)
  unfold decodeBatch encodeBatch
  generalize leBytes 8 b.start = L at hL hV
  have hlen : ¬ ((L ++ (writeU32 b.ops.length ++ (b.ops.map encodeOp).flatten) ++ junk).length < 8) := by
    simp only [List.length_append, hL]; omega
  simp only [hlen, if_false]
  rw [List.append_assoc, List.drop_left' hL, List.take_left' hL, List.append_assoc,
    readU32_writeU32 _ hl, hV]
  simp only []
  rw [readOps_encode b.ops hops]

/-! ### manifest fields -/

theorem encodeIKey_length (k : IKey) : (encodeIKey k).length = k.ukey.length + 9 := by
  simp [encodeIKey, encodeKey, IKey.toEntry, leBytes_length]

theorem decodeIKey_encodeIKey (k : IKey) (h : k.seq < 2 ^ 64) : decodeIKey (encodeIKey k) = some k := by
  unfold decodeIKey encodeIKey
  rw [decodeKey_encodeKey k.toEntry h]
  rfl

theorem readIKey_write (k : IKey) (h : k.WF) (rest : Bytes) :
    readIKey (writeSlice (encodeIKey k) ++ rest) = some (k, rest) := by
  unfold readIKey
  rw [readSlice_writeSlice _ (by rw [encodeIKey_length]; exact h.2)]
  simp only []
  rw [decodeIKey_encodeIKey k h.1]

theorem maxlevels_eq : MAXLEVELS = 7 := rfl

theorem readLevel_write (l : Nat) (h : l < MAXLEVELS) (rest : Bytes) :
    readLevel (writeU32 l ++ rest) = some (l, rest) := by
  unfold readLevel
  rw [readU32_writeU32 l (by rw [maxlevels_eq] at h; omega)]
  simp [h]

theorem readU32_tag (t : UInt8) (h : t.toNat < 128) (rest : Bytes) :
    readU32 (t :: rest) = some (t.toNat, rest) := by
  simp only [readU32, rawVar, h, if_true]
  rw [Nat.mod_eq_of_lt (by omega)]

theorem readField_encodeField (f : Field) (h : f.WF) (rest : Bytes) :
    readField (encodeField f ++ rest) = some (f, rest) := by
  cases f with
  | wal n =>
    simp only [encodeField, List.cons_append, readField]
    rw [readU32_tag 2 (by decide)]
    simp only [show (2 : UInt8).toNat = 2 from rfl, if_true]
    rw [readU64_varint n h]
  | prevWal n =>
    simp only [encodeField, List.cons_append, readField]
    rw [readU32_tag 9 (by decide)]
    simp only [show (9 : UInt8).toNat = 9 from rfl, if_true, show ¬ (9 = 2) by decide, if_false]
    rw [readU64_varint n h]
  | next n =>
    simp only [encodeField, List.cons_append, readField]
    rw [readU32_tag 3 (by decide)]
    simp only [show (3 : UInt8).toNat = 3 from rfl, if_true, show ¬ (3 = 2) by decide,
      show ¬ (3 = 9) by decide, if_false]
    rw [readU64_varint n h]
  | seq n =>
    simp only [encodeField, List.cons_append, readField]
    rw [readU32_tag 4 (by decide)]
    simp only [show (4 : UInt8).toNat = 4 from rfl, if_true, show ¬ (4 = 2) by decide,
      show ¬ (4 = 9) by decide, show ¬ (4 = 3) by decide, if_false]
    rw [readU64_varint n h]
  | ptr l k =>
    simp only [encodeField, List.cons_append, readField, List.append_assoc]
    rw [readU32_tag 5 (by decide)]
    simp only [show (5 : UInt8).toNat = 5 from rfl, if_true, show ¬ (5 = 2) by decide,
      show ¬ (5 = 9) by decide, show ¬ (5 = 3) by decide, show ¬ (5 = 4) by decide, if_false]
    rw [readLevel_write l h.1]
    simp only []
    rw [readIKey_write k h.2]
  | del l n =>
    simp only [encodeField, List.cons_append, readField, List.append_assoc]
    rw [readU32_tag 6 (by decide)]
    simp only [show (6 : UInt8).toNat = 6 from rfl, if_true, show ¬ (6 = 2) by decide,
      show ¬ (6 = 9) by decide, show ¬ (6 = 3) by decide, show ¬ (6 = 4) by decide,
      show ¬ (6 = 5) by decide, if_false]
    rw [readLevel_write l h.1]
    simp only []
    rw [readU64_varint n h.2]
  | file l n s a b =>
    obtain ⟨hl, hn, hs, ha, hb⟩ := h
    simp only [encodeField, List.cons_append, readField, List.append_assoc]
    rw [readU32_tag 7 (by decide)]
    simp only [show (7 : UInt8).toNat = 7 from rfl, if_true, show ¬ (7 = 2) by decide,
      show ¬ (7 = 9) by decide, show ¬ (7 = 3) by decide, show ¬ (7 = 4) by decide,
      show ¬ (7 = 5) by decide, show ¬ (7 = 6) by decide, if_false]
    rw [readLevel_write l hl]
    simp only []
    rw [readU64_varint n hn]
    simp only []
    rw [readU64_varint s hs]
    simp only []
    rw [readIKey_write a ha]
    simp only []
    rw [readIKey_write b hb]

/-! ### every reader consumes input: the fuel of `readFields` is not observable -/

theorem rawVar_length (f : Nat) : ∀ (b : Bytes) (v : Nat) (r : Bytes),
    rawVar f b = some (v, r) → r.length < b.length := by
  induction f with
  | zero => intro b v r h; simp [rawVar] at h
  | succ f ih =>
    intro b v r h
    cases b with
    | nil => simp [rawVar] at h
    | cons x xs =>
      simp only [rawVar] at h
      split at h
      · simp only [Option.some.injEq, Prod.mk.injEq] at h
        rw [← h.2]; simp
      · split at h
        · next v' r' hr =>
          simp only [Option.some.injEq, Prod.mk.injEq] at h
          have := ih xs v' r' hr
          rw [← h.2]; simp only [List.length_cons]; omega
        · simp at h

theorem readU32_length {b : Bytes} {v : Nat} {r : Bytes} (h : readU32 b = some (v, r)) :
    r.length < b.length := by
  unfold readU32 at h
  split at h
  · next v' r' hr =>
    simp only [Option.some.injEq, Prod.mk.injEq] at h
    rw [← h.2]; exact rawVar_length 5 b v' r' hr
  · simp at h

theorem readU64_length {b : Bytes} {v : Nat} {r : Bytes} (h : readU64 b = some (v, r)) :
    r.length < b.length := by
  unfold readU64 at h
  split at h
  · next v' r' hr =>
    simp only [Option.some.injEq, Prod.mk.injEq] at h
    rw [← h.2]; exact rawVar_length 10 b v' r' hr
  · simp at h

theorem readSlice_length {b s r : Bytes} (h : readSlice b = some (s, r)) : r.length < b.length := by
  rw [readSlice_def] at h
  split at h
  · next n r' hr =>
    split at h
    · simp at h
    · simp only [Option.some.injEq, Prod.mk.injEq] at h
      have := readU32_length hr
      rw [← h.2]; simp only [List.length_drop]; omega
  · simp at h

theorem readLevel_length {b : Bytes} {l : Nat} {r : Bytes} (h : readLevel b = some (l, r)) :
    r.length < b.length := by
  unfold readLevel at h
  split at h
  · next l' r' hr =>
    split at h
    · simp only [Option.some.injEq, Prod.mk.injEq] at h
      rw [← h.2]; exact readU32_length hr
    · simp at h
  · simp at h

theorem readIKey_length {b : Bytes} {k : IKey} {r : Bytes} (h : readIKey b = some (k, r)) :
    r.length < b.length := by
  unfold readIKey at h
  split at h
  · next s r' hr =>
    split at h
    · simp only [Option.some.injEq, Prod.mk.injEq] at h
      rw [← h.2]; exact readSlice_length hr
    · simp at h
  · simp at h

local macro "fin_len " h:ident : tactic =>
  `(tactic| (simp only [Option.some.injEq, Prod.mk.injEq] at $h:ident; rw [← ($h).2]; omega))

theorem readField_length {b : Bytes} {f : Field} {r : Bytes} (h : readField b = some (f, r)) :
    r.length < b.length := by
  unfold readField at h
  split at h
  · simp at h
  · next tag r0 h0 =>
    have l0 := readU32_length h0
    split at h
    · split at h
      · next n r1 h1 => have := readU64_length h1; fin_len h
      · simp at h
    split at h
    · split at h
      · next n r1 h1 => have := readU64_length h1; fin_len h
      · simp at h
    split at h
    · split at h
      · next n r1 h1 => have := readU64_length h1; fin_len h
      · simp at h
    split at h
    · split at h
      · next n r1 h1 => have := readU64_length h1; fin_len h
      · simp at h
    split at h
    · split at h
      · next l r1 h1 =>
        have := readLevel_length h1
        split at h
        · next k r2 h2 => have := readIKey_length h2; fin_len h
        · simp at h
      · simp at h
    split at h
    · split at h
      · next l r1 h1 =>
        have := readLevel_length h1
        split at h
        · next k r2 h2 => have := readU64_length h2; fin_len h
        · simp at h
      · simp at h
    split at h
    · split at h
      · next l r1 h1 =>
        have := readLevel_length h1
        split at h
        · next n r2 h2 =>
          have := readU64_length h2
          split at h
          · next s r3 h3 =>
            have := readU64_length h3
            split at h
            · next a r4 h4 =>
              have := readIKey_length h4
              split at h
              · next c r5 h5 => have := readIKey_length h5; fin_len h
              · simp at h
            · simp at h
          · simp at h
        · simp at h
      · simp at h
    · simp at h

theorem readFields_fuel (f1 : Nat) : ∀ (f2 : Nat) (b : Bytes), b.length < f1 → b.length < f2 →
    readFields f1 b = readFields f2 b := by
  induction f1 with
  | zero => intro f2 b h1; omega
  | succ f1 ih =>
    intro f2 b h1 h2
    obtain ⟨f2, rfl⟩ : ∃ g, f2 = g + 1 := ⟨f2 - 1, by omega⟩
    cases b with
    | nil => simp [readFields]
    | cons x xs =>
      simp only [readFields]
      cases hr : readField (x :: xs) with
      | none => rfl
      | some p =>
        obtain ⟨f, r⟩ := p
        have hl := readField_length hr
        simp only []
        rw [ih f2 r (by simp only [List.length_cons] at hl h1; omega)
          (by simp only [List.length_cons] at hl h2; omega)]

theorem decodeFields_nil : decodeFields [] = some [] := rfl

theorem encodeField_ne_nil (f : Field) : encodeField f ≠ [] := by
  cases f <;> simp [encodeField]

/-- one well-formed field in front of anything -/
theorem decodeFields_cons (f : Field) (h : f.WF) (rest : Bytes) :
    decodeFields (encodeField f ++ rest) =
      match decodeFields rest with
      | some fs => some (f :: fs)
      | none => none := by
  have hne := encodeField_ne_nil f
  have hrd := readField_encodeField f h rest
  unfold decodeFields
  cases hb : encodeField f ++ rest with
  | nil => simp at hb; exact absurd hb.1 hne
  | cons x xs =>
    rw [hb] at hrd
    simp only [readFields, hrd]
    have hl : rest.length < (x :: xs).length := by
      rw [← hb]; simp only [List.length_append]
      have : 0 < (encodeField f).length := List.length_pos_iff.mpr hne
      omega
    rw [readFields_fuel (x :: xs).length (rest.length + 1) rest hl (by omega)]
    cases readFields (rest.length + 1) rest <;> rfl

theorem encodeFields_cons (f : Field) (fs : List Field) :
    encodeFields (f :: fs) = encodeField f ++ encodeFields fs := by
  simp [encodeFields]

theorem encodeFields_append (a b : List Field) :
    encodeFields (a ++ b) = encodeFields a ++ encodeFields b := by
  simp [encodeFields]

theorem decodeFields_append (fs : List Field) (h : ∀ f ∈ fs, f.WF) (rest : Bytes) :
    decodeFields (encodeFields fs ++ rest) =
      match decodeFields rest with
      | some gs => some (fs ++ gs)
      | none => none := by
  induction fs with
  | nil => simp only [encodeFields, List.map_nil, List.flatten_nil, List.nil_append]; cases decodeFields rest <;> rfl
  | cons f fs ih =>
    rw [encodeFields_cons, List.append_assoc, decodeFields_cons f (h f List.mem_cons_self),
      ih (fun g hg => h g (List.mem_cons_of_mem _ hg))]
    cases decodeFields rest <;> rfl

theorem decodeFields_encodeFields (fs : List Field) (h : ∀ f ∈ fs, f.WF) :
    decodeFields (encodeFields fs) = some fs := by
  have := decodeFields_append fs h []
  simpa [decodeFields_nil] using this


/-! ### rebuilding the record from its fields -/

theorem foldl_ptrs (l : List (Nat × IKey)) (e : EditRec) :
    (l.map (fun p => Field.ptr p.1 p.2)).foldl applyField e = { e with ptrs := e.ptrs ++ l } := by
  induction l generalizing e with
  | nil => simp
  | cons p l ih => simp [ih, applyField]

theorem foldl_dels (l : List (Nat × Nat)) (e : EditRec) :
    (l.map (fun d => Field.del d.1 d.2)).foldl applyField e = { e with deleted := e.deleted ++ l } := by
  induction l generalizing e with
  | nil => simp
  | cons p l ih => simp [ih, applyField]

theorem foldl_files (l : List NewFile) (e : EditRec) :
    (l.map NewFile.toField).foldl applyField e = { e with files := e.files ++ l } := by
  induction l generalizing e with
  | nil => simp
  | cons p l ih => simp [ih, applyField, NewFile.toField]

theorem foldl_fields (e : EditRec) : e.fields.foldl applyField EditRec.empty = e := by
  obtain ⟨w, pw, sq, nx, ps, ds, fs⟩ := e
  simp only [EditRec.fields, List.foldl_append, foldl_ptrs, foldl_dels, foldl_files]
  cases w <;> cases pw <;> cases sq <;> cases nx <;> simp [optField, applyField, EditRec.empty]

theorem fields_WF (e : EditRec) (h : e.WF) : ∀ f ∈ e.fields, f.WF := by
  obtain ⟨hw, hpw, hsq, hnx, hps, hds, hfs⟩ := h
  intro f hf
  simp only [EditRec.fields, List.mem_append, List.mem_map] at hf
  rcases hf with hf | hf | hf | hf | ⟨p, hp, rfl⟩ | ⟨d, hd, rfl⟩ | ⟨g, hg, rfl⟩
  · cases hv : e.wal with
    | none => simp [hv, optField] at hf
    | some n => simp [hv, optField] at hf; subst hf; simpa [hv, optWF, Field.WF] using hw
  · cases hv : e.prevWal with
    | none => simp [hv, optField] at hf
    | some n => simp [hv, optField] at hf; subst hf; simpa [hv, optWF, Field.WF] using hpw
  · cases hv : e.next with
    | none => simp [hv, optField] at hf
    | some n => simp [hv, optField] at hf; subst hf; simpa [hv, optWF, Field.WF] using hnx
  · cases hv : e.seq with
    | none => simp [hv, optField] at hf
    | some n => simp [hv, optField] at hf; subst hf; simpa [hv, optWF, Field.WF] using hsq
  · exact hps p hp
  · exact hds d hd
  · exact hfs g hg

/-! ### the set of deleted files -/

theorem delLt_irrefl (a : Nat × Nat) : ¬ delLt a a := by
  unfold delLt; omega

theorem delLt_trans {a b c : Nat × Nat} (h1 : delLt a b) (h2 : delLt b c) : delLt a c := by
  unfold delLt at *; omega

theorem delLt_asymm {a b : Nat × Nat} (h1 : delLt a b) : ¬ delLt b a := by
  unfold delLt at *; omega

theorem delLt_total (a b : Nat × Nat) : delLt a b ∨ a = b ∨ delLt b a := by
  obtain ⟨a1, a2⟩ := a
  obtain ⟨b1, b2⟩ := b
  unfold delLt
  simp only [Prod.mk.injEq]
  omega

theorem mem_insDel (x a : Nat × Nat) (l : List (Nat × Nat)) : a ∈ insDel x l ↔ a = x ∨ a ∈ l := by
  induction l with
  | nil => simp [insDel]
  | cons y ys ih =>
    simp only [insDel]
    split
    · simp
    · split
      · next hxy => subst hxy; simp
      · simp only [List.mem_cons, ih]
        constructor
        · rintro (h | h | h) <;> simp [h]
        · rintro (h | h | h) <;> simp [h]

theorem sorted_insDel (x : Nat × Nat) (l : List (Nat × Nat)) (h : l.Pairwise delLt) :
    (insDel x l).Pairwise delLt := by
  induction l with
  | nil => simp [insDel]
  | cons y ys ih =>
    have hy := List.pairwise_cons.mp h
    simp only [insDel]
    split
    · next hxy =>
      refine List.pairwise_cons.mpr ⟨?_, h⟩
      intro a ha
      rcases List.mem_cons.mp ha with rfl | ha
      · exact hxy
      · exact delLt_trans hxy (hy.1 a ha)
    · next hxy =>
      split
      · exact h
      · next hne =>
        refine List.pairwise_cons.mpr ⟨?_, ih hy.2⟩
        intro a ha
        rcases (mem_insDel x a ys).mp ha with rfl | ha
        · rcases delLt_total a y with h1 | h1 | h1
          · exact absurd h1 hxy
          · exact absurd h1 hne
          · exact h1
        · exact hy.1 a ha

theorem mem_normDel (a : Nat × Nat) (l : List (Nat × Nat)) : a ∈ normDel l ↔ a ∈ l := by
  induction l with
  | nil => simp [normDel]
  | cons y ys ih =>
    have : normDel (y :: ys) = insDel y (normDel ys) := rfl
    rw [this, mem_insDel, ih]; simp

theorem sorted_normDel (l : List (Nat × Nat)) : (normDel l).Pairwise delLt := by
  induction l with
  | nil => simp [normDel]
  | cons y ys ih => exact sorted_insDel y _ ih

/-- strictly ascending lists are determined by their elements -/
theorem sorted_ext : ∀ (l1 l2 : List (Nat × Nat)), l1.Pairwise delLt → l2.Pairwise delLt →
    (∀ a, a ∈ l1 ↔ a ∈ l2) → l1 = l2 := by
  intro l1
  induction l1 with
  | nil =>
    intro l2 _ _ h
    cases l2 with
    | nil => rfl
    | cons y ys => exact absurd ((h y).mpr List.mem_cons_self) (by simp)
  | cons x xs ih =>
    intro l2 h1 h2 h
    cases l2 with
    | nil => exact absurd ((h x).mp List.mem_cons_self) (by simp)
    | cons y ys =>
      have hx := List.pairwise_cons.mp h1
      have hy := List.pairwise_cons.mp h2
      have hxy : x = y := by
        rcases List.mem_cons.mp ((h x).mp List.mem_cons_self) with e | hxin
        · exact e
        · rcases List.mem_cons.mp ((h y).mpr List.mem_cons_self) with e | hyin
          · exact e.symm
          · exact absurd (hy.1 x hxin) (delLt_asymm (hx.1 y hyin))
      subst hxy
      congr 1
      apply ih ys hx.2 hy.2
      intro a
      constructor
      · intro ha
        rcases List.mem_cons.mp ((h a).mp (List.mem_cons_of_mem _ ha)) with e | h'
        · subst e; exact absurd (hx.1 a ha) (delLt_irrefl a)
        · exact h'
      · intro ha
        rcases List.mem_cons.mp ((h a).mpr (List.mem_cons_of_mem _ ha)) with e | h'
        · subst e; exact absurd (hy.1 a ha) (delLt_irrefl a)
        · exact h'

theorem normDel_congr (l1 l2 : List (Nat × Nat)) (h : ∀ a, a ∈ l1 ↔ a ∈ l2) : normDel l1 = normDel l2 :=
  sorted_ext _ _ (sorted_normDel l1) (sorted_normDel l2) (fun a => by rw [mem_normDel, mem_normDel, h])

theorem normDel_of_sorted (l : List (Nat × Nat)) (h : l.Pairwise delLt) : normDel l = l :=
  sorted_ext _ _ (sorted_normDel l) h (fun a => mem_normDel a l)

/-! ### a dangling byte -/

theorem readField_single (t : UInt8) : readField [t] = none := by
  unfold readField
  by_cases h : t.toNat < 128
  · rw [readU32_tag t h]
    simp only [readU64, readLevel, readU32, rawVar]
    repeat' split
    all_goals rfl
  · simp [readU32, rawVar, h]

theorem decodeFields_single (t : UInt8) : decodeFields [t] = none := by
  simp [decodeFields, readFields, readField_single]

/-! ### torn input: a proper prefix of what a reader would consume is rejected -/

theorem rawVar_take (g : Nat) : ∀ (n f k : Nat), k < (varintFuel f n).length →
    rawVar g ((varintFuel f n).take k) = none := by
  induction g with
  | zero => intro n f k _; simp [rawVar]
  | succ g ih =>
    intro n f k hk
    cases f with
    | zero => simp [varintFuel] at hk
    | succ f =>
      rw [varintFuel] at hk ⊢
      split
      · next h =>
        rw [if_pos h] at hk
        have : k = 0 := by simpa using hk
        subst this; simp [rawVar]
      · next h =>
        rw [if_neg h] at hk
        cases k with
        | zero => simp [rawVar]
        | succ k =>
          simp only [List.take_succ_cons, rawVar]
          rw [toUInt8_toNat _ (by omega)]
          have : ¬ (n % 128 + 128 < 128) := by omega
          simp only [this, if_false]
          rw [ih (n / 128) f k (by simpa using hk)]

theorem readU32_take (n k : Nat) (hk : k < (varint n).length) : readU32 ((varint n).take k) = none := by
  unfold readU32 varint
  rw [rawVar_take 5 n 10 k hk]

theorem readSlice_take (s : Bytes) (h : s.length < 2 ^ 32) (k : Nat) (hk : k < (writeSlice s).length) :
    readSlice ((writeSlice s).take k) = none := by
  unfold writeSlice at hk ⊢
  rw [List.take_append]
  by_cases hlt : k < (writeU32 s.length).length
  · have : k - (writeU32 s.length).length = 0 := by omega
    rw [this, List.take_zero, List.append_nil, readSlice_def]
    unfold writeU32 at hlt ⊢
    rw [readU32_take _ k hlt]
  · rw [List.take_of_length_le (by omega), readSlice_def]
    rw [readU32_writeU32 _ h]
    simp only [List.length_append] at hk
    have : (s.take (k - (writeU32 s.length).length)).length < s.length := by
      rw [List.length_take]; omega
    simp only []
    rw [if_pos this]

theorem readOp_take (op : Op) (h : opWF op) (k : Nat) (hk : k < (encodeOp op).length) :
    readOp ((encodeOp op).take k) = none := by
  obtain ⟨key, v⟩ := op
  cases k with
  | zero => cases v <;> simp [encodeOp, readOp]
  | succ k =>
    cases v with
    | none =>
      simp only [encodeOp, List.length_cons] at hk
      simp only [encodeOp, List.take_succ_cons, readOp]
      rw [readSlice_take key h.1 k (by omega)]
      simp
    | some v =>
      simp only [encodeOp, List.length_cons, List.length_append] at hk
      simp only [encodeOp, List.take_succ_cons, readOp]
      rw [List.take_append]
      by_cases hlt : k < (writeSlice key).length
      · have : k - (writeSlice key).length = 0 := by omega
        rw [this, List.take_zero, List.append_nil, readSlice_take key h.1 k hlt]
        simp
      · rw [List.take_of_length_le (by omega), readSlice_writeSlice key h.1]
        simp only []
        rw [readSlice_take v h.2 _ (by omega)]
        simp

theorem readOps_take (ops : List Op) (h : ∀ op ∈ ops, opWF op) (k : Nat)
    (hk : k < ((ops.map encodeOp).flatten).length) :
    readOps ops.length (((ops.map encodeOp).flatten).take k) = none := by
  induction ops generalizing k with
  | nil => simp at hk
  | cons op ops ih =>
    simp only [List.map_cons, List.flatten_cons, List.length_append] at hk
    simp only [List.map_cons, List.flatten_cons, List.length_cons, readOps]
    rw [List.take_append]
    by_cases hlt : k < (encodeOp op).length
    · have : k - (encodeOp op).length = 0 := by omega
      rw [this, List.take_zero, List.append_nil, readOp_take op (h op List.mem_cons_self) k hlt]
    · rw [List.take_of_length_le (by omega), readOp_encodeOp op (h op List.mem_cons_self)]
      simp only []
      rw [ih (fun o ho => h o (List.mem_cons_of_mem _ ho)) _ (by omega)]

theorem decodeBatch_take (b : BatchRec) (h : b.WF) (k : Nat) (hk : k < (encodeBatch b).length) :
    decodeBatch ((encodeBatch b).take k) = none := by
  obtain ⟨hs, hl, hops⟩ := h
  have hL := leBytes_length 8 b.start
  unfold encodeBatch at hk ⊢
  generalize leBytes 8 b.start = L at hL hk
  unfold decodeBatch
  by_cases h8 : k < 8
  · have : ((L ++ (writeU32 b.ops.length ++ (b.ops.map encodeOp).flatten)).take k).length < 8 := by
      rw [List.length_take]; omega
    rw [if_pos this]
  · have hlen : ¬ (((L ++ (writeU32 b.ops.length ++ (b.ops.map encodeOp).flatten)).take k).length < 8) := by
      rw [List.length_take]; omega
    simp only [hlen, if_false]
    rw [List.take_append, List.take_of_length_le (by omega), List.drop_left' hL, hL]
    simp only [List.length_append, hL] at hk
    rw [List.take_append]
    by_cases hlt : k - 8 < (writeU32 b.ops.length).length
    · have : k - 8 - (writeU32 b.ops.length).length = 0 := by omega
      rw [this, List.take_zero, List.append_nil]
      unfold writeU32 at hlt ⊢
      rw [readU32_take _ _ hlt]
    · rw [List.take_of_length_le (by omega), readU32_writeU32 _ hl]
      simp only []
      rw [readOps_take b.ops hops _ (by omega)]


theorem take_append_cases (a b : Bytes) (j : Nat) (hj : j < (a ++ b).length) :
    (j < a.length ∧ (a ++ b).take j = a.take j) ∨
    (∃ j', j' < b.length ∧ (a ++ b).take j = a ++ b.take j') := by
  rw [List.take_append]
  by_cases h : j < a.length
  · left
    have : j - a.length = 0 := by omega
    rw [this, List.take_zero, List.append_nil]
    exact ⟨h, rfl⟩
  · right
    refine ⟨j - a.length, by simp only [List.length_append] at hj; omega, ?_⟩
    rw [List.take_of_length_le (by omega)]

theorem readU64_take (n k : Nat) (hk : k < (varint n).length) : readU64 ((varint n).take k) = none := by
  unfold readU64 varint
  rw [rawVar_take 10 n 10 k hk]

theorem readLevel_take (l k : Nat) (hk : k < (writeU32 l).length) :
    readLevel ((writeU32 l).take k) = none := by
  unfold readLevel
  unfold writeU32 at hk ⊢
  rw [readU32_take _ k hk]

theorem readIKey_take (key : IKey) (h : key.WF) (k : Nat)
    (hk : k < (writeSlice (encodeIKey key)).length) :
    readIKey ((writeSlice (encodeIKey key)).take k) = none := by
  unfold readIKey
  rw [readSlice_take _ (by rw [encodeIKey_length]; exact h.2) k hk]

theorem readField_nil : readField [] = none := by
  simp [readField, readU32, rawVar]

theorem readField_take (f : Field) (h : f.WF) (k : Nat) (hk : k < (encodeField f).length) :
    readField ((encodeField f).take k) = none := by
  cases k with
  | zero => rw [List.take_zero]; exact readField_nil
  | succ j =>
    cases f with
    | wal n =>
      simp only [encodeField, List.length_cons] at hk
      simp only [encodeField, List.take_succ_cons, readField]
      rw [readU32_tag 2 (by decide)]
      simp only [show (2 : UInt8).toNat = 2 from rfl, if_true]
      rw [readU64_take n j (by omega)]
    | prevWal n =>
      simp only [encodeField, List.length_cons] at hk
      simp only [encodeField, List.take_succ_cons, readField]
      rw [readU32_tag 9 (by decide)]
      simp only [show (9 : UInt8).toNat = 9 from rfl, if_true, show ¬ (9 = 2) by decide, if_false]
      rw [readU64_take n j (by omega)]
    | next n =>
      simp only [encodeField, List.length_cons] at hk
      simp only [encodeField, List.take_succ_cons, readField]
      rw [readU32_tag 3 (by decide)]
      simp only [show (3 : UInt8).toNat = 3 from rfl, if_true, show ¬ (3 = 2) by decide,
        show ¬ (3 = 9) by decide, if_false]
      rw [readU64_take n j (by omega)]
    | seq n =>
      simp only [encodeField, List.length_cons] at hk
      simp only [encodeField, List.take_succ_cons, readField]
      rw [readU32_tag 4 (by decide)]
      simp only [show (4 : UInt8).toNat = 4 from rfl, if_true, show ¬ (4 = 2) by decide,
        show ¬ (4 = 9) by decide, show ¬ (4 = 3) by decide, if_false]
      rw [readU64_take n j (by omega)]
    | ptr l key =>
      simp only [encodeField, List.length_cons] at hk
      simp only [encodeField, List.take_succ_cons, readField]
      rw [readU32_tag 5 (by decide)]
      simp only [show (5 : UInt8).toNat = 5 from rfl, if_true, show ¬ (5 = 2) by decide,
        show ¬ (5 = 9) by decide, show ¬ (5 = 3) by decide, show ¬ (5 = 4) by decide, if_false]
      rcases take_append_cases _ _ j (Nat.lt_of_succ_lt_succ hk) with ⟨h1, e⟩ | ⟨j1, h1, e⟩ <;> rw [e]
      · rw [readLevel_take l j h1]
      · rw [readLevel_write l h.1]
        simp only []
        rw [readIKey_take key h.2 j1 h1]
    | del l n =>
      simp only [encodeField, List.length_cons] at hk
      simp only [encodeField, List.take_succ_cons, readField]
      rw [readU32_tag 6 (by decide)]
      simp only [show (6 : UInt8).toNat = 6 from rfl, if_true, show ¬ (6 = 2) by decide,
        show ¬ (6 = 9) by decide, show ¬ (6 = 3) by decide, show ¬ (6 = 4) by decide,
        show ¬ (6 = 5) by decide, if_false]
      rcases take_append_cases _ _ j (Nat.lt_of_succ_lt_succ hk) with ⟨h1, e⟩ | ⟨j1, h1, e⟩ <;> rw [e]
      · rw [readLevel_take l j h1]
      · rw [readLevel_write l h.1]
        simp only []
        rw [readU64_take n j1 h1]
    | file l n s a b =>
      obtain ⟨hl, hn, hs, ha, hb⟩ := h
      simp only [encodeField, List.length_cons] at hk
      simp only [encodeField, List.take_succ_cons, readField]
      rw [readU32_tag 7 (by decide)]
      simp only [show (7 : UInt8).toNat = 7 from rfl, if_true, show ¬ (7 = 2) by decide,
        show ¬ (7 = 9) by decide, show ¬ (7 = 3) by decide, show ¬ (7 = 4) by decide,
        show ¬ (7 = 5) by decide, show ¬ (7 = 6) by decide, if_false]
      rcases take_append_cases _ _ j (Nat.lt_of_succ_lt_succ hk) with ⟨h1, e⟩ | ⟨j1, h1, e⟩ <;> rw [e]
      · rw [readLevel_take l j h1]
      rw [readLevel_write l hl]
      simp only []
      rcases take_append_cases _ _ j1 h1 with ⟨h2, e⟩ | ⟨j2, h2, e⟩ <;> rw [e]
      · rw [readU64_take n j1 h2]
      rw [readU64_varint n hn]
      simp only []
      rcases take_append_cases _ _ j2 h2 with ⟨h3, e⟩ | ⟨j3, h3, e⟩ <;> rw [e]
      · rw [readU64_take s j2 h3]
      rw [readU64_varint s hs]
      simp only []
      rcases take_append_cases _ _ j3 h3 with ⟨h4, e⟩ | ⟨j4, h4, e⟩ <;> rw [e]
      · rw [readIKey_take a ha j3 h4]
      rw [readIKey_write a ha]
      simp only []
      rw [readIKey_take b hb j4 h4]

theorem decodeFields_torn (f : Field) (h : f.WF) (k : Nat) (h0 : 0 < k)
    (hk : k < (encodeField f).length) : decodeFields ((encodeField f).take k) = none := by
  have hr := readField_take f h k hk
  unfold decodeFields
  cases hc : (encodeField f).take k with
  | nil =>
    have : ((encodeField f).take k).length = 0 := by rw [hc]; rfl
    rw [List.length_take] at this; omega
  | cons x xs =>
    rw [hc] at hr
    simp only [readFields, hr]

end Rain.Codec.Lemmas
