import Rain.BaseLevel
import Rain.Lemmas.LsmCompact
import Rain.Lemmas.PickBasic
import Rain.Props.Pick
/-
Helper lemmas for `Rain/Props/BaseLevel.lean`.
-/
namespace Rain.BaseLevel.Lemmas
open Rain Rain.Lsm Rain.Lsm.Lemmas Rain.BaseLevel

/-- the files a pointer has passed end before `kprev` -/
def Passed (fs : List File) (ptr : Nat) (kprev : Bytes) : Prop :=
  ∀ f ∈ fs.take ptr, bytesLt f.largest.1 kprev = true

theorem scanFiles_spec (k : Bytes) (rest : List File) (n : Nat)
    (hw : ∀ f ∈ rest, Wf f) (hl : LevelOk rest) :
    (scanFiles k rest n).1 = rest.any (fun f => userRangeOverlaps f k k) ∧
    n ≤ (scanFiles k rest n).2 ∧ (scanFiles k rest n).2 ≤ n + rest.length ∧
    ∀ f ∈ rest.take ((scanFiles k rest n).2 - n), bytesLt f.largest.1 k = true := by
  induction rest generalizing n with
  | nil => simp [scanFiles]
  | cons f rest ih =>
    have hp := List.pairwise_cons.mp hl
    simp only [scanFiles]
    split
    · rename_i hle
      have hle' : bytesLt f.largest.1 k = false := by simpa using hle
      refine ⟨?_, Nat.le_refl _, by omega, by simp⟩
      simp only [List.any_cons, userRangeOverlaps, hle', Bool.not_false, Bool.and_true]
      cases hks : bytesLt k f.smallest.1 with
      | false =>
        simp
      | true =>
        -- the key lies before this file: every later file starts even later
        simp only [Bool.not_true, Bool.false_or]
        symm
        rw [List.any_eq_false]
        intro g hg
        have hlt : kLt f.largest g.smallest = true := hp.1 g hg
        have h1 : bytesLt g.smallest.1 f.largest.1 = false := kLt_fst_le hlt
        have h2 : bytesLt f.largest.1 f.smallest.1 = false := (hw f (List.mem_cons_self ..)).ufst
        have : bytesLt k g.smallest.1 = true :=
          bytes_st.lt_of_lt_of_le (bytes_st.lt_of_lt_of_le hks h2) h1
        simp [this]
    · rename_i hgt
      have hgt' : bytesLt f.largest.1 k = true := by simpa using hgt
      obtain ⟨h1, h2, h3, h4⟩ := ih (n + 1) (fun g hg => hw g (List.mem_cons_of_mem _ hg)) hp.2
      refine ⟨?_, by omega, by simp only [List.length_cons]; omega, ?_⟩
      · rw [h1]
        simp [List.any_cons, userRangeOverlaps, hgt']
      · have : (scanFiles k rest (n + 1)).2 - n = ((scanFiles k rest (n + 1)).2 - (n + 1)) + 1 := by
          omega
        rw [this, List.take_succ_cons]
        intro g hg
        rcases List.mem_cons.mp hg with rfl | hg
        · exact hgt'
        · exact h4 g hg

/-- one level: under the pointer invariant and for a key not below the previous one, the step
answers whether SOME file of the level has the key in its range, and the invariant holds
afterwards for this key -/
theorem levelStep_spec (fs : List File) (ptr : Nat) (kprev k : Bytes)
    (hw : ∀ f ∈ fs, Wf f) (hl : LevelOk fs) (hp : Passed fs ptr kprev)
    (hk : bytesLt k kprev = false) :
    (levelStep fs ptr k).1 = fs.any (fun f => userRangeOverlaps f k k) ∧
    Passed fs (levelStep fs ptr k).2 k := by
  unfold levelStep
  have hsub : (fs.drop ptr).Sublist fs := List.drop_sublist ptr fs
  obtain ⟨h1, h2, h3, h4⟩ := scanFiles_spec k (fs.drop ptr) ptr
    (fun f hf => hw f (hsub.subset hf)) (List.Pairwise.sublist hsub hl)
  have hpassed : ∀ f ∈ fs.take ptr, bytesLt f.largest.1 k = true := fun f hf =>
    bytes_st.lt_of_lt_of_le (hp f hf) hk
  constructor
  · rw [h1]
    conv => rhs; rw [← List.take_append_drop ptr fs, List.any_append]
    have : (fs.take ptr).any (fun f => userRangeOverlaps f k k) = false := by
      rw [List.any_eq_false]
      intro f hf
      simp [userRangeOverlaps, hpassed f hf]
    rw [this, Bool.false_or]
  · intro f hf
    generalize hq : (scanFiles k (fs.drop ptr) ptr).2 = q at hf h2 h3 h4
    have hsplit : fs.take q = fs.take ptr ++ (fs.drop ptr).take (q - ptr) := by
      have : q = ptr + (q - ptr) := by omega
      conv => lhs; rw [this]
      rw [List.take_add]
    rw [hsplit] at hf
    rcases List.mem_append.mp hf with h | h
    · exact hpassed f h
    · exact h4 f h

/-- the invariant over all deeper levels -/
def PassedAll : List (List File) → List Nat → Bytes → Prop
  | [], _, _ => True
  | fs :: ls, ptrs, kprev => Passed fs (ptrs.headD 0) kprev ∧ PassedAll ls ptrs.tail kprev

theorem passedAll_mono {deeper : List (List File)} {ptrs : List Nat} {kprev k : Bytes}
    (h : PassedAll deeper ptrs kprev) (hk : bytesLt k kprev = false) : PassedAll deeper ptrs k := by
  induction deeper generalizing ptrs with
  | nil => trivial
  | cons fs ls ih =>
    exact ⟨fun f hf => bytes_st.lt_of_lt_of_le (h.1 f hf) hk, ih h.2⟩

theorem passedAll_zero (deeper : List (List File)) (k : Bytes) : PassedAll deeper [] k := by
  induction deeper with
  | nil => trivial
  | cons fs ls ih => exact ⟨fun f hf => by simp at hf, ih⟩

theorem isBaseP_spec (deeper : List (List File)) (ptrs : List Nat) (kprev k : Bytes)
    (hw : ∀ fs ∈ deeper, ∀ f ∈ fs, Wf f) (hl : ∀ fs ∈ deeper, LevelOk fs)
    (hp : PassedAll deeper ptrs kprev) (hk : bytesLt k kprev = false) :
    (isBaseP deeper ptrs k).1 = deeper.flatten.all (fun f => !userRangeOverlaps f k k) ∧
    PassedAll deeper (isBaseP deeper ptrs k).2 k := by
  induction deeper generalizing ptrs with
  | nil => simp [isBaseP, PassedAll]
  | cons fs ls ih =>
    obtain ⟨h1, h2⟩ := levelStep_spec fs (ptrs.headD 0) kprev k (hw fs (List.mem_cons_self ..))
      (hl fs (List.mem_cons_self ..)) hp.1 hk
    simp only [isBaseP]
    split
    · rename_i hhit
      rw [h1] at hhit
      refine ⟨?_, ?_⟩
      · simp only [List.flatten_cons, List.all_append]
        have : fs.all (fun f => !userRangeOverlaps f k k) = false := by
          rw [List.all_eq_false]
          obtain ⟨f, hf, hov⟩ := List.any_eq_true.mp hhit
          exact ⟨f, hf, by simp [hov]⟩
        rw [this, Bool.false_and]
      · exact ⟨h2, passedAll_mono hp.2 hk⟩
    · rename_i hmiss
      rw [h1] at hmiss
      obtain ⟨i1, i2⟩ := ih ptrs.tail (fun fs' h' => hw fs' (List.mem_cons_of_mem _ h'))
        (fun fs' h' => hl fs' (List.mem_cons_of_mem _ h')) hp.2
      refine ⟨?_, ⟨h2, i2⟩⟩
      simp only [List.flatten_cons, List.all_append]
      have : fs.all (fun f => !userRangeOverlaps f k k) = true := by
        rw [List.all_eq_true]
        intro f hf
        have hm : fs.any (fun f => userRangeOverlaps f k k) = false := by simpa using hmiss
        have := List.any_eq_false.mp hm f hf
        simpa using this
      rw [this, Bool.true_and]
      exact i1

theorem isBaseSeq_spec (deeper : List (List File)) (ptrs : List Nat) (kprev : Bytes) (ks : List Bytes)
    (hw : ∀ fs ∈ deeper, ∀ f ∈ fs, Wf f) (hl : ∀ fs ∈ deeper, LevelOk fs)
    (hp : PassedAll deeper ptrs kprev) (ha : Ascending (kprev :: ks)) :
    isBaseSeq deeper ptrs ks =
      ks.map fun k => deeper.flatten.all (fun f => !userRangeOverlaps f k k) := by
  induction ks generalizing ptrs kprev with
  | nil => rfl
  | cons k ks ih =>
    obtain ⟨h1, h2⟩ := isBaseP_spec deeper ptrs kprev k hw hl hp ha.1
    simp only [isBaseSeq, List.map_cons, h1]
    rw [ih _ k h2 ha.2]

end Rain.BaseLevel.Lemmas
