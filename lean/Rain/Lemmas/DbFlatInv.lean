import Rain.Lemmas.DbFlatNext
import Rain.Lemmas.DbFlatPrev
/-
The invariant relating a `DatabaseIterator` state over a flat sorted list to a position among the
visible pairs, and how the results of `findNext` / `findPrev` re-establish it.
-/
set_option linter.unusedSectionVars false
namespace Rain.DbFlat
open Rain Rain.Lsm Rain.Table Rain.Merge Rain.DbIter Rain.OrderIter Rain.Visible Rain.Cut Rain.DbEqns

def Inv (es : List Entry) (snap : Nat) (st : DState Nat) (v : Nat) : Prop :=
  (st.valid = false ∧ (visList es snap).length ≤ v) ∨
  (st.valid = true ∧ st.dir = .fwd ∧ ∃ j e, st.inner = j ∧ es[j]? = some e ∧ visB es snap e = true ∧
      v = vpos es snap j) ∨
  (st.valid = true ∧ st.dir = .bwd ∧ ∃ r e, es[r]? = some e ∧ visB es snap e = true ∧
      st.ckey = some e.ukey ∧ st.cval = some e.val ∧ Cgap es snap st.inner r ∧ v = vpos es snap r)

theorem cnt_idx {es : List Entry} (hs : Sorted es) {P : Entry → Bool} (hP : LowerSet P) {i : Nat} {x : Entry}
    (hx : es[i]? = some x) : i < cnt P es ↔ P x = true := by
  obtain ⟨l, r, h1, h2, h3, h4⟩ := Cut.split hP hs
  rw [← h2]
  subst h1
  by_cases hi : i < l.length
  · rw [List.getElem?_append_left hi] at hx
    simp [hi, h3 x (List.mem_of_getElem? hx)]
  · rw [List.getElem?_append_right (by omega)] at hx
    simp [hi, h4 x (List.mem_of_getElem? hx)]

section
variable {es : List Entry} (hs : Sorted es) {snap : Nat}
include hs

theorem inv_current {st : DState Nat} {v : Nat} (h : Inv es snap st v) :
    dbCurrent (flatInner es) st = (visible snap es none)[v]? := by
  rcases h with ⟨h1, h2⟩ | ⟨h1, h2, j, e, h3, h4, h5, h6⟩ | ⟨h1, h2, r, e, h3, h4, h5, h6, _, h8⟩
  · rw [← visible_length hs] at h2
    rw [List.getElem?_eq_none h2]
    simp [dbCurrent, h1]
  · subst h6
    rw [vpos_get hs h4 h5]
    simp [dbCurrent, h1, h2, flat_cur, h3, h4]
  · subst h8
    rw [vpos_get hs h3 h4]
    simp [dbCurrent, h1, h2, h5, h6]

/-- a later visible entry of a different... a visible entry after a visible entry has a larger user key -/
theorem above_of_vis_after {j i : Nat} {e0 e : Entry} (he0 : es[j]? = some e0) (hq0 : e0.seq ≤ snap)
    (hji : j < i) (he : es[i]? = some e) (hv : visB es snap e = true) : bytesLt e0.ukey e.ukey = true := by
  have h1 := ukey_le_idx hs (Nat.le_of_lt hji) he0 he
  cases h2 : bytesLt e0.ukey e.ukey
  · exfalso
    have heq := bLt_total h2 h1
    have hlt := seq_lt_idx hs hji he0 he heq
    have := vis_before hv he0 heq hlt
    omega
  · rfl

theorem next_inv {j j1 : Nat} {thr : Option Bytes} {r : DState Nat} (hr : NextRes es snap j thr r)
    (hdir : r.dir = .fwd)
    (hvis : ∀ i e, j1 ≤ i → es[i]? = some e → visB es snap e = true → j ≤ i ∧ Above thr e.ukey)
    (hge : ∀ i, j ≤ i → Target es snap thr i → j1 ≤ i) :
    Inv es snap r (vpos es snap j1) := by
  obtain ⟨_, hr⟩ := hr
  rcases hr with ⟨a1, a2, a3, a4⟩ | ⟨a1, a2⟩
  · right; left
    obtain ⟨e, he, hv, habove⟩ := a3
    refine ⟨a1, hdir, r.inner, e, rfl, he, hv, ?_⟩
    have hle := hge r.inner a2 ⟨e, he, hv, habove⟩
    symm
    apply vpos_eq_of_nv hle
    intro i h1 h2 y hy
    cases hvy : visB es snap y
    · rfl
    · exfalso
      obtain ⟨b1, b2⟩ := hvis i y h1 hy hvy
      exact a4 i b1 h2 ⟨y, hy, hvy, b2⟩
  · left
    refine ⟨a1, ?_⟩
    by_cases hle : j1 ≤ es.length
    · have : vpos es snap es.length = vpos es snap j1 := by
        apply vpos_eq_of_nv hle
        intro i h1 h2 y hy
        cases hvy : visB es snap y
        · rfl
        · exfalso
          obtain ⟨b1, b2⟩ := hvis i y h1 hy hvy
          exact a2 i b1 ⟨y, hy, hvy, b2⟩
      rw [← this, vpos_ge (Nat.le_refl _)]
      exact Nat.le_refl _
    · rw [vpos_ge (by omega)]
      exact Nat.le_refl _

theorem findPrev_invalid (fuel : Nat) (st : DState Nat) (h : es[st.inner]? = none) :
    (findPrev (flatInner es) snap fuel st).valid = false := by
  have : findPrevLoop (flatInner es) snap fuel st false = (st, false) := by
    cases fuel with
    | zero => rfl
    | succ f => rw [findPrevLoop_succ, flat_cur, h]
  simp [findPrev, this]

theorem prev_inv {b j1 fuel : Nat} {st : DState Nat} (hdir : st.dir = .bwd)
    (hres : PrevRes es snap b (findPrevLoop (flatInner es) snap fuel st false))
    (hb : b < j1) (hnv : ∀ i, b < i → i < j1 → NV es snap i) :
    Inv es snap (findPrev (flatInner es) snap fuel st)
      (if vpos es snap j1 = 0 then (visList es snap).length else vpos es snap j1 - 1) := by
  have hd := findPrevLoop_dir (flatInner es) snap fuel st false
  revert hres hd
  unfold findPrev
  cases findPrevLoop (flatInner es) snap fuel st false with
  | mk s1 lp =>
    intro hres hd
    simp only at hd
    cases lp with
    | true =>
      simp only [if_true]
      obtain ⟨r0, e, h1, h2, h3, h4, h5, h6, h7⟩ := hres.1 rfl
      have hX : vpos es snap j1 = vpos es snap r0 + 1 := by
        have h8 : vpos es snap j1 = vpos es snap (r0 + 1) := by
          apply vpos_eq_of_nv (by omega)
          intro i hi1 hi2
          by_cases hib : i ≤ b
          · exact h6 i (by omega) hib
          · exact hnv i (by omega) hi2
        rw [h8, vpos_succ_some h2, h3]; simp
      right; right
      refine ⟨rfl, hd.trans hdir, r0, e, h2, h3, h4, h5, h7, ?_⟩
      rw [hX]; simp
    | false =>
      simp only [Bool.false_eq_true, if_false]
      have hX : vpos es snap j1 = 0 := by
        rw [← vpos_zero es snap]
        apply vpos_eq_of_nv (Nat.zero_le _)
        intro i _ hi2
        by_cases hib : i ≤ b
        · exact hres.2 rfl i hib
        · exact hnv i (by omega) hi2
      left
      refine ⟨rfl, ?_⟩
      rw [hX]; simp

end

end Rain.DbFlat
