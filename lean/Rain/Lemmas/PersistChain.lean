import Rain.Lemmas.PersistTight
/-
Every PREFIX of the operations of a step: the image corresponds to the instance state before the
step or to the state after it (the switch happens at the manifest append / at CURRENT), and every
operation is accepted by the monitor.  This is what a failure of the i-th filesystem call of a
step leaves behind (C08), and what a crash at that point leaves on disk (C02).
-/
namespace Rain.Persist.Lemmas
open Rain Rain.Lsm Rain.Durable Rain.Persist Rain.Lsm.Lemmas Rain.Durable.Lemmas


end Rain.Persist.Lemmas
