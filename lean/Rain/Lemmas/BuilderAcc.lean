import Rain.Builder
/-
What `accumulate_changes` leaves in the deleted and added sets.
-/
namespace Rain.Builder.Lemmas
open Rain Rain.Lsm Rain.Builder

/-- the (level, number) of an added file -/
def pairOf (a : Nat × File) : Nat × Nat := (a.1, a.2.num)

theorem addedPairs_eq (e : Edit) : e.addedPairs = e.added.map pairOf := rfl

section sets
variable {α : Type} [DecidableEq α]

theorem mem_setInsert {x y : α} {s : List α} : y ∈ setInsert x s ↔ y ∈ s ∨ y = x := by
  unfold setInsert
  split
  · rename_i h
    constructor
    · exact Or.inl
    · rintro (h' | rfl)
      · exact h'
      · exact h
  · simp

theorem mem_setRemove {x y : α} {s : List α} : y ∈ setRemove x s ↔ y ∈ s ∧ y ≠ x := by
  simp [setRemove, List.mem_filter]

theorem mem_foldl_setInsert (xs : List α) (s : List α) (y : α) :
    y ∈ xs.foldl (fun d x => setInsert x d) s ↔ y ∈ s ∨ y ∈ xs := by
  induction xs generalizing s with
  | nil => simp
  | cons x xs ih =>
    simp only [List.foldl_cons, ih, mem_setInsert, List.mem_cons]
    constructor
    · rintro ((h | h) | h)
      · exact Or.inl h
      · exact Or.inr (Or.inl h)
      · exact Or.inr (Or.inr h)
    · rintro (h | h | h)
      · exact Or.inl (Or.inl h)
      · exact Or.inl (Or.inr h)
      · exact Or.inr h

theorem foldl_setInsert_eq_append (xs : List α) (s : List α) (h : (s ++ xs).Nodup) :
    xs.foldl (fun d x => setInsert x d) s = s ++ xs := by
  induction xs generalizing s with
  | nil => simp
  | cons x xs ih =>
    have hx : x ∉ s := by
      intro hm
      have := (List.nodup_append.mp h).2.2 x hm x (List.mem_cons_self ..)
      exact this rfl
    simp only [List.foldl_cons]
    have hs : setInsert x s = s ++ [x] := by simp [setInsert, hx]
    rw [hs, ih (s ++ [x]) (by simpa using h)]
    simp

end sets

theorem nodup_of_nodup_map {α β : Type} (f : α → β) {l : List α} (h : (l.map f).Nodup) : l.Nodup := by
  unfold List.Nodup at *
  rw [List.pairwise_map] at h
  exact h.imp (fun hab e => hab (by rw [e]))

/-! ### the fold over the added files -/

theorem foldl_addOne_pointers (as : List (Nat × File)) (b : Builder) :
    (as.foldl addOne b).pointers = b.pointers := by
  induction as generalizing b with
  | nil => rfl
  | cons a as ih => simp only [List.foldl_cons, ih]; rfl

theorem foldl_addOne_added (as : List (Nat × File)) (b : Builder) :
    (as.foldl addOne b).added = as.foldl (fun s a => setInsert a s) b.added := by
  induction as generalizing b with
  | nil => rfl
  | cons a as ih => simp only [List.foldl_cons, ih]; rfl

theorem mem_foldl_addOne_deleted (as : List (Nat × File)) (b : Builder) (y : Nat × Nat) :
    y ∈ (as.foldl addOne b).deleted ↔ y ∈ b.deleted ∧ y ∉ as.map pairOf := by
  induction as generalizing b with
  | nil => simp
  | cons a as ih =>
    simp only [List.foldl_cons, ih, addOne, mem_setRemove, List.map_cons, List.mem_cons, not_or, pairOf]
    constructor
    · rintro ⟨⟨h1, h2⟩, h3⟩; exact ⟨h1, h2, h3⟩
    · rintro ⟨h1, h2, h3⟩; exact ⟨⟨h1, h2⟩, h3⟩

/-! ### one edit -/

theorem mem_accumulate_deleted (b : Builder) (e : Edit) (y : Nat × Nat) :
    y ∈ (accumulate b e).deleted ↔ (y ∈ b.deleted ∨ y ∈ e.deleted) ∧ y ∉ e.addedPairs := by
  unfold accumulate
  simp only [mem_foldl_addOne_deleted, mem_foldl_setInsert, addedPairs_eq]

theorem accumulate_added (b : Builder) (e : Edit) :
    (accumulate b e).added = e.added.foldl (fun s a => setInsert a s) b.added := by
  unfold accumulate
  simp only [foldl_addOne_added]

theorem mem_accumulate_added (b : Builder) (e : Edit) (a : Nat × File) :
    a ∈ (accumulate b e).added ↔ a ∈ b.added ∨ a ∈ e.added := by
  rw [accumulate_added, mem_foldl_setInsert]

theorem accumulate_added_eq (b : Builder) (e : Edit) (h : (b.added ++ e.added).Nodup) :
    (accumulate b e).added = b.added ++ e.added := by
  rw [accumulate_added, foldl_setInsert_eq_append _ _ h]

/-! ### many edits -/

/-- when no (level, number) pair is added twice, the added set is the concatenation of all added
lists, in order -/
theorem foldl_accumulate_added_eq (es : List Edit) (b : Builder)
    (h : (b.added.map pairOf ++ (es.map Edit.addedPairs).flatten).Nodup) :
    (es.foldl accumulate b).added = b.added ++ (es.map Edit.added).flatten := by
  induction es generalizing b with
  | nil => simp
  | cons e es ih =>
    simp only [List.map_cons, List.flatten_cons, ← List.append_assoc] at h
    have h1 : (b.added ++ e.added).Nodup := by
      have := (List.nodup_append.mp h).1
      rw [addedPairs_eq, ← List.map_append] at this
      exact nodup_of_nodup_map pairOf this
    have e1 := accumulate_added_eq b e h1
    simp only [List.foldl_cons]
    rw [ih (accumulate b e) (by rw [e1, List.map_append, ← addedPairs_eq]; exact h), e1]
    simp

theorem flatten_added_pairs (es : List Edit) :
    ((es.map Edit.added).flatten).map pairOf = (es.map Edit.addedPairs).flatten := by
  induction es with
  | nil => rfl
  | cons e es ih => simp [ih, addedPairs_eq]

end Rain.Builder.Lemmas
