import Rain.Lemmas.DurSort
/-
The WAL entries recovery replays, and how the three WAL operations change them.
-/
namespace Rain.Durable.Lemmas
open Rain Rain.Lsm Rain.Durable

def walFlat (w : Wal) : List Entry := (w.2.map batchEntries).flatten

def walEntriesOf (wals : List Wal) (walNo : Nat) : List Entry :=
  (((sortWals wals).filter fun w => decide (walNo ≤ w.1)).map walFlat).flatten

theorem walEntries_createWal (wals : List Wal) (n walNo : Nat) (h : ∀ x ∈ wals, x.1 < n) :
    walEntriesOf (update wals n []) walNo = walEntriesOf wals walNo := by
  have hn : n ∉ wals.map Prod.fst := by
    intro hm; obtain ⟨x, hx, hxn⟩ := List.mem_map.1 hm; have := h x hx; omega
  rw [update_of_not_mem wals n [] hn]
  unfold walEntriesOf
  rw [sortWals_append_max wals (n, []) h, List.filter_append, List.map_append, List.flatten_append]
  by_cases hw : walNo ≤ n
  · simp [hw, walFlat]
  · simp [hw]

theorem walEntries_removeWal (wals : List Wal) (n walNo : Nat) (h : n < walNo) :
    walEntriesOf (erase wals n) walNo = walEntriesOf wals walNo := by
  unfold walEntriesOf erase
  rw [filter_sortWals, filter_sortWals, List.filter_filter]
  congr 3
  apply List.filter_congr
  intro x _
  by_cases hx : walNo ≤ x.1
  · have : x.1 ≠ n := by omega
    simp [hx, this]
  · simp [hx]

/-- WALs without records contribute nothing to the replay -/
theorem flat_of_all_empty (p : Wal → Bool) (ys : List Wal) (h : ∀ x ∈ ys, x.2 = []) :
    ((ys.filter p).map walFlat).flatten = [] := by
  induction ys with
  | nil => rfl
  | cons y ys ih =>
    have hy : walFlat y = [] := by unfold walFlat; rw [h y List.mem_cons_self]; rfl
    have ih' := ih (fun x hx => h x (List.mem_cons_of_mem _ hx))
    rw [List.filter_cons]
    by_cases hp : p y = true
    · rw [if_pos hp, List.map_cons, List.flatten_cons, hy, ih']; rfl
    · rw [if_neg hp]; exact ih'

theorem walFlat_snoc (n : Nat) (v : List WBatch) (b : WBatch) :
    walFlat (n, v ++ [b]) = walFlat (n, v) ++ batchEntries b := by
  simp [walFlat]

/-- in a list sorted by number (numbers unique), appending a batch to WAL `n` appends its entries
to the END of the replayed entries, provided every WAL behind `n` is empty -/
theorem flat_setAt_sorted (L : List Wal) (n walNo : Nat) (v : List WBatch) (b : WBatch)
    (hs : Sorted L) (hnd : (L.map Prod.fst).Nodup) (hmem : (n, v) ∈ L)
    (hemp : ∀ x ∈ L, n < x.1 → x.2 = []) (hw : walNo ≤ n) :
    (((L.map (setAt n (v ++ [b]))).filter fun w => decide (walNo ≤ w.1)).map walFlat).flatten
      = ((L.filter fun w => decide (walNo ≤ w.1)).map walFlat).flatten ++ batchEntries b := by
  induction L with
  | nil => simp at hmem
  | cons y ys ih =>
    unfold Sorted at hs ih
    rw [List.pairwise_cons] at hs
    simp only [List.map_cons, List.nodup_cons] at hnd
    have hemp' : ∀ x ∈ ys, n < x.1 → x.2 = [] := fun x hx => hemp x (List.mem_cons_of_mem _ hx)
    by_cases hy : y = (n, v)
    · subst hy
      have hgt : ∀ x ∈ ys, n < x.1 := by
        intro x hx
        have h1 : n ≤ x.1 := hs.1 x hx
        have h2 : x.1 ≠ n := by
          intro hxn; apply hnd.1; simp only; rw [← hxn]; exact List.mem_map.2 ⟨x, hx, rfl⟩
        omega
      have hmap : ys.map (setAt n (v ++ [b])) = ys := by
        conv => rhs; rw [← List.map_id ys]
        apply List.map_congr_left
        intro x hx; exact setAt_of_ne _ _ _ (by have := hgt x hx; omega)
      have hall : ∀ x ∈ ys, x.2 = [] := fun x hx => hemp' x hx (hgt x hx)
      have e1 : setAt n (v ++ [b]) (n, v) = (n, v ++ [b]) := by simp [setAt]
      have hd : decide (walNo ≤ n) = true := by simpa using hw
      rw [List.map_cons, hmap, e1, List.filter_cons, List.filter_cons]
      simp only [hd, if_true, List.map_cons, List.flatten_cons]
      rw [flat_of_all_empty _ ys hall, walFlat_snoc]
      simp
    · have hmem' : (n, v) ∈ ys := by
        rcases List.mem_cons.1 hmem with h | h
        · exact absurd h.symm hy
        · exact h
      have hyn : y.1 ≠ n := by
        intro h; apply hnd.1; rw [h]; exact List.mem_map.2 ⟨(n, v), hmem', rfl⟩
      have ih' := ih hs.2 hnd.2 hmem' hemp'
      rw [List.map_cons, setAt_of_ne _ _ _ hyn, List.filter_cons, List.filter_cons]
      by_cases hp : decide (walNo ≤ y.1) = true
      · rw [if_pos hp, if_pos hp, List.map_cons, List.map_cons, List.flatten_cons, List.flatten_cons,
          ih', List.append_assoc]
      · rw [if_neg hp, if_neg hp]; exact ih'

/-- appending to WAL `n` while every WAL with a larger number is still empty (a rotation that
failed half-way leaves such a file behind) appends to the end of what recovery replays -/
theorem walEntries_appendWal (wals : List Wal) (n walNo : Nat) (b : WBatch)
    (hnd : (wals.map Prod.fst).Nodup) (hmem : n ∈ wals.map Prod.fst)
    (hemp : ∀ x ∈ wals, n < x.1 → x.2 = [])
    (hw : walNo ≤ n) :
    walEntriesOf (update wals n ((lookup wals n).getD [] ++ [b])) walNo
      = walEntriesOf wals walNo ++ batchEntries b := by
  obtain ⟨v, hv⟩ := lookup_isSome_of_mem_keys wals n hmem
  have hin := mem_of_lookup wals n v hv
  rw [hv, Option.getD_some, update_of_mem wals n _ hmem]
  unfold walEntriesOf
  rw [sortWals_map _ (setAt_fst n (v ++ [b]))]
  exact flat_setAt_sorted (sortWals wals) n walNo v b (sorted_sortWals wals)
    (nodup_keys_sortWals wals hnd) ((mem_sortWals _ _).2 hin)
    (fun x hx => hemp x ((mem_sortWals x wals).1 hx)) hw

end Rain.Durable.Lemmas
