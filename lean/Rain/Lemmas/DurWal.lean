import Rain.Lemmas.DurSort
/-
The WAL entries recovery replays, and how the three WAL operations change them.
-/
namespace Rain.Durable.Lemmas
open Rain Rain.Lsm Rain.Durable

def walFlat (w : Wal) : List Entry := (w.2.map batchEntries).flatten

def walEntriesOf (wals : List Wal) (walNo : Nat) : List Entry :=
  (((sortWals wals).filter fun w => decide (walNo ≤ w.1)).map walFlat).flatten

theorem walEntries_createWal (wals : List Wal) (n walNo : Nat) (h : ∀ x ∈ wals, x.1 < n) :
    walEntriesOf (update wals n []) walNo = walEntriesOf wals walNo := by
  have hn : n ∉ wals.map Prod.fst := by
    intro hm; obtain ⟨x, hx, hxn⟩ := List.mem_map.1 hm; have := h x hx; omega
  rw [update_of_not_mem wals n [] hn]
  unfold walEntriesOf
  rw [sortWals_append_max wals (n, []) h, List.filter_append, List.map_append, List.flatten_append]
  by_cases hw : walNo ≤ n
  · simp [hw, walFlat]
  · simp [hw]

theorem walEntries_removeWal (wals : List Wal) (n walNo : Nat) (h : n < walNo) :
    walEntriesOf (erase wals n) walNo = walEntriesOf wals walNo := by
  unfold walEntriesOf erase
  rw [filter_sortWals, filter_sortWals, List.filter_filter]
  congr 3
  apply List.filter_congr
  intro x _
  by_cases hx : walNo ≤ x.1
  · have : x.1 ≠ n := by omega
    simp [hx, this]
  · simp [hx]

theorem walEntries_appendWal (wals : List Wal) (n walNo : Nat) (b : WBatch)
    (hnd : (wals.map Prod.fst).Nodup) (hmem : n ∈ wals.map Prod.fst) (hmax : ∀ x ∈ wals, x.1 ≤ n)
    (hw : walNo ≤ n) :
    walEntriesOf (update wals n ((lookup wals n).getD [] ++ [b])) walNo
      = walEntriesOf wals walNo ++ batchEntries b := by
  obtain ⟨v, hv⟩ := lookup_isSome_of_mem_keys wals n hmem
  have hin := mem_of_lookup wals n v hv
  rw [hv, Option.getD_some, update_of_mem wals n _ hmem]
  unfold walEntriesOf
  rw [sortWals_map _ (setAt_fst n (v ++ [b])), sortWals_max wals n v hnd hin hmax]
  have hP : ∀ x ∈ sortWals (wals.filter fun p => !(p.1 == n)), x.1 ≠ n := by
    intro x hx
    have := (List.mem_filter.1 ((mem_sortWals x _).1 hx)).2
    simpa using this
  have hmapP : (sortWals (wals.filter fun p => !(p.1 == n))).map (setAt n (v ++ [b]))
      = sortWals (wals.filter fun p => !(p.1 == n)) := by
    conv => rhs; rw [← List.map_id (sortWals _)]
    apply List.map_congr_left
    intro x hx; exact setAt_of_ne _ _ _ (hP x hx)
  rw [List.map_append, hmapP]
  simp only [List.filter_append, List.map_append, List.flatten_append, List.map_cons, List.map_nil]
  have e1 : setAt n (v ++ [b]) (n, v) = (n, v ++ [b]) := by simp [setAt]
  rw [e1]
  simp [hw, walFlat, List.append_assoc]

end Rain.Durable.Lemmas
