import Rain.Builder
import Rain.Lemmas.LsmInv
/-
The order `FileMetadataBySmallestKey` and the sort / merge of the version builder:
permutation, sortedness, and "sorted + same files + distinct numbers ⇒ same list".
-/
namespace Rain.Builder.Lemmas
open Rain Rain.Lsm Rain.Lsm.Lemmas Rain.Builder

/-! ### `fileLe` is a total preorder, antisymmetric up to (smallest key, number) -/

theorem fileLe_total (a b : File) : (fileLe a b || fileLe b a) = true := by
  unfold fileLe
  cases h1 : kLt a.smallest b.smallest <;> cases h2 : kLt b.smallest a.smallest <;> simp
  omega

theorem fileLe_of_not {a b : File} (h : fileLe a b = false) : fileLe b a = true := by
  have := fileLe_total a b
  rw [h] at this
  simpa using this

theorem fileLe_trans {a b c : File} (h1 : fileLe a b = true) (h2 : fileLe b c = true) :
    fileLe a c = true := by
  unfold fileLe at *
  simp only [Bool.or_eq_true, Bool.and_eq_true, Bool.not_eq_true', decide_eq_true_eq] at *
  rcases h1 with h1 | ⟨h1, n1⟩ <;> rcases h2 with h2 | ⟨h2, n2⟩
  · exact Or.inl (k_st.trans _ _ _ h1 h2)
  · exact Or.inl (k_st.lt_of_lt_of_le h1 h2)
  · exact Or.inl (k_st.lt_of_le_of_lt h1 h2)
  · exact Or.inr ⟨k_st.le_trans h1 h2, by omega⟩

theorem fileLe_antisymm {a b : File} (h1 : fileLe a b = true) (h2 : fileLe b a = true) :
    a.smallest = b.smallest ∧ a.num = b.num := by
  unfold fileLe at *
  simp only [Bool.or_eq_true, Bool.and_eq_true, Bool.not_eq_true', decide_eq_true_eq] at *
  rcases h1 with h1 | ⟨h1, n1⟩ <;> rcases h2 with h2 | ⟨h2, n2⟩
  · have := k_st.asymm h1; rw [this] at h2; cases h2
  · rw [h2] at h1; cases h1
  · rw [h1] at h2; cases h2
  · exact ⟨k_st.tri _ _ h2 h1, by omega⟩

/-- sorted by `FileMetadataBySmallestKey` -/
def SortedF (l : List File) : Prop := l.Pairwise (fun a b => fileLe a b = true)

/-! ### insertion sort -/

theorem insertF_perm (f : File) (l : List File) : (insertF f l).Perm (f :: l) := by
  induction l with
  | nil => simp [insertF]
  | cons g gs ih =>
    simp only [insertF]
    split
    · exact List.Perm.refl _
    · exact (List.Perm.cons g ih).trans (List.Perm.swap f g gs)

theorem sortF_perm (l : List File) : (sortF l).Perm l := by
  induction l with
  | nil => simp [sortF]
  | cons f fs ih =>
    simp only [sortF]
    exact (insertF_perm f (sortF fs)).trans (List.Perm.cons f ih)

theorem insertF_sorted {f : File} {l : List File} (h : SortedF l) : SortedF (insertF f l) := by
  unfold SortedF at *
  induction l with
  | nil => simp [insertF]
  | cons g gs ih =>
    have hp := List.pairwise_cons.mp h
    simp only [insertF]
    split
    · rename_i hle
      refine List.Pairwise.cons ?_ h
      intro x hx
      rcases List.mem_cons.mp hx with rfl | hx
      · exact hle
      · exact fileLe_trans hle (hp.1 x hx)
    · rename_i hle
      have hgf : fileLe g f = true := fileLe_of_not (by simpa using hle)
      refine List.Pairwise.cons ?_ (ih hp.2)
      intro x hx
      rcases List.mem_cons.mp ((insertF_perm f gs).mem_iff.mp hx) with rfl | hx'
      · exact hgf
      · exact hp.1 x hx'

theorem sortF_sorted (l : List File) : SortedF (sortF l) := by
  induction l with
  | nil => simp [sortF, SortedF]
  | cons f fs ih => exact insertF_sorted ih

/-! ### merge -/

@[simp] theorem mergeF_nil_left (bs : List File) : mergeF [] bs = bs := by simp [mergeF]

@[simp] theorem mergeF_nil_right (as : List File) : mergeF as [] = as := by
  cases as <;> simp [mergeF, mergeAux]

theorem mergeF_cons_cons (a : File) (as : List File) (b : File) (bs : List File) :
    mergeF (a :: as) (b :: bs) =
      if fileLe a b then a :: mergeF as (b :: bs) else b :: mergeF (a :: as) bs := by
  simp [mergeF, mergeAux]

theorem mergeF_perm (as bs : List File) : (mergeF as bs).Perm (as ++ bs) := by
  induction as generalizing bs with
  | nil => simp
  | cons a as iha =>
    induction bs with
    | nil => simp
    | cons b bs ihb =>
      rw [mergeF_cons_cons]
      split
      · exact List.Perm.cons a (iha (b :: bs))
      · exact (List.Perm.cons b ihb).trans
          ((List.Perm.swap a b _).trans (List.Perm.cons a List.perm_middle.symm))

theorem mem_mergeF {as bs : List File} {x : File} : x ∈ mergeF as bs ↔ x ∈ as ∨ x ∈ bs := by
  rw [(mergeF_perm as bs).mem_iff, List.mem_append]

theorem mergeF_sorted {as bs : List File} (ha : SortedF as) (hb : SortedF bs) :
    SortedF (mergeF as bs) := by
  unfold SortedF at *
  induction as generalizing bs with
  | nil => simpa using hb
  | cons a as iha =>
    induction bs with
    | nil => simpa using ha
    | cons b bs ihb =>
      have hpa := List.pairwise_cons.mp ha
      have hpb := List.pairwise_cons.mp hb
      rw [mergeF_cons_cons]
      split
      · rename_i hle
        refine List.Pairwise.cons ?_ (iha hpa.2 hb)
        intro x hx
        rcases mem_mergeF.mp hx with hx | hx
        · exact hpa.1 x hx
        · rcases List.mem_cons.mp hx with rfl | hx
          · exact hle
          · exact fileLe_trans hle (hpb.1 x hx)
      · rename_i hle
        have hba : fileLe b a = true := fileLe_of_not (by simpa using hle)
        refine List.Pairwise.cons ?_ (ihb hpb.2)
        intro x hx
        rcases mem_mergeF.mp hx with hx | hx
        · rcases List.mem_cons.mp hx with rfl | hx
          · exact hba
          · exact fileLe_trans hba (hpa.1 x hx)
        · exact hpb.1 x hx

/-! ### sorted lists with distinct numbers are determined by their elements -/

theorem nodup_of_nodup_nums {l : List File} (h : (l.map File.num).Nodup) : l.Nodup := by
  unfold List.Nodup at *
  rw [List.pairwise_map] at h
  exact h.imp (fun hab e => hab (by rw [e]))

theorem eq_of_sorted_of_mem {l₁ l₂ : List File} (h₁ : SortedF l₁) (h₂ : SortedF l₂)
    (n₁ : (l₁.map File.num).Nodup) (n₂ : (l₂.map File.num).Nodup)
    (hm : ∀ f, f ∈ l₁ ↔ f ∈ l₂) : l₁ = l₂ := by
  have hp : l₁.Perm l₂ :=
    (List.perm_ext_iff_of_nodup (nodup_of_nodup_nums n₁) (nodup_of_nodup_nums n₂)).mpr hm
  refine List.Perm.eq_of_pairwise (le := fun a b => fileLe a b = true) ?_ h₁ h₂ hp
  intro a b ha hb hab hba
  exact eq_of_num_eq n₂ ((hm a).mp ha) hb (fileLe_antisymm hab hba).2

/-- a level that satisfies the LSM invariant is sorted by `FileMetadataBySmallestKey` -/
theorem sortedF_of_levelOk {l : List File} (h : LevelOk l) (hf : ∀ f ∈ l, FileOk f) : SortedF l := by
  unfold SortedF
  unfold LevelOk at h
  induction l with
  | nil => exact List.Pairwise.nil
  | cons a l ih =>
    have hp := List.pairwise_cons.mp h
    refine List.Pairwise.cons ?_ (ih hp.2 (fun f hf' => hf f (List.mem_cons_of_mem _ hf')))
    intro b hb
    have h1 : kLt a.smallest b.smallest = true :=
      k_st.lt_of_le_of_lt (hf a (List.mem_cons_self ..)).small_le_large (hp.1 b hb)
    simp [fileLe, h1]

end Rain.Builder.Lemmas
