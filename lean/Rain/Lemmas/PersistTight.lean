import Rain.Lemmas.PersistReopen
/-
The directory of the persisted system holds EXACTLY the live files: the tables of the version, the
WALs of the two memtables, the current manifest (C11 over the composed model).
-/
namespace Rain.Persist.Lemmas
open Rain Rain.Lsm Rain.Durable Rain.Persist Rain.Lsm.Lemmas Rain.Durable.Lemmas

def keys {α : Type} (l : List (Nat × α)) : List Nat := l.map Prod.fst

theorem mem_keys_update {α : Type} (l : List (Nat × α)) (n : Nat) (v : α) (k : Nat) :
    k ∈ keys (update l n v) ↔ k = n ∨ k ∈ keys l := by
  unfold keys
  by_cases hn : n ∈ l.map Prod.fst
  · rw [update_of_mem l n v hn, keys_map_setAt]
    constructor
    · exact Or.inr
    · rintro (rfl | h)
      · exact hn
      · exact h
  · rw [update_of_not_mem l n v hn]
    simp [or_comm]

theorem mem_keys_erase {α : Type} (l : List (Nat × α)) (n : Nat) (k : Nat) :
    k ∈ keys (erase l n) ↔ k ∈ keys l ∧ k ≠ n := by
  unfold keys erase
  simp only [List.mem_map, List.mem_filter, Bool.not_eq_true', beq_eq_false_iff_ne, ne_eq]
  constructor
  · rintro ⟨x, ⟨hx, hne⟩, rfl⟩; exact ⟨⟨x, hx, rfl⟩, hne⟩
  · rintro ⟨⟨x, hx, rfl⟩, hne⟩; exact ⟨x, ⟨hx, hne⟩, rfl⟩

/-- the directory holds exactly the live files -/
structure Tight (p : PState) : Prop where
  tables : ∀ t, t ∈ keys p.d.tables ↔ ∃ l f, f ∈ lv p.s.levels l ∧ f.num = t
  wals : ∀ n, n ∈ keys p.d.wals ↔ n = p.c.wal ∨ some n = p.c.immWal
  manifests : ∀ k, k ∈ keys p.d.manifests ↔ k = p.c.manifest

/-! ### key sets after the operation lists -/

theorem keys_ct (outs : List (Nat × List Entry)) (d : Disk) :
    (∀ t, t ∈ keys ((ctOps outs).foldl apply d).tables ↔ t ∈ keys d.tables ∨ t ∈ outs.map Prod.fst) ∧
    ((ctOps outs).foldl apply d).wals = d.wals ∧ ((ctOps outs).foldl apply d).manifests = d.manifests ∧
    ((ctOps outs).foldl apply d).current = d.current := by
  induction outs generalizing d with
  | nil => simp [ctOps]
  | cons o rest ih =>
    obtain ⟨h1, h2, h3, h4⟩ := ih (apply d (.completeTable o.1 o.2))
    refine ⟨?_, h2, h3, h4⟩
    intro t
    show t ∈ keys ((ctOps rest).foldl apply (apply d (.completeTable o.1 o.2))).tables ↔ _
    rw [h1 t]
    show t ∈ keys (update d.tables o.1 o.2) ∨ _ ↔ _
    rw [mem_keys_update]
    simp only [List.map_cons, List.mem_cons]
    constructor
    · rintro ((h | h) | h)
      · exact Or.inr (Or.inl h)
      · exact Or.inl h
      · exact Or.inr (Or.inr h)
    · rintro (h | h | h)
      · exact Or.inl (Or.inr h)
      · exact Or.inl (Or.inl h)
      · exact Or.inr h

theorem keys_rt (nums : List Nat) (d : Disk) :
    (∀ t, t ∈ keys ((rtOps nums).foldl apply d).tables ↔ t ∈ keys d.tables ∧ t ∉ nums) ∧
    ((rtOps nums).foldl apply d).wals = d.wals ∧ ((rtOps nums).foldl apply d).manifests = d.manifests ∧
    ((rtOps nums).foldl apply d).current = d.current := by
  induction nums generalizing d with
  | nil => simp [rtOps]
  | cons n rest ih =>
    obtain ⟨h1, h2, h3, h4⟩ := ih (apply d (.removeTable n))
    refine ⟨?_, h2, h3, h4⟩
    intro t
    show t ∈ keys ((rtOps rest).foldl apply (apply d (.removeTable n))).tables ↔ _
    rw [h1 t]
    show t ∈ keys (erase d.tables n) ∧ _ ↔ _
    rw [mem_keys_erase]
    simp only [List.mem_cons, not_or]
    constructor
    · rintro ⟨⟨h, hn⟩, hr⟩; exact ⟨h, hn, hr⟩
    · rintro ⟨h, hn, hr⟩; exact ⟨⟨h, hn⟩, hr⟩

end Rain.Persist.Lemmas

namespace Rain.Persist.Lemmas
open Rain Rain.Lsm Rain.Durable Rain.Persist Rain.Lsm.Lemmas Rain.Durable.Lemmas

theorem foldl_apply_append (d : Disk) (a b : List Op) : (a ++ b).foldl apply d = b.foldl apply (a.foldl apply d) :=
  List.foldl_append

/-- write, rotation, flush, trivial move, manifest switch -/
theorem tight_write {p : PState} (t : Tight p) (ops : List (Bytes × Option Bytes)) :
    Tight { s := stepWrite p.s ops, d := (opsOf p (.write ops)).foldl apply p.d, c := p.c } := by
  refine ⟨t.tables, ?_, t.manifests⟩
  intro n
  simp only [opsOf, List.foldl_cons, List.foldl_nil]
  show n ∈ keys (update p.d.wals p.c.wal _) ↔ _
  rw [mem_keys_update, t.wals n]
  constructor
  · rintro (h | h)
    · exact Or.inl h
    · exact h
  · exact Or.inr

theorem tight_rotate {p : PState} (t : Tight p) (h : Rel p) (w : Nat) (s' : State)
    (hs : stepRotate p.s = some s') :
    Tight { s := s', d := (opsOf p (.rotate w)).foldl apply p.d, c := ctxAfter p.c (.rotate w) } := by
  have himm : p.s.imm = none ∧ s' = { p.s with mem := [], imm := some p.s.mem } := by
    unfold stepRotate at hs
    cases hi : p.s.imm with
    | none => rw [hi] at hs; injection hs with hs; exact ⟨rfl, hs.symm⟩
    | some x => rw [hi] at hs; cases hs
  obtain ⟨hnone, rfl⟩ := himm
  have hcn : p.c.immWal = none := by
    rcases h.walImm with ⟨hh, _⟩ | ⟨_, im, _, _, him, _⟩
    · exact hh
    · rw [hnone] at him; cases him
  refine ⟨t.tables, ?_, t.manifests⟩
  intro n
  simp only [opsOf, List.foldl_cons, List.foldl_nil, ctxAfter]
  show n ∈ keys (update p.d.wals w []) ↔ _
  rw [mem_keys_update, t.wals n, hcn]
  constructor
  · rintro (h1 | h1 | h1)
    · exact Or.inl h1
    · exact Or.inr (by rw [h1])
    · cases h1
  · rintro (h1 | h1)
    · exact Or.inl h1
    · injection h1 with h1; exact Or.inr (Or.inl h1)

theorem tight_flush {p : PState} (t : Tight p) (h : Rel p) (num lvl : Nat) (s' : State)
    (hs : stepFlush p.s num lvl = some s') :
    Tight { s := s', d := (opsOf p (.flush num lvl)).foldl apply p.d, c := ctxAfter p.c (.flush num lvl) } := by
  rcases flush_cases hs with ⟨hi, hs'⟩ | ⟨e, es, hi, hlvl, hnum, hs'⟩
  all_goals
    (obtain ⟨wi, hwi, hlt⟩ : ∃ wi, p.c.immWal = some wi ∧ wi < p.c.wal := by
      rcases h.walImm with ⟨_, hn⟩ | ⟨wi, _, _, hwi, _, hlt, _, _⟩
      · rw [hi] at hn; cases hn
      · exact ⟨wi, hwi, hlt⟩)
  · refine ⟨?_, ?_, ?_⟩
    · intro x
      simp only [opsOf, hi, hwi, List.cons_append, List.nil_append, List.foldl_cons, List.foldl_nil]
      rw [hs']; exact t.tables x
    · intro n
      simp only [opsOf, hi, hwi, List.cons_append, List.nil_append, List.foldl_cons, List.foldl_nil, ctxAfter]
      show n ∈ keys (erase p.d.wals wi) ↔ _
      rw [mem_keys_erase, t.wals n, hwi]
      constructor
      · rintro ⟨h1 | h1, hne⟩
        · exact Or.inl h1
        · injection h1 with h1; exact absurd h1 hne
      · rintro (h1 | h1)
        · exact ⟨Or.inl h1, by omega⟩
        · cases h1
    · intro k
      simp only [opsOf, hi, hwi, List.cons_append, List.nil_append, List.foldl_cons, List.foldl_nil, ctxAfter]
      show k ∈ keys (update p.d.manifests p.c.manifest _) ↔ _
      rw [mem_keys_update, t.manifests k]; simp
  · have ht : lvl < 7 := by rcases hlvl with rfl | ⟨h1, _⟩ <;> omega
    have hlen : lvl < p.s.levels.length := by rw [h.inv.len]; exact ht
    refine ⟨?_, ?_, ?_⟩
    · intro x
      simp only [opsOf, hi, hwi, List.cons_append, List.nil_append, List.foldl_cons, List.foldl_nil]
      show x ∈ keys (update p.d.tables num (e :: es)) ↔ _
      rw [mem_keys_update, t.tables x, hs']
      constructor
      · rintro (rfl | ⟨l, f, hf, hn⟩)
        · exact ⟨lvl, _, (mem_lv_addToLevel p.s.levels _ hlen lvl _).mpr (Or.inr ⟨rfl, rfl⟩), rfl⟩
        · exact ⟨l, f, (mem_lv_addToLevel p.s.levels _ hlen l f).mpr (Or.inl hf), hn⟩
      · rintro ⟨l, f, hf, hn⟩
        rcases (mem_lv_addToLevel p.s.levels _ hlen l f).mp hf with hf | ⟨_, rfl⟩
        · exact Or.inr ⟨l, f, hf, hn⟩
        · exact Or.inl hn.symm
    · intro n
      simp only [opsOf, hi, hwi, List.cons_append, List.nil_append, List.foldl_cons, List.foldl_nil, ctxAfter]
      show n ∈ keys (erase p.d.wals wi) ↔ _
      rw [mem_keys_erase, t.wals n, hwi]
      constructor
      · rintro ⟨h1 | h1, hne⟩
        · exact Or.inl h1
        · injection h1 with h1; exact absurd h1 hne
      · rintro (h1 | h1)
        · exact ⟨Or.inl h1, by omega⟩
        · cases h1
    · intro k
      simp only [opsOf, hi, hwi, List.cons_append, List.nil_append, List.foldl_cons, List.foldl_nil, ctxAfter]
      show k ∈ keys (update p.d.manifests p.c.manifest _) ↔ _
      rw [mem_keys_update, t.manifests k]; simp

end Rain.Persist.Lemmas

namespace Rain.Persist.Lemmas
open Rain Rain.Lsm Rain.Durable Rain.Persist Rain.Lsm.Lemmas Rain.Durable.Lemmas

theorem tight_move {p : PState} (t : Tight p) (h : Rel p) (num lvl : Nat) (s' : State)
    (hs : stepTrivialMove p.s num lvl = some s') :
    Tight { s := s', d := (opsOf p (.trivialMove num lvl)).foldl apply p.d, c := p.c } := by
  obtain ⟨f, hp, ht, _, _, _, hs'⟩ := move_cases hs
  have hfm : f ∈ lv p.s.levels lvl ∧ f.num = num := by
    have : f ∈ pick (lv p.s.levels lvl) [num] := by rw [hp]; simp
    simpa [pick, List.mem_filter] using this
  have hlen : lvl + 1 < (removeNums p.s.levels lvl [num]).length := by
    rw [removeNums_length, h.inv.len]; exact ht
  have hmem : ∀ j g, g ∈ lv s'.levels j ↔
      (g ∈ lv p.s.levels j ∧ (j = lvl → g.num ≠ num)) ∨ (j = lvl + 1 ∧ g = f) := by
    intro j g
    rw [hs']
    show g ∈ lv (addToLevel (removeNums p.s.levels lvl [num]) (lvl + 1) f) j ↔ _
    rw [mem_lv_addToLevel _ f hlen j g, mem_lv_removeNums]
    simp
  refine ⟨?_, t.wals, ?_⟩
  · intro x
    simp only [opsOf, List.foldl_cons, List.foldl_nil]
    show x ∈ keys p.d.tables ↔ _
    rw [t.tables x]
    constructor
    · rintro ⟨l, g, hg, hn⟩
      by_cases hc : l = lvl ∧ g.num = num
      · -- the moved file itself: now one level down
        have : g = f := eq_of_num_eq (h.inv.numsL lvl) (hc.1 ▸ hg) hfm.1 (hc.2.trans hfm.2.symm)
        exact ⟨lvl + 1, f, (hmem _ _).mpr (Or.inr ⟨rfl, rfl⟩), by rw [← this]; exact hn⟩
      · exact ⟨l, g, (hmem l g).mpr (Or.inl ⟨hg, fun hl hgn => hc ⟨hl, hgn⟩⟩), hn⟩
    · rintro ⟨l, g, hg, hn⟩
      rcases (hmem l g).mp hg with ⟨hg, _⟩ | ⟨_, rfl⟩
      · exact ⟨l, g, hg, hn⟩
      · exact ⟨lvl, g, hfm.1, hn⟩
  · intro k
    simp only [opsOf, List.foldl_cons, List.foldl_nil]
    show k ∈ keys (update p.d.manifests p.c.manifest _) ↔ _
    rw [mem_keys_update, t.manifests k]; simp

theorem tight_switch {p : PState} (t : Tight p) (h : Rel p) (m' : Nat) (hm : p.c.manifest ≠ m') :
    Tight { s := p.s, d := (opsOf p (.switchManifest m')).foldl apply p.d,
            c := { p.c with manifest := m' } } := by
  refine ⟨t.tables, t.wals, ?_⟩
  intro k
  simp only [opsOf, List.foldl_cons, List.foldl_nil]
  show k ∈ keys (erase (update (update p.d.manifests m' []) m' _) p.c.manifest) ↔ _
  rw [mem_keys_erase, mem_keys_update, mem_keys_update, t.manifests k]
  constructor
  · rintro ⟨h1 | h1 | h1, hne⟩
    · exact h1
    · exact h1
    · exact absurd h1 hne
  · intro h1
    exact ⟨Or.inl h1, by rw [h1]; exact fun e => hm e.symm⟩

theorem tight_compact {p : PState} (t : Tight p) (h : Rel p) (c : Compaction) (s' : State)
    (hs : stepCompact p.s c = some s') :
    Tight { s := s', d := (opsOf p (.compact c)).foldl apply p.d, c := p.c } := by
  obtain ⟨hv, hs'⟩ := compact_cases hs
  have v := compactV_of_valid h.inv hv
  obtain ⟨hex0, hex1⟩ := inputs_exist h.inv hv
  have hmem : ∀ j g, g ∈ lv s'.levels j ↔
      (g ∈ lv p.s.levels j ∧ (j = c.level → g.num ∉ c.inputs0) ∧ (j = c.level + 1 → g.num ∉ c.inputs1)) ∨
      (j = c.level + 1 ∧ ∃ o ∈ c.outputs, g = mkFile o.1 o.2) := by
    intro j g
    rw [hs']
    show g ∈ lv (cL' p.s c) j ↔ _
    rw [mem_lv_cL' h.inv v, mem_lv_cL2, mem_cOuts]
  have hops : opsOf p (.compact c) =
      ctOps c.outputs ++ ([Op.appendManifest p.c.manifest
        { walNumber := none, added := c.outputs.map fun o => (c.level + 1, o.1),
          deleted := (c.inputs0.map fun n => (c.level, n)) ++ (c.inputs1.map fun n => (c.level + 1, n)) }] ++
        rtOps (c.inputs0 ++ c.inputs1)) := by
    simp [opsOf, ctOps, rtOps]
  rw [hops, foldl_apply_append, foldl_apply_append]
  obtain ⟨k1, kw1, km1, _⟩ := keys_ct c.outputs p.d
  generalize (ctOps c.outputs).foldl apply p.d = d1 at k1 kw1 km1
  simp only [List.foldl_cons, List.foldl_nil]
  obtain ⟨k3, kw3, km3, _⟩ := keys_rt (c.inputs0 ++ c.inputs1) (apply d1 (.appendManifest p.c.manifest
    { walNumber := none, added := c.outputs.map fun o => (c.level + 1, o.1),
      deleted := (c.inputs0.map fun n => (c.level, n)) ++ (c.inputs1.map fun n => (c.level + 1, n)) }))
  refine ⟨?_, ?_, ?_⟩
  · intro x
    rw [k3 x]
    show (x ∈ keys d1.tables ∧ _) ↔ _
    rw [k1 x, t.tables x]
    constructor
    · rintro ⟨⟨l, g, hg, hn⟩ | hout, hnin⟩
      · refine ⟨l, g, (hmem l g).mpr (Or.inl ⟨hg, ?_, ?_⟩), hn⟩
        · intro _ hin; exact hnin (List.mem_append.mpr (Or.inl (hn ▸ hin)))
        · intro _ hin; exact hnin (List.mem_append.mpr (Or.inr (hn ▸ hin)))
      · obtain ⟨o, ho, hon⟩ := List.mem_map.mp hout
        exact ⟨c.level + 1, mkFile o.1 o.2, (hmem _ _).mpr (Or.inr ⟨rfl, o, ho, rfl⟩), hon⟩
    · rintro ⟨l, g, hg, hn⟩
      rcases (hmem l g).mp hg with ⟨hg, h0, h1⟩ | ⟨_, o, ho, rfl⟩
      · refine ⟨Or.inl ⟨l, g, hg, hn⟩, ?_⟩
        intro hin
        rcases List.mem_append.mp hin with hin | hin
        · obtain ⟨f, hf, hfn⟩ := hex0 x hin
          have hl : l = c.level := h.inv.numsX l c.level g f hg hf (hn.trans hfn.symm)
          exact h0 hl (hn ▸ hin)
        · obtain ⟨f, hf, hfn⟩ := hex1 x hin
          have hl : l = c.level + 1 := h.inv.numsX l (c.level + 1) g f hg hf (hn.trans hfn.symm)
          exact h1 hl (hn ▸ hin)
      · refine ⟨Or.inr (List.mem_map.mpr ⟨o, ho, hn⟩), ?_⟩
        intro hin
        rcases List.mem_append.mp hin with hin | hin
        · obtain ⟨f, hf, hfn⟩ := hex0 x hin
          exact v.outs_fresh o ho c.level f hf (hfn.trans hn.symm)
        · obtain ⟨f, hf, hfn⟩ := hex1 x hin
          exact v.outs_fresh o ho (c.level + 1) f hf (hfn.trans hn.symm)
  · intro n
    rw [kw3]
    show n ∈ keys d1.wals ↔ _
    rw [kw1]; exact t.wals n
  · intro k
    rw [km3]
    show k ∈ keys (update d1.manifests p.c.manifest _) ↔ _
    rw [mem_keys_update, km1, t.manifests k]; simp

end Rain.Persist.Lemmas

namespace Rain.Persist.Lemmas
open Rain Rain.Lsm Rain.Durable Rain.Persist Rain.Lsm.Lemmas Rain.Durable.Lemmas

theorem tight_reopen {p : PState} (t : Tight p) (h : Rel p) (t1 t2 w' m' : Nat)
    (hw : ∀ x ∈ p.d.wals, x.1 < w') (hm : p.c.manifest ≠ m') (s3 : State)
    (hr : run p.s (reopenActions p.s t1 t2) = some s3) :
    Tight { s := s3, d := (opsOf p (.reopen t1 t2 w' m')).foldl apply p.d,
            c := { manifest := m', wal := w', immWal := none, manWal := w' } } := by
  have R := reopen_lsm h.inv hr
  generalize htabs : newTables p.s t1 t2 = tabs at R
  have hwal_lt : p.c.wal < w' := by
    obtain ⟨bs, hlw, _⟩ := h.walMem
    exact hw _ (mem_of_lookup _ _ _ hlw)
  obtain ⟨k1, kw1, km1, _⟩ := keys_ct tabs p.d
  -- the operations after the tables, by cases on the immutable memtable's WAL
  have hfinal : ∀ (rm : List Op), ((p.c.immWal = none ∧ rm = []) ∨
        ∃ wi, rm = [Op.removeWal wi] ∧ p.c.immWal = some wi ∧ wi < w') →
      Tight { s := s3,
              d := ((ctOps tabs ++ [Op.createWal w', Op.createManifest m',
                Op.appendManifest m' { walNumber := none, added := levelPairs p.s.levels, deleted := [] },
                Op.appendManifest m' { walNumber := some w', added := tabs.map fun (o : Nat × List Entry) => (0, o.1), deleted := [] },
                Op.setCurrent m'] ++ rm ++ [Op.removeWal p.c.wal, Op.removeManifest p.c.manifest]).foldl apply p.d),
              c := { manifest := m', wal := w', immWal := none, manWal := w' } } := by
    intro rm hrm
    rw [foldl_apply_append, foldl_apply_append, foldl_apply_append]
    generalize (ctOps tabs).foldl apply p.d = d1 at k1 kw1 km1
    refine ⟨?_, ?_, ?_⟩
    · -- tables: only the first block touches them
      intro x
      have : ((([Op.removeWal p.c.wal, .removeManifest p.c.manifest]).foldl apply
          (rm.foldl apply (([Op.createWal w', Op.createManifest m',
            Op.appendManifest m' { walNumber := none, added := levelPairs p.s.levels, deleted := [] },
            Op.appendManifest m' { walNumber := some w', added := tabs.map fun (o : Nat × List Entry) => (0, o.1), deleted := [] },
            Op.setCurrent m']).foldl apply d1))).tables) = d1.tables := by
        rcases hrm with ⟨_, rfl⟩ | ⟨wi, rfl, _, _⟩ <;> rfl
      rw [this, k1 x, t.tables x]
      constructor
      · rintro (⟨l, g, hg, hn⟩ | hin)
        · exact ⟨l, g, (R.files l g).mpr (Or.inl hg), hn⟩
        · obtain ⟨o, ho, hon⟩ := List.mem_map.mp hin
          exact ⟨0, mkFile o.1 o.2, (R.files 0 _).mpr (Or.inr ⟨rfl, o, ho, rfl⟩), hon⟩
      · rintro ⟨l, g, hg, hn⟩
        rcases (R.files l g).mp hg with hg | ⟨_, o, ho, rfl⟩
        · exact Or.inl ⟨l, g, hg, hn⟩
        · exact Or.inr (List.mem_map.mpr ⟨o, ho, hn⟩)
    · -- WALs: the new one only
      intro n
      show n ∈ keys _ ↔ n = w' ∨ some n = (none : Option Nat)
      rcases hrm with ⟨hin, rfl⟩ | ⟨wi, rfl, hwi, hwilt⟩
      · show n ∈ keys (erase (update d1.wals w' []) p.c.wal) ↔ _
        rw [mem_keys_erase, mem_keys_update, kw1, t.wals n, hin]
        constructor
        · rintro ⟨h1 | h1 | h1, hne⟩
          · exact Or.inl h1
          · exact absurd h1 hne
          · cases h1
        · rintro (h1 | h1)
          · exact ⟨Or.inl h1, by omega⟩
          · cases h1
      · show n ∈ keys (erase (erase (update d1.wals w' []) wi) p.c.wal) ↔ _
        rw [mem_keys_erase, mem_keys_erase, mem_keys_update, kw1, t.wals n, hwi]
        constructor
        · rintro ⟨⟨h1 | h1 | h1, hne1⟩, hne2⟩
          · exact Or.inl h1
          · exact absurd h1 hne2
          · injection h1 with h1; exact absurd h1 hne1
        · rintro (h1 | h1)
          · exact ⟨⟨Or.inl h1, by omega⟩, by omega⟩
          · cases h1
    · -- manifests: the new one only
      intro k
      have : ((([Op.removeWal p.c.wal, .removeManifest p.c.manifest]).foldl apply
          (rm.foldl apply (([Op.createWal w', Op.createManifest m',
            Op.appendManifest m' { walNumber := none, added := levelPairs p.s.levels, deleted := [] },
            Op.appendManifest m' { walNumber := some w', added := tabs.map fun (o : Nat × List Entry) => (0, o.1), deleted := [] },
            Op.setCurrent m']).foldl apply d1))).manifests) =
          erase (update (update (update d1.manifests m' []) m'
            ((lookup (update d1.manifests m' []) m').getD [] ++
              [{ walNumber := none, added := levelPairs p.s.levels, deleted := [] }])) m'
            ((lookup (update (update d1.manifests m' []) m'
              ((lookup (update d1.manifests m' []) m').getD [] ++
                [{ walNumber := none, added := levelPairs p.s.levels, deleted := [] }])) m').getD [] ++
              [{ walNumber := some w', added := tabs.map fun (o : Nat × List Entry) => (0, o.1), deleted := [] }])) p.c.manifest := by
        rcases hrm with ⟨_, rfl⟩ | ⟨wi, rfl, _, _⟩ <;> rfl
      rw [this, mem_keys_erase, mem_keys_update, mem_keys_update, mem_keys_update, km1, t.manifests k]
      constructor
      · rintro ⟨h1 | h1 | h1 | h1, hne⟩
        · exact h1
        · exact h1
        · exact h1
        · exact absurd h1 hne
      · intro h1
        exact ⟨Or.inl h1, by rw [h1]; exact fun e => hm e.symm⟩
  rcases h.walImm with ⟨hin, _⟩ | ⟨wi, im, bs, hwi, _, hlt, hlI, _⟩
  · have := hfinal [] (Or.inl ⟨hin, rfl⟩)
    have hops : opsOf p (.reopen t1 t2 w' m') =
        ctOps tabs ++ [Op.createWal w', Op.createManifest m',
          Op.appendManifest m' { walNumber := none, added := levelPairs p.s.levels, deleted := [] },
          Op.appendManifest m' { walNumber := some w', added := tabs.map fun (o : Nat × List Entry) => (0, o.1), deleted := [] },
          Op.setCurrent m'] ++ [] ++ [Op.removeWal p.c.wal, Op.removeManifest p.c.manifest] := by
      simp only [opsOf, hin, htabs, ctOps, List.append_nil, List.append_assoc]
    rw [hops]; exact this
  · have hwi_lt : wi < w' := hw _ (mem_of_lookup _ _ _ hlI)
    have := hfinal [Op.removeWal wi] (Or.inr ⟨wi, rfl, hwi, hwi_lt⟩)
    have hops : opsOf p (.reopen t1 t2 w' m') =
        ctOps tabs ++ [Op.createWal w', Op.createManifest m',
          Op.appendManifest m' { walNumber := none, added := levelPairs p.s.levels, deleted := [] },
          Op.appendManifest m' { walNumber := some w', added := tabs.map fun (o : Nat × List Entry) => (0, o.1), deleted := [] },
          Op.setCurrent m'] ++ [Op.removeWal wi] ++ [Op.removeWal p.c.wal, Op.removeManifest p.c.manifest] := by
      simp only [opsOf, hwi, htabs, ctOps, List.append_assoc, List.cons_append, List.nil_append]
    rw [hops]; exact this

end Rain.Persist.Lemmas
