import Rain.Lemmas.Visible
import Rain.Lemmas.Cut
import Rain.Lemmas.DbEqns
/-
Index-level facts about a sorted entry list, the flat cursor, and the position `vpos j` of index `j`
among the visible pairs.
-/
namespace Rain.DbFlat
open Rain Rain.Lsm Rain.Table Rain.Merge Rain.DbIter Rain.OrderIter Rain.Visible Rain.Cut Rain.DbEqns

theorem sorted_idx {es : List Entry} (hs : Sorted es) {i j : Nat} {x y : Entry} (hij : i < j)
    (hx : es[i]? = some x) (hy : es[j]? = some y) : kLt x.key y.key = true := by
  obtain ⟨hi, rfl⟩ := List.getElem?_eq_some_iff.mp hx
  obtain ⟨hj, rfl⟩ := List.getElem?_eq_some_iff.mp hy
  exact (List.pairwise_iff_getElem.mp hs) i j hi hj hij

theorem ukey_le_idx {es : List Entry} (hs : Sorted es) {i j : Nat} {x y : Entry} (hij : i ≤ j)
    (hx : es[i]? = some x) (hy : es[j]? = some y) : bytesLt y.ukey x.ukey = false := by
  rcases Nat.lt_or_eq_of_le hij with h | h
  · exact eukey_le (sorted_idx hs h hx hy)
  · subst h; rw [hx] at hy; simp at hy; subst hy; exact bLt_irrefl _

theorem seq_lt_idx {es : List Entry} (hs : Sorted es) {i j : Nat} {x y : Entry} (hij : i < j)
    (hx : es[i]? = some x) (hy : es[j]? = some y) (hu : x.ukey = y.ukey) : y.seq < x.seq :=
  eseq_lt (sorted_idx hs hij hx hy) hu

theorem lt_of_get {es : List Entry} {i : Nat} {x : Entry} (hx : es[i]? = some x) : i < es.length :=
  (List.getElem?_eq_some_iff.mp hx).1

theorem mem_iff_idx {es : List Entry} {x : Entry} : x ∈ es ↔ ∃ i : Nat, es[i]? = some x :=
  List.mem_iff_getElem?

/-! ### the flat cursor -/

theorem flat_cur (es : List Entry) (p : Nat) : (flatInner es).cur p = es[p]? := rfl

theorem flat_next (es : List Entry) (p : Nat) :
    (flatInner es).step p .next = if es.length ≤ p then es.length else p + 1 := by
  simp [flatInner, flatStep, blockStep]

theorem flat_prev (es : List Entry) (p : Nat) :
    (flatInner es).step p .prev = if p = 0 ∨ es.length ≤ p then es.length else p - 1 := by
  simp [flatInner, flatStep, blockStep]

theorem flat_first (es : List Entry) (p : Nat) : (flatInner es).step p .first = 0 := rfl

theorem flat_last (es : List Entry) (p : Nat) : (flatInner es).step p .last = es.length - 1 := by
  simp [flatInner, flatStep, blockStep]

theorem flat_seek (es : List Entry) (p : Nat) (t : Bytes × Nat) :
    (flatInner es).step p (.seek t) = cnt (fun x => kLt x.key t) es := by
  simp only [flatInner, flatStep, blockStep]
  exact lowerBound_eq_cnt es t

/-! ### visibility by index -/

/-- the entry at index `i` (if any) is not visible -/
def NV (es : List Entry) (snap : Nat) (i : Nat) : Prop :=
  ∀ y, es[i]? = some y → visB es snap y = false

/-- the entry at index `i` (if any) is above the bound -/
def SeqGt (es : List Entry) (snap : Nat) (i : Nat) : Prop :=
  ∀ y, es[i]? = some y → snap < y.seq

theorem SeqGt.nv {es snap i} (h : SeqGt es snap i) : NV es snap i := by
  intro y hy
  have := h y hy
  simp [visB]; intro h2; omega

/-- index-level criterion for visibility -/
theorem vis_of_idx {es : List Entry} (hs : Sorted es) {snap j : Nat} {e : Entry} (he : es[j]? = some e)
    (hq : e.seq ≤ snap) (hp : e.put = true)
    (hbefore : ∀ i x, i < j → es[i]? = some x → x.ukey = e.ukey → snap < x.seq) :
    visB es snap e = true := by
  rw [visB_iff]
  refine ⟨hq, hp, ?_⟩
  intro x hx hu hlt
  obtain ⟨i, hi⟩ := mem_iff_idx.mp hx
  rcases Nat.lt_trichotomy i j with h | h | h
  · have := hbefore i x h hi hu; omega
  · subst h; rw [he] at hi; simp at hi; subst hi; omega
  · have := seq_lt_idx hs h he hi hu.symm; omega

theorem vis_before {es : List Entry} {snap : Nat} {e : Entry} (hv : visB es snap e = true)
    {i : Nat} {x : Entry} (hx : es[i]? = some x) (hu : x.ukey = e.ukey) (hlt : e.seq < x.seq) : snap < x.seq := by
  rw [visB_iff] at hv
  have := hv.2.2 x (List.mem_of_getElem? hx) hu hlt
  omega

/-! ### position among the visible pairs -/

def vpos (es : List Entry) (snap : Nat) (j : Nat) : Nat :=
  ((es.take j).filter (visB es snap)).length

theorem vpos_zero (es : List Entry) (snap : Nat) : vpos es snap 0 = 0 := by simp [vpos]

theorem vpos_succ_some {es : List Entry} {snap j : Nat} {e : Entry} (he : es[j]? = some e) :
    vpos es snap (j + 1) = vpos es snap j + (if visB es snap e then 1 else 0) := by
  simp only [vpos, List.take_add_one, he, Option.toList_some, List.filter_append, List.length_append]
  simp only [List.filter_cons, List.filter_nil]
  split <;> simp

theorem vpos_succ_none {es : List Entry} {snap j : Nat} (he : es[j]? = none) :
    vpos es snap (j + 1) = vpos es snap j := by
  simp [vpos, List.take_add_one, he]

theorem vpos_succ_nv {es : List Entry} {snap j : Nat} (h : NV es snap j) :
    vpos es snap (j + 1) = vpos es snap j := by
  cases he : es[j]? with
  | none => exact vpos_succ_none he
  | some e => rw [vpos_succ_some he, h e he]; simp

theorem vpos_eq_of_nv {es : List Entry} {snap j j' : Nat} (hle : j ≤ j')
    (h : ∀ i, j ≤ i → i < j' → NV es snap i) : vpos es snap j' = vpos es snap j := by
  induction j' with
  | zero => have : j = 0 := by omega
            subst this; rfl
  | succ m ih =>
    rcases Nat.lt_or_eq_of_le hle with hlt | heq
    · rw [vpos_succ_nv (h m (by omega) (by omega))]
      exact ih (by omega) (fun i h1 h2 => h i h1 (by omega))
    · rw [heq]

def visList (es : List Entry) (snap : Nat) : List Entry := es.filter (visB es snap)

theorem vpos_ge {es : List Entry} {snap j : Nat} (h : es.length ≤ j) :
    vpos es snap j = (visList es snap).length := by
  simp [vpos, visList, List.take_of_length_le h]

theorem visible_length {es : List Entry} (hs : Sorted es) (snap : Nat) :
    (visible snap es none).length = (visList es snap).length := by
  rw [visible_eq_filter snap es hs]; simp [visList]

theorem vpos_get {es : List Entry} (hs : Sorted es) {snap j : Nat} {e : Entry} (he : es[j]? = some e)
    (hv : visB es snap e = true) : (visible snap es none)[vpos es snap j]? = some (e.ukey, e.val) := by
  rw [visible_eq_filter snap es hs]
  have hj := lt_of_get he
  have hsplit : es = es.take j ++ e :: es.drop (j + 1) := by
    have h1 : es.drop j = e :: es.drop (j + 1) := by
      rw [List.drop_eq_getElem_cons hj]
      congr 1
      exact (List.getElem?_eq_some_iff.mp he).2
    conv => lhs; rw [← List.take_append_drop j es, h1]
  have : (es.filter (visB es snap)).map kv
      = ((es.take j).filter (visB es snap)).map kv ++ kv e :: ((es.drop (j + 1)).filter (visB es snap)).map kv := by
    conv => lhs; arg 2; arg 2; rw [hsplit]
    simp [List.filter_append, hv]
  rw [this]
  have hl : vpos es snap j = (((es.take j).filter (visB es snap)).map kv).length := by simp [vpos]
  rw [hl, List.getElem?_append_right (Nat.le_refl _)]
  simp [kv]

theorem vpos_lt_of_vis {es : List Entry} (hs : Sorted es) {snap j : Nat} {e : Entry} (he : es[j]? = some e)
    (hv : visB es snap e = true) : vpos es snap j < (visible snap es none).length := by
  have := vpos_get hs he hv
  exact (List.getElem?_eq_some_iff.mp this).1

/-! ### seek -/

theorem lowerBoundU_append (A B : List (Bytes × Bytes)) (k : Bytes)
    (hA : ∀ a ∈ A, bytesLt a.1 k = true) (hB : ∀ b ∈ B, bytesLt b.1 k = false) :
    lowerBoundU (A ++ B) k = A.length := by
  induction A with
  | nil =>
    cases B with
    | nil => rfl
    | cons b B => simp [lowerBoundU, hB b (by simp)]
  | cons a A ih =>
    simp only [List.cons_append, lowerBoundU, hA a (by simp), if_true, List.length_cons]
    rw [ih (fun x hx => hA x (by simp [hx]))]

theorem seek_vpos {es : List Entry} (hs : Sorted es) (snap : Nat) (k : Bytes) :
    lowerBoundU (visible snap es none) k = vpos es snap (cnt (fun x => kLt x.key (k, snap)) es) := by
  rw [visible_eq_filter snap es hs]
  obtain ⟨l, r, h1, h2, h3, h4⟩ := Cut.split (lowerSet_lt (k, snap)) hs
  rw [← h2]
  have htake : es.take l.length = l := by rw [h1]; simp
  simp only [vpos, htake]
  have : (es.filter (visB es snap)).map kv
      = (l.filter (visB es snap)).map kv ++ (r.filter (visB es snap)).map kv := by
    conv => lhs; arg 2; arg 2; rw [h1]
    simp [List.filter_append]
  rw [this, lowerBoundU_append]
  · simp
  · intro a ha
    simp only [List.mem_map, List.mem_filter] at ha
    obtain ⟨x, ⟨hx, hv⟩, rfl⟩ := ha
    have hlt := h3 x hx
    rw [visB_iff] at hv
    rcases (kLt_iff _ _).mp hlt with h | ⟨_, h⟩
    · exact h
    · simp only at h; have := hv.1; simp only [Entry.key] at h; omega
  · intro b hb
    simp only [List.mem_map, List.mem_filter] at hb
    obtain ⟨x, ⟨hx, _⟩, rfl⟩ := hb
    have hnlt := h4 x hx
    cases h : bytesLt (kv x).1 k
    · rfl
    · have : kLt x.key (k, snap) = true := (kLt_iff _ _).mpr (.inl h)
      rw [this] at hnlt; simp at hnlt

end Rain.DbFlat
