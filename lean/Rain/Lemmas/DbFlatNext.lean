import Rain.Lemmas.DbFlatBasic
/-
`findNext` over a flat sorted list finds the first visible entry above the skip threshold.
-/
set_option linter.unusedSectionVars false
namespace Rain.DbFlat
open Rain Rain.Lsm Rain.Table Rain.Merge Rain.DbIter Rain.OrderIter Rain.Visible Rain.Cut Rain.DbEqns

def thrOf (sk : Bool) (ck : Option Bytes) : Option Bytes := if sk then ck else none

def Above (thr : Option Bytes) (u : Bytes) : Prop := ∀ c, thr = some c → bytesLt c u = true

theorem blocked_false_iff (sk : Bool) (ck : Option Bytes) (u : Bytes) :
    blocked sk ck u = false ↔ Above (thrOf sk ck) u := by
  cases sk <;> cases ck <;> simp [blocked, thrOf, Above]

theorem thrOf_next (snap : Nat) (e : Entry) (sk : Bool) (ck : Option Bytes) :
    thrOf (skN snap e sk) (ckN snap e ck) =
      if e.seq ≤ snap ∧ e.put = false then some e.ukey else thrOf sk ck := by
  simp only [skN, ckN, thrOf, Bool.and_eq_true, decide_eq_true_eq, Bool.not_eq_eq_eq_not, Bool.not_true]
  split <;> simp

def Target (es : List Entry) (snap : Nat) (thr : Option Bytes) (i : Nat) : Prop :=
  ∃ e, es[i]? = some e ∧ visB es snap e = true ∧ Above thr e.ukey

structure GN (es : List Entry) (snap : Nat) (j : Nat) (thr : Option Bytes) : Prop where
  g1 : ∀ i y, j ≤ i → es[i]? = some y → y.seq ≤ snap → Above thr y.ukey →
        ∀ i' x, i' < j → es[i']? = some x → x.ukey = y.ukey → snap < x.seq
  g2 : ∀ c, thr = some c → ∀ i y, j ≤ i → es[i]? = some y → y.seq ≤ snap → bytesLt y.ukey c = false

def NextRes (es : List Entry) (snap : Nat) (j : Nat) (thr : Option Bytes) (r : DState Nat) : Prop :=
  r.ckey = none ∧
  ((r.valid = true ∧ j ≤ r.inner ∧ Target es snap thr r.inner ∧
      ∀ i, j ≤ i → i < r.inner → ¬ Target es snap thr i) ∨
   (r.valid = false ∧ ∀ i, j ≤ i → ¬ Target es snap thr i))

theorem findNext_dir_cval {σ} (I : Inner σ) (snap fuel : Nat) (s : DState σ) (sk : Bool) :
    (findNext I snap fuel s sk).dir = s.dir ∧ (findNext I snap fuel s sk).cval = s.cval := by
  induction fuel generalizing s sk with
  | zero => exact ⟨rfl, rfl⟩
  | succ fuel ih =>
    rw [findNext_succ]
    cases I.cur s.inner with
    | none => exact ⟨rfl, rfl⟩
    | some e =>
      simp only
      split
      · exact ⟨rfl, rfl⟩
      · cases I.cur (I.step s.inner .next) with
        | none => exact ⟨rfl, rfl⟩
        | some e2 => simp only; exact ih _ _

section
variable {es : List Entry} (hs : Sorted es) {snap : Nat}
include hs

theorem gn_step_D {j : Nat} {thr : Option Bytes} {e : Entry} (hg : GN es snap j thr)
    (he : es[j]? = some e) (hq : e.seq ≤ snap) (_hp : e.put = false) :
    GN es snap (j + 1) (some e.ukey) ∧
      ∀ i, j + 1 ≤ i → (Target es snap (some e.ukey) i ↔ Target es snap thr i) := by
  constructor
  · constructor
    · intro i y hi hy _ habove i' x hi' hx hu
      have h1 := ukey_le_idx hs (by omega : i' ≤ j) hx he
      have h2 := habove e.ukey rfl
      rw [← hu] at h2
      rw [h2] at h1; simp at h1
    · intro c hc i y hi hy _
      simp at hc; subst hc
      exact ukey_le_idx hs (by omega : j ≤ i) he hy
  · intro i hi
    constructor
    · rintro ⟨y, hy, hv, habove⟩
      refine ⟨y, hy, hv, ?_⟩
      intro c hc
      have h1 := hg.g2 c hc j e (Nat.le_refl _) he hq
      exact bLt_of_not_lt_of_lt h1 (habove e.ukey rfl)
    · rintro ⟨y, hy, hv, _⟩
      refine ⟨y, hy, hv, ?_⟩
      intro c hc
      simp at hc; subst hc
      have h1 := ukey_le_idx hs (by omega : j ≤ i) he hy
      cases h2 : bytesLt e.ukey y.ukey
      · exfalso
        have heq := bLt_total h2 h1
        have hlt := seq_lt_idx hs (by omega : j < i) he hy heq
        have := vis_before hv he heq hlt
        omega
      · rfl

theorem gn_step_N {j : Nat} {thr : Option Bytes} {e : Entry} (hg : GN es snap j thr)
    (he : es[j]? = some e) (hD : ¬ (e.seq ≤ snap ∧ e.put = false))
    (hS : ¬ (e.seq ≤ snap ∧ e.put = true ∧ Above thr e.ukey)) :
    GN es snap (j + 1) thr := by
  constructor
  · intro i y hi hy hyq habove i' x hi' hx hu
    rcases Nat.lt_or_eq_of_le (Nat.le_of_lt_succ hi') with h | h
    · exact hg.g1 i y (by omega) hy hyq habove i' x h hx hu
    · subst h
      rw [he] at hx; simp at hx; subst hx
      by_cases hq : e.seq ≤ snap
      · exfalso
        apply hS
        refine ⟨hq, ?_, ?_⟩
        · cases hp : e.put
          · exact absurd ⟨hq, hp⟩ hD
          · rfl
        · rw [hu]; exact habove
      · omega
  · intro c hc i y hi hy hyq
    exact hg.g2 c hc i y (by omega) hy hyq

theorem findNext_flat (fuel : Nat) (j : Nat) (sk : Bool) (d : Dir) (v : Bool) (ck cv : Option Bytes)
    (hj : j < es.length) (hf : es.length - j ≤ fuel) (hg : GN es snap j (thrOf sk ck)) :
    NextRes es snap j (thrOf sk ck) (findNext (flatInner es) snap fuel ⟨j, d, v, ck, cv⟩ sk) := by
  induction fuel generalizing j sk ck with
  | zero => omega
  | succ fuel ih =>
    rw [findNext_succ]
    simp only [flat_cur]
    obtain ⟨e, he⟩ : ∃ e, es[j]? = some e := ⟨es[j], List.getElem?_eq_getElem hj⟩
    rw [he]
    simp only
    by_cases hstop : stopC snap e sk ck = true
    · rw [if_pos hstop]
      simp only [stopC, Bool.and_eq_true, decide_eq_true_eq, Bool.not_eq_eq_eq_not, Bool.not_true] at hstop
      obtain ⟨⟨hq, hp⟩, hb⟩ := hstop
      have habove := (blocked_false_iff sk ck e.ukey).mp hb
      have hv : visB es snap e = true := by
        apply vis_of_idx hs he hq hp
        intro i x hi hx hu
        exact hg.g1 j e (Nat.le_refl _) he hq habove i x hi hx hu
      refine ⟨rfl, .inl ⟨rfl, Nat.le_refl _, ⟨e, he, hv, habove⟩, ?_⟩⟩
      intro i h1 h2
      simp only at h2
      omega
    · rw [if_neg hstop]
      have hnT : ¬ Target es snap (thrOf sk ck) j := by
        rintro ⟨e', he', hv, habove⟩
        rw [he] at he'; simp at he'; subst he'
        rw [visB_iff] at hv
        apply hstop
        simp only [stopC, Bool.and_eq_true, decide_eq_true_eq, Bool.not_eq_eq_eq_not, Bool.not_true]
        exact ⟨⟨hv.1, hv.2.1⟩, (blocked_false_iff sk ck e.ukey).mpr habove⟩
      have hnext : (flatInner es).step j .next = j + 1 := by
        rw [flat_next, if_neg (by omega)]
      rw [hnext]
      cases he2 : es[j + 1]? with
      | none =>
        simp only
        refine ⟨rfl, .inr ⟨rfl, ?_⟩⟩
        intro i hi
        rcases Nat.lt_or_eq_of_le hi with h | h
        · rintro ⟨y, hy, _⟩
          have := lt_of_get hy
          have : es.length ≤ j + 1 := by simpa using he2
          omega
        · subst h; exact hnT
      | some e2 =>
        simp only
        have hj1 : j + 1 < es.length := lt_of_get he2
        -- the new threshold
        have hthr := thrOf_next snap e sk ck
        by_cases hD : e.seq ≤ snap ∧ e.put = false
        · rw [if_pos hD] at hthr
          obtain ⟨hg', heqv⟩ := gn_step_D hs hg he hD.1 hD.2
          have := ih (j + 1) (skN snap e sk) (ckN snap e ck) hj1 (by omega) (by rw [hthr]; exact hg')
          rw [hthr] at this
          obtain ⟨r1, r2⟩ := this
          refine ⟨r1, ?_⟩
          rcases r2 with ⟨a1, a2, a3, a4⟩ | ⟨a1, a2⟩
          · left
            refine ⟨a1, by omega, (heqv _ a2).mp a3, ?_⟩
            intro i h1 h2
            rcases Nat.lt_or_eq_of_le h1 with h | h
            · exact fun hT => a4 i (by omega) h2 ((heqv i (by omega)).mpr hT)
            · subst h; exact hnT
          · right
            refine ⟨a1, ?_⟩
            intro i h1
            rcases Nat.lt_or_eq_of_le h1 with h | h
            · exact fun hT => a2 i (by omega) ((heqv i (by omega)).mpr hT)
            · subst h; exact hnT
        · rw [if_neg hD] at hthr
          have hS : ¬ (e.seq ≤ snap ∧ e.put = true ∧ Above (thrOf sk ck) e.ukey) := by
            rintro ⟨h1, h2, h3⟩
            apply hstop
            simp only [stopC, Bool.and_eq_true, decide_eq_true_eq, Bool.not_eq_eq_eq_not, Bool.not_true]
            exact ⟨⟨h1, h2⟩, (blocked_false_iff sk ck e.ukey).mpr h3⟩
          have hg' := gn_step_N hs hg he hD hS
          have := ih (j + 1) (skN snap e sk) (ckN snap e ck) hj1 (by omega) (by rw [hthr]; exact hg')
          rw [hthr] at this
          obtain ⟨r1, r2⟩ := this
          refine ⟨r1, ?_⟩
          rcases r2 with ⟨a1, a2, a3, a4⟩ | ⟨a1, a2⟩
          · left
            refine ⟨a1, by omega, a3, ?_⟩
            intro i h1 h2
            rcases Nat.lt_or_eq_of_le h1 with h | h
            · exact a4 i (by omega) h2
            · subst h; exact hnT
          · right
            refine ⟨a1, ?_⟩
            intro i h1
            rcases Nat.lt_or_eq_of_le h1 with h | h
            · exact a2 i (by omega)
            · subst h; exact hnT

end

end Rain.DbFlat
