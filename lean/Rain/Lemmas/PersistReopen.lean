import Rain.Lemmas.PersistSwitch
/-
Recovery (`DB::open` without re-use of the last WAL or of the manifest) as an action of the
persisted system.
-/
namespace Rain.Persist.Lemmas
open Rain Rain.Lsm Rain.Durable Rain.Persist Rain.Lsm.Lemmas Rain.Durable.Lemmas

/-! ### the LSM side: both memtables end up in level-0 tables -/

theorem tableOf_nil (t : Nat) : tableOf t [] = [] := rfl
theorem tableOf_cons (t : Nat) (e : Entry) (es : List Entry) : tableOf t (e :: es) = [(t, e :: es)] := rfl

theorem flush0_cases {s s' : State} {num : Nat} (hs : stepFlush s num 0 = some s') :
    s'.mem = s.mem ∧ s'.imm = none ∧ s'.lastSeq = s.lastSeq ∧
    ((s.imm = some [] ∧ s'.levels = s.levels) ∨
     (∃ e es, s.imm = some (e :: es) ∧ (∀ g ∈ s.levels.flatten, g.num < num) ∧
        s'.levels = addToLevel s.levels 0 (mkFile num (e :: es)))) := by
  rcases flush_cases hs with ⟨hi, rfl⟩ | ⟨e, es, hi, _, hnum, rfl⟩
  · exact ⟨rfl, rfl, rfl, Or.inl ⟨hi, rfl⟩⟩
  · exact ⟨rfl, rfl, rfl, Or.inr ⟨e, es, hi, hnum, rfl⟩⟩

/-- what the LSM part of a recovery yields, relative to the state before it -/
structure Reopened (s s3 : State) (tabs : List (Nat × List Entry)) : Prop where
  mem : s3.mem = []
  imm : s3.imm = none
  last : s3.lastSeq = s.lastSeq
  inv : InvP s3
  get : ∀ k, dbGet s3 k s3.lastSeq = dbGet s k s.lastSeq
  files : ∀ j g, g ∈ lv s3.levels j ↔ g ∈ lv s.levels j ∨ (j = 0 ∧ ∃ o ∈ tabs, g = mkFile o.1 o.2)
  fresh : ∀ o ∈ tabs, ∀ j g, g ∈ lv s.levels j → g.num ≠ o.1
  nodup : (tabs.map Prod.fst).Nodup

/-- one memtable: rotate, then flush the (former) memtable to level 0 -/
theorem drain_mem {a s3 : State} {t2 : Nat} (h : InvP a) (hi : a.imm = none)
    (hr : run a [Action.rotate, Action.flush t2 0] = some s3) :
    Reopened a s3 (tableOf t2 a.mem) := by
  simp only [run, step] at hr
  cases h1 : stepRotate a with
  | none => rw [h1] at hr; cases hr
  | some a1 =>
    rw [h1] at hr
    simp only at hr
    cases h2 : stepFlush a1 t2 0 with
    | none => rw [h2] at hr; cases hr
    | some a2 =>
      rw [h2] at hr
      simp only [Option.some.injEq] at hr
      subst hr
      have hst1 : step a .rotate = some a1 := h1
      have hst2 : step a1 (.flush t2 0) = some a2 := h2
      have hinv1 := step_inv' h hst1
      have hinv2 := step_inv' hinv1 hst2
      have hg : ∀ k, dbGet a2 k a2.lastSeq = dbGet a k a.lastSeq := fun k =>
        (step_get hinv1 hst2 rfl k).trans (step_get h hst1 rfl k)
      have ha1 : a1 = { a with mem := [], imm := some a.mem } := by
        unfold stepRotate at h1
        rw [hi] at h1
        simp only [Option.some.injEq] at h1
        exact h1.symm
      obtain ⟨hm, hi2, hl, hcase⟩ := flush0_cases h2
      have hlen : 0 < a.levels.length := by rw [h.len]; decide
      rcases hcase with ⟨him, hlev⟩ | ⟨e, es, him, hnum, hlev⟩
      · have hmem : a.mem = [] := by rw [ha1] at him; simpa using him
        rw [hmem]
        simp only [tableOf_nil, tableOf_cons]
        refine { mem := by rw [hm, ha1], imm := hi2, last := by rw [hl, ha1], inv := hinv2, get := hg,
                 files := ?_, fresh := fun o ho => absurd ho (by simp), nodup := by simp }
        intro j g
        rw [hlev, ha1]
        simp
      · have hmem : a.mem = e :: es := by rw [ha1] at him; simpa using him
        rw [hmem]
        simp only [tableOf_nil, tableOf_cons]
        refine { mem := by rw [hm, ha1], imm := hi2, last := by rw [hl, ha1], inv := hinv2, get := hg,
                 files := ?_, fresh := ?_, nodup := by simp }
        · intro j g
          rw [hlev, ha1]
          show g ∈ lv (addToLevel a.levels 0 (mkFile t2 (e :: es))) j ↔ _
          rw [mem_lv_addToLevel a.levels _ hlen j g]
          simp
        · intro o ho j g hg'
          simp only [List.mem_singleton] at ho
          subst ho
          have := hnum g (by rw [ha1]; exact mem_flatten_iff_lv.mpr ⟨j, hg'⟩)
          simp only; omega

theorem reopen_lsm {s s3 : State} {t1 t2 : Nat} (h : InvP s)
    (hr : run s (reopenActions s t1 t2) = some s3) : Reopened s s3 (newTables s t1 t2) := by
  unfold reopenActions at hr
  unfold newTables
  cases hi : s.imm with
  | none =>
    rw [hi] at hr
    simp only [List.nil_append] at hr
    simpa [tableOf_nil] using drain_mem h hi hr
  | some im =>
    rw [hi] at hr
    simp only [List.cons_append, List.nil_append, run, step] at hr
    cases h1 : stepFlush s t1 0 with
    | none => rw [h1] at hr; cases hr
    | some a =>
      rw [h1] at hr
      simp only at hr
      have hst : step s (.flush t1 0) = some a := h1
      have hinva := step_inv' h hst
      obtain ⟨hm, hia, hl, hcase⟩ := flush0_cases h1
      have hrest : run a [Action.rotate, Action.flush t2 0] = some s3 := by
        simp only [run, step]; exact hr
      have R := drain_mem hinva hia hrest
      have hga : ∀ k, dbGet a k a.lastSeq = dbGet s k s.lastSeq := step_get h hst rfl
      have hlen : 0 < s.levels.length := by rw [h.len]; decide
      rw [hm] at R
      rcases hcase with ⟨him, hlev⟩ | ⟨e, es, him, hnum, hlev⟩
      · -- an empty immutable memtable: no first table
        have : im = [] := by rw [hi] at him; simpa using him
        subst this
        simp only [Option.getD_some, tableOf_nil, List.nil_append]
        refine { mem := R.mem, imm := R.imm, last := R.last.trans hl, inv := R.inv,
                 get := fun k => (R.get k).trans (hga k), files := ?_, fresh := ?_, nodup := ?_ }
        · intro j g; rw [R.files j g, hlev]
        · intro o ho j g hg; exact R.fresh o ho j g (by rw [hlev]; exact hg)
        · exact R.nodup
      · have : im = e :: es := by rw [hi] at him; simpa using him
        subst this
        simp only [Option.getD_some, tableOf_cons]
        have hmemA : ∀ j g, g ∈ lv a.levels j ↔ g ∈ lv s.levels j ∨ (j = 0 ∧ g = mkFile t1 (e :: es)) := by
          intro j g; rw [hlev]; exact mem_lv_addToLevel s.levels _ hlen j g
        refine { mem := R.mem, imm := R.imm, last := R.last.trans hl, inv := R.inv,
                 get := fun k => (R.get k).trans (hga k), files := ?_, fresh := ?_, nodup := ?_ }
        · intro j g
          rw [R.files j g, hmemA j g]
          simp only [List.cons_append, List.nil_append, List.mem_cons]
          constructor
          · rintro ((h1 | ⟨h0, rfl⟩) | ⟨h0, o, ho, rfl⟩)
            · exact Or.inl h1
            · exact Or.inr ⟨h0, (t1, e :: es), Or.inl rfl, rfl⟩
            · exact Or.inr ⟨h0, o, Or.inr ho, rfl⟩
          · rintro (h1 | ⟨h0, o, (rfl | ho), rfl⟩)
            · exact Or.inl (Or.inl h1)
            · exact Or.inl (Or.inr ⟨h0, rfl⟩)
            · exact Or.inr ⟨h0, o, ho, rfl⟩
        · intro o ho j g hg
          simp only [List.cons_append, List.nil_append, List.mem_cons] at ho
          rcases ho with rfl | ho
          · have := hnum g (mem_flatten_iff_lv.mpr ⟨j, hg⟩)
            simp only; omega
          · exact R.fresh o ho j g ((hmemA j g).mpr (Or.inl hg))
        · simp only [List.cons_append, List.nil_append, List.map_cons, List.nodup_cons]
          refine ⟨?_, R.nodup⟩
          intro hin
          obtain ⟨o, ho, hon⟩ := List.mem_map.mp hin
          -- the second table's number differs from the first table's: the first table is a file of `a`
          have := R.fresh o ho 0 (mkFile t1 (e :: es)) ((hmemA 0 _).mpr (Or.inr ⟨rfl, rfl⟩))
          exact this (by simpa using hon.symm)

end Rain.Persist.Lemmas

namespace Rain.Persist.Lemmas
open Rain Rain.Lsm Rain.Durable Rain.Persist Rain.Lsm.Lemmas Rain.Durable.Lemmas

/-! ### the disk side -/

/-- creating the next WAL before anything names it: an empty newer WAL disturbs nothing -/
theorem rel_createEmptyWal {p : PState} (h : Rel p) (w : Nat) (hw : ∀ x ∈ p.d.wals, x.1 < w) :
    ok p.d (.createWal w) = true ∧ Rel { s := p.s, d := apply p.d (.createWal w), c := p.c } := by
  obtain ⟨bs, hl, hm⟩ := h.walMem
  have hlt : p.c.wal < w := hw _ (mem_of_lookup _ _ _ hl)
  constructor
  · simp only [ok, Bool.or_eq_true, List.all_eq_true, decide_eq_true_eq, walNumbers, List.mem_map]
    left
    rintro n ⟨x, hx, rfl⟩
    exact hw x hx
  · rw [apply_createWal]
    refine { inv := h.inv, wf := ⟨h.wf.1, nodup_update _ _ _ h.wf.2.1, h.wf.2.2⟩, cur := h.cur,
             edits := h.edits, tables := h.tables, walMem := ?_, walImm := ?_, others := ?_, walMax := ?_,
             manLe := h.manLe }
    · refine ⟨bs, ?_, hm⟩
      show lookup (update p.d.wals w []) p.c.wal = _
      rw [lookup_update, if_neg (by omega)]; exact hl
    · rcases h.walImm with hh | ⟨wi, im, bs', hwi, him, hlt', hl', hm'⟩
      · exact Or.inl hh
      · refine Or.inr ⟨wi, im, bs', hwi, him, hlt', ?_, hm'⟩
        show lookup (update p.d.wals w []) wi = _
        rw [lookup_update, if_neg (by omega)]; exact hl'
    · intro x hx
      by_cases hxw : x.1 = w
      · -- the new, empty WAL
        right; right; right
        have hnot : w ∉ p.d.wals.map Prod.fst := by
          intro hmm
          obtain ⟨y, hy, hyw⟩ := List.mem_map.mp hmm
          have := hw y hy; omega
        have hx' : x ∈ p.d.wals ++ [(w, [])] := by
          have : x ∈ update p.d.wals w [] := hx
          rwa [update_of_not_mem _ _ _ hnot] at this
        rcases List.mem_append.mp hx' with hx' | hx'
        · have := hw x hx'; omega
        · simp at hx'; rw [hx']
      · rcases mem_update hx with hx' | hx'
        · exact absurd hx' hxw
        · exact h.others x hx'
    · intro x hx
      by_cases hxw : x.1 = w
      · right
        have hnot : w ∉ p.d.wals.map Prod.fst := by
          intro hmm
          obtain ⟨y, hy, hyw⟩ := List.mem_map.mp hmm
          have := hw y hy; omega
        have hx' : x ∈ p.d.wals ++ [(w, [])] := by
          have : x ∈ update p.d.wals w [] := hx
          rwa [update_of_not_mem _ _ _ hnot] at this
        rcases List.mem_append.mp hx' with hx' | hx'
        · have := hw x hx'; omega
        · simp at hx'; rw [hx']
      · rcases mem_update hx with hx' | hx'
        · exact absurd hx' hxw
        · exact h.walMax x hx'

end Rain.Persist.Lemmas

namespace Rain.Persist.Lemmas
open Rain Rain.Lsm Rain.Durable Rain.Persist Rain.Lsm.Lemmas Rain.Durable.Lemmas

theorem ok_appendManifest_other (d : Disk) (m m' : Nat) (e : Edit) (hc : d.current = some m)
    (hne : m ≠ m') : ok d (.appendManifest m' e) = true := by
  simp only [ok, hc]
  rw [if_neg]
  simp only [beq_iff_eq, Option.some.injEq]; exact hne

theorem reopen_ok {p : PState} (h : Rel p) (t1 t2 w' m' : Nat)
    (hw : ∀ x ∈ p.d.wals, x.1 < w') (hm : ∀ x ∈ p.d.manifests, x.1 < m') (s3 : State)
    (hr : run p.s (reopenActions p.s t1 t2) = some s3) :
    StepOk p { s := s3, d := (opsOf p (.reopen t1 t2 w' m')).foldl apply p.d,
               c := { manifest := m', wal := w', immWal := none, manWal := w' } } (opsOf p (.reopen t1 t2 w' m')) := by
  have R := reopen_lsm h.inv hr
  generalize htabs : newTables p.s t1 t2 = tabs at R
  -- the old manifest is not the new one
  obtain ⟨es0, hes0, _, _⟩ := h.edits
  have hmm : p.c.manifest ≠ m' := by
    have := hm _ (mem_of_lookup _ _ _ hes0); simp only at this; omega
  -- 1. the tables
  obtain ⟨d1, hrun1, hR1, hl1, hl2, hw1, hm1, hc1⟩ := rel_completeTables tabs h R.fresh R.nodup
  -- 2. the next WAL
  have hw1' : ∀ x ∈ d1.wals, x.1 < w' := by rw [hw1]; exact hw
  obtain ⟨hok2, hR2⟩ := rel_createEmptyWal hR1 w' hw1'
  -- 3.-5. the new manifest with its two records
  let snap : Edit := { walNumber := none, added := levelPairs p.s.levels, deleted := [] }
  let e2 : Edit := { walNumber := some w', added := tabs.map fun o => (0, o.1), deleted := [] }
  let d2 : Disk := apply d1 (.createWal w')
  have hcur2 : d2.current = some p.c.manifest := by show d1.current = _; rw [hc1]; exact h.cur
  have hman2 : d2.manifests = p.d.manifests := hm1
  have hok3 : ok d2 (.createManifest m') = true := by
    simp only [ok, hcur2, bne_iff_ne, ne_eq, Option.some.injEq]; exact hmm
  let ms3 := update d2.manifests m' []
  have hl3 : lookup ms3 m' = some [] := by show lookup (update d2.manifests m' []) m' = _; rw [lookup_update, if_pos rfl]
  have hok4 : ok { d2 with manifests := ms3 } (.appendManifest m' snap) = true :=
    ok_appendManifest_other _ p.c.manifest m' snap hcur2 hmm
  let ms4 := update ms3 m' [snap]
  have hl4 : lookup ms4 m' = some [snap] := by show lookup (update ms3 m' [snap]) m' = _; rw [lookup_update, if_pos rfl]
  have hd4 : apply { d2 with manifests := ms3 } (.appendManifest m' snap) = { d2 with manifests := ms4 } := by
    rw [apply_appendManifest]; simp only [hl3, Option.getD_some, List.nil_append]; rfl
  have hok5 : ok { d2 with manifests := ms4 } (.appendManifest m' e2) = true :=
    ok_appendManifest_other _ p.c.manifest m' e2 hcur2 hmm
  let ms5 := update ms4 m' [snap, e2]
  have hl5 : lookup ms5 m' = some [snap, e2] := by
    show lookup (update ms4 m' [snap, e2]) m' = _; rw [lookup_update, if_pos rfl]
  have hd5 : apply { d2 with manifests := ms4 } (.appendManifest m' e2) = { d2 with manifests := ms5 } := by
    rw [apply_appendManifest]; simp only [hl4, Option.getD_some]; rfl
  have hnd5 : (ms5.map Prod.fst).Nodup :=
    nodup_update _ _ _ (nodup_update _ _ _ (nodup_update _ _ _ hR2.wf.1))
  have hl5m : lookup ms5 p.c.manifest = lookup d2.manifests p.c.manifest := by
    show lookup (update (update (update d2.manifests m' []) m' [snap]) m' [snap, e2]) p.c.manifest = _
    rw [lookup_update, if_neg hmm, lookup_update, if_neg hmm, lookup_update, if_neg hmm]
  have hR5 : Rel { s := p.s, d := { d2 with manifests := ms5 }, c := p.c } :=
    rel_other_manifests hR2 ms5 hnd5 hl5m
  -- 6. CURRENT names the new manifest: the image now corresponds to the recovered state
  have hR6 : Rel { s := s3, d := { d2 with manifests := ms5, current := some m' },
                   c := { manifest := m', wal := w', immWal := none, manWal := w' } } := by
    refine { inv := R.inv, wf := ⟨hnd5, hR2.wf.2.1, hR2.wf.2.2⟩, cur := rfl, edits := ?_, tables := ?_,
             walMem := ?_, walImm := Or.inl ⟨rfl, R.imm⟩, others := ?_, walMax := ?_,
             manLe := by simp [Ctx.w0] }
    · refine ⟨[snap, e2], hl5, by simp [walNoOf, snap, e2], ?_⟩
      intro q
      have hv : q ∈ versionOf [snap, e2] ↔
          q ∈ levelPairs p.s.levels ∨ ∃ o ∈ tabs, (0, o.1) = q := by
        simp [versionOf, snap, e2]
      rw [hv, mem_levelPairs]
      unfold InVersion
      constructor
      · rintro (⟨g, hg, hn⟩ | ⟨o, ho, rfl⟩)
        · exact ⟨g, (R.files q.1 g).mpr (Or.inl hg), hn⟩
        · exact ⟨mkFile o.1 o.2, (R.files 0 _).mpr (Or.inr ⟨rfl, o, ho, rfl⟩), rfl⟩
      · rintro ⟨g, hg, hn⟩
        rcases (R.files q.1 g).mp hg with hg | ⟨hq, o, ho, rfl⟩
        · exact Or.inl ⟨g, hg, hn⟩
        · exact Or.inr ⟨o, ho, Prod.ext hq.symm hn⟩
    · intro l g hg
      show lookup d1.tables g.num = _
      rcases (R.files l g).mp hg with hg | ⟨_, o, ho, rfl⟩
      · exact hR1.tables l g hg
      · exact hl1 o ho
    · refine ⟨[], ?_, ?_⟩
      · show lookup (update d1.wals w' []) w' = _
        rw [lookup_update, if_pos rfl]
      · intro e; rw [R.mem]; simp [batchesFlat]
    · intro x hx
      have hx' : x ∈ update d1.wals w' [] := hx
      rcases mem_update hx' with hx' | hx'
      · exact Or.inl hx'
      · right; right; left
        show x.1 < w'
        exact hw1' x hx'
    · intro x hx
      have hx' : x ∈ update d1.wals w' [] := hx
      left
      rcases mem_update hx' with hx' | hx'
      · show x.1 ≤ w'; omega
      · have := hw1' x hx'; show x.1 ≤ w'; omega
  have hok6 : ok { d2 with manifests := ms5 } (.setCurrent m') = true := by
    obtain ⟨r, hr5, hl⟩ := rel_reads hR5
    obtain ⟨r', hr6, hl'⟩ := rel_reads hR6
    have hrf : recoverFrom { d2 with manifests := ms5 } m' = some r' := by
      rw [recover_eq_some] at hr6
      obtain ⟨c, hc, hrc⟩ := hr6
      simp only [Option.some.injEq] at hc
      subst hc
      rw [← recoverFrom_setCurrent { d2 with manifests := ms5 } m' m']; exact hrc
    have hr5' : recover ({ d2 with manifests := ms5 } : Disk) = some r := hr5
    have hc : ({ d2 with manifests := ms5 } : Disk).current = some p.c.manifest := hcur2
    simp only [ok, hr5', hrf]
    rw [hc]
    simp only []
    apply sameContents_of_forall
    intro k
    rw [hl k, hl' k]
    exact (R.get k).symm
  -- 7. the replayed WALs go
  have hwal_lt : p.c.wal < w' := by
    obtain ⟨bs, hlw, _⟩ := h.walMem
    exact hw _ (mem_of_lookup _ _ _ hlw)
  -- 8. the old manifest goes (after the WALs)
  have hfin : ∀ (q : PState), Rel q → q.c = { manifest := m', wal := w', immWal := none, manWal := w' } →
      q.d.current = some m' → lookup q.d.manifests m' = some [snap, e2] →
      (q.d.manifests.map Prod.fst).Nodup →
      ok q.d (.removeManifest p.c.manifest) = true ∧
      Rel { s := q.s, d := apply q.d (.removeManifest p.c.manifest), c := q.c } := by
    intro q hq hqc hqcur _ hqnd
    constructor
    · simp only [ok, hqcur, bne_iff_ne, ne_eq, Option.some.injEq]; exact fun e => hmm e.symm
    · rw [apply_removeManifest]
      apply rel_other_manifests hq _ (nodup_erase _ _ hqnd)
      rw [hqc]
      show lookup (erase q.d.manifests p.c.manifest) m' = lookup q.d.manifests m'
      rw [lookup_erase, if_neg (fun e => hmm e.symm)]
  -- assemble
  let d6 : Disk := { d2 with manifests := ms5, current := some m' }
  have hpre : runOk p.d (ctOps tabs ++ [Op.createWal w', .createManifest m', .appendManifest m' snap,
      .appendManifest m' e2, .setCurrent m']) = some d6 := by
    rw [runOk_append hrun1, runOk_cons hok2, runOk_cons hok3, apply_createManifest, runOk_cons hok4, hd4,
      runOk_cons hok5, hd5, runOk_cons hok6, apply_setCurrent]
    rfl
  have hR3 : Rel { s := p.s, d := { d2 with manifests := ms3 }, c := p.c } :=
    rel_other_manifests hR2 ms3 (nodup_update _ _ _ hR2.wf.1)
      (by show lookup (update d2.manifests m' []) p.c.manifest = _
          rw [lookup_update, if_neg hmm])
  have hR4 : Rel { s := p.s, d := { d2 with manifests := ms4 }, c := p.c } :=
    rel_other_manifests hR2 ms4 (nodup_update _ _ _ (nodup_update _ _ _ hR2.wf.1))
      (by show lookup (update (update d2.manifests m' []) m' [snap]) p.c.manifest = _
          rw [lookup_update, if_neg hmm, lookup_update, if_neg hmm])
  -- the chain up to the switch of CURRENT
  have cpre : Chain (p.s, p.c) (s3, { manifest := m', wal := w', immWal := none, manWal := w' }) p.d
      (ctOps tabs ++ [Op.createWal w', .createManifest m', .appendManifest m' snap,
        .appendManifest m' e2, .setCurrent m']) := by
    obtain ⟨c1, _⟩ := chain_completeTables (p.s, p.c) (s3, { manifest := m', wal := w', immWal := none, manWal := w' })
      tabs (d := p.d) h R.fresh
    have hd1 : d1 = (ctOps tabs).foldl apply p.d := runOk_eq_foldl hrun1
    refine Chain.append c1 ?_
    rw [← hd1]
    refine Chain.cons _ _ _ (Or.inl hR1) hok2 (Chain.cons _ _ _ (Or.inl hR2) hok3 ?_)
    rw [apply_createManifest]
    refine Chain.cons _ _ _ (Or.inl hR3) hok4 ?_
    rw [hd4]
    refine Chain.cons _ _ _ (Or.inl hR4) hok5 ?_
    rw [hd5]
    refine Chain.single (Or.inl hR5) hok6 (Or.inr ?_)
    rw [apply_setCurrent]; exact hR6
  have hd6 : (ctOps tabs ++ [Op.createWal w', .createManifest m', .appendManifest m' snap,
      .appendManifest m' e2, .setCurrent m']).foldl apply p.d = d6 := (runOk_eq_foldl hpre).symm
  rcases h.walImm with ⟨hin, _⟩ | ⟨wi, im, bs, hwi, _, hlt, hlI, _⟩
  · -- no immutable memtable: only the current WAL is removed
    obtain ⟨hok7, hR7⟩ := rel_removeWal hR6 p.c.wal hwal_lt
    obtain ⟨hok8, hR8⟩ := hfin _ hR7 rfl rfl hl5 hnd5
    have hops : opsOf p (.reopen t1 t2 w' m') =
        (ctOps tabs ++ [Op.createWal w', .createManifest m', .appendManifest m' snap,
          .appendManifest m' e2, .setCurrent m']) ++ [.removeWal p.c.wal, .removeManifest p.c.manifest] := by
      simp only [opsOf, hin, htabs, ctOps, List.append_nil, List.append_assoc]
      rfl
    have hall : runOk p.d (opsOf p (.reopen t1 t2 w' m')) =
        some (apply (apply d6 (.removeWal p.c.wal)) (.removeManifest p.c.manifest)) := by
      rw [hops, runOk_append hpre, runOk_cons hok7, runOk_cons hok8]; rfl
    have hd := runOk_eq_foldl hall
    refine ⟨by rw [← hd]; exact hall, by rw [← hd]; exact hR8, ?_⟩
    rw [hops]
    refine Chain.append cpre ?_
    rw [hd6]
    exact Chain.cons _ _ _ (Or.inr hR6) hok7 (Chain.single (Or.inr hR7) hok8 (Or.inr hR8))
  · -- the immutable memtable's WAL first
    have hwi_lt : wi < w' := hw _ (mem_of_lookup _ _ _ hlI)
    obtain ⟨hok7a, hR7a⟩ := rel_removeWal hR6 wi hwi_lt
    obtain ⟨hok7, hR7⟩ := rel_removeWal hR7a p.c.wal hwal_lt
    obtain ⟨hok8, hR8⟩ := hfin _ hR7 rfl rfl hl5 hnd5
    have hops : opsOf p (.reopen t1 t2 w' m') =
        (ctOps tabs ++ [Op.createWal w', .createManifest m', .appendManifest m' snap,
          .appendManifest m' e2, .setCurrent m']) ++
        [.removeWal wi, .removeWal p.c.wal, .removeManifest p.c.manifest] := by
      simp only [opsOf, hwi, htabs, ctOps, List.append_assoc, List.cons_append, List.nil_append]
      rfl
    have hall : runOk p.d (opsOf p (.reopen t1 t2 w' m')) =
        some (apply (apply (apply d6 (.removeWal wi)) (.removeWal p.c.wal)) (.removeManifest p.c.manifest)) := by
      rw [hops, runOk_append hpre, runOk_cons hok7a, runOk_cons hok7, runOk_cons hok8]; rfl
    have hd := runOk_eq_foldl hall
    refine ⟨by rw [← hd]; exact hall, by rw [← hd]; exact hR8, ?_⟩
    rw [hops]
    refine Chain.append cpre ?_
    rw [hd6]
    exact Chain.cons _ _ _ (Or.inr hR6) hok7a (Chain.cons _ _ _ (Or.inr hR7a) hok7
      (Chain.single (Or.inr hR7) hok8 (Or.inr hR8)))

end Rain.Persist.Lemmas
