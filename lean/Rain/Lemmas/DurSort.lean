import Rain.Lemmas.DurAssoc
/-
`sortWals` (insertion sort by file number) and the replayed WAL entries under the WAL operations.
-/
namespace Rain.Durable.Lemmas
open Rain Rain.Lsm Rain.Durable

abbrev Wal := Nat × List WBatch

theorem insertWal_nil (w : Wal) : insertWal w [] = [w] := rfl

theorem insertWal_cons_lt (w y : Wal) (ys : List Wal) (h : w.1 < y.1) :
    insertWal w (y :: ys) = w :: y :: ys := by
  rw [insertWal]; simp [h]

theorem insertWal_cons_ge (w y : Wal) (ys : List Wal) (h : ¬ w.1 < y.1) :
    insertWal w (y :: ys) = y :: insertWal w ys := by
  rw [insertWal]; simp [h]

theorem mem_insertWal (w x : Wal) (xs : List Wal) : x ∈ insertWal w xs ↔ x = w ∨ x ∈ xs := by
  induction xs with
  | nil => simp [insertWal]
  | cons y ys ih =>
    by_cases h : w.1 < y.1
    · rw [insertWal_cons_lt _ _ _ h]; simp
    · rw [insertWal_cons_ge _ _ _ h]
      simp only [List.mem_cons, ih]
      constructor
      · rintro (h | h | h) <;> simp [h]
      · rintro (h | h | h) <;> simp [h]

theorem mem_sortWals (x : Wal) (l : List Wal) : x ∈ sortWals l ↔ x ∈ l := by
  induction l with
  | nil => simp [sortWals]
  | cons y ys ih => simp [sortWals, mem_insertWal, ih]

def Sorted (l : List Wal) : Prop := l.Pairwise fun a b => a.1 ≤ b.1

theorem sorted_insertWal (w : Wal) (xs : List Wal) (h : Sorted xs) : Sorted (insertWal w xs) := by
  induction xs with
  | nil => simp [insertWal, Sorted]
  | cons y ys ih =>
    unfold Sorted at h ih ⊢
    rw [List.pairwise_cons] at h
    by_cases hw : w.1 < y.1
    · rw [insertWal_cons_lt _ _ _ hw]
      simp only [List.pairwise_cons]
      refine ⟨?_, h⟩
      intro a ha
      rcases List.mem_cons.1 ha with ha | ha
      · subst ha; omega
      · have := h.1 a ha; omega
    · rw [insertWal_cons_ge _ _ _ hw]
      simp only [List.pairwise_cons]
      refine ⟨?_, ih h.2⟩
      intro a ha
      rcases (mem_insertWal w a ys).1 ha with ha | ha
      · subst ha; omega
      · exact h.1 a ha

theorem sorted_sortWals (l : List Wal) : Sorted (sortWals l) := by
  induction l with
  | nil => simp [sortWals, Sorted]
  | cons y ys ih => exact sorted_insertWal y _ ih

theorem insertWal_of_lt (w : Wal) (ys : List Wal) (h : ∀ y ∈ ys, w.1 < y.1) : insertWal w ys = w :: ys := by
  cases ys with
  | nil => rfl
  | cons y ys => exact insertWal_cons_lt _ _ _ (h y List.mem_cons_self)

theorem insertWal_of_ge (w : Wal) (xs : List Wal) (h : ∀ x ∈ xs, x.1 ≤ w.1) : insertWal w xs = xs ++ [w] := by
  induction xs with
  | nil => rfl
  | cons y ys ih =>
    have h1 : ¬ w.1 < y.1 := by have := h y List.mem_cons_self; omega
    rw [insertWal_cons_ge _ _ _ h1, ih (fun x hx => h x (List.mem_cons_of_mem _ hx))]
    rfl

theorem insertWal_append_last (a z : Wal) (P : List Wal) (h : a.1 < z.1) :
    insertWal a (P ++ [z]) = insertWal a P ++ [z] := by
  induction P with
  | nil => simp [insertWal, h]
  | cons y ys ih =>
    simp only [List.cons_append]
    by_cases hw : a.1 < y.1
    · rw [insertWal_cons_lt _ _ _ hw, insertWal_cons_lt _ _ _ hw]; rfl
    · rw [insertWal_cons_ge _ _ _ hw, insertWal_cons_ge _ _ _ hw, ih]; rfl

theorem filter_insertWal (p : Wal → Bool) (w : Wal) (xs : List Wal) (h : Sorted xs) :
    (insertWal w xs).filter p = if p w then insertWal w (xs.filter p) else xs.filter p := by
  induction xs with
  | nil =>
    by_cases hp : p w = true
    · simp [insertWal, hp]
    · simp [insertWal, hp]
  | cons y ys ih =>
    unfold Sorted at h ih
    rw [List.pairwise_cons] at h
    by_cases hw : w.1 < y.1
    · rw [insertWal_cons_lt _ _ _ hw, List.filter_cons]
      by_cases hp : p w = true
      · rw [if_pos hp, if_pos hp, insertWal_of_lt]
        intro z hz
        have hz' := (List.mem_filter.1 hz).1
        rcases List.mem_cons.1 hz' with hz' | hz'
        · subst hz'; exact hw
        · have := h.1 z hz'; omega
      · rw [if_neg hp, if_neg hp]
    · rw [insertWal_cons_ge _ _ _ hw, List.filter_cons, ih h.2, List.filter_cons]
      by_cases hy : p y = true
      · rw [if_pos hy, if_pos hy]
        by_cases hp : p w = true
        · rw [if_pos hp, if_pos hp, insertWal_cons_ge _ _ _ hw]
        · rw [if_neg hp, if_neg hp]
      · rw [if_neg hy, if_neg hy]

theorem filter_sortWals (p : Wal → Bool) (l : List Wal) : (sortWals l).filter p = sortWals (l.filter p) := by
  induction l with
  | nil => rfl
  | cons y ys ih =>
    simp only [sortWals, List.filter_cons]
    rw [filter_insertWal p y _ (sorted_sortWals ys), ih]
    by_cases hy : p y = true
    · rw [if_pos hy, if_pos hy]; rfl
    · rw [if_neg hy, if_neg hy]

theorem insertWal_map (g : Wal → Wal) (hg : ∀ p, (g p).1 = p.1) (w : Wal) (xs : List Wal) :
    insertWal (g w) (xs.map g) = (insertWal w xs).map g := by
  induction xs with
  | nil => rfl
  | cons y ys ih =>
    simp only [List.map_cons]
    by_cases hw : w.1 < y.1
    · rw [insertWal_cons_lt _ _ _ hw, insertWal_cons_lt _ _ _ (by rw [hg, hg]; exact hw)]; rfl
    · rw [insertWal_cons_ge _ _ _ hw, insertWal_cons_ge _ _ _ (by rw [hg, hg]; exact hw), ih]; rfl

theorem sortWals_map (g : Wal → Wal) (hg : ∀ p, (g p).1 = p.1) (l : List Wal) :
    sortWals (l.map g) = (sortWals l).map g := by
  induction l with
  | nil => rfl
  | cons y ys ih => simp only [List.map_cons, sortWals, ih, insertWal_map g hg]

theorem sortWals_append_max (l : List Wal) (w : Wal) (h : ∀ x ∈ l, x.1 < w.1) :
    sortWals (l ++ [w]) = sortWals l ++ [w] := by
  induction l with
  | nil => rfl
  | cons y ys ih =>
    simp only [List.cons_append, sortWals]
    rw [ih (fun x hx => h x (List.mem_cons_of_mem _ hx)), insertWal_append_last _ _ _ (h y List.mem_cons_self)]

/-- the entry with the largest number is sorted last -/
theorem sortWals_max (l : List Wal) (n : Nat) (v : List WBatch) (hnd : (l.map Prod.fst).Nodup)
    (hmem : (n, v) ∈ l) (hmax : ∀ x ∈ l, x.1 ≤ n) :
    sortWals l = sortWals (l.filter fun p => !(p.1 == n)) ++ [(n, v)] := by
  induction l with
  | nil => simp at hmem
  | cons y ys ih =>
    simp only [List.map_cons, List.nodup_cons] at hnd
    have hmax' : ∀ x ∈ ys, x.1 ≤ n := fun x hx => hmax x (List.mem_cons_of_mem _ hx)
    by_cases hy : y = (n, v)
    · subst hy
      have hne : ∀ x ∈ ys, x.1 ≠ n := by
        intro x hx hxn; apply hnd.1; simp only; rw [← hxn]; exact List.mem_map.2 ⟨x, hx, rfl⟩
      have hf : ys.filter (fun p => !(p.1 == n)) = ys := by
        apply List.filter_eq_self.2; intro x hx; simp [hne x hx]
      simp only [List.filter_cons, beq_self_eq_true, Bool.not_true, Bool.false_eq_true, if_false, hf, sortWals]
      apply insertWal_of_ge
      intro x hx; exact hmax' x ((mem_sortWals x ys).1 hx)
    · have hmem' : (n, v) ∈ ys := by
        rcases List.mem_cons.1 hmem with h | h
        · exact absurd h.symm hy
        · exact h
      have hyn : y.1 ≠ n := by
        intro h; apply hnd.1; rw [h]; exact List.mem_map.2 ⟨(n, v), hmem', rfl⟩
      have hlt : y.1 < n := by have := hmax y List.mem_cons_self; omega
      have : (!(y.1 == n)) = true := by simp [hyn]
      simp only [List.filter_cons, this, if_true, sortWals]
      rw [ih hnd.2 hmem' hmax', insertWal_append_last _ _ _ hlt]

/-- insertion sort only permutes: the file numbers of the sorted list are still unique -/
theorem insertWal_perm (w : Wal) (xs : List Wal) : (insertWal w xs).Perm (w :: xs) := by
  induction xs with
  | nil => exact List.Perm.refl _
  | cons y ys ih =>
    by_cases h : w.1 < y.1
    · rw [insertWal_cons_lt _ _ _ h]
    · rw [insertWal_cons_ge _ _ _ h]
      exact (List.Perm.cons y ih).trans (List.Perm.swap w y ys)

theorem sortWals_perm (l : List Wal) : (sortWals l).Perm l := by
  induction l with
  | nil => exact List.Perm.refl _
  | cons y ys ih => exact (insertWal_perm y _).trans (List.Perm.cons y ih)

theorem nodup_keys_sortWals (l : List Wal) (h : (l.map Prod.fst).Nodup) :
    ((sortWals l).map Prod.fst).Nodup :=
  ((sortWals_perm l).map Prod.fst).nodup_iff.2 h

end Rain.Durable.Lemmas
