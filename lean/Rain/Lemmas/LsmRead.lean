import Rain.Lemmas.LsmInv
/-
The read path returns the view (`get_eq_view`); the initial state; C10's shape.
-/
namespace Rain.Lsm.Lemmas
open Rain Rain.Lsm

theorem dbGet_eq (s : State) (k : Bytes) (snap : Nat) :
    dbGet s k snap = toOpt (firstHit [lookupSorted s.mem k snap,
      lookupSorted (s.imm.getD []) k snap, versionGet s.levels k snap]) := by
  obtain ⟨m, i, L, n⟩ := s
  unfold dbGet
  cases i with
  | none =>
    have : lookupSorted ([] : List Entry) k snap = Lookup.absent := by simp [lookupSorted]
    simp only [Option.getD_none, this]
    split <;> simp_all [toOpt]
  | some es =>
    simp only [Option.getD_some]
    split <;> simp_all [toOpt]

theorem sources_sorted {s : State} (h : InvP s) : ∀ X ∈ sources s, Sorted X := by
  obtain ⟨m, i, L, n⟩ := s
  have hlen := h.len
  cases L with
  | nil => simp at hlen
  | cons l0 D =>
    rw [sources_cons]
    intro X hX
    simp only [List.cons_append, List.nil_append, List.mem_cons, List.mem_append, List.mem_map] at hX
    rcases hX with rfl | rfl | ⟨f, hf, rfl⟩ | ⟨fs, hfs, rfl⟩
    · exact h.memS
    · exact h.immS
    · exact (h.files 0 f (by simpa using mem_sortDesc.mp hf)).sorted
    · have : ∀ j, Sorted (concat (lv D j)) := by
        intro j
        have e : lv D j = lv (l0 :: D) (j + 1) := by simp
        rw [e]
        exact concat_sorted _ (h.files (j + 1)) (h.lvls (j + 1) (by omega))
      exact (forall_mem_iff_lv (fun fs => Sorted (concat fs)) (by simp [concat, Sorted]) D).mpr this fs hfs

theorem sources_pairwise {s : State} (h : InvP s) : (sources s).Pairwise Newer :=
  (pairwiseNewer_iff _).mp (by
    have := (invB_iff s).mpr h
    simp only [invB, Bool.and_eq_true] at this
    exact this.1.1.2)

theorem mem_sources_flatten {s : State} (h : InvP s) (e : Entry) :
    e ∈ (sources s).flatten ↔ e ∈ allEntries s := by
  obtain ⟨m, i, L, n⟩ := s
  have hlen := h.len
  cases L with
  | nil => simp at hlen
  | cons l0 D =>
    rw [sources_cons]
    simp only [allEntries, concat, List.cons_append, List.nil_append, List.flatten_cons,
      List.flatten_append, List.mem_append, List.mem_flatten, List.mem_map, List.map_append]
    constructor
    · rintro (h | h | ⟨l, ⟨f, hf, rfl⟩, he⟩ | ⟨l, ⟨fs, hfs, rfl⟩, he⟩)
      · exact Or.inl (Or.inl h)
      · exact Or.inl (Or.inr h)
      · exact Or.inr (Or.inl ⟨_, ⟨f, mem_sortDesc.mp hf, rfl⟩, he⟩)
      · obtain ⟨l, hl, he⟩ := List.mem_flatten.mp he
        obtain ⟨f, hf, rfl⟩ := List.mem_map.mp hl
        exact Or.inr (Or.inr ⟨_, ⟨f, ⟨fs, hfs, hf⟩, rfl⟩, he⟩)
    · rintro ((h | h) | ⟨l, ⟨f, hf, rfl⟩, he⟩ | ⟨l, ⟨f, ⟨fs, hfs, hf⟩, rfl⟩, he⟩)
      · exact Or.inl h
      · exact Or.inr (Or.inl h)
      · exact Or.inr (Or.inr (Or.inl ⟨_, ⟨f, mem_sortDesc.mpr hf, rfl⟩, he⟩))
      · refine Or.inr (Or.inr (Or.inr ⟨_, ⟨fs, hfs, rfl⟩, ?_⟩))
        exact List.mem_flatten.mpr ⟨_, List.mem_map.mpr ⟨f, hf, rfl⟩, he⟩

theorem uniq_all {s : State} (h : InvP s) : Uniq (allEntries s) := by
  have hu := uniq_flatten (sources s) (sources_sorted h) (sources_pairwise h)
  intro a ha b hb
  exact hu a ((mem_sources_flatten h a).mpr ha) b ((mem_sources_flatten h b).mpr hb)

theorem view_sources {s : State} (h : InvP s) (k : Bytes) (snap : Nat) :
    view (sources s).flatten snap k = view (allEntries s) snap k := by
  symm
  apply view_congr (uniq_flatten (sources s) (sources_sorted h) (sources_pairwise h))
  intro e _ _
  exact mem_sources_flatten h e

/-- a file whose user-key range does not contain `k` answers "not here" -/
theorem lookup_absent_of_range {f : File} (hf : FileOk f) {k : Bytes} (snap : Nat)
    (h : (!bytesLt k f.smallest.1 && !bytesLt f.largest.1 k) = false) :
    lookupSorted f.entries k snap = .absent := by
  apply lookup_absent_of_no_key
  intro e he hk
  have h1 := hf.ukey_ge he
  have h2 := hf.ukey_le he
  rw [hk] at h1 h2
  simp [h1, h2] at h

theorem get_eq_view' (s : State) (h : InvP s) (k : Bytes) (snap : Nat) :
    dbGet s k snap = view (allEntries s) snap k := by
  rw [← view_sources h, ← firstHit_view _ k snap (sources_sorted h) (sources_pairwise h), dbGet_eq]
  congr 1
  obtain ⟨m, i, L, n⟩ := s
  have hlen := h.len
  cases L with
  | nil => simp at hlen
  | cons l0 D =>
    rw [sources_cons]
    simp only [versionGet]
    have e1 : ∀ g : List File → Lookup, (∀ fs ∈ D, g fs = lookupSorted (concat fs) k snap) →
        D.map g = D.map (fun fs => lookupSorted (concat fs) k snap) :=
      fun g hg => List.map_congr_left hg
    have e2 : firstHit ((l0Candidates l0 k).map fun f => lookupSorted f.entries k snap) =
        firstHit ((sortDesc l0).map fun f => lookupSorted f.entries k snap) := by
      unfold l0Candidates
      rw [← filter_sortDesc]
      apply firstHit_filter
      intro f hf hp
      exact lookup_absent_of_range (h.files 0 f (by simpa using mem_sortDesc.mp hf)) snap hp
    rw [e1]
    rotate_left
    · intro fs hfs
      have hfo : ∀ f ∈ fs, FileOk f := by
        have : ∀ j, ∀ f ∈ lv D j, FileOk f := fun j f hf => h.files (j + 1) f (by simpa using hf)
        exact (forall_mem_iff_lv (fun fs => ∀ f ∈ fs, FileOk f) (by simp) D).mpr this fs hfs
      have hl := levelCandidate_lookup fs hfo k snap
      split
      · rename_i f hc; rw [hc] at hl; exact hl
      · rename_i hc; rw [hc] at hl; exact hl
    have e3 : ∀ (a b : Lookup) (M : List Lookup), firstHit [a, b, firstHit M] = firstHit (a :: b :: M) :=
      fun a b M => firstHit_append_firstHit [a, b] M
    rw [e3]
    simp only [List.cons_append, List.nil_append, List.map_cons, List.map_append, List.map_map]
    have e4 : ∀ (a b : Lookup) (A A' B : List Lookup), firstHit A = firstHit A' →
        firstHit (a :: b :: (A ++ B)) = firstHit (a :: b :: (A' ++ B)) := by
      intro a b A A' B hA
      have : ∀ X : List Lookup, a :: b :: X = [a, b] ++ X := fun _ => rfl
      rw [this (A ++ B), this (A' ++ B), firstHit_append [a, b] (A ++ B), firstHit_append [a, b] (A' ++ B),
        firstHit_append A, firstHit_append A', hA]
    exact e4 _ _ _ _ _ e2

theorem get_eq_view (s : State) (h : Inv s) (k : Bytes) (snap : Nat) :
    dbGet s k snap = view (allEntries s) snap k :=
  get_eq_view' s ((inv_iff s).mp h) k snap

theorem inv_init : Inv init := by show invB init = true; decide

theorem wellformed (s : State) (h : Inv s) : WellFormed s := by
  have hp := (inv_iff s).mp h
  refine ⟨hp.len, ?_, ?_, ?_⟩
  · intro f hf
    obtain ⟨j, hj⟩ := mem_flatten_iff_lv.mp hf
    have hfo := hp.files j f hj
    exact ⟨hfo.ne, (sortedE_iff _).mpr hfo.sorted, hfo.small, hfo.large, hfo.small_le_large⟩
  · have : ∀ j, levelSorted (lv (s.levels.drop 1) j) = true := by
      intro j
      rw [lv_drop]
      exact (levelSorted_iff _ (hp.files _)).mpr (hp.lvls _ (by omega))
    exact (forall_mem_iff_lv (fun fs => levelSorted fs = true) rfl _).mpr this
  · exact (distinctNums_iff _).mpr ((nodup_nums_iff _).mpr ⟨hp.numsL, hp.numsX⟩)

end Rain.Lsm.Lemmas
