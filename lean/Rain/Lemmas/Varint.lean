import Rain.Block
import Rain.Lemmas.Sep
/-
Varint (LEB128) and fixed-width little-endian round trips.
-/
namespace Rain.Block.Lemmas
open Rain Rain.Lsm Rain.Block

theorem leBytes_length (n v : Nat) : (leBytes n v).length = n := by
  induction n generalizing v with
  | zero => rfl
  | succ n ih => simp [leBytes, ih]

theorem leVal_leBytes (n v : Nat) (h : v < 256 ^ n) : leVal (leBytes n v) = v := by
  induction n generalizing v with
  | zero => simp at h; subst h; rfl
  | succ n ih =>
    simp only [leBytes, leVal]
    rw [toUInt8_toNat _ (Nat.mod_lt _ (by decide)), ih]
    · omega
    · rw [Nat.pow_succ] at h; omega

theorem varintFuel_ne_nil (f n : Nat) : varintFuel (f + 1) n ≠ [] := by
  simp only [varintFuel]; split <;> simp

theorem varint_ne_nil (n : Nat) : varint n ≠ [] := varintFuel_ne_nil 9 n

theorem varint_length_pos (n : Nat) : 0 < (varint n).length :=
  List.length_pos_iff.mpr (varint_ne_nil n)

theorem unvarint_varintFuel (f n : Nat) (h : n < 128 ^ (f + 1)) (rest : Bytes) :
    unvarint (varintFuel (f + 1) n ++ rest) = some (n, (varintFuel (f + 1) n).length) := by
  induction f generalizing n with
  | zero =>
    have hn : n < 128 := by simpa using h
    simp only [varintFuel, hn, if_true, List.cons_append, List.nil_append, unvarint]
    rw [toUInt8_toNat _ (by omega)]
    simp [hn]
  | succ f ih =>
    rw [varintFuel]
    split
    · next hn =>
      simp only [List.cons_append, List.nil_append, unvarint]
      rw [toUInt8_toNat _ (by omega)]
      simp [hn]
    · next hn =>
      have hq : n / 128 < 128 ^ (f + 1) := by
        rw [Nat.pow_succ] at h; omega
      simp only [List.cons_append, unvarint]
      rw [toUInt8_toNat _ (by omega), ih _ hq]
      have : ¬ (n % 128 + 128 < 128) := by omega
      simp only [this, if_false, List.length_cons]
      congr 2
      omega

theorem unvarint_varint (n : Nat) (h : n < 2 ^ 70) (rest : Bytes) :
    unvarint (varint n ++ rest) = some (n, (varint n).length) :=
  unvarint_varintFuel 9 n (by simpa using h) rest

theorem chunks4_flatten (rs : List Nat) (h : ∀ x ∈ rs, x < 2 ^ 32) (tail : Bytes) :
    chunks4 rs.length ((rs.map (leBytes 4)).flatten ++ tail) = rs := by
  induction rs with
  | nil => rfl
  | cons x xs ih =>
    simp only [List.length_cons, chunks4, List.map_cons, List.flatten_cons, List.append_assoc]
    have hl : (leBytes 4 x).length = 4 := leBytes_length 4 x
    rw [List.take_left' hl, List.drop_left' hl, ih (fun y hy => h y (List.mem_cons_of_mem _ hy))]
    rw [leVal_leBytes 4 x (by have := h x (List.mem_cons_self); simpa using this)]

theorem flatten_leBytes_length (rs : List Nat) :
    ((rs.map (leBytes 4)).flatten).length = 4 * rs.length := by
  induction rs with
  | nil => rfl
  | cons x xs ih => simp [leBytes_length, ih]; omega

end Rain.Block.Lemmas
