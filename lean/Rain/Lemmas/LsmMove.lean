import Rain.Lemmas.LsmWrite
/-
Flush of the immutable memtable and trivial moves: invariant and stored entries.
-/
namespace Rain.Lsm.Lemmas
open Rain Rain.Lsm

/-! ### flush -/

theorem flush_cases {s s' : State} {num lvl : Nat} (hs : stepFlush s num lvl = some s') :
    (s.imm = some [] ∧ s' = { s with imm := none }) ∨
    (∃ e es, s.imm = some (e :: es) ∧
      (lvl = 0 ∨ (lvl < 7 ∧ ∀ g ∈ (s.levels.take (lvl + 1)).flatten,
        userRangeOverlaps g (mkFile num (e :: es)).smallest.1 (mkFile num (e :: es)).largest.1 = false)) ∧
      (∀ g ∈ s.levels.flatten, g.num < num) ∧
      s' = { s with imm := none, levels := addToLevel s.levels lvl (mkFile num (e :: es)) }) := by
  obtain ⟨m, i, L, n⟩ := s
  cases i with
  | none => simp [stepFlush] at hs
  | some es =>
    cases es with
    | nil =>
      left
      simp only [stepFlush, Option.some.injEq] at hs
      exact ⟨rfl, hs.symm⟩
    | cons e es =>
      right
      simp only [stepFlush] at hs
      split at hs
      · rename_i hok
        simp only [Bool.and_eq_true, Bool.or_eq_true, beq_iff_eq, decide_eq_true_eq,
          List.all_eq_true, Bool.not_eq_true'] at hok
        simp only [Option.some.injEq] at hs
        exact ⟨e, es, rfl, hok.1, hok.2, hs.symm⟩
      · cases hs

theorem mem_take_flatten {L : List (List File)} {n : Nat} {g : File} :
    g ∈ (L.take n).flatten ↔ ∃ j, j < n ∧ g ∈ lv L j := by
  rw [mem_flatten_iff_lv]
  constructor
  · rintro ⟨j, hj⟩
    rw [lv_take] at hj
    split at hj
    · exact ⟨j, by assumption, hj⟩
    · cases hj
  · rintro ⟨j, hjn, hj⟩
    exact ⟨j, by rw [lv_take]; simp [hjn, hj]⟩

theorem flush_inv' {s s' : State} {num lvl : Nat} (h : InvP s) (hs : stepFlush s num lvl = some s') :
    InvP s' := by
  rcases flush_cases hs with ⟨hi, rfl⟩ | ⟨e, es, hi, hlvl, hnum, rfl⟩
  · have hi' : s.imm.getD [] = [] := by rw [hi]; rfl
    apply InvP.ofLevels (s := { s with imm := none }) h.levelsP h.memS
    · simp [Sorted]
    · exact Newer.nil_right _
    · exact h.memNewF
    · intro j f _; exact Newer.nil_left _
    · exact h.seqM
    · intro e he; cases he
    · exact h.seqF
  · have hi' : s.imm.getD [] = e :: es := by rw [hi]; rfl
    have hfo : FileOk (mkFile num (e :: es)) := mkFile_ok _ _ (by simp) (by rw [← hi']; exact h.immS)
    have ht : lvl < 7 := by rcases hlvl with rfl | ⟨h1, _⟩ <;> omega
    have hnum' : ∀ j g, g ∈ lv s.levels j → g.num < num :=
      fun j g hg => hnum g (mem_flatten_iff_lv.mpr ⟨j, hg⟩)
    have hno : 1 ≤ lvl → ∀ i g, g ∈ lv s.levels i → i ≤ lvl →
        userRangeOverlaps g (mkFile num (e :: es)).smallest.1 (mkFile num (e :: es)).largest.1 = false := by
      intro h1 i g hg hil
      rcases hlvl with rfl | ⟨_, h2⟩
      · omega
      · exact h2 g (mem_take_flatten.mpr ⟨i, by omega, hg⟩)
    have himmF : ∀ j g, g ∈ lv s.levels j → NewerF (mkFile num (e :: es)) g := by
      intro j g hg
      have := h.immNewF j g hg
      rw [hi'] at this
      exact this
    have hL : LevelsP (addToLevel s.levels lvl (mkFile num (e :: es))) := by
      apply h.levelsP.addFile ht hfo
      · intro j g hg; have := hnum' j g hg; simp only [mkFile_num]; omega
      · intro h1 g hg
        exact disjoint_of_no_overlap (hno h1 lvl g hg (Nat.le_refl _))
      · intro i g hg hil
        exact newerF_of_no_overlap (h.files i g hg) hfo (hno (by omega) i g hg (by omega))
      · intro i g hg _; exact himmF i g hg
      · intro _ g hg
        exact ⟨by simpa using hnum' 0 g hg, himmF 0 g hg⟩
    have hmem := mem_lv_addToLevel s.levels (mkFile num (e :: es)) (by rw [h.len]; exact ht)
    apply InvP.ofLevels (s := { s with imm := none, levels := addToLevel s.levels lvl _ }) hL h.memS
    · simp [Sorted]
    · exact Newer.nil_right _
    · intro j f hf
      rcases (hmem j f).mp hf with hf | ⟨_, rfl⟩
      · exact h.memNewF j f hf
      · have := h.memNew; rw [hi'] at this; exact this
    · intro j f _; exact Newer.nil_left _
    · exact h.seqM
    · intro e he; cases he
    · intro j f hf
      rcases (hmem j f).mp hf with hf | ⟨_, rfl⟩
      · exact h.seqF j f hf
      · have := h.seqI; rw [hi'] at this; exact this

theorem flush_entries {s s' : State} {num lvl : Nat} (h : InvP s)
    (hs : stepFlush s num lvl = some s') (x : Entry) : x ∈ allEntries s' ↔ x ∈ allEntries s := by
  rcases flush_cases hs with ⟨hi, rfl⟩ | ⟨e, es, hi, hlvl, hnum, rfl⟩
  · simp only [mem_allEntries, hi]
    simp
  · have ht : lvl < 7 := by rcases hlvl with rfl | ⟨h1, _⟩ <;> omega
    have hmem := mem_lv_addToLevel s.levels (mkFile num (e :: es)) (by rw [h.len]; exact ht)
    simp only [mem_allEntries, hi, hmem]
    constructor
    · rintro (hx | hx | ⟨j, f, hf | ⟨_, rfl⟩, hx⟩)
      · exact Or.inl hx
      · simp at hx
      · exact Or.inr (Or.inr ⟨j, f, hf, hx⟩)
      · exact Or.inr (Or.inl hx)
    · rintro (hx | hx | ⟨j, f, hf, hx⟩)
      · exact Or.inl hx
      · exact Or.inr (Or.inr ⟨lvl, _, Or.inr ⟨rfl, rfl⟩, hx⟩)
      · exact Or.inr (Or.inr ⟨j, f, Or.inl hf, hx⟩)

theorem flush_lastSeq {s s' : State} {num lvl : Nat} (hs : stepFlush s num lvl = some s') :
    s'.lastSeq = s.lastSeq := by
  rcases flush_cases hs with ⟨_, rfl⟩ | ⟨_, _, _, _, _, rfl⟩ <;> rfl

/-! ### trivial move -/

theorem move_cases {s s' : State} {num lvl : Nat} (hs : stepTrivialMove s num lvl = some s') :
    ∃ f, pick (lv s.levels lvl) [num] = [f] ∧ lvl + 1 < 7 ∧
      (∀ g ∈ lv s.levels (lvl + 1), userRangeOverlaps g f.smallest.1 f.largest.1 = false) ∧
      (lvl = 0 → ∀ g ∈ unpick (lv s.levels lvl) [num],
        userRangeOverlaps g f.smallest.1 f.largest.1 = false) ∧
      (lvl ≠ 0 → ∀ g ∈ unpick (lv s.levels lvl) [num], kLt f.largest g.smallest = true →
        g.smallest.1 ≠ f.largest.1) ∧
      s' = { s with levels := addToLevel (removeNums s.levels lvl [num]) (lvl + 1) f } := by
  unfold stepTrivialMove at hs
  split at hs
  · rename_i f hp
    simp only at hs
    split at hs
    · rename_i hok
      simp only [Bool.and_eq_true, Bool.or_eq_true, decide_eq_true_eq, List.all_eq_true,
        Bool.not_eq_true', bne_iff_ne, ne_eq, beq_iff_eq, beq_eq_false_iff_ne] at hok
      simp only [Option.some.injEq] at hs
      refine ⟨f, hp, hok.1.1.1, hok.1.1.2, ?_, ?_, hs.symm⟩
      · intro h0
        rcases hok.1.2 with h | h
        · exact absurd h0 h
        · exact h
      · intro h0
        rcases hok.2 with h | h
        · exact absurd h h0
        · intro g hg hlt e
          have := h g hg
          rw [hlt, Bool.true_and] at this
          simp [e] at this
    · cases hs
  · cases hs

theorem move_inv' {s s' : State} {num lvl : Nat} (h : InvP s)
    (hs : stepTrivialMove s num lvl = some s') : InvP s' := by
  obtain ⟨f, hp, ht, hnext, h0, hpos, rfl⟩ := move_cases hs
  have hfm : f ∈ lv s.levels lvl ∧ f.num = num := by
    have : f ∈ pick (lv s.levels lvl) [num] := by rw [hp]; simp
    simpa [pick, List.mem_filter] using this
  have hfo := h.files lvl f hfm.1
  have hR := h.levelsP.removeNums lvl [num]
  have hmemR := mem_lv_removeNums s.levels lvl [num]
  have hothers : ∀ g, g ∈ lv s.levels lvl → g.num ≠ num → g ∈ unpick (lv s.levels lvl) [num] := by
    intro g hg hn
    simp [unpick, List.mem_filter, hg, hn]
  have hL : LevelsP (addToLevel (removeNums s.levels lvl [num]) (lvl + 1) f) := by
    apply hR.addFile ht hfo
    · intro j g hg hn
      obtain ⟨hg, hne⟩ := (hmemR j g).mp hg
      have := h.numsX j lvl g f hg hfm.1 hn
      have := hne this
      simp at this
      omega
    · intro _ g hg
      obtain ⟨hg, _⟩ := (hmemR _ g).mp hg
      exact disjoint_of_no_overlap (hnext g hg)
    · intro i g hg hil
      obtain ⟨hg', hne⟩ := (hmemR i g).mp hg
      clear hg
      by_cases hi : i = lvl
      · subst hi
        have hne' : g.num ≠ num := by simpa using hne rfl
        have hgo := hothers g hg' hne'
        by_cases hz : i = 0
        · exact newerF_of_no_overlap (h.files i g hg') hfo (h0 hz g hgo)
        · have hlv := h.lvls i (by omega)
          rcases pairwise_mem_cases hlv hg' hfm.1 with e | hlt | hlt
          · rw [e] at hne'; exact absurd hfm.2 hne'
          · exact newerF_of_before (h.files i g hg') hfo hlt
          · intro x hx y hy e
            exact absurd e (no_common_key_of_after (h.files i g hg') hfo hlt (hpos hz g hgo hlt) hx hy)
      · exact h.order i lvl g f hg' hfm.1 (Or.inl (by omega))
    · intro i g hg hil
      obtain ⟨hg, _⟩ := (hmemR i g).mp hg
      exact h.order lvl i f g hfm.1 hg (Or.inl (by omega))
    · intro hz; omega
  have hmem := mem_lv_addToLevel (removeNums s.levels lvl [num]) f
    (by rw [removeNums_length, h.len]; exact ht)
  apply InvP.ofLevels (s := { s with levels := addToLevel (removeNums s.levels lvl [num]) (lvl + 1) f })
    hL h.memS h.immS h.memNew
  · intro j g hg
    rcases (hmem j g).mp hg with hg | ⟨_, rfl⟩
    · exact h.memNewF j g ((hmemR j g).mp hg).1
    · exact h.memNewF lvl g hfm.1
  · intro j g hg
    rcases (hmem j g).mp hg with hg | ⟨_, rfl⟩
    · exact h.immNewF j g ((hmemR j g).mp hg).1
    · exact h.immNewF lvl g hfm.1
  · exact h.seqM
  · exact h.seqI
  · intro j g hg
    rcases (hmem j g).mp hg with hg | ⟨_, rfl⟩
    · exact h.seqF j g ((hmemR j g).mp hg).1
    · exact h.seqF lvl g hfm.1

theorem move_entries {s s' : State} {num lvl : Nat} (h : InvP s)
    (hs : stepTrivialMove s num lvl = some s') (x : Entry) : x ∈ allEntries s' ↔ x ∈ allEntries s := by
  obtain ⟨f, hp, ht, hnext, h0, hpos, rfl⟩ := move_cases hs
  have hfm : f ∈ lv s.levels lvl ∧ f.num = num := by
    have : f ∈ pick (lv s.levels lvl) [num] := by rw [hp]; simp
    simpa [pick, List.mem_filter] using this
  have hmemR := mem_lv_removeNums s.levels lvl [num]
  have hmem := mem_lv_addToLevel (removeNums s.levels lvl [num]) f
    (by rw [removeNums_length, h.len]; exact ht)
  simp only [mem_allEntries, hmem, hmemR]
  constructor
  · rintro (hx | hx | ⟨j, g, ⟨hg, _⟩ | ⟨_, rfl⟩, hx⟩)
    · exact Or.inl hx
    · exact Or.inr (Or.inl hx)
    · exact Or.inr (Or.inr ⟨j, g, hg, hx⟩)
    · exact Or.inr (Or.inr ⟨lvl, g, hfm.1, hx⟩)
  · rintro (hx | hx | ⟨j, g, hg, hx⟩)
    · exact Or.inl hx
    · exact Or.inr (Or.inl hx)
    · by_cases e : j = lvl ∧ g.num = num
      · obtain ⟨rfl, hn⟩ := e
        have := eq_of_num_eq (h.numsL j) hg hfm.1 (hn.trans hfm.2.symm)
        subst this
        exact Or.inr (Or.inr ⟨j + 1, g, Or.inr ⟨rfl, rfl⟩, hx⟩)
      · refine Or.inr (Or.inr ⟨j, g, Or.inl ⟨hg, ?_⟩, hx⟩)
        intro hj hn
        apply e
        exact ⟨hj, by simpa using hn⟩

theorem move_lastSeq {s s' : State} {num lvl : Nat} (hs : stepTrivialMove s num lvl = some s') :
    s'.lastSeq = s.lastSeq := by
  obtain ⟨f, _, _, _, _, _, rfl⟩ := move_cases hs; rfl

end Rain.Lsm.Lemmas
