import Rain.DbIter
/-
Unfolding equations for the loops of `Rain/DbIter.lean` in a shape convenient for proofs.
-/
namespace Rain.DbEqns
open Rain Rain.Lsm Rain.Table Rain.Merge Rain.DbIter

/-- is the user key blocked by the skip key? -/
def blocked (sk : Bool) (ck : Option Bytes) (u : Bytes) : Bool :=
  sk && (match ck with | some c => !bytesLt c u | none => false)

def stopC (snap : Nat) (e : Entry) (sk : Bool) (ck : Option Bytes) : Bool :=
  decide (e.seq ≤ snap) && e.put && !blocked sk ck e.ukey

def skN (snap : Nat) (e : Entry) (sk : Bool) : Bool :=
  if decide (e.seq ≤ snap) && !e.put then true else sk

def ckN (snap : Nat) (e : Entry) (ck : Option Bytes) : Option Bytes :=
  if decide (e.seq ≤ snap) && !e.put then some e.ukey else ck

theorem findNext_zero {σ} (I : Inner σ) (snap : Nat) (s : DState σ) (sk : Bool) :
    findNext I snap 0 s sk = { s with valid := false, ckey := none } := rfl

theorem findNext_succ {σ} (I : Inner σ) (snap fuel : Nat) (s : DState σ) (sk : Bool) :
    findNext I snap (fuel + 1) s sk =
      match I.cur s.inner with
      | none => { s with valid := false, ckey := none }
      | some e =>
        if stopC snap e sk s.ckey then { s with valid := true, ckey := none }
        else match I.cur (I.step s.inner .next) with
          | none => { s with inner := I.step s.inner .next, valid := false, ckey := none }
          | some _ => findNext I snap fuel
              { s with inner := I.step s.inner .next, ckey := ckN snap e s.ckey } (skN snap e sk) := by
  rw [findNext]
  cases I.cur s.inner with
  | none => rfl
  | some e =>
    simp only [stopC, blocked, skN, ckN]
    by_cases h : (decide (e.seq ≤ snap) && !e.put) = true <;> simp only [h] <;> rfl

def stopP (e : Entry) (lp : Bool) (ck : Option Bytes) : Bool :=
  lp && (match ck with | some c => bytesLt e.ukey c | none => false)

/-- record the entry -/
def recP {σ} (s : DState σ) (e : Entry) (inner' : σ) : DState σ :=
  { s with inner := inner', ckey := if e.put then some e.ukey else none,
           cval := if e.put then some e.val else none }

theorem findPrevLoop_zero {σ} (I : Inner σ) (snap : Nat) (s : DState σ) (lp : Bool) :
    findPrevLoop I snap 0 s lp = (s, lp) := rfl

theorem findPrevLoop_succ {σ} (I : Inner σ) (snap fuel : Nat) (s : DState σ) (lp : Bool) :
    findPrevLoop I snap (fuel + 1) s lp =
      match I.cur s.inner with
      | none => (s, lp)
      | some e =>
        if e.seq ≤ snap then
          if stopP e lp s.ckey then (s, lp)
          else match I.cur (I.step s.inner .prev) with
            | none => (recP s e (I.step s.inner .prev), e.put)
            | some _ => findPrevLoop I snap fuel (recP s e (I.step s.inner .prev)) e.put
        else match I.cur (I.step s.inner .prev) with
          | none => ({ s with inner := I.step s.inner .prev }, lp)
          | some _ => findPrevLoop I snap fuel { s with inner := I.step s.inner .prev } lp := by
  rw [findPrevLoop]
  cases I.cur s.inner with
  | none => rfl
  | some e =>
    simp only [stopP, recP, decide_eq_true_eq]
    by_cases hq : e.seq ≤ snap
    · simp only [hq, if_true]
      cases hp : e.put <;> simp only [Bool.false_eq_true, if_false, if_true] <;> rfl
    · simp only [hq, if_false]
      rfl

theorem backOff_zero {σ} (I : Inner σ) (inner : σ) (key : Bytes) :
    backOff I 0 inner key = (inner, false) := rfl

theorem backOff_succ {σ} (I : Inner σ) (fuel : Nat) (inner : σ) (key : Bytes) :
    backOff I (fuel + 1) inner key =
      match I.cur (I.step inner .prev) with
      | none => (I.step inner .prev, false)
      | some e => if bytesLt e.ukey key then (I.step inner .prev, true)
                  else backOff I fuel (I.step inner .prev) key := rfl

end Rain.DbEqns
