import Rain.Lsm
/-
The byte order `bytesLt` and the internal-key order `kLt` are strict total orders.
-/
namespace Rain.Order
open Rain Rain.Lsm

theorem u8_eq_of_toNat {a b : UInt8} (h1 : ¬ a.toNat < b.toNat) (h2 : ¬ b.toNat < a.toNat) : a = b := by
  apply UInt8.toNat_inj.mp; omega

theorem bytesLt_nil_cons (b : UInt8) (bs : Bytes) : bytesLt [] (b :: bs) = true := by
  simp [bytesLt, cmpBytes]

theorem bytesLt_nil_right (a : Bytes) : bytesLt a [] = false := by
  cases a <;> simp [bytesLt, cmpBytes]

theorem bytesLt_cons (a b : UInt8) (as bs : Bytes) :
    bytesLt (a :: as) (b :: bs) = (decide (a.toNat < b.toNat) || (a == b && bytesLt as bs)) := by
  simp only [bytesLt, cmpBytes]
  by_cases h1 : a.toNat < b.toNat
  · simp [h1]
  · by_cases h2 : b.toNat < a.toNat
    · have : a ≠ b := by intro h; subst h; omega
      simp [h1, h2, this]
    · have : a = b := u8_eq_of_toNat h1 h2
      simp [this]

theorem bytesLt_irrefl (a : Bytes) : bytesLt a a = false := by
  induction a with
  | nil => rfl
  | cons x xs ih => simp [bytesLt_cons, ih]

theorem bytesLt_trans {a b c : Bytes} (h1 : bytesLt a b = true) (h2 : bytesLt b c = true) :
    bytesLt a c = true := by
  induction a generalizing b c with
  | nil =>
    cases c with
    | nil => simp [bytesLt_nil_right] at h2
    | cons => exact bytesLt_nil_cons _ _
  | cons x xs ih =>
    cases b with
    | nil => simp [bytesLt_nil_right] at h1
    | cons y ys =>
      cases c with
      | nil => simp [bytesLt_nil_right] at h2
      | cons z zs =>
        simp only [bytesLt_cons, Bool.or_eq_true, decide_eq_true_eq, Bool.and_eq_true, beq_iff_eq] at *
        rcases h1 with h1 | ⟨rfl, h1⟩
        · rcases h2 with h2 | ⟨rfl, h2⟩
          · left; omega
          · left; exact h1
        · rcases h2 with h2 | ⟨rfl, h2⟩
          · left; exact h2
          · right; exact ⟨rfl, ih h1 h2⟩

theorem bytesLt_total {a b : Bytes} (h1 : bytesLt a b = false) (h2 : bytesLt b a = false) : a = b := by
  induction a generalizing b with
  | nil =>
    cases b with
    | nil => rfl
    | cons => simp [bytesLt_nil_cons] at h1
  | cons x xs ih =>
    cases b with
    | nil => simp [bytesLt_nil_cons] at h2
    | cons y ys =>
      simp only [bytesLt_cons, Bool.or_eq_false_iff, decide_eq_false_iff_not, Bool.and_eq_false_iff] at h1 h2
      have hxy : x = y := u8_eq_of_toNat h1.1 h2.1
      subst hxy
      simp only [beq_self_eq_true, Bool.true_eq_false, false_or] at h1 h2
      rw [ih h1.2 h2.2]

theorem bytesLt_asymm {a b : Bytes} (h : bytesLt a b = true) : bytesLt b a = false := by
  cases h2 : bytesLt b a with
  | false => rfl
  | true => have := bytesLt_trans h h2; simp [bytesLt_irrefl] at this

theorem bytesLt_ne {a b : Bytes} (h : bytesLt a b = true) : a ≠ b := by
  intro e; subst e; simp [bytesLt_irrefl] at h

/-- trichotomy in the form used most often -/
theorem bytes_tri (a b : Bytes) : bytesLt a b = true ∨ a = b ∨ bytesLt b a = true := by
  cases h1 : bytesLt a b with
  | true => left; rfl
  | false =>
    cases h2 : bytesLt b a with
    | true => right; right; rfl
    | false => right; left; exact bytesLt_total h1 h2

/-- `a ≤ b` and `b < c` give `a < c` -/
theorem bytes_le_lt {a b c : Bytes} (h1 : bytesLt b a = false) (h2 : bytesLt b c = true) :
    bytesLt a c = true := by
  rcases bytes_tri a b with h | h | h
  · exact bytesLt_trans h h2
  · subst h; exact h2
  · simp [h] at h1

theorem bytes_lt_le {a b c : Bytes} (h1 : bytesLt a b = true) (h2 : bytesLt c b = false) :
    bytesLt a c = true := by
  rcases bytes_tri b c with h | h | h
  · exact bytesLt_trans h1 h
  · subst h; exact h1
  · simp [h] at h2

/-! ### internal keys -/

theorem kLt_iff (a b : Bytes × Nat) :
    kLt a b = true ↔ bytesLt a.1 b.1 = true ∨ (a.1 = b.1 ∧ b.2 < a.2) := by
  simp [kLt]

theorem kLt_irrefl (a : Bytes × Nat) : kLt a a = false := by
  cases h : kLt a a with
  | false => rfl
  | true => rw [kLt_iff] at h; simp [bytesLt_irrefl] at h

theorem kLt_trans {a b c : Bytes × Nat} (h1 : kLt a b = true) (h2 : kLt b c = true) :
    kLt a c = true := by
  rw [kLt_iff] at *
  rcases h1 with h1 | ⟨e1, h1⟩
  · rcases h2 with h2 | ⟨e2, h2⟩
    · left; exact bytesLt_trans h1 h2
    · left; rw [← e2]; exact h1
  · rcases h2 with h2 | ⟨e2, h2⟩
    · left; rw [e1]; exact h2
    · right; exact ⟨e1.trans e2, by omega⟩

theorem kLt_total {a b : Bytes × Nat} (h1 : kLt a b = false) (h2 : kLt b a = false) : a = b := by
  have n1 : ¬ (kLt a b = true) := by simp [h1]
  have n2 : ¬ (kLt b a = true) := by simp [h2]
  rw [kLt_iff] at n1 n2
  rcases bytes_tri a.1 b.1 with h | h | h
  · exact absurd (Or.inl h) n1
  · have : a.2 = b.2 := by
      have q1 : ¬ b.2 < a.2 := fun hh => n1 (Or.inr ⟨h, hh⟩)
      have q2 : ¬ a.2 < b.2 := fun hh => n2 (Or.inr ⟨h.symm, hh⟩)
      omega
    exact Prod.ext h this
  · exact absurd (Or.inl h) n2

theorem kLt_asymm {a b : Bytes × Nat} (h : kLt a b = true) : kLt b a = false := by
  cases h2 : kLt b a with
  | false => rfl
  | true => have := kLt_trans h h2; simp [kLt_irrefl] at this

theorem k_tri (a b : Bytes × Nat) : kLt a b = true ∨ a = b ∨ kLt b a = true := by
  cases h1 : kLt a b with
  | true => left; rfl
  | false =>
    cases h2 : kLt b a with
    | true => right; right; rfl
    | false => right; left; exact kLt_total h1 h2

theorem k_le_lt {a b c : Bytes × Nat} (h1 : kLt b a = false) (h2 : kLt b c = true) :
    kLt a c = true := by
  rcases k_tri a b with h | h | h
  · exact kLt_trans h h2
  · subst h; exact h2
  · simp [h] at h1

theorem k_lt_le {a b c : Bytes × Nat} (h1 : kLt a b = true) (h2 : kLt c b = false) :
    kLt a c = true := by
  rcases k_tri b c with h | h | h
  · exact kLt_trans h1 h
  · subst h; exact h1
  · simp [h] at h2

/-- `a ≤ b ≤ c` -/
theorem k_le_le {a b c : Bytes × Nat} (h1 : kLt b a = false) (h2 : kLt c b = false) :
    kLt c a = false := by
  cases h : kLt c a with
  | false => rfl
  | true => have := k_lt_le h h1; simp [this] at h2

end Rain.Order
