import Rain.Lru
/-
Helper lemmas for the LRU cache properties (`Rain/Props/Lru.lean`).
-/
namespace Rain.Lru

/-! ### list facts not in core -/

theorem eraseDups_length_le (l : List Nat) : l.eraseDups.length ≤ l.length := by
  induction h : l.length using Nat.strongRecOn generalizing l with
  | _ n ih =>
    cases l with
    | nil => simp
    | cons a as =>
      rw [List.eraseDups_cons]
      simp only [List.length_cons] at h
      have h1 := List.length_filter_le (fun b => !b == a) as
      have h2 := ih (as.filter fun b => !b == a).length (by omega) _ rfl
      simp only [List.length_cons]
      omega

theorem eraseDups_length_eq_iff (l : List Nat) : l.eraseDups.length = l.length ↔ l.Nodup := by
  induction l with
  | nil => simp
  | cons a as ih =>
    rw [List.eraseDups_cons, List.nodup_cons]
    have h1 := List.length_filter_le (fun b => !b == a) as
    have h2 := eraseDups_length_le (as.filter fun b => !b == a)
    simp only [List.length_cons]
    constructor
    · intro h
      have h3 : (as.filter fun b => !b == a).length = as.length := by omega
      have h4 : as.filter (fun b => !b == a) = as := by
        rw [List.filter_eq_self]; exact List.length_filter_eq_length_iff.mp h3
      rw [h4] at h
      refine ⟨?_, ih.mp (by omega)⟩
      intro hmem
      have := List.length_filter_eq_length_iff.mp h3 a hmem
      simp at this
    · intro ⟨hn, hd⟩
      have h4 : as.filter (fun b => !b == a) = as := by
        rw [List.filter_eq_self]
        intro b hb
        have : b ≠ a := fun e => hn (e ▸ hb)
        simpa using this
      rw [h4, ih.mpr hd]

/-- a duplicate-free list whose elements all lie in `S` is no longer than `S` -/
theorem nodup_subset_length (l S : List Nat) (hd : l.Nodup) (hs : ∀ x ∈ l, x ∈ S) :
    l.length ≤ S.length := by
  induction l generalizing S with
  | nil => simp
  | cons a l ih =>
    rw [List.nodup_cons] at hd
    have ha : a ∈ S := hs a (by simp)
    have h1 := ih (S.erase a) hd.2 (by
      intro x hx
      have : x ≠ a := fun e => hd.1 (e ▸ hx)
      exact (List.mem_erase_of_ne this).mpr (hs x (by simp [hx])))
    rw [List.length_erase_of_mem ha] at h1
    have : 0 < S.length := List.length_pos_of_mem ha
    simp only [List.length_cons]
    omega

/-! ### the invariant as a proposition -/

def Inv (c : Cache) : Prop := (c.items.map Prod.fst).Nodup ∧ c.items.length ≤ c.cap

theorem inv_iff (c : Cache) : inv c = true ↔ Inv c := by
  simp only [inv, Inv, Bool.and_eq_true, beq_iff_eq, decide_eq_true_eq]
  rw [← List.length_map (f := Prod.fst) (as := c.items), eraseDups_length_eq_iff]

/-! ### `lookup`, `without`, `dropLast` -/

theorem lookup_nil (x : Nat) : lookup [] x = none := rfl

theorem lookup_cons (a b : Nat) (l : List (Nat × Nat)) (x : Nat) :
    lookup ((a, b) :: l) x = if a = x then some b else lookup l x := by
  simp only [lookup, List.find?_cons]
  by_cases h : a = x
  · simp [h]
  · have : (a == x) = false := by simpa using h
    simp [h, this]

theorem lookup_without (l : List (Nat × Nat)) (k x : Nat) :
    lookup (without l k) x = if x = k then none else lookup l x := by
  induction l with
  | nil => simp [without, lookup]
  | cons p l ih =>
    obtain ⟨a, b⟩ := p
    simp only [without] at ih ⊢
    by_cases hak : a = k
    · simp only [List.filter_cons, hak, beq_self_eq_true, Bool.not_true, Bool.false_eq_true,
        if_false, ih, lookup_cons]
      by_cases hx : x = k
      · simp [hx]
      · have : ¬ k = x := fun e => hx e.symm
        simp [hx, this]
    · have : (a == k) = false := by simpa using hak
      simp only [List.filter_cons, this, Bool.not_false, if_true, lookup_cons, ih]
      by_cases hx : x = k
      · simp [hx, hak]
      · simp [hx]

theorem lookup_append (l₁ l₂ : List (Nat × Nat)) (x : Nat) :
    lookup (l₁ ++ l₂) x = (lookup l₁ x).or (lookup l₂ x) := by
  simp only [lookup, List.find?_append]
  cases List.find? (fun p => p.1 == x) l₁ <;> simp

theorem lookup_dropLast (l : List (Nat × Nat)) (x v : Nat) (h : lookup l.dropLast x = some v) :
    lookup l x = some v := by
  by_cases hl : l = []
  · subst hl; simpa using h
  · rw [← List.dropLast_concat_getLast hl, lookup_append, h]; rfl

theorem lookup_some_mem (l : List (Nat × Nat)) (x v : Nat) (h : lookup l x = some v) : (x, v) ∈ l := by
  simp only [lookup, Option.map_eq_some_iff] at h
  obtain ⟨p, hp, rfl⟩ := h
  have h1 := List.mem_of_find?_eq_some hp
  have h2 := List.find?_some hp
  simp only [beq_iff_eq] at h2
  subst h2
  exact h1

theorem lookup_none_of_not_mem (l : List (Nat × Nat)) (x : Nat) (h : x ∉ l.map Prod.fst) :
    lookup l x = none := by
  cases hl : lookup l x with
  | none => rfl
  | some v => exact absurd (List.mem_map_of_mem (f := Prod.fst) (lookup_some_mem l x v hl)) h

theorem without_append (l₁ l₂ : List (Nat × Nat)) (k : Nat) :
    without (l₁ ++ l₂) k = without l₁ k ++ without l₂ k := by
  simp [without]

theorem without_cons_ne (a b : Nat) (l : List (Nat × Nat)) (k : Nat) (h : a ≠ k) :
    without ((a, b) :: l) k = (a, b) :: without l k := by
  have : (a == k) = false := by simpa using h
  simp [without, this]

theorem without_length_le (l : List (Nat × Nat)) (k : Nat) : (without l k).length ≤ l.length :=
  List.length_filter_le _ _

theorem without_length_lt (l : List (Nat × Nat)) (k v : Nat) (h : lookup l k = some v) :
    (without l k).length < l.length := by
  apply List.length_filter_lt_length_iff_exists.mpr
  exact ⟨(k, v), lookup_some_mem l k v h, by simp⟩

theorem without_keys_sublist (l : List (Nat × Nat)) (k : Nat) :
    ((without l k).map Prod.fst).Sublist (l.map Prod.fst) :=
  List.Sublist.map _ List.filter_sublist

theorem not_mem_without_keys (l : List (Nat × Nat)) (k : Nat) : k ∉ (without l k).map Prod.fst := by
  simp [without]

theorem mem_without (l : List (Nat × Nat)) (k : Nat) (p : Nat × Nat) (h : p ∈ without l k) : p ∈ l :=
  (List.mem_filter.mp h).1

/-! ### `run` -/

theorem run_nil (c : Cache) : run c [] = (c, []) := rfl

theorem run_nil_fst (c : Cache) : (run c []).1 = c := rfl

theorem run_cons_fst (c : Cache) (op : Op) (rest : List Op) :
    (run c (op :: rest)).1 = (run (step c op).1 rest).1 := rfl

theorem run_append_fst (c : Cache) (a b : List Op) :
    (run c (a ++ b)).1 = (run (run c a).1 b).1 := by
  induction a generalizing c with
  | nil => rfl
  | cons op a ih => simp only [List.cons_append, run_cons_fst, ih]

/-! ### the invariant is preserved -/

theorem empty_Inv (cap : Nat) : Inv (empty cap) := by simp [Inv, empty]

theorem cons_without_nodup (l : List (Nat × Nat)) (k v : Nat) (h : (l.map Prod.fst).Nodup) :
    (((k, v) :: without l k).map Prod.fst).Nodup := by
  rw [List.map_cons, List.nodup_cons]
  exact ⟨not_mem_without_keys l k, List.Nodup.sublist (without_keys_sublist l k) h⟩

theorem insert_Inv (c : Cache) (k v : Nat) (h : Inv c) : Inv (insert c k v).1 := by
  obtain ⟨hd, hl⟩ := h
  have h1 := cons_without_nodup c.items k v hd
  have h2 := without_length_le c.items k
  simp only [insert, Inv]
  split
  · refine ⟨List.Nodup.sublist (List.Sublist.map _ (List.dropLast_sublist _)) h1, ?_⟩
    simp only [List.length_dropLast, List.length_cons]
    omega
  · refine ⟨h1, ?_⟩
    simp only [List.length_cons] at *
    omega

theorem get_Inv (c : Cache) (k : Nat) (h : Inv c) : Inv (get c k).1 := by
  unfold get
  split
  · rename_i v hv
    refine ⟨cons_without_nodup c.items k v h.1, ?_⟩
    have := without_length_lt c.items k v hv
    have := h.2
    simp only [List.length_cons]
    omega
  · exact h

theorem remove_Inv (c : Cache) (k : Nat) (h : Inv c) : Inv (remove c k) :=
  ⟨List.Nodup.sublist (without_keys_sublist c.items k) h.1,
   Nat.le_trans (without_length_le c.items k) h.2⟩

theorem step_Inv (c : Cache) (op : Op) (h : Inv c) : Inv (step c op).1 := by
  cases op with
  | insert k v => exact insert_Inv c k v h
  | get k => exact get_Inv c k h
  | remove k => exact remove_Inv c k h

theorem run_Inv (c : Cache) (ops : List Op) (h : Inv c) : Inv (run c ops).1 := by
  induction ops generalizing c with
  | nil => exact h
  | cons op rest ih => rw [run_cons_fst]; exact ih _ (step_Inv c op h)

theorem step_cap (c : Cache) (op : Op) : (step c op).1.cap = c.cap := by
  cases op with
  | insert k v => rfl
  | get k => simp only [step, get]; split <;> rfl
  | remove k => rfl

theorem run_cap (c : Cache) (ops : List Op) : (run c ops).1.cap = c.cap := by
  induction ops generalizing c with
  | nil => rfl
  | cons op rest ih => rw [run_cons_fst, ih, step_cap]

/-! ### contents are a sub-map of the specification -/

/-- one step of the specification map -/
def specStep (m : Nat → Option Nat) (op : Op) : Nat → Option Nat :=
  match op with
  | .insert k v => fun x => if x == k then some v else m x
  | .get _ => m
  | .remove k => fun x => if x == k then none else m x

theorem specAfter_eq (ops : List Op) : specAfter ops = ops.foldl specStep (fun _ => none) := rfl

theorem specAfter_snoc (hist : List Op) (op : Op) :
    specAfter (hist ++ [op]) = specStep (specAfter hist) op := by
  simp only [specAfter_eq, List.foldl_append, List.foldl_cons, List.foldl_nil]

/-- every cached entry agrees with the map `m` -/
def Sub (c : Cache) (m : Nat → Option Nat) : Prop := ∀ x v, lookup c.items x = some v → m x = some v

theorem step_Sub (c : Cache) (m : Nat → Option Nat) (op : Op) (h : Sub c m) :
    Sub (step c op).1 (specStep m op) := by
  intro x w hx
  cases op with
  | insert k v =>
    simp only [step, insert] at hx
    have hx' : lookup ((k, v) :: without c.items k) x = some w := by
      split at hx
      · exact lookup_dropLast _ _ _ hx
      · exact hx
    rw [lookup_cons, lookup_without] at hx'
    simp only [specStep, beq_iff_eq]
    by_cases hxk : x = k
    · subst hxk; simpa using hx'
    · have : ¬ k = x := fun e => hxk e.symm
      simp only [this, hxk, if_false] at hx' ⊢
      exact h x w hx'
  | get k =>
    simp only [step, get] at hx
    simp only [specStep]
    split at hx
    · rename_i v hv
      simp only at hx
      rw [lookup_cons, lookup_without] at hx
      by_cases hxk : x = k
      · subst hxk; simp only [if_true] at hx; rw [← hx]; exact h _ _ hv
      · have : ¬ k = x := fun e => hxk e.symm
        simp only [this, hxk, if_false] at hx
        exact h x w hx
    · exact h x w hx
  | remove k =>
    simp only [step, remove, lookup_without] at hx
    simp only [specStep, beq_iff_eq]
    by_cases hxk : x = k
    · simp [hxk] at hx
    · simp only [hxk, if_false] at hx ⊢
      exact h x w hx

theorem run_Sub (c : Cache) (m : Nat → Option Nat) (ops : List Op) (h : Sub c m) :
    Sub (run c ops).1 (ops.foldl specStep m) := by
  induction ops generalizing c m with
  | nil => exact h
  | cons op rest ih => rw [run_cons_fst, List.foldl_cons]; exact ih _ _ (step_Sub c m op h)

theorem empty_Sub (cap : Nat) : Sub (empty cap) (fun _ => none) := by
  intro x v h; simp [empty, lookup] at h

/-! ### what `insert` and `get` hand back -/

theorem insert_snd (c : Cache) (k v : Nat) : (insert c k v).2 = lookup (insert c k v).1.items k := rfl

theorem get_snd (c : Cache) (k : Nat) : (get c k).2 = lookup c.items k := by
  unfold get
  split
  · rename_i v hv; simp [hv]
  · rename_i hv; simp [hv]

/-- with room for at least one entry the inserted entry is at the front afterwards -/
theorem insert_front (c : Cache) (k v : Nat) (hc : 1 ≤ c.cap) :
    ∃ post, (insert c k v).1.items = (k, v) :: post := by
  simp only [insert]
  split
  · rename_i hlt
    have : without c.items k ≠ [] := by
      intro e; rw [e] at hlt; simp at hlt; omega
    exact ⟨_, List.dropLast_cons_of_ne_nil this⟩
  · exact ⟨_, rfl⟩

/-! ### a recently used key stays -/

/-- the key an operation moves to the front -/
def touch : Op → Option Nat
  | .insert k _ => some k
  | .get k => some k
  | .remove _ => none

/-- `(k, v)` is cached and every entry in front of it has its key in `S` -/
def Keep (k v : Nat) (S : List Nat) (c : Cache) : Prop :=
  ∃ pre post, c.items = pre ++ (k, v) :: post ∧ ∀ p ∈ pre, p.1 ∈ S

/-- the operation neither removes nor re-inserts `k` and touches only `k` or keys of `S` -/
def Harmless (k : Nat) (S : List Nat) (op : Op) : Prop :=
  op ≠ .remove k ∧ (∀ v', op ≠ .insert k v') ∧ ∀ k', touch op = some k' → k' = k ∨ k' ∈ S

theorem keys_pre_nodup (pre post : List (Nat × Nat)) (k v : Nat)
    (h : ((pre ++ (k, v) :: post).map Prod.fst).Nodup) :
    (pre.map Prod.fst).Nodup ∧ k ∉ pre.map Prod.fst := by
  rw [List.map_append, List.nodup_append] at h
  refine ⟨h.1, fun hk => ?_⟩
  exact h.2.2 k hk k (by simp) rfl

theorem lookup_of_split (pre post : List (Nat × Nat)) (k v : Nat)
    (h : ((pre ++ (k, v) :: post).map Prod.fst).Nodup) :
    lookup (pre ++ (k, v) :: post) k = some v := by
  rw [lookup_append, lookup_none_of_not_mem _ _ (keys_pre_nodup pre post k v h).2, lookup_cons]
  simp

theorem Keep_lookup (k v : Nat) (S : List Nat) (c : Cache) (hi : Inv c) (h : Keep k v S c) :
    lookup c.items k = some v := by
  obtain ⟨pre, post, he, _⟩ := h
  have := hi.1
  rw [he] at this ⊢
  exact lookup_of_split pre post k v this

theorem front_split (pre post : List (Nat × Nat)) (k v k' v' : Nat) (hne : k' ≠ k) :
    (k', v') :: without (pre ++ (k, v) :: post) k' =
      ((k', v') :: without pre k') ++ (k, v) :: without post k' := by
  rw [without_append, without_cons_ne k v post k' (fun e => hne e.symm)]
  rfl

theorem dropLast_split (pre post : List (Nat × Nat)) (k v : Nat) (S : List Nat) (cap : Nat)
    (hd : ((pre ++ (k, v) :: post).map Prod.fst).Nodup) (hS : ∀ p ∈ pre, p.1 ∈ S)
    (hcap : S.length + 2 ≤ cap) (hlt : cap < (pre ++ (k, v) :: post).length) :
    (pre ++ (k, v) :: post).dropLast = pre ++ (k, v) :: post.dropLast := by
  have h1 := nodup_subset_length (pre.map Prod.fst) S (keys_pre_nodup pre post k v hd).1 (by
    intro x hx
    obtain ⟨p, hp, rfl⟩ := List.mem_map.mp hx
    exact hS p hp)
  simp only [List.length_map] at h1
  simp only [List.length_append, List.length_cons] at hlt
  have hpost : post ≠ [] := by
    intro e; rw [e] at hlt; simp at hlt; omega
  rw [List.dropLast_append_of_ne_nil (List.cons_ne_nil _ _), List.dropLast_cons_of_ne_nil hpost]

theorem step_Keep (k v : Nat) (S : List Nat) (c : Cache) (op : Op) (hi : Inv c)
    (hcap : S.length + 2 ≤ c.cap) (hk : Keep k v S c) (hop : Harmless k S op) :
    Keep k v S (step c op).1 := by
  have hi' := step_Inv c op hi
  obtain ⟨pre, post, he, hS⟩ := hk
  obtain ⟨hnr, hni, hto⟩ := hop
  cases op with
  | insert k' v' =>
    have hne : k' ≠ k := fun e => hni v' (by rw [e])
    have hk'S : k' ∈ S := by
      rcases hto k' rfl with h | h
      · exact absurd h hne
      · exact h
    have hS' : ∀ p ∈ (k', v') :: without pre k', p.1 ∈ S := by
      intro p hp
      rcases List.mem_cons.mp hp with rfl | hp
      · exact hk'S
      · exact hS p (mem_without pre k' p hp)
    simp only [step, insert, he, front_split pre post k v k' v' hne] at hi' ⊢
    split
    · rename_i hlt
      rw [if_pos hlt] at hi'
      have hd : (((k', v') :: without pre k' ++ (k, v) :: without post k').map Prod.fst).Nodup := by
        have := cons_without_nodup c.items k' v' hi.1
        rwa [he, front_split pre post k v k' v' hne] at this
      exact ⟨_, _, dropLast_split _ _ k v S c.cap hd hS' hcap hlt, hS'⟩
    · exact ⟨_, _, rfl, hS'⟩
  | get k' =>
    by_cases hkk : k' = k
    · subst hkk
      have hl : lookup c.items k' = some v := Keep_lookup k' v S c hi ⟨pre, post, he, hS⟩
      simp only [step, get, hl]
      exact ⟨[], _, rfl, by simp⟩
    · simp only [step, get]
      split
      · rename_i w hw
        have hk'S : k' ∈ S := by
          rcases hto k' rfl with h | h
          · exact absurd h hkk
          · exact h
        refine ⟨(k', w) :: without pre k', without post k', ?_, ?_⟩
        · simp only [he]; exact front_split pre post k v k' w hkk
        · intro p hp
          rcases List.mem_cons.mp hp with rfl | hp
          · exact hk'S
          · exact hS p (mem_without pre k' p hp)
      · exact ⟨pre, post, he, hS⟩
  | remove k' =>
    have hne : k' ≠ k := fun e => hnr (by rw [e])
    refine ⟨without pre k', without post k', ?_, fun p hp => hS p (mem_without pre k' p hp)⟩
    simp only [step, remove, he]
    rw [without_append, without_cons_ne k v post k' (fun e => hne e.symm)]

theorem run_Keep (k v : Nat) (S : List Nat) (c : Cache) (ops : List Op) (hi : Inv c)
    (hcap : S.length + 2 ≤ c.cap) (hk : Keep k v S c) (hop : ∀ op ∈ ops, Harmless k S op) :
    Keep k v S (run c ops).1 := by
  induction ops generalizing c with
  | nil => exact hk
  | cons op rest ih =>
    rw [run_cons_fst]
    refine ih _ (step_Inv c op hi) (by rw [step_cap]; exact hcap) ?_ (fun o ho => hop o (by simp [ho]))
    exact step_Keep k v S c op hi hcap hk (hop op (by simp))

theorem fold_some_was_inserted (ops : List Op) (m0 : Nat → Option Nat) (k v : Nat)
    (h : (ops.foldl specStep m0) k = some v) : Op.insert k v ∈ ops ∨ m0 k = some v := by
  induction ops generalizing m0 with
  | nil => exact Or.inr h
  | cons op rest ih =>
    simp only [List.foldl_cons] at h
    rcases ih _ h with h' | h'
    · exact Or.inl (List.mem_cons_of_mem _ h')
    · cases op with
      | insert k' v' =>
        simp only [specStep] at h'
        by_cases hk : (k == k') = true
        · simp only [hk, if_true, Option.some.injEq] at h'
          have : k = k' := by simpa using hk
          subst this; subst h'
          exact Or.inl (by simp)
        · simp only [hk, if_false, Bool.false_eq_true] at h'
          exact Or.inr h'
      | get k' =>
        simp only [specStep] at h'
        exact Or.inr h'
      | remove k' =>
        simp only [specStep] at h'
        by_cases hk : (k == k') = true
        · simp [hk] at h'
        · simp only [hk, if_false, Bool.false_eq_true] at h'
          exact Or.inr h'

end Rain.Lru
