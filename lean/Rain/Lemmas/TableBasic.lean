import Rain.Table
import Rain.Lemmas.Order
import Rain.Lemmas.Sep
/-
Sorted lists, `lowerBound`, block offsets in the flattened table, and the bounds that the index
keys satisfy.
-/
namespace Rain.Table.Lemmas
open Rain Rain.Lsm Rain.Block Rain.Table Rain.Order Rain.Block.Lemmas

/-- the internal-key order on entries, as a `Prop` -/
abbrev ELt (a b : Entry) : Prop := kLt a.key b.key = true

theorem sorted_pairwise (es : List Entry) (h : sortedE es = true) : es.Pairwise ELt := by
  induction es with
  | nil => exact List.Pairwise.nil
  | cons a rest ih =>
    cases rest with
    | nil => simp
    | cons b rest =>
      simp only [sortedE, Bool.and_eq_true] at h
      have hp := ih h.2
      refine List.Pairwise.cons ?_ hp
      intro x hx
      rcases List.mem_cons.mp hx with rfl | hx
      · exact h.1
      · exact kLt_trans h.1 ((List.pairwise_cons.mp hp).1 x hx)

/-! ### lowerBound -/

theorem lb_le (keys : List (Bytes × Nat)) (t : Bytes × Nat) : lowerBound keys t ≤ keys.length := by
  induction keys with
  | nil => simp [lowerBound]
  | cons k rest ih => simp only [lowerBound]; split <;> simp; omega

theorem lb_all {keys : List (Bytes × Nat)} {t : Bytes × Nat} (h : ∀ k ∈ keys, kLt k t = true) :
    lowerBound keys t = keys.length := by
  induction keys with
  | nil => simp [lowerBound]
  | cons k rest ih =>
    simp only [lowerBound, h k List.mem_cons_self, if_true, List.length_cons]
    rw [ih (fun x hx => h x (List.mem_cons_of_mem _ hx))]

theorem lb_all_of_eq {keys : List (Bytes × Nat)} {t : Bytes × Nat}
    (h : lowerBound keys t = keys.length) : ∀ k ∈ keys, kLt k t = true := by
  induction keys with
  | nil => simp
  | cons k rest ih =>
    simp only [lowerBound, List.length_cons] at h
    split at h
    · next hk =>
      intro x hx
      rcases List.mem_cons.mp hx with rfl | hx
      · exact hk
      · exact ih (by omega) x hx
    · omega

theorem lb_getElem {keys : List (Bytes × Nat)} {t : Bytes × Nat}
    (h : lowerBound keys t < keys.length) : kLt (keys[lowerBound keys t]) t = false := by
  induction keys with
  | nil => simp at h
  | cons k rest ih =>
    by_cases hk : kLt k t = true
    · have e : lowerBound (k :: rest) t = lowerBound rest t + 1 := by simp [lowerBound, hk]
      have h' : lowerBound rest t < rest.length := by
        rw [e] at h; simpa using h
      have := ih h'
      simp only [e, List.getElem_cons_succ]
      exact this
    · have e : lowerBound (k :: rest) t = 0 := by simp [lowerBound, hk]
      simp only [e, List.getElem_cons_zero]
      simpa using hk

theorem lb_append_all {l1 : List (Bytes × Nat)} (l2 : List (Bytes × Nat)) {t : Bytes × Nat}
    (h : ∀ k ∈ l1, kLt k t = true) :
    lowerBound (l1 ++ l2) t = l1.length + lowerBound l2 t := by
  induction l1 with
  | nil => simp
  | cons k rest ih =>
    simp only [List.cons_append, lowerBound, h k List.mem_cons_self, if_true, List.length_cons]
    rw [ih (fun x hx => h x (List.mem_cons_of_mem _ hx))]
    omega

theorem lb_append_lt {l1 : List (Bytes × Nat)} (l2 : List (Bytes × Nat)) {t : Bytes × Nat}
    (h : lowerBound l1 t < l1.length) : lowerBound (l1 ++ l2) t = lowerBound l1 t := by
  induction l1 with
  | nil => simp at h
  | cons k rest ih =>
    simp only [List.cons_append, lowerBound] at h ⊢
    split
    · next hk =>
      simp only [hk, if_true, List.length_cons] at h
      rw [ih (by omega)]
    · rfl

theorem lb_cons_zero {k : Bytes × Nat} (rest : List (Bytes × Nat)) {t : Bytes × Nat}
    (h : kLt k t = false) : lowerBound (k :: rest) t = 0 := by
  simp [lowerBound, h]

theorem find_eq_lb (es : List Entry) (t : Bytes × Nat) :
    es.find? (fun e => !kLt e.key t) = es[lowerBound (es.map Entry.key) t]? := by
  induction es with
  | nil => simp [lowerBound]
  | cons e rest ih =>
    by_cases hk : kLt e.key t = true
    · simp [lowerBound, hk, ih]
    · simp [lowerBound, hk]

/-! ### offsets of blocks in the flattened list -/

/-- number of entries before block `i` -/
def offs : List (List Entry) → Nat → Nat
  | [], _ => 0
  | _ :: _, 0 => 0
  | b :: rest, i + 1 => b.length + offs rest i

theorem offs_zero (bl : List (List Entry)) : offs bl 0 = 0 := by
  cases bl <;> rfl

theorem offs_length (bl : List (List Entry)) : offs bl bl.length = bl.flatten.length := by
  induction bl with
  | nil => rfl
  | cons b rest ih => simp [offs, ih]

theorem offs_succ (bl : List (List Entry)) (i : Nat) (h : i < bl.length) :
    offs bl (i + 1) = offs bl i + (bl.getD i []).length := by
  induction bl generalizing i with
  | nil => simp at h
  | cons b rest ih =>
    cases i with
    | zero => cases rest <;> simp [offs]
    | succ i =>
      have := ih i (by simpa using h)
      simp only [offs, List.getD_cons_succ] at this ⊢
      rw [this]; omega

theorem offs_add_le (bl : List (List Entry)) (i : Nat) (h : i < bl.length) :
    offs bl i + (bl.getD i []).length ≤ bl.flatten.length := by
  induction bl generalizing i with
  | nil => simp at h
  | cons b rest ih =>
    cases i with
    | zero => simp [offs]
    | succ i =>
      have := ih i (by simpa using h)
      simp only [offs, List.getD_cons_succ, List.flatten_cons, List.length_append] at this ⊢
      omega

theorem flatten_get (bl : List (List Entry)) (i p : Nat) (h : i < bl.length)
    (hp : p < (bl.getD i []).length) :
    bl.flatten[offs bl i + p]? = (bl.getD i [])[p]? := by
  induction bl generalizing i with
  | nil => simp at h
  | cons b rest ih =>
    cases i with
    | zero =>
      simp only [offs, List.getD_cons_zero, Nat.zero_add, List.flatten_cons] at hp ⊢
      rw [List.getElem?_append_left hp]
    | succ i =>
      have := ih i (by simpa using h) (by simpa using hp)
      simp only [offs, List.getD_cons_succ, List.flatten_cons]
      rw [List.getElem?_append_right (by omega)]
      rw [← this]
      congr 1
      omega

/-! ### index keys -/

theorem indexKeys_length (bl : List (List Entry)) : (indexKeys bl).length = bl.length := by
  induction bl with
  | nil => rfl
  | cons b rest ih =>
    cases rest with
    | nil => rfl
    | cons c rest => simp only [indexKeys, List.length_cons] at ih ⊢; rw [ih]

theorem lastKey_spec (b : List Entry) (hne : b ≠ []) (hp : b.Pairwise ELt) :
    ∃ e ∈ b, lastKey b = some e.key ∧ ∀ x ∈ b, x = e ∨ kLt x.key e.key = true := by
  induction b with
  | nil => exact absurd rfl hne
  | cons a rest ih =>
    cases rest with
    | nil => exact ⟨a, List.mem_cons_self, rfl, by simp⟩
    | cons c rest =>
      obtain ⟨e, he, hl, hall⟩ := ih (by simp) (List.pairwise_cons.mp hp).2
      refine ⟨e, List.mem_cons_of_mem _ he, by simpa [lastKey] using hl, ?_⟩
      intro x hx
      rcases List.mem_cons.mp hx with rfl | hx
      · right; exact (List.pairwise_cons.mp hp).1 e he
      · exact hall x hx

/-- The index key of the first block: at least every key of the block, strictly below every later
key, and — this is what makes `Table::get` right when it stops at the end of a block — no later
entry has the user key of a target that falls between the block's last key and the index key. -/
theorem index_head (b : List Entry) (rest : List (List Entry)) (hb : b ≠ [])
    (hrest : ∀ c ∈ rest, c ≠ []) (hp : (b ++ rest.flatten).Pairwise ELt) :
    ∃ ik, indexKeys (b :: rest) = ik :: indexKeys rest ∧
      (∀ e ∈ b, kLt ik e.key = false) ∧
      (∀ e ∈ rest.flatten, kLt ik e.key = true) ∧
      (∀ t : Bytes × Nat, (∀ e ∈ b, kLt e.key t = true) → kLt ik t = false →
        ∀ e ∈ rest.flatten, e.ukey ≠ t.1) := by
  obtain ⟨hpb, hpr, hcross⟩ := List.pairwise_append.mp hp
  obtain ⟨l, hl, hlk, hlall⟩ := lastKey_spec b hb hpb
  have ha : ∀ ik, kLt ik l.key = false → ∀ e ∈ b, kLt ik e.key = false := by
    intro ik h e he
    rcases hlall e he with rfl | hlt
    · exact h
    · cases h2 : kLt ik e.key with
      | false => rfl
      | true => rw [kLt_trans h2 hlt] at h; exact h
  cases rest with
  | nil =>
    refine ⟨keySucc l.key, by simp [indexKeys, hlk], ha _ (keySucc_spec _), by simp, by simp⟩
  | cons c rest =>
    have hc : c ≠ [] := hrest c List.mem_cons_self
    cases c with
    | nil => exact absurd rfl hc
    | cons h c =>
      have hlh : kLt l.key h.key = true := hcross l hl h (by simp)
      have hsp := keySep_spec' l.key h.key hlh
      have hhall : ∀ e ∈ ((h :: c) :: rest).flatten, e = h ∨ kLt h.key e.key = true := by
        intro e he
        simp only [List.flatten_cons, List.cons_append] at he hpr
        rcases List.mem_cons.mp he with rfl | he
        · left; rfl
        · right; exact (List.pairwise_cons.mp hpr).1 e he
      refine ⟨keySep l.key h.key, by simp [indexKeys, hlk], ha _ hsp.1, ?_, ?_⟩
      · intro e he
        rcases hhall e he with rfl | hlt
        · exact hsp.2
        · exact kLt_trans hsp.2 hlt
      · intro t hall hik e he
        rcases keySep_cases l.key h.key hlh with heq | ⟨s, heq, _, hs2⟩
        · rw [heq, hall l hl] at hik; cases hik
        · rw [heq] at hik
          -- t.1 ≤ s < h.ukey ≤ e.ukey
          have h1 : bytesLt s t.1 = false := by
            cases hh : bytesLt s t.1 with
            | false => rfl
            | true =>
              have : kLt (s, MAXSEQ) t = true := by rw [kLt_iff]; left; exact hh
              rw [this] at hik; cases hik
          have h2 : bytesLt t.1 h.ukey = true := bytes_le_lt h1 hs2
          have h3 : bytesLt t.1 e.ukey = true := by
            rcases hhall e he with rfl | hlt
            · exact h2
            · rw [kLt_iff] at hlt
              rcases hlt with hlt | ⟨heq2, _⟩
              · exact bytesLt_trans h2 hlt
              · have : e.ukey = h.ukey := heq2.symm
                rw [this]; exact h2
          exact fun hh => bytesLt_ne h3 hh.symm

end Rain.Table.Lemmas
