import Rain.DurableSpec
/-
`newest` / `latest` / `sameContents` / `maxSeq`, and: appending a batch whose sequence numbers
are above everything present acts on `latest` exactly like `specApply`.
-/
namespace Rain.Durable.Lemmas
open Rain Rain.Lsm Rain.Durable

theorem newest_snoc (fs : List Entry) (e : Entry) (h : ∀ x ∈ fs, x.seq < e.seq) :
    newest (fs ++ [e]) = some e := by
  induction fs with
  | nil => rfl
  | cons f fs ih =>
    have h1 := ih (fun x hx => h x (List.mem_cons_of_mem _ hx))
    have h2 : ¬ e.seq < f.seq := by have := h f List.mem_cons_self; omega
    simp only [List.cons_append, newest, h1, h2, if_false]

def valOf (e : Entry) : Option Bytes := if e.put then some e.val else none

theorem latest_snoc (es : List Entry) (e : Entry) (k : Bytes) (h : ∀ x ∈ es, x.seq < e.seq) :
    latest (es ++ [e]) k = if e.ukey == k then valOf e else latest es k := by
  unfold latest
  rw [List.filter_append]
  by_cases hk : (e.ukey == k) = true
  · have : List.filter (fun e => e.ukey == k) [e] = [e] := by simp [hk]
    rw [this, newest_snoc _ _ (fun x hx => h x (List.mem_filter.1 hx).1), if_pos hk]
    rfl
  · have : List.filter (fun e => e.ukey == k) [e] = [] := by simp [hk]
    rw [this, List.append_nil, if_neg hk]

/-- the entries of a batch, recursively -/
def bEntries (start : Nat) : List (Bytes × Option Bytes) → List Entry
  | [] => []
  | op :: ops => { ukey := op.1, seq := start, put := op.2.isSome, val := op.2.getD [] } :: bEntries (start + 1) ops

theorem batchEntries_aux (ops : List (Bytes × Option Bytes)) : ∀ (start : Nat),
    List.zipWith (fun i (op : Bytes × Option Bytes) =>
      ({ ukey := op.1, seq := start + i, put := op.2.isSome, val := op.2.getD [] } : Entry))
      (List.range ops.length) ops = bEntries start ops := by
  induction ops with
  | nil => intro start; rfl
  | cons op ops ih =>
    intro start
    rw [List.length_cons, List.range_succ_eq_map, List.zipWith_cons_cons, List.zipWith_map_left, bEntries,
      ← ih (start + 1)]
    simp only [Nat.add_zero]
    congr 2
    funext i op
    simp [Nat.add_assoc, Nat.add_comm 1 i]

theorem batchEntries_eq (b : WBatch) : batchEntries b = bEntries b.start b.ops := by
  unfold batchEntries; exact batchEntries_aux b.ops b.start

theorem specApply_cons (m : Bytes → Option Bytes) (kv : Bytes × Option Bytes) (ops : List (Bytes × Option Bytes)) :
    specApply m (kv :: ops) = specApply (fun k => if k == kv.1 then kv.2 else m k) ops := rfl

theorem latest_bEntries (ops : List (Bytes × Option Bytes)) :
    ∀ (es : List Entry) (start : Nat) (m : Bytes → Option Bytes),
      (∀ x ∈ es, x.seq < start) → (∀ k, latest es k = m k) →
      ∀ k, latest (es ++ bEntries start ops) k = specApply m ops k := by
  induction ops with
  | nil => intro es start m _ hm k; simpa [bEntries, specApply] using hm k
  | cons kv ops ih =>
    intro es start m hlt hm k
    rw [bEntries, specApply_cons, List.append_cons]
    apply ih
    · intro x hx
      rcases List.mem_append.1 hx with hx | hx
      · have := hlt x hx; omega
      · simp at hx; subst hx; simp
    · intro k'
      rw [latest_snoc _ _ _ (by simpa using hlt)]
      simp only [valOf, hm k']
      by_cases hk : k' = kv.1
      · subst hk; cases kv.2 <;> simp
      · have : ¬ kv.1 = k' := fun h => hk h.symm
        simp [hk, this]

/-! ### `maxSeq` -/

theorem foldl_max_ge (es : List Entry) : ∀ (m : Nat),
    m ≤ es.foldl (fun m e => if m < e.seq then e.seq else m) m ∧
    ∀ x ∈ es, x.seq ≤ es.foldl (fun m e => if m < e.seq then e.seq else m) m := by
  induction es with
  | nil => intro m; simp
  | cons e es ih =>
    intro m
    simp only [List.foldl_cons]
    by_cases hlt : m < e.seq
    · rw [if_pos hlt]
      have := ih e.seq
      refine ⟨by omega, ?_⟩
      intro x hx
      rcases List.mem_cons.1 hx with hx | hx
      · subst hx; exact this.1
      · exact this.2 x hx
    · rw [if_neg hlt]
      have := ih m
      refine ⟨this.1, ?_⟩
      intro x hx
      rcases List.mem_cons.1 hx with hx | hx
      · subst hx; omega
      · exact this.2 x hx

theorem le_maxSeq (es : List Entry) (x : Entry) (hx : x ∈ es) : x.seq ≤ maxSeq es :=
  (foldl_max_ge es 0).2 x hx

/-- **a WAL append acts on the recovered contents like `specApply`** -/
theorem latest_append_batch (es : List Entry) (b : WBatch) (h : maxSeq es < b.start) (k : Bytes) :
    latest (es ++ batchEntries b) k = specApply (latest es) b.ops k := by
  rw [batchEntries_eq]
  exact latest_bEntries b.ops es b.start (latest es)
    (fun x hx => by have := le_maxSeq es x hx; omega) (fun _ => rfl) k

/-! ### `sameContents` -/

theorem latest_of_not_key (es : List Entry) (k : Bytes) (h : k ∉ keysOf es) : latest es k = none := by
  have : es.filter (fun e => e.ukey == k) = [] := by
    apply List.filter_eq_nil_iff.2
    intro e he hk
    apply h
    simp only [beq_iff_eq] at hk
    exact List.mem_map.2 ⟨e, he, hk⟩
  simp [latest, this, newest]

theorem sameContents_latest (a b : List Entry) (h : sameContents a b = true) (k : Bytes) :
    latest a k = latest b k := by
  unfold sameContents at h
  rw [List.all_eq_true] at h
  by_cases hk : k ∈ keysOf a ++ keysOf b
  · simpa using h k hk
  · rw [List.mem_append, not_or] at hk
    rw [latest_of_not_key a k hk.1, latest_of_not_key b k hk.2]

/-! ### the abstract map -/

theorem specOfBatches_snoc (bs : List WBatch) (b : WBatch) :
    specOfBatches (bs ++ [b]) = specApply (specOfBatches bs) b.ops := by
  simp [specOfBatches, List.foldl_append]

end Rain.Durable.Lemmas
