import Rain.Merge
import Rain.Lemmas.Cut
/-
`findSmallest` / `findLargest` pick a child holding the minimal / maximal current key.
-/
namespace Rain.MergeFind
open Rain Rain.Lsm Rain.Table Rain.Merge Rain.OrderIter Rain.Cut

/-- the common fold step: `lt k kb` = "`k` beats the best so far" -/
def pickStep (lt : Bytes × Nat → Bytes × Nat → Bool) (ck : Nat → Option (Bytes × Nat))
    (best : Option Nat) (i : Nat) : Option Nat :=
  match ck i with
  | none => best
  | some k =>
    match best with
    | none => some i
    | some b => match ck b with
      | some kb => if lt k kb then some i else best
      | none => some i

def PickInv (lt : Bytes × Nat → Bytes × Nat → Bool) (ck : Nat → Option (Bytes × Nat))
    (best : Option Nat) (seen : List Nat) : Prop :=
  match best with
  | none => ∀ i ∈ seen, ck i = none
  | some b => b ∈ seen ∧ ∃ k, ck b = some k ∧ ∀ i ∈ seen, ∀ k', ck i = some k' → lt k' k = false

theorem pickStep_inv {lt ck} (hirr : ∀ a, lt a a = false)
    (htr : ∀ a b c, lt a b = true → lt b c = true → lt a c = true)
    {best seen} (i : Nat) (h : PickInv lt ck best seen) :
    PickInv lt ck (pickStep lt ck best i) (seen ++ [i]) := by
  unfold pickStep
  cases hi : ck i with
  | none =>
    cases best with
    | none =>
      simp only [PickInv] at *
      intro j hj
      rcases List.mem_append.mp hj with hj | hj
      · exact h j hj
      · simp at hj; subst hj; exact hi
    | some b =>
      simp only [PickInv] at *
      obtain ⟨h1, k, h2, h3⟩ := h
      refine ⟨by simp [h1], k, h2, ?_⟩
      intro j hj k' hk'
      rcases List.mem_append.mp hj with hj | hj
      · exact h3 j hj k' hk'
      · simp at hj; subst hj; rw [hi] at hk'; simp at hk'
  | some k =>
    cases best with
    | none =>
      simp only [PickInv] at *
      refine ⟨by simp, k, hi, ?_⟩
      intro j hj k' hk'
      rcases List.mem_append.mp hj with hj | hj
      · rw [h j hj] at hk'; simp at hk'
      · simp at hj; subst hj; rw [hi] at hk'; simp at hk'; subst hk'; exact hirr _
    | some b =>
      simp only [PickInv] at h
      obtain ⟨h1, kb, h2, h3⟩ := h
      simp only [h2]
      by_cases hlt : lt k kb = true
      · simp only [hlt, if_true, PickInv]
        refine ⟨by simp, k, hi, ?_⟩
        intro j hj k' hk'
        rcases List.mem_append.mp hj with hj | hj
        · cases h4 : lt k' k
          · rfl
          · have := htr _ _ _ h4 hlt
            rw [h3 j hj k' hk'] at this; simp at this
        · simp at hj; subst hj; rw [hi] at hk'; simp at hk'; subst hk'; exact hirr _
      · simp only [hlt, PickInv]
        refine ⟨by simp [h1], kb, h2, ?_⟩
        intro j hj k' hk'
        rcases List.mem_append.mp hj with hj | hj
        · exact h3 j hj k' hk'
        · simp at hj; subst hj; rw [hi] at hk'; simp at hk'; subst hk'; simpa using hlt

theorem pick_foldl {lt ck} (hirr : ∀ a, lt a a = false)
    (htr : ∀ a b c, lt a b = true → lt b c = true → lt a c = true)
    (l : List Nat) {best seen} (h : PickInv lt ck best seen) :
    PickInv lt ck (l.foldl (pickStep lt ck) best) (seen ++ l) := by
  induction l generalizing best seen with
  | nil => simpa using h
  | cons i l ih =>
    have := ih (pickStep_inv hirr htr i h)
    simpa using this

theorem findSmallest_eq (children : List (List Entry)) (pos : List Nat) :
    findSmallest children pos =
      (List.range children.length).foldl (pickStep (fun a b => kLt a b) (childKey children pos)) none := rfl

theorem findLargest_eq (children : List (List Entry)) (pos : List Nat) :
    findLargest children pos =
      (List.range children.length).reverse.foldl (pickStep (fun a b => kLt b a) (childKey children pos)) none := rfl

theorem findSmallest_spec (children : List (List Entry)) (pos : List Nat) :
    match findSmallest children pos with
    | none => ∀ i < children.length, childKey children pos i = none
    | some c => c < children.length ∧ ∃ k, childKey children pos c = some k ∧
        ∀ i < children.length, ∀ k', childKey children pos i = some k' → kLt k' k = false := by
  rw [findSmallest_eq]
  have := pick_foldl (lt := fun a b => kLt a b) (ck := childKey children pos) kLt_irrefl
    (fun a b c => kLt_trans) (List.range children.length) (best := none) (seen := []) (by simp [PickInv])
  revert this
  generalize (List.range children.length).foldl _ none = r
  cases r <;> simp [PickInv]

theorem findLargest_spec (children : List (List Entry)) (pos : List Nat) :
    match findLargest children pos with
    | none => ∀ i < children.length, childKey children pos i = none
    | some c => c < children.length ∧ ∃ k, childKey children pos c = some k ∧
        ∀ i < children.length, ∀ k', childKey children pos i = some k' → kLt k k' = false := by
  rw [findLargest_eq]
  have := pick_foldl (lt := fun a b => kLt b a) (ck := childKey children pos) kLt_irrefl
    (fun a b c h1 h2 => kLt_trans h2 h1) (List.range children.length).reverse (best := none) (seen := [])
    (by simp [PickInv])
  revert this
  generalize (List.range children.length).reverse.foldl _ none = r
  cases r <;> simp [PickInv]

end Rain.MergeFind
