import Rain.Lemmas.DbFlatInv
/-
Every user operation of the database iterator over a flat sorted list preserves the invariant.
-/
namespace Rain.DbFlat
open Rain Rain.Lsm Rain.Table Rain.Merge Rain.DbIter Rain.OrderIter Rain.Visible Rain.Cut Rain.DbEqns

theorem fwd_beq_bwd : (Dir.fwd == Dir.bwd) = false := rfl
theorem bwd_beq_bwd : (Dir.bwd == Dir.bwd) = true := rfl
theorem fwd_beq_fwd : (Dir.fwd == Dir.fwd) = true := rfl
theorem bwd_beq_fwd : (Dir.bwd == Dir.fwd) = false := rfl

section
variable {es : List Entry} (hs : Sorted es) {snap : Nat}
include hs

theorem same_group_seqgt {p i : Nat} {e y : Entry} (he : es[p]? = some e) (hv : visB es snap e = true)
    (hi : i < p) (hy : es[i]? = some y) (hnlt : bytesLt y.ukey e.ukey = false) : snap < y.seq := by
  have h1 := ukey_le_idx hs (Nat.le_of_lt hi) hy he
  have heq : y.ukey = e.ukey := bLt_total hnlt h1
  have hlt := seq_lt_idx hs hi hy he heq
  exact vis_before hv hy heq hlt

theorem step_seek (st : DState Nat) (v : Nat) (k : Bytes) (fuel : Nat) (hf : es.length + 1 ≤ fuel) :
    Inv es snap (dbStep (flatInner es) snap fuel st (.seek k))
      (specStep (visible snap es none) v (.seek k)) := by
  obtain ⟨p, d, vl, ck, cv⟩ := st
  simp only [dbStep, specStep, flat_seek, flat_cur]
  rw [seek_vpos hs]
  generalize hlb : cnt (fun x => kLt x.key (k, snap)) es = lb
  cases he : es[lb]? with
  | none =>
    simp only
    left
    refine ⟨rfl, ?_⟩
    rw [vpos_ge (by simpa using he)]; exact Nat.le_refl _
  | some e =>
    simp only
    have hj := lt_of_get he
    have hg : GN es snap lb (thrOf false (some k)) := by
      constructor
      · intro i y hi hy hyq _ i' x hi' hx hu
        have hxP : kLt x.key (k, snap) = true := by
          apply (cnt_idx hs (lowerSet_lt (k, snap)) hx).mp
          rw [hlb]; exact hi'
        have hyP : kLt y.key (k, snap) = false := by
          cases h : kLt y.key (k, snap)
          · rfl
          · have := (cnt_idx hs (lowerSet_lt (k, snap)) hy).mpr h
            rw [hlb] at this; omega
        rcases (kLt_iff _ _).mp hxP with h | ⟨_, h2⟩
        · have : kLt y.key (k, snap) = true := by
            apply (kLt_iff _ _).mpr; left
            show bytesLt y.ukey k = true
            rw [← hu]; exact h
          rw [this] at hyP; simp at hyP
        · exact h2
      · intro c hc; simp [thrOf] at hc
    have hres := findNext_flat hs fuel lb false .fwd vl (some k) none hj (by omega) hg
    have hdc := findNext_dir_cval (flatInner es) snap fuel ⟨lb, .fwd, vl, some k, none⟩ false
    exact next_inv hs hres hdc.1
      (fun i e hi _ _ => ⟨hi, by intro c hc; simp [thrOf] at hc⟩) (fun i hi _ => hi)

theorem step_first (st : DState Nat) (v : Nat) (fuel : Nat) (hf : es.length + 1 ≤ fuel) :
    Inv es snap (dbStep (flatInner es) snap fuel st .first)
      (specStep (visible snap es none) v .first) := by
  obtain ⟨p, d, vl, ck, cv⟩ := st
  simp only [dbStep, specStep, flat_first, flat_cur]
  cases he : es[0]? with
  | none =>
    left
    refine ⟨rfl, ?_⟩
    have := vpos_ge (es := es) (snap := snap) (j := 0) (by simpa using he)
    rw [vpos_zero] at this
    omega
  | some e =>
    have hj := lt_of_get he
    have hg : GN es snap 0 (thrOf false ck) := by
      constructor
      · intro i y _ _ _ _ i' x hi'; omega
      · intro c hc; simp [thrOf] at hc
    have hres := findNext_flat hs fuel 0 false .fwd vl ck none hj (by omega) hg
    have hdc := findNext_dir_cval (flatInner es) snap fuel ⟨0, .fwd, vl, ck, none⟩ false
    have := next_inv hs hres hdc.1 (j1 := 0)
      (fun i e hi _ _ => ⟨hi, by intro c hc; simp [thrOf] at hc⟩) (fun i hi _ => hi)
    rw [vpos_zero] at this
    exact this

theorem step_last (st : DState Nat) (v : Nat) (fuel : Nat) (hf : es.length + 1 ≤ fuel) :
    Inv es snap (dbStep (flatInner es) snap fuel st .last)
      (specStep (visible snap es none) v .last) := by
  obtain ⟨p, d, vl, ck, cv⟩ := st
  simp only [dbStep, specStep, flat_last]
  rw [visible_length hs]
  by_cases hn : es.length = 0
  · left
    refine ⟨findPrev_invalid hs fuel _ (by simp [hn]), ?_⟩
    have : (visList es snap).length = 0 := by
      have : es = [] := List.eq_nil_of_length_eq_zero hn
      subst this; rfl
    omega
  · have hp : es.length - 1 < es.length := by omega
    have hj : PJ es snap (es.length - 1) (es.length - 1 + 1) false ck none :=
      ⟨by simp, fun _ i h1 h2 => by omega⟩
    have hres := findPrevLoop_flat hs (es.length - 1) fuel (es.length - 1) false .bwd vl ck none hp
      (Nat.le_refl _) (by omega) hj
    have := prev_inv hs (st := ⟨es.length - 1, .bwd, vl, ck, none⟩) rfl hres (j1 := es.length)
      (by omega) (by intro i h1 h2; omega)
    rw [vpos_ge (Nat.le_refl _)] at this
    have heq : (visList es snap).length - 1
        = (if (visList es snap).length = 0 then (visList es snap).length else (visList es snap).length - 1) := by
      split <;> omega
    rw [heq]; exact this

/-- `next` in backward mode, after the inner cursor has been moved to `j ≤ r` -/
theorem bwd_next_core {j r : Nat} {e : Entry} (cv : Option Bytes) (fuel : Nat) (hf : es.length + 1 ≤ fuel)
    (hjr : j ≤ r) (hgap : ∀ i, j ≤ i → i < r → SeqGt es snap i) (he : es[r]? = some e)
    (hv : visB es snap e = true) :
    Inv es snap (findNext (flatInner es) snap fuel ⟨j, .fwd, true, some e.ukey, cv⟩ true)
      (vpos es snap r + 1) := by
  have hr := lt_of_get he
  have hq : e.seq ≤ snap := ((visB_iff es snap e).mp hv).1
  have hg : GN es snap j (thrOf true (some e.ukey)) := by
    constructor
    · intro i y hi hy hyq habove i' x hi' hx hu
      exfalso
      have h1 := habove e.ukey rfl
      have h2 := ukey_le_idx hs (by omega : i' ≤ r) hx he
      rw [hu, h1] at h2; simp at h2
    · intro c hc i y hi hy hyq
      simp [thrOf] at hc; subst hc
      by_cases hir : i < r
      · have := hgap i hi hir y hy; omega
      · exact ukey_le_idx hs (by omega : r ≤ i) he hy
  have hres := findNext_flat hs fuel j true .fwd true (some e.ukey) cv (by omega) (by omega) hg
  have hdc := findNext_dir_cval (flatInner es) snap fuel ⟨j, .fwd, true, some e.ukey, cv⟩ true
  have := next_inv hs hres hdc.1 (j1 := r + 1)
    (fun i e' hi he' hv' => ⟨by omega, by
      intro c hc; simp [thrOf] at hc; subst hc
      exact above_of_vis_after hs he hq (by omega) he' hv'⟩)
    (by
      intro i hi hT
      obtain ⟨e', he', _, habove⟩ := hT
      have h1 := habove e.ukey rfl
      by_cases hir : i ≤ r
      · have h2 := ukey_le_idx hs hir he' he
        rw [h1] at h2; simp at h2
      · omega)
  rw [vpos_succ_some he, hv] at this
  simpa using this

theorem step_next {st : DState Nat} {v : Nat} (h : Inv es snap st v) (fuel : Nat) (hf : es.length + 1 ≤ fuel) :
    Inv es snap (dbStep (flatInner es) snap fuel st .next)
      (specStep (visible snap es none) v .next) := by
  obtain ⟨p, d, vl, ck, cv⟩ := st
  rcases h with ⟨h1, h2⟩ | ⟨h1, h2, j, e, h3, h4, h5, h6⟩ | ⟨h1, h2, r, e, h3, h4, h5, h6, h7, h8⟩
  · simp only at h1; subst h1
    simp only [dbStep, specStep, Bool.not_false, if_true]
    rw [visible_length hs, if_pos h2]
    exact .inl ⟨rfl, h2⟩
  · simp only at h1 h2 h3; subst h1 h2 h3 h6
    have hvlt := vpos_lt_of_vis hs h4 h5
    have hp := lt_of_get h4
    have hq : e.seq ≤ snap := ((visB_iff es snap e).mp h5).1
    simp only [dbStep, specStep, Bool.not_true, Bool.false_eq_true, if_false, fwd_beq_bwd, flat_cur, h4,
      flat_next]
    rw [if_neg (by omega), if_neg (by omega)]
    have hvs : vpos es snap p + 1 = vpos es snap (p + 1) := by
      rw [vpos_succ_some h4, h5]; simp
    rw [hvs]
    cases he2 : es[p + 1]? with
    | none =>
      simp only
      left
      refine ⟨rfl, ?_⟩
      rw [vpos_ge (by simpa using he2)]; exact Nat.le_refl _
    | some e2 =>
      simp only
      have hj := lt_of_get he2
      have hg : GN es snap (p + 1) (thrOf true (some e.ukey)) := by
        constructor
        · intro i y hi hy hyq habove i' x hi' hx hu
          exfalso
          have h1 := habove e.ukey rfl
          have h2 := ukey_le_idx hs (by omega : i' ≤ p) hx h4
          rw [hu, h1] at h2; simp at h2
        · intro c hc i y hi hy hyq
          simp [thrOf] at hc; subst hc
          exact ukey_le_idx hs (by omega : p ≤ i) h4 hy
      have hres := findNext_flat hs fuel (p + 1) true .fwd true (some e.ukey) cv hj (by omega) hg
      have hdc := findNext_dir_cval (flatInner es) snap fuel ⟨p + 1, .fwd, true, some e.ukey, cv⟩ true
      exact next_inv hs hres hdc.1
        (fun i e' hi he' hv' => ⟨hi, by
          intro c hc; simp [thrOf] at hc; subst hc
          exact above_of_vis_after hs h4 hq (by omega) he' hv'⟩)
        (fun i hi _ => hi)
  · simp only at h1 h2 h5 h6 h7; subst h1 h2 h5 h6 h8
    have hvlt := vpos_lt_of_vis hs h3 h4
    have hr := lt_of_get h3
    simp only [dbStep, specStep, Bool.not_true, Bool.false_eq_true, if_false, bwd_beq_bwd, if_true, flat_cur]
    rw [if_neg (by omega)]
    obtain ⟨g1, g2⟩ := h7
    rcases g1 with g1 | g1
    · subst g1
      rw [List.getElem?_eq_none (Nat.le_refl _)]
      simp only [flat_first]
      obtain ⟨e0, he0⟩ : ∃ e0, es[0]? = some e0 := ⟨es[0]'(by omega), List.getElem?_eq_getElem (by omega)⟩
      rw [he0]
      simp only
      exact bwd_next_core hs _ fuel hf (Nat.zero_le _) (fun i _ hi => g2 i hi (.inl rfl)) h3 h4
    · obtain ⟨e0, he0⟩ : ∃ e0, es[p]? = some e0 := ⟨es[p]'(by omega), List.getElem?_eq_getElem (by omega)⟩
      rw [he0]
      simp only [flat_next]
      rw [if_neg (by omega)]
      obtain ⟨e1, he1⟩ : ∃ e1, es[p + 1]? = some e1 := ⟨es[p + 1]'(by omega), List.getElem?_eq_getElem (by omega)⟩
      rw [he1]
      simp only
      exact bwd_next_core hs _ fuel hf (by omega) (fun i h1 hi => g2 i hi (.inr (by omega))) h3 h4

theorem step_prev {st : DState Nat} {v : Nat} (h : Inv es snap st v) (fuel : Nat) (hf : es.length + 1 ≤ fuel) :
    Inv es snap (dbStep (flatInner es) snap fuel st .prev)
      (specStep (visible snap es none) v .prev) := by
  obtain ⟨p, d, vl, ck, cv⟩ := st
  rcases h with ⟨h1, h2⟩ | ⟨h1, h2, j, e, h3, h4, h5, h6⟩ | ⟨h1, h2, r, e, h3, h4, h5, h6, h7, h8⟩
  · simp only at h1; subst h1
    simp only [dbStep, specStep, Bool.not_false, if_true]
    rw [visible_length hs, if_pos h2]
    exact .inl ⟨rfl, h2⟩
  · simp only at h1 h2 h3; subst h1 h2 h3 h6
    have hvlt := vpos_lt_of_vis hs h4 h5
    have hp := lt_of_get h4
    simp only [dbStep, specStep, Bool.not_true, Bool.false_eq_true, if_false, fwd_beq_fwd, if_true, flat_cur, h4]
    rw [if_neg (by omega), visible_length hs]
    have hb := backOff_flat hs fuel p e.ukey hp (by omega)
    revert hb
    cases backOff (flatInner es) fuel p e.ukey with
    | mk p' f =>
      intro hb
      cases f with
      | false =>
        simp only
        have hall := hb.2 rfl
        have hz : vpos es snap p = 0 := by
          rw [← vpos_zero es snap]
          apply vpos_eq_of_nv (Nat.zero_le _)
          intro i _ hi
          apply SeqGt.nv
          intro y hy
          exact same_group_seqgt hs h4 h5 hi hy (hall i y hi hy)
        rw [hz]
        simp only [if_true]
        exact .inl ⟨rfl, Nat.le_refl _⟩
      | true =>
        simp only
        obtain ⟨b1, ⟨y0, hy0, _⟩, b3⟩ := hb.1 rfl
        simp only at b1 hy0 b3
        have hj : PJ es snap p' (p' + 1) false (some e.ukey) cv :=
          ⟨by simp, fun _ i h1 h2 => by omega⟩
        have hres := findPrevLoop_flat hs p' fuel p' false .bwd true (some e.ukey) cv (lt_of_get hy0)
          (Nat.le_refl _) (by omega) hj
        exact prev_inv hs (st := ⟨p', .bwd, true, some e.ukey, cv⟩) rfl hres (j1 := p) b1
          (by
            intro i h1 h2
            apply SeqGt.nv
            intro y hy
            exact same_group_seqgt hs h4 h5 h2 hy (b3 i y h1 h2 hy))
  · simp only at h1 h2 h5 h6 h7; subst h1 h2 h5 h6 h8
    have hvlt := vpos_lt_of_vis hs h3 h4
    have hr := lt_of_get h3
    simp only [dbStep, specStep, Bool.not_true, Bool.false_eq_true, if_false, bwd_beq_fwd]
    rw [if_neg (by omega), visible_length hs]
    obtain ⟨g1, g2⟩ := h7
    rcases g1 with g1 | g1
    · subst g1
      have hz : vpos es snap r = 0 := by
        rw [← vpos_zero es snap]
        apply vpos_eq_of_nv (Nat.zero_le _)
        intro i _ hi
        exact (g2 i hi (.inl rfl)).nv
      rw [hz]
      simp only [if_true]
      exact .inl ⟨findPrev_invalid hs fuel _ (by simp), Nat.le_refl _⟩
    · have hj : PJ es snap p (p + 1) false (some e.ukey) (some e.val) :=
        ⟨by simp, fun _ i h1 h2 => by omega⟩
      have hres := findPrevLoop_flat hs p fuel p false .bwd true (some e.ukey) (some e.val) (by omega)
        (Nat.le_refl _) (by omega) hj
      exact prev_inv hs (st := ⟨p, .bwd, true, some e.ukey, some e.val⟩) rfl hres (j1 := r) g1
        (fun i h1 h2 => (g2 i h2 (.inr h1)).nv)

theorem step_inv {st : DState Nat} {v : Nat} (h : Inv es snap st v) (fuel : Nat) (hf : es.length + 1 ≤ fuel)
    (op : UOp) :
    Inv es snap (dbStep (flatInner es) snap fuel st op) (specStep (visible snap es none) v op) := by
  cases op with
  | seek k => exact step_seek hs st v k fuel hf
  | first => exact step_first hs st v fuel hf
  | last => exact step_last hs st v fuel hf
  | next => exact step_next hs h fuel hf
  | prev => exact step_prev hs h fuel hf

theorem run_inv (fuel : Nat) (hf : es.length + 1 ≤ fuel) (ops : List UOp) {st : DState Nat} {v : Nat}
    (h : Inv es snap st v) :
    Inv es snap (ops.foldl (dbStep (flatInner es) snap fuel) st)
      (ops.foldl (specStep (visible snap es none)) v) := by
  induction ops generalizing st v with
  | nil => exact h
  | cons op ops ih => exact ih (step_inv hs h fuel hf op)

theorem init_inv : Inv es snap (dbInit es.length) (visible snap es none).length := by
  left
  refine ⟨rfl, ?_⟩
  rw [visible_length hs]; exact Nat.le_refl _

end

end Rain.DbFlat
