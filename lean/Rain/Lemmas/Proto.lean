import Rain.ProtoSpec
import Rain.Lemmas.ProtoBasic
/-
Proofs of the protocol properties stated in `Rain/Props/Proto.lean`: an inductive invariant of the
group-commit write path, its preservation by every step, and the consequences; the lock file
protocol.
-/
namespace Rain.Proto.Lemmas
open Rain.Proto

/-- the inductive invariant of the write path -/
structure Inv (s : State) : Prop where
  done_place : s.done = place 1 (s.done.map unplace)
  last : s.lastSeq = groupSize s.done
  ids : s.done.map Placed.id ++ s.queue.map Batch.id = List.range s.nextId
  walmem : ∀ e ∈ s.mem, ∃ g ∈ s.wal, e ∈ groupEntries g
  idle : s.phase = .idle → s.mem = groupEntries s.done
  writing : ∀ g w todo, s.phase = .writing g w todo →
    ∃ j k, 0 < j ∧ j ≤ s.queue.length ∧ g = place (s.lastSeq + 1) (s.queue.take j) ∧
      s.mem = groupEntries s.done ++ (groupEntries g).take k ∧ todo = (groupEntries g).drop k ∧
      (w = false → k = 0) ∧ (w = true → g ∈ s.wal)

theorem inv_init : Inv init where
  done_place := by simp [init, place]
  last := by simp [init, groupSize]
  ids := by simp [init]
  walmem := by simp [init]
  idle := by simp [init, groupEntries]
  writing := by simp [init]

/-- what one step does to the published sequence number and to the memtable -/
def StepRel (s s' : State) : Prop :=
  s.lastSeq ≤ s'.lastSeq ∧ (s'.mem = s.mem ∨ ∃ e, s'.mem = s.mem ++ [e] ∧ s.lastSeq < e.1)

theorem step_inv (s s' : State) (a : Step) (hi : Inv s) (hs : step s a = some s') :
    Inv s' ∧ StepRel s s' := by
  obtain ⟨lastSeq, mem, queue, phase, done, wal, nextId⟩ := s
  obtain ⟨h1, h2, h3, h4, h5, h6⟩ := hi
  simp only at h1 h2 h3 h4 h5 h6
  cases a with
  | enqueue n =>
    simp only [step, Option.some.injEq] at hs
    subst hs
    refine ⟨⟨h1, h2, ?_, h4, h5, ?_⟩, Nat.le_refl _, Or.inl rfl⟩
    · simp only [List.map_append, List.map_cons, List.map_nil, List.range_succ]
      rw [← List.append_assoc, h3]
    · intro g w todo hp
      obtain ⟨j, k, hj0, hj, hg, hm, ht, hw0, hw1⟩ := h6 g w todo hp
      refine ⟨j, k, hj0, ?_, ?_, hm, ht, hw0, hw1⟩
      · simp; omega
      · simp only []
        rw [List.take_append_of_le_length hj]; exact hg
  | «begin» j =>
    cases phase with
    | writing g w todo => simp [step] at hs
    | idle =>
      simp only [step] at hs
      split at hs
      · rename_i hj
        simp only [Option.some.injEq] at hs
        subst hs
        refine ⟨⟨h1, h2, h3, h4, by simp, ?_⟩, Nat.le_refl _, Or.inl rfl⟩
        intro g w todo hp
        simp only [Phase.writing.injEq] at hp
        obtain ⟨rfl, rfl, rfl⟩ := hp
        exact ⟨j, 0, hj.1, hj.2, rfl, by simp [h5 rfl], by simp, by simp, by simp⟩
      · simp at hs
  | walAppend =>
    cases phase with
    | idle => simp [step] at hs
    | writing g w todo =>
      cases w with
      | true => simp [step] at hs
      | false =>
        simp only [step, Option.some.injEq] at hs
        subst hs
        refine ⟨⟨h1, h2, h3, ?_, by simp, ?_⟩, Nat.le_refl _, Or.inl rfl⟩
        · intro e he
          obtain ⟨g', hg', he'⟩ := h4 e he
          exact ⟨g', List.mem_append_left _ hg', he'⟩
        · intro g' w' todo' hp
          simp only [Phase.writing.injEq] at hp
          obtain ⟨rfl, rfl, rfl⟩ := hp
          obtain ⟨j, k, hj0, hj, hg, hm, ht, hw0, hw1⟩ := h6 _ _ _ rfl
          exact ⟨j, k, hj0, hj, hg, hm, ht, by simp, by simp⟩
  | insert =>
    cases phase with
    | idle => simp [step] at hs
    | writing g w todo =>
      cases w with
      | false => simp [step] at hs
      | true =>
        cases todo with
        | nil => simp [step] at hs
        | cons e rest =>
          simp only [step, Option.some.injEq] at hs
          subst hs
          obtain ⟨j, k, hj0, hj, hg, hm, ht, hw0, hw1⟩ := h6 _ _ _ rfl
          have hgw : g ∈ wal := hw1 rfl
          obtain ⟨htk, hdk⟩ := take_succ_of_drop _ _ _ _ ht.symm
          have heg : e ∈ groupEntries g := by
            have : e ∈ (groupEntries g).drop k := by rw [← ht]; simp
            exact List.mem_of_mem_drop this
          have hlt : lastSeq < e.1 := by
            obtain ⟨p, hp, hep⟩ := (mem_groupEntries g e).1 heg
            rw [hg] at hp
            have := mem_place_bounds _ _ _ hp
            have := mem_entriesOf_bounds _ _ hep
            omega
          refine ⟨⟨h1, h2, h3, ?_, by simp, ?_⟩, Nat.le_refl _, Or.inr ⟨e, rfl, hlt⟩⟩
          · intro e' he'
            simp only [List.mem_append, List.mem_singleton] at he'
            rcases he' with he' | rfl
            · exact h4 e' he'
            · exact ⟨g, hgw, heg⟩
          · intro g' w' todo' hp
            simp only [Phase.writing.injEq] at hp
            obtain ⟨rfl, rfl, rfl⟩ := hp
            refine ⟨j, k + 1, hj0, hj, hg, ?_, hdk.symm, by simp, fun _ => hgw⟩
            simp only []
            rw [htk, ← List.append_assoc, ← hm]
  | publish =>
    cases phase with
    | idle => simp [step] at hs
    | writing g w todo =>
      cases w with
      | false => simp [step] at hs
      | true =>
        cases todo with
        | cons e rest => simp [step] at hs
        | nil =>
          simp only [step, Option.some.injEq] at hs
          subst hs
          obtain ⟨j, k, hj0, hj, hg, hm, ht, hw0, hw1⟩ := h6 _ _ _ rfl
          have hlen : g.length = j := by
            rw [hg, length_place, List.length_take]; omega
          have hfull : (groupEntries g).take k = groupEntries g := take_of_drop_nil _ _ ht.symm
          refine ⟨⟨?_, ?_, ?_, h4, ?_, by simp⟩, by simp, Or.inl rfl⟩
          · simp only [List.map_append]
            rw [place_append, ← h1, sum_unplace, ← h2]
            congr 1
            rw [hg, map_unplace_place, Nat.add_comm 1 lastSeq]
          · simp only []
            rw [groupSize_append, h2]
          · simp only [List.map_append]
            rw [hlen, List.append_assoc]
            have : List.map Placed.id g = (queue.take j).map Batch.id := by
              rw [hg, map_id_place]
            rw [this, ← List.map_append, List.take_append_drop]
            exact h3
          · intro _
            simp only []
            rw [groupEntries_append, hm, hfull]

theorem inv_run (s s' : State) (steps : List Step) (hi : Inv s) (hr : run s steps = some s') :
    Inv s' := by
  induction steps generalizing s with
  | nil => simp [run] at hr; subst hr; exact hi
  | cons a rest ih =>
    simp only [run] at hr
    split at hr
    · rename_i s1 h1
      exact ih s1 (step_inv s s1 a hi h1).1 hr
    · simp at hr

theorem inv_of_reachable (s : State) (h : Reachable s) : Inv s := by
  obtain ⟨steps, hr⟩ := h
  exact inv_run init s steps inv_init hr

/-! ### consequences of the invariant -/

theorem inflight_bounds (s : State) (hi : Inv s) (p : Placed) (hp : p ∈ inflight s) :
    s.lastSeq < p.start := by
  unfold inflight at hp
  split at hp
  · rename_i g w todo hph
    obtain ⟨j, k, _, _, hg, _⟩ := hi.writing g w todo hph
    rw [hg] at hp
    have := mem_place_bounds _ _ _ hp
    omega
  · simp at hp

theorem done_bounds (s : State) (hi : Inv s) (p : Placed) (hp : p ∈ s.done) :
    p.start + p.n ≤ s.lastSeq + 1 := by
  rw [hi.done_place] at hp
  have := mem_place_bounds _ _ _ hp
  rw [sum_unplace, ← hi.last] at this
  omega

theorem mem_contents_inv (s : State) (hi : Inv s) :
    ∃ k, s.mem = groupEntries s.done ++ (groupEntries (inflight s)).take k := by
  unfold inflight
  split
  · rename_i g w todo hph
    obtain ⟨j, k, _, _, _, hm, _⟩ := hi.writing g w todo hph
    exact ⟨k, hm⟩
  · rename_i hph
    exact ⟨0, by simp [hi.idle hph]⟩

theorem cut_never_inside (s : State) (h : Reachable s) (p : Placed)
    (hp : p ∈ inflight s ∨ p ∈ s.done) :
    s.lastSeq < p.start ∨ p.start + p.n ≤ s.lastSeq + 1 := by
  have hi := inv_of_reachable s h
  rcases hp with hp | hp
  · exact Or.inl (inflight_bounds s hi p hp)
  · exact Or.inr (done_bounds s hi p hp)

theorem done_visible (s : State) (h : Reachable s) (p : Placed) (hp : p ∈ s.done) :
    ∀ e ∈ entriesOf p, e ∈ visible s s.lastSeq := by
  have hi := inv_of_reachable s h
  intro e he
  have hb := done_bounds s hi p hp
  have he' := mem_entriesOf_bounds p e he
  obtain ⟨k, hk⟩ := mem_contents_inv s hi
  simp only [visible, List.mem_filter, decide_eq_true_eq]
  refine ⟨?_, by omega⟩
  rw [hk]
  exact List.mem_append_left _ ((mem_groupEntries _ _).2 ⟨p, hp, he⟩)

theorem inflight_invisible (s : State) (h : Reachable s) (p : Placed) (hp : p ∈ inflight s) :
    ∀ e ∈ entriesOf p, e ∉ visible s s.lastSeq := by
  have hi := inv_of_reachable s h
  intro e he
  have hb := inflight_bounds s hi p hp
  have he' := mem_entriesOf_bounds p e he
  simp only [visible, List.mem_filter, decide_eq_true_eq]
  omega

theorem cut_stable_inv (s s' : State) (hi : Inv s) (steps : List Step)
    (hr : run s steps = some s') (q : Nat) (hq : q ≤ s.lastSeq) :
    visible s' q = visible s q := by
  induction steps generalizing s with
  | nil => simp [run] at hr; subst hr; rfl
  | cons a rest ih =>
    simp only [run] at hr
    split at hr
    · rename_i s1 h1
      obtain ⟨hi1, hle, hmem⟩ := step_inv s s1 a hi h1
      rw [ih s1 hi1 hr (Nat.le_trans hq hle)]
      rcases hmem with hm | ⟨e, hm, hlt⟩
      · simp [visible, hm]
      · have : ¬ e.1 ≤ q := by omega
        simp [visible, hm, List.filter_append, this]
    · simp at hr

theorem cut_stable (s s' : State) (h : Reachable s) (steps : List Step)
    (hr : run s steps = some s') (q : Nat) (hq : q ≤ s.lastSeq) :
    visible s' q = visible s q :=
  cut_stable_inv s s' (inv_of_reachable s h) steps hr q hq

theorem exactly_once (s : State) (h : Reachable s) :
    (s.done.map Placed.id) ++ (s.queue.map Batch.id) = List.range s.nextId ∧
    (inflight s).map Placed.id = (s.queue.take (inflight s).length).map Batch.id ∧
    s.done = place 1 (s.done.map fun p => { id := p.id, n := p.n }) ∧
    s.lastSeq = groupSize s.done := by
  have hi := inv_of_reachable s h
  refine ⟨hi.ids, ?_, hi.done_place, hi.last⟩
  unfold inflight
  split
  · rename_i g w todo hph
    obtain ⟨j, k, _, hj, hg, _⟩ := hi.writing g w todo hph
    have hlen : g.length = j := by
      rw [hg, length_place, List.length_take]; omega
    rw [hlen, hg, map_id_place]
  · simp

theorem wal_before_mem (s : State) (h : Reachable s) :
    ∀ e ∈ s.mem, ∃ g ∈ s.wal, e ∈ groupEntries g :=
  (inv_of_reachable s h).walmem

theorem mem_contents (s : State) (h : Reachable s) :
    ∃ k, s.mem = groupEntries s.done ++ (groupEntries (inflight s)).take k :=
  mem_contents_inv s (inv_of_reachable s h)

theorem writer_progress (s : State) (_h : Reachable s) (hw : s.queue ≠ []) :
    ∃ a s', (match a with | Step.enqueue _ => False | _ => True) ∧ step s a = some s' := by
  obtain ⟨lastSeq, mem, queue, phase, done, wal, nextId⟩ := s
  simp only at hw
  have key : ∀ a, (step ⟨lastSeq, mem, queue, phase, done, wal, nextId⟩ a).isSome = true →
      (match a with | Step.enqueue _ => False | _ => True) →
      ∃ a s', (match a with | Step.enqueue _ => False | _ => True) ∧
        step ⟨lastSeq, mem, queue, phase, done, wal, nextId⟩ a = some s' := by
    intro a ha hm
    obtain ⟨s', hs'⟩ := Option.isSome_iff_exists.1 ha
    exact ⟨a, s', hm, hs'⟩
  cases phase with
  | idle =>
    have : 1 ≤ queue.length := by
      cases queue with
      | nil => exact absurd rfl hw
      | cons x xs => simp
    exact key (.begin 1) (by simp [step, this]) trivial
  | writing g w todo =>
    cases w with
    | false => exact key .walAppend (by simp [step]) trivial
    | true =>
      cases todo with
      | nil => exact key .publish (by simp [step]) trivial
      | cons e rest => exact key .insert (by simp [step]) trivial

/-! ### the lock file protocol -/

def LInv (s : LState) : Prop :=
  s.openInst = (match s.holder with | some i => [i] | none => [])

theorem linv_step (s : LState) (a : LAction) (hi : LInv s) : LInv (lstep s a) := by
  obtain ⟨holder, openInst, intact, log⟩ := s
  unfold LInv at hi ⊢
  simp only at hi
  cases a with
  | tryOpen i =>
    cases holder with
    | none => simp [lstep, hi]
    | some j => simp [lstep, hi]
  | close i =>
    cases holder with
    | none => simp [lstep, hi]
    | some j =>
      by_cases hji : j = i
      · subst hji; simp [lstep, hi]
      · simp [lstep, hi, hji]
  | destroy =>
    cases holder with
    | none => simp [lstep, hi]
    | some j => simp [lstep, hi]

theorem linv_run (s : LState) (as : List LAction) (hi : LInv s) : LInv (lrun s as) := by
  induction as generalizing s with
  | nil => exact hi
  | cons a rest ih => exact ih (lstep s a) (linv_step s a hi)

theorem single_owner (s : LState) (h : LReachable s) :
    s.openInst = (match s.holder with | some i => [i] | none => []) := by
  obtain ⟨as, rfl⟩ := h
  exact linv_run linit as rfl

theorem open_while_open_fails (s : LState) (i : Nat) (h : s.holder.isSome = true) :
    (lstep s (.tryOpen i)).holder = s.holder ∧ (lstep s (.tryOpen i)).openInst = s.openInst ∧
    (lstep s (.tryOpen i)).intact = s.intact ∧
    (lstep s (.tryOpen i)).log = s.log ++ [(.tryOpen i, false)] := by
  obtain ⟨holder, openInst, intact, log⟩ := s
  cases holder with
  | none => simp at h
  | some j => simp [lstep]

theorem destroy_refuses (s : LState) (h : s.holder.isSome = true) :
    (lstep s .destroy).intact = s.intact ∧ (lstep s .destroy).holder = s.holder ∧
    (lstep s .destroy).log = s.log ++ [(.destroy, false)] := by
  obtain ⟨holder, openInst, intact, log⟩ := s
  cases holder with
  | none => simp at h
  | some j => simp [lstep]

/-- while the lock is held, every further attempt only appends a failure -/
theorem lrun_held (s : LState) (h : s.holder.isSome = true) (attempts : List Nat) :
    (lrun s (attempts.map LAction.tryOpen)).log =
      s.log ++ attempts.map fun i => (LAction.tryOpen i, false) := by
  induction attempts generalizing s with
  | nil => simp [lrun]
  | cons i rest ih =>
    obtain ⟨hh, _, _, hl⟩ := open_while_open_fails s i h
    have := ih (lstep s (.tryOpen i)) (by rw [hh]; exact h)
    simp only [lrun, List.map_cons, List.foldl_cons] at this ⊢
    rw [this, hl]
    simp

theorem one_winner (s : LState) (h : s.holder = none) (attempts : List Nat) (hne : attempts ≠ []) :
    (((lrun s (attempts.map LAction.tryOpen)).log.drop s.log.length).filter (fun e => e.2)).length = 1 := by
  cases attempts with
  | nil => exact absurd rfl hne
  | cons i rest =>
    have hstep : (lstep s (.tryOpen i)).holder = some i ∧
        (lstep s (.tryOpen i)).log = s.log ++ [(.tryOpen i, true)] := by
      obtain ⟨holder, openInst, intact, log⟩ := s
      simp only at h
      subst h
      simp [lstep]
    have := lrun_held (lstep s (.tryOpen i)) (by simp [hstep.1]) rest
    simp only [lrun, List.map_cons, List.foldl_cons] at this ⊢
    rw [this, hstep.2, List.append_assoc, List.drop_left]
    simp [List.filter_map, Function.comp_def]

end Rain.Proto.Lemmas
