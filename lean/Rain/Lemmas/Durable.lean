import Rain.Lemmas.DurRecover
/-
Proofs of the durability theorems stated in `Rain/Props/Durable.lean`.
-/
namespace Rain.Durable.Lemmas
open Rain Rain.Lsm Rain.Durable

theorem safe_elim {d : Disk} {bs : List WBatch} (h : Safe d bs) :
    WF d ∧ ∃ c r, d.current = some c ∧ recoverFrom d c = some r ∧ recover d = some r ∧
      ∀ k, latest r.entries k = specOfBatches bs k := by
  obtain ⟨hwf, r, hr, hl⟩ := h
  obtain ⟨c, hc, hrc⟩ := (recover_eq_some d r).1 hr
  exact ⟨hwf, c, r, hc, hrc, hr, hl⟩

theorem safe_intro {d : Disk} {bs : List WBatch} (hwf : WF d) (c : Nat) (r : Recovered)
    (hc : d.current = some c) (hr : recoverFrom d c = some r)
    (hl : ∀ k, latest r.entries k = specOfBatches bs k) : Safe d bs :=
  ⟨hwf, r, (recover_eq_some d r).2 ⟨c, hc, hr⟩, hl⟩

/-! ### one lemma per operation -/

theorem safe_appendWal (d : Disk) (bs : List WBatch) (n : Nat) (b : WBatch) (h : Safe d bs)
    (hok : ok d (.appendWal n b) = true) : Safe (apply d (.appendWal n b)) (bs ++ [b]) := by
  obtain ⟨⟨hm, hw, ht⟩, c, r, hc, hrc, hr, hl⟩ := safe_elim h
  simp only [ok, hr, Bool.and_eq_true, decide_eq_true_eq, List.contains_iff_mem, List.all_eq_true,
    walNumbers] at hok
  obtain ⟨⟨⟨hmem, hmax⟩, hwn⟩, hseq⟩ := hok
  -- every WAL with a larger number is still empty
  have hmax' : ∀ x ∈ d.wals, n < x.1 → x.2 = [] := by
    intro x hx hlt
    have h1 := hmax x hx
    simp only [Bool.or_eq_true, decide_eq_true_eq, List.isEmpty_iff] at h1
    rcases h1 with h1 | h1
    · omega
    · exact h1
  refine safe_intro ⟨hm, nodup_update _ _ _ hw, ht⟩ c { r with entries := r.entries ++ batchEntries b } hc ?_ ?_
  · exact recoverFrom_transfer d _ c r (batchEntries b) hrc rfl (fun _ _ => rfl)
      (walEntries_appendWal d.wals n r.walNo b hw hmem hmax' hwn)
  · intro k
    have : latest r.entries = specOfBatches bs := funext hl
    rw [specOfBatches_snoc, ← this]
    exact latest_append_batch r.entries b hseq k

theorem safe_createWal (d : Disk) (bs : List WBatch) (n : Nat) (h : Safe d bs)
    (hok : ok d (.createWal n) = true) : Safe (apply d (.createWal n)) bs := by
  obtain ⟨⟨hm, hw, ht⟩, c, r, hc, hrc, hr, hl⟩ := safe_elim h
  simp only [ok, Bool.or_eq_true, Bool.and_eq_true] at hok
  rcases hok with hok | ⟨hempty, _⟩
  · -- a new number, larger than every existing one
    simp only [decide_eq_true_eq, List.all_eq_true, walNumbers] at hok
    have hlt : ∀ x ∈ d.wals, x.1 < n := fun x hx => hok x.1 (List.mem_map.2 ⟨x, hx, rfl⟩)
    refine safe_intro ⟨hm, nodup_update _ _ _ hw, ht⟩ c r hc ?_ hl
    exact recoverFrom_transfer' d _ c r hrc rfl (fun _ _ => rfl) (walEntries_createWal d.wals n r.walNo hlt)
  · -- re-creation of an existing, still empty WAL: the image does not change at all
    have hlk : lookup d.wals n = some [] := by simpa using hempty
    have hd : apply d (.createWal n) = d := by
      show { d with wals := update d.wals n [] } = d
      rw [update_same d.wals n [] hw hlk]
    rw [hd]; exact h

theorem safe_removeWal (d : Disk) (bs : List WBatch) (n : Nat) (h : Safe d bs)
    (hok : ok d (.removeWal n) = true) : Safe (apply d (.removeWal n)) bs := by
  obtain ⟨⟨hm, hw, ht⟩, c, r, hc, hrc, hr, hl⟩ := safe_elim h
  simp only [ok, hr, decide_eq_true_eq] at hok
  refine safe_intro ⟨hm, nodup_erase _ _ hw, ht⟩ c r hc ?_ hl
  exact recoverFrom_transfer' d _ c r hrc rfl (fun _ _ => rfl) (walEntries_removeWal d.wals n r.walNo hok)

theorem not_in_version {r : Recovered} {t : Nat}
    (h : (!(r.version.map Prod.snd).contains t) = true) : ∀ f ∈ r.version, f.2 ≠ t := by
  intro f hf hft
  simp only [Bool.not_eq_true', List.contains_eq_mem, decide_eq_false_iff_not] at h
  exact h (List.mem_map.2 ⟨f, hf, hft⟩)

theorem safe_completeTable (d : Disk) (bs : List WBatch) (t : Nat) (es : List Entry) (h : Safe d bs)
    (hok : ok d (.completeTable t es) = true) : Safe (apply d (.completeTable t es)) bs := by
  obtain ⟨⟨hm, hw, ht⟩, c, r, hc, hrc, hr, hl⟩ := safe_elim h
  simp only [ok, hr] at hok
  have hne := not_in_version hok
  refine safe_intro ⟨hm, hw, nodup_update _ _ _ ht⟩ c r hc ?_ hl
  refine recoverFrom_transfer' d _ c r hrc rfl (fun f hf => ?_) rfl
  show lookup (update d.tables t es) f.2 = _
  rw [lookup_update, if_neg (hne f hf)]

theorem safe_removeTable (d : Disk) (bs : List WBatch) (t : Nat) (h : Safe d bs)
    (hok : ok d (.removeTable t) = true) : Safe (apply d (.removeTable t)) bs := by
  obtain ⟨⟨hm, hw, ht⟩, c, r, hc, hrc, hr, hl⟩ := safe_elim h
  simp only [ok, hr] at hok
  have hne := not_in_version hok
  refine safe_intro ⟨hm, hw, nodup_erase _ _ ht⟩ c r hc ?_ hl
  refine recoverFrom_transfer' d _ c r hrc rfl (fun f hf => ?_) rfl
  show lookup (erase d.tables t) f.2 = _
  rw [lookup_erase, if_neg (hne f hf)]

theorem ne_of_current_ne {d : Disk} {c m : Nat} (hc : d.current = some c)
    (h : (d.current != some m) = true) : c ≠ m := by
  rw [hc] at h; intro e; subst e; simp at h

theorem safe_createManifest (d : Disk) (bs : List WBatch) (m : Nat) (h : Safe d bs)
    (hok : ok d (.createManifest m) = true) : Safe (apply d (.createManifest m)) bs := by
  obtain ⟨⟨hm, hw, ht⟩, c, r, hc, hrc, hr, hl⟩ := safe_elim h
  simp only [ok] at hok
  have hne := ne_of_current_ne hc hok
  refine safe_intro ⟨nodup_update _ _ _ hm, hw, ht⟩ c r hc ?_ hl
  refine recoverFrom_transfer' d _ c r hrc ?_ (fun _ _ => rfl) rfl
  show lookup (update d.manifests m []) c = _
  rw [lookup_update, if_neg hne]

theorem safe_removeManifest (d : Disk) (bs : List WBatch) (m : Nat) (h : Safe d bs)
    (hok : ok d (.removeManifest m) = true) : Safe (apply d (.removeManifest m)) bs := by
  obtain ⟨⟨hm, hw, ht⟩, c, r, hc, hrc, hr, hl⟩ := safe_elim h
  simp only [ok] at hok
  have hne := ne_of_current_ne hc hok
  refine safe_intro ⟨nodup_erase _ _ hm, hw, ht⟩ c r hc ?_ hl
  refine recoverFrom_transfer' d _ c r hrc ?_ (fun _ _ => rfl) rfl
  show lookup (erase d.manifests m) c = _
  rw [lookup_erase, if_neg hne]

theorem safe_appendManifest (d : Disk) (bs : List WBatch) (m : Nat) (e : Edit) (h : Safe d bs)
    (hok : ok d (.appendManifest m e) = true) : Safe (apply d (.appendManifest m e)) bs := by
  obtain ⟨⟨hm, hw, ht⟩, c, r, hc, hrc, hr, hl⟩ := safe_elim h
  have hwf : WF (apply d (.appendManifest m e)) := ⟨nodup_update _ _ _ hm, hw, ht⟩
  by_cases hcm : c = m
  · subst hcm
    simp only [ok, hc, beq_self_eq_true, if_true, hr] at hok
    cases hr' : recover (apply d (.appendManifest c e)) with
    | none => rw [hr'] at hok; simp at hok
    | some r' =>
      rw [hr'] at hok
      simp only at hok
      refine ⟨hwf, r', hr', fun k => ?_⟩
      rw [← sameContents_latest _ _ hok k]; exact hl k
  · refine safe_intro hwf c r hc ?_ hl
    refine recoverFrom_transfer' d _ c r hrc ?_ (fun _ _ => rfl) rfl
    show lookup (update d.manifests m _) c = _
    rw [lookup_update, if_neg hcm]

theorem recoverFrom_setCurrent (d : Disk) (m c : Nat) :
    recoverFrom { d with current := some m } c = recoverFrom d c := rfl

theorem safe_setCurrent (d : Disk) (bs : List WBatch) (m : Nat) (h : Safe d bs)
    (hok : ok d (.setCurrent m) = true) : Safe (apply d (.setCurrent m)) bs := by
  obtain ⟨hwf, c, r, hc, hrc, hr, hl⟩ := safe_elim h
  simp only [ok, hc, hr] at hok
  cases hr' : recoverFrom d m with
  | none => rw [hr'] at hok; simp at hok
  | some r' =>
    rw [hr'] at hok
    simp only at hok
    refine safe_intro (d := apply d (.setCurrent m)) hwf m r' rfl ?_ (fun k => ?_)
    · exact (recoverFrom_setCurrent d m m).trans hr'
    · rw [← sameContents_latest _ _ hok k]; exact hl k

/-! ### the theorems -/

theorem step_safe (d : Disk) (bs : List WBatch) (op : Op) (h : Safe d bs) (hok : ok d op = true) :
    Safe (apply d op) (bs ++ acked [op]) := by
  cases op with
  | appendWal n b => exact safe_appendWal d bs n b h hok
  | createWal n => simpa [acked] using safe_createWal d bs n h hok
  | removeWal n => simpa [acked] using safe_removeWal d bs n h hok
  | completeTable t es => simpa [acked] using safe_completeTable d bs t es h hok
  | removeTable t => simpa [acked] using safe_removeTable d bs t h hok
  | createManifest m => simpa [acked] using safe_createManifest d bs m h hok
  | appendManifest m e => simpa [acked] using safe_appendManifest d bs m e h hok
  | setCurrent m => simpa [acked] using safe_setCurrent d bs m h hok
  | removeManifest m => simpa [acked] using safe_removeManifest d bs m h hok
  | noop => simpa [acked, apply] using h

theorem acked_cons (op : Op) (ops : List Op) : acked (op :: ops) = acked [op] ++ acked ops := by
  cases op <;> rfl

theorem every_prefix_recovers (d0 : Disk) (bs0 : List WBatch) (h0 : Safe d0 bs0)
    (ops : List Op) (d : Disk) (hr : runOk d0 ops = some d) (i : Nat) (hi : i ≤ ops.length) :
    ∃ di, runOk d0 (ops.take i) = some di ∧ Safe di (bs0 ++ acked (ops.take i)) := by
  induction ops generalizing d0 bs0 i with
  | nil => exact ⟨d0, by simp [runOk], by simpa [acked] using h0⟩
  | cons op ops ih =>
    cases i with
    | zero => exact ⟨d0, by simp [runOk], by simpa [acked] using h0⟩
    | succ i =>
      rw [runOk] at hr
      by_cases hok : ok d0 op = true
      · rw [if_pos hok] at hr
        obtain ⟨di, h1, h2⟩ := ih (apply d0 op) (bs0 ++ acked [op]) (step_safe d0 bs0 op h0 hok) hr i
          (by simpa using hi)
        refine ⟨di, ?_, ?_⟩
        · rw [List.take_succ_cons, runOk, if_pos hok]; exact h1
        · rw [List.take_succ_cons, acked_cons, ← List.append_assoc]; exact h2
      · rw [if_neg hok] at hr; cases hr

theorem fresh_safe (m w : Nat) :
    Safe (apply (apply (apply empty (.createManifest m))
      (.appendManifest m { walNumber := some w, added := [], deleted := [] })) (.setCurrent m)) [] := by
  have hd : apply (apply (apply empty (.createManifest m))
      (.appendManifest m { walNumber := some w, added := [], deleted := [] })) (.setCurrent m)
      = { current := some m, manifests := [(m, [{ walNumber := some w, added := [], deleted := [] }])],
          wals := [], tables := [] } := by
    simp [apply, empty, update, lookup]
  rw [hd]
  refine safe_intro ⟨by simp, by simp, by simp⟩ m { version := [], walNo := w, entries := [] } rfl ?_ ?_
  · rw [recoverFrom_eq_some]
    refine ⟨[{ walNumber := some w, added := [], deleted := [] }], w, ?_, ?_, ?_, ?_⟩
    · simp [lookup]
    · simp [walNoOf]
    · simp [versionOf]
    · simp [versionOf, tableFlat, walEntriesOf, sortWals]
  · intro k; simp [latest, newest, specOfBatches]

end Rain.Durable.Lemmas
