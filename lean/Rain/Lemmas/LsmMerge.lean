import Rain.Lemmas.LsmMove
/-
The merge of sorted inputs and the compaction drop rule.
-/
namespace Rain.Lsm.Lemmas
open Rain Rain.Lsm

/-! ### mergeTwo / mergeAll -/

theorem mem_mergeTwo {a b : List Entry} {x : Entry} : x ∈ mergeTwo a b ↔ x ∈ a ∨ x ∈ b := by
  fun_induction mergeTwo a b with
  | case1 bs => simp
  | case2 as h => simp
  | case3 a as b bs hlt ih =>
    simp only [List.mem_cons, ih]
    constructor
    · rintro (h | (h | h) | h)
      · exact Or.inr (Or.inl h)
      · exact Or.inl (Or.inl h)
      · exact Or.inl (Or.inr h)
      · exact Or.inr (Or.inr h)
    · rintro ((h | h) | (h | h))
      · exact Or.inr (Or.inl (Or.inl h))
      · exact Or.inr (Or.inl (Or.inr h))
      · exact Or.inl h
      · exact Or.inr (Or.inr h)
  | case4 a as b bs hlt ih =>
    simp only [List.mem_cons, ih]
    constructor
    · rintro (h | h | h | h)
      · exact Or.inl (Or.inl h)
      · exact Or.inl (Or.inr h)
      · exact Or.inr (Or.inl h)
      · exact Or.inr (Or.inr h)
    · rintro ((h | h) | (h | h))
      · exact Or.inl h
      · exact Or.inr (Or.inl h)
      · exact Or.inr (Or.inr (Or.inl h))
      · exact Or.inr (Or.inr (Or.inr h))

theorem mergeTwo_sorted {a b : List Entry} (ha : Sorted a) (hb : Sorted b)
    (hne : ∀ x ∈ a, ∀ y ∈ b, x.key ≠ y.key) : Sorted (mergeTwo a b) := by
  unfold Sorted at *
  fun_induction mergeTwo a b with
  | case1 bs => exact hb
  | case2 as h => exact ha
  | case3 a as b bs hlt ih =>
    have hpa := List.pairwise_cons.mp ha
    have hpb := List.pairwise_cons.mp hb
    refine List.Pairwise.cons ?_ (ih ha hpb.2 (fun x hx y hy => hne x hx y (List.mem_cons_of_mem _ hy)))
    intro x hx
    rcases mem_mergeTwo.mp hx with hx | hx
    · rcases List.mem_cons.mp hx with rfl | hx
      · exact hlt
      · exact ikLt_trans hlt (hpa.1 x hx)
    · exact hpb.1 x hx
  | case4 a as b bs hlt ih =>
    have hpa := List.pairwise_cons.mp ha
    have hpb := List.pairwise_cons.mp hb
    refine List.Pairwise.cons ?_ (ih hpa.2 hb (fun x hx y hy => hne x (List.mem_cons_of_mem _ hx) y hy))
    have hab : ikLt a b = true := by
      have hlt' : kLt b.key a.key = false := by simpa [ikLt] using hlt
      rcases k_st.lt_or_eq_of_le hlt' with h | h
      · exact h
      · exact absurd h (hne a (List.mem_cons_self ..) b (List.mem_cons_self ..))
    intro x hx
    rcases mem_mergeTwo.mp hx with hx | hx
    · exact hpa.1 x hx
    · rcases List.mem_cons.mp hx with rfl | hx
      · exact hab
      · exact ikLt_trans hab (hpb.1 x hx)

theorem mem_mergeAll {ls : List (List Entry)} {x : Entry} : x ∈ mergeAll ls ↔ ∃ l ∈ ls, x ∈ l := by
  induction ls with
  | nil => simp [mergeAll]
  | cons l ls ih => simp [mergeAll, mem_mergeTwo, ih]

theorem mergeAll_sorted {ls : List (List Entry)} (hs : ∀ l ∈ ls, Sorted l)
    (hp : ls.Pairwise (fun a b => ∀ x ∈ a, ∀ y ∈ b, x.key ≠ y.key)) : Sorted (mergeAll ls) := by
  induction ls with
  | nil => simp [mergeAll, Sorted]
  | cons l ls ih =>
    have hp' := List.pairwise_cons.mp hp
    simp only [mergeAll]
    apply mergeTwo_sorted (hs l (List.mem_cons_self ..))
      (ih (fun l' hl' => hs l' (List.mem_cons_of_mem _ hl')) hp'.2)
    intro x hx y hy
    obtain ⟨l', hl', hy'⟩ := mem_mergeAll.mp hy
    exact hp'.1 l' hl' x hx y hy'

/-! ### the drop rule -/

/-- "hidden by a newer entry of the same user key that is itself at or below the snapshot" -/
def rule1 (q : Nat) (prev : Option (Bytes × Nat)) (e : Entry) : Bool :=
  match prev with
  | some (pk, ps) => pk == e.ukey && decide (ps ≤ q)
  | none => false

/-- "tombstone at or below the snapshot with nothing underneath" -/
def rule2 (q : Nat) (isBase : Bytes → Bool) (e : Entry) : Bool :=
  !e.put && decide (e.seq ≤ q) && isBase e.ukey

theorem rule1_iff {q : Nat} {prev : Option (Bytes × Nat)} {e : Entry} :
    rule1 q prev e = true ↔ ∃ ps, prev = some (e.ukey, ps) ∧ ps ≤ q := by
  cases prev with
  | none => simp [rule1]
  | some p =>
    obtain ⟨pk, ps⟩ := p
    simp only [rule1, Bool.and_eq_true, beq_iff_eq, decide_eq_true_eq, Option.some.injEq,
      Prod.mk.injEq]
    constructor
    · rintro ⟨rfl, h⟩; exact ⟨ps, ⟨rfl, rfl⟩, h⟩
    · rintro ⟨ps', ⟨rfl, rfl⟩, h⟩; exact ⟨rfl, h⟩

theorem dropLoop_cons (q : Nat) (isBase : Bytes → Bool) (prev : Option (Bytes × Nat)) (e : Entry)
    (rest : List Entry) :
    dropLoop q isBase prev (e :: rest) =
      if rule1 q prev e || rule2 q isBase e then dropLoop q isBase (some (e.ukey, e.seq)) rest
      else e :: dropLoop q isBase (some (e.ukey, e.seq)) rest := by
  cases prev with
  | none => simp [dropLoop, rule1, rule2]
  | some p =>
    obtain ⟨pk, ps⟩ := p
    by_cases hk : pk = e.ukey <;> simp [dropLoop, rule1, rule2, hk]

theorem dropLoop_sublist (q : Nat) (isBase : Bytes → Bool) (prev : Option (Bytes × Nat))
    (l : List Entry) : (dropLoop q isBase prev l).Sublist l := by
  induction l generalizing prev with
  | nil => simp [dropLoop]
  | cons e rest ih =>
    rw [dropLoop_cons]
    split
    · exact (ih _).trans (List.sublist_cons_self ..)
    · exact (ih _).cons_cons _

/-- a kept entry has no newer entry of its user key at or below the snapshot in the input -/
theorem dropLoop_kept {q : Nat} {isBase : Bytes → Bool} {prev : Option (Bytes × Nat)}
    {l : List Entry} (hs : Sorted l)
    (hprev : ∀ p, prev = some p → ∀ x ∈ l, kLt p x.key = true) {e' : Entry}
    (he' : e' ∈ dropLoop q isBase prev l) :
    (∀ p ∈ l, p.ukey = e'.ukey → e'.seq < p.seq → q < p.seq) ∧
    (∀ ps, prev = some (e'.ukey, ps) → q < ps) ∧
    rule2 q isBase e' = false := by
  induction l generalizing prev with
  | nil => simp [dropLoop] at he'
  | cons e rest ih =>
    have hp := List.pairwise_cons.mp hs
    rw [dropLoop_cons] at he'
    have hprev' : ∀ p, some (e.ukey, e.seq) = some p → ∀ x ∈ rest, kLt p x.key = true := by
      intro p hp' x hx
      cases hp'
      exact hp.1 x hx
    -- the case where `e'` comes from the tail
    have tailCase : e' ∈ dropLoop q isBase (some (e.ukey, e.seq)) rest →
        (∀ p ∈ e :: rest, p.ukey = e'.ukey → e'.seq < p.seq → q < p.seq) ∧
        (∀ ps, prev = some (e'.ukey, ps) → q < ps) ∧ rule2 q isBase e' = false := by
      intro hmem
      have hm' : e' ∈ rest := (dropLoop_sublist _ _ _ _).subset hmem
      obtain ⟨h1, h2, h3⟩ := ih hp.2 hprev' hmem
      have hee' : ikLt e e' = true := hp.1 e' hm'
      refine ⟨?_, ?_, h3⟩
      · intro p hpm hk hsq
        rcases List.mem_cons.mp hpm with rfl | hpm
        · exact h2 p.seq (by rw [hk])
        · exact h1 p hpm hk hsq
      · intro ps hps
        have hlt := hprev _ hps e (List.mem_cons_self ..)
        -- (e'.ukey, ps) < e.key < e'.key
        have hk : e.ukey = e'.ukey := kLt_sandwich (a := (e'.ukey, ps)) hlt hee' rfl
        have h4 := h2 e.seq (by rw [hk])
        have : e.seq < ps := by
          have := (kLt_same' (a := (e'.ukey, ps)) (b := e.key) (by simp [Entry.key, hk])).mp hlt
          simpa [Entry.key] using this
        omega
    split at he'
    · exact tailCase he'
    · rename_i hnd
      rcases List.mem_cons.mp he' with rfl | hmem
      · simp only [Bool.or_eq_true, not_or, Bool.not_eq_true] at hnd
        refine ⟨?_, ?_, hnd.2⟩
        · intro p hpm hk hsq
          rcases List.mem_cons.mp hpm with rfl | hpm
          · omega
          · have := seq_lt_of_ikLt (hp.1 p hpm) hk.symm
            omega
        · intro ps hps
          have h1 := hnd.1
          have : ¬ (∃ ps, prev = some (e'.ukey, ps) ∧ ps ≤ q) := by
            rw [← rule1_iff]; simp [h1]
          apply Classical.byContradiction
          intro hn
          exact this ⟨ps, hps, by omega⟩
      · exact tailCase hmem

/-- why an input entry is missing from the output -/
theorem dropLoop_dropped {q : Nat} {isBase : Bytes → Bool} {prev : Option (Bytes × Nat)}
    {l : List Entry} (hs : Sorted l) {e : Entry} (he : e ∈ l)
    (hne : e ∉ dropLoop q isBase prev l) :
    (∃ p ∈ l, p.ukey = e.ukey ∧ e.seq < p.seq ∧ p.seq ≤ q) ∨
    (∃ ps, prev = some (e.ukey, ps) ∧ ps ≤ q) ∨ rule2 q isBase e = true := by
  induction l generalizing prev with
  | nil => cases he
  | cons a rest ih =>
    have hp := List.pairwise_cons.mp hs
    rw [dropLoop_cons] at hne
    have tailCase : e ∈ rest → e ∉ dropLoop q isBase (some (a.ukey, a.seq)) rest →
        (∃ p ∈ a :: rest, p.ukey = e.ukey ∧ e.seq < p.seq ∧ p.seq ≤ q) ∨
        (∃ ps, prev = some (e.ukey, ps) ∧ ps ≤ q) ∨ rule2 q isBase e = true := by
      intro hm hn
      rcases ih hp.2 hm hn with ⟨p, hpm, h1, h2, h3⟩ | ⟨ps, hps, hle⟩ | h
      · exact Or.inl ⟨p, List.mem_cons_of_mem _ hpm, h1, h2, h3⟩
      · simp only [Option.some.injEq, Prod.mk.injEq] at hps
        refine Or.inl ⟨a, List.mem_cons_self .., hps.1, ?_, by omega⟩
        exact seq_lt_of_ikLt (hp.1 e hm) hps.1
      · exact Or.inr (Or.inr h)
    split at hne
    · rename_i hd
      rcases List.mem_cons.mp he with rfl | hm
      · simp only [Bool.or_eq_true] at hd
        rcases hd with hd | hd
        · exact Or.inr (Or.inl (rule1_iff.mp hd))
        · exact Or.inr (Or.inr hd)
      · exact tailCase hm hne
    · rcases List.mem_cons.mp he with rfl | hm
      · exact absurd (List.mem_cons_self ..) hne
      · exact tailCase hm (fun h => hne (List.mem_cons_of_mem _ h))

end Rain.Lsm.Lemmas
