import Rain.Grandparent
/-
Helper lemmas for `Rain/Props/Grandparent.lean`.
-/
namespace Rain.Grandparent.Lemmas
open Rain Rain.Lsm Rain.Grandparent

theorem advance_spec (size : Nat → Nat) (key : Bytes × Nat) (c : Bool) (rest : List File) (i b : Nat) :
    i ≤ (advance size key c rest i b).1 ∧ (advance size key c rest i b).1 ≤ i + rest.length ∧
    b ≤ (advance size key c rest i b).2 ∧
    (advance size key c rest i b).2 ≤ b + sumSizes size (rest.take ((advance size key c rest i b).1 - i)) := by
  induction rest generalizing i b with
  | nil => simp [advance, sumSizes]
  | cons g rest ih =>
    simp only [advance]
    split
    · have hb : b ≤ (if c = true then b + size g.num else b) ∧
          (if c = true then b + size g.num else b) ≤ b + size g.num := by split <;> omega
      generalize (if c = true then b + size g.num else b) = b' at hb ⊢
      obtain ⟨h1, h2, h3, h4⟩ := ih (i + 1) b'
      generalize hr : advance size key c rest (i + 1) b' = r at h1 h2 h3 h4 ⊢
      refine ⟨by omega, by simp only [List.length_cons]; omega, by omega, ?_⟩
      have e : r.1 - i = (r.1 - (i + 1)) + 1 := by omega
      rw [e, List.take_succ_cons]
      simp only [sumSizes, List.map_cons, List.sum_cons] at h4 ⊢
      omega
    · simp [sumSizes]

theorem sumSizes_take_le (size : Nat → Nat) (gps : List File) (i : Nat) :
    sumSizes size (gps.take i) ≤ sumSizes size gps := by
  have h : sumSizes size gps = sumSizes size (gps.take i) + sumSizes size (gps.drop i) := by
    unfold sumSizes
    rw [← List.sum_append, ← List.map_append, List.take_append_drop]
  omega

/-- what every reachable state of the rule satisfies, with `stops` = "stop" answers so far -/
structure GInv (gps : List File) (size : Nat → Nat) (limit : Nat) (st : GpState) (stops : Nat) : Prop where
  bound : st.idx ≤ gps.length
  budget : stops * (limit + 1) + st.bytes ≤ sumSizes size (gps.take st.idx)

theorem sumSizes_take_add (size : Nat → Nat) (gps : List File) (i n : Nat) :
    sumSizes size (gps.take (i + n)) = sumSizes size (gps.take i) + sumSizes size ((gps.drop i).take n) := by
  rw [List.take_add]
  simp [sumSizes, List.map_append, List.sum_append]

theorem shouldStop_inv (gps : List File) (size : Nat → Nat) (limit : Nat) (st : GpState) (e : Entry)
    (stops : Nat) (h : GInv gps size limit st stops) :
    GInv gps size limit (shouldStop gps size limit st e).2
      (stops + if (shouldStop gps size limit st e).1 then 1 else 0) := by
  obtain ⟨h1, h2, h3, h4⟩ := advance_spec size e.key st.overlapping (gps.drop st.idx) st.idx st.bytes
  have hlen : (gps.drop st.idx).length = gps.length - st.idx := List.length_drop
  have hb := h.bound
  have hbud := h.budget
  generalize hr : advance size e.key st.overlapping (gps.drop st.idx) st.idx st.bytes = r at h1 h2 h3 h4
  have hsplit : sumSizes size (gps.take r.1) =
      sumSizes size (gps.take st.idx) + sumSizes size ((gps.drop st.idx).take (r.1 - st.idx)) := by
    have : r.1 = st.idx + (r.1 - st.idx) := by omega
    conv => lhs; rw [this]
    exact sumSizes_take_add size gps st.idx (r.1 - st.idx)
  unfold shouldStop
  simp only [hr]
  split
  · rename_i hlt
    refine ⟨by simp only; omega, ?_⟩
    simp only [if_true]
    rw [hsplit]
    have : (stops + 1) * (limit + 1) = stops * (limit + 1) + (limit + 1) := by
      rw [Nat.add_mul]; simp
    omega
  · refine ⟨by simp only; omega, ?_⟩
    simp only [Bool.false_eq_true, if_false, Nat.add_zero]
    rw [hsplit]
    omega

theorem answers_inv (gps : List File) (size : Nat → Nat) (limit : Nat) (es : List Entry)
    (st : GpState) (stops : Nat) (h : GInv gps size limit st stops) :
    (stops + ((answers gps size limit st es).filter id).length) * (limit + 1) ≤ sumSizes size gps := by
  induction es generalizing st stops with
  | nil =>
    simp only [answers, List.filter_nil, List.length_nil, Nat.add_zero]
    have h1 := h.budget
    have h2 := sumSizes_take_le size gps st.idx
    omega
  | cons e es ih =>
    have hi := shouldStop_inv gps size limit st e stops h
    have := ih _ _ hi
    simp only [answers, List.filter_cons]
    cases hb : (shouldStop gps size limit st e).1 with
    | true =>
      rw [hb] at this
      simp only [id, if_true, List.length_cons] at this ⊢
      rw [show stops + ((List.filter id (answers gps size limit (shouldStop gps size limit st e).2 es)).length + 1) =
        stops + 1 + (List.filter id (answers gps size limit (shouldStop gps size limit st e).2 es)).length by omega]
      exact this
    | false =>
      rw [hb] at this
      simp only [id, Bool.false_eq_true, if_false, Nat.add_zero] at this ⊢
      exact this

theorem init_inv (gps : List File) (size : Nat → Nat) (limit : Nat) :
    GInv gps size limit GpState.init 0 :=
  ⟨Nat.zero_le _, by simp [GpState.init, sumSizes]⟩

end Rain.Grandparent.Lemmas
