import Rain.Lsm
/-
Order facts: `bytesLt` and `kLt` are strict total orders; `sortedE` as `Pairwise`.
-/
namespace Rain.OrderIter
open Rain Rain.Lsm

theorem cmpBytes_lt_irrefl (a : Bytes) : cmpBytes a a ≠ .lt := by
  induction a with
  | nil => simp [cmpBytes]
  | cons x xs ih => simp [cmpBytes, ih]

theorem cmpBytes_eq (a b : Bytes) : cmpBytes a b = .eq ↔ a = b := by
  induction a generalizing b with
  | nil => cases b <;> simp [cmpBytes]
  | cons x xs ih =>
    cases b with
    | nil => simp [cmpBytes]
    | cons y ys =>
      simp only [cmpBytes]
      split
      · rename_i h; simp; intro h2; subst h2; omega
      · split
        · rename_i h; simp; intro h2; subst h2; omega
        · rename_i h1 h2
          have : x = y := UInt8.toNat_inj.mp (by omega)
          simp [ih, this]

theorem cmpBytes_gt (a b : Bytes) : cmpBytes a b = .gt ↔ cmpBytes b a = .lt := by
  induction a generalizing b with
  | nil => cases b <;> simp [cmpBytes]
  | cons x xs ih =>
    cases b with
    | nil => simp [cmpBytes]
    | cons y ys =>
      simp only [cmpBytes]
      by_cases h1 : x.toNat < y.toNat
      · have : ¬ y.toNat < x.toNat := by omega
        simp [h1, this]
      · by_cases h2 : y.toNat < x.toNat
        · simp [h1, h2]
        · simp [h1, h2, ih]

theorem cmpBytes_lt_trans (a b c : Bytes) : cmpBytes a b = .lt → cmpBytes b c = .lt → cmpBytes a c = .lt := by
  induction a generalizing b c with
  | nil => cases b <;> cases c <;> simp [cmpBytes]
  | cons x xs ih =>
    cases b with
    | nil => simp [cmpBytes]
    | cons y ys =>
      cases c with
      | nil => simp [cmpBytes]
      | cons z zs =>
        simp only [cmpBytes]
        by_cases h1 : x.toNat < y.toNat
        · by_cases h2 : y.toNat < z.toNat
          · have : x.toNat < z.toNat := by omega
            simp [this]
          · by_cases h3 : z.toNat < y.toNat
            · simp [h2, h3]
            · have : x.toNat < z.toNat := by omega
              simp [this]
        · by_cases h2 : y.toNat < x.toNat
          · simp [h1, h2]
          · simp only [h1, h2, if_false]
            have hxy : x.toNat = y.toNat := by omega
            by_cases h3 : y.toNat < z.toNat
            · have : x.toNat < z.toNat := by omega
              simp [this]
            · by_cases h4 : z.toNat < y.toNat
              · simp [h3, h4]
              · have h5 : ¬ x.toNat < z.toNat := by omega
                have h6 : ¬ z.toNat < x.toNat := by omega
                simp only [h3, h4, h5, h6, if_false]
                exact ih ys zs

theorem bLt_irrefl (a : Bytes) : bytesLt a a = false := by
  simp [bytesLt, cmpBytes_lt_irrefl]

theorem bLt_trans {a b c : Bytes} (h1 : bytesLt a b = true) (h2 : bytesLt b c = true) : bytesLt a c = true := by
  simp only [bytesLt, beq_iff_eq] at *
  exact cmpBytes_lt_trans a b c h1 h2

theorem bLt_total {a b : Bytes} (h1 : bytesLt a b = false) (h2 : bytesLt b a = false) : a = b := by
  simp only [bytesLt, beq_eq_false_iff_ne, ne_eq] at *
  rw [← cmpBytes_gt] at h2
  apply (cmpBytes_eq a b).mp
  cases h : cmpBytes a b <;> simp_all

theorem bLt_asymm {a b : Bytes} (h1 : bytesLt a b = true) : bytesLt b a = false := by
  cases h : bytesLt b a
  · rfl
  · have := bLt_trans h1 h; simp [bLt_irrefl] at this

theorem bLt_ne {a b : Bytes} (h1 : bytesLt a b = true) : a ≠ b := by
  intro h; subst h; simp [bLt_irrefl] at h1

/-- `a ≤ b < c` -/
theorem bLt_of_not_lt_of_lt {a b c : Bytes} (h1 : bytesLt b a = false) (h2 : bytesLt b c = true) : bytesLt a c = true := by
  cases h : bytesLt a b
  · have := bLt_total h h1; subst this; exact h2
  · exact bLt_trans h h2

theorem bLt_of_lt_of_not_lt {a b c : Bytes} (h1 : bytesLt a b = true) (h2 : bytesLt c b = false) : bytesLt a c = true := by
  cases h : bytesLt b c
  · have := bLt_total h h2; subst this; exact h1
  · exact bLt_trans h1 h

/-! ### kLt -/

theorem kLt_iff (a b : Bytes × Nat) : kLt a b = true ↔ (bytesLt a.1 b.1 = true ∨ (a.1 = b.1 ∧ b.2 < a.2)) := by
  simp [kLt]

theorem kLt_irrefl (a : Bytes × Nat) : kLt a a = false := by
  cases h : kLt a a
  · rfl
  · rw [kLt_iff] at h
    rcases h with h | h
    · simp [bLt_irrefl] at h
    · omega

theorem kLt_trans {a b c : Bytes × Nat} (h1 : kLt a b = true) (h2 : kLt b c = true) : kLt a c = true := by
  rw [kLt_iff] at *
  rcases h1 with h1 | ⟨h1, h1'⟩
  · rcases h2 with h2 | ⟨h2, h2'⟩
    · exact .inl (bLt_trans h1 h2)
    · rw [← h2]; exact .inl h1
  · rcases h2 with h2 | ⟨h2, h2'⟩
    · rw [h1]; exact .inl h2
    · right; exact ⟨h1.trans h2, by omega⟩

theorem kLt_total {a b : Bytes × Nat} (h1 : kLt a b = false) (h2 : kLt b a = false) : a = b := by
  have e1 : ¬ (bytesLt a.1 b.1 = true ∨ (a.1 = b.1 ∧ b.2 < a.2)) := by rw [← kLt_iff]; simp [h1]
  have e2 : ¬ (bytesLt b.1 a.1 = true ∨ (b.1 = a.1 ∧ a.2 < b.2)) := by rw [← kLt_iff]; simp [h2]
  have f1 : bytesLt a.1 b.1 = false := by cases h : bytesLt a.1 b.1 <;> simp_all
  have f2 : bytesLt b.1 a.1 = false := by cases h : bytesLt b.1 a.1 <;> simp_all
  have e := bLt_total f1 f2
  have : a.2 = b.2 := by
    have g1 : ¬ b.2 < a.2 := fun h => e1 (.inr ⟨e, h⟩)
    have g2 : ¬ a.2 < b.2 := fun h => e2 (.inr ⟨e.symm, h⟩)
    omega
  exact Prod.ext e this

theorem kLt_asymm {a b : Bytes × Nat} (h1 : kLt a b = true) : kLt b a = false := by
  cases h : kLt b a
  · rfl
  · have := kLt_trans h1 h; simp [kLt_irrefl] at this

theorem kLt_ne {a b : Bytes × Nat} (h1 : kLt a b = true) : a ≠ b := by
  intro h; subst h; simp [kLt_irrefl] at h1

theorem kLt_of_not_lt_of_lt {a b c : Bytes × Nat} (h1 : kLt b a = false) (h2 : kLt b c = true) : kLt a c = true := by
  cases h : kLt a b
  · have := kLt_total h h1; subst this; exact h2
  · exact kLt_trans h h2

theorem kLt_of_lt_of_not_lt {a b c : Bytes × Nat} (h1 : kLt a b = true) (h2 : kLt c b = false) : kLt a c = true := by
  cases h : kLt b c
  · have := kLt_total h h2; subst this; exact h1
  · exact kLt_trans h1 h

/-! ### sortedness -/

/-- strictly sorted by internal key, as a `Pairwise` -/
def Sorted (es : List Entry) : Prop := es.Pairwise (fun a b => kLt a.key b.key = true)

theorem sorted_cons {a : Entry} {es : List Entry} :
    Sorted (a :: es) ↔ (∀ b ∈ es, kLt a.key b.key = true) ∧ Sorted es := by
  simp [Sorted]

theorem sortedE_iff (es : List Entry) : sortedE es = true ↔ Sorted es := by
  induction es with
  | nil => simp [sortedE, Sorted]
  | cons a rest ih =>
    cases rest with
    | nil => simp [sortedE, Sorted]
    | cons b rest =>
      simp only [sortedE, Bool.and_eq_true, ih, sorted_cons, ikLt]
      constructor
      · rintro ⟨h1, h2, h3⟩
        refine ⟨?_, h2, h3⟩
        intro x hx
        rcases List.mem_cons.mp hx with rfl | hx
        · exact h1
        · exact kLt_trans h1 (h2 x hx)
      · rintro ⟨h1, h2, h3⟩
        exact ⟨h1 b (by simp), h2, h3⟩

/-- in a sorted list equal keys mean equal entries -/
theorem sorted_key_inj {es : List Entry} (hs : Sorted es) {a b : Entry} (ha : a ∈ es) (hb : b ∈ es)
    (h : a.key = b.key) : a = b := by
  induction es with
  | nil => simp at ha
  | cons x rest ih =>
    rw [sorted_cons] at hs
    rcases List.mem_cons.mp ha with ha | ha <;> rcases List.mem_cons.mp hb with hb | hb
    · rw [ha, hb]
    · have := hs.1 b hb; rw [← ha, h, kLt_irrefl] at this; simp at this
    · have := hs.1 a ha; rw [← hb, h, kLt_irrefl] at this; simp at this
    · exact ih hs.2 ha hb

end Rain.OrderIter
