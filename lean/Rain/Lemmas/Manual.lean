import Rain.Manual
import Rain.Lemmas.PickSetup
import Rain.Lemmas.LsmCompact
import Rain.Lemmas.FlushLevel
/-
Helper lemmas for the manual-compaction model (`Rain/Manual.lean`).
-/
namespace Rain.Manual.Lemmas
open Rain Rain.Lsm Rain.Lsm.Lemmas Rain.Manual Rain.FlushLevel Rain.FlushLevel.Lemmas Rain.BinSearch
  Rain.Table.Lemmas

/-! ### the size cut is a non-empty prefix -/

theorem sizeCut_eq_take (size : Nat → Nat) (limit : Nat) (acc : Nat) (xs : List File) :
    ∃ n, sizeCut size limit acc xs = xs.take n ∧ (xs ≠ [] → 0 < n) := by
  induction xs generalizing acc with
  | nil => exact ⟨0, rfl, fun h => absurd rfl h⟩
  | cons f fs ih =>
    simp only [sizeCut]
    split
    · exact ⟨1, by simp, fun _ => Nat.one_pos⟩
    · obtain ⟨n, hn, _⟩ := ih (acc + size f.num)
      exact ⟨n + 1, by simp [hn], fun _ => Nat.succ_pos n⟩

theorem sizeCut_ne_nil (size : Nat → Nat) (limit : Nat) (acc : Nat) {xs : List File} (h : xs ≠ []) :
    sizeCut size limit acc xs ≠ [] := by
  cases xs with
  | nil => exact absurd rfl h
  | cons f fs => simp only [sizeCut]; split <;> simp

theorem sizeCut_sublist (size : Nat → Nat) (limit : Nat) (acc : Nat) (xs : List File) :
    (sizeCut size limit acc xs).Sublist xs := by
  obtain ⟨n, hn, _⟩ := sizeCut_eq_take size limit acc xs
  rw [hn]; exact List.take_sublist n xs

/-! ### the request after a round -/

@[simp] theorem manualAdvance_level (m : ManualReq) (sel : Option (List File × List File)) :
    (manualAdvance m sel).level = m.level := by
  cases sel with
  | none => rfl
  | some sel =>
    simp only [manualAdvance]
    split <;> rfl

/-! ### the level of a compaction loses its inputs and gains nothing -/

theorem lv_foldAdd_ne (outs : List File) (Lc : List (List File)) {t j : Nat} (h : j ≠ t) :
    lv (outs.foldl (fun ls f => addToLevel ls t f) Lc) j = lv Lc j := by
  induction outs generalizing Lc with
  | nil => rfl
  | cons o outs ih =>
    simp only [List.foldl_cons]
    rw [ih, lv_addToLevel_ne Lc o h]

theorem lv_after_compact {s s' : State} {c : Compaction} (hs : stepCompact s c = some s') :
    lv s'.levels c.level = unpick (lv s.levels c.level) c.inputs0 := by
  obtain ⟨_, rfl⟩ := compact_cases hs
  show lv (cL' s c) c.level = _
  unfold cL'
  rw [lv_foldAdd_ne _ _ (by omega : c.level ≠ c.level + 1)]
  unfold cL2
  rw [lv_removeNums, if_neg (by omega), lv_removeNums, if_pos rfl]

theorem pick_length_add_unpick (fs : List File) (nums : List Nat) :
    (pick fs nums).length + (unpick fs nums).length = fs.length := by
  induction fs with
  | nil => rfl
  | cons f fs ih =>
    unfold pick unpick at ih ⊢
    rw [List.filter_cons, List.filter_cons]
    cases h : nums.contains f.num
    · simp only [Bool.false_eq_true, if_false, Bool.not_false, if_true, List.length_cons]; omega
    · simp only [if_true, Bool.not_true, Bool.false_eq_true, if_false, List.length_cons]; omega

theorem level_shrinks {s s' : State} {c : Compaction} (hs : stepCompact s c = some s') :
    (lv s'.levels c.level).length < (lv s.levels c.level).length := by
  rw [lv_after_compact hs]
  obtain ⟨hv, _⟩ := compact_cases hs
  have hne : (pick (lv s.levels c.level) c.inputs0).isEmpty = false := by
    have := hv
    unfold validCompaction at this
    simp only [Bool.and_eq_true] at this
    have h2 := this.1.1.1.1.1.1.1.1.1.1.2
    simpa [lv] using h2
  have hl := pick_length_add_unpick (lv s.levels c.level) c.inputs0
  have : 0 < (pick (lv s.levels c.level) c.inputs0).length := by
    cases hp : pick (lv s.levels c.level) c.inputs0 with
    | nil => rw [hp] at hne; cases hne
    | cons a l => simp
  omega

/-! ### a fresh file number -/

theorem le_sum_of_mem {l : List Nat} {n : Nat} (h : n ∈ l) : n ≤ l.sum := by
  induction l with
  | nil => cases h
  | cons a l ih =>
    rcases List.mem_cons.mp h with rfl | h
    · simp
    · have := ih h
      simp only [List.sum_cons]; omega

theorem fresh_not_mem (l : List Nat) : (l.sum + 1) ∉ l := fun h => by
  have := le_sum_of_mem h; omega

/-! ### the selection loop of `maxLevelWithOverlap` -/

theorem foldl_pick_mem (p : Nat → Bool) (xs : List Nat) (init : Nat) :
    xs.foldl (fun best l => if p l then l else best) init = init ∨
      xs.foldl (fun best l => if p l then l else best) init ∈ xs := by
  induction xs generalizing init with
  | nil => exact Or.inl rfl
  | cons x xs ih =>
    simp only [List.foldl_cons]
    rcases ih (if p x then x else init) with h | h
    · rw [h]
      split
      · exact Or.inr (List.mem_cons_self ..)
      · exact Or.inl rfl
    · exact Or.inr (List.mem_cons_of_mem _ h)

/-- over an ascending list the loop ends at or above every element that satisfies the test -/
theorem foldl_pick_ge (p : Nat → Bool) (xs : List Nat) (hs : xs.Pairwise (· < ·)) (init : Nat)
    {x : Nat} (hx : x ∈ xs) (hp : p x = true) :
    x ≤ xs.foldl (fun best l => if p l then l else best) init := by
  induction xs generalizing init with
  | nil => cases hx
  | cons a rest ih =>
    simp only [List.foldl_cons]
    have hs' := List.pairwise_cons.mp hs
    rcases List.mem_cons.mp hx with rfl | hx'
    · rw [if_pos hp]
      rcases foldl_pick_mem p rest x with h | h
      · rw [h]; exact Nat.le_refl _
      · exact Nat.le_of_lt (hs'.1 _ h)
    · exact ih hs'.2 _ hx'

/-! ### the overlap test with optional bounds -/

/-- with both bounds given it is the function `pick_level_for_memtable_output` uses -/
theorem someFileOverlapsO_some (disjoint : Bool) (fs : List File) (lo hi : Bytes) :
    someFileOverlapsO disjoint fs (some lo) (some hi) = someFileOverlaps disjoint fs lo hi := by
  unfold someFileOverlapsO someFileOverlaps
  rfl

theorem inRange_some_some (g : File) (lo hi : Bytes) :
    inRange g (some lo) (some hi) = userRangeOverlaps g lo hi := by
  simp only [inRange, beforeRange, afterRange, userRangeOverlaps]
  cases bytesLt g.largest.1 lo <;> cases bytesLt hi g.smallest.1 <;> rfl

/-- **`some_file_overlaps_range` = false is sound for every combination of open and closed
bounds**: then no file of the level meets the range -/
theorem no_overlap_of_falseO {disjoint : Bool} {fs : List File} {lo hi : Option Bytes}
    (hf : ∀ f ∈ fs, FileOk f) (hl : disjoint = true → LevelOk fs)
    (hseq : ∀ f ∈ fs, f.largest.2 ≤ maxSeqNo)
    (h : someFileOverlapsO disjoint fs lo hi = false) : ∀ g ∈ fs, inRange g lo hi = false := by
  cases lo with
  | some l =>
    cases hi with
    | some u =>
      rw [someFileOverlapsO_some] at h
      intro g hg
      rw [inRange_some_some]
      exact no_overlap_of_false hf hl hseq h g hg
    | none =>
      unfold someFileOverlapsO at h
      by_cases he : fs.isEmpty = true
      · intro g hg; have : fs = [] := List.isEmpty_iff.mp he; subst this; cases hg
      · rw [if_neg he] at h
        cases disjoint with
        | false =>
          simp only [Bool.not_false, if_true, List.any_eq_false, Bool.or_false] at h
          intro g hg
          have := h g hg
          simp only [inRange, beforeRange, afterRange, Bool.or_false]
          simpa using this
        | true =>
          simp only [Bool.not_true, Bool.false_eq_true, if_false] at h
          rcases findFile_spec hf (hl rfl) (l, maxSeqNo) with ⟨hn, hall⟩ | ⟨i, hi', hs, _, _⟩
          · intro g hg
            have := hall g hg
            rw [kLt_seek_iff (hseq g hg)] at this
            simp [inRange, beforeRange, this]
          · rw [hs] at h; cases h
  | none =>
    unfold someFileOverlapsO at h
    by_cases he : fs.isEmpty = true
    · intro g hg; have : fs = [] := List.isEmpty_iff.mp he; subst this; cases hg
    · rw [if_neg he] at h
      cases disjoint with
      | false =>
        simp only [Bool.not_false, if_true, List.any_eq_false, Bool.false_or] at h
        intro g hg
        have := h g hg
        cases hi with
        | none => simp at this
        | some u =>
          simp only [inRange, beforeRange, afterRange, Bool.false_or]
          simpa using this
      | true =>
        simp only [Bool.not_true, Bool.false_eq_true, if_false] at h
        cases hi with
        | none => cases h
        | some u =>
          cases fs with
          | nil => exact absurd rfl he
          | cons f0 rest =>
            simp only [List.getElem?_cons_zero, Bool.not_eq_false'] at h
            intro g hg
            have hafter : bytesLt u g.smallest.1 = true := by
              rcases List.mem_cons.mp hg with rfl | hg'
              · exact h
              · have hlt : kLt f0.largest g.smallest = true :=
                  (List.pairwise_cons.mp (hl rfl)).1 g hg'
                have h1 : bytesLt g.smallest.1 f0.largest.1 = false := kLt_fst_le hlt
                have h2 : bytesLt f0.largest.1 f0.smallest.1 = false :=
                  (hf f0 (List.mem_cons_self ..)).ufst_le
                exact bytes_st.lt_of_lt_of_le (bytes_st.lt_of_lt_of_le h h2) h1
            simp [inRange, beforeRange, afterRange, hafter]

end Rain.Manual.Lemmas
