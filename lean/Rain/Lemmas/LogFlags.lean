import Rain.LogFlags
import Rain.Lemmas.LogClean
/-
Lemmas for `Rain/LogFlags.lean`, part 1 (arbitrary bytes):

* `readAllF` erases to `readAllS` (same records, same clean flag);
* the two status flags of `readAllF` are computed by a single flat loop `flatRun` over the
  fragments of the file (no record assembly, no nesting of `read_record` calls) — a proof device;
* on the flat loop: the corruption flag is sticky, a clean end excludes corruption, appending
  bytes to the input never clears the flag (so cutting a file never sets it), and a prefix that
  reads cleanly is passed through without leaving any state behind.
-/
namespace Rain.Log
open Rain

/-! ### unfolding equations -/

theorem readRecordLoopF_zero (c : Cfg) (rest : Bytes) (boff : Nat) (acc : Bytes) (frag sk co : Bool) :
    readRecordLoopF c 0 rest boff acc frag sk co = .eof false co := rfl

theorem readRecordLoopF_succ (c : Cfg) (fuel : Nat) (rest : Bytes) (boff : Nat) (acc : Bytes)
    (frag sk co : Bool) :
    readRecordLoopF c (fuel+1) rest boff acc frag sk co =
    match readPhysical c rest boff with
    | .eof => .eof ((leftoverS c rest boff).isEmpty && !frag && !sk) co
    | .bad rest' boff' => readRecordLoopF c fuel rest' boff' [] false true true
    | .ok ty data rest' boff' =>
      if ty = TFull then .record data rest' boff' (sk || frag) (co || frag)
      else if ty = TFirst then readRecordLoopF c fuel rest' boff' data true (sk || frag) (co || frag)
      else if ty = TMiddle then
        (if frag then readRecordLoopF c fuel rest' boff' (acc ++ data) true sk co
         else readRecordLoopF c fuel rest' boff' [] false true true)
      else
        (if frag then .record (acc ++ data) rest' boff' sk co
         else readRecordLoopF c fuel rest' boff' [] false true true) := by
  rw [readRecordLoopF]
  rfl

theorem readAllLoopF_zero (c : Cfg) (rest : Bytes) (boff : Nat) (sk co : Bool) :
    readAllLoopF c 0 rest boff sk co = ([], false, co) := rfl

theorem readAllLoopF_succ (c : Cfg) (fuel : Nat) (rest : Bytes) (boff : Nat) (sk co : Bool) :
    readAllLoopF c (fuel+1) rest boff sk co =
    match readRecordLoopF c (rest.length + 1) rest boff [] false sk co with
    | .eof clean corrupt => ([], clean, corrupt)
    | .record d rest' boff' sk' co' =>
      (d :: (readAllLoopF c fuel rest' boff' sk' co').1, (readAllLoopF c fuel rest' boff' sk' co').2.1,
        (readAllLoopF c fuel rest' boff' sk' co').2.2) := by
  rw [readAllLoopF]
  rfl

/-! ### the reader with both flags erases to the reader with the clean flag -/

def RResF.toS : RResF → RResS
  | .eof cl _ => .eof cl
  | .record d r b sk _ => .record d r b sk

theorem readRecordLoopF_toS (c : Cfg) (fuel : Nat) : ∀ (rest : Bytes) (boff : Nat) (acc : Bytes)
    (frag sk co : Bool),
    (readRecordLoopF c fuel rest boff acc frag sk co).toS = readRecordLoopS c fuel rest boff acc frag sk := by
  induction fuel with
  | zero => intros; rfl
  | succ fuel ih =>
    intro rest boff acc frag sk co
    rw [readRecordLoopF_succ, readRecordLoopS_succ]
    cases readPhysical c rest boff with
    | eof => rfl
    | bad r b => exact ih _ _ _ _ _ _
    | ok ty d r b =>
      simp only
      split
      · rfl
      · split
        · exact ih _ _ _ _ _ _
        · split
          · split
            · exact ih _ _ _ _ _ _
            · exact ih _ _ _ _ _ _
          · split
            · rfl
            · exact ih _ _ _ _ _ _

theorem readAllLoopF_toS (c : Cfg) (fuel : Nat) : ∀ (rest : Bytes) (boff : Nat) (sk co : Bool),
    (readAllLoopF c fuel rest boff sk co).1 = (readAllLoopS c fuel rest boff sk).1 ∧
    (readAllLoopF c fuel rest boff sk co).2.1 = (readAllLoopS c fuel rest boff sk).2 := by
  induction fuel with
  | zero => intros; exact ⟨rfl, rfl⟩
  | succ fuel ih =>
    intro rest boff sk co
    rw [readAllLoopF_succ, readAllLoopS_succ, ← readRecordLoopF_toS c _ rest boff [] false sk co]
    cases readRecordLoopF c (rest.length + 1) rest boff [] false sk co with
    | eof cl cr => exact ⟨rfl, rfl⟩
    | record d r b s t =>
      simp only [RResF.toS]
      exact ⟨by rw [(ih r b s t).1], (ih r b s t).2⟩

theorem readAllF_toS (c : Cfg) (file : Bytes) :
    (readAllF c file).1 = (readAllS c file).1 ∧ (readAllF c file).2.1 = (readAllS c file).2 :=
  readAllLoopF_toS c _ file 0 false false

/-! ### the flat loop -/

/-- effect of one well-formed fragment of type `ty` on (pending, skipped, corrupted) -/
def stepF (frag sk co : Bool) (ty : Nat) : Bool × Bool × Bool :=
  if ty = TFull then (false, sk || frag, co || frag)
  else if ty = TFirst then (true, sk || frag, co || frag)
  else if ty = TMiddle then (if frag then (true, sk, co) else (false, true, true))
  else (if frag then (false, sk, co) else (false, true, true))

/-- (clean, corrupted) at the end of the file, fragment by fragment -/
def flatRun (c : Cfg) : Nat → Bytes → Nat → Bool → Bool → Bool → Bool × Bool
  | 0, _, _, _, _, co => (false, co)
  | fuel+1, rest, boff, frag, sk, co =>
    match readPhysical c rest boff with
    | .eof => ((leftoverS c rest boff).isEmpty && !frag && !sk, co)
    | .bad r b => flatRun c fuel r b false true true
    | .ok ty _ r b =>
      flatRun c fuel r b (stepF frag sk co ty).1 (stepF frag sk co ty).2.1 (stepF frag sk co ty).2.2

theorem flatRun_zero (c : Cfg) (rest : Bytes) (boff : Nat) (frag sk co : Bool) :
    flatRun c 0 rest boff frag sk co = (false, co) := rfl

theorem flatRun_succ (c : Cfg) (fuel : Nat) (rest : Bytes) (boff : Nat) (frag sk co : Bool) :
    flatRun c (fuel+1) rest boff frag sk co =
    match readPhysical c rest boff with
    | .eof => ((leftoverS c rest boff).isEmpty && !frag && !sk, co)
    | .bad r b => flatRun c fuel r b false true true
    | .ok ty _ r b =>
      flatRun c fuel r b (stepF frag sk co ty).1 (stepF frag sk co ty).2.1 (stepF frag sk co ty).2.2 := by
  rw [flatRun]

theorem consumed_lt (c : Cfg) (rest : Bytes) (boff : Nat) (hb : boff < c.B) :
    (∀ r b, readPhysical c rest boff = .bad r b → r.length < rest.length ∧ b < c.B ∧
      b = (boff + (rest.length - r.length)) % c.B) ∧
    (∀ ty d r b, readPhysical c rest boff = .ok ty d r b → r.length < rest.length ∧ b < c.B ∧
      b = (boff + (rest.length - r.length)) % c.B) := by
  have h := readPhysical_consumed c rest boff hb
  constructor
  · intro r b he
    rw [he] at h
    exact ⟨h.1, by rw [h.2]; exact Nat.mod_lt _ (by omega), h.2⟩
  · intro ty d r b he
    rw [he] at h
    exact ⟨h.1, by rw [h.2]; exact Nat.mod_lt _ (by omega), h.2⟩

/-- the flat loop needs one unit of fuel per fragment; more changes nothing -/
theorem flatRun_fuel (c : Cfg) (f1 : Nat) : ∀ (f2 : Nat) (rest : Bytes) (boff : Nat) (frag sk co : Bool),
    boff < c.B → rest.length < f1 → rest.length < f2 →
    flatRun c f1 rest boff frag sk co = flatRun c f2 rest boff frag sk co := by
  induction f1 with
  | zero => intro f2 rest boff frag sk co _ h; omega
  | succ f1 ih =>
    intro f2 rest boff frag sk co hb h1 h2
    obtain ⟨f2, rfl⟩ : ∃ f, f2 = f + 1 := ⟨f2 - 1, by omega⟩
    rw [flatRun_succ, flatRun_succ]
    have hc := consumed_lt c rest boff hb
    cases hres : readPhysical c rest boff with
    | eof => rfl
    | bad r b =>
      obtain ⟨i1, i2, _⟩ := hc.1 r b hres
      exact ih f2 r b _ _ _ i2 (by omega) (by omega)
    | ok ty d r b =>
      obtain ⟨i1, i2, _⟩ := hc.2 ty d r b hres
      exact ih f2 r b _ _ _ i2 (by omega) (by omega)

/-- one `read_record` call against the flat loop -/
theorem readRecordLoopF_flat (c : Cfg) (fuel : Nat) : ∀ (rest : Bytes) (boff : Nat) (acc : Bytes)
    (frag sk co : Bool), boff < c.B → rest.length < fuel →
    match readRecordLoopF c fuel rest boff acc frag sk co with
    | .eof cl co' => flatRun c fuel rest boff frag sk co = (cl, co')
    | .record _ r' b' sk' co' => r'.length < rest.length ∧ b' < c.B ∧
        flatRun c fuel rest boff frag sk co = flatRun c (r'.length + 1) r' b' false sk' co' := by
  induction fuel with
  | zero => intro rest boff acc frag sk co _ h; omega
  | succ fuel ih =>
    intro rest boff acc frag sk co hb hf
    rw [readRecordLoopF_succ, flatRun_succ]
    have hc := consumed_lt c rest boff hb
    cases hres : readPhysical c rest boff with
    | eof => simp only
    | bad r b =>
      obtain ⟨i1, i2, _⟩ := hc.1 r b hres
      have := ih r b [] false true true i2 (by omega)
      simp only
      cases hr : readRecordLoopF c fuel r b [] false true true with
      | eof cl co' => rw [hr] at this; exact this
      | record d r' b' sk' co' =>
        rw [hr] at this
        exact ⟨by omega, this.2.1, this.2.2⟩
    | ok ty d r b =>
      obtain ⟨i1, i2, _⟩ := hc.2 ty d r b hres
      -- the recursive calls all have this shape
      have hrec : ∀ (acc' : Bytes) (frag' sk' co' : Bool),
          stepF frag sk co ty = (frag', sk', co') →
          match readRecordLoopF c fuel r b acc' frag' sk' co' with
          | .eof cl co'' => flatRun c fuel r b (stepF frag sk co ty).1 (stepF frag sk co ty).2.1
              (stepF frag sk co ty).2.2 = (cl, co'')
          | .record _ r' b' sk'' co'' => r'.length < rest.length ∧ b' < c.B ∧
              flatRun c fuel r b (stepF frag sk co ty).1 (stepF frag sk co ty).2.1
                (stepF frag sk co ty).2.2 = flatRun c (r'.length + 1) r' b' false sk'' co'' := by
        intro acc' frag' sk' co' hs
        have := ih r b acc' frag' sk' co' i2 (by omega)
        rw [hs]
        cases hr : readRecordLoopF c fuel r b acc' frag' sk' co' with
        | eof cl co'' => rw [hr] at this; exact this
        | record d' r' b' sk'' co'' =>
          rw [hr] at this
          exact ⟨by omega, this.2.1, this.2.2⟩
      -- the returns
      have hret : ∀ (sk' co' : Bool), stepF frag sk co ty = (false, sk', co') →
          r.length < rest.length ∧ b < c.B ∧
            flatRun c fuel r b (stepF frag sk co ty).1 (stepF frag sk co ty).2.1
              (stepF frag sk co ty).2.2 = flatRun c (r.length + 1) r b false sk' co' := by
        intro sk' co' hs
        rw [hs]
        exact ⟨i1, i2, flatRun_fuel c _ _ _ _ _ _ _ i2 (by omega) (by omega)⟩
      simp only
      by_cases h0 : ty = TFull
      · rw [if_pos h0]
        exact hret _ _ (by unfold stepF; rw [if_pos h0])
      · rw [if_neg h0]
        by_cases h1 : ty = TFirst
        · rw [if_pos h1]
          exact hrec _ _ _ _ (by unfold stepF; rw [if_neg h0, if_pos h1])
        · rw [if_neg h1]
          by_cases h2 : ty = TMiddle
          · rw [if_pos h2]
            cases frag with
            | true =>
              rw [if_pos rfl]
              exact hrec _ _ _ _ (by unfold stepF; rw [if_neg h0, if_neg h1, if_pos h2, if_pos rfl])
            | false =>
              rw [if_neg Bool.false_ne_true]
              exact hrec _ _ _ _ (by unfold stepF; rw [if_neg h0, if_neg h1, if_pos h2, if_neg Bool.false_ne_true])
          · rw [if_neg h2]
            cases frag with
            | true =>
              rw [if_pos rfl]
              exact hret _ _ (by unfold stepF; rw [if_neg h0, if_neg h1, if_neg h2, if_pos rfl])
            | false =>
              rw [if_neg Bool.false_ne_true]
              exact hrec _ _ _ _ (by unfold stepF; rw [if_neg h0, if_neg h1, if_neg h2, if_neg Bool.false_ne_true])

/-- the sequence of `read_record` calls against the flat loop -/
theorem readAllLoopF_flat (c : Cfg) (fuel : Nat) : ∀ (rest : Bytes) (boff : Nat) (sk co : Bool),
    boff < c.B → rest.length < fuel →
    (readAllLoopF c fuel rest boff sk co).2 = flatRun c (rest.length + 1) rest boff false sk co := by
  induction fuel with
  | zero => intro rest boff sk co _ h; omega
  | succ fuel ih =>
    intro rest boff sk co hb hf
    rw [readAllLoopF_succ]
    have := readRecordLoopF_flat c (rest.length + 1) rest boff [] false sk co hb (Nat.lt_succ_self _)
    cases hr : readRecordLoopF c (rest.length + 1) rest boff [] false sk co with
    | eof cl co' => rw [hr] at this; simp only; exact this.symm
    | record d r' b' sk' co' =>
      rw [hr] at this
      simp only
      rw [this.2.2, ← ih r' b' sk' co' this.2.1 (by omega)]

theorem readAllF_flat (c : Cfg) (hB : 0 < c.B) (file : Bytes) :
    (readAllF c file).2 = flatRun c (file.length + 1) file 0 false false false :=
  readAllLoopF_flat c _ file 0 false false hB (Nat.lt_succ_self _)

/-! ### facts about the flat loop -/

theorem stepF_sticky (frag sk : Bool) (ty : Nat) : (stepF frag sk true ty).2.2 = true := by
  unfold stepF
  split
  · simp
  · split
    · simp
    · split <;> split <;> rfl

/-- once set, the corruption flag stays set -/
theorem flatRun_sticky (c : Cfg) (fuel : Nat) : ∀ (rest : Bytes) (boff : Nat) (frag sk : Bool),
    (flatRun c fuel rest boff frag sk true).2 = true := by
  induction fuel with
  | zero => intros; rfl
  | succ fuel ih =>
    intro rest boff frag sk
    rw [flatRun_succ]
    cases readPhysical c rest boff with
    | eof => rfl
    | bad r b => exact ih _ _ _ _
    | ok ty d r b =>
      simp only
      rw [stepF_sticky]
      exact ih _ _ _ _

theorem stepF_eq (frag s : Bool) (ty : Nat) : (stepF frag s s ty).2.1 = (stepF frag s s ty).2.2 := by
  unfold stepF
  split
  · rfl
  · split
    · rfl
    · split <;> split <;> rfl

/-- `has_corrupted_data` and `has_skipped_data` move together until the end of the file, so a clean
end of file excludes corruption -/
theorem flatRun_clean_intact (c : Cfg) (fuel : Nat) : ∀ (rest : Bytes) (boff : Nat) (frag s : Bool),
    (flatRun c fuel rest boff frag s s).1 = true → (flatRun c fuel rest boff frag s s).2 = false := by
  induction fuel with
  | zero => intro rest boff frag s h; simp [flatRun_zero] at h
  | succ fuel ih =>
    intro rest boff frag s
    rw [flatRun_succ]
    cases readPhysical c rest boff with
    | eof =>
      simp only
      intro h
      cases s with
      | false => rfl
      | true => simp at h
    | bad r b => exact ih _ _ _ _
    | ok ty d r b =>
      simp only
      rw [stepF_eq]
      exact ih _ _ _ _

/-- **appending bytes never clears the flag** (so: cutting a file never sets it) -/
theorem flatRun_mono (c : Cfg) (fuel : Nat) : ∀ (rest : Bytes) (boff : Nat) (frag sk co : Bool),
    boff < c.B → (flatRun c fuel rest boff frag sk co).2 = true →
    ∀ (X : Bytes) (fuel' : Nat), fuel ≤ fuel' → (flatRun c fuel' (rest ++ X) boff frag sk co).2 = true := by
  induction fuel with
  | zero =>
    intro rest boff frag sk co _ h X fuel' _
    rw [flatRun_zero] at h
    simp only at h
    subst h
    exact flatRun_sticky c _ _ _ _ _
  | succ fuel ih =>
    intro rest boff frag sk co hb h X fuel' hf
    obtain ⟨f', rfl⟩ : ∃ f, fuel' = f + 1 := ⟨fuel' - 1, by omega⟩
    by_cases hp : readPhysical c rest boff = .eof
    · rw [flatRun_succ, hp] at h
      simp only at h
      subst h
      exact flatRun_sticky c _ _ _ _ _
    · have happ := readPhysical_app c rest boff hb X hp
      have hc := consumed_lt c rest boff hb
      rw [flatRun_succ] at h ⊢
      rw [happ]
      cases hres : readPhysical c rest boff with
      | eof => exact absurd hres hp
      | bad r b =>
        rw [hres] at h
        simp only [PRes.app] at h ⊢
        exact ih r b _ _ _ (hc.1 r b hres).2.1 h X f' (by omega)
      | ok ty d r b =>
        rw [hres] at h
        simp only [PRes.app] at h ⊢
        exact ih r b _ _ _ (hc.2 ty d r b hres).2.1 h X f' (by omega)

theorem leftoverS_trailer (c : Cfg) (hB : H < c.B) (rest X : Bytes) (boff : Nat)
    (_h0 : 0 < rest.length) (hl : rest.length = skipLen c boff) :
    leftoverS c (rest ++ X) boff = leftoverS c X 0 := by
  have hH : H = 7 := rfl
  have hs0 : skipLen c 0 = 0 := by
    unfold skipLen; rw [if_neg]; omega
  rw [leftoverS_eq, leftoverS_eq, hs0, ← hl, if_pos (by rw [List.length_append]; omega),
    if_pos (Nat.zero_le _), List.drop_left' rfl, List.drop_zero]

/-- **a prefix that reads cleanly leaves no state behind**: the bytes after it are read as a file
of their own, at the block offset where the prefix ends -/
theorem flatRun_clean_prefix (c : Cfg) (hB : H < c.B) (fuel : Nat) :
    ∀ (rest : Bytes) (boff : Nat) (frag sk co : Bool) (co' : Bool),
    boff < c.B → flatRun c fuel rest boff frag sk co = (true, co') →
    ∀ (X : Bytes) (fuel' : Nat), (rest ++ X).length < fuel' →
    flatRun c fuel' (rest ++ X) boff frag sk co
      = flatRun c (X.length + 1) X ((boff + rest.length) % c.B) false false co' := by
  induction fuel with
  | zero => intro rest boff frag sk co co' _ h; simp [flatRun_zero] at h
  | succ fuel ih =>
    intro rest boff frag sk co co' hb h X fuel' hf
    have hH : H = 7 := rfl
    by_cases hp : readPhysical c rest boff = .eof
    · rw [flatRun_succ, hp] at h
      simp only [Prod.mk.injEq, Bool.and_eq_true, Bool.not_eq_true', List.isEmpty_iff] at h
      obtain ⟨⟨⟨h1, h2⟩, h3⟩, h4⟩ := h
      subst h2 h3 h4
      rcases leftoverS_isEmpty_true c rest boff (by rw [h1]; rfl) with h5 | ⟨h5, h6⟩
      · subst h5
        simp only [List.nil_append, List.length_nil, Nat.add_zero, Nat.mod_eq_of_lt hb] at hf ⊢
        exact flatRun_fuel c _ _ _ _ _ _ _ hb hf (Nat.lt_succ_self _)
      · obtain ⟨f', rfl⟩ : ∃ f, fuel' = f + 1 := ⟨fuel' - 1, by omega⟩
        have hb0 : (boff + rest.length) % c.B < c.B := Nat.mod_lt _ (by omega)
        have hz : (boff + rest.length) % c.B = 0 := by
          have hs : skipLen c boff = c.B - boff := by
            unfold skipLen at h6 ⊢
            split
            · rfl
            · rename_i hh; rw [if_neg hh] at h6; omega
          have : boff + rest.length = c.B := by omega
          rw [this, Nat.mod_self]
        rw [flatRun_succ, flatRun_succ, readPhysical_trailer c hB rest X boff hb h5 h6,
          leftoverS_trailer c hB rest X boff h5 h6, hz]
        rw [List.length_append] at hf
        have hc := consumed_lt c X 0 (by omega)
        cases hres : readPhysical c X 0 with
        | eof => rfl
        | bad r b =>
          obtain ⟨i1, i2, _⟩ := hc.1 r b hres
          exact flatRun_fuel c _ _ _ _ _ _ _ i2 (by omega) (by omega)
        | ok ty d r b =>
          obtain ⟨i1, i2, _⟩ := hc.2 ty d r b hres
          exact flatRun_fuel c _ _ _ _ _ _ _ i2 (by omega) (by omega)
    · have happ := readPhysical_app c rest boff hb X hp
      have hc := consumed_lt c rest boff hb
      obtain ⟨f', rfl⟩ : ∃ f, fuel' = f + 1 := ⟨fuel' - 1, by omega⟩
      rw [flatRun_succ] at h ⊢
      rw [happ]
      rw [List.length_append] at hf
      have hmod : ∀ r : Bytes, r.length < rest.length →
          ((boff + (rest.length - r.length)) % c.B + r.length) % c.B = (boff + rest.length) % c.B := by
        intro r hr
        rw [Nat.mod_add_mod]; congr 1; omega
      cases hres : readPhysical c rest boff with
      | eof => exact absurd hres hp
      | bad r b =>
        rw [hres] at h
        obtain ⟨i1, i2, i3⟩ := hc.1 r b hres
        simp only [PRes.app] at h ⊢
        rw [ih r b _ _ _ co' i2 h X f' (by rw [List.length_append]; omega), i3, hmod r i1]
      | ok ty d r b =>
        rw [hres] at h
        obtain ⟨i1, i2, i3⟩ := hc.2 ty d r b hres
        simp only [PRes.app] at h ⊢
        rw [ih r b _ _ _ co' i2 h X f' (by rw [List.length_append]; omega), i3, hmod r i1]

/-! ### consequences for `readAllF` -/

/-- a file that reads cleanly to its end is not flagged -/
theorem readAllF_clean_intact (c : Cfg) (hB : 0 < c.B) (file : Bytes)
    (h : (readAllF c file).2.1 = true) : (readAllF c file).2.2 = false := by
  have := readAllF_flat c hB file
  rw [Prod.ext_iff] at this
  rw [this.2]
  apply flatRun_clean_intact
  rw [← this.1]; exact h

/-- cutting a file never raises the flag -/
theorem readAllF_take (c : Cfg) (hB : 0 < c.B) (file : Bytes) (n : Nat)
    (h : (readAllF c (file.take n)).2.2 = true) : (readAllF c file).2.2 = true := by
  have h1 := readAllF_flat c hB (file.take n)
  have h2 := readAllF_flat c hB file
  rw [Prod.ext_iff] at h1 h2
  rw [h1.2] at h
  rw [h2.2]
  have := flatRun_mono c _ _ _ _ _ _ hB h (file.drop n) (file.length + 1)
    (by simp only [List.length_take]; omega)
  rwa [List.take_append_drop] at this

/-- reading `file ++ X` when `file` reads cleanly: the flags are those of `X` read from the block
offset at which `file` ends -/
theorem readAllF_clean_prefix (c : Cfg) (hB : H < c.B) (file X : Bytes)
    (h : (readAllF c file).2.1 = true) :
    (readAllF c (file ++ X)).2 = flatRun c (X.length + 1) X (file.length % c.B) false false false := by
  have hH : H = 7 := rfl
  have hB0 : 0 < c.B := by omega
  have h1 := readAllF_flat c hB0 file
  have hi := readAllF_clean_intact c hB0 file h
  rw [readAllF_flat c hB0 (file ++ X)]
  have he : flatRun c (file.length + 1) file 0 false false false = (true, false) := by
    rw [← h1, Prod.ext_iff]; exact ⟨h, hi⟩
  have := flatRun_clean_prefix c hB _ file 0 false false false false hB0 he X
    ((file ++ X).length + 1) (Nat.lt_succ_self _)
  rwa [Nat.zero_add] at this

end Rain.Log
