import Rain.Lemmas.PersistStep
/-
Starting a new manifest: snapshot of the version, switch of CURRENT, removal of the old manifest.
-/
namespace Rain.Persist.Lemmas
open Rain Rain.Lsm Rain.Durable Rain.Persist Rain.Lsm.Lemmas Rain.Durable.Lemmas

theorem mem_levelPairsFrom (k : Nat) (L : List (List File)) (q : Nat × Nat) :
    q ∈ levelPairsFrom k L ↔ ∃ j, q.1 = k + j ∧ ∃ f, f ∈ lv L j ∧ f.num = q.2 := by
  induction L generalizing k with
  | nil =>
    simp only [levelPairsFrom, List.not_mem_nil, false_iff]
    rintro ⟨j, _, f, hf, _⟩
    simp at hf
  | cons fs rest ih =>
    simp only [levelPairsFrom, List.mem_append, List.mem_map, ih]
    constructor
    · rintro (⟨f, hf, rfl⟩ | ⟨j, hq, f, hf, hn⟩)
      · exact ⟨0, rfl, f, by simpa using hf, rfl⟩
      · exact ⟨j + 1, by omega, f, by simpa using hf, hn⟩
    · rintro ⟨j, hq, f, hf, hn⟩
      cases j with
      | zero =>
        left
        refine ⟨f, by simpa using hf, ?_⟩
        exact Prod.ext (by simpa using hq.symm) hn
      | succ j =>
        right
        exact ⟨j, by omega, f, by simpa using hf, hn⟩

theorem mem_levelPairs (L : List (List File)) (q : Nat × Nat) : q ∈ levelPairs L ↔ InVersion L q := by
  unfold levelPairs InVersion
  rw [mem_levelPairsFrom]
  constructor
  · rintro ⟨j, hq, f, hf, hn⟩
    have : q.1 = j := by omega
    exact ⟨f, this ▸ hf, hn⟩
  · rintro ⟨f, hf, hn⟩
    exact ⟨q.1, by omega, f, hf, hn⟩

theorem apply_createManifest (d : Disk) (m : Nat) :
    apply d (.createManifest m) = { d with manifests := update d.manifests m [] } := rfl
theorem apply_setCurrent (d : Disk) (m : Nat) :
    apply d (.setCurrent m) = { d with current := some m } := rfl
theorem apply_removeManifest (d : Disk) (m : Nat) :
    apply d (.removeManifest m) = { d with manifests := erase d.manifests m } := rfl

/-- the relation does not look at manifests other than the current one -/
theorem rel_other_manifests {p : PState} (h : Rel p) (ms : List (Nat × List Edit))
    (hnd : (ms.map Prod.fst).Nodup)
    (hsame : lookup ms p.c.manifest = lookup p.d.manifests p.c.manifest) :
    Rel { s := p.s, d := { p.d with manifests := ms }, c := p.c } := by
  obtain ⟨es, hes, hw, hv⟩ := h.edits
  exact { inv := h.inv, wf := ⟨hnd, h.wf.2.1, h.wf.2.2⟩, cur := h.cur,
          edits := ⟨es, hsame.trans hes, hw, hv⟩, tables := h.tables, walMem := h.walMem,
          walImm := h.walImm, others := h.others, walMax := h.walMax, manLe := h.manLe }

theorem switch_ok {p : PState} (h : Rel p) (m' : Nat) (hfresh : ∀ x ∈ p.d.manifests, x.1 < m') :
    StepOk p { s := p.s, d := (opsOf p (.switchManifest m')).foldl apply p.d,
               c := { p.c with manifest := m' } } (opsOf p (.switchManifest m')) := by
  obtain ⟨es, hes, hw, hv⟩ := h.edits
  have hmm : p.c.manifest ≠ m' := by
    have := hfresh _ (mem_of_lookup _ _ _ hes)
    simp only at this
    omega
  have hnot : m' ∉ p.d.manifests.map Prod.fst := by
    intro hm
    obtain ⟨x, hx, hxm⟩ := List.mem_map.mp hm
    have := hfresh x hx
    omega
  let snap : Edit := { walNumber := some p.c.manWal, added := levelPairs p.s.levels, deleted := [] }
  -- 1. the empty new manifest
  have hok1 : ok p.d (.createManifest m') = true := by
    simp only [ok, h.cur, bne_iff_ne, ne_eq, Option.some.injEq]; exact hmm
  have hl1 : lookup (update p.d.manifests m' []) m' = some [] := by rw [lookup_update, if_pos rfl]
  -- 2. the snapshot record
  have hcur1 : (apply p.d (.createManifest m')).current = some p.c.manifest := h.cur
  have hok2 : ok (apply p.d (.createManifest m')) (.appendManifest m' snap) = true := by
    simp only [ok, hcur1]
    rw [if_neg]
    simp only [beq_iff_eq, Option.some.injEq]; exact hmm
  -- the image after the two operations
  let ms2 := update (update p.d.manifests m' []) m' [snap]
  have hd2 : apply (apply p.d (.createManifest m')) (.appendManifest m' snap) = { p.d with manifests := ms2 } := by
    rw [apply_appendManifest, apply_createManifest]
    simp only [hl1, Option.getD_some, List.nil_append]
    rfl
  have hnd2 : (ms2.map Prod.fst).Nodup := nodup_update _ _ _ (nodup_update _ _ _ h.wf.1)
  have hl2m : lookup ms2 p.c.manifest = lookup p.d.manifests p.c.manifest := by
    show lookup (update (update p.d.manifests m' []) m' [snap]) p.c.manifest = _
    rw [lookup_update, if_neg hmm, lookup_update, if_neg hmm]
  have hl2 : lookup ms2 m' = some [snap] := by
    show lookup (update (update p.d.manifests m' []) m' [snap]) m' = _
    rw [lookup_update, if_pos rfl]
  have hR2 : Rel { s := p.s, d := { p.d with manifests := ms2 }, c := p.c } :=
    rel_other_manifests h ms2 hnd2 hl2m
  -- 3. CURRENT names the new manifest
  have hR3 : Rel { s := p.s, d := { p.d with manifests := ms2, current := some m' },
                   c := { p.c with manifest := m' } } := by
    refine { inv := h.inv, wf := ⟨hnd2, h.wf.2.1, h.wf.2.2⟩, cur := rfl, edits := ?_, tables := h.tables,
             walMem := h.walMem, walImm := h.walImm, others := h.others, walMax := h.walMax,
             manLe := h.manLe }
    refine ⟨[snap], hl2, ?_, ?_⟩
    · simp [walNoOf, snap]
    · intro q
      simp only [versionOf, List.foldl_cons, List.foldl_nil, List.filter_nil, List.nil_append, snap]
      exact mem_levelPairs p.s.levels q
  have hok3 : ok { p.d with manifests := ms2 } (.setCurrent m') = true := by
    obtain ⟨r, hr, hl⟩ := rel_reads hR2
    obtain ⟨r', hr', hl'⟩ := rel_reads hR3
    have hcur : ({ p.d with manifests := ms2 } : Disk).current = some p.c.manifest := h.cur
    have hrf : recoverFrom { p.d with manifests := ms2 } m' = some r' := by
      have := recoverFrom_setCurrent { p.d with manifests := ms2 } m' m'
      rw [recover_eq_some] at hr'
      obtain ⟨c, hc, hrc⟩ := hr'
      simp only [Option.some.injEq] at hc
      subst hc
      rw [← this]; exact hrc
    have hr2 : recover ({ p.d with manifests := ms2 } : Disk) = some r := hr
    simp only [ok, hr2, hrf]
    rw [h.cur]
    simp only []
    apply sameContents_of_forall
    intro k
    rw [hl k, hl' k]
  -- 4. the old manifest goes
  have hok4 : ok { p.d with manifests := ms2, current := some m' } (.removeManifest p.c.manifest) = true := by
    simp only [ok, bne_iff_ne, ne_eq, Option.some.injEq]; exact fun e => hmm e.symm
  have hR4 : Rel { s := p.s, d := { p.d with manifests := erase ms2 p.c.manifest, current := some m' },
                   c := { p.c with manifest := m' } } := by
    have := rel_other_manifests hR3 (erase ms2 p.c.manifest) (nodup_erase _ _ hnd2)
      (by show lookup (erase ms2 p.c.manifest) m' = lookup ms2 m'
          rw [lookup_erase, if_neg (fun e => hmm e.symm)])
    exact this
  have hfold : (opsOf p (.switchManifest m')).foldl apply p.d =
      { p.d with manifests := erase ms2 p.c.manifest, current := some m' } := by
    simp only [opsOf, List.foldl_cons, List.foldl_nil]
    rw [hd2]
    rfl
  have hR1 : Rel { s := p.s, d := apply p.d (.createManifest m'), c := p.c } := by
    rw [apply_createManifest]
    exact rel_other_manifests h _ (nodup_update _ _ _ h.wf.1)
      (by show lookup (update p.d.manifests m' []) p.c.manifest = _
          rw [lookup_update, if_neg hmm])
  refine ⟨?_, ?_, ?_⟩
  · rw [hfold]
    simp only [opsOf]
    rw [runOk_cons hok1, runOk_cons hok2, hd2, runOk_cons hok3, apply_setCurrent,
      runOk_cons hok4, apply_removeManifest]
    rfl
  · rw [hfold]; exact hR4
  · simp only [opsOf]
    refine Chain.cons _ _ _ (Or.inl h) hok1 (Chain.cons _ _ _ (Or.inl hR1) hok2 ?_)
    rw [hd2]
    refine Chain.cons _ _ _ (Or.inl hR2) hok3 ?_
    rw [apply_setCurrent]
    refine Chain.single (Or.inr hR3) hok4 (Or.inr ?_)
    rw [apply_removeManifest]; exact hR4

end Rain.Persist.Lemmas
