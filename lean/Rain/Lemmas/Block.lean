import Rain.Block
import Rain.Lemmas.Sep
import Rain.Lemmas.Varint
/-
Block builder / block reader round trip (`block_roundtrip_partial`, `entry_block_roundtrip_partial`).
Separators and successors are in `Sep.lean`, varints in `Varint.lean`.
-/
namespace Rain.Block.Lemmas
open Rain Rain.Lsm Rain.Block

/-! ### list plumbing -/

theorem drop2 (a b X : Bytes) : (a ++ (b ++ X)).drop (a.length + b.length) = X := by
  rw [← List.append_assoc, ← List.length_append, List.drop_left]
theorem drop3 (a b c X : Bytes) :
    (a ++ (b ++ (c ++ X))).drop (a.length + b.length + c.length) = X := by
  rw [← List.append_assoc, ← List.append_assoc, ← List.length_append, ← List.length_append,
    List.drop_left]
theorem drop4 (a b c d X : Bytes) :
    (a ++ (b ++ (c ++ (d ++ X)))).drop (a.length + b.length + c.length + d.length) = X := by
  rw [← List.append_assoc, ← List.append_assoc, ← List.append_assoc, ← List.length_append,
    ← List.length_append, ← List.length_append, List.drop_left]
theorem drop5 (a b c d e X : Bytes) :
    (a ++ (b ++ (c ++ (d ++ (e ++ X))))).drop
      (a.length + b.length + c.length + d.length + e.length) = X := by
  rw [← List.append_assoc, ← List.append_assoc, ← List.append_assoc, ← List.append_assoc,
    ← List.length_append, ← List.length_append, ← List.length_append, ← List.length_append,
    List.drop_left]

/-! ### common prefix -/

theorem cp_le_left (a b : Bytes) : commonPrefix a b ≤ a.length := by
  induction a generalizing b with
  | nil => simp [commonPrefix]
  | cons x xs ih =>
    cases b with
    | nil => simp [commonPrefix]
    | cons y ys =>
      simp only [commonPrefix]
      split
      · have := ih ys; simp; omega
      · simp

theorem cp_le_right (a b : Bytes) : commonPrefix a b ≤ b.length := by
  induction a generalizing b with
  | nil => simp [commonPrefix]
  | cons x xs ih =>
    cases b with
    | nil => simp [commonPrefix]
    | cons y ys =>
      simp only [commonPrefix]
      split
      · have := ih ys; simp; omega
      · simp

theorem cp_take (a b : Bytes) : a.take (commonPrefix a b) = b.take (commonPrefix a b) := by
  induction a generalizing b with
  | nil => simp [commonPrefix]
  | cons x xs ih =>
    cases b with
    | nil => simp [commonPrefix]
    | cons y ys =>
      simp only [commonPrefix]
      split
      · next h =>
        have : x = y := by simpa using h
        subst this
        simp [ih ys]
      · simp

/-! ### one entry -/

/-- the bytes `add_entry` appends for one entry -/
def entryBytes (shared : Nat) (k v : Bytes) : Bytes :=
  varint shared ++ varint (k.length - shared) ++ varint v.length ++ k.drop shared ++ v

theorem entryBytes_length (s : Nat) (k v : Bytes) :
    (entryBytes s k v).length =
      (varint s).length + (varint (k.length - s)).length + (varint v.length).length +
        (k.length - s) + v.length := by
  simp [entryBytes]; omega

theorem entryBytes_length_pos (s : Nat) (k v : Bytes) : 0 < (entryBytes s k v).length := by
  rw [entryBytes_length]; have := varint_length_pos s; omega

theorem decodeLoop_step_gen (fuel : Nat) (h1 h2 h3 d v rest last : Bytes) (s u vl off : Nat)
    (rs : List Nat) (acc : List (Bytes × Bytes))
    (e1 : ∀ X, unvarint (h1 ++ X) = some (s, h1.length))
    (e2 : ∀ X, unvarint (h2 ++ X) = some (u, h2.length))
    (e3 : ∀ X, unvarint (h3 ++ X) = some (vl, h3.length))
    (hd : d.length = u) (hv : v.length = vl) (hne : h1 ≠ []) :
    decodeLoop (fuel + 1) (h1 ++ (h2 ++ (h3 ++ (d ++ (v ++ rest))))) off last rs acc =
      decodeLoop fuel rest (off + (h1.length + h2.length + h3.length) + u + vl) (last.take s ++ d)
        (match rs with
          | r :: rs' => if off = r ∧ s = 0 then rs' else rs
          | [] => [])
        ((last.take s ++ d, v) :: acc) := by
  rw [decodeLoop]
  have hE : (h1 ++ (h2 ++ (h3 ++ (d ++ (v ++ rest))))).isEmpty = false := by
    cases h1 with
    | nil => exact absurd rfl hne
    | cons => rfl
  simp only [hE, Bool.false_eq_true, if_false, e1, List.drop_left, e2, drop2, e3, drop3]
  subst hd hv
  have hlen : ¬ ((h1 ++ (h2 ++ (h3 ++ (d ++ (v ++ rest))))).length <
      h1.length + h2.length + h3.length + d.length + v.length) := by
    simp only [List.length_append]; omega
  simp only [hlen, if_false, List.take_left]
  simp only [drop4, drop5, List.take_left]
  rfl

theorem decodeLoop_step (fuel s : Nat) (k v last rest : Bytes) (off : Nat) (rs : List Nat)
    (acc : List (Bytes × Bytes)) (hs : s ≤ k.length) (hpre : last.take s = k.take s)
    (hk : k.length < 2 ^ 70) (hv : v.length < 2 ^ 70) :
    decodeLoop (fuel + 1) (entryBytes s k v ++ rest) off last rs acc =
      decodeLoop fuel rest (off + (entryBytes s k v).length) k
        (match rs with
          | r :: rs' => if off = r ∧ s = 0 then rs' else rs
          | [] => [])
        ((k, v) :: acc) := by
  have hkey : last.take s ++ k.drop s = k := by rw [hpre]; exact List.take_append_drop s k
  have := decodeLoop_step_gen fuel (varint s) (varint (k.length - s)) (varint v.length)
    (k.drop s) v rest last s (k.length - s) v.length off rs acc
    (unvarint_varint s (by omega)) (unvarint_varint _ (by omega)) (unvarint_varint _ hv)
    (by simp) rfl (varint_ne_nil s)
  rw [hkey] at this
  rw [entryBytes_length]
  simp only [entryBytes, List.append_assoc]
  rw [this]
  congr 1
  omega

/-! ### the builder as a function of the entry list -/

def sharedOf (r c : Nat) (last k : Bytes) : Nat := if c < r then commonPrefix last k else 0
def nextCount (r c : Nat) : Nat := (if c < r then c else 0) + 1

theorem sharedOf_le (r c : Nat) (last k : Bytes) : sharedOf r c last k ≤ k.length := by
  unfold sharedOf; split
  · exact cp_le_right _ _
  · omega

theorem sharedOf_le_last (r c : Nat) (last k : Bytes) : sharedOf r c last k ≤ last.length := by
  unfold sharedOf; split
  · exact cp_le_left _ _
  · omega

theorem sharedOf_take (r c : Nat) (last k : Bytes) :
    last.take (sharedOf r c last k) = k.take (sharedOf r c last k) := by
  unfold sharedOf; split
  · exact cp_take _ _
  · simp

def encTail (r : Nat) : Nat → Bytes → List (Bytes × Bytes) → Bytes
  | _, _, [] => []
  | c, last, kv :: rest =>
    entryBytes (sharedOf r c last kv.1) kv.1 kv.2 ++ encTail r (nextCount r c) kv.1 rest

def rsTail (r : Nat) : Nat → Bytes → Nat → List (Bytes × Bytes) → List Nat
  | _, _, _, [] => []
  | c, last, off, kv :: rest =>
    (if c < r then [] else [off]) ++
      rsTail r (nextCount r c) kv.1 (off + (entryBytes (sharedOf r c last kv.1) kv.1 kv.2).length) rest

theorem addEntry_eq (r : Nat) (b : Builder) (k v : Bytes) :
    addEntry r b k v =
      { buf := b.buf ++ entryBytes (sharedOf r b.count b.lastKey k) k v,
        restarts := b.restarts ++ (if b.count < r then [] else [b.buf.length]),
        count := nextCount r b.count, lastKey := k } := by
  by_cases h : b.count < r <;> simp [addEntry, entryBytes, sharedOf, nextCount, h]

theorem foldl_addEntry (r : Nat) (kvs : List (Bytes × Bytes)) (b : Builder) :
    (kvs.foldl (fun b kv => addEntry r b kv.1 kv.2) b).buf = b.buf ++ encTail r b.count b.lastKey kvs ∧
    (kvs.foldl (fun b kv => addEntry r b kv.1 kv.2) b).restarts =
      b.restarts ++ rsTail r b.count b.lastKey b.buf.length kvs := by
  induction kvs generalizing b with
  | nil => simp [encTail, rsTail]
  | cons kv rest ih =>
    simp only [List.foldl_cons]
    have := ih (addEntry r b kv.1 kv.2)
    rw [this.1, this.2, addEntry_eq]
    simp [encTail, rsTail]

theorem rsTail_ge (r : Nat) (kvs : List (Bytes × Bytes)) (c : Nat) (last : Bytes) (off : Nat) :
    ∀ x ∈ rsTail r c last off kvs, off ≤ x ∧ x ≤ off + (encTail r c last kvs).length := by
  induction kvs generalizing c last off with
  | nil => simp [rsTail]
  | cons kv rest ih =>
    intro x hx
    simp only [rsTail, List.mem_append] at hx
    simp only [encTail, List.length_append]
    rcases hx with hx | hx
    · split at hx
      · simp at hx
      · simp at hx; omega
    · have := ih _ _ _ x hx
      omega

theorem length_le_encTail (r : Nat) (kvs : List (Bytes × Bytes)) (c : Nat) (last : Bytes) :
    kvs.length ≤ (encTail r c last kvs).length := by
  induction kvs generalizing c last with
  | nil => simp
  | cons kv rest ih =>
    simp only [encTail, List.length_append, List.length_cons]
    have := ih (nextCount r c) kv.1
    have := entryBytes_length_pos (sharedOf r c last kv.1) kv.1 kv.2
    omega

theorem decodeLoop_nil (fuel off : Nat) (last : Bytes) (rs : List Nat) (acc : List (Bytes × Bytes)) :
    decodeLoop fuel [] off last rs acc = some (acc.reverse, rs) := by
  cases fuel <;> simp [decodeLoop]

theorem decodeLoop_encTail (r : Nat) (kvs : List (Bytes × Bytes)) (c : Nat) (last : Bytes)
    (off fuel : Nat) (acc : List (Bytes × Bytes)) (hfuel : kvs.length ≤ fuel)
    (hlast : last.length ≤ off) (hsz : off + (encTail r c last kvs).length < 2 ^ 70) :
    decodeLoop fuel (encTail r c last kvs) off last (rsTail r c last off kvs) acc =
      some (acc.reverse ++ kvs, []) := by
  induction kvs generalizing c last off fuel acc with
  | nil => simp [encTail, rsTail, decodeLoop_nil]
  | cons kv rest ih =>
    obtain ⟨k, v⟩ := kv
    cases fuel with
    | zero => simp at hfuel
    | succ fuel =>
      simp only [encTail, rsTail]
      simp only [encTail, List.length_append] at hsz
      have hel := entryBytes_length (sharedOf r c last k) k v
      have hs1 := sharedOf_le r c last k
      have hs2 := sharedOf_le_last r c last k
      rw [decodeLoop_step fuel _ k v last _ off _ acc hs1 (sharedOf_take r c last k)
        (by omega) (by omega)]
      have hrs : (match (if c < r then [] else [off]) ++ rsTail r (nextCount r c) k
            (off + (entryBytes (sharedOf r c last k) k v).length) rest with
          | x :: rs' => if off = x ∧ sharedOf r c last k = 0 then rs' else
              (if c < r then [] else [off]) ++ rsTail r (nextCount r c) k
                (off + (entryBytes (sharedOf r c last k) k v).length) rest
          | [] => []) =
          rsTail r (nextCount r c) k (off + (entryBytes (sharedOf r c last k) k v).length) rest := by
        by_cases hc : c < r
        · simp only [hc, if_true, List.nil_append]
          split
          · next x rs' heq =>
            have hx := rsTail_ge r rest (nextCount r c) k
              (off + (entryBytes (sharedOf r c last k) k v).length) x (by rw [heq]; simp)
            have := entryBytes_length_pos (sharedOf r c last k) k v
            have : ¬ (off = x ∧ sharedOf r c last k = 0) := by omega
            simp only [this, if_false]
          · next heq => exact heq.symm
        · simp [hc, sharedOf]
      rw [hrs]
      rw [ih (nextCount r c) k _ fuel ((k, v) :: acc) (by simpa using hfuel) (by omega) (by omega)]
      simp

/-! ### `finalize` / `BlockReader::new` -/

theorem decodeRaw_finalize (buf : Bytes) (restarts : List Nat)
    (hR : ∀ x ∈ restarts, x < 2 ^ 32) (hlen : buf.length + 4 * restarts.length + 4 < 2 ^ 32) :
    decodeRaw (buf ++ (restarts.map (leBytes 4)).flatten ++ leBytes 4 restarts.length) =
      match decodeLoop (buf.length + 1) buf 0 [] restarts [] with
      | some (kvs, []) => some kvs
      | _ => none := by
  have hF := flatten_leBytes_length restarts
  have hL := leBytes_length 4 restarts.length
  generalize hFd : (restarts.map (leBytes 4)).flatten = F at *
  generalize hLd : leBytes 4 restarts.length = L at *
  generalize hraw : buf ++ F ++ L = raw
  have f1 : raw.length = buf.length + 4 * restarts.length + 4 := by
    rw [← hraw]; simp only [List.length_append, hF, hL]
  have f2 : raw.drop (buf.length + 4 * restarts.length + 4 - 4) = L := by
    rw [← hraw]; apply List.drop_left'; simp [hF]
  have f3 : leVal L = restarts.length := by
    rw [← hLd]; apply leVal_leBytes; omega
  have f4 : buf.length + 4 * restarts.length + 4 - (1 + restarts.length) * 4 = buf.length := by omega
  have f5 : raw.drop buf.length = F ++ L := by
    rw [← hraw, List.append_assoc]; exact List.drop_left
  have f6 : (F ++ L).take (restarts.length * 4) = F := by
    apply List.take_left'; omega
  have f7 : raw.take buf.length = buf := by
    rw [← hraw, List.append_assoc]; exact List.take_left
  have f8 : chunks4 restarts.length F = restarts := by
    have := chunks4_flatten restarts hR []
    rw [hFd] at this
    simpa using this
  have g1 : ¬ (buf.length + 4 * restarts.length + 4 < 4) := by omega
  have g2 : ¬ (buf.length + 4 * restarts.length + 4 < (1 + restarts.length) * 4) := by omega
  unfold decodeRaw
  simp only [f1, f2, f3, f4, f5, f6, f7, f8, g1, g2, if_false]
  rfl

/-
The statement as first written,

  theorem block_roundtrip (r : Nat) (hr : 0 < r) (kvs : List (Bytes × Bytes))
      (hsize : (encodeRaw r kvs).length < 2^32) : decodeRaw (encodeRaw r kvs) = some kvs

is FALSE for `kvs = []`: the builder always records the restart offset `0`, the reader demands
that every recorded restart offset be matched by an entry, and an empty block has none
(`decodeRaw (encodeRaw 2 []) = none`; `src/tables/block.rs` returns the same "Failed to match
restart point offsets" error).  The table builder never writes an empty block (`partition_ok`).
Minimal missing hypothesis: `kvs ≠ []`.
-/
theorem block_roundtrip_partial (r : Nat) (hr : 0 < r) (kvs : List (Bytes × Bytes))
    (hnonempty : kvs ≠ []) (hsize : (encodeRaw r kvs).length < 2 ^ 32) :
    decodeRaw (encodeRaw r kvs) = some kvs := by
  obtain ⟨hbuf, hrs⟩ := foldl_addEntry r kvs {}
  simp only [List.nil_append, List.length_nil] at hbuf hrs
  unfold encodeRaw finalize at hsize ⊢
  rw [hbuf, hrs] at hsize ⊢
  have hF := flatten_leBytes_length ([0] ++ rsTail r 0 [] 0 kvs)
  simp only [List.length_append, hF, leBytes_length] at hsize
  have hR : ∀ x ∈ [0] ++ rsTail r 0 [] 0 kvs, x < 2 ^ 32 := by
    intro x hx
    rcases List.mem_append.mp hx with hx | hx
    · simp at hx; omega
    · have := (rsTail_ge r kvs 0 [] 0 x hx).2; omega
  rw [decodeRaw_finalize _ _ hR (by simp only [List.length_append]; omega)]
  cases kvs with
  | nil => exact absurd rfl hnonempty
  | cons kv rest =>
    obtain ⟨k, v⟩ := kv
    have hsh : sharedOf r 0 [] k = 0 := by simp [sharedOf, hr, commonPrefix]
    simp only [encTail, rsTail, hr, if_true, List.nil_append, hsh, List.singleton_append] at hsize ⊢
    simp only [List.length_append] at hsize
    have hel := entryBytes_length 0 k v
    rw [decodeLoop_step _ 0 k v [] _ 0 _ [] (by omega) (by simp) (by omega) (by omega)]
    simp only [and_self, if_true, Nat.zero_add]
    have := decodeLoop_encTail r rest (nextCount r 0) k (entryBytes 0 k v).length
      (entryBytes 0 k v ++ encTail r (nextCount r 0) k rest).length [(k, v)]
      (by have := length_le_encTail r rest (nextCount r 0) k; simp only [List.length_append]; omega)
      (by omega) (by omega)
    rw [this]
    simp

/-! ### internal keys -/

theorem decodeKey_encodeKey (e : Entry) (hseq : e.seq < 2 ^ 64) :
    decodeKey (encodeKey e) = some (e.ukey, e.seq, e.put) := by
  have hL := leBytes_length 8 e.seq
  have hV := leVal_leBytes 8 e.seq (by simpa using hseq)
  unfold decodeKey encodeKey
  generalize leBytes 8 e.seq = L at hL hV
  have hlen : (e.ukey ++ L ++ [if e.put = true then (1 : UInt8) else 0]).length = e.ukey.length + 9 := by
    simp [hL]
  have h1 : ¬ (e.ukey.length + 9 < 9) := by omega
  have h2 : e.ukey.length + 9 - 9 = e.ukey.length := by omega
  have h3 : e.ukey.length + 9 - 1 = e.ukey.length + 8 := by omega
  simp only [hlen, h1, if_false, h2, h3]
  rw [List.append_assoc, List.take_left, List.drop_left, List.take_left' hL, hV]
  have h4 : (e.ukey ++ (L ++ [if e.put = true then (1 : UInt8) else 0])).getD (e.ukey.length + 8) 0 =
      (if e.put = true then (1 : UInt8) else 0) := by
    rw [← List.append_assoc]
    have : (e.ukey ++ L).length = e.ukey.length + 8 := by simp [hL]
    rw [← this]
    simp [List.getD_eq_getElem?_getD]
  rw [h4]
  cases e.put <;> simp

theorem mapM_decode (es : List Entry) (hseq : ∀ e ∈ es, e.seq < 2 ^ 64) :
    (es.map fun e => (encodeKey e, e.val)).mapM (fun kv =>
      match decodeKey kv.1 with
      | some (u, s, p) => some ({ ukey := u, seq := s, put := p, val := kv.2 } : Entry)
      | none => none) = some es := by
  induction es with
  | nil => rfl
  | cons e rest ih =>
    have h1 := decodeKey_encodeKey e (hseq e List.mem_cons_self)
    have h2 := ih (fun x hx => hseq x (List.mem_cons_of_mem _ hx))
    simp only [List.map_cons, List.mapM_cons, h1, h2]
    rfl

/-
Original statement (false for `es = []`, see `block_roundtrip_partial`):

  theorem entry_block_roundtrip (r : Nat) (hr : 0 < r) (es : List Entry)
      (hseq : ∀ e ∈ es, e.seq < 2^64) (hsize : (encodeBlock r es).length < 2^32) :
      decodeBlock (encodeBlock r es) = some es
-/
theorem entry_block_roundtrip_partial (r : Nat) (hr : 0 < r) (es : List Entry) (hnonempty : es ≠ [])
    (hseq : ∀ e ∈ es, e.seq < 2 ^ 64) (hsize : (encodeBlock r es).length < 2 ^ 32) :
    decodeBlock (encodeBlock r es) = some es := by
  unfold decodeBlock encodeBlock
  rw [block_roundtrip_partial r hr _ (by simpa using hnonempty) hsize]
  exact mapM_decode es hseq

end Rain.Block.Lemmas
