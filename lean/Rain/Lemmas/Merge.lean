import Rain.Lemmas.MergeRel
/-
C04, merging iterator: every program keeps the merging iterator at the flat cursor's position.
-/
set_option linter.unusedSectionVars false
namespace Rain.Merge.Lemmas
open Rain Rain.Lsm Rain.Table Rain.Merge Rain.OrderIter Rain.Cut Rain.MergeFind Rain.MergePick
  Rain.MergeSorted Rain.MergeRel

theorem mapIdx_getD (children : List (List Entry)) (pos : List Nat) (f : Nat → List Entry → Nat → Nat)
    {i : Nat} (hi : i < children.length) :
    (mapIdx children pos f).getD i 0 = f i (children.getD i []) (pos.getD i 0) := by
  simp [mapIdx, List.getD, List.getElem?_map, List.getElem?_range hi]

theorem keysOf_length (es : List Entry) : (keysOf es).length = es.length := by simp [keysOf]

theorem predPos_self (n : Nat) : predPos n n = n - 1 := by
  unfold predPos; split <;> omega

theorem cnt_le_eq_lt {es : List Entry} {e : Entry} (h : ∀ x ∈ es, x.key ≠ e.key) :
    cnt (leKey e.key) es = cnt (ltKey e.key) es := by
  apply cnt_congr
  intro x hx
  simp only [leKey, ltKey]
  cases h1 : kLt e.key x.key
  · cases h2 : kLt x.key e.key
    · exact absurd (kLt_total h2 h1) (h x hx)
    · rfl
  · simp [kLt_asymm h1]

theorem blockPrev_eq (p len : Nat) (h : p < len) :
    (if p = 0 ∨ len ≤ p then len else p - 1) = predPos p len := by
  unfold predPos; split <;> split <;> omega

section
variable {children : List (List Entry)} (hs : ∀ c ∈ children, Sorted c)
  (hd : (children.flatten.map Entry.key).Nodup)
include hs hd

theorem step_seek (s : MState) (p : Nat) (t : Bytes × Nat) :
    Rel children (mergeStep children s (.seek t)) (flatStep (merged children) p (.seek t)) := by
  have : flatStep (merged children) p (.seek t) = cnt (ltKey t) (merged children) := by
    simp only [flatStep, blockStep]
    exact lowerBound_eq_cnt (merged children) t
  rw [this]
  simp only [mergeStep]
  apply fwd_result hs hd (lowerSet_ltKey t)
  intro i hi
  rw [mapIdx_getD _ _ _ hi, lowerBound_eq_cnt]; rfl

theorem step_first (s : MState) (p : Nat) :
    Rel children (mergeStep children s .first) (flatStep (merged children) p .first) := by
  have : flatStep (merged children) p .first = cnt (fun _ => false) (merged children) := by
    simp [flatStep, blockStep, cnt_false]
  rw [this]
  simp only [mergeStep]
  apply fwd_result hs hd lowerSet_false
  intro i hi
  rw [mapIdx_getD _ _ _ hi, cnt_false]

theorem step_last (s : MState) (p : Nat) :
    Rel children (mergeStep children s .last) (flatStep (merged children) p .last) := by
  have : flatStep (merged children) p .last
      = predPos (cnt (fun _ => true) (merged children)) (merged children).length := by
    simp [flatStep, blockStep, cnt_true, predPos_self]
  rw [this]
  simp only [mergeStep]
  apply bwd_result hs hd lowerSet_true
  intro i hi
  rw [mapIdx_getD _ _ _ hi, cnt_true, predPos_self]

theorem step_invalid {s : MState} (h : s.current children = none) (op : COp)
    (hop : op = .next ∨ op = .prev) : mergeStep children s op = s := by
  rcases hop with rfl | rfl <;> simp only [mergeStep, h] <;> split <;> simp_all

theorem step_next {s : MState} {p : Nat} (h : Rel children s p) :
    Rel children (mergeStep children s .next) (flatStep (merged children) p .next) := by
  rcases h with ⟨h1, h2⟩ | ⟨c, e, h1, h2, h3, h4, h5, h6⟩
  · rw [step_invalid hs hd h2 _ (.inl rfl)]
    left
    refine ⟨?_, h2⟩
    simp only [flatStep, blockStep, List.length_map]
    split <;> omega
  · have hcur : s.current children = some e := by simp only [MState.current, h2]; exact h4
    have hp : p < (merged children).length := (List.getElem?_eq_some_iff.mp h1).1
    have hflat : flatStep (merged children) p .next = cnt (leKey e.key) (merged children) := by
      simp only [flatStep, blockStep, List.length_map]
      rw [if_neg (by omega)]
      exact (cnt_le_of_get (sorted_merged hs hd) h1).symm
    rw [hflat]
    simp only [mergeStep, h2, hcur]
    apply fwd_result hs hd (lowerSet_leKey e.key)
    intro i hi
    have hec : e ∈ children.getD c [] := List.mem_of_getElem? h4
    rw [mapIdx_getD _ _ _ hi]
    by_cases hic : i = c
    · subst hic
      simp only [if_true]
      have hpc : s.pos.getD i 0 < (children.getD i []).length := (List.getElem?_eq_some_iff.mp h4).1
      have hpos1 : (if (s.dir == Dir.bwd) = true then
          mapIdx children s.pos fun i_1 es p =>
            if i_1 = i then p else
              if (Option.map Entry.key es[lowerBound (keysOf es) e.key]? == some e.key) = true
              then lowerBound (keysOf es) e.key + 1 else lowerBound (keysOf es) e.key
          else s.pos).getD i 0 = s.pos.getD i 0 := by
        split
        · rw [mapIdx_getD _ _ _ hi]; simp
        · rfl
      rw [hpos1]
      simp only [blockStep, keysOf_length]
      rw [if_neg (by omega)]
      exact (cnt_le_of_get (child_sorted hs i) h4).symm
    · simp only [hic, if_false]
      have hdis : ∀ x ∈ children.getD i [], x.key ≠ e.key := fun x hx => keys_disjoint hd hic hx hec
      rw [cnt_le_eq_lt hdis]
      cases hdir : s.dir with
      | fwd =>
        simp only [show (Dir.fwd == Dir.bwd) = false from rfl]
        exact h5 hdir i hi hic
      | bwd =>
        simp only [show (Dir.bwd == Dir.bwd) = true from rfl, if_true]
        rw [mapIdx_getD _ _ _ hi]
        simp only [hic, if_false]
        rw [lowerBound_eq_cnt]
        have : (Option.map Entry.key (children.getD i [])[cnt (fun x => kLt x.key e.key) (children.getD i [])]?
            == some e.key) = false := by
          cases hx : (children.getD i [])[cnt (fun x => kLt x.key e.key) (children.getD i [])]? with
          | none => rfl
          | some x =>
            simp only [Option.map_some, beq_eq_false_iff_ne, ne_eq, Option.some.injEq]
            exact hdis x (List.mem_of_getElem? hx)
        rw [this]
        rfl

theorem step_prev {s : MState} {p : Nat} (h : Rel children s p) :
    Rel children (mergeStep children s .prev) (flatStep (merged children) p .prev) := by
  rcases h with ⟨h1, h2⟩ | ⟨c, e, h1, h2, h3, h4, h5, h6⟩
  · rw [step_invalid hs hd h2 _ (.inr rfl)]
    left
    refine ⟨?_, h2⟩
    simp only [flatStep, blockStep, List.length_map]
    split <;> omega
  · have hcur : s.current children = some e := by simp only [MState.current, h2]; exact h4
    have hp : p < (merged children).length := (List.getElem?_eq_some_iff.mp h1).1
    have hflat : flatStep (merged children) p .prev
        = predPos (cnt (ltKey e.key) (merged children)) (merged children).length := by
      simp only [flatStep, blockStep, List.length_map]
      have : cnt (ltKey e.key) (merged children) = p := cnt_lt_of_get (sorted_merged hs hd) h1
      rw [this]
      exact blockPrev_eq p _ hp
    rw [hflat]
    simp only [mergeStep, h2, hcur]
    apply bwd_result hs hd (lowerSet_ltKey e.key)
    intro i hi
    have hec : e ∈ children.getD c [] := List.mem_of_getElem? h4
    rw [mapIdx_getD _ _ _ hi]
    by_cases hic : i = c
    · subst hic
      simp only [if_true]
      have hpc : s.pos.getD i 0 < (children.getD i []).length := (List.getElem?_eq_some_iff.mp h4).1
      have hpos1 : (if (s.dir == Dir.fwd) = true then
          mapIdx children s.pos fun i_1 es p =>
            if i_1 = i then p else
              if lowerBound (keysOf es) e.key < es.length
              then blockStep (keysOf es) (lowerBound (keysOf es) e.key) COp.prev else es.length - 1
          else s.pos).getD i 0 = s.pos.getD i 0 := by
        split
        · rw [mapIdx_getD _ _ _ hi]; simp
        · rfl
      rw [hpos1]
      have : cnt (ltKey e.key) (children.getD i []) = s.pos.getD i 0 := cnt_lt_of_get (child_sorted hs i) h4
      rw [this]
      simp only [blockStep, keysOf_length]
      exact blockPrev_eq _ _ hpc
    · simp only [hic, if_false]
      cases hdir : s.dir with
      | bwd =>
        simp only [show (Dir.bwd == Dir.fwd) = false from rfl]
        exact h6 hdir i hi hic
      | fwd =>
        simp only [show (Dir.fwd == Dir.fwd) = true from rfl, if_true]
        rw [mapIdx_getD _ _ _ hi]
        simp only [hic, if_false]
        rw [lowerBound_eq_cnt]
        show (if cnt (ltKey e.key) (children.getD i []) < (children.getD i []).length
            then blockStep (keysOf (children.getD i [])) (cnt (ltKey e.key) (children.getD i [])) COp.prev
            else (children.getD i []).length - 1) = _
        have hle := cnt_le (ltKey e.key) (children.getD i [])
        generalize cnt (ltKey e.key) (children.getD i []) = q at *
        simp only [blockStep, keysOf_length]
        by_cases hq : q < (children.getD i []).length
        · rw [if_pos hq]
          exact blockPrev_eq _ _ hq
        · rw [if_neg hq]
          have : q = (children.getD i []).length := by omega
          rw [this, predPos_self]

theorem step_rel {s : MState} {p : Nat} (h : Rel children s p) (op : COp) :
    Rel children (mergeStep children s op) (flatStep (merged children) p op) := by
  cases op with
  | seek t => exact step_seek hs hd s p t
  | first => exact step_first hs hd s p
  | last => exact step_last hs hd s p
  | next => exact step_next hs hd h
  | prev => exact step_prev hs hd h

theorem run_rel (ops : List COp) {s : MState} {p : Nat} (h : Rel children s p) :
    Rel children (ops.foldl (mergeStep children) s) (ops.foldl (flatStep (merged children)) p) := by
  induction ops generalizing s p with
  | nil => exact h
  | cons op ops ih => exact ih (step_rel hs hd h op)

end

theorem init_rel (children : List (List Entry)) :
    Rel children (MState.init children) (merged children).length :=
  .inl ⟨Nat.le_refl _, rfl⟩

theorem sortedE_merged (children : List (List Entry)) (hs : ∀ c ∈ children, sortedE c = true)
    (hd : (children.flatten.map Entry.key).Nodup) : sortedE (merged children) = true :=
  (sortedE_iff _).mpr (sorted_merged (fun c hc => (sortedE_iff c).mp (hs c hc)) hd)

theorem merge_refines (children : List (List Entry)) (hs : ∀ c ∈ children, sortedE c = true)
    (hd : (children.flatten.map Entry.key).Nodup) (ops : List COp) :
    (ops.foldl (mergeStep children) (MState.init children)).current children
      = (merged children)[ops.foldl (flatStep (merged children)) (merged children).length]? :=
  (run_rel (fun c hc => (sortedE_iff c).mp (hs c hc)) hd ops (init_rel children)).current

end Rain.Merge.Lemmas
