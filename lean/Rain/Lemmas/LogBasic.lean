import Rain.Log
/-
Byte-level facts for the log model: little-endian round trips, checksum masking, the layout of an
emitted physical record.
-/
namespace Rain.Log
open Rain

theorem unmask_mask (x : Nat) (hx : x < 2^32) : unmaskCrc (maskCrc x) = x := by
  simp only [unmaskCrc, maskCrc, DELTA, Rain.Gen.CRC_MASKING_DELTA, Rain.Gen.CRC_MASK_SHR,
    Rain.Gen.CRC_MASK_SHL, Rain.Gen.CRC_UNMASK_SHR, Rain.Gen.CRC_UNMASK_SHL]
  have hq : x / 2^15 < 2^17 := by omega
  have hr : x % 2^15 < 2^15 := by omega
  generalize hy : x / 2 ^ 15 + x % 2 ^ 15 * 2 ^ 17 = y
  have hy2 : y < 2^32 := by omega
  have h1 : ((y + 2726488792) % 2 ^ 32 + 2 ^ 32 - 2726488792) % 2 ^ 32 = y := by omega
  rw [h1]
  omega

theorem maskCrc_lt (x : Nat) : maskCrc x < 2^32 := by
  unfold maskCrc
  exact Nat.mod_lt _ (by decide)

theorem toUInt8_toNat (v : Nat) (h : v < 256) : (v.toUInt8).toNat = v := by
  simp [Nat.toUInt8, UInt8.toNat, UInt8.ofNat, Nat.mod_eq_of_lt h]

theorem leBytes_length (n v : Nat) : (leBytes n v).length = n := by
  induction n generalizing v with
  | zero => rfl
  | succ n ih => simp [leBytes, ih]

theorem leVal_leBytes (n v : Nat) (h : v < 256 ^ n) : leVal (leBytes n v) = v := by
  induction n generalizing v with
  | zero => simp at h; simp [leBytes, leVal, h]
  | succ n ih =>
    have h1 : v / 256 < 256 ^ n := by
      rw [Nat.div_lt_iff_lt_mul (by decide)]; rw [Nat.pow_succ] at h; exact h
    simp only [leBytes, leVal, ih _ h1]
    rw [toUInt8_toNat _ (Nat.mod_lt _ (by decide))]
    omega


def hdrOf (c : Cfg) (ty : Nat) (chunk : Bytes) : Bytes :=
  leBytes 4 (maskCrc (c.crc chunk)) ++ leBytes 2 chunk.length ++ [ty.toUInt8]

theorem emit_eq (c : Cfg) (ty : Nat) (chunk : Bytes) : emit c ty chunk = hdrOf c ty chunk ++ chunk := rfl

theorem hdrOf_length (c : Cfg) (ty : Nat) (chunk : Bytes) : (hdrOf c ty chunk).length = H := by
  simp [hdrOf, leBytes_length, H]

theorem emit_length (c : Cfg) (ty : Nat) (chunk : Bytes) : (emit c ty chunk).length = H + chunk.length := by
  simp [emit_eq, hdrOf_length]

/-- the reader's view when no trailer has to be skipped, on input that starts with a 7-byte header -/
theorem readPhysical_hdr (c : Cfg) (hdr body : Bytes) (boff : Nat) (hh : hdr.length = H)
    (hskip : H ≤ c.B - boff) :
    readPhysical c (hdr ++ body) boff =
      if body.length < leVal ((hdr.drop 4).take 2) then .eof else
      if 3 < (hdr.getD 6 0).toNat then
        .bad (body.drop (leVal ((hdr.drop 4).take 2))) ((boff + H + leVal ((hdr.drop 4).take 2)) % c.B)
      else if unmaskCrc (leVal (hdr.take 4)) ≠ c.crc (body.take (leVal ((hdr.drop 4).take 2))) then
        .bad (body.drop (leVal ((hdr.drop 4).take 2))) ((boff + H + leVal ((hdr.drop 4).take 2)) % c.B)
      else .ok (hdr.getD 6 0).toNat (body.take (leVal ((hdr.drop 4).take 2)))
        (body.drop (leVal ((hdr.drop 4).take 2))) ((boff + H + leVal ((hdr.drop 4).take 2)) % c.B) := by
  unfold readPhysical
  have hs : (decide (c.B - boff < H) && decide (0 < c.B - boff)) = false := by
    simp; omega
  have h1 : ¬ ((hdr ++ body).length < H) := by simp [hh]
  have h2 : (hdr ++ body).take H = hdr := by rw [← hh]; exact List.take_left
  have h3 : (hdr ++ body).drop H = body := by rw [← hh]; exact List.drop_left
  simp only [hs, Bool.false_and, Bool.false_eq_true, if_false, h1, h2, h3]


theorem hdrOf_len (c : Cfg) (ty : Nat) (chunk : Bytes) (hlen : chunk.length < 65536) :
    leVal (((hdrOf c ty chunk).drop 4).take 2) = chunk.length := by
  have : ((hdrOf c ty chunk).drop 4).take 2 = leBytes 2 chunk.length := by
    simp [hdrOf, leBytes]
  rw [this, leVal_leBytes _ _ (by simpa using hlen)]

theorem hdrOf_ty (c : Cfg) (ty : Nat) (chunk : Bytes) (hty : ty ≤ 3) :
    ((hdrOf c ty chunk).getD 6 0).toNat = ty := by
  have : (hdrOf c ty chunk).getD 6 0 = ty.toUInt8 := by
    simp [hdrOf, leBytes]
  rw [this, toUInt8_toNat _ (by omega)]

theorem hdrOf_crc (c : Cfg) (ty : Nat) (chunk : Bytes) (hcrc : ∀ d, c.crc d < 2^32) :
    unmaskCrc (leVal ((hdrOf c ty chunk).take 4)) = c.crc chunk := by
  have : (hdrOf c ty chunk).take 4 = leBytes 4 (maskCrc (c.crc chunk)) := by
    simp [hdrOf, leBytes]
  rw [this, leVal_leBytes _ _ (by have := maskCrc_lt (c.crc chunk); simpa using this),
    unmask_mask _ (hcrc _)]

/-- a complete emitted record is read back -/
theorem readPhysical_emit (c : Cfg) (hcrc : ∀ d, c.crc d < 2^32) (ty : Nat) (hty : ty ≤ 3)
    (chunk tail : Bytes) (boff : Nat) (hlen : chunk.length < 65536) (hskip : H ≤ c.B - boff) :
    readPhysical c (emit c ty chunk ++ tail) boff
      = .ok ty chunk tail ((boff + H + chunk.length) % c.B) := by
  rw [emit_eq, List.append_assoc, readPhysical_hdr c _ _ _ (hdrOf_length c ty chunk) hskip,
    hdrOf_len c ty chunk hlen, hdrOf_ty c ty chunk hty]
  have h1 : ¬ ((chunk ++ tail).length < chunk.length) := by simp
  have h2 : ¬ (3 < ty) := by omega
  rw [if_neg h1, if_neg h2, List.take_left, List.drop_left, hdrOf_crc c ty chunk hcrc]
  simp

/-- a truncated emitted record reads as end of file -/
theorem readPhysical_emit_cut (c : Cfg) (ty : Nat) (chunk : Bytes) (boff m : Nat)
    (hlen : chunk.length < 65536) (hskip : H ≤ c.B - boff) (hm : m < H + chunk.length) :
    readPhysical c ((emit c ty chunk).take m) boff = .eof := by
  by_cases hmH : m < H
  · unfold readPhysical
    have hs : (decide (c.B - boff < H) && decide (0 < c.B - boff)) = false := by
      simp; omega
    have h1 : ((emit c ty chunk).take m).length < H := by
      simp [emit_length]; omega
    simp only [hs, Bool.false_and, Bool.false_eq_true, if_false, h1, if_true]
  · have he : (emit c ty chunk).take m = hdrOf c ty chunk ++ chunk.take (m - H) := by
      rw [emit_eq, List.take_append, hdrOf_length, List.take_of_length_le (by rw [hdrOf_length]; omega)]
    rw [he, readPhysical_hdr c _ _ _ (hdrOf_length c ty chunk) hskip, hdrOf_len c ty chunk hlen]
    have h1 : (chunk.take (m - H)).length < chunk.length := by
      simp; omega
    rw [if_pos h1]


/-! ### the writer's view of a block offset -/

/-- offset at which the next header is written (`off1` of `appendLoop`) -/
def offA (c : Cfg) (off : Nat) : Nat := if c.B - off < H then 0 else off

/-- the trailer padding written before the next header, as a list of writes -/
def padL (c : Cfg) (off : Nat) : List Bytes :=
  if c.B - off < H ∧ 0 < c.B - off then [List.replicate (c.B - off) 0] else []

/-- payload bytes available in the current block -/
def spaceA (c : Cfg) (off : Nat) : Nat := c.B - offA c off - H

theorem padL_flatten_length (c : Cfg) (off : Nat) :
    (padL c off).flatten.length = if c.B - off < H then c.B - off else 0 := by
  unfold padL
  by_cases h1 : c.B - off < H
  · by_cases h2 : 0 < c.B - off
    · simp [h1, h2]
    · simp [h1, h2]; omega
  · simp [h1]

theorem offA_le (c : Cfg) (off : Nat) (hoff : off ≤ c.B) : offA c off ≤ c.B := by
  unfold offA; split <;> omega

theorem offA_space (c : Cfg) (hB : H < c.B) (off : Nat) (hoff : off ≤ c.B) :
    offA c off + H + spaceA c off = c.B := by
  unfold spaceA offA; split <;> omega

theorem offA_noskip (c : Cfg) (hB : H < c.B) (off : Nat) :
    H ≤ c.B - offA c off % c.B := by
  unfold offA
  split
  · simp; omega
  · rename_i h
    have hH : H = 7 := rfl
    rw [Nat.mod_eq_of_lt (by omega)]; omega

theorem offA_mod (c : Cfg) (off : Nat) : offA c off % c.B = offA c off := by
  unfold offA
  split
  · simp
  · have hH : H = 7 := rfl
    exact Nat.mod_eq_of_lt (by omega)

/-- writer offset after padding is congruent to the next header offset -/
theorem pad_mod (c : Cfg) (off : Nat) (hoff : off ≤ c.B) (x : Nat) :
    (off + (padL c off).flatten.length + x) % c.B = (offA c off + x) % c.B := by
  rw [padL_flatten_length]
  unfold offA
  by_cases h1 : c.B - off < H
  · simp only [h1, if_true]
    have : off + (c.B - off) + x = c.B + x := by omega
    rw [this, Nat.add_mod_left]; simp
  · simp [h1]

/-- input shorter than the trailer that must be skipped reads as end of file -/
theorem readPhysical_short (c : Cfg) (rest : Bytes) (boff : Nat)
    (h1 : c.B - boff < H) (h2 : rest.length < c.B - boff) : readPhysical c rest boff = .eof := by
  unfold readPhysical
  have hs : (decide (c.B - boff < H) && decide (0 < c.B - boff)) = true := by
    simp; omega
  simp only [hs, Bool.true_and, decide_eq_true_eq, h2, if_true]

/-- the reader skips exactly the padding the writer wrote -/
theorem readPhysical_pad (c : Cfg) (hB : H < c.B) (off : Nat) (hoff : off ≤ c.B) (X : Bytes) :
    readPhysical c ((padL c off).flatten ++ X) (off % c.B) = readPhysical c X (offA c off) := by
  unfold padL offA
  by_cases h1 : c.B - off < H
  · by_cases h2 : 0 < c.B - off
    · have hm : off % c.B = off := Nat.mod_eq_of_lt (by omega)
      simp only [h1, h2, and_self, if_true, List.flatten_cons, List.flatten_nil, List.append_nil, hm]
      unfold readPhysical
      have hs : (decide (c.B - off < H) && decide (0 < c.B - off)) = true := by
        simp; omega
      have hs0 : (decide (c.B - 0 < H) && decide (0 < c.B - 0)) = false := by
        simp; omega
      have hl : ¬ ((List.replicate (c.B - off) (0:UInt8) ++ X).length < c.B - off) := by simp
      have hd : (List.replicate (c.B - off) (0:UInt8) ++ X).drop (c.B - off) = X := by
        apply List.drop_left'; simp
      simp only [hs, hs0, Bool.true_and, decide_eq_true_eq, hl, if_false, if_true, hd,
        Bool.false_and, Bool.false_eq_true]
    · have : off = c.B := by omega
      subst this
      have hH : 0 < H := by decide
      simp [hH]
  · have hH : H = 7 := rfl
    simp [h1]
    rw [Nat.mod_eq_of_lt (by omega)]

end Rain.Log
