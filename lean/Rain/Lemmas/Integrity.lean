import Rain.Integrity
import Rain.Lemmas.LogBasic
/-
C15 lemmas: a table block reads back, any single-byte change or truncation of it is rejected;
a log fragment with one byte changed in the stored checksum or in the payload is reported `bad`.
The only assumption on the checksum is the hypothesis `DetectsOneByte`; a change inside the stored
checksum needs none, because `unmaskCrc ∘ leVal` is injective on 4-byte strings.
-/
namespace Rain.Integrity.Lemmas
open Rain Rain.Log Rain.Integrity

/-! ### masking is a bijection on 32-bit values; little-endian decoding is injective -/

theorem mask_unmask (m : Nat) (hm : m < 2^32) : maskCrc (unmaskCrc m) = m := by
  simp only [unmaskCrc, maskCrc, DELTA, Rain.Gen.CRC_MASKING_DELTA, Rain.Gen.CRC_MASK_SHR,
    Rain.Gen.CRC_MASK_SHL, Rain.Gen.CRC_UNMASK_SHR, Rain.Gen.CRC_UNMASK_SHL]
  have hr : (m + 2 ^ 32 - 2726488792) % 2 ^ 32 < 2^32 := Nat.mod_lt _ (by decide)
  have hm' : ((m + 2 ^ 32 - 2726488792) % 2 ^ 32 + 2726488792) % 2^32 = m := by omega
  generalize (m + 2 ^ 32 - 2726488792) % 2 ^ 32 = r at hr hm'
  generalize hu : r / 2 ^ 17 + r % 2 ^ 17 * 2 ^ 15 = u
  have h1 : u / 2 ^ 15 + u % 2 ^ 15 * 2 ^ 17 = r := by omega
  rw [h1, hm']

/-- `unmaskCrc` is injective on 32-bit values -/
theorem unmaskCrc_inj (a b : Nat) (ha : a < 2^32) (hb : b < 2^32) (h : unmaskCrc a = unmaskCrc b) :
    a = b := by
  rw [← mask_unmask a ha, ← mask_unmask b hb, h]

theorem leVal_lt (bs : Bytes) : leVal bs < 256 ^ bs.length := by
  induction bs with
  | nil => simp [leVal]
  | cons b bs ih =>
    have := UInt8.toNat_lt b
    simp only [leVal, List.length_cons, Nat.pow_succ]
    omega

theorem leBytes_leVal (bs : Bytes) : leBytes bs.length (leVal bs) = bs := by
  induction bs with
  | nil => rfl
  | cons b bs ih =>
    have hb := UInt8.toNat_lt b
    have h1 : (b.toNat + 256 * leVal bs) % 256 = b.toNat := by omega
    have h2 : (b.toNat + 256 * leVal bs) / 256 = leVal bs := by omega
    simp only [List.length_cons, leVal, leBytes, h1, h2, ih]
    simp

theorem leVal_inj (as bs : Bytes) (hl : as.length = bs.length) (h : leVal as = leVal bs) : as = bs := by
  rw [← leBytes_leVal as, ← leBytes_leVal bs, hl, h]

theorem getD_set_self (bs : Bytes) (j : Nat) (v : UInt8) (hj : j < bs.length) : (bs.set j v).getD j 0 = v := by
  rw [List.getD_eq_getElem?_getD, List.getElem?_set_self hj]; rfl

theorem set_ne (bs : Bytes) (j : Nat) (v : UInt8) (hj : j < bs.length) (hv : v ≠ bs.getD j 0) :
    bs.set j v ≠ bs := by
  intro h
  apply hv
  rw [← getD_set_self bs j v hj, h]

theorem getD_append_left (as bs : Bytes) (i : Nat) (h : i < as.length) : (as ++ bs).getD i 0 = as.getD i 0 := by
  rw [List.getD_eq_getElem?_getD, List.getD_eq_getElem?_getD, List.getElem?_append_left h]

theorem getD_append_right (as bs : Bytes) (i : Nat) (h : as.length ≤ i) :
    (as ++ bs).getD i 0 = bs.getD (i - as.length) 0 := by
  rw [List.getD_eq_getElem?_getD, List.getD_eq_getElem?_getD, List.getElem?_append_right h]

/-- one changed byte of a stored (masked, little-endian, 4-byte) checksum changes its unmasked value -/
theorem stored_detects (sb : Bytes) (hl : sb.length = 4) (j : Nat) (v : UInt8) (hj : j < sb.length)
    (hv : v ≠ sb.getD j 0) : unmaskCrc (leVal (sb.set j v)) ≠ unmaskCrc (leVal sb) := by
  intro h
  have h1 := leVal_lt sb
  have h2 := leVal_lt (sb.set j v)
  rw [List.length_set] at h2
  rw [hl] at h1 h2
  have := unmaskCrc_inj _ _ (by omega) (by omega) h
  exact set_ne sb j v hj hv (leVal_inj _ _ (by rw [List.length_set]) this)

/-- what the stored checksum of a written block / fragment unmasks to -/
theorem stored_ok (crc : Bytes → Nat) (hcrc : ∀ d, crc d < 2^32) (d : Bytes) :
    unmaskCrc (leVal (leBytes 4 (maskCrc (crc d)))) = crc d := by
  rw [leVal_leBytes _ _ (by have := maskCrc_lt (crc d); simpa using this), unmask_mask _ (hcrc _)]

/-! ### table blocks -/

theorem writeBlock_length (crc : Bytes → Nat) (contents : Bytes) (ctype : UInt8) :
    (writeBlock crc contents ctype).length = contents.length + 5 := by
  simp [writeBlock, leBytes_length]

/-- the reader on a body of `size + 1` bytes followed by 4 stored bytes -/
theorem readBlock_append (crc : Bytes → Nat) (body sb : Bytes) (size : Nat) (hb : body.length = size + 1)
    (hs : sb.length = 4) :
    readBlock crc (body ++ sb) size =
      if unmaskCrc (leVal sb) ≠ crc body then none else some (body.take size, body.getD size 0) := by
  unfold readBlock
  have h1 : ¬ ((body ++ sb).length ≠ size + 5) := by rw [List.length_append]; omega
  rw [if_neg h1, ← hb, List.take_left, List.drop_left]

theorem block_roundtrip (crc : Bytes → Nat) (hcrc : ∀ d, crc d < 2^32) (contents : Bytes) (ctype : UInt8) :
    readBlock crc (writeBlock crc contents ctype) contents.length = some (contents, ctype) := by
  unfold writeBlock
  rw [readBlock_append crc _ _ _ (by simp) (leBytes_length _ _), stored_ok crc hcrc]
  simp

theorem block_detects (crc : Bytes → Nat) (hcrc : ∀ d, crc d < 2^32) (hdet : DetectsOneByte crc)
    (contents : Bytes) (ctype : UInt8) (i : Nat) (v : UInt8)
    (hi : i < (writeBlock crc contents ctype).length) (hv : v ≠ (writeBlock crc contents ctype).getD i 0) :
    readBlock crc (setByte (writeBlock crc contents ctype) i v) contents.length = none := by
  rw [writeBlock_length] at hi
  unfold writeBlock setByte at *
  have hbl : (contents ++ [ctype]).length = contents.length + 1 := by simp
  have hsl := leBytes_length 4 (maskCrc (crc (contents ++ [ctype])))
  rw [List.set_append]
  by_cases h : i < (contents ++ [ctype]).length
  · -- contents or compression byte changed: the checksum of the body changes
    rw [if_pos h, readBlock_append crc _ _ _ (by rw [List.length_set, hbl]) hsl, stored_ok crc hcrc]
    rw [getD_append_left _ _ _ h] at hv
    rw [if_pos (fun e => hdet _ i v h hv e.symm)]
  · -- a byte of the stored checksum changed
    rw [if_neg h, readBlock_append crc _ _ _ hbl (by rw [List.length_set, hsl])]
    rw [getD_append_right _ _ _ (by omega)] at hv
    have := stored_detects _ hsl (i - (contents ++ [ctype]).length) v (by omega) hv
    rw [stored_ok crc hcrc] at this
    rw [if_pos this]

theorem block_truncation (crc : Bytes → Nat) (contents : Bytes) (ctype : UInt8) (n : Nat)
    (hn : n < (writeBlock crc contents ctype).length) :
    readBlock crc ((writeBlock crc contents ctype).take n) contents.length = none := by
  rw [writeBlock_length] at hn
  unfold readBlock
  rw [if_pos]
  rw [List.length_take, writeBlock_length]
  omega

/-! ### log fragments -/

theorem length_four (sb : Bytes) (h : sb.length = 4) : ∃ a b c d, sb = [a, b, c, d] := by
  match sb, h with
  | [a, b, c, d], _ => exact ⟨a, b, c, d, rfl⟩

/-- the physical reader on a well-formed frame with an arbitrary stored checksum `sb` -/
theorem readPhysical_frame (c : Cfg) (sb : Bytes) (hs : sb.length = 4) (ty : Nat) (hty : ty ≤ 3)
    (chunk tail : Bytes) (hlen : chunk.length < 65536) (boff : Nat) (hskip : H ≤ c.B - boff) :
    readPhysical c ((sb ++ leBytes 2 chunk.length ++ [ty.toUInt8]) ++ (chunk ++ tail)) boff =
      if unmaskCrc (leVal sb) ≠ c.crc chunk then .bad tail ((boff + H + chunk.length) % c.B)
      else .ok ty chunk tail ((boff + H + chunk.length) % c.B) := by
  obtain ⟨a, b, c', d, rfl⟩ := length_four sb hs
  have hh : ([a, b, c', d] ++ leBytes 2 chunk.length ++ [ty.toUInt8]).length = H := by
    simp [leBytes_length, H]
  have h1 : leVal ((([a, b, c', d] ++ leBytes 2 chunk.length ++ [ty.toUInt8]).drop 4).take 2)
      = chunk.length := by
    have : (([a, b, c', d] ++ leBytes 2 chunk.length ++ [ty.toUInt8]).drop 4).take 2
        = leBytes 2 chunk.length := by simp [leBytes]
    rw [this, leVal_leBytes _ _ (by simpa using hlen)]
  have h2 : (([a, b, c', d] ++ leBytes 2 chunk.length ++ [ty.toUInt8]).getD 6 0).toNat = ty := by
    have : ([a, b, c', d] ++ leBytes 2 chunk.length ++ [ty.toUInt8]).getD 6 0 = ty.toUInt8 := by
      simp [leBytes]
    rw [this, toUInt8_toNat _ (by omega)]
  have h3 : ([a, b, c', d] ++ leBytes 2 chunk.length ++ [ty.toUInt8]).take 4 = [a, b, c', d] := by
    simp [leBytes]
  rw [readPhysical_hdr c _ _ _ hh hskip, h1, h2, h3, List.take_left, List.drop_left]
  rw [if_neg (by simp), if_neg (by omega)]

theorem emit_frame (c : Cfg) (ty : Nat) (chunk : Bytes) :
    emit c ty chunk = (leBytes 4 (maskCrc (c.crc chunk)) ++ leBytes 2 chunk.length ++ [ty.toUInt8]) ++ chunk :=
  rfl

theorem fragment_detects (c : Cfg) (hcrc : ∀ d, c.crc d < 2^32) (hdet : DetectsOneByte c.crc) (hB : H < c.B)
    (ty : Nat) (hty : ty ≤ 3) (chunk tail : Bytes) (_hlen : H + chunk.length ≤ c.B) (hlen2 : chunk.length < 65536)
    (i : Nat) (v : UInt8) (hi : i < (emit c ty chunk).length) (hfield : i < 4 ∨ 7 ≤ i)
    (hv : v ≠ (emit c ty chunk).getD i 0) :
    readPhysical c (setByte (emit c ty chunk) i v ++ tail) 0 = .bad tail ((H + chunk.length) % c.B) := by
  have hH : H = 7 := rfl
  have hsl := leBytes_length 4 (maskCrc (c.crc chunk))
  have hhl : (leBytes 4 (maskCrc (c.crc chunk)) ++ leBytes 2 chunk.length ++ [ty.toUInt8]).length = 7 := by
    simp [leBytes_length]
  rw [emit_length] at hi
  unfold setByte
  rcases hfield with h | h
  · -- a byte of the stored checksum changed
    have he : emit c ty chunk = leBytes 4 (maskCrc (c.crc chunk)) ++
        (leBytes 2 chunk.length ++ ([ty.toUInt8] ++ chunk)) := by
      rw [emit_frame]; simp only [List.append_assoc]
    rw [he, getD_append_left _ _ _ (by omega)] at hv
    rw [he, List.set_append, if_pos (by omega)]
    have := readPhysical_frame c ((leBytes 4 (maskCrc (c.crc chunk))).set i v)
      (by rw [List.length_set, hsl]) ty hty chunk tail hlen2 0 (by omega)
    simp only [List.append_assoc] at this ⊢
    rw [this]
    have hne := stored_detects _ hsl i v (by omega) hv
    rw [stored_ok c.crc hcrc] at hne
    rw [if_pos hne, Nat.zero_add]
  · -- a payload byte changed
    rw [emit_frame, getD_append_right _ _ _ (by omega), hhl] at hv
    rw [emit_frame, List.set_append, if_neg (by omega), hhl, List.append_assoc]
    have := readPhysical_frame c (leBytes 4 (maskCrc (c.crc chunk))) hsl ty hty (chunk.set (i - 7) v) tail
      (by rw [List.length_set]; exact hlen2) 0 (by omega)
    rw [List.length_set] at this
    rw [this, stored_ok c.crc hcrc]
    have hne := hdet chunk (i - 7) v (by omega) hv
    rw [if_pos (fun e => hne e.symm), Nat.zero_add]

end Rain.Integrity.Lemmas
