import Rain.Lemmas.LsmMerge
/-
Table compaction, part 1: what `validCompaction` guarantees, in propositional form; adding the
output files one by one.
-/
namespace Rain.Lsm.Lemmas
open Rain Rain.Lsm

/-! ### hull / minKey / maxKey -/

theorem minKey_eq_none {fs : List File} : minKey fs = none ↔ fs = [] := by
  cases fs with
  | nil => simp [minKey]
  | cons f fs => simp only [minKey]; split <;> simp

theorem maxKey_eq_none {fs : List File} : maxKey fs = none ↔ fs = [] := by
  cases fs with
  | nil => simp [maxKey]
  | cons f fs => simp only [maxKey]; split <;> simp

theorem hull_eq_none {fs : List File} : hull fs = none ↔ fs = [] := by
  cases fs with
  | nil => simp [hull]
  | cons f fs => simp only [hull]; split <;> simp

theorem minKey_le {fs : List File} {m : Bytes × Nat} (h : minKey fs = some m) :
    ∀ f ∈ fs, kLt f.smallest m = false := by
  induction fs generalizing m with
  | nil => simp [minKey] at h
  | cons a fs ih =>
    simp only [minKey] at h
    split at h
    · rename_i hn
      have := minKey_eq_none.mp hn
      subst this
      cases h
      intro f hf
      simp at hf; subst hf; exact k_st.irrefl _
    · rename_i m0 hm0
      have ih' := ih hm0
      cases h
      intro f hf
      by_cases hlt : kLt a.smallest m0 = true
      · simp only [hlt, if_true]
        rcases List.mem_cons.mp hf with rfl | hf
        · exact k_st.irrefl _
        · exact k_st.asymm (k_st.lt_of_lt_of_le hlt (ih' f hf))
      · have hlt' : kLt a.smallest m0 = false := by simpa using hlt
        simp only [hlt', Bool.false_eq_true, if_false]
        rcases List.mem_cons.mp hf with rfl | hf
        · exact hlt'
        · exact ih' f hf

theorem maxKey_ge {fs : List File} {m : Bytes × Nat} (h : maxKey fs = some m) :
    ∀ f ∈ fs, kLt m f.largest = false := by
  induction fs generalizing m with
  | nil => simp [maxKey] at h
  | cons a fs ih =>
    simp only [maxKey] at h
    split at h
    · rename_i hn
      have := maxKey_eq_none.mp hn
      subst this
      cases h
      intro f hf
      simp at hf; subst hf; exact k_st.irrefl _
    · rename_i m0 hm0
      have ih' := ih hm0
      cases h
      intro f hf
      by_cases hlt : kLt m0 a.largest = true
      · simp only [hlt, if_true]
        rcases List.mem_cons.mp hf with rfl | hf
        · exact k_st.irrefl _
        · exact k_st.asymm (k_st.lt_of_le_of_lt (ih' f hf) hlt)
      · have hlt' : kLt m0 a.largest = false := by simpa using hlt
        simp only [hlt', Bool.false_eq_true, if_false]
        rcases List.mem_cons.mp hf with rfl | hf
        · exact hlt'
        · exact ih' f hf

theorem hull_spec {fs : List File} {lo hi : Bytes} (h : hull fs = some (lo, hi)) :
    ∀ f ∈ fs, bytesLt f.smallest.1 lo = false ∧ bytesLt hi f.largest.1 = false := by
  induction fs generalizing lo hi with
  | nil => simp [hull] at h
  | cons a fs ih =>
    simp only [hull] at h
    split at h
    · rename_i hn
      have := hull_eq_none.mp hn
      subst this
      simp only [Option.some.injEq, Prod.mk.injEq] at h
      obtain ⟨rfl, rfl⟩ := h
      intro f hf
      simp at hf; subst hf; exact ⟨bytes_st.irrefl _, bytes_st.irrefl _⟩
    · rename_i lo0 hi0 hm0
      have ih' := ih hm0
      simp only [Option.some.injEq, Prod.mk.injEq] at h
      obtain ⟨rfl, rfl⟩ := h
      intro f hf
      constructor
      · by_cases hlt : bytesLt a.smallest.1 lo0 = true
        · simp only [hlt, if_true]
          rcases List.mem_cons.mp hf with rfl | hf
          · exact bytes_st.irrefl _
          · exact bytes_st.asymm (bytes_st.lt_of_lt_of_le hlt (ih' f hf).1)
        · have hlt' : bytesLt a.smallest.1 lo0 = false := by simpa using hlt
          simp only [hlt', Bool.false_eq_true, if_false]
          rcases List.mem_cons.mp hf with rfl | hf
          · exact hlt'
          · exact (ih' f hf).1
      · by_cases hlt : bytesLt hi0 a.largest.1 = true
        · simp only [hlt, if_true]
          rcases List.mem_cons.mp hf with rfl | hf
          · exact bytes_st.irrefl _
          · exact bytes_st.asymm (bytes_st.lt_of_le_of_lt (ih' f hf).2 hlt)
        · have hlt' : bytesLt hi0 a.largest.1 = false := by simpa using hlt
          simp only [hlt', Bool.false_eq_true, if_false]
          rcases List.mem_cons.mp hf with rfl | hf
          · exact hlt'
          · exact (ih' f hf).2

/-! ### how the remaining files relate to the inputs -/

def NoCommon (g f : File) : Prop := ∀ x ∈ g.entries, ∀ y ∈ f.entries, x.ukey ≠ y.ukey

/-- `g` lies entirely before all of `fs`, or entirely after them without sharing a user key -/
def Apart (g : File) (fs : List File) : Prop :=
  (∀ fe ∈ fs, kLt g.largest fe.smallest = true) ∨
  (∀ fe ∈ fs, kLt fe.largest g.smallest = true ∧ NoCommon g fe)

theorem noCommon_of_hull {g : File} {fs : List File} {lo hi : Bytes} (hg : FileOk g)
    (hfs : ∀ fe ∈ fs, FileOk fe) (hh : hull fs = some (lo, hi))
    (hno : userRangeOverlaps g lo hi = false) : ∀ fe ∈ fs, NoCommon g fe := by
  intro fe hfe x hx y hy e
  have hb := hull_spec hh fe hfe
  have hfo := hfs fe hfe
  apply no_key_of_no_overlap hg hno hx
  · rw [e]; exact bytes_st.le_trans hb.1 (hfo.ukey_ge hy)
  · rw [e]; exact bytes_st.le_trans (hfo.ukey_le hy) hb.2

theorem apart_of_outside {g : File} {fs : List File} {lo hi : Bytes × Nat} (hg : FileOk g)
    (hfs : ∀ fe ∈ fs, FileOk fe) (hmin : minKey fs = some lo) (hmax : maxKey fs = some hi)
    (hout : (kLt g.largest lo || kLt hi g.smallest) = true) (hb : g.smallest.1 ≠ hi.1) :
    Apart g fs := by
  simp only [Bool.or_eq_true] at hout
  rcases hout with h | h
  · left
    intro fe hfe
    exact k_st.lt_of_lt_of_le h (minKey_le hmin fe hfe)
  · right
    intro fe hfe
    have hle := maxKey_ge hmax fe hfe
    refine ⟨k_st.lt_of_le_of_lt hle h, ?_⟩
    intro x hx y hy e
    have h1 : bytesLt hi.1 g.smallest.1 = true := by
      rcases (kLt_def _ _).mp h with h | ⟨h, _⟩
      · exact h
      · exact absurd h.symm hb
    have h2 := bytes_st.lt_of_lt_of_le h1 (hg.ukey_ge hx)
    have h3 := bytes_st.le_trans ((hfs fe hfe).ukey_le hy) (kLe_fst_le hle)
    rw [e, h3] at h2; cases h2

theorem Apart.newerF {g : File} {fs : List File} (h : Apart g fs) (hg : FileOk g)
    (hfs : ∀ fe ∈ fs, FileOk fe) : ∀ fe ∈ fs, NewerF g fe := by
  intro fe hfe
  rcases h with h | h
  · exact newerF_of_before hg (hfs fe hfe) (h fe hfe)
  · intro x hx y hy e
    exact absurd e ((h fe hfe).2 x hx y hy)

/-! ### the pieces of a compaction -/

def cI0 (s : State) (c : Compaction) : List File := pick (lv s.levels c.level) c.inputs0
def cI1 (s : State) (c : Compaction) : List File := pick (lv s.levels (c.level + 1)) c.inputs1
def cR0 (s : State) (c : Compaction) : List File := unpick (lv s.levels c.level) c.inputs0
def cR1 (s : State) (c : Compaction) : List File := unpick (lv s.levels (c.level + 1)) c.inputs1
def cMerged (s : State) (c : Compaction) : List Entry :=
  mergeAll ((cI0 s c ++ cI1 s c).map File.entries)
def cKept (s : State) (c : Compaction) : List Entry :=
  dropLoop c.smallestSnapshot (isBaseLevel s.levels c.level) none (cMerged s c)
def cOuts (c : Compaction) : List File := c.outputs.map fun o => mkFile o.1 o.2

structure CompactV (s : State) (c : Compaction) : Prop where
  lvl : c.level + 1 < 7
  q_le : c.smallestSnapshot ≤ s.lastSeq
  r0_newer : ∀ g ∈ cR0 s c, ∀ fe ∈ cI0 s c, NewerF g fe
  r1_i0 : ∀ g ∈ cR1 s c, ∀ fe ∈ cI0 s c, NoCommon g fe
  r1_all : ∀ g ∈ cR1 s c, Apart g (cI0 s c ++ cI1 s c)
  outs_ne : ∀ o ∈ c.outputs, o.2 ≠ []
  outs_eq : (c.outputs.map Prod.snd).flatten = cKept s c
  outs_nodup : (c.outputs.map Prod.fst).Nodup
  outs_fresh : ∀ o ∈ c.outputs, ∀ j g, g ∈ lv s.levels j → g.num ≠ o.1

theorem mem_cI0 {s : State} {c : Compaction} {f : File} :
    f ∈ cI0 s c ↔ f ∈ lv s.levels c.level ∧ f.num ∈ c.inputs0 := by
  simp [cI0, pick, List.mem_filter]

theorem mem_cI1 {s : State} {c : Compaction} {f : File} :
    f ∈ cI1 s c ↔ f ∈ lv s.levels (c.level + 1) ∧ f.num ∈ c.inputs1 := by
  simp [cI1, pick, List.mem_filter]

theorem mem_cR0 {s : State} {c : Compaction} {f : File} :
    f ∈ cR0 s c ↔ f ∈ lv s.levels c.level ∧ f.num ∉ c.inputs0 := by
  simp [cR0, unpick, List.mem_filter]

theorem mem_cR1 {s : State} {c : Compaction} {f : File} :
    f ∈ cR1 s c ↔ f ∈ lv s.levels (c.level + 1) ∧ f.num ∉ c.inputs1 := by
  simp [cR1, unpick, List.mem_filter]

theorem compactV_of_valid {s : State} {c : Compaction} (h : InvP s)
    (hv : validCompaction s c = true) : CompactV s c := by
  unfold validCompaction at hv
  simp only [Bool.and_eq_true, decide_eq_true_eq, Bool.not_eq_true', List.all_eq_true] at hv
  obtain ⟨⟨⟨⟨⟨⟨⟨⟨⟨⟨⟨h1, h2⟩, h3⟩, h4⟩, h5⟩, h6⟩, h7⟩, h8⟩, h9⟩, h10⟩, h11⟩, h12⟩ := hv
  have hI0 : ∀ fe ∈ cI0 s c, FileOk fe := fun fe hfe => h.files _ fe (mem_cI0.mp hfe).1
  have hI1 : ∀ fe ∈ cI1 s c, FileOk fe := fun fe hfe => h.files _ fe (mem_cI1.mp hfe).1
  have hI01 : ∀ fe ∈ cI0 s c ++ cI1 s c, FileOk fe := by
    intro fe hfe
    rcases List.mem_append.mp hfe with hfe | hfe
    · exact hI0 fe hfe
    · exact hI1 fe hfe
  have hR0 : ∀ g ∈ cR0 s c, FileOk g := fun g hg => h.files _ g (mem_cR0.mp hg).1
  have hR1 : ∀ g ∈ cR1 s c, FileOk g := fun g hg => h.files _ g (mem_cR1.mp hg).1
  split at h8
  · rename_i lo hi loAll hiAll hhull hminA hmaxA
    change hull (cI0 s c) = some (lo, hi) at hhull
    change minKey (cI0 s c ++ cI1 s c) = some loAll at hminA
    change maxKey (cI0 s c ++ cI1 s c) = some hiAll at hmaxA
    simp only [Bool.and_eq_true, List.all_eq_true, Bool.not_eq_true', outside,
      beq_eq_false_iff_ne, ne_eq] at h8
    obtain ⟨⟨⟨h8a, h8b⟩, h8c⟩, h8d⟩ := h8
    refine ⟨h1, h3, ?_, ?_, ?_, ?_, h10, (distinctNums_iff _).mp h11, ?_⟩
    · intro g hg fe hfe
      by_cases h0 : c.level = 0
      · rw [if_pos h0] at h8a
        simp only [List.all_eq_true, Bool.or_eq_true, Bool.not_eq_true', decide_eq_true_eq] at h8a
        rcases h8a g hg with hno | hnum
        · intro x hx y hy e
          exact absurd e (noCommon_of_hull (hR0 g hg) hI0 hhull hno fe hfe x hx y hy)
        · exact h.order c.level c.level g fe (mem_cR0.mp hg).1 (mem_cI0.mp hfe).1
            (Or.inr ⟨h0, h0, hnum fe hfe⟩)
      · rw [if_neg h0] at h8a
        simp only [List.all_eq_true, Bool.or_eq_true, Bool.and_eq_true, Bool.not_eq_true',
          beq_eq_false_iff_ne, ne_eq] at h8a
        rcases h8a g hg fe hfe with hb | ⟨ha, hbd⟩
        · exact newerF_of_before (hR0 g hg) (hI0 fe hfe) hb
        · intro x hx y hy e
          exact absurd e (no_common_key_of_after (hR0 g hg) (hI0 fe hfe) ha hbd hx hy)
    · intro g hg
      exact noCommon_of_hull (hR1 g hg) hI0 hhull (h8c g hg)
    · intro g hg
      exact apart_of_outside (hR1 g hg) hI01 hminA hmaxA (h8b g hg) (h8d g hg)
    · intro o ho
      have := h9 o ho
      simpa using this
    · intro o ho j g hg hn
      have hc := h12 o ho
      have hm : (s.levels.flatten.map File.num).contains o.1 = true := by
        rw [List.contains_iff_mem]
        exact List.mem_map.mpr ⟨g, mem_flatten_iff_lv.mpr ⟨j, hg⟩, hn⟩
      rw [hm] at hc; cases hc
  · cases h8

/-- the levels after the inputs are removed -/
def cL2 (s : State) (c : Compaction) : List (List File) :=
  removeNums (removeNums s.levels c.level c.inputs0) (c.level + 1) c.inputs1

/-- the levels after the compaction -/
def cL' (s : State) (c : Compaction) : List (List File) :=
  (cOuts c).foldl (fun ls f => addToLevel ls (c.level + 1) f) (cL2 s c)

theorem compact_cases {s s' : State} {c : Compaction} (hs : stepCompact s c = some s') :
    validCompaction s c = true ∧ s' = { s with levels := cL' s c } := by
  unfold stepCompact at hs
  split at hs
  · rename_i hv
    simp only [Option.some.injEq] at hs
    exact ⟨hv, hs.symm⟩
  · cases hs

/-! ### adding the outputs one by one -/

theorem mem_lv_foldAdd (outs : List File) (Lc : List (List File)) {t : Nat} (ht : t < Lc.length)
    (j : Nat) (g : File) :
    g ∈ lv (outs.foldl (fun ls f => addToLevel ls t f) Lc) j ↔ g ∈ lv Lc j ∨ (j = t ∧ g ∈ outs) := by
  induction outs generalizing Lc with
  | nil => simp
  | cons o outs ih =>
    simp only [List.foldl_cons]
    rw [ih (addToLevel Lc t o) (by rw [addToLevel_length]; exact ht), mem_lv_addToLevel Lc o ht]
    simp only [List.mem_cons]
    constructor
    · rintro ((h | ⟨h1, h2⟩) | ⟨h1, h2⟩)
      · exact Or.inl h
      · exact Or.inr ⟨h1, Or.inl h2⟩
      · exact Or.inr ⟨h1, Or.inr h2⟩
    · rintro (h | ⟨h1, h2 | h2⟩)
      · exact Or.inl (Or.inl h)
      · exact Or.inl (Or.inr ⟨h1, h2⟩)
      · exact Or.inr ⟨h1, h2⟩

theorem LevelsP.foldAdd {outs : List File} {Lc : List (List File)} (h : LevelsP Lc) {t : Nat}
    (ht : t < 7) (ht1 : 1 ≤ t) (hfo : ∀ o ∈ outs, FileOk o)
    (hnums : outs.Pairwise (fun a b => a.num ≠ b.num))
    (hfresh : ∀ o ∈ outs, ∀ j g, g ∈ lv Lc j → g.num ≠ o.num)
    (hchain : outs.Pairwise (fun a b => kLt a.largest b.smallest = true))
    (hdisj : ∀ o ∈ outs, ∀ g ∈ lv Lc t,
      kLt g.largest o.smallest = true ∨ kLt o.largest g.smallest = true)
    (habove : ∀ o ∈ outs, ∀ i g, g ∈ lv Lc i → i < t → NewerF g o)
    (hbelow : ∀ o ∈ outs, ∀ i g, g ∈ lv Lc i → t < i → NewerF o g) :
    LevelsP (outs.foldl (fun ls f => addToLevel ls t f) Lc) := by
  induction outs generalizing Lc with
  | nil => exact h
  | cons o outs ih =>
    simp only [List.foldl_cons]
    have hn := List.pairwise_cons.mp hnums
    have hc := List.pairwise_cons.mp hchain
    have htl : t < Lc.length := by rw [h.len]; exact ht
    have hmem := mem_lv_addToLevel Lc o htl
    have hstep : LevelsP (addToLevel Lc t o) := by
      apply h.addFile ht (hfo o (List.mem_cons_self ..)) (hfresh o (List.mem_cons_self ..))
      · intro _ g hg; exact hdisj o (List.mem_cons_self ..) g hg
      · exact habove o (List.mem_cons_self ..)
      · exact hbelow o (List.mem_cons_self ..)
      · intro h0; omega
    apply ih hstep (fun o' ho' => hfo o' (List.mem_cons_of_mem _ ho')) hn.2
    · intro o' ho' j g hg
      rcases (hmem j g).mp hg with hg | ⟨_, rfl⟩
      · exact hfresh o' (List.mem_cons_of_mem _ ho') j g hg
      · exact hn.1 o' ho'
    · exact hc.2
    · intro o' ho' g hg
      rcases (hmem t g).mp hg with hg | ⟨_, rfl⟩
      · exact hdisj o' (List.mem_cons_of_mem _ ho') g hg
      · exact Or.inl (hc.1 o' ho')
    · intro o' ho' i g hg hit
      rcases (hmem i g).mp hg with hg | ⟨rfl, _⟩
      · exact habove o' (List.mem_cons_of_mem _ ho') i g hg hit
      · omega
    · intro o' ho' i g hg hit
      rcases (hmem i g).mp hg with hg | ⟨rfl, _⟩
      · exact hbelow o' (List.mem_cons_of_mem _ ho') i g hg hit
      · omega

end Rain.Lsm.Lemmas
