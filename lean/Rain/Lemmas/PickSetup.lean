import Rain.Lemmas.PickOverlap
/-
Input selection, part 4: `setupOtherInputs` (`finalize_compaction_inputs`).  Whatever branch is
taken, the level-`L+1` inputs are computed from the final level-`L` inputs in the same way; the
final level-`L` inputs are the boundary closure of the seed or of a freshly computed overlap set.
From that, every input clause of `validCompaction` follows.
-/
namespace Rain.Lsm.Lemmas
open Rain Rain.Lsm

theorem nodup_of_map_num {fs : List File} (h : (fs.map File.num).Nodup) : fs.Nodup := by
  unfold List.Nodup at h ⊢
  rw [List.pairwise_map] at h
  exact h.imp (fun hab e => hab (by rw [e]))

/-! ### what is established about the chosen files -/

/-- the level-`L` inputs `i0` inside the level `lv` -/
structure SelOk (level : Nat) (lv i0 : List File) : Prop where
  sub : ∀ f ∈ i0, f ∈ lv
  nodup : i0.Nodup
  ne : i0 ≠ []
  l0 : level = 0 → ∀ lo hi, IsHull i0 lo hi →
    ∀ g ∈ lv, g ∉ i0 → userRangeOverlaps g lo hi = true → ∀ f ∈ i0, f.num < g.num
  ln : level ≠ 0 → ∀ g ∈ lv, g ∉ i0 → ∀ f ∈ i0,
    Before g f ∨ (Before f g ∧ g.smallest.1 ≠ f.largest.1)

/-- the level-`L+1` inputs `i1` inside the level `lp`, relative to the user-key hull `[lo, hi]` of
the level-`L` inputs -/
structure NextOk (lp i1 : List File) (lo hi : Bytes) : Prop where
  sub : ∀ f ∈ i1, f ∈ lp
  nodup : i1.Nodup
  all : ∀ g ∈ lp, userRangeOverlaps g lo hi = true → g ∈ i1
  reaches : ∀ f ∈ i1, bytesLt f.largest.1 lo = false
  down : Down lp i1 lo
  closed : ∀ m, maxKey i1 = some m → ∀ g ∈ lp, isCand m g = false

theorem nextOk_of_addBoundary {lp : List File} (hwf : ∀ f ∈ lp, Wf f) (hl : LevelOk lp)
    (hn : lp.Nodup) (lo hi : Bytes) :
    NextOk lp (addBoundary lp (overlapping lp false (some lo) (some hi))) lo hi := by
  rw [overlapping_notL0]
  have hsub : ∀ f ∈ lp.filter (fun f => inRange f (some lo) (some hi)), f ∈ lp :=
    fun f hf => (List.mem_filter.mp hf).1
  refine ⟨addBoundary_sub hsub, addBoundary_nodup hwf (List.Nodup.sublist List.filter_sublist hn),
    ?_, ?_, addBoundary_down hwf hl hsub (filter_overlaps_down hwf lo hi), ?_⟩
  · intro g hg hov
    apply addBoundary_extensive
    rw [List.mem_filter, inRange_some]
    exact ⟨hg, hov⟩
  · apply addBoundary_reaches hwf
    intro f hf
    have := (List.mem_filter.mp hf).2
    simp only [inRange, beforeRange, afterRange, Bool.not_eq_true', Bool.or_eq_false_iff] at this
    exact this.1
  · intro m hm g hg
    by_cases hX : lp.filter (fun f => inRange f (some lo) (some hi)) = []
    · rw [hX, addBoundary_nil] at hm; simp [maxKey] at hm
    · obtain ⟨m', h1, h2⟩ := addBoundary_closed hwf hX
      rw [h1] at hm; cases hm
      exact h2 g hg

/-! ### the clauses of `validInputs` -/

theorem inputs_clauses {level : Nat} {lv lp i0 i1 I0 I1 R0 R1 : List File}
    (hwf0 : ∀ f ∈ lv, Wf f) (hwf1 : ∀ f ∈ lp, Wf f) (hl1 : LevelOk lp)
    (mI0 : ∀ f, f ∈ I0 ↔ f ∈ i0) (mI1 : ∀ f, f ∈ I1 ↔ f ∈ i1)
    (mR0 : ∀ f, f ∈ R0 ↔ f ∈ lv ∧ f ∉ i0) (mR1 : ∀ f, f ∈ R1 ↔ f ∈ lp ∧ f ∉ i1)
    (h0 : SelOk level lv i0) (h1 : ∀ lo hi, IsHull i0 lo hi → NextOk lp i1 lo hi)
    {lo hi : Bytes} {loAll hiAll : Bytes × Nat} (hh : hull I0 = some (lo, hi))
    (hlo : minKey (I0 ++ I1) = some loAll) (hhi : maxKey (I0 ++ I1) = some hiAll) :
    ((if level = 0 then
        R0.all fun g => !userRangeOverlaps g lo hi || I0.all fun f => decide (f.num < g.num)
      else
        R0.all fun g => I0.all fun f =>
          kLt g.largest f.smallest || (kLt f.largest g.smallest && !(g.smallest.1 == f.largest.1))) &&
     outside R1 loAll hiAll &&
     (R1.all fun g => !userRangeOverlaps g lo hi) &&
     (R1.all fun g => !(g.smallest.1 == hiAll.1))) = true := by
  have H : IsHull i0 lo hi := (isHull_of_hull hh).congr mI0
  have N := h1 lo hi H
  have lohi : bytesLt hi lo = false := H.lo_le_hi (fun f hf => hwf0 f (h0.sub f hf))
  obtain ⟨x, hx, hxs⟩ := minKey_mem hlo
  obtain ⟨y, hy, hys⟩ := maxKey_mem hhi
  have hge := maxKey_ge hhi
  -- a remaining next-level file does not meet `[lo, hi]`
  have novl : ∀ g, g ∈ R1 → userRangeOverlaps g lo hi = false := by
    intro g hg
    obtain ⟨hgl, hgn⟩ := (mR1 g).mp hg
    cases hov : userRangeOverlaps g lo hi with
    | false => rfl
    | true => exact absurd (N.all g hgl hov) hgn
  have side : ∀ g, g ∈ R1 → bytesLt hi g.smallest.1 = true ∨ bytesLt g.largest.1 lo = true := by
    intro g hg
    have := novl g hg
    simp only [userRangeOverlaps, Bool.and_eq_false_iff, Bool.not_eq_false'] at this
    exact this
  -- … if it starts after `hi`, it lies after every input
  have after_all : ∀ g, g ∈ R1 → bytesLt hi g.smallest.1 = true → kLt hiAll g.smallest = true := by
    intro g hg hlt
    obtain ⟨hgl, hgn⟩ := (mR1 g).mp hg
    rcases List.mem_append.mp hy with hy0 | hy1
    · have hb := (H.bound y ((mI0 y).mp hy0)).2
      apply kLt_of_fst_lt
      rw [← hys]
      exact bytes_st.lt_of_le_of_lt hb hlt
    · have hy1' := (mI1 y).mp hy1
      rcases level_cases hl1 (N.sub y hy1') hgl with e | hyg | hgy
      · subst e; exact absurd hy1' hgn
      · rw [← hys]; exact hyg
      · rcases N.down y hy1' g hgl hgy with h | h
        · exact absurd h hgn
        · exfalso
          have h3 : bytesLt hi lo = true :=
            bytes_st.trans _ _ _ (bytes_st.lt_of_lt_of_le hlt (hwf1 g hgl).ufst) h
          rw [lohi] at h3; cases h3
  -- … if it ends before `lo`, it lies before every input
  have before_all : ∀ g, g ∈ R1 → bytesLt g.largest.1 lo = true → kLt g.largest loAll = true := by
    intro g hg hlt
    obtain ⟨hgl, hgn⟩ := (mR1 g).mp hg
    rcases List.mem_append.mp hx with hx0 | hx1
    · have hb := (H.bound x ((mI0 x).mp hx0)).1
      apply kLt_of_fst_lt
      rw [← hxs]
      exact bytes_st.lt_of_lt_of_le hlt hb
    · have hx1' := (mI1 x).mp hx1
      rcases level_cases hl1 (N.sub x hx1') hgl with e | hxg | hgx
      · subst e; exact absurd hx1' hgn
      · exfalso
        have h1 : bytesLt g.largest.1 x.largest.1 = false :=
          bytes_st.le_trans (kLt_fst_le hxg) (hwf1 g hgl).ufst
        have h2 := N.reaches x hx1'
        have h3 := bytes_st.lt_of_lt_of_le hlt h2
        rw [h1] at h3; cases h3
      · rw [← hxs]; exact hgx
  simp only [Bool.and_eq_true]
  refine ⟨⟨⟨?_, ?_⟩, ?_⟩, ?_⟩
  · -- remaining files of level `L`
    by_cases hlev : level = 0
    · simp only [hlev, if_true, List.all_eq_true, Bool.or_eq_true, Bool.not_eq_true',
        decide_eq_true_eq]
      intro g hg
      obtain ⟨hgl, hgn⟩ := (mR0 g).mp hg
      cases hov : userRangeOverlaps g lo hi with
      | false => exact Or.inl rfl
      | true =>
        exact Or.inr fun f hf => h0.l0 hlev lo hi H g hgl hgn hov f ((mI0 f).mp hf)
    · simp only [hlev, if_false, List.all_eq_true, Bool.or_eq_true, Bool.and_eq_true,
        Bool.not_eq_true', beq_eq_false_iff_ne, ne_eq]
      intro g hg f hf
      obtain ⟨hgl, hgn⟩ := (mR0 g).mp hg
      rcases h0.ln hlev g hgl hgn f ((mI0 f).mp hf) with h | ⟨h, hne⟩
      · exact Or.inl h
      · exact Or.inr ⟨h, hne⟩
  · -- remaining files of level `L+1` lie outside the span of all inputs
    simp only [outside, List.all_eq_true, Bool.or_eq_true]
    intro g hg
    rcases side g hg with h | h
    · exact Or.inr (after_all g hg h)
    · exact Or.inl (before_all g hg h)
  · simp only [List.all_eq_true, Bool.not_eq_true']
    exact novl
  · -- none of them starts on the user key the inputs end with
    simp only [List.all_eq_true, Bool.not_eq_true', beq_eq_false_iff_ne, ne_eq]
    intro g hg e
    obtain ⟨hgl, hgn⟩ := (mR1 g).mp hg
    obtain ⟨f2, hf2, hf2h⟩ := H.hiMem
    have hhiAll : bytesLt hiAll.1 hi = false := by
      have := kLe_fst_le (hge f2 (List.mem_append_left _ ((mI0 f2).mpr hf2)))
      rw [hf2h] at this; exact this
    rcases side g hg with h | h
    · have hab := after_all g hg h
      rcases List.mem_append.mp hy with hy0 | hy1
      · have hb := (H.bound y ((mI0 y).mp hy0)).2
        rw [hys, ← e] at hb
        rw [hb] at h; cases h
      · have hy1' := (mI1 y).mp hy1
        have hmax : maxKey i1 = some hiAll :=
          maxKey_unique ⟨y, hy1', hys⟩
            (fun f hf => hge f (List.mem_append_right _ ((mI1 f).mpr hf)))
        have := N.closed hiAll hmax g hgl
        rw [isCand_iff.mpr ⟨hab, e⟩] at this; cases this
    · -- g.smallest ≤ g.largest < lo ≤ hi ≤ hiAll = g.smallest
      have h1 : bytesLt g.smallest.1 lo = true := bytes_st.lt_of_le_of_lt (hwf1 g hgl).ufst h
      have h2 : bytesLt g.smallest.1 hi = true := bytes_st.lt_of_lt_of_le h1 lohi
      rw [e] at h2
      rw [hhiAll] at h2; cases h2

/-- **the selected inputs are valid**, given what `SelOk` and `NextOk` say about them -/
theorem validInputs_of {s : State} (hinv : InvP s) {level : Nat} (hlev : level + 1 < 7)
    {i0 i1 : List File} (h0 : SelOk level (lv s.levels level) i0)
    (h1 : ∀ lo hi, IsHull i0 lo hi → NextOk (lv s.levels (level + 1)) i1 lo hi) :
    validInputs s level (i0.map File.num) (i1.map File.num) = true := by
  have hn0 := hinv.numsL level
  have hn1 := hinv.numsL (level + 1)
  have hwf0 : ∀ f ∈ lv s.levels level, Wf f := fun f hf => (hinv.files level f hf).wf
  have hwf1 : ∀ f ∈ lv s.levels (level + 1), Wf f := fun f hf => (hinv.files (level + 1) f hf).wf
  have hl1 : LevelOk (lv s.levels (level + 1)) := hinv.lvls (level + 1) (by omega)
  obtain ⟨lo0, hi0, hH0⟩ := hull_isSome h0.ne
  have N0 := h1 lo0 hi0 (isHull_of_hull hH0)
  have mI0 : ∀ f, f ∈ pick (lv s.levels level) (i0.map File.num) ↔ f ∈ i0 :=
    fun f => mem_pick_map hn0 h0.sub
  have mI1 : ∀ f, f ∈ pick (lv s.levels (level + 1)) (i1.map File.num) ↔ f ∈ i1 :=
    fun f => mem_pick_map hn1 N0.sub
  have mR0 : ∀ f, f ∈ unpick (lv s.levels level) (i0.map File.num) ↔ f ∈ lv s.levels level ∧ f ∉ i0 :=
    fun f => mem_unpick_map hn0 h0.sub
  have mR1 : ∀ f, f ∈ unpick (lv s.levels (level + 1)) (i1.map File.num) ↔
      f ∈ lv s.levels (level + 1) ∧ f ∉ i1 :=
    fun f => mem_unpick_map hn1 N0.sub
  have hI0ne : pick (lv s.levels level) (i0.map File.num) ≠ [] := by
    obtain ⟨a, l, e⟩ := List.exists_cons_of_ne_nil h0.ne
    exact List.ne_nil_of_mem ((mI0 a).mpr (by rw [e]; exact List.mem_cons_self ..))
  obtain ⟨lo, hi, hh⟩ := hull_isSome hI0ne
  obtain ⟨loAll, hlo⟩ := minKey_isSome
    (fs := pick (lv s.levels level) (i0.map File.num) ++ pick (lv s.levels (level + 1)) (i1.map File.num))
    (by simp [hI0ne])
  obtain ⟨hiAll, hhi⟩ := maxKey_isSome
    (fs := pick (lv s.levels level) (i0.map File.num) ++ pick (lv s.levels (level + 1)) (i1.map File.num))
    (by simp [hI0ne])
  have hcl := inputs_clauses hwf0 hwf1 hl1 mI0 mI1 mR0 mR1 h0 h1 hh hlo hhi
  have hlen0 := length_pick_map hn0 h0.sub h0.nodup
  have hlen1 := length_pick_map hn1 N0.sub N0.nodup
  have hd0 := (distinctNums_iff _).mpr (nodup_map_num hn0 h0.sub h0.nodup)
  have hd1 := (distinctNums_iff _).mpr (nodup_map_num hn1 N0.sub N0.nodup)
  have hemp : (pick (lv s.levels level) (i0.map File.num)).isEmpty = false := by
    simpa using hI0ne
  unfold validInputs
  simp only [lv] at hh hlo hhi hcl hlen0 hlen1 hemp
  simp only [hh, hlo, hhi, hcl, hlen0, hlen1, hd0, hd1, hemp, hlev, decide_true, Bool.not_false,
    Bool.and_self]

/-! ### the shape of what `setupOtherInputs` returns -/

theorem setup_cases (size : Nat → Nat) (levels : List (List File)) (level : Nat) (seed : List File)
    (mx : Nat) (hne : seed ≠ []) :
    let r := setupOtherInputs size levels level seed mx
    (∃ kr, keyRange r.1 = some kr ∧
      r.2 = addBoundary (lv levels (level + 1))
        (overlapping (lv levels (level + 1)) false (some kr.1.1) (some kr.2.1))) ∧
    (r.1 = addBoundary (lv levels level) seed ∨
      (r.1 ≠ [] ∧ ∃ a b, r.1 = addBoundary (lv levels level)
        (overlapping (lv levels level) (level == 0) (some a) (some b)))) := by
  intro r
  simp only [lv]
  have hin0 : addBoundary (levels.getD level []) seed ≠ [] := addBoundary_ne_nil hne
  obtain ⟨r0, hr0⟩ := keyRange_isSome hin0
  have hr : r = setupOtherInputs size levels level seed mx := rfl
  simp only [setupOtherInputs] at hr
  rw [hr0] at hr
  simp only at hr
  split at hr
  · rw [hr]; exact ⟨⟨r0, hr0, rfl⟩, Or.inl rfl⟩
  · split at hr
    · split at hr
      · rw [hr]; exact ⟨⟨r0, hr0, rfl⟩, Or.inl rfl⟩
      · rename_i nr hnr
        split at hr
        · rw [hr]
          refine ⟨⟨nr, hnr, rfl⟩, Or.inr ⟨?_, _, _, rfl⟩⟩
          intro e
          have h2 := hnr.symm.trans (keyRange_eq_none.mpr e)
          cases h2
        · rw [hr]; exact ⟨⟨r0, hr0, rfl⟩, Or.inl rfl⟩
    · rw [hr]; exact ⟨⟨r0, hr0, rfl⟩, Or.inl rfl⟩

/-! ### `SelOk` for the two possible level-`L` input sets -/

/-- the seed contains every level-0 file that meets its user-key hull -/
def HullClosed (lf X : List File) : Prop :=
  ∀ lo hi, IsHull X lo hi → ∀ g ∈ lf, userRangeOverlaps g lo hi = true → g ∈ X

theorem selOk_level0 {lf X : List File} (hwf : ∀ f ∈ lf, Wf f) (hsub : ∀ f ∈ X, f ∈ lf)
    (hd : X.Nodup) (hne : X ≠ []) (hcl : HullClosed lf X) : SelOk 0 lf (addBoundary lf X) := by
  rw [addBoundary_of_hullClosed hwf hsub hcl]
  exact ⟨hsub, hd, hne, fun _ lo hi hH g hg hgn hov => absurd (hcl lo hi hH g hg hov) hgn,
    fun h => absurd rfl h⟩

/-- every level-0 file outside the seed that meets the seed's user-key hull is newer than every
seed file -/
def NewerClosed (lf X : List File) : Prop :=
  ∀ lo hi, IsHull X lo hi → ∀ g ∈ lf, g ∉ X → userRangeOverlaps g lo hi = true →
    ∀ f ∈ X, f.num < g.num

/-- level 0: a newer file holds, for every user key it shares with an older file, a larger
sequence number, so it cannot start above the older file's largest key on the same user key:
there is no boundary candidate outside the seed either -/
theorem addBoundary_of_newerClosed {lf X : List File} (hok : ∀ f ∈ lf, FileOk f)
    (hord : ∀ f ∈ lf, ∀ g ∈ lf, g.num < f.num → NewerF f g)
    (hX : ∀ f ∈ X, f ∈ lf) (hcl : NewerClosed lf X) : addBoundary lf X = X := by
  apply addBoundary_eq_self
  intro key hk g hg
  cases hc : isCand key g with
  | false => rfl
  | true =>
    exfalso
    obtain ⟨hab, hsame⟩ := isCand_iff.mp hc
    obtain ⟨F, hF, hFk⟩ := maxKey_mem hk
    obtain ⟨lo, hi, hh⟩ := hull_isSome (List.ne_nil_of_mem hF)
    have hH := isHull_of_hull hh
    have hwf : ∀ f ∈ lf, Wf f := fun f hf => (hok f hf).wf
    have hov : userRangeOverlaps g lo hi = true := by
      rw [overlaps_iff]
      have hb := hH.bound F hF
      rw [hFk, ← hsame] at hb
      refine ⟨hb.2, ?_⟩
      have h1 : bytesLt F.largest.1 F.smallest.1 = false := (hwf F (hX F hF)).ufst
      have h2 : bytesLt F.smallest.1 lo = false := (hH.bound F hF).1
      rw [hFk, ← hsame] at h1
      exact bytes_st.le_trans (bytes_st.le_trans h2 h1) (hwf g hg).ufst
    by_cases hgX : g ∈ X
    · have h1 := maxKey_ge hk g hgX
      have h2 : kLt key g.largest = true := k_st.lt_of_lt_of_le hab (hwf g hg)
      rw [h1] at h2; cases h2
    · have hnum := hcl lo hi hH g hg hgX hov F hF
      have hnew := hord g hg F (hX F hF) hnum
      obtain ⟨x, _, hxe, hxk⟩ := (hok g hg).small_mem
      obtain ⟨ys, y, hye, hyk⟩ := (hok F (hX F hF)).large_mem
      have hx : x ∈ g.entries := by rw [hxe]; exact List.mem_cons_self ..
      have hy : y ∈ F.entries := by rw [hye]; simp
      have hxu : x.ukey = g.smallest.1 := by rw [← hxk]; rfl
      have hyu : y.ukey = F.largest.1 := by rw [← hyk]; rfl
      have hseq := hnew x hx y hy (by rw [hxu, hyu, hFk, hsame])
      -- `key < g.smallest` on the same user key means `g.smallest.2 < key.2`
      have := (kLt_same' (a := key) (b := g.smallest) hsame.symm).mp hab
      have hxs : x.seq = g.smallest.2 := by rw [← hxk]; rfl
      have hys : y.seq = key.2 := by rw [← hFk, ← hyk]; rfl
      omega

theorem selOk_level0_newer {lf X : List File} (hok : ∀ f ∈ lf, FileOk f)
    (hord : ∀ f ∈ lf, ∀ g ∈ lf, g.num < f.num → NewerF f g)
    (hsub : ∀ f ∈ X, f ∈ lf) (hd : X.Nodup) (hne : X ≠ []) (hcl : NewerClosed lf X) :
    SelOk 0 lf (addBoundary lf X) := by
  rw [addBoundary_of_newerClosed hok hord hsub hcl]
  exact ⟨hsub, hd, hne, fun _ => hcl, fun h => absurd rfl h⟩

theorem selOk_levelN {level : Nat} {lf X : List File} (hlev : level ≠ 0) (hwf : ∀ f ∈ lf, Wf f)
    (hl : LevelOk lf) (hsub : ∀ f ∈ X, f ∈ lf) (hd : X.Nodup) (hne : X ≠ []) (hc : Conv lf X) :
    SelOk level lf (addBoundary lf X) := by
  refine ⟨addBoundary_sub hsub, addBoundary_nodup hwf hd, addBoundary_ne_nil hne,
    fun h => absurd h hlev, fun _ => ?_⟩
  obtain ⟨m, hm, hcl⟩ := addBoundary_closed hwf hne
  exact remaining_apart hl (addBoundary_sub hsub) (addBoundary_conv hwf hl hsub hc) hm hcl

/-! ### the seeds the callers build -/

theorem hull_of_isHull {X : List File} {lo hi : Bytes} (h : IsHull X lo hi) :
    hull X = some (lo, hi) := by
  obtain ⟨f, hf, _⟩ := h.loMem
  obtain ⟨lo', hi', hh⟩ := hull_isSome (List.ne_nil_of_mem hf)
  obtain ⟨rfl, rfl⟩ := h.unique (isHull_of_hull hh)
  exact hh

/-- a single file is convex -/
theorem conv_single {lf : List File} (hwf : ∀ f ∈ lf, Wf f) {f : File} (hf : f ∈ lf) :
    Conv lf [f] := by
  intro a ha b hb g hg hag hgb
  simp at ha hb; subst ha; subst hb
  exact absurd hgb (Before.asymm (hwf _ hf) (hwf g hg) hag)

/-- a prefix of a convex sublist of a sorted level is convex (`compact_range` truncates the
overlapping files of a level > 0 to a prefix) -/
theorem conv_take {lf X : List File} (hwf : ∀ f ∈ lf, Wf f) (hl : LevelOk lf) (hX : X.Sublist lf)
    (hc : Conv lf X) (n : Nat) : Conv lf (X.take n) := by
  intro f hf h hh g hg hfg hgh
  have hgX : g ∈ X := hc f (List.mem_of_mem_take hf) h (List.mem_of_mem_take hh) g hg hfg hgh
  have hp : LevelOk (X.take n ++ X.drop n) := by
    rw [List.take_append_drop]; exact List.Pairwise.sublist hX hl
  rw [← List.take_append_drop n X] at hgX
  rcases List.mem_append.mp hgX with h1 | h1
  · exact h1
  · have := (List.pairwise_append.mp hp).2.2 h hh g h1
    exact absurd hgh (Before.asymm (hwf h (hX.subset (List.mem_of_mem_take hh))) (hwf g hg) this)

end Rain.Lsm.Lemmas
