import Rain.DbIter
import Rain.Lemmas.OrderIter
/-
`visible snap es none` for a sorted `es` is the filter of `es` by "newest entry of its user key at or
below the bound, and a put".
-/
namespace Rain.Visible
open Rain Rain.Lsm Rain.Table Rain.Merge Rain.DbIter Rain.OrderIter

def kv (e : Entry) : Bytes × Bytes := (e.ukey, e.val)

/-- `e` is what a reader at `snap` sees for its user key -/
def visB (es : List Entry) (snap : Nat) (e : Entry) : Bool :=
  decide (e.seq ≤ snap) && e.put &&
    es.all (fun x => !(x.ukey == e.ukey && decide (e.seq < x.seq) && decide (x.seq ≤ snap)))

theorem visB_iff (es : List Entry) (snap : Nat) (e : Entry) :
    visB es snap e = true ↔ e.seq ≤ snap ∧ e.put = true ∧
      ∀ x ∈ es, x.ukey = e.ukey → e.seq < x.seq → ¬ x.seq ≤ snap := by
  simp only [visB, Bool.and_eq_true, decide_eq_true_eq, List.all_eq_true, Bool.not_eq_eq_eq_not,
    Bool.not_true, and_assoc]
  constructor
  · rintro ⟨h1, h2, h3⟩
    refine ⟨h1, h2, ?_⟩
    intro x hx hu hlt hq
    have := h3 x hx
    simp [hu, hlt, hq] at this
  · rintro ⟨h1, h2, h3⟩
    refine ⟨h1, h2, ?_⟩
    intro x hx
    cases h : (x.ukey == e.ukey && decide (e.seq < x.seq) && decide (x.seq ≤ snap))
    · rfl
    · simp only [Bool.and_eq_true, beq_iff_eq, decide_eq_true_eq] at h
      exact absurd h.2 (h3 x hx h.1.1 h.1.2)

def doneHit (done : Option Bytes) (u : Bytes) : Bool :=
  match done with | some k => k == u | none => false

theorem doneHit_iff (done : Option Bytes) (u : Bytes) : doneHit done u = true ↔ done = some u := by
  cases done <;> simp [doneHit]

theorem visible_cons (snap : Nat) (e : Entry) (rest : List Entry) (done : Option Bytes) :
    visible snap (e :: rest) done =
      if doneHit done e.ukey then visible snap rest done
      else if decide (e.seq ≤ snap) then
        (if e.put then [(e.ukey, e.val)] else []) ++ visible snap rest (some e.ukey)
      else visible snap rest done := by
  conv => lhs; unfold visible
  rfl

theorem ukey_le_of_kLt {a b : Bytes × Nat} (h : kLt a b = true) : bytesLt b.1 a.1 = false := by
  rw [kLt_iff] at h
  rcases h with h | ⟨h, _⟩
  · exact bLt_asymm h
  · rw [h]; exact bLt_irrefl _

theorem seq_lt_of_kLt {a b : Bytes × Nat} (h : kLt a b = true) (he : a.1 = b.1) : b.2 < a.2 := by
  rw [kLt_iff] at h
  rcases h with h | ⟨_, h⟩
  · rw [he, bLt_irrefl] at h; simp at h
  · exact h

theorem eukey_le {a b : Entry} (h : kLt a.key b.key = true) : bytesLt b.ukey a.ukey = false :=
  ukey_le_of_kLt h

theorem eseq_lt {a b : Entry} (h : kLt a.key b.key = true) (he : a.ukey = b.ukey) : b.seq < a.seq :=
  seq_lt_of_kLt h he

theorem sorted_append3 {pre rest : List Entry} {e : Entry} (hs : Sorted (pre ++ e :: rest)) :
    (∀ x ∈ pre, kLt x.key e.key = true) ∧ (∀ y ∈ rest, kLt e.key y.key = true) ∧
    (∀ x ∈ pre, ∀ y ∈ rest, kLt x.key y.key = true) := by
  simp only [Sorted, List.pairwise_append, List.pairwise_cons, List.mem_cons] at hs
  obtain ⟨_, ⟨h2, _⟩, h3⟩ := hs
  exact ⟨fun x hx => h3 x hx e (.inl rfl), h2, fun x hx y hy => h3 x hx y (.inr hy)⟩

theorem visible_eq_filter_aux (snap : Nat) (post pre : List Entry) (done : Option Bytes)
    (hs : Sorted (pre ++ post))
    (hinv : ∀ y ∈ post, y.seq ≤ snap →
      (done = some y.ukey ↔ ∃ x ∈ pre, x.ukey = y.ukey ∧ x.seq ≤ snap)) :
    visible snap post done = (post.filter (visB (pre ++ post) snap)).map kv := by
  induction post generalizing pre done with
  | nil => simp [visible]
  | cons e rest ih =>
    obtain ⟨s1, s2, s3⟩ := sorted_append3 hs
    have hassoc : pre ++ e :: rest = (pre ++ [e]) ++ rest := by simp
    have hs' : Sorted ((pre ++ [e]) ++ rest) := by rw [← hassoc]; exact hs
    -- earlier entry with the same user key at or below the bound kills visibility
    have kill : (∃ x ∈ pre, x.ukey = e.ukey ∧ x.seq ≤ snap) → visB (pre ++ e :: rest) snap e = false := by
      rintro ⟨x, hx, hu, hq⟩
      cases hv : visB (pre ++ e :: rest) snap e
      · rfl
      · rw [visB_iff] at hv
        have := eseq_lt (s1 x hx) hu
        exact absurd hq (hv.2.2 x (by simp [hx]) hu this)
    by_cases hdone : done = some e.ukey
    · -- already emitted / shadowed
      have hv : visB (pre ++ e :: rest) snap e = false := by
        by_cases hq : e.seq ≤ snap
        · exact kill ((hinv e (by simp) hq).mp hdone)
        · simp [visB, hq]
      have hcond : doneHit done e.ukey = true := (doneHit_iff _ _).mpr hdone
      rw [visible_cons, if_pos hcond, List.filter_cons, hv]
      simp only [Bool.false_eq_true, if_false]
      rw [hassoc]
      apply ih (pre ++ [e]) done hs'
      intro y hy hyq
      rw [hinv y (by simp [hy]) hyq]
      constructor
      · rintro ⟨x, hx, h⟩; exact ⟨x, by simp [hx], h⟩
      · rintro ⟨x, hx, hu, hq⟩
        rcases List.mem_append.mp hx with hx | hx
        · exact ⟨x, hx, hu, hq⟩
        · simp at hx; subst hx
          exact (hinv y (by simp [hy]) hyq).mp (by rw [hdone, hu])
    · have hcond : ¬ doneHit done e.ukey = true := fun h => hdone ((doneHit_iff _ _).mp h)
      rw [visible_cons, if_neg hcond]
      by_cases hq : e.seq ≤ snap
      · have hnone : ¬ ∃ x ∈ pre, x.ukey = e.ukey ∧ x.seq ≤ snap :=
          fun h => hdone ((hinv e (by simp) hq).mpr h)
        have hv : visB (pre ++ e :: rest) snap e = e.put := by
          cases hp : e.put
          · simp [visB, hp]
          · rw [visB_iff]
            refine ⟨hq, hp, ?_⟩
            intro x hx hu hlt hxq
            rcases List.mem_append.mp hx with hx | hx
            · exact hnone ⟨x, hx, hu, hxq⟩
            · rcases List.mem_cons.mp hx with rfl | hx
              · omega
              · have := eseq_lt (s2 x hx) hu.symm
                omega
        have hrest : visible snap rest (some e.ukey)
            = (rest.filter (visB (pre ++ e :: rest) snap)).map kv := by
          rw [hassoc]
          apply ih (pre ++ [e]) (some e.ukey) hs'
          intro y hy hyq
          constructor
          · intro h
            exact ⟨e, by simp, by simpa using h, hq⟩
          · rintro ⟨x, hx, hu, _⟩
            rcases List.mem_append.mp hx with hx | hx
            · have h1 := eukey_le (s1 x hx)
              have h2 := eukey_le (s2 y hy)
              rw [hu] at h1
              rw [bLt_total h1 h2]
            · simp at hx; subst hx; rw [hu]
        rw [if_pos (by simpa using hq), hrest, List.filter_cons, hv]
        cases e.put <;> simp [kv]
      · have hv : visB (pre ++ e :: rest) snap e = false := by simp [visB, hq]
        rw [if_neg (by simpa using hq), List.filter_cons, hv]
        simp only [Bool.false_eq_true, if_false]
        rw [hassoc]
        apply ih (pre ++ [e]) done hs'
        intro y hy hyq
        rw [hinv y (by simp [hy]) hyq]
        constructor
        · rintro ⟨x, hx, h⟩; exact ⟨x, by simp [hx], h⟩
        · rintro ⟨x, hx, hu, hxq⟩
          rcases List.mem_append.mp hx with hx | hx
          · exact ⟨x, hx, hu, hxq⟩
          · simp at hx; subst hx; exact absurd hxq hq

theorem visible_eq_filter (snap : Nat) (es : List Entry) (hs : Sorted es) :
    visible snap es none = (es.filter (visB es snap)).map kv := by
  have := visible_eq_filter_aux snap es [] none (by simpa using hs) (by simp)
  simpa using this

theorem visible_sorted' (es : List Entry) (hs : Sorted es) (snap : Nat) :
    ((visible snap es none).map Prod.fst).Pairwise (fun a b => bytesLt a b = true) := by
  rw [visible_eq_filter snap es hs, List.map_map, List.pairwise_map]
  rw [List.pairwise_filter]
  apply List.Pairwise.imp_of_mem _ hs
  intro a b ha hb hab hva hvb
  show bytesLt a.ukey b.ukey = true
  rw [visB_iff] at hva hvb
  have h := (kLt_iff a.key b.key).mp hab
  rcases h with h | ⟨h1, h2⟩
  · exact h
  · exact absurd hva.1 (hvb.2.2 a ha h1 h2)

theorem newest_none (F : List Entry) : newest F = none ↔ F = [] := by
  cases F with
  | nil => simp [newest]
  | cons a r =>
    simp only [newest]
    split <;> (try split) <;> simp

theorem newest_some {F : List Entry} {b : Entry} (h : newest F = some b) :
    b ∈ F ∧ ∀ x ∈ F, x.seq ≤ b.seq := by
  induction F generalizing b with
  | nil => simp [newest] at h
  | cons a r ih =>
    simp only [newest] at h
    split at h
    · rename_i hn
      simp at h; subst h
      rw [newest_none] at hn; subst hn
      simp
    · rename_i b' hb'
      obtain ⟨i1, i2⟩ := ih hb'
      split at h
      · simp at h; subst h
        refine ⟨by simp, ?_⟩
        intro x hx
        rcases List.mem_cons.mp hx with rfl | hx
        · omega
        · have := i2 x hx; omega
      · simp at h; subst h
        refine ⟨by simp [i1], ?_⟩
        intro x hx
        rcases List.mem_cons.mp hx with rfl | hx
        · omega
        · exact i2 x hx

theorem mem_visible (es : List Entry) (hs : Sorted es) (snap : Nat) (k v : Bytes) :
    (k, v) ∈ visible snap es none ↔ ∃ e ∈ es, visB es snap e = true ∧ e.ukey = k ∧ e.val = v := by
  rw [visible_eq_filter snap es hs]
  simp only [List.mem_map, List.mem_filter, kv, Prod.mk.injEq]
  constructor
  · rintro ⟨e, ⟨h1, h2⟩, h3, h4⟩; exact ⟨e, h1, h2, h3, h4⟩
  · rintro ⟨e, h1, h2, h3, h4⟩; exact ⟨e, ⟨h1, h2⟩, h3, h4⟩

theorem visible_is_view' (es : List Entry) (hs : Sorted es) (snap : Nat) (k v : Bytes) :
    (k, v) ∈ visible snap es none ↔ view es snap k = some v := by
  rw [mem_visible es hs]
  simp only [view]
  constructor
  · rintro ⟨e, he, hv, hk, hval⟩
    rw [visB_iff] at hv
    have heF : e ∈ es.filter (fun e => e.ukey == k && decide (e.seq ≤ snap)) := by
      simp [List.mem_filter, he, hk, hv.1]
    cases hn : newest (es.filter (fun e => e.ukey == k && decide (e.seq ≤ snap))) with
    | none => rw [newest_none] at hn; rw [hn] at heF; simp at heF
    | some b =>
      obtain ⟨b1, b2⟩ := newest_some hn
      simp only [List.mem_filter, Bool.and_eq_true, beq_iff_eq, decide_eq_true_eq] at b1
      have hle := b2 e heF
      have hbe : b = e := by
        apply sorted_key_inj hs b1.1 he
        have hseq : b.seq = e.seq := by
          by_cases hlt : e.seq < b.seq
          · exact absurd b1.2.2 (hv.2.2 b b1.1 (b1.2.1.trans hk.symm) hlt)
          · omega
        simp [Entry.key, hseq, b1.2.1, hk]
      subst hbe
      simp [hv.2.1, hval]
  · intro h
    cases hn : newest (es.filter (fun e => e.ukey == k && decide (e.seq ≤ snap))) with
    | none => rw [hn] at h; simp at h
    | some b =>
      rw [hn] at h
      obtain ⟨b1, b2⟩ := newest_some hn
      simp only [List.mem_filter, Bool.and_eq_true, beq_iff_eq, decide_eq_true_eq] at b1
      simp only at h
      split at h
      · rename_i hput
        simp at h
        refine ⟨b, b1.1, ?_, b1.2.1, h⟩
        rw [visB_iff]
        refine ⟨b1.2.2, hput, ?_⟩
        intro x hx hu hlt hq
        have : x ∈ es.filter (fun e => e.ukey == k && decide (e.seq ≤ snap)) := by
          simp [List.mem_filter, hx, hu, b1.2.1, hq]
        have := b2 x this
        omega
      · simp at h

end Rain.Visible
